/-
  C09 §8 — graph → ms → graph with exponential epochs, by composing C07 (`msSemG_finalEvs`, `popsMatch_run`,
  `migsMatch_run`, `movesMatch_run`), the bridge with growth rates (`msSem_renderV`), the sizes
  (`sizes_deme`) and C08 (`fromMs_sem_plain`), given that `from_ms` accepts the printed command.
-/
import DemesVerif.Proofs.MsGrowBridge
import DemesVerif.Proofs.MsGrowParse
import DemesVerif.Proofs.MsGrowSizes
import DemesVerif.Proofs.MsGrowTame
import DemesVerif.Proofs.MsRTCompose
import DemesVerif.Proofs.MsRTNorm
namespace Demes.Proofs.MsGrow
open Demes Demes.Ms Demes.Spec Demes.Spec.C07 Demes.Spec.C09
open Demes.Spec.MsSem (DemogSem PopSem Seg msSem graphSem graphSemWith msGraphSem parse)
open Demes.Spec.C08 (semEquiv popEquiv SemAgree resultSem Tame' PlainTokens segOwns segValue)
open Demes.Proofs.ToMs (Clauses clauses_of_valid headerOf finalEvs cmdOf headerToks toMs_ok_eq parseCmd_cmdOf
  sorted_byQ_finalEvs byQ expr_inGen samplesOk_inGen gSem gSem_pops gPopOf pidOf graphSem_ok updsOfDeme
  msSemG_finalEvs popsMatch_run migsMatch_run movesMatch_run semPops_get runP s0Of popsObs)
open Demes.Proofs.MsRT (toksOf HdrOK Tiles cmdOf_eq_toksOf hdrOK_headerOf sorted_finalEvs' zip_mem_index zip_of_index
  migsRefine_embed migsRefine_congr semRefines_of_equiv fromMs_sem_plain gSem_ids)

/-! ### `regrow` changes the sizes only -/

theorem regrow_pops (gv : Growth → Q) (N0 : Q) (gs : DemogSem) :
    (regrow gv N0 gs).pops = gs.pops.map (regrowPop gv N0) := rfl

theorem inLife_regrowPop (gv : Growth → Q) (N0 : Q) (p : PopSem) (t : Q) :
    C07.inLife (regrowPop gv N0 p) t = C07.inLife p t := rfl

theorem migCutsD_regrow (gv : Growth → Q) (N0 : Q) (A gs : DemogSem) :
    migCutsD A (regrow gv N0 gs) = migCutsD A gs := by
  unfold migCutsD
  simp only [regrow_pops, List.map_map]
  rfl

theorem migsRefine_regrow (gv : Growth → Q) (N0 : Q) (A gs : DemogSem) :
    migsRefine A (regrow gv N0 gs) = migsRefine A gs := by
  unfold migsRefine
  rw [migCutsD_regrow, regrow_pops, List.all_map]
  apply List.all_congr rfl
  intro pi
  simp only [Function.comp_def]
  rw [List.all_map]
  rfl

theorem lifeOf_regrow (gv : Growth → Q) (N0 : Q) (gs : DemogSem) (i : Nat) :
    C07.lifeOf (regrow gv N0 gs) i = (C07.lifeOf gs i).map (regrowPop gv N0) := by
  unfold C07.lifeOf
  rw [regrow_pops, List.find?_map]
  rfl

theorem restrictRows_congr (rows : List (Nat × List (Nat × Q))) (f f' g g' : Nat → Bool)
    (hf : ∀ i, f i = f' i) (hg : ∀ i, g i = g' i) :
    (if ((rows.filter (fun ir => f ir.1)).all fun ir => ir.2.all fun jp => g jp.1) = true
      then some (rows.filter (fun ir => f ir.1)) else none)
    = (if ((rows.filter (fun ir => f' ir.1)).all fun ir => ir.2.all fun jp => g' jp.1) = true
      then some (rows.filter (fun ir => f' ir.1)) else none) := by
  have e1 : f = f' := funext hf
  have e2 : g = g' := funext hg
  rw [e1, e2]

theorem restrictRows_regrow (gv : Growth → Q) (N0 : Q) (gs : DemogSem) (T : Q) (rows : List (Nat × List (Nat × Q))) :
    C07.restrictRows (regrow gv N0 gs) T rows = C07.restrictRows gs T rows := by
  unfold C07.restrictRows
  exact restrictRows_congr rows
    (fun i => match C07.lifeOf (regrow gv N0 gs) i with
      | some p => decide (p.lo < T) && decide (ETime.fin T ≤ p.hi)
      | none => false)
    (fun i => match C07.lifeOf gs i with
      | some p => decide (p.lo < T) && decide (ETime.fin T ≤ p.hi)
      | none => false)
    (fun i => match C07.lifeOf (regrow gv N0 gs) i with
      | some p => C07.inLife p T
      | none => false)
    (fun i => match C07.lifeOf gs i with
      | some p => C07.inLife p T
      | none => false)
    (fun i => by rw [lifeOf_regrow]; cases C07.lifeOf gs i <;> rfl)
    (fun i => by rw [lifeOf_regrow]; cases C07.lifeOf gs i <;> rfl)

theorem restrictMoves_regrow (gv : Growth → Q) (N0 : Q) (gs : DemogSem) :
    ∀ ms : List MsSem.Move, C07.restrictMoves (regrow gv N0 gs) ms = C07.restrictMoves gs ms
  | [] => rfl
  | m :: ms => by
    unfold C07.restrictMoves
    rw [restrictRows_regrow, restrictMoves_regrow gv N0 gs ms]

/-! ### C07's relation, transported along the embedding with growth rates -/

/-- the observable of the command `to_ms` emits for a valid ms-expressible graph `g` in generations with
exact ancestry proportions, evaluated with the printed growth rates (`embedSemV gv N0`), is the demography of
`g` with every growth rate replaced by its printed value (`regrow gv N0`) -/
theorem semRefines_embedV {g : Graph} (cl : Clauses g) (hx : MsExpressible g = true) (hex : ExactProportions g = true)
    {N0 : Q} (hN : 0 < N0) {gv : Growth → Q} (hz : gv Growth.zero = 0) (InG : Growth → Prop)
    (hin : ∀ d ∈ g.demes, ∀ e ∈ d.epochs, InG (growthOf N0 e))
    (hcg : ∀ G G', InG G → InG G' → G.eq G' = true → gv G = gv G')
    (samples : Option (List Int)) {sem : DemogSemG}
    (hsem : msSemG ⟨headerOf g samples, finalEvs g N0⟩ N0 = .ok sem)
    (hwf : ∀ p ∈ sem.pops, UpdWFV p)
    (hchron : sem.snaps.Pairwise (fun a b => a.1 ≤ b.1))
    (hdim : ∀ tm ∈ sem.snaps, tm.2.length ≤ (sem.snaps.getLast?.map (·.2.length)).getD 0
              ∧ ∀ row ∈ tm.2, row.length ≤ (sem.snaps.getLast?.map (·.2.length)).getD 0) :
    SemRefines (embedSemV gv N0 sem) (regrow gv N0 (gSem g)) := by
  obtain ⟨sem', hsem', hp, hsn, hm⟩ := msSemG_finalEvs cl hx hN samples
  have : sem' = sem := by rw [hsem] at hsem'; cases hsem'; rfl
  subst this
  have hpm := popsMatch_run cl hx hN sem' hp
  have hmm := migsMatch_run cl hx hN sem' hsn
  have hvm := movesMatch_run cl hx hex hN sem' hm
  simp only [popsMatch, Bool.and_eq_true, beq_iff_eq, List.all_eq_true, decide_eq_true_eq] at hpm
  obtain ⟨hid, hall⟩ := hpm
  have hget : ∀ k : Nat, sem'.pops[k]? = (g.demes[k]?).map (fun d =>
      ({ id := k + 1, lo := 0, hi := d.startTime, upd := updsOfDeme N0 k d } : PopSemG)) := by
    intro k; rw [hp]; exact semPops_get cl hx hN k
  have hgs : ∀ k : Nat, (gSem g).pops[k]? = (g.demes[k]?).map (gPopOf g) := by
    intro k; rw [gSem_pops cl, List.getElem?_map]
  -- a pair of the two observables comes from one deme
  have hzip : ∀ ab ∈ (embedSemV gv N0 sem').pops.zip (regrow gv N0 (gSem g)).pops,
      ∃ (k : Nat) (d : Deme), g.demes[k]? = some d
        ∧ ab.1 = embedPopV gv N0 ⟨k + 1, 0, d.startTime, updsOfDeme N0 k d⟩
        ∧ ab.2 = regrowPop gv N0 (gPopOf g d)
        ∧ (⟨k + 1, 0, d.startTime, updsOfDeme N0 k d⟩ : PopSemG) ∈ sem'.pops := by
    intro ab hab
    obtain ⟨k, h1, h2⟩ := zip_mem_index hab
    simp only [embedSemV, List.getElem?_map, hget] at h1
    rw [regrow_pops, List.getElem?_map, hgs] at h2
    cases hd : g.demes[k]? with
    | none => rw [hd] at h1; cases h1
    | some d =>
      rw [hd] at h1 h2
      simp only [Option.map_some, Option.some.injEq] at h1 h2
      refine ⟨k, d, hd, h1.symm, h2.symm, ?_⟩
      have := hget k
      rw [hd] at this
      exact List.mem_of_getElem? this
  refine ⟨?_, ?_, ?_, ?_, ?_⟩
  · simp only [embedSemV, regrow_pops, List.map_map]
    rw [show (List.map ((fun x => x.id) ∘ regrowPop gv N0) (gSem g).pops) = (gSem g).pops.map (·.id) from rfl, ← hid]
    rfl
  · intro ab hab
    obtain ⟨k, d, hd, e1, e2, _⟩ := hzip ab hab
    rw [e1, e2]
    refine ⟨rfl, ?_⟩
    show (0 : Q) ≤ d.endTime
    exact Demes.Proofs.deme_end_nonneg (Demes.Proofs.migFacts_of cl.h1 cl.h6 cl.h8 cl.h9) (List.mem_of_getElem? hd)
  · intro ab hab t ht1 ht2
    obtain ⟨k, d, hd, e1, e2, hmem⟩ := hzip ab hab
    rw [e1, e2]
    rw [e2] at ht1 ht2
    exact sizes_deme cl hx hN hz InG hin hcg hd (hwf _ hmem) t ht1 ht2
  · rw [migsRefine_regrow]
    have := migsRefine_embed sem' (gSem g) hchron hdim (gSem_ids cl) hmm
    rw [← this]
    exact migsRefine_congr rfl
  · simp only [movesMatch, beq_iff_eq] at hvm
    rw [restrictMoves_regrow]
    exact hvm

/-! ### the command `to_ms` prints, in the vocabulary of the bridge with growth rates -/

/-- the growth rates of the epochs of the graph in generations are those listed by `epochGrowths` -/
theorem mem_epochGrowths {graph : Graph} {N0 : Q} {d : Deme} (hd : d ∈ (inGenerations graph).demes) {e : Epoch}
    (he : e ∈ d.epochs) : growthOf N0 e ∈ epochGrowths graph N0 := by
  unfold epochGrowths
  exact List.mem_flatMap.2 ⟨d, hd, List.mem_map.2 ⟨e, he, rfl⟩⟩

/-- what the pieces give for the command `to_ms` prints for a valid ms-expressible graph (exponential epochs
allowed), a codec that covers its numbers and a growth printer -/
theorem toMs_bridgeV (c : NumCodec) (sa : Growth → String) {g : Graph} (hv : validGraph g = true)
    (hx : MsExpressible g = true) {N0 : Q} (hN : 0 < N0)
    {samples : Option (List Int)} (hs : samplesOk g samples = true) {toks : List (Tok Growth)}
    (htoks : toMs g N0 samples = .ok toks) (hc : CodecCovers c toks)
    (hsa : GrowthPrinter sa (epochGrowths g N0)) :
    toks = toksOf (headerOf (inGenerations g) samples) (finalEvs (inGenerations g) N0)
    ∧ parseCmd toks = some ⟨headerOf (inGenerations g) samples, finalEvs (inGenerations g) N0⟩
    ∧ PlainTokens (renderG c sa toks) = true
    ∧ parse (renderG c sa toks)
        = .ok (prOfV (growthVal sa) (headerOf (inGenerations g) samples) (finalEvs (inGenerations g) N0))
    ∧ ∀ semG, msSemG ⟨headerOf (inGenerations g) samples, finalEvs (inGenerations g) N0⟩ N0 = .ok semG →
        msSem (renderG c sa toks) N0 = .ok (embedSemV (growthVal sa) N0 semG)
        ∧ (∀ p ∈ semG.pops, UpdWFV p) ∧ semG.snaps.Pairwise (fun a b => a.1 ≤ b.1)
        ∧ (∀ tm ∈ semG.snaps, tm.2.length ≤ (semG.snaps.getLast?.map (·.2.length)).getD 0
              ∧ ∀ row ∈ tm.2, row.length ≤ (semG.snaps.getLast?.map (·.2.length)).getD 0) := by
  have cl := clauses_of_valid (InGen.inGenerations_valid g hv)
  have hx' : MsExpressible (inGenerations g) = true := by rw [expr_inGen]; exact hx
  have hs' : samplesOk (inGenerations g) samples = true := by rw [samplesOk_inGen]; exact hs
  have heq : toks = cmdOf (inGenerations g) N0 samples := by
    rw [toMs_ok_eq hv hx hN hs] at htoks; cases htoks; rfl
  have heq2 : toks = toksOf (headerOf (inGenerations g) samples) (finalEvs (inGenerations g) N0) := by
    rw [heq, cmdOf_eq_toksOf]
  have hh := hdrOK_headerOf (inGenerations g) samples hs'
  have he := evG_finalEvs cl hx' hN
  have ha := alphaOK_toMs hv hx hN hsa
  have hsort := sorted_finalEvs' cl hx' hN
  have hc' : CodecCovers c (toksOf (headerOf (inGenerations g) samples) (finalEvs (inGenerations g) N0)) := by
    rw [← heq2]; exact hc
  have hparse := parse_renderV c sa _ _ hh he hc' ha
  refine ⟨heq2, ?_, ?_, ?_, ?_⟩
  · rw [heq]; exact parseCmd_cmdOf cl hx' hN hs'
  · rw [heq2]; exact plain_renderV c sa _ _ hh he hc' ha
  · rw [heq2]; exact hparse
  · intro semG hsem
    obtain ⟨h1, h2, h3, h4⟩ := msSem_renderV c sa _ _ N0 semG he hsort hsa.zero hparse hsem
    exact ⟨by rw [heq2]; exact h1, h2, h3, h4⟩

/-! ### the composition -/

/-- **graph → ms → graph with exponential epochs** on valid ms-expressible graphs with exact ancestry
proportions, when `from_ms` accepts the printed command and C08 applies to it (`hag`) -/
theorem ms_roundtrip_growth_sem_of_agree (c : NumCodec) (sa : Growth → String) {g : Graph} (hv : validGraph g = true)
    (hx : MsExpressible g = true) (hex : ExactProportions g = true)
    {N0 : Q} (hN : 0 < N0) {samples : Option (List Int)} (hs : samplesOk g samples = true)
    {toks : List (Tok Growth)} (htoks : toMs g N0 samples = .ok toks) (hc : CodecCovers c toks)
    (hsa : GrowthPrinter sa (epochGrowths g N0))
    {mg : MsGraph} (hfrom : fromMs (renderG c sa toks) N0 none = .ok mg)
    (hag : ∀ sem, msSem (renderG c sa toks) N0 = .ok sem → PlainTokens (renderG c sa toks) = true →
      SemAgree (msSem (renderG c sa toks) N0) (resultSem mg) = true) :
    ∃ sem rs gs, msSem (renderG c sa toks) N0 = .ok sem ∧ resultSem mg = .ok rs
      ∧ graphSem (inGenerations g) none = .ok gs
      ∧ semEquiv sem rs = true
      ∧ SemRefines sem (regrow (growthVal sa) N0 gs) ∧ SemRefines rs (regrow (growthVal sa) N0 gs) := by
  have cl := clauses_of_valid (InGen.inGenerations_valid g hv)
  have hx' : MsExpressible (inGenerations g) = true := by rw [expr_inGen]; exact hx
  have hex' : ExactProportions (inGenerations g) = true := by rw [ToMs.exact_inGen]; exact hex
  obtain ⟨b1, b2, b3, b4, b5⟩ := toMs_bridgeV c sa hv hx hN hs htoks hc hsa
  obtain ⟨semG, hsemG, _, _, _⟩ := msSemG_finalEvs cl hx' hN samples
  obtain ⟨hsem, hwf, hchron, hdim⟩ := b5 semG hsemG
  have hrefA : SemRefines (embedSemV (growthVal sa) N0 semG) (regrow (growthVal sa) N0 (gSem (inGenerations g))) :=
    semRefines_embedV cl hx' hex' hN hsa.zero (fun G => G ∈ epochGrowths g N0)
      (fun d hd e he => mem_epochGrowths hd he) (fun G G' h1 h2 h3 => hsa.congr G h1 G' h2 h3)
      samples hsemG hwf hchron hdim
  -- C08
  have hagree := hag _ hsem b3
  rw [hsem] at hagree
  cases hrs : resultSem mg with
  | error e => rw [hrs] at hagree; simp [SemAgree] at hagree
  | ok rs =>
    rw [hrs] at hagree
    have heq : semEquiv (embedSemV (growthVal sa) N0 semG) rs = true := hagree
    have hA : ∀ p ∈ (embedSemV (growthVal sa) N0 semG).pops, Tiles p.lo p.segs p.hi := by
      intro p hp
      simp only [embedSemV] at hp
      obtain ⟨q, hq, rfl⟩ := List.mem_map.1 hp
      exact (embedPopV_tiles (growthVal sa) N0 (hwf q hq)).1
    have hB : ∀ p ∈ rs.pops, Tiles p.lo p.segs p.hi := fun p hp =>
      (MsRT.Tr.graphSem_tiles (Demes.Proofs.FromMs.fromMs_valid hfrom)
        (show graphSemWith mg.size mg.graph _ = .ok rs from hrs) p hp).1
    exact ⟨_, rs, _, hsem, rfl, graphSem_ok cl hx', heq, hrefA, semRefines_of_equiv heq hrefA hA hB⟩

/-- **graph → ms → graph with exponential epochs** on valid ms-expressible graphs with exact ancestry
proportions, when `from_ms` accepts the printed command and the command lies in `Tame'` -/
theorem ms_roundtrip_growth_sem_partial (c : NumCodec) (sa : Growth → String) {g : Graph} (hv : validGraph g = true)
    (hx : MsExpressible g = true) (hex : ExactProportions g = true)
    {N0 : Q} (hN : 0 < N0) {samples : Option (List Int)} (hs : samplesOk g samples = true)
    {toks : List (Tok Growth)} (htoks : toMs g N0 samples = .ok toks) (hc : CodecCovers c toks)
    (hsa : GrowthPrinter sa (epochGrowths g N0))
    {mg : MsGraph} (hfrom : fromMs (renderG c sa toks) N0 none = .ok mg)
    {pr : Demes.Spec.MsSem.Parsed} (hpr : parse (renderG c sa toks) = .ok pr) (ht : Tame' pr = true) :
    ∃ sem rs gs, msSem (renderG c sa toks) N0 = .ok sem ∧ resultSem mg = .ok rs
      ∧ graphSem (inGenerations g) none = .ok gs
      ∧ semEquiv sem rs = true
      ∧ SemRefines sem (regrow (growthVal sa) N0 gs) ∧ SemRefines rs (regrow (growthVal sa) N0 gs) :=
  ms_roundtrip_growth_sem_of_agree c sa hv hx hex hN hs htoks hc hsa hfrom
    (fun _ hsem hpl => fromMs_sem_plain hfrom hsem hpl hpr ht)

/-- the command is read by the string parser as a command in `Tame'` -/
theorem toMs_tameV (c : NumCodec) (sa : Growth → String) {g : Graph} (hv : validGraph g = true)
    (hx : MsExpressible g = true) (hpt : PulsesTame g = true) {N0 : Q} (hN : 0 < N0)
    {samples : Option (List Int)} (hs : samplesOk g samples = true) {toks : List (Tok Growth)}
    (htoks : toMs g N0 samples = .ok toks) (hc : CodecCovers c toks)
    (hsa : GrowthPrinter sa (epochGrowths g N0)) :
    ∃ pr, parse (renderG c sa toks) = .ok pr ∧ Tame' pr = true := by
  obtain ⟨_, _, _, b4, _⟩ := toMs_bridgeV c sa hv hx hN hs htoks hc hsa
  exact ⟨_, b4, tame_toMsV (growthVal sa) hv hx hpt hN samples⟩

#print axioms semRefines_embedV
#print axioms toMs_bridgeV
#print axioms ms_roundtrip_growth_sem_partial

end Demes.Proofs.MsGrow
