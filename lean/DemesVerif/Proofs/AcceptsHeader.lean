import DemesVerif.Proofs.AcceptsBasic
namespace Demes.Proofs.Accepts
open Demes Demes.Obj Demes.Spec

/-- the doi entry validator: a non-empty string -/
theorem doiEntry_ok_iff (v : Value) (s : String) :
    (do let s ← instStr v
        if s.isEmpty then valueErr "doi must be a non-empty string" else pure s : Except Err String) = .ok s
      ↔ strOf v = some s ∧ s.isEmpty = false := by
  cases v <;> simp [instStr, strOf, typeErr, valueErr, pure, Except.pure, bind, Except.bind]
  rename_i t
  by_cases ht : t = ""
  · simp only [ht, if_true, reduceCtorEq, false_iff, not_and]
    intro h hn; exact hn h.symm
  · simp only [ht, if_false, Except.ok.injEq]
    constructor
    · intro h; subst h; exact ⟨rfl, ht⟩
    · intro h; exact h.1

/-- the part of `resolveHeader` after `generation_time` has been read -/
def hdrTail (data : Obj) (description timeUnits : String) (gt : Option Q) : Except Err Graph := do
  let doiRaw ← instList ((lookup "doi" data).getD (.list []))
  let doi ← doiRaw.mapM (fun v => do
    let s ← instStr v
    if s.isEmpty then valueErr "doi must be a non-empty string" else pure s)
  let metadata ← instObj ((lookup "metadata" data).getD (.obj []))
  if timeUnits ≠ "generations" && gt.isNone then
    valueErr "if time_units!=\"generations\", generation_time must be specified"
  let gt' := gt.getD 1
  if timeUnits = "generations" && gt' ≠ 1 then
    valueErr "time_units==\"generations\", but generation_time!=1"
  pure { emptyGraph with description, timeUnits, generationTime := gt', doi, metadata }

theorem hdrTail_inv {data : Obj} {description timeUnits : String} {gt : Option Q} {g0 : Graph}
    (h : hdrTail data description timeUnits gt = .ok g0) :
    ∃ doiRaw doi metadata,
      instList ((lookup "doi" data).getD (.list [])) = .ok doiRaw ∧
      doiRaw.mapM (fun v => do
        let s ← instStr v
        if s.isEmpty then valueErr "doi must be a non-empty string" else pure s) = .ok doi ∧
      instObj ((lookup "metadata" data).getD (.obj [])) = .ok metadata ∧
      (decide (timeUnits ≠ "generations") && gt.isNone) = false ∧
      (decide (timeUnits = "generations") && decide (gt.getD 1 ≠ 1)) = false ∧
      g0 = { description, timeUnits, generationTime := gt.getD 1, doi, metadata,
             demes := [], migrations := [], pulses := [], index := [] } := by
  unfold hdrTail at h
  obtain ⟨doiRaw, h1, h⟩ := Proofs.bind_ok h
  obtain ⟨doi, h2, h⟩ := Proofs.bind_ok h
  obtain ⟨metadata, h3, h⟩ := Proofs.bind_ok h
  dsimp only at h
  split at h
  · cases h
  rename_i c1
  split at h
  · cases h
  rename_i c2
  cases h
  exact ⟨doiRaw, doi, metadata, h1, h2, h3, Bool.eq_false_iff.2 c1, Bool.eq_false_iff.2 c2, rfl⟩

theorem resolveHeader_inv {data : Obj} {g0 : Graph} (h : resolveHeader data = .ok g0) :
    ∃ description tuV timeUnits gt,
      instStr ((lookup "description" data).getD (.str "")) = .ok description ∧
      lookup "time_units" data = some tuV ∧ instStr tuV = .ok timeUnits ∧
      timeUnits.isEmpty = false ∧
      (match lookupNN "generation_time" data with
        | none => gt = none
        | some v => ∃ q, posFiniteQ v = .ok q ∧ gt = some q) ∧
      hdrTail data description timeUnits gt = .ok g0 := by
  unfold resolveHeader at h
  obtain ⟨description, hdesc, h⟩ := Proofs.bind_ok h
  dsimp only at h
  cases htu : lookup "time_units" data with
  | none => rw [htu] at h; cases h
  | some tuV =>
    rw [htu] at h
    dsimp only at h
    obtain ⟨timeUnits, htu', h⟩ := Proofs.bind_ok h
    split at h
    · cases h
    rename_i hne
    refine ⟨description, tuV, timeUnits, ?_⟩
    cases hL : lookupNN "generation_time" data with
    | none =>
      rw [hL] at h
      exact ⟨none, hdesc, rfl, htu', by simpa using hne, rfl, h⟩
    | some v =>
      rw [hL] at h
      dsimp only at h
      obtain ⟨q, hq, h⟩ := Proofs.bind_ok h
      exact ⟨some q, hdesc, rfl, htu', by simpa using hne, ⟨q, hq, rfl⟩, h⟩

/-- soundness: the header the library builds is the one the Spec prescribes -/
theorem resolveHeader_fill {data : Obj} {g0 : Graph} (h : resolveHeader data = .ok g0) :
    fillHeader data = some g0 := by
  obtain ⟨description, tuV, timeUnits, gt, hdesc, htu, htu', hne, hgt, h⟩ := resolveHeader_inv h
  obtain ⟨doiRaw, doi, metadata, h1, h2, h3, c1, c2, rfl⟩ := hdrTail_inv h
  rw [instStr_ok_iff] at hdesc htu'
  rw [instList_ok_iff] at h1
  rw [instObj_ok_iff] at h3
  rw [mapM_ok_iff _ strOf (fun s => s.isEmpty = false) doiEntry_ok_iff] at h2
  have hdoi : strsOf ((lookup "doi" data).getD (.list [])) = some doi := by
    unfold strsOf; rw [h1]; exact h2.1
  rw [Proofs.lookupNN_eq_notNull] at hgt
  unfold fillHeader
  cases hL : notNull (lookup "generation_time" data) with
  | none =>
    rw [hL] at hgt
    subst hgt
    have : timeUnits = "generations" := by simpa using c1
    simp only [hdesc, htu, htu', hdoi, h3, this, if_true, Option.getD_none, Option.bind_eq_bind,
      Option.bind_some, Option.pure_def]
  | some v =>
    rw [hL] at hgt
    obtain ⟨q, hq, rfl⟩ := hgt
    have hfin := ((posFiniteQ_ok_iff v q).1 hq).1
    simp only [hdesc, htu, htu', hdoi, h3, hfin, Option.getD_some, Option.bind_eq_bind,
      Option.bind_some, Option.pure_def]

/-- the library requires `time_units` -/
theorem resolveHeader_timeUnits {data : Obj} {g0 : Graph} (h : resolveHeader data = .ok g0) :
    (lookup "time_units" data).isSome = true := by
  obtain ⟨_, tuV, _, _, _, htu, _⟩ := resolveHeader_inv h
  rw [htu]; rfl

/-- what `fillHeader` reads -/
theorem fillHeader_inv {data : Obj} {g0 : Graph} (hf : fillHeader data = some g0) :
    ∃ description tuV timeUnits generationTime doi metadata,
      strOf ((lookup "description" data).getD (.str "")) = some description ∧
      lookup "time_units" data = some tuV ∧ strOf tuV = some timeUnits ∧
      (match notNull (lookup "generation_time" data) with
        | some v => finOf v
        | none => if timeUnits = "generations" then some 1 else none) = some generationTime ∧
      strsOf ((lookup "doi" data).getD (.list [])) = some doi ∧
      objOf ((lookup "metadata" data).getD (.obj [])) = some metadata ∧
      g0 = { description, timeUnits, generationTime, doi, metadata,
             demes := [], migrations := [], pulses := [], index := [] } := by
  unfold fillHeader at hf
  obtain ⟨description, h1, hf⟩ := obind_some hf
  obtain ⟨timeUnits, h2, hf⟩ := obind_some hf
  obtain ⟨tuV, h2a, h2b⟩ := obind_some' h2
  dsimp only at hf
  obtain ⟨generationTime, h3, hf⟩ : ∃ generationTime,
      (match notNull (lookup "generation_time" data) with
        | some v => finOf v
        | none => if timeUnits = "generations" then some 1 else none) = some generationTime ∧
      (do let doi ← strsOf ((lookup "doi" data).getD (.list []))
          let metadata ← objOf ((lookup "metadata" data).getD (.obj []))
          pure { description, timeUnits, generationTime, doi, metadata,
                 demes := [], migrations := [], pulses := [], index := [] } : Option Graph) = some g0 := by
    cases hL : notNull (lookup "generation_time" data) with
    | some v =>
      rw [hL] at hf
      exact obind_some hf
    | none =>
      rw [hL] at hf
      dsimp only at hf ⊢
      split at hf
      · rename_i hg
        rw [if_pos hg]
        exact obind_some hf
      · cases hf
  obtain ⟨doi, h4, hf⟩ := obind_some hf
  obtain ⟨metadata, h5, hf⟩ := obind_some hf
  cases hf
  exact ⟨description, tuV, timeUnits, generationTime, doi, metadata, h1, h2a, h2b, h3, h4, h5, rfl⟩

/-- the header has no demes, migrations or pulses yet -/
theorem fillHeader_empty {data : Obj} {g0 : Graph} (hf : fillHeader data = some g0) :
    g0.demes = [] ∧ g0.index = [] ∧ g0.migrations = [] ∧ g0.pulses = [] := by
  obtain ⟨_, _, _, _, _, _, _, _, _, _, _, _, rfl⟩ := fillHeader_inv hf
  exact ⟨rfl, rfl, rfl, rfl⟩

/-- completeness: a header the Spec prescribes and V13 accepts is built by the library -/
theorem resolveHeader_complete {data : Obj} {g0 : Graph} (hf : fillHeader data = some g0)
    (h13 : v13 g0 = true) : resolveHeader data = .ok g0 := by
  obtain ⟨description, tuV, timeUnits, generationTime, doi, metadata, h1, h2a, h2b, h3, h4, h5, rfl⟩ :=
    fillHeader_inv hf
  simp only [v13, Bool.and_eq_true, Bool.not_eq_true', decide_eq_true_eq, Bool.or_eq_true, bne_iff_ne, ne_eq,
    beq_iff_eq, List.all_eq_true] at h13
  obtain ⟨⟨⟨a1, a2⟩, a3⟩, a4⟩ := h13
  rw [← instStr_ok_iff] at h1 h2b
  rw [← instObj_ok_iff] at h5
  unfold strsOf at h4
  obtain ⟨doiRaw, h4a, h4b⟩ := obind_some' h4
  rw [← instList_ok_iff] at h4a
  have h4c := (mapM_ok_iff _ strOf (fun s => s.isEmpty = false) doiEntry_ok_iff doiRaw doi).2 ⟨h4b, a4⟩
  have hgt : (decide (timeUnits = "generations") && decide (generationTime ≠ 1)) = false := by
    rcases a3 with h | h
    · simp only [h, decide_false, Bool.false_and]
    · simp only [h, ne_eq, not_true_eq_false, decide_false, Bool.and_false]
  rw [← Proofs.lookupNN_eq_notNull] at h3
  unfold resolveHeader
  cases hL : lookupNN "generation_time" data with
  | none =>
    rw [hL] at h3
    dsimp only at h3
    split at h3
    · rename_i hg
      cases h3
      simp only [h1, h2a, h2b, h4a, h4c, h5, hg, Proofs.ok_bind, Bool.false_eq_true, ↓reduceIte,
        pure_bind, Option.getD_none, ne_eq, not_true_eq_false, decide_false, Bool.false_and, Bool.and_false]
      rfl
    · cases h3
  | some v =>
    rw [hL] at h3
    dsimp only at h3
    have hq := (posFiniteQ_ok_iff v generationTime).2 ⟨h3, a2⟩
    simp only [h1, h2a, h2b, h4a, h4c, h5, a1, hq, hgt, Proofs.ok_bind, Bool.false_eq_true, ↓reduceIte,
      pure_bind, Option.getD_some, Option.isNone_some, Bool.and_false]
    rfl

/-! ### non-vacuity: a document whose header the library builds, and one the Spec prescribes -/

example : (resolveHeader
    [("time_units", .str "years"), ("generation_time", .num (.fin 25)), ("doi", .list [.str "x"])]).isOk
    = true := by decide +kernel

example : (fillHeader [("time_units", .str "generations"), ("generation_time", .null)]).map v13
    = some true := by decide +kernel


end Demes.Proofs.Accepts
