/-
  Proofs for C09, first sentence (stretch) — `from_ms(to_ms(g))` for a graph with one deme of
  constant size: `to_ms` (`toMs_const`), the Builder document (`buildDoc_empty`, `buildDoc_n`),
  `Builder.resolve()` on that document with a symbolic size (`resolve_const`), and the renaming.
-/
import DemesVerif.Proofs.MsPrint
import DemesVerif.Proofs.AsdictNum
import Mathlib.Tactic.Linarith
import Mathlib.Algebra.Order.Field.Basic
namespace Demes.Proofs.MsPrint
open Demes Demes.Ms Demes.Spec.C09 Obj
open Demes.Proofs.Asdict (checkAllowed_ok posFiniteQ_numV nonNegFiniteQ_numV unitQ_numV)

/-! ### `to_ms` -/

theorem scale_constDeme (gt : Q) (name desc : String) (N sr cr : Q) :
    Deme.scale gt (constDeme name desc N sr cr) = constDeme name desc N sr cr := by
  simp [Deme.scale, constDeme, constEpoch, Epoch.scale, ETime.div, zero_div]

theorem sizeEvents_const (name desc : String) (N sr cr N0 : Q) (hN : 0 < N) (hN0 : 0 < N0) :
    demeSizeEvents N0 1 (constDeme name desc N sr cr) =
      .ok (if N0 = N then [] else [.popSizeChange "" (.fin 0) 1 (.fin (N / N0))]) := by
  have hN0' : N0 ≠ 0 := by grind
  have hdiv : ¬ (N / N0 < 0) := by
    have : 0 < N / N0 := div_pos hN hN0
    grind
  by_cases h : N0 = N
  · subst h
    simp [demeSizeEvents, constDeme, constEpoch, getGrowthRate, Growth.eq, bind, Except.bind, pure, Except.pure]
  · simp [demeSizeEvents, constDeme, constEpoch, getGrowthRate, Growth.eq, bind, Except.bind, pure, Except.pure, h, hN0',
      mkPopSizeChange, vT, vNonNegative, vPosInt, Num.lt, Num.zero, hdiv]


theorem ancestry_const (g : Graph) (name desc : String) (N sr cr : Q) (k : Nat) :
    ancestryEvents g [DemeOrPulse.deme (constDeme name desc N sr cr)] k = .ok [] := by
  simp [ancestryEvents, constDeme, bind, Except.bind, pure, Except.pure, List.zipIdx]

theorem migrationEvents_nil (N0 : Q) (g : Graph) (hm : g.migrations = []) : migrationEvents N0 g = .ok [] := by
  simp [migrationEvents, hm, bind, Except.bind, pure, Except.pure]

theorem toMs_const (g : Graph) (name desc : String) (N sr cr N0 : Q) (hN : 0 < N) (hN0 : 0 < N0)
    (hd : g.demes = [constDeme name desc N sr cr]) (hm : g.migrations = []) (hp : g.pulses = []) :
    toMs g N0 none = .ok (if N0 = N then [] else [.flag "-n", .int 1, .num (.fin (N / N0))]) := by
  have hN0' : N0 ≠ 0 := by grind
  have hg : (inGenerations g).demes = [constDeme name desc N sr cr] := by
    simp [inGenerations, hd, scale_constDeme]
  have hgm : (inGenerations g).migrations = [] := by simp [inGenerations, hm]
  have hgp : (inGenerations g).pulses = [] := by simp [inGenerations, hp]
  unfold toMs
  simp only [hg, hgp, List.length_cons, List.length_nil, List.zipIdx, List.reverse_nil, List.map_nil,
    List.nil_append, List.map_cons]
  by_cases h : N0 = N
  · subst h
    simp [sizeEvents_const name desc N0 sr cr N0 hN0 hN0, sortBy, insertBy, ancestry_const,
      migrationEvents_nil N0 _ hgm, bind, Except.bind, pure, Except.pure]
  · simp [sizeEvents_const name desc N sr cr N0 hN hN0, h, sortBy, insertBy, ancestry_const,
      migrationEvents_nil N0 _ hgm, bind, Except.bind, pure, Except.pure, hN0', numDivQ, zero_div,
      vT, vNonNegative, Num.lt, Num.zero, Event.setT, Event.print, numPos, Event.t]


/-! ### `build_graph` up to `resolve()` -/

def constDoc (N : Q) : MsDoc :=
  { demes := [{ name := "deme1", startTime := .inf,
                epochs := [{ endSize := Sz.ofQ N, endTime := 0, startSize := some (Sz.ofQ N), growthRate := none }] }],
    migrations := [], pulses := none, numPops := 1 }

theorem demeName0 : Ms.demeName 0 = "deme1" := by decide +kernel

theorem buildDoc_empty (N0 : Q) (hN0 : 0 < N0) : buildDoc {} N0 = .ok (constDoc N0) := by
  have h1 : ¬ (N0 ≤ 0) := by grind
  simp [buildDoc, h1, bind, Except.bind, pure, Except.pure, sortBy, List.splitBy, finaliseGrowth, demeName0,
    addMigrationsFromMatrices, removeTransientDemes, sortDemesByAncestry, insertBy, constDoc, List.range, List.range.loop]

def state0 (N : Q) : BState :=
  { numDemes := 1, mmList := [[[Num.fin 0]]], mmEndTimes := [0], joined := [],
    demes := [{ name := "deme1", startTime := .inf, epochs := [{ endSize := Sz.ofQ N, endTime := 0 }] }] }

theorem stepGroup_n (N N0 : Q) (hN0 : 0 < N0) (hne : N0 ≠ N) :
    stepGroup N0 (state0 N0) [.popSizeChange "-n" (.fin 0) 1 (.fin (N / N0))] = .ok (state0 N) := by
  have h2 : N / N0 * N0 = N := div_mul_cancel₀ N (by grind)
  have h3 : ¬ (Sz.ofQ N0 = Sz.ofQ N) := by simp [Sz.ofQ, hne]
  have h4 : ETime.fin (0 : Q) < ETime.inf := trivial
  simp [h4, stepGroup, state0, stepEvent, finArg, Event.t, convertPopulationId, modifyDeme, curGrowth, curEndSize, h2, h3,
    epochResolve, modifyHead, applyParams, isSplit, bind, Except.bind, pure, Except.pure]

theorem splitBy_single {α} (r : α → α → Bool) (a : α) : [a].splitBy r = [[a]] := rfl

theorem buildDoc_n (N N0 : Q) (hN0 : 0 < N0) (hne : N0 ≠ N) :
    buildDoc { initialState := [.popSizeChange "-n" (.fin 0) 1 (.fin (N / N0))] } N0 = .ok (constDoc N) := by
  have h1 : ¬ (N0 ≤ 0) := by grind
  have hs := stepGroup_n N N0 hN0 hne
  unfold state0 at hs
  simp [buildDoc, h1, bind, Except.bind, pure, Except.pure, sortBy, splitBy_single, finaliseGrowth, demeName0,
    addMigrationsFromMatrices, removeTransientDemes, sortDemesByAncestry, insertBy, constDoc, List.range, List.range.loop, hs]

/-! ### `Builder.resolve()` on the document -/

def epochObjN (N : Q) : Obj := [("end_size", nV N), ("end_time", nV 0), ("start_size", nV N)]

theorem addEpoch_const (N : Q) (hN : 0 < N) : addEpoch .inf [] (epochObjN N) = .ok [constEpoch N 0 0] := by
  have l1 : lookup "end_time" (epochObjN N) = some (nV 0) := rfl
  have l2 : lookupNN "start_size" (epochObjN N) = some (nV N) := rfl
  have l3 : lookupNN "end_size" (epochObjN N) = some (nV N) := rfl
  have l4 : lookupNN "size_function" (epochObjN N) = none := rfl
  have l5 : lookup "selfing_rate" (epochObjN N) = none := rfl
  have l6 : lookup "cloning_rate" (epochObjN N) = none := rfl
  have hle : ¬ (ETime.inf ≤ ETime.fin (0 : Q)) := fun h => h
  unfold addEpoch
  simp only [l1, l2, l3, l4, l5, l6, List.getLast?_nil, Option.getD_none]
  have p1 : posFiniteQ (nV N) = .ok N := posFiniteQ_numV hN
  have p0 : nonNegFiniteQ (nV 0) = .ok 0 := nonNegFiniteQ_numV (le_refl 0)
  have u0 : unitQ (.num (.fin 0)) = .ok 0 := unitQ_numV (le_refl 0) (by decide)
  simp [p1, p0, u0, bind, Except.bind, pure, Except.pure, hle, ETime.isInf, constEpoch]


theorem resolveEpochs_const (N : Q) (hN : 0 < N) :
    resolveEpochs .inf [] [epochObjN N] = .ok [constEpoch N 0 0] := by
  have hca : checkAllowed (epochObjN N) allowedEpoch = .ok () :=
    checkAllowed_ok _ _ (by
      have : Obj.keys (epochObjN N) = ["end_size", "end_time", "start_size"] := rfl
      rw [this]; decide)
  have hid : insertDefaults (epochObjN N) [] = epochObjN N := rfl
  have hc : Obj.contains "end_time" (epochObjN N) = true := rfl
  simp [resolveEpochs, List.zipIdx, hca, hid, hc, addEpoch_const N hN, bind, Except.bind, pure, Except.pure]

def demeObjN (N : Q) : Obj :=
  [("name", .str "deme1"), ("start_time", .num .pinf), ("epochs", .list [.obj (epochObjN N)])]

def headerGraph : Graph := { emptyGraph with timeUnits := "generations" }

theorem ok_of_toOption {α} {x : Except Err α} {a : α} (h : x.toOption = some a) : x = .ok a := by
  cases x with
  | error e => cases h
  | ok b => cases h; rfl

theorem header_deme1 :
    addDemeHeader headerGraph (.str "deme1") (.str "") none none (some (.num .pinf))
      = .ok { name := "deme1", description := "", startTime := .inf, ancestors := [], proportions := [], epochs := [] } := by
  apply ok_of_toOption
  decide +kernel


def constGraph1 (N : Q) : Graph :=
  { headerGraph with demes := [constDeme "deme1" "" N 0 0], index := [("deme1", 0)] }

theorem resolveDeme_const (N : Q) (hN : 0 < N) :
    resolveDeme [] [] headerGraph (demeObjN N) = .ok (constGraph1 N) := by
  have l1 : lookup "name" (demeObjN N) = some (.str "deme1") := rfl
  have hca : checkAllowed (demeObjN N) allowedDemeInner = .ok () :=
    checkAllowed_ok _ _ (by
      have : Obj.keys (demeObjN N) = ["name", "start_time", "epochs"] := rfl
      rw [this]; decide)
  have hid : insertDefaults (demeObjN N) [] = demeObjN N := rfl
  have l2 : lookup "description" (demeObjN N) = none := rfl
  have l3 : lookupNN "ancestors" (demeObjN N) = none := rfl
  have l4 : lookupNN "proportions" (demeObjN N) = none := rfl
  have l5 : lookupNN "start_time" (demeObjN N) = some (.num .pinf) := rfl
  have l6 : popObject (demeObjN N) "defaults" = .ok [] := rfl
  have l7 : popObjList (demeObjN N) "epochs" (some [[]]) = .ok [epochObjN N] := rfl
  have l8 : Obj.contains "epochs" (demeObjN N) = true := rfl
  have l9 : popObject [] "epoch" = .ok [] := rfl
  have l10 : checkAllowed [] allowedLocalDefaults = .ok () := rfl
  have l11 : checkDefaults [] epochDefaultsTable = .ok () := rfl
  have l12 : update [] [] = ([] : Obj) := rfl
  unfold resolveDeme
  simp only [l1, hca, hid, l2, l3, l4, l5, l6, l7, l8, l9, l10, l11, l12, Option.getD_none, header_deme1,
    resolveEpochs_const N hN, bind, Except.bind, pure, Except.pure]
  simp [constGraph1, constDeme, headerGraph, emptyGraph]


def docObjN (N : Q) : Obj :=
  [("time_units", .str "generations"), ("demes", .list [.obj (demeObjN N)]), ("migrations", .list [])]

theorem placeholders_const (N : Q) : placeholders (constDoc N) = [] := by
  simp [placeholders, constDoc, MsDoc.sizes, Sz.isExact, Sz.ofQ, List.eraseDups]

theorem toValue_const (N : Q) : (constDoc N).toValue [] = .obj (docObjN N) := by
  simp [MsDoc.toValue, constDoc, BDeme.toValue, BEpoch.toValue, szToQ, Sz.isExact, Sz.ofQ, docObjN, demeObjN, epochObjN,
    tV, Num.ofETime]

theorem resolveHeader_gen (rest : Obj) (h1 : lookup "description" rest = none) (h2 : lookupNN "generation_time" rest = none)
    (h3 : lookup "doi" rest = none) (h4 : lookup "metadata" rest = none) :
    resolveHeader (("time_units", .str "generations") :: rest) = .ok headerGraph := by
  have l1 : lookup "description" (("time_units", Value.str "generations") :: rest) = none := by
    simp [lookup, h1]
  have l2 : lookup "time_units" (("time_units", Value.str "generations") :: rest) = some (.str "generations") := by
    simp [lookup]
  have l3 : lookupNN "generation_time" (("time_units", Value.str "generations") :: rest) = none := by
    simp only [lookupNN, lookup] at h2 ⊢
    simpa using h2
  have l4 : lookup "doi" (("time_units", Value.str "generations") :: rest) = none := by
    simp [lookup, h3]
  have l5 : lookup "metadata" (("time_units", Value.str "generations") :: rest) = none := by
    simp [lookup, h4]
  have e1 : "generations".isEmpty = false := by decide +kernel
  unfold resolveHeader
  simp only [l1, l2, l3, l4, l5, Option.getD_none, instStr, instList, instObj, bind, Except.bind, pure, Except.pure,
    List.mapM_nil, e1]
  simp [headerGraph, emptyGraph]

theorem checkRates_single (g : Graph) (hm : g.migrations = []) (hd : g.demes.length = 1) :
    checkMigrationRates g = .ok () := by
  have h' : ¬ ((1 : Q) < 0) := by decide +kernel
  simp [h', checkMigrationRates, migrationMatrices, hm, hd, mmEndTimes, sortDescUniq, migrationTimes, zeroMatrix,
    bind, Except.bind, pure, Except.pure, rowSum, List.forM]



theorem resolve_const (N : Q) (hN : 0 < N) : resolve (.obj (docObjN N)) = .ok (constGraph1 N) := by
  have hca : checkAllowed (docObjN N) allowedTop = .ok () :=
    checkAllowed_ok _ _ (by
      have : Obj.keys (docObjN N) = ["time_units", "demes", "migrations"] := rfl
      rw [this]; decide)
  have l1 : popObject (docObjN N) "defaults" = .ok [] := rfl
  have l2 : checkAllowed [] allowedDefaults = .ok () := rfl
  have l3 : ∀ k, popObject [] k = .ok [] := fun _ => rfl
  have l4 : ∀ t, checkDefaults [] t = .ok () := fun _ => rfl
  have l5 : resolveHeader (docObjN N) = .ok headerGraph := resolveHeader_gen _ rfl rfl rfl rfl
  have l6 : popObjList (docObjN N) "demes" none = .ok [demeObjN N] := rfl
  have l7 : popObjList (docObjN N) "migrations" (some []) = .ok [] := rfl
  have l8 : popObjList (docObjN N) "pulses" (some []) = .ok [] := rfl
  have l9 : checkMigrationRates (constGraph1 N) = .ok () := checkRates_single _ rfl rfl
  unfold resolve
  simp only [Asdict.instObj_obj, Asdict.bind_ok, Asdict.pure_eq_ok, hca, l1, l2, l3, l4, l5, l6, l7, l8, List.isEmpty_cons,
    List.foldlM_cons, List.foldlM_nil, resolveDeme_const N hN, l9, Bool.false_eq_true, ↓reduceIte]
  rfl

/-! ### `from_ms` -/

theorem buildGraph_const (args : Args) (N N0 : Q) (hN : 0 < N) (hdoc : buildDoc args N0 = .ok (constDoc N)) :
    buildGraph args N0 = .ok { graph := constGraph1 N, table := [], doc := constDoc N } := by
  unfold buildGraph
  simp only [hdoc, Asdict.bind_ok, placeholders_const, toValue_const, resolve_const N hN, Asdict.pure_eq_ok]

theorem rename_const (N : Q) (name : String) :
    renameDemes (constGraph1 N) [("deme1", name)] =
      { headerGraph with demes := [constDeme name "" N 0 0], index := [(name, 0)] } := by
  simp [renameDemes, constGraph1, constDeme, Renaming.apply, Renaming.get?, rebuildIndex, List.zipIdx, headerGraph, emptyGraph]

/-- the validation at the end of `rename_demes` accepts the one new name iff it is an identifier -/
theorem renameChecked_const (N : Q) (name : String) (hid : isIdentifier name = true) :
    renameDemesChecked (constGraph1 N) [("deme1", name)] =
      .ok { headerGraph with demes := [constDeme name "" N 0 0], index := [(name, 0)] } := by
  have hok : renameNamesOk (constGraph1 N) [("deme1", name)] = true := by
    simp [renameNamesOk, constGraph1, constDeme, Renaming.apply, Renaming.get?, hid]
  unfold renameDemesChecked
  rw [hok, rename_const]
  rfl

theorem fromMs_const (tokens : List String) (args : Args) (N N0 : Q) (name : String) (hN : 0 < N)
    (hid : isIdentifier name = true)
    (hparse : parseKnownArgs tokens = .ok args) (hdoc : buildDoc args N0 = .ok (constDoc N)) :
    fromMs tokens N0 (some [name]) =
      .ok { graph := { headerGraph with demes := [constDeme name "" N 0 0], index := [(name, 0)] },
            table := [], doc := constDoc N } := by
  unfold fromMs
  simp only [hparse, Asdict.bind_ok, buildGraph_const args N N0 hN hdoc]
  have h1 : [name].eraseDups = [name] := by
    simp [List.eraseDups, List.eraseDupsBy, List.eraseDupsBy.loop]
  have h2 : (constGraph1 N).demes.length = 1 := rfl
  have h3 : (List.map (fun (x : Nat × String) => (Ms.demeName x.1, x.2)) ((List.range 1).zip [name]))
      = [("deme1", name)] := by
    simp [List.range, List.range.loop, demeName0]
  have h4 : (constGraph1 N).demes.map (·.name) = ["deme1"] := rfl
  simp only [h1, h2, h3, h4, List.length_cons, List.length_nil, List.map_cons, List.map_nil, List.foldr_cons, List.foldr_nil,
    insertStr, ne_eq, not_true_eq_false, if_false, renameChecked_const N name hid, Nat.zero_add, Asdict.bind_ok,
    Asdict.pure_eq_ok]

theorem parse_nil : parseKnownArgs [] = .ok {} := rfl

/-- **graph → ms → graph for one deme of constant size.**  `to_ms` prints nothing (`N = N0`) or
`-n 1 N/N0`; `from_ms` of that command, with the same `N0` and the deme's name, succeeds and
returns a graph in generations whose only deme has that name, lives from the infinite past to
the present and has the one constant-size epoch of size `N` (exactly: `N/N0·N0 = N` in the
Model's rationals; no symbolic size is left, `table = []`). -/
theorem toMs_fromMs_structure (c : NumCodec) (sa : Growth → String) (g : Graph) (name desc : String)
    (N sr cr N0 : Q) (hN : 0 < N) (hN0 : 0 < N0) (hid : isIdentifier name = true)
    (hd : g.demes = [constDeme name desc N sr cr]) (hm : g.migrations = []) (hp : g.pulses = [])
    (hc : N0 ≠ N → c.ok (.fin (N / N0))) :
    ∃ toks mg, toMs g N0 none = .ok toks ∧ fromMs (renderG c sa toks) N0 (some [name]) = .ok mg ∧
      mg.graph.timeUnits = "generations" ∧ mg.graph.generationTime = 1 ∧
      mg.graph.demes = [constDeme name "" N 0 0] ∧ mg.graph.migrations = [] ∧ mg.graph.pulses = [] ∧
      mg.table = [] := by
  have htoms := toMs_const g name desc N sr cr N0 hN hN0 hd hm hp
  by_cases h : N0 = N
  · rw [if_pos h] at htoms
    subst h
    refine ⟨_, _, htoms, fromMs_const _ {} N0 N0 name hN0 hid parse_nil (buildDoc_empty N0 hN0), rfl, rfl, rfl, rfl, rfl, rfl⟩
  · rw [if_neg h] at htoms
    have hok := hc h
    have hpos : 0 < N / N0 := div_pos hN hN0
    have hx : vNonNegative (.fin (N / N0)) = .ok () := by
      have : ¬ (N / N0 < 0) := by grind
      simp [vNonNegative, Num.lt, Num.zero, this]
      rfl
    have hparse : parseKnownArgs (renderG c sa [.flag "-n", .int 1, .num (.fin (N / N0))])
        = .ok { initialState := [.popSizeChange "-n" (.fin 0) 1 (.fin (N / N0))] } := by
      show parseKnownArgs ["-n", toString (1 : Int), c.str (.fin (N / N0))] = _
      exact parse_single "-n" _ (.fixed 2) _ rfl rfl rfl
        (mem2 (classify_toString_int 1) (classify_num c _ hok))
        (act_n _ _ 1 _ (cInt_toString 1) (cFloat_exact c _ hok (vNonNeg_lt _ hx)) (by decide) hx)
    refine ⟨_, _, htoms, fromMs_const _ _ N N0 name hN hid hparse (buildDoc_n N N0 hN0 h), rfl, rfl, rfl, rfl, rfl, rfl⟩


end Demes.Proofs.MsPrint
