/-
  C09 §8 — graph → ms → graph with exponential epochs: non-vacuity (concrete graphs that satisfy every
  hypothesis, checked in the kernel, with the conclusions evaluated independently) and the witnesses for the
  hypotheses and for the weakening of the size clause.
-/
import DemesVerif.Proofs.MsGrowAccFinal
import DemesVerif.Proofs.MsRTExamples
namespace Demes.Proofs.MsGrow
open Demes Demes.Ms Demes.Spec Demes.Spec.C07 Demes.Spec.C09
open Demes.Spec.MsSem (msSem graphSem parse DemogSem)
open Demes.Spec.C08 (semEquiv SemAgree resultSem Tame' PlainTokens)
open Demes.Proofs.MsPrint (tableCodec)
open Demes.Proofs.MsRT (refinesAt refinesAt_of_refines cEpoch)
open Demes.Proofs.MsGrow.MigExample (growBranch1)

/-! ### the hypotheses, decided -/

theorem growthPrinter_of_B {sa : Growth → String} {Gs : List Growth} (h : growthPrinterB sa Gs = true) :
    GrowthPrinter sa Gs := by
  unfold growthPrinterB at h
  simp only [Bool.and_eq_true, List.all_eq_true, decide_eq_true_eq, Bool.or_eq_true, Bool.not_eq_true'] at h
  obtain ⟨⟨⟨h1, h2⟩, h3⟩, h4⟩ := h
  refine ⟨?_, ?_, h3, ?_⟩
  · intro G hG
    have := h1 G hG
    split at this
    · next q hq => exact ⟨q, hq⟩
    · cases this
  · intro G hG
    have := h2 G hG
    split at this
    · next hq => exact hq
    · cases this
  · intro G hG G' hG' he
    rcases h4 G hG G' hG' with h | h
    · rw [he] at h; cases h
    · exact h

/-- every hypothesis of `ms_roundtrip_growth_sem_all` (with `samples = none` and the codec `tableCodec`), decided -/
def growHyps (sa : Growth → String) (g : Graph) (N0 : Q) : Bool :=
  validGraph g && MsExpressible g && PulsesTame g && decide (0 < N0) && growthPrinterB sa (epochGrowths g N0) &&
  match toMs g N0 none with
  | .ok toks => decide (CodecCovers tableCodec toks)
  | .error _ => false

/-- `from_ms` accepts the command `to_ms` prints for `g` (evaluated) -/
def acceptedV (sa : Growth → String) (g : Graph) (N0 : Q) : Bool :=
  match toMs g N0 none with
  | .ok toks => (fromMs (renderG tableCodec sa toks) N0 none).toOption.isSome
  | .error _ => false

/-- the conclusion of the theorem for a graph that meets the hypotheses -/
theorem growRoundTrip_of_hyps {sa : Growth → String} {g : Graph} {N0 : Q} (h : growHyps sa g N0 = true) :
    ∃ toks mg sem rs gs, toMs g N0 none = .ok toks
      ∧ fromMs (renderG tableCodec sa toks) N0 none = .ok mg
      ∧ msSem (renderG tableCodec sa toks) N0 = .ok sem ∧ resultSem mg = .ok rs
      ∧ graphSem (inGenerations (normalizeProportions g)) none = .ok gs
      ∧ semEquiv sem rs = true
      ∧ SemRefines sem (regrow (growthVal sa) N0 gs) ∧ SemRefines rs (regrow (growthVal sa) N0 gs)
      ∧ SemRefinesUpToGrowth sem gs ∧ SemRefinesUpToGrowth rs gs := by
  unfold growHyps at h
  simp only [Bool.and_eq_true, decide_eq_true_eq] at h
  obtain ⟨⟨⟨⟨⟨h1, h2⟩, h3⟩, h4⟩, h5⟩, h6⟩ := h
  cases ht : toMs g N0 none with
  | error e => rw [ht] at h6; cases h6
  | ok toks =>
    rw [ht] at h6
    simp only [decide_eq_true_eq] at h6
    obtain ⟨mg, sem, rs, gs, r⟩ := ms_roundtrip_growth_sem_all tableCodec sa h1 h2 h3 h4 (samples := none) rfl ht h6
      (growthPrinter_of_B h5)
    exact ⟨toks, mg, sem, rs, gs, rfl, r⟩

theorem acceptedV_of_hyps {sa : Growth → String} {g : Graph} {N0 : Q} (h : growHyps sa g N0 = true) :
    acceptedV sa g N0 = true := by
  obtain ⟨toks, mg, _, _, _, h1, h2, _⟩ := growRoundTrip_of_hyps h
  simp only [acceptedV, h1, h2]
  rfl

/-- the observable of the graph `from_ms` returns for the command `to_ms` prints for `g`, sampled at the times
`ts`: against the demography of `g` with the printed growth rates (`regrow`), and against the demography of `g`
itself -/
def roundTripAgainstV (sa : Growth → String) (g : Graph) (N0 : Q) (ts : List Q) : Option (Bool × Bool) :=
  match toMs g N0 none with
  | .ok toks =>
    match fromMs (renderG tableCodec sa toks) N0 none with
    | .ok mg =>
      match resultSem mg, graphSem (inGenerations g) none with
      | .ok rs, .ok gs => some (refinesAt rs (regrow (growthVal sa) N0 gs) ts, refinesAt rs gs ts)
      | _, _ => none
    | .error _ => none
  | .error _ => none

/-- the epochs (end time, start size, end size — symbolic — and size function) of the graph
`from_ms` returns for the command `to_ms` prints for `g` -/
def roundTripEpochs (sa : Growth → String) (g : Graph) (N0 : Q) : Option (List (List (Q × Sz × Sz × String))) :=
  match toMs g N0 none with
  | .ok toks =>
    (fromMs (renderG tableCodec sa toks) N0 none).toOption.map (fun mg =>
      mg.graph.demes.map (fun d => d.epochs.map (fun e =>
        (e.endTime, mg.size e.startSize, mg.size e.endSize, e.sizeFunction))))
  | .error _ => none

/-! ### the graphs -/

def xEpoch (st : ETime) (en s e : Q) : Epoch :=
  { startTime := st, endTime := en, startSize := s, endSize := e, sizeFunction := "exponential",
    selfingRate := 0, cloningRate := 0 }

def oneDeme (es : List Epoch) : Graph :=
  { description := "", timeUnits := "generations", generationTime := 1, doi := [], metadata := [],
    demes := [{ name := "A", description := "", startTime := .inf, ancestors := [], proportions := [], epochs := es }],
    migrations := [], pulses := [], index := [("A", 0)] }

/-- constant 2, then shrinking 2 → 1 over the last 8 generations: a negative rate `-ln(2)/2`, printed in
fixed-point form -/
def shrink : Graph := oneDeme [cEpoch .inf 8 2, xEpoch (.fin 8) 0 2 1]

def saShrink : Growth → String
  | .zero => "0.0"
  | .sym _ _ => "-0.3465735903"

/-- constant 2 until 8 generations ago, 2 → 1 until 4 generations ago, 1 → 1/4 until now: two different
rates (`-ln 2`, `-ln 4` per `4·N0` generations), sizes continuous -/
def twoRates : Graph := oneDeme [cEpoch .inf 8 2, xEpoch (.fin 8) 4 2 1, xEpoch (.fin 4) 0 1 (1/4)]

/-- a printer that prints both rates of `twoRates` as the same string -/
def saSame : Growth → String
  | .zero => "0.0"
  | .sym _ _ => "-0.5000000000"

/-- constant 1/4 until 12 generations ago, 1/4 → 1 until 4 generations ago, 1 → 2 until now: the same rate
`ln(2)` per `4·N0` generations computed from two different pairs (ratio 1/4 over 2 units, ratio 1/2 over 1 unit) -/
def eqRates : Graph := oneDeme [cEpoch .inf 12 (1/4), xEpoch (.fin 12) 4 (1/4) 1, xEpoch (.fin 4) 0 1 2]

def saLn2 : Growth → String
  | .zero => "0.0"
  | .sym _ _ => "0.6931471805599453"

/-- a "printer" whose output depends on the pair, not on the number: `Growth.eq` rates printed differently -/
def saIncongr : Growth → String
  | .zero => "0.0"
  | .sym _ dt => if dt = 1 then "0.6931471805599453" else "0.5"

/-- the rate `0` printed as `1.0` -/
def saBadZero : Growth → String
  | .zero => "1.0"
  | .sym _ _ => "0.34657359027997264"

/-! ### non-vacuity -/

/-- every hypothesis holds for: a deme growing 1 → 2 with a second deme branching off and a migration; a
shrinking deme (negative rate); two different rates in a row; the same rate twice -/
example : growHyps MigExample.exSa growBranch1 1 = true ∧ ConstSizes growBranch1 = false := by decide +kernel
example : growHyps saShrink shrink 1 = true ∧ ConstSizes shrink = false := by decide +kernel
example : growHyps saSame twoRates 1 = true := by decide +kernel
example : growHyps saLn2 eqRates 1 = true := by decide +kernel

/-- the growth rates of `growBranch1` and the values read back -/
example : epochGrowths growBranch1 1 = [.zero, .sym (1/2) 2, .zero]
    ∧ growthVal MigExample.exSa (.sym (1/2) 2) = 34657359027997264 / 10 ^ 17 ∧ growthVal MigExample.exSa .zero = 0
    ∧ growthVal saShrink (.sym 2 2) = -3465735903 / 10 ^ 10 := by decide +kernel

/-- the printed commands -/
example : (toMs growBranch1 1 none).toOption.map (renderG tableCodec MigExample.exSa)
    = some ["-I", "2", "0", "0", "-n", "1", "2.0", "-g", "1", "0.34657359027997264", "-n", "2", "0.5",
       "-m", "2", "1", "0.5", "-ej", "1.0", "2", "1", "-eg", "2.0", "1", "0.0"] := by decide +kernel
example : (toMs shrink 1 none).toOption.map (renderG tableCodec saShrink)
    = some ["-g", "1", "-0.3465735903", "-eg", "2.0", "1", "0.0"] := by decide +kernel

/-- the theorems at work -/
example := growRoundTrip_of_hyps (sa := MigExample.exSa) (g := growBranch1) (N0 := 1) (by decide +kernel)
example := acceptedV_of_hyps (sa := saShrink) (g := shrink) (N0 := 1) (by decide +kernel)

/-- the conclusions evaluated independently of the theorems: `from_ms` accepts the commands … -/
example : [acceptedV MigExample.exSa growBranch1 1, acceptedV saShrink shrink 1, acceptedV saSame twoRates 1,
    acceptedV saLn2 eqRates 1] = [true, true, true, true] := by decide +kernel

/-- … and the returned graph, sampled at times in every epoch, has the sizes of the graph with the printed
growth rates (first component) -/
example : (roundTripAgainstV MigExample.exSa growBranch1 1 [0, 1, 3, 4, 7, 8, 9, 100]).map (·.1) = some true := by decide +kernel
example : (roundTripAgainstV saShrink shrink 1 [0, 5, 8, 20]).map (·.1) = some true := by decide +kernel
example : (roundTripAgainstV saSame twoRates 1 [0, 2, 4, 6, 8, 9]).map (·.1) = some true := by decide +kernel
example : (roundTripAgainstV saLn2 eqRates 1 [0, 2, 4, 8, 12, 13]).map (·.1) = some true := by decide +kernel

/-- the graph that comes back for `growBranch1`: the exponential epoch of `deme1` has exactly the original END
size 2 and the symbolic start size `2·exp(-0.34657359027997264/4 · 8)`; the older constant epoch has that
symbolic size too (no `-en` is printed where the size is continuous) -/
example : roundTripEpochs MigExample.exSa growBranch1 1
    = some [[(8, ⟨2, -(34657359027997264 / 10 ^ 17) / 4 * 8⟩, ⟨2, -(34657359027997264 / 10 ^ 17) / 4 * 8⟩, "constant"),
             (0, ⟨2, -(34657359027997264 / 10 ^ 17) / 4 * 8⟩, ⟨2, 0⟩, "exponential")],
            [(0, ⟨1/2, 0⟩, ⟨1/2, 0⟩, "constant")]] := by decide +kernel

/-! ### what is false, with its witnesses -/

/-- **The round trip is not exact in the sizes (the statement with `SemRefines … gs` is false).**  `growBranch1`
satisfies every hypothesis; the graph that comes back has the graph's size at time 0 (an `exactAt` time: the
recent end of the exponential epoch) but not at times 5 (inside the exponential epoch) and 9 — inside the
CONSTANT epoch older than the exponential one: `to_ms` prints no `-en` at time 8 because the size is
continuous there, so the constant epoch inherits `2·exp(-α'·2)` with the printed rate `α'`, not `1`. -/
theorem growth_roundtrip_sizes_counterexample :
    growHyps MigExample.exSa growBranch1 1 = true
    ∧ (roundTripAgainstV MigExample.exSa growBranch1 1 [0]).map (·.2) = some true
    ∧ (roundTripAgainstV MigExample.exSa growBranch1 1 [5]).map (·.2) = some false
    ∧ (roundTripAgainstV MigExample.exSa growBranch1 1 [9]).map (·.2) = some false
    ∧ ((graphSem (inGenerations growBranch1) none).toOption.map (fun gs =>
        gs.pops.map (fun p => [0, 3, 5, 9].map (exactAt p)))) = some [[true, false, false, false], [true, true, false, false]] := by
  decide +kernel

/-- **"The epoch boundaries come back" is false.**  `twoRates` has three epochs; a printer that prints its two
rates as the same string (`GrowthPrinter` holds: the strings read as numbers, `0` reads as `0`, and the two
rates are not equal) gives a command on which `from_ms` sees no change of rate at time 4: the graph that comes
back has two epochs.  (The real code does the same for two negative rates that agree to ten decimals.) -/
theorem growth_roundtrip_boundaries_counterexample :
    growHyps saSame twoRates 1 = true
    ∧ (twoRates.demes.map (·.epochs.length)) = [3]
    ∧ (roundTripEpochs saSame twoRates 1).map (fun ds => ds.map (·.length)) = some [2] := by
  decide +kernel

/-- **`GrowthPrinter.zero` cannot be dropped.**  With the rate `0` printed as `1.0` every other hypothesis holds
for `growBranch1`, and `from_ms` rejects the command ("growth rate for infinite-length epoch is invalid"). -/
theorem growth_roundtrip_zero_counterexample :
    validGraph growBranch1 = true ∧ MsExpressible growBranch1 = true ∧ PulsesTame growBranch1 = true
    ∧ (epochGrowths growBranch1 1).all (fun G => (match pyFloat (saBadZero G) with | some (.fin _) => true | _ => false)
          && (match classify (saBadZero G) with | .ok .arg => true | _ => false)) = true
    ∧ growthVal saBadZero .zero = 1
    ∧ acceptedV saBadZero growBranch1 1 = false := by
  decide +kernel

/-- **`GrowthPrinter.congr` cannot be dropped** (for the comparison with `regrow`).  `eqRates` has the same
rate in its two exponential epochs, computed from different pairs; `to_ms` prints it once.  A printer that
prints the two pairs differently satisfies everything but `congr`; `from_ms` accepts the command, and the
graph that comes back grows at the printed rate of the recent epoch throughout — not at the value the printer
gives the older epoch's own pair, which is what `regrow` would use. -/
theorem growth_roundtrip_congr_counterexample :
    growthPrinterB saIncongr (epochGrowths eqRates 1) = false
    ∧ (epochGrowths eqRates 1).all (fun G => (match pyFloat (saIncongr G) with | some (.fin _) => true | _ => false)
          && (match classify (saIncongr G) with | .ok .arg => true | _ => false)) = true
    ∧ growthVal saIncongr .zero = 0
    ∧ acceptedV saIncongr eqRates 1 = true
    ∧ (roundTripAgainstV saIncongr eqRates 1 [2]).map (·.1) = some true
    ∧ (roundTripAgainstV saIncongr eqRates 1 [8]).map (·.1) = some false := by
  decide +kernel

#print axioms growRoundTrip_of_hyps
#print axioms growth_roundtrip_sizes_counterexample
#print axioms growth_roundtrip_boundaries_counterexample
#print axioms growth_roundtrip_zero_counterexample
#print axioms growth_roundtrip_congr_counterexample

end Demes.Proofs.MsGrow
