/-
  Spec definitions for C13 — the *documented* size of an epoch at a time, written from the
  specification text (constant / exponential / linear interpolation between the epoch's
  start and end sizes), independent of the control flow of `Deme.size_at`.
-/
import DemesVerif.Spec.Relations
namespace Demes.Spec
open Demes

/-- The documented size of epoch `e` at the finite time `t` (meant for `t` in the epoch's
interval `(start, end]`).

* `"constant"`, or equal start and end sizes whatever the label: that (single) size.
* an epoch with infinite start has equal start and end sizes (V6), whatever its size
  function: that size.
* otherwise, with `dt = (start - t) / (start - end)` (the elapsed fraction of the epoch):
  `"exponential"` is the symbolic `start_size * exp(log(end_size/start_size) * dt)`
  (`SizeResult.expo`), `"linear"` is `start_size + (end_size - start_size) * dt`. -/
def specSize (e : Epoch) (t : Q) : SizeResult :=
  if e.sizeFunction = "constant" ∨ e.startSize = e.endSize then .exact e.endSize
  else match e.startTime with
    | .inf => .exact e.endSize
    | .fin s =>
      let dt := (s - t) / (s - e.endTime)
      if e.sizeFunction = "exponential" then .expo e.startSize e.endSize dt
      else .exact (e.startSize + (e.endSize - e.startSize) * dt)

end Demes.Spec
