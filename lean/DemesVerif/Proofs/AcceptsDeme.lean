/-
  Proofs for C03, part 4 — one iteration of the deme loop of `Graph.fromdict` (Model
  `resolveDeme`) against the Spec's `fillDeme`: soundness (`resolveDeme_fill`) and completeness
  (`resolveDeme_complete`).  The header (`_add_deme`) is in `AcceptsDemeHeader.lean`.
-/
import DemesVerif.Proofs.AcceptsEpochs
import DemesVerif.Proofs.AcceptsDemeHeader
namespace Demes.Proofs.Accepts
open Demes Demes.Obj Demes.Spec

/-! ### the deme defaults never carry `name`, `defaults` or `epochs` -/

theorem lookup_ins_of_none {k : String} {DD : Obj} (h : lookup k DD = none) (dd : Obj) :
    lookup k (insertDefaults dd DD) = lookup k dd := by
  rw [Proofs.lookup_insertDefaults, h]
  cases lookup k dd <;> rfl

theorem lookup_none_of_allowed {DD : Obj} (hDD : ∀ k ∈ keys DD, k ∈ allowedDeme) {k : String}
    (hk : k ∉ allowedDeme) : lookup k DD = none :=
  (Proofs.lookup_eq_none_iff k DD).2 (fun h => hk (hDD k h))

theorem defaults_notin : "defaults" ∉ allowedDeme := by decide
theorem epochs_notin : "epochs" ∉ allowedDeme := by decide

/-! ### `update` of two mappings is empty only if both are -/

theorem set_ne_nil (k : String) (v : Value) (d : Obj) : Obj.set k v d ≠ [] := by
  cases d with
  | nil => simp [Obj.set]
  | cons kv d =>
    obtain ⟨k', v'⟩ := kv
    simp only [Obj.set]
    split <;> simp

theorem foldl_set_ne_nil : ∀ (b a : Obj), a ≠ [] →
    b.foldl (fun acc kv => Obj.set kv.1 kv.2 acc) a ≠ []
  | [], a, h => h
  | kv :: b, a, _ => by
    rw [List.foldl_cons]
    exact foldl_set_ne_nil b _ (set_ne_nil _ _ _)

theorem update_isEmpty {a b : Obj} (h : (update a b).isEmpty = true) : b = [] ∧ a = [] := by
  cases b with
  | nil => exact ⟨rfl, List.isEmpty_iff.1 h⟩
  | cons kv b =>
    exfalso
    unfold update at h
    rw [List.foldl_cons] at h
    exact foldl_set_ne_nil b _ (set_ne_nil _ _ _) (List.isEmpty_iff.1 h)

/-- a deme written without `epochs` gets one epoch, which needs a size from the defaults -/
theorem fillEpochs_single_defaults {st : ETime} {L GE : Obj} {eps : List Epoch}
    (h : fillEpochs st L GE none [[]] = some eps) : ¬ (L = [] ∧ GE = []) := by
  rintro ⟨rfl, rfl⟩
  simp [fillEpochs, fillEpoch, specEpochFields, specEpochFieldsOf, effective, lookup, notNull] at h

/-- the check "no epoch defaults and no `epochs`" of the deme loop does not fire -/
theorem noEpochs_check {DD GE dd L : Obj} {es : List Obj} {st : ETime} {eps : List Epoch}
    (hDD : ∀ k ∈ keys DD, k ∈ allowedDeme)
    (hes : (match lookup "epochs" dd with | none => some [[]] | some v => objsOf v) = some es)
    (hf : fillEpochs st L GE none es = some eps) :
    ((update GE L).isEmpty && !(contains "epochs" (insertDefaults dd DD))) = false := by
  rw [Proofs.contains_eq, lookup_ins_of_none (lookup_none_of_allowed hDD epochs_notin)]
  cases hl : lookup "epochs" dd with
  | some v => simp only [Option.isSome_some, Bool.not_true, Bool.and_false]
  | none =>
    rw [hl] at hes
    simp only [Option.some.injEq] at hes
    subst hes
    cases he : (update GE L).isEmpty with
    | false => rfl
    | true => exact absurd (update_isEmpty he) (fillEpochs_single_defaults hf)

/-- the `epochs` step of `fillDeme`, with its continuation taken out of the `match` -/
theorem epochs_jp {β} (x : Option Value) (jp : List Obj → Option β) :
    (match x with
      | none => (some [[]] >>= jp)
      | some v => (objsOf v >>= jp))
      = ((match x with | none => some [[]] | some v => objsOf v) >>= jp) := by
  cases x <;> rfl

/-! ### inversion of a successful iteration -/

/-- everything one iteration of the deme loop has established when it succeeds
(`Proofs.resolveDeme_ok`, keeping all facts) -/
theorem resolveDeme_inv {DD GE : Obj} {g g' : Graph} {demeData : Obj}
    (h : resolveDeme DD GE g demeData = .ok g') :
    ∃ nameV d ld L es eps,
      lookup "name" demeData = some nameV ∧
      checkAllowed demeData allowedDemeInner = .ok () ∧
      addDemeHeader g nameV
        ((lookup "description" (insertDefaults demeData DD)).getD (.str ""))
        (lookupNN "ancestors" (insertDefaults demeData DD))
        (lookupNN "proportions" (insertDefaults demeData DD))
        (lookupNN "start_time" (insertDefaults demeData DD)) = .ok d ∧
      popObject (insertDefaults demeData DD) "defaults" = .ok ld ∧
      checkAllowed ld allowedLocalDefaults = .ok () ∧
      popObject ld "epoch" = .ok L ∧
      checkDefaults L epochDefaultsTable = .ok () ∧
      popObjList (insertDefaults demeData DD) "epochs" (some [[]]) = .ok es ∧
      es ≠ [] ∧
      resolveEpochs d.startTime (update GE L) es = .ok eps ∧
      g' = { g with demes := g.demes ++ [{ d with epochs := eps }],
                    index := g.index ++ [(d.name, g.demes.length)] } := by
  unfold resolveDeme at h
  extract_lets dd jp1 at h
  split at h
  · rename_i nameV hname
    rw [pure_bind] at h
    simp -zeta only [jp1] at h
    obtain ⟨_, hca, h⟩ := Proofs.bind_ok h
    obtain ⟨d, hd, h⟩ := Proofs.bind_ok h
    obtain ⟨ld, hld, h⟩ := Proofs.bind_ok h
    obtain ⟨_, hca2, h⟩ := Proofs.bind_ok h
    obtain ⟨L, hL, h⟩ := Proofs.bind_ok h
    obtain ⟨_, hcd, h⟩ := Proofs.bind_ok h
    extract_lets ED jp2 at h
    split at h
    · cases h
    simp -zeta only [jp2] at h
    obtain ⟨es, hes, h⟩ := Proofs.bind_ok h
    extract_lets jp3 at h
    split at h
    · cases h
    rename_i hne
    simp -zeta only [jp3] at h
    obtain ⟨eps, heps, h⟩ := Proofs.bind_ok h
    cases h
    refine ⟨nameV, d, ld, L, es, eps, hname, hca, hd, hld, hca2, hL, hcd, hes, ?_, heps, rfl⟩
    intro he; exact hne (by rw [he]; rfl)
  · cases h

/-! ### soundness -/

/-- soundness of one iteration of the deme loop (`DD` = `defaults.deme`, `GE` = top-level
`defaults.epoch`); `hDD`: the defaults have only deme-default keys; `hnd`: distinct keys in the
deme-level `defaults.epoch` -/
theorem resolveDeme_fill {DD GE : Obj} {g g' : Graph} {dd : Obj}
    (hDD : ∀ k ∈ keys DD, k ∈ allowedDeme)
    (hnd : ∀ ld L, sectionOf dd "defaults" = some ld → sectionOf ld "epoch" = some L → (keys L).Nodup)
    (h : resolveDeme DD GE g dd = .ok g') :
    (lookup "name" dd).isSome = true ∧ onlyFields demeFields dd = true ∧
    ∃ ld L es d,
      sectionOf dd "defaults" = some ld ∧ onlyFields demeDefaultsFields ld = true ∧
      sectionOf ld "epoch" = some L ∧ checkDefaults L epochDefaultsTable = .ok () ∧
      (match lookup "epochs" dd with | none => some [[]] | some v => objsOf v) = some es ∧
      es ≠ [] ∧ (∀ e ∈ es, onlyFields epochFields e = true) ∧
      fillDeme DD GE g dd = some d ∧ g' = addDeme g d := by
  obtain ⟨nameV, d, ld, L, es, eps, hname, hca, hd, hld, hca2, hL, hcd, hes, hne, heps, rfl⟩ :=
    resolveDeme_inv h
  obtain ⟨hn, hdesc, _, ⟨hanc, _⟩, ⟨sv, hsv, hpt⟩, ⟨ps, hps, hpm⟩⟩ := Proofs.addDemeHeader_spec hd
  rw [Proofs.lookupNN_insertDefaults] at hanc hsv hps
  rw [Proofs.lookup_insertDefaults_eff] at hdesc
  subst hn
  -- the sections and the epochs list are read from `dd` itself
  have hld' : sectionOf dd "defaults" = some ld := by
    have := (popObject_ok_iff _ _ _).1 hld
    unfold sectionOf at this ⊢
    rwa [lookup_ins_of_none (lookup_none_of_allowed hDD defaults_notin)] at this
  have hL' : sectionOf ld "epoch" = some L := (popObject_ok_iff _ _ _).1 hL
  have hes' : (match lookup "epochs" dd with | none => some [[]] | some v => objsOf v) = some es := by
    have := (popObjList_ok_iff _ _ _ _).1 hes
    rwa [lookup_ins_of_none (lookup_none_of_allowed hDD epochs_notin)] at this
  obtain ⟨hce, hfe⟩ := resolveEpochs_fill (hnd ld L hld' hL') heps
  have hst : timeOf sv = some d.startTime := ((posTime_ok_iff _ _).1 hpt).1
  have hpr : mapOpt finOf ps = some d.proportions :=
    ((mapM_ok_iff unitExLoQ finOf _ unitExLoQ_ok_iff ps d.proportions).1 hpm).1
  refine ⟨by rw [hname]; rfl, ?_, ld, L, es, { d with epochs := eps }, hld', ?_, hL', hcd, hes', hne,
    hce, ?_, rfl⟩
  · rw [demeFields_eq, ← checkAllowed_iff_onlyFields]; exact hca
  · rw [demeDefaultsFields_eq, ← checkAllowed_iff_onlyFields]; exact hca2
  · unfold fillDeme
    have e1 : (lookup "name" dd).bind strOf = some d.name := by rw [hname]; rfl
    have e2 : strOf ((effective dd DD [] "description").getD (.str "")) = some d.description := by
      rw [hdesc]; rfl
    have e3 : strsOf (specAncestors (effectiveNN dd DD [] "ancestors")) = some d.ancestors :=
      strsOf_eq_some.2 hanc
    have e4 : (specStartTime g (effectiveNN dd DD [] "start_time") d.ancestors).bind timeOf
        = some d.startTime := by rw [hsv]; exact hst
    have e5 : finsOf (specProportions (effectiveNN dd DD [] "proportions") d.ancestors)
        = some d.proportions := by rw [hps]; exact hpr
    rw [e1, some_obind, e2, some_obind, e3, some_obind, e4, some_obind, e5, some_obind, hld',
      some_obind, hL', some_obind]
    refine (epochs_jp _ _).trans ?_
    rw [hes', some_obind]
    dsimp only
    rw [hfe, some_obind]
    rfl

/-! ### completeness -/

/-- completeness of one iteration of the deme loop -/
theorem resolveDeme_complete {DD GE : Obj} {g : Graph} {dd ld L : Obj} {es : List Obj} {d : Deme}
    (hDD : ∀ k ∈ keys DD, k ∈ allowedDeme)
    (hname : (lookup "name" dd).isSome = true) (hca : onlyFields demeFields dd = true)
    (hld : sectionOf dd "defaults" = some ld) (hca2 : onlyFields demeDefaultsFields ld = true)
    (hL : sectionOf ld "epoch" = some L) (hcd : checkDefaults L epochDefaultsTable = .ok ())
    (hnd : (keys L).Nodup)
    (hes : (match lookup "epochs" dd with | none => some [[]] | some v => objsOf v) = some es)
    (hne : es ≠ []) (hce : ∀ e ∈ es, onlyFields epochFields e = true)
    (hf : fillDeme DD GE g dd = some d) (hok : Asdict.DemeOk g d)
    (hep : ∀ e ∈ d.epochs, Asdict.EpochOk e) :
    resolveDeme DD GE g dd = .ok (addDeme g d) := by
  have _ := hname   -- implied by `hf`; kept in the statement for symmetry with `resolveDeme_fill`
  -- take `fillDeme` apart
  unfold fillDeme at hf
  obtain ⟨name, h1, hf⟩ := obind_some hf
  obtain ⟨desc, h2, hf⟩ := obind_some hf
  obtain ⟨anc, h3, hf⟩ := obind_some hf
  obtain ⟨st, h4, hf⟩ := obind_some hf
  obtain ⟨props, h5, hf⟩ := obind_some hf
  obtain ⟨ld', h6, hf⟩ := obind_some hf
  obtain ⟨L', h7, hf⟩ := obind_some hf
  obtain ⟨es', h8, hf⟩ := obind_some ((epochs_jp _ _).symm.trans hf)
  replace hf : (fillEpochs st L' GE none es' >>= fun epochs =>
      (pure { name := name, description := desc, startTime := st, ancestors := anc,
              proportions := props, epochs := epochs } : Option Deme)) = some d := hf
  obtain ⟨eps, h9, hf⟩ := obind_some hf
  cases hf
  rw [hld] at h6; cases h6
  rw [hL] at h7; cases h7
  rw [hes] at h8; cases h8
  dsimp only at hep
  obtain ⟨nv, hnv, h1⟩ := obind_some' h1
  have hnv' := strOf_eq_some.1 h1
  subst hnv'
  have hdesc := strOf_eq_some.1 h2
  have hanc := strsOf_eq_some.1 h3
  obtain ⟨sv, hsv, hst⟩ := obind_some' h4
  obtain ⟨ps, hps, hpr⟩ := obind_some' h5
  have hps' := listOf_eq_some.1 hps
  -- the header
  have hhdr := addDemeHeader_complete (g := g) (d := ⟨name, desc, st, anc, props, eps⟩)
    (ancV := effectiveNN dd DD [] "ancestors") (propV := effectiveNN dd DD [] "proportions")
    (stV := effectiveNN dd DD [] "start_time") hanc hsv hst hps' hpr hok
  dsimp only at hhdr
  -- the rest of the iteration
  have c1 : checkAllowed dd allowedDemeInner = .ok () := by
    rw [checkAllowed_iff_onlyFields, ← demeFields_eq]; exact hca
  have c2 : popObject (insertDefaults dd DD) "defaults" = .ok ld := by
    rw [popObject_ok_iff]
    unfold sectionOf at hld ⊢
    rwa [lookup_ins_of_none (lookup_none_of_allowed hDD defaults_notin)]
  have c3 : checkAllowed ld allowedLocalDefaults = .ok () := by
    rw [checkAllowed_iff_onlyFields, ← demeDefaultsFields_eq]; exact hca2
  have c4 : popObject ld "epoch" = .ok L := (popObject_ok_iff _ _ _).2 hL
  have c5 := noEpochs_check (DD := DD) hDD hes h9
  have c6 : popObjList (insertDefaults dd DD) "epochs" (some [[]]) = .ok es := by
    rw [popObjList_ok_iff, lookup_ins_of_none (lookup_none_of_allowed hDD epochs_notin)]
    exact hes
  have c7 : es.isEmpty = false := by cases es with
    | nil => exact absurd rfl hne
    | cons _ _ => rfl
  have c8 := resolveEpochs_complete hnd hce h9 hep
  unfold resolveDeme
  simp only [hnv, Asdict.pure_bind', Asdict.bind_ok, c1, Proofs.lookup_insertDefaults_eff,
    Proofs.lookupNN_insertDefaults, hdesc, hhdr, c2, c3, c4, hcd, c5, c6, c7, c8, Bool.false_eq_true,
    ↓reduceIte]
  rfl

/-! ### non-vacuity -/

/-- the hypotheses of `resolveDeme_fill` are met by a concrete entry: `epochs` absent, the start
size (`true`, read as 1) from the deme-level `defaults.epoch` -/
example : (resolveDeme [] [] emptyGraph
    [("name", .str "a"), ("defaults", .obj [("epoch", .obj [("start_size", .bool true)])])]).isOk
      = true := by decide +kernel

end Demes.Proofs.Accepts

