/-
  C08, after the event loop (4)+(5): from the end of the event loop to the observable of the
  resolved graph — sizes and migrations.
-/
import DemesVerif.Proofs.FromMsPostScale
import DemesVerif.Proofs.FromMsPostDemes
import DemesVerif.Proofs.FromMsPostResolve
import DemesVerif.Proofs.FromMsPostCanon
import DemesVerif.Proofs.FromMsPostPop
import DemesVerif.Proofs.FromMsSem
import DemesVerif.Proofs.FromMsFinal
import DemesVerif.Proofs.MatValid
namespace Demes.Proofs.FromMs
open Demes Demes.Ms Demes.Spec Demes.Spec.MsSem Demes.Spec.C08

/-! ## list helpers -/

theorem smapM_pointwise2 {α β γ} {f : α → Except String γ} {g : β → γ} :
    ∀ {l : List α} {l' : List β}, l.length = l'.length →
      (∀ (i : Nat) x y, l[i]? = some x → l'[i]? = some y → f x = .ok (g y)) → l.mapM f = .ok (l'.map g) := by
  intro l
  induction l with
  | nil =>
    intro l' hl _
    cases l' with
    | nil => rfl
    | cons _ _ => simp at hl
  | cons x l ih =>
    intro l' hl h
    cases l' with
    | nil => simp at hl
    | cons y l' =>
      rw [List.mapM_cons, h 0 x y rfl rfl]
      have := ih (l' := l') (by simpa using hl) (fun i a b ha hb => h (i + 1) a b (by simpa using ha) (by simpa using hb))
      show (do let ys ← List.mapM f l; pure (g y :: ys)) = _
      rw [this]
      rfl

/-- two index-aligned lists filtered by equivalent conditions and mapped to related values -/
theorem filterMap_zip_all {α β γ δ} (R : γ → δ → Bool) :
    ∀ (l1 : List α) (l2 : List β) (k : Nat) (f1 : α × Nat → Option γ) (f2 : β × Nat → Option δ),
      l1.length = l2.length →
      (∀ i a b, l1[i]? = some a → l2[i]? = some b →
        ((f1 (a, k + i)).isSome = (f2 (b, k + i)).isSome ∧
          ∀ x y, f1 (a, k + i) = some x → f2 (b, k + i) = some y → R x y = true)) →
      ((l1.zipIdx k).filterMap f1).length = ((l2.zipIdx k).filterMap f2).length
      ∧ (((l1.zipIdx k).filterMap f1).zip ((l2.zipIdx k).filterMap f2)).all (fun ab => R ab.1 ab.2) = true := by
  intro l1
  induction l1 with
  | nil =>
    intro l2 k f1 f2 hl _
    cases l2 with
    | nil => exact ⟨rfl, rfl⟩
    | cons _ _ => simp at hl
  | cons a l1 ih =>
    intro l2 k f1 f2 hl h
    cases l2 with
    | nil => simp at hl
    | cons b l2 =>
      obtain ⟨h0, h0'⟩ := h 0 a b rfl rfl
      simp only [Nat.add_zero] at h0 h0'
      obtain ⟨r1, r2⟩ := ih l2 (k + 1) f1 f2 (by simpa using hl)
        (fun i a' b' ha hb => by
          have := h (i + 1) a' b' (by simpa using ha) (by simpa using hb)
          have e : k + (i + 1) = k + 1 + i := by omega
          rw [e] at this
          exact this)
      simp only [List.zipIdx_cons, List.filterMap_cons]
      cases h1 : f1 (a, k) with
      | none =>
        rw [h1] at h0
        have h2 : f2 (b, k) = none := by
          cases hq : f2 (b, k) with
          | none => rfl
          | some _ => rw [hq] at h0; cases h0
        rw [h2]
        exact ⟨r1, r2⟩
      | some x =>
        rw [h1] at h0
        cases h2 : f2 (b, k) with
        | none => rw [h2] at h0; cases h0
        | some y =>
          refine ⟨by simp [r1], ?_⟩
          simp only [List.zip_cons_cons, List.all_cons, r2, Bool.and_true]
          exact h0' x y h1 h2

theorem filterMap_zipIdx_fst {α γ} (f : α → Option γ) : ∀ (l : List α) (k : Nat),
    (l.zipIdx k).filterMap (fun ak => f ak.1) = l.filterMap f := by
  intro l
  induction l with
  | nil => intro k; rfl
  | cons a l ih =>
    intro k
    simp only [List.zipIdx_cons, List.filterMap_cons]
    rw [ih (k + 1)]

/-! ## size functions outside the lifetime -/

theorem closedSizeAt_none : ∀ {eps : List BEpoch} {st : ETime} {t : Q}, (∀ e ∈ eps, t < e.endTime) →
    closedSizeAt eps st t = none
  | [], _, _, _ => rfl
  | e :: r, st, t, h => by
    have h1 := h e (List.mem_cons_self ..)
    have : ¬ e.endTime ≤ t := by grind
    rw [closedSizeAt_cons, if_neg this]
    exact closedSizeAt_none (fun e' he' => h e' (List.mem_cons_of_mem _ he'))

theorem segsSizeAt_none_lo : ∀ {A : List Seg} {t : Q}, (∀ s ∈ A, t < s.t0) → segsSizeAt A t = none
  | [], _, _ => rfl
  | s :: r, t, h => by
    have h1 := h s (List.mem_cons_self ..)
    unfold segsSizeAt
    have : (decide (s.t0 ≤ t) && decide (ETime.fin t < s.t1)) = false := by
      have : ¬ s.t0 ≤ t := by grind
      simp [this]
    rw [this]
    exact segsSizeAt_none_lo (fun s' hs' => h s' (List.mem_cons_of_mem _ hs'))

theorem last_is_min : ∀ {eps : List BEpoch} {eL : BEpoch}, eps.Pairwise (fun a b => b.endTime < a.endTime) →
    eps.getLast? = some eL → ∀ e ∈ eps, eL.endTime ≤ e.endTime
  | [], _, _, h, _, _ => by cases h
  | [a], eL, _, h, e, he => by
    simp only [List.getLast?_singleton, Option.some.injEq] at h
    simp only [List.mem_singleton] at he
    rw [he, h]
  | a :: b :: r, eL, hdec, h, e, he => by
    rw [List.getLast?_cons_cons] at h
    rw [List.pairwise_cons] at hdec
    have hm : eL ∈ b :: r := List.mem_of_getLast? h
    rcases List.mem_cons.mp he with rfl | he
    · have := hdec.1 eL hm
      grind
    · exact last_is_min hdec.2 h e he

theorem lastEndTime_mem {d : BDeme} (hne : d.epochs ≠ []) :
    ∃ eL, d.epochs.getLast? = some eL ∧ eL ∈ d.epochs ∧ lastEndTime d = eL.endTime := by
  cases hl : d.epochs.getLast? with
  | none => exact absurd (List.getLast?_eq_none_iff.mp hl) hne
  | some eL =>
    refine ⟨eL, rfl, List.mem_of_getLast? hl, ?_⟩
    unfold lastEndTime
    rw [hl]
    rfl

/-! ## one population: lifetimes -/

/-- the Builder deme and the interpreter population with the same size function have the same
lifetime; a transient deme is a population that `msSem` does not show -/
theorem pop_match {p : Pop} {d1 : BDeme} (hw : PopWF p) (hcl : EpochsClosed d1.epochs) (hst : d1.startTime = p.hi)
    (hsz : ∀ t, ETime.fin t < p.hi → closedSizeAt d1.epochs d1.startTime t = segsSizeAt (finalSegs p) t) :
    (isTransient d1 = true → ¬ ETime.fin p.lo < p.hi) ∧
    ((∀ e ∈ d1.epochs, ETime.fin e.endTime < d1.startTime) → lastEndTime d1 = p.lo ∧ ETime.fin p.lo < p.hi) := by
  have hA := finalSegs_chain hw
  obtain ⟨eL, hL, hLm, hLe⟩ := lastEndTime_mem hcl.ne
  have hmin := last_is_min hcl.dec hL
  refine ⟨?_, ?_⟩
  · intro ht hlohi
    unfold isTransient at ht
    cases hs : d1.startTime with
    | inf => rw [hs] at ht; cases ht
    | fin st =>
      rw [hs] at ht
      simp only [Bool.and_eq_true, decide_eq_true_eq] at ht
      have hhi : p.hi = .fin st := by rw [← hst, hs]
      rw [hhi] at hlohi
      have hlt : p.lo < st := hlohi
      obtain ⟨sa, g, _, _, a1, a2, a3⟩ := asc_owner hA Rat.le_refl (by rw [hhi]; exact hlohi)
      have h1 := hsz p.lo (by rw [hhi]; exact hlohi)
      rw [a3 p.lo a1 a2, closedSizeAt_none] at h1
      · cases h1
      · intro e he
        have := hmin e he
        rw [← hLe, ← ht.2] at this
        grind
  · intro hval
    have hlast : ETime.fin (lastEndTime d1) < p.hi := by rw [hLe, ← hst]; exact hval eL hLm
    have hsome : ∃ v, closedSizeAt d1.epochs d1.startTime (lastEndTime d1) = some v := by
      obtain ⟨e, st_e, _, _, b1, b2, _, b4, _⟩ := desc_owner hcl.dec hval (by rw [hst]; exact hlast)
        ⟨eL, hLm, by rw [hLe]⟩
      exact ⟨_, b4 _ b1 b2⟩
    have heq : lastEndTime d1 = p.lo := by
      by_contra hne
      by_cases hlt : lastEndTime d1 < p.lo
      · obtain ⟨v, hv⟩ := hsome
        have h1 := hsz _ hlast
        rw [hv, segsSizeAt_none_lo] at h1
        · cases h1
        · intro s hs
          have := asc_lower hA s hs
          grind
      · have hlt' : p.lo < lastEndTime d1 := by grind
        have hlohi : ETime.fin p.lo < p.hi :=
          et_lt_of_lt_of_le (b := ETime.fin (lastEndTime d1)) hlt' (et_le_of_lt hlast)
        obtain ⟨sa, g, _, _, a1, a2, a3⟩ := asc_owner hA Rat.le_refl hlohi
        have h1 := hsz p.lo hlohi
        rw [a3 p.lo a1 a2, closedSizeAt_none] at h1
        · cases h1
        · intro e he
          have := hmin e he
          rw [← hLe] at this
          grind
    exact ⟨heq, by rw [← heq]; exact hlast⟩


/-! ## reading the epochs of the resolved graph back -/

theorem epochsOf_endTimes (tab : List (Sz × Q)) : ∀ (eps : List BEpoch) (st : ETime),
    (epochsOf tab st eps).map (·.endTime) = eps.map (·.endTime)
  | [], _ => rfl
  | e :: r, st => by
    rw [epochsOf_cons, List.map_cons, List.map_cons, epochsOf_endTimes tab r]
    rfl

theorem epochsOf_segs {tab : List (Sz × Q)} {dec : Q → Sz} : ∀ (eps : List BEpoch) (st : ETime),
    (∀ e ∈ eps, dec (szToQ tab e.endSize) = e.endSize
      ∧ dec (szToQ tab (e.startSize.getD e.endSize)) = e.startSize.getD e.endSize) →
    (epochsOf tab st eps).map (epSeg dec) = gsegs st eps
  | [], _, _ => rfl
  | e :: r, st, h => by
    obtain ⟨h1, h2⟩ := h e (List.mem_cons_self ..)
    rw [epochsOf_cons, List.map_cons, epochsOf_segs r _ (fun e' he' => h e' (List.mem_cons_of_mem _ he'))]
    show _ :: _ = gseg st e :: _
    congr 1
    unfold epSeg gseg mkEpoch
    dsimp only
    rw [h1, h2]
    congr 1
    by_cases hq : e.startSize.getD e.endSize = e.endSize
    · rw [if_pos hq, hq, if_pos rfl]
    · rw [if_neg hq, if_neg]
      intro hc
      apply hq
      have := congrArg dec hc
      rw [h1, h2] at this
      exact this

theorem epochsOf_mem (tab : List (Sz × Q)) : ∀ (eps : List BEpoch) (st : ETime) (e : BEpoch), e ∈ eps →
    ∃ E ∈ epochsOf tab st eps, E.endSize = szToQ tab e.endSize
  | [], _, _, h => by cases h
  | a :: r, st, e, h => by
    rw [epochsOf_cons]
    rcases List.mem_cons.mp h with rfl | h
    · exact ⟨_, List.mem_cons_self .., rfl⟩
    · obtain ⟨E, hE, hEe⟩ := epochsOf_mem tab r (.fin a.endTime) e h
      exact ⟨E, List.mem_cons_of_mem _ hE, hEe⟩

/-- what validity of the resolved graph says about a document deme -/
theorem graph_deme_valid {g : Graph} (hv : validGraph g = true) {D : Deme} (hD : D ∈ g.demes)
    {tab : List (Sz × Q)} {d : BDeme} (he : D.epochs = epochsOf tab d.startTime d.epochs)
    (hdec : d.epochs.Pairwise (fun a b => b.endTime < a.endTime)) :
    (∀ e ∈ d.epochs, ETime.fin e.endTime < d.startTime) ∧ (∀ e ∈ d.epochs, 0 < szToQ tab e.endSize) := by
  obtain ⟨_, _, _, _, _, h5, h6, _⟩ := validGraph_clauses hv
  refine ⟨?_, ?_⟩
  · unfold v5 at h5
    have := List.all_eq_true.mp h5 D hD
    simp only [Bool.and_eq_true] at this
    have hc := this.2
    rw [he] at hc
    cases hd : d.epochs with
    | nil => intro e he'; cases he'
    | cons e0 r =>
      rw [hd] at hc hdec
      rw [epochsOf_cons] at hc
      unfold contiguous at hc
      simp only [Bool.and_eq_true, decide_eq_true_eq] at hc
      have h0 : ETime.fin e0.endTime < d.startTime := hc.1.2
      rw [List.pairwise_cons] at hdec
      intro e he'
      rcases List.mem_cons.mp he' with rfl | he'
      · exact h0
      · have : e.endTime < e0.endTime := hdec.1 e he'
        exact et_lt_of_lt_of_le (b := ETime.fin e0.endTime) this (et_le_of_lt h0)
  · unfold v6 at h6
    have := List.all_eq_true.mp h6 D hD
    intro e he'
    obtain ⟨E, hE, hEe⟩ := epochsOf_mem tab d.epochs d.startTime e he'
    rw [← he] at hE
    have := List.all_eq_true.mp this E hE
    simp only [Bool.and_eq_true, decide_eq_true_eq] at this
    rw [← hEe]
    exact this.1.1.1.1.1.1.1.1.2

theorem coef_ne_of_pos {tab : List (Sz × Q)} {s : Sz} (hnf : SzNF s) (hpos : 0 < szToQ tab s) : s.coef ≠ 0 := by
  intro hc
  have hx := hnf hc
  have : s.isExact = true := by simp [Sz.isExact, hx]
  unfold szToQ at hpos
  rw [if_pos this, hc] at hpos
  exact absurd hpos (by decide +kernel)


/-! ## the populations of the two observables -/

/-- what `graphSem` computes per deme -/
def graphPop (dec : Q → Sz) (names : List String) (d : Deme) : Except String PopSem := do
  let id ← popId names d.name
  let segs := d.epochs.reverse.map (fun (e : Epoch) =>
    ({ t0 := e.endTime, t1 := e.startTime, size := dec e.endSize, growth := none,
       sizeOld := some (dec e.startSize), fn := e.sizeFunction } : Seg))
  pure ({ id := id, lo := d.endTime, hi := d.startTime, segs := segs } : PopSem)

/-- what `msSem` shows per population -/
def msPop (pk : Pop × Nat) : Option PopSem :=
  if decide (ETime.fin pk.1.lo < pk.1.hi) then
    some { id := pk.2 + 1, lo := pk.1.lo, hi := pk.1.hi, segs := finalSegs pk.1 }
  else none

theorem finishSem_pops (σ : St) : (finishSem σ).pops = (σ.pops.zipIdx).filterMap msPop := by
  unfold finishSem
  dsimp only
  apply List.filterMap_congr
  rintro ⟨p, k⟩ _
  rfl

/-- everything `graphSemWith` computes for populations and migrations -/
theorem graphSemWith_parts {sz : Q → Sz} {g : Graph} {names : Option (List String)} {D : DemogSem}
    (h : graphSemWith sz g names = .ok D) :
    ∃ pops0 raw, g.demes.mapM (graphPop sz (names.getD (g.demes.map (·.name)))) = .ok pops0
      ∧ D.pops = (sortKey (pops0.map (fun p => (p.id, p)))).map (·.2)
      ∧ g.migrations.mapM (m := Except String) (fun m => do
          pure ({ dest := ← popId (names.getD (g.demes.map (·.name))) m.dest,
                  source := ← popId (names.getD (g.demes.map (·.name))) m.source,
                  t0 := m.endTime, t1 := m.startTime, rate := m.rate } : MigSeg)) = .ok raw
      ∧ D.migs = graphMigs raw (names.getD (g.demes.map (·.name))).length := by
  unfold graphSemWith at h
  obtain ⟨pops, hpops, h⟩ := sbind_ok.1 h
  obtain ⟨raw, hraw, h⟩ := sbind_ok.1 h
  obtain ⟨moves, _, h⟩ := sbind_ok.1 h
  rw [spure_ok] at h
  subst h
  exact ⟨pops, raw, hpops, rfl, hraw, rfl⟩

/-- the population `graphSem` shows for a finished Builder deme -/
def bPop (names : List String) (d : BDeme) : PopSem :=
  { id := (match popId names d.name with | .ok k => k | .error _ => 0), lo := lastEndTime d, hi := d.startTime,
    segs := (gsegs d.startTime d.epochs).reverse }

theorem graph_pop_ok {dec : Q → Sz} {names : List String} {tab : List (Sz × Q)} {D : Deme} {d : BDeme} {k : Nat}
    (hn : D.name = d.name) (hst : D.startTime = d.startTime) (he : D.epochs = epochsOf tab d.startTime d.epochs)
    (hdec : ∀ e ∈ d.epochs, dec (szToQ tab e.endSize) = e.endSize
      ∧ dec (szToQ tab (e.startSize.getD e.endSize)) = e.startSize.getD e.endSize)
    (hid : popId names d.name = .ok k) : graphPop dec names D = .ok (bPop names d) := by
  unfold graphPop bPop
  rw [hn, hid]
  show Except.ok _ = Except.ok _
  congr 1
  have hsegs : D.epochs.reverse.map (fun (e : Epoch) =>
      ({ t0 := e.endTime, t1 := e.startTime, size := dec e.endSize, growth := none,
         sizeOld := some (dec e.startSize), fn := e.sizeFunction } : Seg)) = (gsegs d.startTime d.epochs).reverse := by
    rw [List.map_reverse, he]
    congr 1
    exact epochsOf_segs d.epochs d.startTime hdec
  have hlo : D.endTime = lastEndTime d := by
    unfold Deme.endTime Deme.endTime? lastEndTime
    rw [he]
    have : (epochsOf tab d.startTime d.epochs).getLast?.map (·.endTime) = d.epochs.getLast?.map (·.endTime) := by
      rw [← List.getLast?_map, ← List.getLast?_map, epochsOf_endTimes]
    rw [this]
  rw [hsegs, hlo, hst]

theorem filter_map_eq_filterMap {α β} (q : α → Bool) (f : α → β) : ∀ l : List α,
    (l.filter (fun a => !q a)).map f = l.filterMap (fun a => if q a then none else some (f a))
  | [] => rfl
  | a :: l => by
    rw [List.filter_cons, List.filterMap_cons]
    cases hq : q a with
    | true => simp only [Bool.not_true, Bool.false_eq_true, if_false, if_true]; exact filter_map_eq_filterMap q f l
    | false =>
      simp only [Bool.not_false, if_true, Bool.false_eq_true, if_false, List.map_cons]
      rw [filter_map_eq_filterMap q f l]

theorem range_succ_pairwise (n : Nat) : ((List.range n).map (· + 1)).Pairwise (· < ·) := by
  rw [List.pairwise_map]
  exact (List.pairwise_lt_range (n := n)).imp (fun h => Nat.succ_lt_succ h)

/-- **the populations.**  Index-aligned Builder demes (finished) and interpreter populations with
the same size functions give `popEquiv` observables, population by population; the transient
demes are exactly the populations `msSem` does not show. -/
theorem pops_sem {σ : St} {demes1 docDemes : List BDeme} {g : Graph} {tab : List (Sz × Q)} {dec : Q → Sz}
    {pops0 : List PopSem}
    (hn : demes1.length = σ.pops.length)
    (hnm : demes1.map (·.name) = (List.range demes1.length).map Ms.demeName)
    (hcl : ∀ d ∈ demes1, EpochsClosed d.epochs)
    (hinfd : ∀ d ∈ demes1, d.startTime = .inf → ∀ e z, d.epochs.head? = some e → e.startSize = some z → z = e.endSize)
    (hpop : ∀ (k : Nat) (d : BDeme) (p : Pop), demes1[k]? = some d → σ.pops[k]? = some p → PopWF p ∧ d.startTime = p.hi ∧
      ∀ t, ETime.fin t < p.hi → closedSizeAt d.epochs d.startTime t = segsSizeAt (finalSegs p) t)
    (hdoc : docDemes = sortDemesByAncestry (demes1.filter (fun d => !isTransient d)))
    (hlen : g.demes.length = docDemes.length)
    (hrb : ∀ (i : Nat) (d : BDeme) (D : Deme), docDemes[i]? = some d → g.demes[i]? = some D →
      D.name = d.name ∧ D.startTime = d.startTime ∧ D.epochs = epochsOf tab d.startTime d.epochs)
    (hv : validGraph g = true)
    (hdecode : ∀ d ∈ docDemes, ∀ e ∈ d.epochs, dec (szToQ tab e.endSize) = e.endSize
      ∧ dec (szToQ tab (e.startSize.getD e.endSize)) = e.startSize.getD e.endSize)
    (hpops0 : g.demes.mapM (graphPop dec (popNames demes1.length)) = .ok pops0) :
    (finishSem σ).pops.length = ((sortKey (pops0.map (fun p => (p.id, p)))).map (·.2)).length
    ∧ ((finishSem σ).pops.zip ((sortKey (pops0.map (fun p => (p.id, p)))).map (·.2))).all
        (fun ab => popEquiv ab.1 ab.2) = true := by
  -- names and ids
  have hname : ∀ (k : Nat) (d : BDeme), demes1[k]? = some d → d.name = Ms.demeName k ∧ k < demes1.length := by
    intro k d hd
    have hk : k < demes1.length := (List.getElem?_eq_some_iff.mp hd).1
    have := congrArg (fun l => l[k]?) hnm
    simp only [List.getElem?_map, hd, Option.map_some, List.getElem?_range hk] at this
    injection this with this
    exact ⟨this, hk⟩
  have hid : ∀ (k : Nat) (d : BDeme), demes1[k]? = some d → popId (popNames demes1.length) d.name = .ok (k + 1) := by
    intro k d hd
    obtain ⟨h1, h2⟩ := hname k d hd
    rw [h1]
    exact popId_popNames h2
  have hbid : ∀ (k : Nat) (d : BDeme), demes1[k]? = some d → (bPop (popNames demes1.length) d).id = k + 1 := by
    intro k d hd
    unfold bPop
    rw [hid k d hd]
  -- the surviving demes
  have hperm : docDemes.Perm (demes1.filter (fun d => !isTransient d)) := by rw [hdoc]; exact sortDemes_perm _
  have hsurv : ∀ d ∈ demes1, isTransient d = false → ∃ D ∈ g.demes, D.startTime = d.startTime
      ∧ D.epochs = epochsOf tab d.startTime d.epochs ∧ d ∈ docDemes := by
    intro d hd ht
    have hm : d ∈ docDemes := hperm.mem_iff.mpr (List.mem_filter.mpr ⟨hd, by simp [ht]⟩)
    obtain ⟨i, hi, hdi⟩ := List.mem_iff_getElem.mp hm
    have hi' : i < g.demes.length := by rw [hlen]; exact hi
    obtain ⟨_, r2, r3⟩ := hrb i d g.demes[i] (by rw [List.getElem?_eq_getElem hi, hdi]) (List.getElem?_eq_getElem hi')
    exact ⟨g.demes[i], List.getElem_mem hi', r2, r3, hm⟩
  -- the graph side, as a list over the surviving demes
  have hp0 : pops0 = docDemes.map (bPop (popNames demes1.length)) := by
    have : g.demes.mapM (graphPop dec (popNames demes1.length)) = .ok (docDemes.map (bPop (popNames demes1.length))) := by
      apply smapM_pointwise2 hlen
      intro i D d hD hd
      obtain ⟨r1, r2, r3⟩ := hrb i d D hd hD
      have hm : d ∈ docDemes := List.mem_of_getElem? hd
      have hm1 : d ∈ demes1 := (List.mem_filter.mp (hperm.mem_iff.mp hm)).1
      obtain ⟨k, hk, hdk⟩ := List.mem_iff_getElem.mp hm1
      exact graph_pop_ok r1 r2 r3 (hdecode d hm) (hid k d (by rw [List.getElem?_eq_getElem hk, hdk]))
    rw [this] at hpops0
    injection hpops0 with hpops0
    exact hpops0.symm
  have hkeys : demes1.map (fun d => (bPop (popNames demes1.length) d).id) = (List.range demes1.length).map (· + 1) := by
    apply List.ext_getElem?
    intro k
    rw [List.getElem?_map, List.getElem?_map]
    cases hd : demes1[k]? with
    | none =>
      have : demes1.length ≤ k := List.getElem?_eq_none_iff.mp hd
      rw [List.getElem?_eq_none_iff.mpr (by simpa using this)]
      rfl
    | some d =>
      rw [List.getElem?_range (hname k d hd).2]
      simp [hbid k d hd]
  have hB : (sortKey (pops0.map (fun p => (p.id, p)))).map (·.2)
      = (demes1.filter (fun d => !isTransient d)).map (bPop (popNames demes1.length)) := by
    rw [hp0, hdoc, List.map_map]
    have hsub : ((demes1.filter (fun d => !isTransient d)).map (fun d => (bPop (popNames demes1.length) d).id)).Sublist
        (demes1.map (fun d => (bPop (popNames demes1.length) d).id)) := List.filter_sublist.map _
    have hpw : ((demes1.filter (fun d => !isTransient d)).map (fun d => (bPop (popNames demes1.length) d).id)).Pairwise (· < ·) := by
      apply List.Pairwise.sublist hsub
      rw [hkeys]
      exact range_succ_pairwise _
    rw [sortDemes_sem ((fun p : PopSem => (p.id, p)) ∘ bPop (popNames demes1.length)) _ hpw.nodup]
    rw [sortKey_eq_of_perm _ _ (List.Perm.refl _) (by
      rw [List.pairwise_map]
      exact List.pairwise_map.mp hpw)]
    rw [List.map_map]
    rfl
  rw [hB, finishSem_pops]
  rw [filter_map_eq_filterMap, ← filterMap_zipIdx_fst _ demes1 0]
  apply filterMap_zip_all (fun a b => popEquiv a b) σ.pops demes1 0 msPop _ hn.symm
  intro i p d hp hd
  simp only [Nat.zero_add]
  obtain ⟨hw, hst, hsz⟩ := hpop i d p hd hp
  have hdm : d ∈ demes1 := List.mem_of_getElem? hd
  have hcl_d := hcl d hdm
  obtain ⟨pm1, pm2⟩ := pop_match hw hcl_d hst hsz
  cases ht : isTransient d with
  | true =>
    have hno := pm1 ht
    have h1 : msPop (p, i) = none := by
      unfold msPop
      simp only [hno, decide_false, Bool.false_eq_true, if_false]
    rw [h1]
    simp only [if_true, Option.isSome_none, true_and]
    intro x y hx
    cases hx
  | false =>
    obtain ⟨D, hD, _, he, hdd⟩ := hsurv d hdm ht
    obtain ⟨hval, hpos⟩ := graph_deme_valid hv hD he hcl_d.dec
    obtain ⟨hlo, hlohi⟩ := pm2 hval
    have h1 : msPop (p, i) = some { id := i + 1, lo := p.lo, hi := p.hi, segs := finalSegs p } := by
      unfold msPop
      simp only [hlohi, decide_true, if_true]
    rw [h1]
    simp only [Bool.false_eq_true, if_false, Option.isSome_some, true_and]
    intro x y hx hy
    injection hx with hx
    injection hy with hy
    subst hx hy
    have hy' : bPop (popNames demes1.length) d
        = { id := i + 1, lo := p.lo, hi := p.hi, segs := (gsegs p.hi d.epochs).reverse } := by
      unfold bPop
      rw [hid i d hd, hlo, hst]
    rw [hy']
    apply pop_equiv (finalSegs_chain hw) hcl_d
    · intro e he'; rw [← hst]; exact hval e he'
    · exact hlo
    · exact hlohi
    · intro e he'
      exact coef_ne_of_pos (hcl_d.all e he').nf (hpos e he')
    · intro hi'
      exact hinfd d hdm (by rw [hst]; exact hi')
    · intro t _ ht'
      rw [← hst]
      exact hsz t ht'


/-! ## the migrations of the two observables -/

theorem mem_activeRates {names : List String} {migs : List BMigration} {j k : Nat} {t : Q} {r : Num} :
    r ∈ activeRates names migs j k t ↔ ∃ m ∈ migs, pairIs names j k m = true ∧ covers t m = true ∧ m.rate = r := by
  unfold activeRates
  simp only [List.mem_map, List.mem_filter]
  constructor
  · rintro ⟨m, ⟨⟨h1, h2⟩, h3⟩, h4⟩
    exact ⟨m, h1, h2, h3, h4⟩
  · rintro ⟨m, h1, h2, h3, h4⟩
    exact ⟨m, ⟨⟨h1, h2⟩, h3⟩, h4⟩

/-- the population number of a deme name (0 if there is none) -/
def idOf (names : List String) (nm : String) : Nat :=
  match popId names nm with
  | .ok k => k
  | .error _ => 0

/-- the raw segment `graphSem` makes of a migration -/
def rawG (names : List String) (M : Migration) : MigSeg :=
  { dest := idOf names M.dest, source := idOf names M.source, t0 := M.endTime, t1 := M.startTime, rate := M.rate }

theorem getD_range_map (n j : Nat) (hj : j < n) : ((List.range n).map Ms.demeName).getD j "" = Ms.demeName j := by
  rw [List.getD_eq_getElem?_getD, List.getElem?_map, List.getElem?_range hj]
  rfl

/-- **the migrations.**  If the (scaled) migrations of the document realise, pair by pair, the
rate function of the interpreter's snapshots, the graph's migration step function is the one of
`msSem`. -/
theorem migs_sem {σ : St} {migsS : List BMigration} {g : Graph} {raw : List MigSeg} {n : Nat}
    (hwf : MigsWF ((List.range n).map Ms.demeName) migsS)
    (hact : ∀ j k, j < n → k < n → j ≠ k → ∀ t, activeRates ((List.range n).map Ms.demeName) migsS j k t
      = expectedRates ((snapRateAt σ.snaps j k t).map Num.fin))
    (hchron : σ.snaps.Pairwise (fun a b => a.1 ≤ b.1))
    (hlen : g.migrations.length = migsS.length)
    (hrb : ∀ (i : Nat) (m : BMigration) (M : Migration), migsS[i]? = some m → g.migrations[i]? = some M →
      M.source = m.source ∧ M.dest = m.dest ∧ M.startTime = m.startTime ∧ M.endTime = m.endTime ∧ m.rate = Num.fin M.rate)
    (hv : validGraph g = true)
    (hraw : g.migrations.mapM (m := Except String) (fun m => do
          pure ({ dest := ← popId (popNames n) m.dest, source := ← popId (popNames n) m.source,
                  t0 := m.endTime, t1 := m.startTime, rate := m.rate } : MigSeg)) = .ok raw) :
    graphMigs raw n = migSegs σ.snaps n := by
  have hlenN : ((List.range n).map Ms.demeName).length = n := by simp
  -- the graph migration of a document migration and back
  have hMm : ∀ M ∈ g.migrations, ∃ m ∈ migsS, M.source = m.source ∧ M.dest = m.dest ∧ M.startTime = m.startTime
      ∧ M.endTime = m.endTime ∧ m.rate = Num.fin M.rate := by
    intro M hM
    obtain ⟨i, hi, hMi⟩ := List.mem_iff_getElem.mp hM
    have hi' : i < migsS.length := by rw [← hlen]; exact hi
    exact ⟨migsS[i], List.getElem_mem hi', hrb i migsS[i] M (List.getElem?_eq_getElem hi') (by rw [List.getElem?_eq_getElem hi, hMi])⟩
  have hmM : ∀ m ∈ migsS, ∃ M ∈ g.migrations, M.source = m.source ∧ M.dest = m.dest ∧ M.startTime = m.startTime
      ∧ M.endTime = m.endTime ∧ m.rate = Num.fin M.rate := by
    intro m hm
    obtain ⟨i, hi, hmi⟩ := List.mem_iff_getElem.mp hm
    have hi' : i < g.migrations.length := by rw [hlen]; exact hi
    exact ⟨g.migrations[i], List.getElem_mem hi', hrb i m g.migrations[i] (by rw [List.getElem?_eq_getElem hi, hmi]) (List.getElem?_eq_getElem hi')⟩
  -- the cell of a graph migration
  have hcell : ∀ M ∈ g.migrations, ∃ j k, j < n ∧ k < n ∧ j ≠ k ∧ M.dest = Ms.demeName j ∧ M.source = Ms.demeName k
      ∧ popId (popNames n) M.dest = .ok (j + 1) ∧ popId (popNames n) M.source = .ok (k + 1)
      ∧ ETime.fin M.endTime < M.startTime := by
    intro M hM
    obtain ⟨m, hm, e1, e2, e3, e4, _⟩ := hMm M hM
    obtain ⟨j, k, hj, hk, hjk, hp, hlt⟩ := hwf m hm
    rw [hlenN] at hj hk
    unfold pairIs at hp
    simp only [Bool.and_eq_true, decide_eq_true_eq, getD_range_map n j hj, getD_range_map n k hk] at hp
    refine ⟨j, k, hj, hk, hjk, by rw [e2, hp.1], by rw [e1, hp.2], ?_, ?_, by rw [e3, e4]; exact hlt⟩
    · rw [e2, hp.1]; exact popId_popNames hj
    · rw [e1, hp.2]; exact popId_popNames hk
  have hrawG : raw = g.migrations.map (rawG (popNames n)) := by
    have : g.migrations.mapM (m := Except String) (fun m => do
          pure ({ dest := ← popId (popNames n) m.dest, source := ← popId (popNames n) m.source,
                  t0 := m.endTime, t1 := m.startTime, rate := m.rate } : MigSeg))
        = .ok (g.migrations.map (rawG (popNames n))) := by
      apply smapM_pointwise2 rfl
      intro i x y hx hy
      rw [hx] at hy
      injection hy with hy
      subst hy
      obtain ⟨j, k, _, _, _, _, _, h1, h2, _⟩ := hcell x (List.mem_of_getElem? hx)
      unfold rawG idOf
      rw [h1, h2]
      rfl
    rw [this] at hraw
    injection hraw with hraw
    exact hraw.symm
  have hidOf : ∀ M ∈ g.migrations, ∀ j k, j < n → k < n → M.dest = Ms.demeName j → M.source = Ms.demeName k →
      idOf (popNames n) M.dest = j + 1 ∧ idOf (popNames n) M.source = k + 1 := by
    intro M _ j k hj hk h1 h2
    unfold idOf
    rw [h1, h2, popId_popNames hj, popId_popNames hk]
    exact ⟨rfl, rfl⟩
  apply migs_eq_of_rates hchron
  · intro x hx
    rw [hrawG] at hx
    obtain ⟨M, hM, rfl⟩ := List.mem_map.mp hx
    obtain ⟨_, _, _, _, _, _, _, _, _, hlt⟩ := hcell M hM
    exact hlt
  · intro x hx
    rw [hrawG] at hx
    obtain ⟨M, hM, rfl⟩ := List.mem_map.mp hx
    obtain ⟨j, k, hj, hk, hjk, h1, h2, _⟩ := hcell M hM
    obtain ⟨a, b⟩ := hidOf M hM j k hj hk h1 h2
    show idOf (popNames n) M.dest ≠ idOf (popNames n) M.source
    rw [a, b]
    omega
  · rw [hrawG, List.pairwise_map]
    obtain ⟨_, _, _, _, _, _, _, _, h9, _⟩ := validGraph_clauses hv
    unfold v9 at h9
    have h9' := (Proofs.pairwiseB_iff _ _).mp h9
    refine List.Pairwise.imp_of_mem ?_ h9'
    intro a b ha hb hab hd hs
    obtain ⟨j, k, hj, hk, _, a1, a2, _⟩ := hcell a ha
    obtain ⟨j', k', hj', hk', _, b1, b2, _⟩ := hcell b hb
    obtain ⟨ia, ib⟩ := hidOf a ha j k hj hk a1 a2
    obtain ⟨ja, jb⟩ := hidOf b hb j' k' hj' hk' b1 b2
    have hd' : idOf (popNames n) a.dest = idOf (popNames n) b.dest := hd
    have hs' : idOf (popNames n) a.source = idOf (popNames n) b.source := hs
    rw [ia, ja] at hd'
    rw [ib, jb] at hs'
    have hjj : j = j' := by omega
    have hkk : k = k' := by omega
    subst hjj hkk
    have hsame : (a.source == b.source && a.dest == b.dest) = true := by
      rw [a1, a2, b1, b2]; simp
    rw [hsame] at hab
    simp only [Bool.not_true, Bool.false_or] at hab
    unfold Spec.disjoint at hab
    simp only [Bool.not_eq_true', Bool.and_eq_false_iff, decide_eq_false_iff_not] at hab
    show ¬ (ETime.fin b.endTime < a.startTime ∧ ETime.fin a.endTime < b.startTime)
    rintro ⟨c1, c2⟩
    rcases hab with hab | hab
    · exact hab c1
    · exact hab c2
  · intro i j hi hj hij t r hr
    have hA := hact i j hi hj hij t
    constructor
    · rintro ⟨x, hx, x1, x2, x3, x4, x5⟩
      rw [hrawG] at hx
      obtain ⟨M, hM, rfl⟩ := List.mem_map.mp hx
      obtain ⟨j0, k0, hj0, hk0, _, d1, d2, _⟩ := hcell M hM
      obtain ⟨ia, ib⟩ := hidOf M hM j0 k0 hj0 hk0 d1 d2
      have x1' : idOf (popNames n) M.dest = i + 1 := x1
      have x2' : idOf (popNames n) M.source = j + 1 := x2
      rw [ia] at x1'
      rw [ib] at x2'
      have hji : j0 = i := by omega
      have hkj : k0 = j := by omega
      subst hji hkj
      obtain ⟨m, hm, e1, e2, e3, e4, e5⟩ := hMm M hM
      have hmem : Num.fin r ∈ activeRates ((List.range n).map Ms.demeName) migsS j0 k0 t := by
        apply mem_activeRates.mpr
        refine ⟨m, hm, ?_, ?_, ?_⟩
        · unfold pairIs
          simp only [Bool.and_eq_true, decide_eq_true_eq, getD_range_map n j0 hi, getD_range_map n k0 hj]
          exact ⟨by rw [← e2, d1], by rw [← e1, d2]⟩
        · unfold covers
          simp only [Bool.and_eq_true, decide_eq_true_eq]
          exact ⟨by rw [← e4]; exact x3, by rw [← e3]; exact x4⟩
        · rw [e5]
          have : M.rate = r := x5
          rw [this]
      rw [hA] at hmem
      cases hq : snapRateAt σ.snaps j0 k0 t with
      | none => rw [hq] at hmem; cases hmem
      | some q =>
        rw [hq] at hmem
        simp only [Option.map_some, expectedRates] at hmem
        split at hmem
        · cases hmem
        · simp only [List.mem_singleton] at hmem
          injection hmem with hmem
          rw [hmem]
    · intro hs
      rw [hs] at hA
      have hnz : numEq (Num.fin r) (Num.fin 0) = false := by
        show (r == (0 : Q)) = false
        simpa using hr
      simp only [Option.map_some, expectedRates, hnz, Bool.false_eq_true, if_false] at hA
      have hmem : Num.fin r ∈ activeRates ((List.range n).map Ms.demeName) migsS i j t := by rw [hA]; exact List.mem_singleton.mpr rfl
      obtain ⟨m, hm, p1, p2, p3⟩ := mem_activeRates.mp hmem
      obtain ⟨M, hM, e1, e2, e3, e4, e5⟩ := hmM m hm
      unfold pairIs at p1
      simp only [Bool.and_eq_true, decide_eq_true_eq, getD_range_map n i hi, getD_range_map n j hj] at p1
      unfold covers at p2
      simp only [Bool.and_eq_true, decide_eq_true_eq] at p2
      obtain ⟨ia, ib⟩ := hidOf M hM i j hi hj (by rw [e2]; exact p1.1) (by rw [e1]; exact p1.2)
      refine ⟨rawG (popNames n) M, by rw [hrawG]; exact List.mem_map.mpr ⟨M, hM, rfl⟩, ia, ib, ?_, ?_, ?_⟩
      · show M.endTime ≤ t
        rw [e4]; exact p2.1
      · show ETime.fin t < M.startTime
        rw [e3]; exact p2.2
      · show M.rate = r
        rw [e5] at p3
        injection p3 with p3


/-! ## assembly -/

theorem finishDoc_ok {N0 : Q} {s : BState} {doc : MsDoc} (h : finishDoc N0 s = .ok doc) :
    ∃ demes1 migs0 doc1, s.demes.mapM finaliseGrowth = .ok demes1
      ∧ addMigrationsFromMatrices (demes1.map (·.name)) s.mmList s.mmEndTimes = .ok migs0
      ∧ removeTransientDemes ({ demes := demes1, migrations := migs0.map (scaleMig N0),
                                 pulses := s.pulses, numPops := s.numDemes } : MsDoc) = .ok doc1
      ∧ doc = { doc1 with demes := sortDemesByAncestry doc1.demes, pulses := doc1.pulses.map List.reverse } := by
  unfold finishDoc at h
  obtain ⟨demes1, h1, h⟩ := RV.bind_ok.1 h
  obtain ⟨migs0, h2, h⟩ := RV.bind_ok.1 h
  dsimp only at h
  obtain ⟨doc1, h3, h⟩ := RV.bind_ok.1 h
  rw [RV.pure_ok] at h
  exact ⟨demes1, migs0, doc1, h1, h2, h3, h.symm⟩

theorem mem_sizes {doc : MsDoc} {d : BDeme} {e : BEpoch} (hd : d ∈ doc.demes) (he : e ∈ d.epochs) :
    e.endSize ∈ doc.sizes ∧ e.startSize.getD e.endSize ∈ doc.sizes := by
  unfold MsDoc.sizes
  simp only [List.mem_flatMap]
  refine ⟨⟨d, hd, e, he, List.mem_cons_self ..⟩, ⟨d, hd, e, he, ?_⟩⟩
  cases e.startSize with
  | none => exact List.mem_cons_self ..
  | some z => exact List.mem_cons_of_mem _ (by simp)

/-- **(5) sizes and migrations, from the command line to the observable of the resolved graph.**
Whenever `from_ms` returns a graph, the command has a meaning, the two parsers agree on it and the
graph has an observable, the populations (lifetimes, sizes and growth rates at every cut point)
and the migration step function of the graph are those of the command. -/
theorem fromMs_sizes_migs_sem {c : List String} {N0 : Q} {mg : MsGraph} {sem rs : DemogSem}
    (h : fromMs c N0 none = .ok mg) (hsem : msSem c N0 = .ok sem) (hp : parsersAgree c = true)
    (hrs : resultSem mg = .ok rs) : semEquivSizesMigs sem rs = true := by
  obtain ⟨args, hargs, hb⟩ := fromMs_none_ok h
  obtain ⟨hdoc, htab, hres⟩ := buildGraph_ok hb
  rw [buildDoc_eq] at hdoc
  obtain ⟨s, hs, hf⟩ := RV.bind_ok.1 hdoc
  obtain ⟨pr, σ, hpr, hσ, he⟩ := msSem_runState hsem
  have ha : ArgsAgree args pr := by
    unfold parsersAgree at hp
    rw [hargs, hpr] at hp
    exact argsAgree_of_B hp
  have hN : N0 ≠ 0 := by
    intro h0
    unfold buildState at hs
    rw [h0] at hs
    simp only [Rat.le_refl, if_true] at hs
    exact (RV.valueErr_bind_ok.1 hs).elim
  obtain ⟨demes1, migs0, doc1, hd1, hm0, hrt, hmgdoc⟩ := finishDoc_ok hf
  have binv := buildState_binv hs
  obtain ⟨T, hsz, hmig⟩ := buildState_sim2 ha hs hσ
  obtain ⟨T', sinv⟩ := runState_specInv ha hs hσ
  have hnames := buildState_names hs
  obtain ⟨hl1, hi1⟩ := mapM_pointwise hd1
  -- lengths
  have hlenS : s.demes.length = s.numDemes := by
    have := congrArg List.length hnames
    simpa using this
  have hn : demes1.length = σ.pops.length := by rw [hl1, hsz.len]
  have hnum : s.numDemes = demes1.length := by rw [hl1, hlenS]
  -- names
  have hnm : demes1.map (·.name) = (List.range demes1.length).map Ms.demeName := by
    rw [← hnum, ← hnames]
    exact names_pointwise hl1 (fun i d hd => by
      obtain ⟨d', hd', hf'⟩ := hi1 i d hd
      exact ⟨d', hd', (finaliseGrowth_header hf').1⟩)
  have hnd : (demes1.map (·.name)).Nodup := by
    rw [hnm]
    exact List.Nodup.map (fun a b hab => demeName_injective hab) List.nodup_range
  -- the finished demes
  have hfin : ∀ (k : Nat) (d1 : BDeme), demes1[k]? = some d1 → ∃ d, s.demes[k]? = some d ∧ finaliseGrowth d = .ok d1 := by
    intro k d1 hk
    have hk' : k < s.demes.length := by rw [← hl1]; exact (List.getElem?_eq_some_iff.mp hk).1
    obtain ⟨d', hd', hf'⟩ := hi1 k s.demes[k] (List.getElem?_eq_getElem hk')
    rw [hk] at hd'
    injection hd' with hd'
    subst hd'
    exact ⟨_, List.getElem?_eq_getElem hk', hf'⟩
  have hcl : ∀ d ∈ demes1, EpochsClosed d.epochs := by
    intro d1 hm
    obtain ⟨k, hk, hdk⟩ := List.mem_iff_getElem.mp hm
    obtain ⟨d, hd, hf'⟩ := hfin k d1 (by rw [List.getElem?_eq_getElem hk, hdk])
    exact (finaliseGrowth_closed hf' (binv.demes d (List.mem_of_getElem? hd))).1
  have hinfd : ∀ d ∈ demes1, d.startTime = .inf → ∀ e z, d.epochs.head? = some e → e.startSize = some z → z = e.endSize := by
    intro d1 hm
    obtain ⟨k, hk, hdk⟩ := List.mem_iff_getElem.mp hm
    obtain ⟨d, hd, hf'⟩ := hfin k d1 (by rw [List.getElem?_eq_getElem hk, hdk])
    exact (finaliseGrowth_closed hf' (binv.demes d (List.mem_of_getElem? hd))).2.2
  have hpop : ∀ (k : Nat) (d : BDeme) (p : Pop), demes1[k]? = some d → σ.pops[k]? = some p → PopWF p ∧ d.startTime = p.hi ∧
      ∀ t, ETime.fin t < p.hi → closedSizeAt d.epochs d.startTime t = segsSizeAt (finalSegs p) t := by
    intro k d1 p hk hpk
    obtain ⟨d, hd, hf'⟩ := hfin k d1 hk
    obtain ⟨_, f2, f3⟩ := final_sizes ha hs hσ hd hpk hf'
    exact ⟨(sinv.pops p (List.mem_of_getElem? hpk)).1, f2, f3⟩
  -- migrations of the document
  have hwf0 := (addMigrations_sem hm0 hnd binv.times).1
  have hsc := scale_rates (N0 := N0) hm0 hnd binv.times hN
  -- transient demes, sort
  obtain ⟨t1, t2, _, t4, _⟩ := removeTransient_sem hrt hnd
  have hdocD : mg.doc.demes = sortDemesByAncestry (demes1.filter (fun d => !isTransient d)) := by
    rw [hmgdoc]; show sortDemesByAncestry doc1.demes = _; rw [t1]
  have hdocM : mg.doc.migrations = migs0.map (scaleMig N0) := by
    rw [hmgdoc]; exact t2
  have hdocN : mg.doc.numPops = demes1.length := by
    rw [hmgdoc]; show doc1.numPops = _; rw [t4]; exact hnum
  have hperm : mg.doc.demes.Perm (demes1.filter (fun d => !isTransient d)) := by rw [hdocD]; exact sortDemes_perm _
  have hsub : ∀ d ∈ mg.doc.demes, d ∈ demes1 := fun d hd => (List.mem_filter.mp (hperm.mem_iff.mp hd)).1
  -- read-back
  obtain ⟨r1, r2, r3, r4⟩ := resolve_doc_readback hres
    (fun d hd e he' => by
      obtain ⟨z, hz, _⟩ := ((hcl d (hsub d hd)).all e he').ss
      rw [hz]; rfl)
    (fun d hd e he' => ((hcl d (hsub d hd)).all e he').gr)
  have hv : validGraph mg.graph = true := resolve_valid _ _ hres
  have hdecode : ∀ d ∈ mg.doc.demes, ∀ e ∈ d.epochs, mg.size (szToQ mg.table e.endSize) = e.endSize
      ∧ mg.size (szToQ mg.table (e.startSize.getD e.endSize)) = e.startSize.getD e.endSize := by
    intro d hd e he'
    obtain ⟨m1, m2⟩ := mem_sizes hd he'
    unfold MsGraph.size
    rw [htab]
    exact ⟨placeholders_roundtrip _ _ m1, placeholders_roundtrip _ _ m2⟩
  -- the observable of the graph
  unfold resultSem msGraphSem at hrs
  obtain ⟨pops0, raw, hp0, hpops, hraw, hmigs⟩ := graphSemWith_parts hrs
  simp only [Option.getD_some] at hp0 hraw hmigs
  rw [hdocN] at hp0 hraw hmigs
  have hpn : (popNames demes1.length).length = demes1.length := by simp [popNames]
  rw [hpn] at hmigs
  obtain ⟨P1, P2⟩ := pops_sem hn hnm hcl hinfd hpop hdocD r1 (fun i d D hd hD => r2 i d D hd hD) hv hdecode hp0
  have hM : graphMigs raw demes1.length = migSegs σ.snaps demes1.length := by
    apply migs_sem (σ := σ) (migsS := migs0.map (scaleMig N0)) (g := mg.graph)
    · rw [← hnm]; exact scale_wf N0 hwf0
    · intro j k hj hk hjk t
      rw [← hnm, hsc j k (by simpa using hj) (by simpa using hk) hjk t, hmig.hist j k t hjk]
    · exact sinv.chron
    · rw [r3, hdocM]
    · intro i m M hm hM'
      exact r4 i m M (by rw [hdocM]; exact hm) hM'
    · exact hv
    · exact hraw
  unfold semEquivSizesMigs
  rw [he, hpops, hmigs]
  simp only [Bool.and_eq_true, decide_eq_true_eq]
  refine ⟨⟨P1, P2⟩, ?_⟩
  show migSegs σ.snaps σ.pops.length = _
  rw [hM, hn]

end Demes.Proofs.FromMs
