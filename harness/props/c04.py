"""C04 — dump then load reproduces the graph exactly, in every format and style."""
from __future__ import annotations

import io
import os
import pathlib
import tempfile

from props.resolve_common import *  # noqa: F401,F403

RULE = ("valid graphs (generator models + awkward strings in every string position + awkward numbers in every numeric position) x "
        "{yaml, json} x {simplified, resolved} x {string, str path, pathlib path, text stream}; multi-document streams of 0..k graphs "
        "(dump_all/load_all); JSON text through the YAML loader; str(graph); a case is one (graph, variant); non-trivial = the graph has "
        "a non-ASCII/YAML-significant string, a number that is not a small integer, or more than one deme")
ASSUMPTIONS = ["the text layer (ruamel.yaml 0.19.1, json) is third-party code: its round-trip law on plain values is TESTED here and is a hypothesis of the Lean theorems",
               "metadata is drawn from the JSON data model (string keys; no NaN)"]
EXPLANATION = ("Theorems roundtrip / roundtrip_all / roundtrip_json_via_yaml over the Lean Model of the load/dump pipelines, relative to the codec laws "
               "par(ser v) = v on plain values (hypotheses, satisfiable by the identity codec); they compose resolve_asdict (C06), the simplified-form "
               "round trip (C05) and the infinity/null handling (C16). The codec laws and the end-to-end round trip are tested on the installed libraries.")

AWKWARD = ["null", "~", "yes", "No", "on", "1e3", "0x1F", "1_000", ".inf", "-.Inf", ".nan", "Infinity", "3", "3.0", "true", "x: y", "x #y", "#x", "- x", "-x",
           "&a", "*a", "!t", "|", "> x", "%x", "@x", "`x", "'x", "\"x\"", "[x", "{x", "]x", "}x", ",x", "x,y", "?", "x?", "a: ", " x", "x ", "  ",
           "x\ny", "x\ny\n", "\nx", "x\ty", "\t", "---", "...", "--- x", "café", "πρ", "中文", "\u0085", "﻿x", " ", "\x07", "\x00x" if False else "\x1b",
           "a" * 300, "x: y: z", "key: [1, 2]", "{a: 1}", "'", "\"", "\\", "\\n", "%", "2001-01-01", "12:30:45", "=", "<<"]
AWKWARD += ["a\u0085b", "a\u2028b", "a\u2029b", "a\u00a0b", "\u0085x", "x\u0085", "a\rb", "a\r\nb", "\ufffe", "a\x7fb", "a\u009fb", "\ud7ff", "\ue000"]
F13 = ["?x", "? x", ": x", "?key: v"]
F14 = ["\U0001F600", "a\U00010000b"]
NUMBERS = [0.1 + 0.2, 1 / 3, 1e22, 1e23, 123456789.123456789, 2.0 ** 70, 5e-324 * 2 ** 60, 1e-7, 100, 7, 1.0, 1e16, 9007199254740993, 0.5, 2.5e-5]


def is_f13(s):
    return isinstance(s, str) and ((s.startswith("?") and len(s) > 1) or s.startswith(": "))


def has_f13_flow(doc):
    """an F13-class string in a flow collection (doi list, or anywhere inside metadata)"""
    if any(is_f13(x) for x in doc.get("doi", [])):
        return True

    def walk(v):
        if isinstance(v, dict):
            return any(is_f13(k) or walk(x) for k, x in v.items())
        if isinstance(v, list):
            return any(walk(x) for x in v)
        return is_f13(v)
    return walk(doc.get("metadata", {}))


def has_nonbmp(v):
    if isinstance(v, str):
        return any(ord(c) > 0xFFFF for c in v)
    if isinstance(v, dict):
        return any(has_nonbmp(k) or has_nonbmp(x) for k, x in v.items())
    if isinstance(v, list):
        return any(has_nonbmp(x) for x in v)
    return False


def decorate(doc, rng, pool):
    """put awkward strings / numbers into a valid document (positions that keep it valid)"""
    d = copy.deepcopy(doc)
    tags = []
    k = rng.choice(["description", "doi", "metadata_leaf", "metadata_key", "metadata_list", "deme_description", "time_units", "numbers", "numbers"])
    s = rng.choice(pool)
    if k == "description":
        d["description"] = s
    elif k == "doi":
        if s:
            d["doi"] = [s, "plain"]
    elif k == "metadata_leaf":
        d["metadata"] = {"k": s, "n": {"deep": [s, 1, 2.5, None, True, {"z": s}]}}
    elif k == "metadata_key":
        d["metadata"] = {s: 1, "other": {s: [s]}}
    elif k == "metadata_list":
        d["metadata"] = {"k": [s, "z", [s]]}
    elif k == "deme_description":
        rng.choice(d["demes"])["description"] = s
    elif k == "time_units":
        if s and s != "generations":
            d["time_units"] = s
            if d.get("generation_time") in (None,):
                d["generation_time"] = 1
    elif k == "numbers":
        x = rng.choice(NUMBERS)
        dm = rng.choice(d["demes"])
        e = dm["epochs"][-1] if dm.get("epochs") else None
        if e is not None:
            e["start_size"] = x if x > 0 else 1
            e["end_size"] = e["start_size"]
            e.pop("size_function", None)
        d.setdefault("metadata", {})
        if isinstance(d["metadata"], dict):
            d["metadata"]["num"] = [x, -x, int(x) if x < 2 ** 62 else 2 ** 70, 0.0, -0.0 if False else 0]
    tags.append(k)
    return d, k, s


def roundtrip_variants(g, rng, tmpdir):
    """yields (variant name, loaded graph or exception)"""
    for fmt in ("yaml", "json"):
        for simp in (True, False):
            yield (f"dumps/loads {fmt} simplified={simp}", lambda fmt=fmt, simp=simp: demes.loads(demes.dumps(g, format=fmt, simplified=simp), format=fmt))
            how = rng.choice(["strpath", "pathlib", "stream"])
            if how == "stream":
                def via_stream(fmt=fmt, simp=simp):
                    s = io.StringIO()
                    demes.dump(g, s, format=fmt, simplified=simp)
                    s.seek(0)
                    return demes.load(s, format=fmt)
                yield (f"dump/load stream {fmt} simplified={simp}", via_stream)
            else:
                def via_path(fmt=fmt, simp=simp, how=how):
                    p = os.path.join(tmpdir, f"g.{fmt}")
                    pp = pathlib.Path(p) if how == "pathlib" else p
                    demes.dump(g, pp, format=fmt, simplified=simp)
                    return demes.load(pp, format=fmt)
                yield (f"dump/load {how} {fmt} simplified={simp}", via_path)
    simp_j = rng.random() < 0.5
    # (dumped inside the variant: a dump that raises on a valid graph is a failed round trip, not a harness error)
    yield ("json text through the yaml loader", lambda: demes.loads(demes.dumps(g, format="json", simplified=simp_j), format="yaml"))


def same_graph(a, b):
    x = copy.deepcopy(a); y = copy.deepcopy(b)
    key = lambda m: json.dumps(show(canon(m)), sort_keys=True)
    x["migrations"] = sorted(x["migrations"], key=key); y["migrations"] = sorted(y["migrations"], key=key)
    return canon_eq(canon(x), canon(y))


def json_safe_graph(g):
    try:
        json.dumps(g.metadata, allow_nan=False)
        return True
    except (ValueError, TypeError):
        return False


def check_graph(ctx, g, doc, kind, tmpdir, known=None):
    a = g.asdict()
    for name, fn in roundtrip_variants(g, ctx.rng, tmpdir):
        ctx.count({"graph": show(canon(a)), "variant": name}, kind != "plain" or len(g.demes) > 1, tags=[name.split(" ")[0] + ":" + kind])
        why = None
        try:
            g2 = fn()
            if not same_graph(g2.asdict(), a):
                why = "loads back as a different graph"
        except Exception as e:  # noqa: BLE001
            why = f"fails to dump or to load back ({type(e).__name__})"
        if why:
            what = f"{name}: {why}"
            if known == "F13" and "yaml" in name and "json text" not in name:
                what = "F13 string beginning with '?' or ': ' inside a flow collection (doi / metadata): YAML " + why
            elif known == "F14" and name.startswith("json text through the yaml"):
                what = "F14 non-BMP character: JSON text read through the YAML loader " + why
            ctx.violation(what, {"document": show(canon_doc(doc)), "variant": name})
    try:
        if str(g) != demes.dumps(g):
            ctx.violation("str(graph) is not its simplified YAML", {"document": show(canon_doc(doc))})
    except Exception as e:  # noqa: BLE001
        ctx.violation(f"str(graph) raises {type(e).__name__}", {"document": show(canon_doc(doc))})


def string_sweep(ctx):
    """every awkward string in every position that takes free text, through the three text routes
    (YAML, JSON, JSON text read by the YAML loader), on one small graph — deterministic"""
    base = {"time_units": "generations", "demes": [{"name": "A", "epochs": [{"start_size": 100}]}]}
    for s in AWKWARD:
        for pos in ("description", "doi", "metadata_leaf", "metadata_key", "deme_description", "time_units"):
            d = copy.deepcopy(base)
            if pos == "description":
                d["description"] = s
            elif pos == "doi":
                d["doi"] = [s, "plain"]
            elif pos == "metadata_leaf":
                d["metadata"] = {"k": s, "n": {"deep": [s, {"z": s}]}}
            elif pos == "metadata_key":
                d["metadata"] = {s: 1, "other": {s: [s]}}
            elif pos == "deme_description":
                d["demes"][0]["description"] = s
            elif pos == "time_units":
                if not s or s == "generations":
                    continue
                d["time_units"] = s; d["generation_time"] = 1
            try:
                g = demes.Graph.fromdict(d)
            except Exception:  # noqa: BLE001
                continue
            a = g.asdict()
            yt = demes.dumps(g, format="yaml", simplified=True)
            jt = demes.dumps(g, format="json", simplified=False)
            for name, fn in (("dumps/loads yaml simplified=True", lambda: demes.loads(yt, format="yaml")),
                             ("dumps/loads json simplified=False", lambda: demes.loads(jt, format="json")),
                             ("json text through the yaml loader", lambda: demes.loads(jt, format="yaml"))):
                ctx.count({"sweep": pos, "string": s, "variant": name}, True, tags=["string_sweep:" + pos])
                try:
                    why = None if same_graph(fn().asdict(), a) else "loads back as a different graph"
                except Exception as e:  # noqa: BLE001
                    why = f"fails to dump or to load back ({type(e).__name__})"
                if why:
                    ctx.violation(f"{name}: {why}", {"document": show(canon_doc(d)), "variant": name})


def codec_laws(ctx, values):
    """the hypothesis of the Lean theorems: parse(serialise(v)) == v on plain values"""
    from demes import load_dump as LD
    for v in values:
        for fmt in ("yaml", "json"):
            if fmt == "json" and isinstance(v, dict) and "demes" in v:
                v = copy.deepcopy(v)
                LD._stringify_infinities(v)  # the library never hands a non-finite number to json.dump
            ctx.count({"codec": fmt, "value": show(canon_doc(v))}, True, tags=["codec_law:" + fmt])
            try:
                s = io.StringIO()
                if fmt == "yaml":
                    LD._dump_yaml_fromdict(copy.deepcopy(v), s)
                    back = LD._load_yaml_asdict(io.StringIO(s.getvalue()))
                else:
                    json.dump(v, s, allow_nan=False, indent=2)
                    back = json.load(io.StringIO(s.getvalue()))
                ok = canon_eq(canon(back), canon(v))
            except Exception as e:  # noqa: BLE001
                ok = False
            if not ok:
                what = f"codec law fails: {fmt} parse(serialise(v)) != v"
                if fmt == "yaml" and has_f13_flow({"metadata": v}):
                    what = "F13 string beginning with '?' or ': ' inside a flow collection (doi / metadata): YAML codec law fails"
                ctx.violation(what, {"value": show(canon_doc(v)), "format": fmt})


def run(ctx):
    n = 40 if ctx.tier == "quick" else 800
    tmpdir = tempfile.mkdtemp(prefix="c04_", dir=os.path.join(VERIF_DIR, "evidence"))
    try:
        # corpus first: the two known findings, deterministically
        base = {"time_units": "generations", "demes": [{"name": "A", "epochs": [{"start_size": 100}]}]}
        for extra, known in (({"doi": ["?x"]}, "F13"), ({"metadata": {"k": ": x"}}, "F13"), ({"description": "\U0001F600"}, "F14")):
            d = dict(base, **extra)
            check_graph(ctx, demes.Graph.fromdict(d), d, "corpus:" + known, tmpdir, known)
        string_sweep(ctx)
        # fixed documents whose simplified form is delicate: one window of a pair collapses into a symmetric entry
        # while another window of the same pair stays asymmetric; three consecutive windows for one pair
        from props.common import delicate_docs
        for d, tag in delicate_docs():
            check_graph(ctx, demes.Graph.fromdict(copy.deepcopy(d)), d, "corpus:" + tag, tmpdir)
        done = 0
        while done < n and ctx.time_left() > 15:
            models = gen_models(ctx, min(40, n - done), max_demes=5)
            done += len(models)
            graphs = []
            for m in models:
                base = G.spell(m, ctx.rng, level=ctx.rng.choice([0, 0.5, 1]))
                items = [(base, "plain", None)]
                d, k, s = decorate(base, ctx.rng, AWKWARD)
                items.append((d, "awkward:" + k, None))
                if ctx.rng.random() < 0.25:
                    d, k, s = decorate(base, ctx.rng, F13)
                    items.append((d, "f13:" + k, "F13" if has_f13_flow(d) else None))
                if ctx.rng.random() < 0.25:
                    d, k, s = decorate(base, ctx.rng, F14)
                    items.append((d, "f14:" + k, "F14" if has_nonbmp(d) else None))
                for d, kind, known in items:
                    try:
                        g = demes.Graph.fromdict(d)
                    except Exception as e:  # noqa: BLE001
                        continue
                    check_graph(ctx, g, d, kind, tmpdir, known)
                    if known is None:
                        graphs.append(g)
            # correspondence: the Model's pipelines vs the code's, through the real text layer
            from demes import load_dump as LD
            reqs, meta = [], []
            for g in graphs[:25]:
                ga = enc(g.asdict())
                for fmt in ("yaml", "json"):
                    for simp in (True, False):
                        text = demes.dumps(g, format=fmt, simplified=simp)
                        parsed = json.loads(text) if fmt == "json" else LD._load_yaml_asdict(io.StringIO(text))
                        reqs.append({"op": "dump_value", "graph": ga, "format": fmt, "simplified": simp}); meta.append(("dump", g, fmt, simp, parsed))
                        reqs.append({"op": "load_value", "doc": enc(parsed)}); meta.append(("load", g, fmt, simp, text))
            reps = ctx.driver.batch(reqs)
            for (kind, g, fmt, simp, x), r in zip(meta, reps):
                ctx.compared += 1
                case = {"graph": show(canon(g.asdict())), "format": fmt, "simplified": simp}
                if kind == "dump":
                    if "ok" not in r or not canon_eq(canon(x), dec(r["ok"])):
                        ctx.disagreement("dump_value", case, show(canon(x)), r)
                else:
                    try:
                        back = canon(demes.loads(x, format=fmt).asdict())
                    except Exception as e:  # noqa: BLE001
                        back = ("err", type(e).__name__)
                    if "ok" not in r or isinstance(back, tuple) or not canon_eq(back, dec(r["ok"])):
                        ctx.disagreement("load_value", case, back if isinstance(back, tuple) else show(back), {k: v for k, v in r.items() if k != "ok"})
            # multi-document streams of 0..k graphs
            for k in (0, 1, 2, 3, 5 if ctx.tier == "quick" else 12):
                gs = [ctx.rng.choice(graphs) for _ in range(k)] if graphs else []
                for simp in (True, False):
                    ctx.count({"stream": k, "simplified": simp, "graphs": [show(canon(g.asdict())) for g in gs[:2]]}, k != 1, tags=[f"multidoc:{k}"])
                    try:
                        s = io.StringIO()
                        demes.dump_all(gs, s, simplified=simp)
                        back = list(demes.load_all(io.StringIO(s.getvalue())))
                        p = os.path.join(tmpdir, "multi.yaml")
                        demes.dump_all(gs, p, simplified=simp)
                        back2 = list(demes.load_all(p))
                        # the stream consumed lazily, each graph round-tripped on its own WHILE the iterator is suspended
                        # (a user checking every model of a file as it is read)
                        back3 = []
                        for x in demes.load_all(io.StringIO(s.getvalue())):
                            y = demes.loads(demes.dumps(x, simplified=simp))
                            z = demes.loads(demes.dumps(x, format="json", simplified=simp), format="json") if json_safe_graph(x) else y
                            back3.append(x if same_graph(y.asdict(), x.asdict()) and same_graph(z.asdict(), x.asdict()) else None)
                        ok = len(back) == k and len(back2) == k and all(same_graph(x.asdict(), y.asdict()) for x, y in zip(back, gs)) \
                            and all(same_graph(x.asdict(), y.asdict()) for x, y in zip(back2, gs)) \
                            and len(back3) == k and all(x is not None and same_graph(x.asdict(), y.asdict()) for x, y in zip(back3, gs))
                        why = None if ok else "gives different graphs"
                    except Exception as e:  # noqa: BLE001
                        why = f"raises {type(e).__name__}"
                    if why:
                        ctx.violation(f"multi-document round trip of {k} graphs {why}", {"k": k, "simplified": simp, "graphs": [show(canon(g.asdict())) for g in gs]})
            # codec laws on the dictionaries the library itself produces and on awkward plain values
            vals = [g.asdict() for g in graphs[:10]] + [g.asdict_simplified() for g in graphs[:10]]
            vals += [{"k": s, "l": [s, {"m": s}]} for s in ctx.rng.sample(AWKWARD, 12)] + [{"n": x, "l": [x, -x]} for x in NUMBERS]
            codec_laws(ctx, vals)
    finally:
        import shutil
        shutil.rmtree(tmpdir, ignore_errors=True)


VERIF_DIR = os.path.dirname(os.path.dirname(os.path.dirname(os.path.abspath(__file__))))


def replay(ctx, payload):
    from props.c01 import plain_doc
    g = demes.Graph.fromdict(plain_doc(payload["input"]["document"]))
    for name, fn in roundtrip_variants(g, ctx.rng, tempfile.mkdtemp()):
        try:
            print(name, same_graph(fn().asdict(), g.asdict()))
        except Exception as e:  # noqa: BLE001
            print(name, "raises", type(e).__name__)
    return 0
