/-
  Proofs for C10 — `Graph.isclose` / `assert_close` (Model `Graph.isclose`) is reflexive and
  symmetric, ignores descriptions / DOIs / metadata and the order of migrations, demes and
  ancestors, and is sound for the declarative `Spec.SemClose`.
-/
import DemesVerif.Spec.C10
import Mathlib.Data.List.Sort
import Mathlib.Data.List.Perm.Basic
import Mathlib.Data.String.Basic
import Mathlib.Tactic.Linarith
import Mathlib.Algebra.Order.Field.Basic
namespace Demes.Proofs
open Demes Demes.Spec

/-! ### comparison functions are linear orders -/

/-- a comparison function that is a linear order whose `.eq` is equality -/
structure LinCmp {α} (c : α → α → Ordering) : Prop where
  eq_iff : ∀ a b, c a b = .eq ↔ a = b
  swap : ∀ a b, c b a = (c a b).swap
  trans_lt : ∀ a b d, c a b = .lt → c b d = .lt → c a d = .lt

theorem linCmp_of_linearOrder {α} [LinearOrder α] (c : α → α → Ordering)
    (hc : ∀ a b, c a b = if a < b then .lt else if a = b then .eq else .gt) : LinCmp c := by
  refine ⟨?_, ?_, ?_⟩
  · intro a b; rw [hc]
    rcases lt_trichotomy a b with h | h | h
    · simp [h, ne_of_lt h]
    · simp [h]
    · simp [not_lt_of_gt h, ne_of_gt h]
  · intro a b; rw [hc, hc]
    rcases lt_trichotomy a b with h | h | h
    · simp [h, not_lt_of_gt h, ne_of_gt h]
    · simp [h]
    · simp [h, not_lt_of_gt h, ne_of_gt h]
  · intro a b d; rw [hc, hc, hc]
    intro h1 h2
    have h1' : a < b := by by_contra h; simp [h] at h1; split at h1 <;> simp at h1
    have h2' : b < d := by by_contra h; simp [h] at h2; split at h2 <;> simp at h2
    simp [lt_trans h1' h2']

theorem linCmp_cmpQ : LinCmp cmpQ := linCmp_of_linearOrder _ (fun _ _ => rfl)
theorem linCmp_cmpS : LinCmp cmpS := linCmp_of_linearOrder _ (fun _ _ => rfl)

theorem linCmp_cmpE : LinCmp cmpE := by
  have q := linCmp_cmpQ
  refine ⟨?_, ?_, ?_⟩
  · intro a b; cases a <;> cases b <;> simp [cmpE, q.eq_iff]
  · intro a b; cases a <;> cases b <;> simp only [cmpE, Ordering.swap] ; exact q.swap _ _
  · intro a b d; cases a <;> cases b <;> cases d <;> simp [cmpE]
    exact q.trans_lt _ _ _

/-- lexicographic product of two comparisons -/
def cmpProd {α β} (c1 : α → α → Ordering) (c2 : β → β → Ordering) (a b : α × β) : Ordering :=
  (c1 a.1 b.1).then (c2 a.2 b.2)

theorem then_eq_eq (o1 o2 : Ordering) : o1.then o2 = .eq ↔ o1 = .eq ∧ o2 = .eq := by
  cases o1 <;> simp [Ordering.then]
theorem then_eq_lt (o1 o2 : Ordering) : o1.then o2 = .lt ↔ o1 = .lt ∨ (o1 = .eq ∧ o2 = .lt) := by
  cases o1 <;> simp [Ordering.then]
theorem then_swap (o1 o2 : Ordering) : (o1.then o2).swap = o1.swap.then o2.swap := by
  cases o1 <;> simp [Ordering.then, Ordering.swap]

theorem linCmp_cmpProd {α β} {c1 : α → α → Ordering} {c2 : β → β → Ordering}
    (h1 : LinCmp c1) (h2 : LinCmp c2) : LinCmp (cmpProd c1 c2) := by
  refine ⟨?_, ?_, ?_⟩
  · rintro ⟨a1, a2⟩ ⟨b1, b2⟩
    simp only [cmpProd, then_eq_eq, h1.eq_iff, h2.eq_iff, Prod.mk.injEq]
  · rintro ⟨a1, a2⟩ ⟨b1, b2⟩
    simp only [cmpProd, then_swap, ← h1.swap, ← h2.swap]
  · rintro ⟨a1, a2⟩ ⟨b1, b2⟩ ⟨d1, d2⟩
    simp only [cmpProd, then_eq_lt, h1.eq_iff]
    rintro (h | ⟨rfl, h⟩) (h' | ⟨rfl, h'⟩)
    · exact .inl (h1.trans_lt _ _ _ h h')
    · exact .inl h
    · exact .inl h'
    · exact .inr ⟨rfl, h2.trans_lt _ _ _ h h'⟩

theorem linCmp_cmpList {α} {c : α → α → Ordering} (h : LinCmp c) : LinCmp (cmpList c) := by
  refine ⟨?_, ?_, ?_⟩
  · intro a
    induction a with
    | nil => intro b; cases b <;> simp [cmpList]
    | cons x xs ih => intro b; cases b with
      | nil => simp [cmpList]
      | cons y ys => simp only [cmpList, then_eq_eq, h.eq_iff, ih, List.cons.injEq]
  · intro a
    induction a with
    | nil => intro b; cases b <;> simp [cmpList]
    | cons x xs ih => intro b; cases b with
      | nil => simp [cmpList]
      | cons y ys => simp only [cmpList, then_swap, ← h.swap, ← ih]
  · intro a
    induction a with
    | nil => intro b d; cases b <;> cases d <;> simp [cmpList]
    | cons x xs ih => intro b d; cases b with
      | nil => simp [cmpList]
      | cons y ys => cases d with
        | nil => simp [cmpList]
        | cons z zs =>
          simp only [cmpList, then_eq_lt, h.eq_iff]
          rintro (h' | ⟨rfl, h'⟩) (h'' | ⟨rfl, h''⟩)
          · exact .inl (h.trans_lt _ _ _ h' h'')
          · exact .inl h'
          · exact .inl h''
          · exact .inr ⟨rfl, ih _ _ h' h''⟩

theorem linCmp_pullback {α β} {c : β → β → Ordering} (h : LinCmp c) (f : α → β)
    (hf : Function.Injective f) : LinCmp (fun a b => c (f a) (f b)) :=
  ⟨fun a b => by rw [h.eq_iff]; exact hf.eq_iff, fun a b => h.swap _ _,
   fun a b d => h.trans_lt _ _ _⟩

def Epoch.tup (e : Epoch) := (e.startTime, e.endTime, e.startSize, e.endSize, e.sizeFunction, e.selfingRate, e.cloningRate)
def Deme.tup (d : Deme) := (d.name, d.description, d.startTime, d.ancestors, d.proportions, d.epochs)
def Migration.tup (m : Migration) := (m.source, m.dest, m.startTime, m.endTime, m.rate)

theorem linCmp_epoch : LinCmp Epoch.cmp :=
  linCmp_pullback (linCmp_cmpProd linCmp_cmpE <| linCmp_cmpProd linCmp_cmpQ <|
    linCmp_cmpProd linCmp_cmpQ <| linCmp_cmpProd linCmp_cmpQ <| linCmp_cmpProd linCmp_cmpS <|
    linCmp_cmpProd linCmp_cmpQ linCmp_cmpQ) Epoch.tup
    (by rintro ⟨⟩ ⟨⟩ h; simp only [Epoch.tup, Prod.mk.injEq] at h; simp only [Epoch.mk.injEq]; exact h)

theorem linCmp_deme : LinCmp Deme.cmp :=
  linCmp_pullback (linCmp_cmpProd linCmp_cmpS <| linCmp_cmpProd linCmp_cmpS <|
    linCmp_cmpProd linCmp_cmpE <| linCmp_cmpProd (linCmp_cmpList linCmp_cmpS) <|
    linCmp_cmpProd (linCmp_cmpList linCmp_cmpQ) (linCmp_cmpList linCmp_epoch)) Deme.tup
    (by rintro ⟨⟩ ⟨⟩ h; simp only [Deme.tup, Prod.mk.injEq] at h; simp only [Deme.mk.injEq]; exact h)

theorem linCmp_migration : LinCmp Migration.cmp :=
  linCmp_pullback (linCmp_cmpProd linCmp_cmpS <| linCmp_cmpProd linCmp_cmpS <|
    linCmp_cmpProd linCmp_cmpE <| linCmp_cmpProd linCmp_cmpQ linCmp_cmpQ) Migration.tup
    (by rintro ⟨⟩ ⟨⟩ h; simp only [Migration.tup, Prod.mk.injEq] at h; simp only [Migration.mk.injEq]; exact h)

/-! ### `≤` derived from a comparison -/

theorem LinCmp.le_total {α} {c : α → α → Ordering} (h : LinCmp c) (a b : α) :
    (c a b != .gt || c b a != .gt) = true := by
  rw [h.swap a b]; cases c a b <;> decide

theorem LinCmp.le_trans {α} {c : α → α → Ordering} (h : LinCmp c) (a b d : α)
    (h1 : (c a b != .gt) = true) (h2 : (c b d != .gt) = true) : (c a d != .gt) = true := by
  rcases hab : c a b with _ | _ | _
  · rcases hbd : c b d with _ | _ | _
    · rw [h.trans_lt _ _ _ hab hbd]; decide
    · rw [(h.eq_iff _ _).1 hbd] at hab; rw [hab]; decide
    · rw [hbd] at h2; exact absurd h2 (by decide)
  · rw [(h.eq_iff _ _).1 hab]; exact h2
  · rw [hab] at h1; exact absurd h1 (by decide)

theorem LinCmp.le_antisymm {α} {c : α → α → Ordering} (h : LinCmp c) (a b : α)
    (h1 : (c a b != .gt) = true) (h2 : (c b a != .gt) = true) : a = b := by
  rw [h.swap a b] at h2
  apply (h.eq_iff _ _).1
  revert h1 h2; cases c a b <;> decide

/-- two permutations of a list sort to the same list, as soon as the (total, transitive)
order is antisymmetric on the elements of the list -/
theorem mergeSort_eq_of_perm {α} {le : α → α → Bool}
    (htrans : ∀ a b c, le a b = true → le b c = true → le a c = true)
    (htotal : ∀ a b, (le a b || le b a) = true) {l1 l2 : List α} (hp : l1.Perm l2)
    (hanti : ∀ a b, a ∈ l1 → b ∈ l1 → le a b = true → le b a = true → a = b) :
    l1.mergeSort le = l2.mergeSort le := by
  have p1 := List.mergeSort_perm l1 le
  have p2 := List.mergeSort_perm l2 le
  refine List.Perm.eq_of_pairwise (le := fun a b => le a b = true) ?_
    (List.pairwise_mergeSort htrans htotal l1) (List.pairwise_mergeSort htrans htotal l2)
    (p1.trans (hp.trans p2.symm))
  intro a b ha hb
  exact hanti a b (p1.mem_iff.1 ha) (hp.mem_iff.2 (p2.mem_iff.1 hb))

theorem sortBy_eq_of_perm {α} {c : α → α → Ordering} (h : LinCmp c) {l1 l2 : List α}
    (hp : l1.Perm l2) : sortBy c l1 = sortBy c l2 :=
  mergeSort_eq_of_perm (fun a b d => h.le_trans a b d) (fun a b => h.le_total a b) hp
    (fun a b _ _ => h.le_antisymm a b)

theorem sortBy_perm {α} (c : α → α → Ordering) (l : List α) : (sortBy c l).Perm l :=
  List.mergeSort_perm _ _

theorem sortBy_length {α} (c : α → α → Ordering) (l : List α) : (sortBy c l).length = l.length :=
  (sortBy_perm c l).length_eq

/-! ### `zip`/`all` -/

theorem zip_all_self {α} (f : α × α → Bool) (l : List α) (h : ∀ x ∈ l, f (x, x) = true) :
    (l.zip l).all f = true := by
  induction l with
  | nil => rfl
  | cons x xs ih =>
    simp only [List.zip_cons_cons, List.all_cons, Bool.and_eq_true]
    exact ⟨h x (List.mem_cons_self), ih (fun y hy => h y (List.mem_cons_of_mem _ hy))⟩

theorem zip_all_swap {α β} (f : α × β → Bool) (g : β × α → Bool) (hfg : ∀ x y, f (x, y) = g (y, x))
    (l1 : List α) (l2 : List β) : (l1.zip l2).all f = (l2.zip l1).all g := by
  induction l1 generalizing l2 with
  | nil => cases l2 <;> rfl
  | cons x xs ih =>
    cases l2 with
    | nil => rfl
    | cons y ys => simp only [List.zip_cons_cons, List.all_cons, hfg, ih]

/-! ### `math.isclose` -/

theorem qabs_sub_comm (a b : Q) : qabs (a - b) = qabs (b - a) := by
  unfold qabs; split <;> split <;> grind

theorem qmax_comm (a b : Q) : qmax a b = qmax b a := by
  unfold qmax; split <;> split <;> grind

theorem iscloseQ_refl (a rel abs : Q) : iscloseQ a a rel abs = true := by
  simp [iscloseQ]

theorem iscloseQ_symm (a b rel abs : Q) : iscloseQ a b rel abs = iscloseQ b a rel abs := by
  unfold iscloseQ
  rw [qabs_sub_comm a b, qmax_comm (qabs a) (qabs b)]
  rw [BEq.comm (a := a)]

theorem closeQ_refl (t : Tol) (a : Q) : closeQ t a a = true := iscloseQ_refl _ _ _
theorem closeQ_symm (t : Tol) (a b : Q) : closeQ t a b = closeQ t b a := iscloseQ_symm _ _ _ _
theorem closeE_refl (t : Tol) (a : ETime) : closeE t a a = true := by
  cases a <;> simp [closeE, iscloseE, iscloseQ_refl]
theorem closeE_symm (t : Tol) (a b : ETime) : closeE t a b = closeE t b a := by
  cases a <;> cases b <;> simp [closeE, iscloseE, iscloseQ_symm]

theorem beq_comm' {α} [BEq α] [LawfulBEq α] (a b : α) : (a == b) = (b == a) := BEq.comm

/-! ### reflexivity -/

theorem epoch_isclose_refl (t : Tol) (e : Epoch) : Epoch.isclose t e e = true := by
  simp [Epoch.isclose, closeQ_refl, closeE_refl]

theorem migration_isclose_refl (t : Tol) (m : Migration) : Migration.isclose t m m = true := by
  simp [Migration.isclose, closeQ_refl, closeE_refl]

theorem proportions_isclose_refl (t : Tol) (an : List String) (ap : List Q) :
    iscloseDemeProportions t an ap an ap = true := by
  simp only [iscloseDemeProportions, bne_self_eq_false, Bool.or_self, Bool.false_eq_true, ↓reduceIte]
  apply zip_all_self
  intro x _
  simp [closeQ_refl]

theorem pulse_isclose_refl (t : Tol) (p : Pulse) : Pulse.isclose t p p = true := by
  simp [Pulse.isclose, closeQ_refl, proportions_isclose_refl]

theorem deme_isclose_refl (t : Tol) (d : Deme) : Deme.isclose t d d = true := by
  simp only [Deme.isclose, closeE_refl, proportions_isclose_refl, beq_self_eq_true, Bool.and_self,
    Bool.true_and]
  exact zip_all_self _ _ (fun e _ => epoch_isclose_refl t e)

theorem isclose_refl (t : Tol) (g : Graph) : Graph.isclose t g g = true := by
  simp only [Graph.isclose, beq_self_eq_true, Bool.and_self, Bool.true_and, Bool.and_true,
    Bool.and_eq_true]
  exact ⟨⟨zip_all_self _ _ (fun d _ => deme_isclose_refl t d),
    zip_all_self _ _ (fun m _ => migration_isclose_refl t m)⟩,
    zip_all_self _ _ (fun p _ => pulse_isclose_refl t p)⟩

/-! ### symmetry -/

theorem epoch_isclose_symm (t : Tol) (a b : Epoch) : Epoch.isclose t a b = Epoch.isclose t b a := by
  simp only [Epoch.isclose]
  rw [closeE_symm t a.startTime, closeQ_symm t a.endTime, closeQ_symm t a.startSize,
    closeQ_symm t a.endSize, closeQ_symm t a.selfingRate, closeQ_symm t a.cloningRate,
    beq_comm' a.sizeFunction]

theorem migration_isclose_symm (t : Tol) (a b : Migration) :
    Migration.isclose t a b = Migration.isclose t b a := by
  simp only [Migration.isclose]
  rw [closeE_symm t a.startTime, closeQ_symm t a.endTime, closeQ_symm t a.rate,
    beq_comm' a.source, beq_comm' a.dest]

theorem proportions_isclose_symm (t : Tol) (an : List String) (ap : List Q) (bn : List String)
    (bp : List Q) :
    iscloseDemeProportions t an ap bn bp = iscloseDemeProportions t bn bp an ap := by
  simp only [iscloseDemeProportions]
  rw [show (an.length != bn.length) = (bn.length != an.length) from by
        simp only [bne, beq_comm' an.length],
      show (ap.length != bp.length) = (bp.length != ap.length) from by
        simp only [bne, beq_comm' ap.length]]
  split
  · rfl
  · apply zip_all_swap
    intro x y
    simp only [closeQ_symm t x.2, beq_comm' x.1]

theorem pulse_isclose_symm (t : Tol) (a b : Pulse) : Pulse.isclose t a b = Pulse.isclose t b a := by
  simp only [Pulse.isclose]
  rw [closeQ_symm t a.time, closeQ_symm t (qsumL a.proportions),
    proportions_isclose_symm t a.sources, beq_comm' a.sources.length,
    beq_comm' a.dest, beq_comm' a.proportions.length]
  cases (b.sources.length == a.sources.length) <;>
  cases (a.sources.all fun s => b.sources.contains s) <;>
  cases (b.sources.all fun s => a.sources.contains s) <;> rfl

theorem deme_isclose_symm (t : Tol) (a b : Deme) : Deme.isclose t a b = Deme.isclose t b a := by
  simp only [Deme.isclose]
  rw [closeE_symm t a.startTime, proportions_isclose_symm t a.ancestors, beq_comm' a.name,
    beq_comm' a.epochs.length,
    zip_all_swap _ (fun p : Epoch × Epoch => Epoch.isclose t p.1 p.2)
      (fun x y => epoch_isclose_symm t x y) a.epochs b.epochs]

theorem isclose_symm (t : Tol) (a b : Graph) : Graph.isclose t a b = Graph.isclose t b a := by
  simp only [Graph.isclose]
  rw [beq_comm' a.timeUnits, beq_comm' a.generationTime, beq_comm' a.demes.length,
    beq_comm' a.migrations.length, beq_comm' a.pulses.length,
    zip_all_swap _ (fun p : Deme × Deme => Deme.isclose t p.1 p.2)
      (fun x y => deme_isclose_symm t x y) (sortBy Deme.cmp a.demes),
    zip_all_swap _ (fun p : Migration × Migration => Migration.isclose t p.1 p.2)
      (fun x y => migration_isclose_symm t x y) (sortBy Migration.cmp a.migrations),
    zip_all_swap _ (fun p : Pulse × Pulse => Pulse.isclose t p.1 p.2)
      (fun x y => pulse_isclose_symm t x y) a.pulses]

/-! ### sorting by a (string) key -/

/-- `≤` on a string key (`sortPairs` is `mergeSort (leKey Prod.fst)`) -/
def leKey {α} (key : α → String) (x y : α) : Bool := cmpS (key x) (key y) != .gt

theorem leKey_trans {α} (key : α → String) (a b c : α) :
    leKey key a b = true → leKey key b c = true → leKey key a c = true :=
  linCmp_cmpS.le_trans _ _ _

theorem leKey_total {α} (key : α → String) (a b : α) : (leKey key a b || leKey key b a) = true :=
  linCmp_cmpS.le_total _ _

theorem sortPairs_eq (xs : List (String × Q)) : sortPairs xs = xs.mergeSort (leKey Prod.fst) := rfl

/-- with pairwise distinct keys, sorting by key does not depend on the order of the input -/
theorem mergeSort_leKey_eq_of_perm {α} (key : α → String) {l1 l2 : List α} (hp : l1.Perm l2)
    (hn : (l1.map key).Nodup) : l1.mergeSort (leKey key) = l2.mergeSort (leKey key) :=
  mergeSort_eq_of_perm (leKey_trans key) (leKey_total key) hp
    (fun _ _ ha hb h1 h2 =>
      List.inj_on_of_nodup_map hn ha hb (linCmp_cmpS.le_antisymm _ _ h1 h2))

/-- a comparison whose first key is `key` sorts a list with distinct keys by `key` alone -/
theorem sortBy_eq_mergeSort_leKey {α} {c : α → α → Ordering} (hc : LinCmp c) (key : α → String)
    (hck : ∀ x y, key x ≠ key y → c x y = cmpS (key x) (key y)) (l : List α)
    (hn : (l.map key).Nodup) : sortBy c l = l.mergeSort (leKey key) := by
  have hp := List.mergeSort_perm l (leKey key)
  have hs := List.pairwise_mergeSort (leKey_trans key) (leKey_total key) l
  have hn' : ((l.mergeSort (leKey key)).map key).Nodup := (hp.map key).nodup_iff.2 hn
  rw [List.Nodup, List.pairwise_map] at hn'
  have hs' : (l.mergeSort (leKey key)).Pairwise (fun a b => (c a b != .gt) = true) :=
    (hs.and hn').imp (fun {a b} h => by rw [hck a b h.2]; exact h.1)
  rw [← sortBy_eq_of_perm hc hp]
  exact List.mergeSort_of_pairwise hs'

/-- sorting by key two lists related position-wise by a key-preserving relation gives lists
related position-wise -/
theorem forall₂_mergeSort_leKey {α} (key : α → String) (R : α → α → Prop)
    (hR : ∀ x y, R x y → key x = key y) {l l' : List α} (h : List.Forall₂ R l l') :
    List.Forall₂ R (l.mergeSort (leKey key)) (l'.mergeSort (leKey key)) := by
  obtain ⟨hlen, hzip⟩ := List.forall₂_iff_zip.1 h
  let ps := l.zip l'
  have h1 : ps.map Prod.fst = l := List.map_fst_zip (le_of_eq hlen)
  have h2 : ps.map Prod.snd = l' := List.map_snd_zip (le_of_eq hlen.symm)
  let s := ps.mergeSort (fun p q => leKey key p.1 q.1)
  have hs : ∀ p ∈ s, R p.1 p.2 := fun p hp =>
    hzip ((List.mergeSort_perm ps _).mem_iff.1 hp)
  have e1 : s.map Prod.fst = l.mergeSort (leKey key) := by
    rw [← h1]; exact List.map_mergeSort (fun _ _ _ _ => rfl)
  have e2 : s.map Prod.snd = l'.mergeSort (leKey key) := by
    rw [← h2]; refine List.map_mergeSort (fun p hp q hq => ?_)
    show leKey key p.1 q.1 = leKey key p.2 q.2
    unfold leKey; rw [hR _ _ (hzip hp), hR _ _ (hzip hq)]
  rw [← e1, ← e2, List.forall₂_map_left_iff, List.forall₂_map_right_iff, List.forall₂_same]
  exact hs

theorem zip_all_congr_left {α β} (R : α → α → Prop) (f : α × β → Bool)
    (hf : ∀ x x' y, R x x' → f (x', y) = f (x, y)) {s s' : List α} (h : List.Forall₂ R s s')
    (l : List β) : (s'.zip l).all f = (s.zip l).all f := by
  induction h generalizing l with
  | nil => rfl
  | cons hr _ ih =>
    cases l with
    | nil => rfl
    | cons y ys => simp only [List.zip_cons_cons, List.all_cons, hf _ _ _ hr, ih]

/-! ### permutations of migrations and demes -/

theorem isclose_perm_migrations (t : Tol) (a b : Graph) (ms : List Migration)
    (h : ms.Perm a.migrations) :
    Graph.isclose t { a with migrations := ms } b = Graph.isclose t a b := by
  simp only [Graph.isclose]
  rw [sortBy_eq_of_perm linCmp_migration h, h.length_eq]

theorem isclose_perm_demes (t : Tol) (a b : Graph) (ds : List Deme) (h : ds.Perm a.demes) :
    Graph.isclose t { a with demes := ds } b = Graph.isclose t a b := by
  simp only [Graph.isclose]
  rw [sortBy_eq_of_perm linCmp_deme h, h.length_eq]

theorem deme_cmp_of_name_ne (x y : Deme) (h : x.name ≠ y.name) :
    Deme.cmp x y = cmpS x.name y.name := by
  unfold Deme.cmp
  have : cmpS x.name y.name ≠ .eq := fun he => h ((linCmp_cmpS.eq_iff _ _).1 he)
  revert this; cases cmpS x.name y.name <;> simp [Ordering.then]

theorem forall₂_map_eq {α β} (R : α → α → Prop) (f : α → β) (hR : ∀ x y, R x y → f x = f y)
    {l l' : List α} (h : List.Forall₂ R l l') : l.map f = l'.map f := by
  induction h with
  | nil => rfl
  | cons hr _ ih => simp only [List.map_cons, hR _ _ hr, ih]

/-- replacing the demes by demes with the same names that compare alike leaves the result
unchanged, provided the names are pairwise distinct -/
theorem isclose_congr_demes (t : Tol) (a b : Graph) (R : Deme → Deme → Prop)
    (hkey : ∀ x y, R x y → x.name = y.name)
    (hclose : ∀ x x' y, R x x' → Deme.isclose t x' y = Deme.isclose t x y)
    (ds : List Deme) (h : List.Forall₂ R a.demes ds) (hn : (a.demes.map (·.name)).Nodup) :
    Graph.isclose t { a with demes := ds } b = Graph.isclose t a b := by
  have hn' : (ds.map (·.name)).Nodup := by
    rw [← forall₂_map_eq R (·.name) hkey h]; exact hn
  have hs := forall₂_mergeSort_leKey (·.name) R hkey h
  rw [← sortBy_eq_mergeSort_leKey linCmp_deme (·.name) deme_cmp_of_name_ne _ hn,
    ← sortBy_eq_mergeSort_leKey linCmp_deme (·.name) deme_cmp_of_name_ne _ hn'] at hs
  simp only [Graph.isclose]
  rw [← h.length_eq, zip_all_congr_left R _ (fun x x' y hr => hclose x x' y hr) hs]

/-! ### `Pointwise` and `Forall₂` -/

theorem pointwise_iff_forall₂ {α β} (R : α → β → Prop) (xs : List α) (ys : List β) :
    Pointwise R xs ys ↔ List.Forall₂ R xs ys := by
  induction xs generalizing ys with
  | nil =>
    cases ys with
    | nil => simp [Pointwise]
    | cons y ys => simp [Pointwise]
  | cons x xs ih =>
    cases ys with
    | nil => simp [Pointwise]
    | cons y ys =>
      rw [List.forall₂_cons, ← ih]
      constructor
      · rintro ⟨hl, h⟩
        refine ⟨h 0 x y rfl rfl, by simpa using hl, fun i a b ha hb => h (i+1) a b ?_ ?_⟩
        · simpa using ha
        · simpa using hb
      · rintro ⟨h0, hl, h⟩
        refine ⟨by simpa using hl, fun i a b ha hb => ?_⟩
        cases i with
        | zero => simp at ha hb; subst ha hb; exact h0
        | succ i => exact h i a b (by simpa using ha) (by simpa using hb)

theorem forall₂_of_zip_all {α β} {f : α × β → Bool} {l1 : List α} {l2 : List β}
    (hlen : l1.length = l2.length) (h : (l1.zip l2).all f = true) :
    List.Forall₂ (fun x y => f (x, y) = true) l1 l2 :=
  List.forall₂_iff_zip.2 ⟨hlen, fun hab => List.all_eq_true.1 h _ hab⟩

theorem forall₂_mem_left {α β} {R : α → β → Prop} {l : List α} {l' : List β}
    (h : List.Forall₂ R l l') {x : α} (hx : x ∈ l) : ∃ y ∈ l', R x y := by
  induction h with
  | nil => cases hx
  | cons hr _ ih =>
    rcases List.mem_cons.1 hx with rfl | hx
    · exact ⟨_, List.mem_cons_self, hr⟩
    · obtain ⟨y, hy, hr'⟩ := ih hx
      exact ⟨y, List.mem_cons_of_mem _ hy, hr'⟩

/-- position-wise related sorted lists give a matching of the unsorted lists -/
theorem matching_of_sorted {α} {R : α → α → Prop} {l1 l2 s1 s2 : List α} (p1 : s1.Perm l1)
    (p2 : s2.Perm l2) (h : List.Forall₂ R s1 s2) :
    ∃ zs, zs.Perm l2 ∧ Pointwise R l1 zs := by
  obtain ⟨w, hw, hp⟩ := List.perm_comp_forall₂ p1.symm h
  exact ⟨w, hp.trans p2, (pointwise_iff_forall₂ _ _ _).2 hw⟩

/-! ### the Boolean tests mean the declarative relations -/

theorem closeQ_iff (t : Tol) (a b : Q) : closeQ t a b = true ↔ WithinTol t a b := by
  simp only [closeQ, iscloseQ, WithinTol, Bool.or_eq_true, beq_iff_eq, decide_eq_true_eq]

theorem closeE_iff (t : Tol) (a b : ETime) : closeE t a b = true ↔ WithinTolE t a b := by
  cases a <;> cases b <;> simp [closeE, iscloseE, WithinTolE, ← closeQ_iff, closeQ]

theorem epoch_isclose_iff (t : Tol) (x y : Epoch) : Epoch.isclose t x y = true ↔ EpochClose t x y := by
  simp only [Epoch.isclose, Bool.and_eq_true, beq_iff_eq, closeQ_iff, closeE_iff]
  exact ⟨fun ⟨⟨⟨⟨⟨⟨h1, h2⟩, h3⟩, h4⟩, h5⟩, h6⟩, h7⟩ => ⟨h1, h2, h3, h4, h5, h6, h7⟩,
    fun ⟨h1, h2, h3, h4, h5, h6, h7⟩ => ⟨⟨⟨⟨⟨⟨h1, h2⟩, h3⟩, h4⟩, h5⟩, h6⟩, h7⟩⟩

theorem migration_isclose_iff (t : Tol) (x y : Migration) :
    Migration.isclose t x y = true ↔ MigrationClose t x y := by
  simp only [Migration.isclose, Bool.and_eq_true, beq_iff_eq, closeQ_iff, closeE_iff]
  exact ⟨fun ⟨⟨⟨⟨h1, h2⟩, h3⟩, h4⟩, h5⟩ => ⟨h1, h2, h3, h4, h5⟩,
    fun ⟨h1, h2, h3, h4, h5⟩ => ⟨⟨⟨⟨h1, h2⟩, h3⟩, h4⟩, h5⟩⟩

theorem weights_sound (t : Tol) (an : List String) (ap : List Q) (bn : List String) (bp : List Q)
    (h : iscloseDemeProportions t an ap bn bp = true) : WeightsClose t an ap bn bp := by
  unfold iscloseDemeProportions at h
  split at h
  · exact absurd h (by decide)
  · rename_i hc
    simp only [Bool.or_eq_true, bne_iff_ne, ne_eq, not_or, Decidable.not_not] at hc
    obtain ⟨hn, hp⟩ := hc
    refine ⟨hn, hp, ?_⟩
    have hlen : (sortPairs (an.zip ap)).length = (sortPairs (bn.zip bp)).length := by
      unfold sortPairs
      rw [(List.mergeSort_perm _ _).length_eq, (List.mergeSort_perm _ _).length_eq,
        List.length_zip, List.length_zip, hn, hp]
    have hf := forall₂_of_zip_all hlen h
    refine matching_of_sorted (List.mergeSort_perm _ _) (List.mergeSort_perm _ _)
      (hf.imp (fun x y hxy => ?_))
    simpa only [Bool.and_eq_true, beq_iff_eq, closeQ_iff] using hxy

theorem deme_sound (t : Tol) (x y : Deme) (h : Deme.isclose t x y = true) : DemeClose t x y := by
  simp only [Deme.isclose, Bool.and_eq_true, beq_iff_eq, closeE_iff] at h
  obtain ⟨⟨⟨⟨h1, h2⟩, h3⟩, h4⟩, h5⟩ := h
  refine ⟨h1, h2, weights_sound _ _ _ _ _ h3, h4, (pointwise_iff_forall₂ _ _ _).2 ?_⟩
  exact (forall₂_of_zip_all h4 h5).imp (fun a b hab => (epoch_isclose_iff t a b).1 hab)

theorem pulse_sound (t : Tol) (x y : Pulse) (h : Pulse.isclose t x y = true) :
    PulseClose t x y := by
  simp only [Pulse.isclose, Bool.and_eq_true, beq_iff_eq, closeQ_iff, List.all_eq_true,
    List.contains_iff_mem] at h
  obtain ⟨⟨⟨⟨⟨⟨⟨h1, h2⟩, h3⟩, h4⟩, h5⟩, _⟩, h7⟩, h8⟩ := h
  exact ⟨h4, h1, fun s => ⟨h2 s, h3 s⟩, h5, h7, weights_sound _ _ _ _ _ h8⟩

/-- `Graph.isclose` reports a difference unless the graphs describe the same model up to the
tolerance -/
theorem isclose_sound (t : Tol) (a b : Graph) (h : Graph.isclose t a b = true) :
    SemClose t a b := by
  simp only [Graph.isclose, Bool.and_eq_true, beq_iff_eq] at h
  obtain ⟨⟨⟨⟨⟨⟨⟨h1, h2⟩, h3⟩, h4⟩, h5⟩, h6⟩, h7⟩, h8⟩ := h
  refine ⟨h1, h2, ?_, ?_, (pointwise_iff_forall₂ _ _ _).2 ?_⟩
  · have hlen : (sortBy Deme.cmp a.demes).length = (sortBy Deme.cmp b.demes).length := by
      rw [sortBy_length, sortBy_length, h3]
    exact matching_of_sorted (sortBy_perm _ _) (sortBy_perm _ _)
      ((forall₂_of_zip_all hlen h4).imp (fun x y hxy => deme_sound t x y hxy))
  · have hlen : (sortBy Migration.cmp a.migrations).length
        = (sortBy Migration.cmp b.migrations).length := by
      rw [sortBy_length, sortBy_length, h5]
    exact matching_of_sorted (sortBy_perm _ _) (sortBy_perm _ _)
      ((forall₂_of_zip_all hlen h6).imp (fun x y hxy => (migration_isclose_iff t x y).1 hxy))
  · exact (forall₂_of_zip_all h7 h8).imp (fun x y hxy => pulse_sound t x y hxy)

/-! ### ignored attributes -/

theorem deme_isclose_description (t : Tol) (x x' y : Deme) (h : SameUpToDescription x x') :
    Deme.isclose t x' y = Deme.isclose t x y := by
  rw [h]; rfl

theorem isclose_ignores_left (t : Tol) (a b : Graph) (desc : String) (doi : List String)
    (md : Obj) (ds : List Deme) (h : Pointwise SameUpToDescription a.demes ds)
    (hn : (a.demes.map (·.name)).Nodup) :
    Graph.isclose t { a with description := desc, doi := doi, metadata := md, demes := ds } b
      = Graph.isclose t a b :=
  isclose_congr_demes t a b SameUpToDescription (fun x y hxy => by rw [hxy])
    (deme_isclose_description t) ds ((pointwise_iff_forall₂ _ _ _).1 h) hn

theorem isclose_ignores (t : Tol) (a b : Graph) (da db : String) (doia doib : List String)
    (ma mb : Obj) (dsa dsb : List Deme)
    (ha : Pointwise SameUpToDescription a.demes dsa)
    (hb : Pointwise SameUpToDescription b.demes dsb)
    (hna : (a.demes.map (·.name)).Nodup) (hnb : (b.demes.map (·.name)).Nodup) :
    Graph.isclose t { a with description := da, doi := doia, metadata := ma, demes := dsa }
        { b with description := db, doi := doib, metadata := mb, demes := dsb }
      = Graph.isclose t a b := by
  rw [isclose_ignores_left t a _ da doia ma dsa ha hna, isclose_symm,
    isclose_ignores_left t b _ db doib mb dsb hb hnb, isclose_symm]

/-! ### order of a deme's ancestors -/

theorem forall₂_and_left {α β} {S : α → β → Prop} {P : α → Prop} {l : List α} {l' : List β}
    (h : List.Forall₂ S l l') (hp : ∀ x ∈ l, P x) : List.Forall₂ (fun x y => S x y ∧ P x) l l' := by
  induction h with
  | nil => exact .nil
  | cons hr _ ih =>
    exact .cons ⟨hr, hp _ List.mem_cons_self⟩ (ih (fun x hx => hp x (List.mem_cons_of_mem _ hx)))

theorem weights_isclose_perm (t : Tol) (an an' : List String) (ap ap' : List Q)
    (bn : List String) (bp : List Q) (hl : an.length = ap.length) (hl' : an'.length = ap'.length)
    (hp : (an'.zip ap').Perm (an.zip ap)) (hn : an.Nodup) :
    iscloseDemeProportions t an' ap' bn bp = iscloseDemeProportions t an ap bn bp := by
  have hlen := hp.length_eq
  rw [List.length_zip, List.length_zip, ← hl, ← hl', Nat.min_self, Nat.min_self] at hlen
  have hs : sortPairs (an'.zip ap') = sortPairs (an.zip ap) := by
    rw [sortPairs_eq, sortPairs_eq]
    refine (mergeSort_leKey_eq_of_perm Prod.fst hp.symm ?_).symm
    rw [List.map_fst_zip (le_of_eq hl)]; exact hn
  unfold iscloseDemeProportions
  rw [hs, ← hl', ← hl, hlen]

theorem deme_isclose_ancestor_order (t : Tol) (x x' y : Deme)
    (h : SameUpToAncestorOrder x x' ∧ x.ancestors.Nodup) :
    Deme.isclose t x' y = Deme.isclose t x y := by
  obtain ⟨h, hn⟩ := h
  unfold Deme.isclose
  rw [h.name, h.startTime, h.epochs,
    weights_isclose_perm t _ _ _ _ _ _ h.wellFormed h.wellFormed' h.pairs hn]

theorem isclose_perm_ancestors (t : Tol) (a b : Graph) (ds : List Deme)
    (h : Pointwise SameUpToAncestorOrder a.demes ds) (hn : (a.demes.map (·.name)).Nodup)
    (hanc : ∀ d ∈ a.demes, d.ancestors.Nodup) :
    Graph.isclose t { a with demes := ds } b = Graph.isclose t a b :=
  isclose_congr_demes t a b (fun x x' => SameUpToAncestorOrder x x' ∧ x.ancestors.Nodup)
    (fun _ _ hxy => hxy.1.name.symm) (deme_isclose_ancestor_order t) ds
    (forall₂_and_left ((pointwise_iff_forall₂ _ _ _).1 h) hanc) hn

/-! ### larger tolerances accept more -/

theorem qabs_nonneg (a : Q) : 0 ≤ qabs a := by
  unfold qabs; split <;> linarith

theorem le_qmax_left (a b : Q) : a ≤ qmax a b := by
  unfold qmax; split <;> linarith

theorem qmax_mono {a b a' b' : Q} (ha : a ≤ a') (hb : b ≤ b') : qmax a b ≤ qmax a' b' := by
  unfold qmax; split <;> split <;> linarith

theorem withinTol_mono {t t' : Tol} (hr : t.rel ≤ t'.rel) (ha : t.abs ≤ t'.abs) {a b : Q}
    (h : WithinTol t a b) : WithinTol t' a b := by
  rcases h with h | h
  · exact .inl h
  · refine .inr (le_trans h (qmax_mono ?_ ha))
    exact mul_le_mul_of_nonneg_right hr (le_trans (qabs_nonneg a) (le_qmax_left _ _))

theorem pointwise_imp {α β} {R S : α → β → Prop} (h : ∀ x y, R x y → S x y) {xs : List α}
    {ys : List β} (hp : Pointwise R xs ys) : Pointwise S xs ys :=
  ⟨hp.1, fun i x y hx hy => h x y (hp.2 i x y hx hy)⟩

theorem weightsClose_mono {t t' : Tol} (hr : t.rel ≤ t'.rel) (ha : t.abs ≤ t'.abs)
    {an : List String} {ap : List Q} {bn : List String} {bp : List Q}
    (h : WeightsClose t an ap bn bp) : WeightsClose t' an ap bn bp := by
  obtain ⟨h1, h2, zs, hp, hz⟩ := h
  exact ⟨h1, h2, zs, hp, pointwise_imp (fun x z hxz => ⟨hxz.1, withinTol_mono hr ha hxz.2⟩) hz⟩

/-! ### differences that are detected -/

theorem isclose_detects_time_units (t : Tol) (a b : Graph) (h : a.timeUnits ≠ b.timeUnits) :
    Graph.isclose t a b = false :=
  Bool.eq_false_iff.2 (fun hc => h (isclose_sound t a b hc).timeUnits)

theorem isclose_detects_generation_time (t : Tol) (a b : Graph)
    (h : a.generationTime ≠ b.generationTime) : Graph.isclose t a b = false :=
  Bool.eq_false_iff.2 (fun hc => h (isclose_sound t a b hc).generationTime)

theorem semClose_names {t : Tol} {a b : Graph} (h : SemClose t a b) :
    (a.demes.map (·.name)).Perm (b.demes.map (·.name)) := by
  obtain ⟨ds, hp, hd⟩ := h.demes
  rw [forall₂_map_eq (DemeClose t) (·.name) (fun x y hxy => hxy.name)
    ((pointwise_iff_forall₂ _ _ _).1 hd)]
  exact hp.map _

theorem isclose_detects_deme_names (t : Tol) (a b : Graph)
    (h : ¬ (a.demes.map (·.name)).Perm (b.demes.map (·.name))) : Graph.isclose t a b = false :=
  Bool.eq_false_iff.2 (fun hc => h (semClose_names (isclose_sound t a b hc)))

theorem isclose_detects_deme_name_set (t : Tol) (a b : Graph) (n : String)
    (h : (n ∈ a.demes.map (·.name) ∧ n ∉ b.demes.map (·.name))
       ∨ (n ∈ b.demes.map (·.name) ∧ n ∉ a.demes.map (·.name))) :
    Graph.isclose t a b = false := by
  refine isclose_detects_deme_names t a b (fun hp => ?_)
  rcases h with ⟨h1, h2⟩ | ⟨h1, h2⟩
  · exact h2 (hp.mem_iff.1 h1)
  · exact h2 (hp.mem_iff.2 h1)

theorem isclose_detects_deme_count (t : Tol) (a b : Graph) (h : a.demes.length ≠ b.demes.length) :
    Graph.isclose t a b = false :=
  Bool.eq_false_iff.2 (fun hc => h (by
    have := (semClose_names (isclose_sound t a b hc)).length_eq
    simpa using this))

theorem semClose_deme {t : Tol} {a b : Graph} (h : SemClose t a b) {d : Deme}
    (hd : d ∈ a.demes) : ∃ d' ∈ b.demes, d'.name = d.name ∧ DemeClose t d d' := by
  obtain ⟨ds, hp, hds⟩ := h.demes
  obtain ⟨d', hd', hc⟩ := forall₂_mem_left ((pointwise_iff_forall₂ _ _ _).1 hds) hd
  exact ⟨d', hp.mem_iff.1 hd', hc.name.symm, hc⟩

theorem isclose_detects_deme (t : Tol) (a b : Graph) (d : Deme) (hd : d ∈ a.demes)
    (h : ∀ d' ∈ b.demes, d'.name = d.name → ¬ DemeClose t d d') : Graph.isclose t a b = false :=
  Bool.eq_false_iff.2 (fun hc => by
    obtain ⟨d', hd', hn, hcl⟩ := semClose_deme (isclose_sound t a b hc) hd
    exact h d' hd' hn hcl)

theorem isclose_detects_start_time (t : Tol) (a b : Graph) (d : Deme) (hd : d ∈ a.demes)
    (h : ∀ d' ∈ b.demes, d'.name = d.name → ¬ WithinTolE t d.startTime d'.startTime) :
    Graph.isclose t a b = false :=
  isclose_detects_deme t a b d hd (fun d' hd' hn hc => h d' hd' hn hc.startTime)

theorem isclose_detects_ancestry (t : Tol) (a b : Graph) (d : Deme) (hd : d ∈ a.demes)
    (h : ∀ d' ∈ b.demes, d'.name = d.name →
      ¬ WeightsClose t d.ancestors d.proportions d'.ancestors d'.proportions) :
    Graph.isclose t a b = false :=
  isclose_detects_deme t a b d hd (fun d' hd' hn hc => h d' hd' hn hc.ancestry)

theorem isclose_detects_epoch_count (t : Tol) (a b : Graph) (d : Deme) (hd : d ∈ a.demes)
    (h : ∀ d' ∈ b.demes, d'.name = d.name → d.epochs.length ≠ d'.epochs.length) :
    Graph.isclose t a b = false :=
  isclose_detects_deme t a b d hd (fun d' hd' hn hc => h d' hd' hn hc.epochCount)

theorem isclose_detects_epoch (t : Tol) (a b : Graph) (d : Deme) (hd : d ∈ a.demes)
    (h : ∀ d' ∈ b.demes, d'.name = d.name → ∃ (i : Nat) (e e' : Epoch),
      d.epochs[i]? = some e ∧ d'.epochs[i]? = some e' ∧ ¬ EpochClose t e e') :
    Graph.isclose t a b = false :=
  isclose_detects_deme t a b d hd (fun d' hd' hn hc => by
    obtain ⟨i, e, e', he, he', hne⟩ := h d' hd' hn
    exact hne (hc.epochs.2 i e e' he he'))

theorem isclose_detects_migration_count (t : Tol) (a b : Graph)
    (h : a.migrations.length ≠ b.migrations.length) : Graph.isclose t a b = false :=
  Bool.eq_false_iff.2 (fun hc => by
    obtain ⟨ms, hp, hm⟩ := (isclose_sound t a b hc).migrations
    exact h (hm.1.trans hp.length_eq))

theorem isclose_detects_migration (t : Tol) (a b : Graph) (m : Migration) (hm : m ∈ a.migrations)
    (h : ∀ m' ∈ b.migrations, ¬ MigrationClose t m m') : Graph.isclose t a b = false :=
  Bool.eq_false_iff.2 (fun hc => by
    obtain ⟨ms, hp, hms⟩ := (isclose_sound t a b hc).migrations
    obtain ⟨m', hm', hcl⟩ := forall₂_mem_left ((pointwise_iff_forall₂ _ _ _).1 hms) hm
    exact h m' (hp.mem_iff.1 hm') hcl)

theorem isclose_detects_pulse_count (t : Tol) (a b : Graph)
    (h : a.pulses.length ≠ b.pulses.length) : Graph.isclose t a b = false :=
  Bool.eq_false_iff.2 (fun hc => h (isclose_sound t a b hc).pulses.1)

theorem isclose_detects_pulse (t : Tol) (a b : Graph) (i : Nat) (p q : Pulse)
    (hp : a.pulses[i]? = some p) (hq : b.pulses[i]? = some q)
    (h : ¬ PulseClose t p q) : Graph.isclose t a b = false :=
  Bool.eq_false_iff.2 (fun hc => h ((isclose_sound t a b hc).pulses.2 i p q hp hq))

/-! ### a kernel-reducible evaluator (`List.mergeSort` is defined by well-founded recursion
and does not reduce in the kernel; insertion sort computes the same list) -/

def insertBy {α} (le : α → α → Bool) (a : α) : List α → List α
  | [] => [a]
  | b :: l => if le a b then a :: b :: l else b :: insertBy le a l

def isort {α} (le : α → α → Bool) : List α → List α
  | [] => []
  | a :: l => insertBy le a (isort le l)

theorem insertBy_eq {α} (le : α → α → Bool) (a : α) (l₁ l₂ : List α)
    (h1 : ∀ b ∈ l₁, (!le a b) = true) (h2 : (l₁ ++ a :: l₂).Pairwise (fun x y => le x y = true)) :
    insertBy le a (l₁ ++ l₂) = l₁ ++ a :: l₂ := by
  induction l₁ with
  | nil =>
    cases l₂ with
    | nil => rfl
    | cons b l =>
      have : le a b = true := by
        simp only [List.nil_append, List.pairwise_cons] at h2
        exact h2.1 b List.mem_cons_self
      simp [insertBy, this]
  | cons c l ih =>
    have hc : le a c = false := by simpa using h1 c List.mem_cons_self
    simp only [List.cons_append, insertBy, hc, Bool.false_eq_true, ↓reduceIte, List.cons.injEq,
      true_and]
    exact ih (fun b hb => h1 b (List.mem_cons_of_mem _ hb)) (List.pairwise_cons.1 h2).2

theorem mergeSort_eq_isort {α} {le : α → α → Bool}
    (htrans : ∀ a b c, le a b = true → le b c = true → le a c = true)
    (htotal : ∀ a b, (le a b || le b a) = true) (l : List α) : l.mergeSort le = isort le l := by
  induction l with
  | nil => simp [isort]
  | cons a l ih =>
    obtain ⟨l₁, l₂, h1, h2, h3⟩ := List.mergeSort_cons htrans htotal a l
    have hs := List.pairwise_mergeSort htrans htotal (a :: l)
    rw [h1] at hs
    rw [h1, isort, ← ih, h2, insertBy_eq le a l₁ l₂ h3 hs]

/-- `Graph.isclose` with insertion sort in place of merge sort -/
def weightsEval (t : Tol) (an : List String) (ap : List Q) (bn : List String) (bp : List Q) : Bool :=
  if an.length != bn.length || ap.length != bp.length then false
  else
    ((isort (leKey Prod.fst) (an.zip ap)).zip (isort (leKey Prod.fst) (bn.zip bp))).all
      (fun (x, y) => x.1 == y.1 && closeQ t x.2 y.2)

theorem weights_eq_eval (t : Tol) (an : List String) (ap : List Q) (bn : List String) (bp : List Q) :
    iscloseDemeProportions t an ap bn bp = weightsEval t an ap bn bp := by
  unfold iscloseDemeProportions weightsEval
  simp only [sortPairs_eq, mergeSort_eq_isort (leKey_trans Prod.fst) (leKey_total Prod.fst)]

def pulseEval (t : Tol) (a b : Pulse) : Bool :=
  a.sources.length == b.sources.length
  && a.sources.all (fun s => b.sources.contains s)
  && b.sources.all (fun s => a.sources.contains s)
  && a.dest == b.dest
  && closeQ t a.time b.time
  && a.proportions.length == b.proportions.length
  && closeQ t (qsumL a.proportions) (qsumL b.proportions)
  && weightsEval t a.sources a.proportions b.sources b.proportions

def demeEval (t : Tol) (a b : Deme) : Bool :=
  a.name == b.name && closeE t a.startTime b.startTime
  && weightsEval t a.ancestors a.proportions b.ancestors b.proportions
  && a.epochs.length == b.epochs.length
  && (a.epochs.zip b.epochs).all (fun (x, y) => Epoch.isclose t x y)

def graphEval (t : Tol) (a b : Graph) : Bool :=
  a.timeUnits == b.timeUnits && a.generationTime == b.generationTime
  && a.demes.length == b.demes.length
  && ((isort (fun x y => Deme.cmp x y != .gt) a.demes).zip
        (isort (fun x y => Deme.cmp x y != .gt) b.demes)).all (fun (x, y) => demeEval t x y)
  && a.migrations.length == b.migrations.length
  && ((isort (fun x y => Migration.cmp x y != .gt) a.migrations).zip
        (isort (fun x y => Migration.cmp x y != .gt) b.migrations)).all
        (fun (x, y) => Migration.isclose t x y)
  && a.pulses.length == b.pulses.length
  && (a.pulses.zip b.pulses).all (fun (x, y) => pulseEval t x y)

theorem isclose_eq_eval (t : Tol) (a b : Graph) : Graph.isclose t a b = graphEval t a b := by
  have hp : ∀ x y, Pulse.isclose t x y = pulseEval t x y := fun x y => by
    simp only [Pulse.isclose, pulseEval, weights_eq_eval]
  have hd : ∀ x y, Deme.isclose t x y = demeEval t x y := fun x y => by
    simp only [Deme.isclose, demeEval, weights_eq_eval]
  simp only [Graph.isclose, graphEval, sortBy, hp, hd,
    mergeSort_eq_isort (fun a b d => linCmp_deme.le_trans a b d) (fun a b => linCmp_deme.le_total a b),
    mergeSort_eq_isort (fun a b d => linCmp_migration.le_trans a b d)
      (fun a b => linCmp_migration.le_total a b)]

/-! ### valid graphs meet the distinctness hypotheses -/

theorem valid_names_nodup (g : Graph) (hv : validGraph g = true) : (g.demes.map (·.name)).Nodup := by
  simp only [validGraph, validData, v1, Bool.and_eq_true, decide_eq_true_eq] at hv
  exact hv.2.1.1.1.1.1.1.1.1.1.1.1.2

theorem valid_ancestors_nodup (g : Graph) (hv : validGraph g = true) :
    ∀ d ∈ g.demes, d.ancestors.Nodup := by
  simp only [validGraph, validData, v2, Bool.and_eq_true, List.all_eq_true] at hv
  have h2 := hv.2.1.1.1.1.1.1.1.1.1.1.2
  intro d hd
  obtain ⟨i, hi⟩ := List.mem_iff_getElem?.1 hd
  have := h2 (d, i) (by
    rw [List.mem_iff_getElem?]; exact ⟨i, by simp [List.getElem?_zipIdx, hi]⟩)
  simp only [decide_eq_true_eq] at this
  exact this.1.2

/-! ### concrete graphs for the non-vacuity examples and the counterexamples -/

def c10Epoch (s : ETime) (e n : Q) : Epoch :=
  { startTime := s, endTime := e, startSize := n, endSize := n, sizeFunction := "constant",
    selfingRate := 0, cloningRate := 0 }

def c10A : Deme :=
  { name := "A", description := "root", startTime := .inf, ancestors := [], proportions := [],
    epochs := [c10Epoch .inf 0 100] }
/-- B lives on (40,0] with epochs (40,20] of size 100 and (20,0] of size `n` -/
def c10B (n : Q) : Deme :=
  { name := "B", description := "", startTime := .fin 40, ancestors := ["A"], proportions := [1],
    epochs := [c10Epoch (.fin 40) 20 100, c10Epoch (.fin 20) 0 n] }
/-- the same deme with a single epoch (40,0] -/
def c10B1 : Deme :=
  { name := "B", description := "", startTime := .fin 40, ancestors := ["A"], proportions := [1],
    epochs := [c10Epoch (.fin 40) 0 100] }
def c10C : Deme :=
  { name := "C", description := "", startTime := .fin 30, ancestors := ["A", "B"],
    proportions := [1/4, 3/4], epochs := [c10Epoch (.fin 30) 0 100] }
/-- C with its ancestors listed in the other order -/
def c10C' : Deme :=
  { name := "C", description := "", startTime := .fin 30, ancestors := ["B", "A"],
    proportions := [3/4, 1/4], epochs := [c10Epoch (.fin 30) 0 100] }
def c10M1 : Migration := { source := "A", dest := "B", startTime := .fin 40, endTime := 10, rate := 1/4 }
def c10M2 : Migration := { source := "B", dest := "A", startTime := .fin 20, endTime := 0, rate := 1/8 }
/-- pulse from A and B into C at time 5 with proportions `p`, `q` -/
def c10P1 (p q : Q) : Pulse := { sources := ["A", "B"], dest := "C", time := 5, proportions := [p, q] }
def c10P2 : Pulse := { sources := ["A"], dest := "B", time := 3, proportions := [1/10] }

def c10Graph : Graph :=
  { description := "model", timeUnits := "generations", generationTime := 1, doi := ["doi:1"],
    metadata := [], demes := [c10A, c10B 1000, c10C], migrations := [c10M1, c10M2],
    pulses := [c10P1 (1/4) (1/4), c10P2], index := [("A", 0), ("B", 1), ("C", 2)] }

/-- exact comparison: both tolerances zero -/
def c10Exact : Tol := ⟨0, 0⟩

/-- `c10Graph` with 1e-13 of the first pulse's proportion moved from B to A -/
def c10GraphShift : Graph :=
  { c10Graph with pulses := [c10P1 (1/4 + 1/10000000000000) (1/4 - 1/10000000000000), c10P2] }

theorem pairsClose_mem {t : Tol} {xs ys : List (String × Q)} (h : PairsClose t xs ys)
    {x : String × Q} (hx : x ∈ xs) : ∃ y ∈ ys, x.1 = y.1 ∧ WithinTol t x.2 y.2 := by
  obtain ⟨zs, hp, hz⟩ := h
  obtain ⟨z, hz', hc⟩ := forall₂_mem_left ((pointwise_iff_forall₂ _ _ _).1 hz) hx
  exact ⟨z, hp.mem_iff.1 hz', hc⟩

/-- Regression for the repaired defect (`Pulse.assert_close` used to compare the per-source
proportions with the default tolerances whatever tolerances were requested): with exact
comparison requested (`rel_tol = abs_tol = 0`) the two valid graphs whose first pulse has
proportions (1/4, 1/4) and (1/4 + 1e-13, 1/4 - 1e-13) — equal sums — are not close, while they
are close under the default tolerances. -/
theorem isclose_exact_detects_shift :
    validGraph c10Graph = true ∧ validGraph c10GraphShift = true
    ∧ Graph.isclose c10Exact c10Graph c10GraphShift = false
    ∧ Graph.isclose defaultTol c10Graph c10GraphShift = true := by
  refine ⟨by decide +kernel, by decide +kernel, by rw [isclose_eq_eval]; decide +kernel,
    by rw [isclose_eq_eval]; decide +kernel⟩

/-- two demes with the same name (not a valid graph) -/
def c10DupA (desc : String) (n : Q) : Deme :=
  { name := "A", description := desc, startTime := .inf, ancestors := [], proportions := [],
    epochs := [c10Epoch .inf 0 n] }
def c10Dup : Graph :=
  { c10Graph with demes := [c10DupA "x" 100, c10DupA "y" 200], migrations := [], pulses := [],
                  index := [("A", 1)] }

/-- Without pairwise distinct deme names the descriptions matter: they are part of the sort
key, so exchanging the descriptions of two demes called "A" re-pairs them. -/
theorem isclose_ignores_counterexample :
    ∃ ds, Pointwise SameUpToDescription c10Dup.demes ds
      ∧ Graph.isclose defaultTol c10Dup c10Dup = true
      ∧ Graph.isclose defaultTol { c10Dup with demes := ds } c10Dup = false := by
  refine ⟨[c10DupA "y" 100, c10DupA "x" 200], (pointwise_iff_forall₂ _ _ _).2 ?_,
    isclose_refl _ _, by rw [isclose_eq_eval]; decide +kernel⟩
  exact .cons (by unfold SameUpToDescription; decide +kernel)
    (.cons (by unfold SameUpToDescription; decide +kernel) .nil)

/-- a deme that lists the ancestor "A" twice (not a valid graph) -/
def c10TwiceC (p q : Q) : Deme :=
  { name := "C", description := "", startTime := .fin 30, ancestors := ["A", "A"],
    proportions := [p, q], epochs := [c10Epoch (.fin 30) 0 100] }
def c10Twice : Graph := { c10Graph with demes := [c10A, c10B 1000, c10TwiceC (1/4) (3/4)] }

/-- Without pairwise distinct ancestor names the order of the ancestors matters: the sort by
name is stable, so equal names keep their proportions in the listed order. -/
theorem isclose_perm_ancestors_counterexample :
    ∃ ds, Pointwise SameUpToAncestorOrder c10Twice.demes ds
      ∧ (c10Twice.demes.map (·.name)).Nodup
      ∧ Graph.isclose defaultTol c10Twice c10Twice = true
      ∧ Graph.isclose defaultTol { c10Twice with demes := ds } c10Twice = false := by
  refine ⟨[c10A, c10B 1000, c10TwiceC (3/4) (1/4)], (pointwise_iff_forall₂ _ _ _).2 ?_,
    by decide +kernel, isclose_refl _ _, by rw [isclose_eq_eval]; decide +kernel⟩
  refine .cons ⟨rfl, rfl, rfl, rfl, rfl, rfl, .refl _⟩
    (.cons ⟨rfl, rfl, rfl, rfl, rfl, rfl, .refl _⟩ (.cons ⟨rfl, rfl, rfl, rfl, rfl, rfl, ?_⟩ .nil))
  exact List.Perm.swap _ _ _

end Demes.Proofs
