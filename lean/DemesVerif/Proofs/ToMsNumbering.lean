/-
  C07 — numbering: the population numbers `toMs` writes into the `-ej` that follows each `-es`
  are the numbers ms gives the populations it creates ("current count + 1"), when the command
  is read in order — stability of the two sorts.
-/
import DemesVerif.Proofs.ToMsMig
set_option linter.unusedSimpArgs false
set_option linter.unusedVariables false
namespace Demes.Proofs.ToMs
open Demes Demes.Ms Demes.Spec Demes.Spec.C07 Demes.Proofs.RV

/-! ### the `-es` / `-ej` options of the emitted command -/

theorem isSplitJoin_scale (N0 : Q) (e : Event Growth) : isSplitJoin (scaleEv N0 e) = isSplitJoin e := by
  cases e <;> rfl

theorem not_splitJoin_of_size {e : Event Growth} (h : isSizeKind e = true) : isSplitJoin e = false := by
  cases e <;> simp [isSizeKind] at h <;> rfl

theorem not_splitJoin_of_mig {e : Event Growth} (h : isMigKind e = true) : isSplitJoin e = false := by
  cases e <;> simp [isMigKind] at h <;> rfl

def leKey (a b : DemeOrPulse) : Bool := decide (a.key ≤ b.key)

theorem totalPre_leKey : TotalPre leKey where
  total a b := by
    simp only [leKey, decide_eq_true_eq]
    by_cases h : a.key ≤ b.key
    · exact Or.inl h
    · right
      have : ¬ a.key < b.key := fun hlt => h (et_le_of_lt hlt)
      have h2 := et_le_of_not_lt this
      exact h2
  trans a b c h1 h2 := by
    simp only [leKey, decide_eq_true_eq] at *
    exact et_le_trans h1 h2

/-- every ancestry option carries the (finite) sort key of the deme or pulse it comes from -/
theorem ancEvs_key {g : Graph} {ev : Event Growth} :
    ∀ (xs : List DemeOrPulse) (n : Nat), (∀ x ∈ xs, DpOk g x) → ev ∈ ancEvs g n xs →
      ∃ x ∈ xs, ∃ q, x.key = .fin q ∧ ev.t = .fin q := by
  intro xs n hok h
  rcases mem_ancEvs xs n h with ⟨d, n', hd, h'⟩ | ⟨p, n', hp, h'⟩
  · have hdo : DemeAncOk g d := hok _ hd
    have hne : d.ancestors ≠ [] := by
      intro h0; rw [h0] at h'; simp [ancDemeEvs] at h'
    obtain ⟨t, hst, _⟩ := hdo.start hne
    refine ⟨_, hd, t, hst, ?_⟩
    rcases mem_ancDemeEvs _ _ h' with ⟨k, rfl⟩ | ⟨i, j, rfl, _, _⟩ <;> simp [Event.t, hst, Num.ofETime]
  · refine ⟨_, hp, p.time, rfl, ?_⟩
    simp only [pulseEvs, List.mem_cons, List.not_mem_nil, or_false] at h'
    rcases h' with rfl | rfl <;> rfl

theorem sorted_ancEvs {g : Graph} :
    ∀ (xs : List DemeOrPulse) (n : Nat), (∀ x ∈ xs, DpOk g x) → Sorted leKey xs → Sorted byQ (ancEvs g n xs)
  | [], _, _, _ => List.Pairwise.nil
  | x :: r, n, hok, hs => by
    have hs' := List.pairwise_cons.1 hs
    have hokr : ∀ y ∈ r, DpOk g y := fun y hy => hok y (List.mem_cons_of_mem _ hy)
    -- the options of the head all carry the head's key
    have hhead : ∀ (L : List (Event Growth)) (n' : Nat), (∀ ev ∈ L, ∃ q, x.key = .fin q ∧ ev.t = .fin q) →
        Sorted byQ (ancEvs g n' r) → Sorted byQ (L ++ ancEvs g n' r) := by
      intro L n' hL hr
      unfold Sorted
      rw [List.pairwise_append]
      refine ⟨?_, hr, ?_⟩
      · rw [List.pairwise_iff_forall_sublist]
        intro a b hab
        obtain ⟨qa, hka, hta⟩ := hL a (hab.subset List.mem_cons_self)
        obtain ⟨qb, hkb, htb⟩ := hL b (hab.subset (List.mem_cons_of_mem _ List.mem_cons_self))
        rw [hka] at hkb; cases hkb
        simp [byQ, evT, hta, htb]
      · intro a ha b hb
        obtain ⟨qa, hka, hta⟩ := hL a ha
        obtain ⟨y, hy, qb, hkb, htb⟩ := ancEvs_key r n' hokr hb
        have := hs'.1 y hy
        simp only [leKey, decide_eq_true_eq, hka, hkb] at this
        simp only [byQ, evT, hta, htb, decide_eq_true_eq]
        exact this
    cases x with
    | deme d =>
      rw [ancEvs]
      apply hhead _ _ _ (sorted_ancEvs r _ hokr hs'.2)
      intro ev hev
      obtain ⟨x, hx, q, hk, ht⟩ := ancEvs_key [.deme d] n (fun y hy => by
        simp only [List.mem_singleton] at hy; subst hy; exact hok _ List.mem_cons_self) (by
        rw [ancEvs, ancEvs, List.append_nil]; exact hev)
      simp only [List.mem_singleton] at hx; subst hx
      exact ⟨q, hk, ht⟩
    | pulse p =>
      rw [ancEvs]
      apply hhead _ _ _ (sorted_ancEvs r _ hokr hs'.2)
      intro ev hev
      refine ⟨p.time, rfl, ?_⟩
      simp only [pulseEvs, List.mem_cons, List.not_mem_nil, or_false] at hev
      rcases hev with rfl | rfl <;> rfl

theorem sorted_dps (g : Graph) : Sorted leKey (dps g) := sorted_sortBy totalPre_leKey _

/-- the `-es` / `-ej` options, in command-line order, are the scaled options of the walk over
`sorted(reversed(pulses) + demes)` -/
theorem finalEvs_filter_splitJoin {g : Graph} (c : Clauses g) (hx : MsExpressible g = true) {N0 : Q} (hN : 0 < N0) :
    (finalEvs g N0).filter isSplitJoin = (ancEvs g g.demes.length (dps g)).map (scaleEv N0) := by
  rw [finalEvs_eq c hx, List.filter_map]
  congr 1
  have h1 : (sortBy byQ (rawEvs g N0)).filter (isSplitJoin ∘ scaleEv N0)
      = (sortBy byQ (rawEvs g N0)).filter isSplitJoin := by
    apply List.filter_congr
    intro x _
    exact isSplitJoin_scale N0 x
  rw [h1, sortBy_filter totalPre_byQ]
  have h2 : (rawEvs g N0).filter isSplitJoin = ancEvs g g.demes.length (dps g) := by
    unfold rawEvs
    rw [List.filter_append, List.filter_append]
    have hs : (sizeEvsAll N0 g.demes.zipIdx).filter isSplitJoin = [] := by
      rw [List.filter_eq_nil_iff]
      intro x hx'
      simp [not_splitJoin_of_size (sizeKind_sizeEvsAll hx')]
    have hm : (migEvs N0 g).filter isSplitJoin = [] := by
      rw [List.filter_eq_nil_iff]
      intro x hx'
      simp [not_splitJoin_of_mig (migKind_migEvs hx')]
    have ha : (ancEvs g g.demes.length (dps g)).filter isSplitJoin = ancEvs g g.demes.length (dps g) := by
      rw [List.filter_eq_self]
      intro x hx'
      exact splitJoin_ancEvs hx'
    rw [hs, hm, ha]; simp
  rw [h2]
  exact sortBy_of_sorted _ (sorted_ancEvs _ _ (dpOk_of_valid c hx) (sorted_dps g))

/-! ### the walk numbers the new populations as ms does -/

theorem idOf_le {g : Graph} {name : String} (h : (g.demeId? name).isSome = true) :
    idOf g name ≤ (g.demes.length : Int) := by
  unfold idOf
  cases hj : g.demeId? name with
  | none => rw [hj] at h; cases h
  | some j =>
    have := lt_of_demeId hj
    simp only [Option.getD_some]
    omega

theorem wellNumbered_join (n0 n : Nat) (o : String) (t : Num) (i j : Int) (r : List (Event Growth)) :
    wellNumbered n0 n (.join o t i j :: r)
      = (decide (1 ≤ i) && decide (i ≤ (n0 : Int)) && decide (1 ≤ j) && decide (j ≤ (n0 : Int)) && wellNumbered n0 n r) := by
  rw [wellNumbered]

theorem wellNumbered_split (n0 n : Nat) (o o' : String) (t t' : Num) (i i' j : Int) (p : Num) (r : List (Event Growth)) :
    wellNumbered n0 n (.split o t i p :: .join o' t' i' j :: r)
      = (t == t' && i' == ((n : Int) + 1) && decide (1 ≤ i) && decide (i ≤ (n0 : Int))
        && decide (1 ≤ j) && decide (j ≤ (n0 : Int)) && wellNumbered n0 (n + 1) r) := by
  rw [wellNumbered]

theorem wellNumbered_ancDeme {g : Graph} {d : Deme} (h : DemeAncOk g d) (N0 : Q) :
    ∀ (aks : List (String × Nat)) (n : Nat) (rest : List (Event Growth)),
      (∀ ak ∈ aks, ak.1 ∈ d.ancestors) →
      wellNumbered g.demes.length (ancDemeCount d n aks) rest = true →
      wellNumbered g.demes.length n ((ancDemeEvs g d n aks).map (scaleEv N0) ++ rest) = true
  | [], n, rest, _, hr => by simpa [ancDemeEvs, ancDemeCount] using hr
  | (a, k) :: r, n, rest, hmem, hr => by
    have ha : a ∈ d.ancestors := hmem (a, k) List.mem_cons_self
    have hmem' : ∀ ak ∈ r, ak.1 ∈ d.ancestors := fun ak hak => hmem ak (List.mem_cons_of_mem _ hak)
    have b1 := idOf_pos g d.name
    have b2 := idOf_le h.me
    have b3 := idOf_pos g a
    have b4 := idOf_le (h.anc a ha)
    have b1' : 1 ≤ idOf g d.name := by omega
    have b3' : 1 ≤ idOf g a := by omega
    by_cases hl : k = d.ancestors.length - 1
    · simp only [ancDemeEvs, ancDemeCount, hl, if_true] at hr ⊢
      simp only [List.map_cons, List.cons_append, scaleEv, Event.setT]
      rw [wellNumbered_join]
      simp only [b1', b2, b3', b4, decide_true, Bool.true_and]
      exact wellNumbered_ancDeme h N0 r n rest hmem' hr
    · simp only [ancDemeEvs, ancDemeCount, hl, if_false] at hr ⊢
      simp only [List.map_cons, List.cons_append, scaleEv, Event.setT, Event.t]
      rw [wellNumbered_split]
      simp only [b1', b2, b3', b4, decide_true, Bool.true_and, beq_self_eq_true, Bool.and_true]
      have : (((n + 1 : Nat) : Int) == (n : Int) + 1) = true := by simp
      rw [this, Bool.true_and]
      exact wellNumbered_ancDeme h N0 r (n + 1) rest hmem' hr

theorem wellNumbered_ancEvs {g : Graph} (N0 : Q) :
    ∀ (xs : List DemeOrPulse) (n : Nat), (∀ x ∈ xs, DpOk g x) →
      wellNumbered g.demes.length n ((ancEvs g n xs).map (scaleEv N0)) = true
  | [], _, _ => rfl
  | .deme d :: r, n, hok => by
    rw [ancEvs, List.map_append]
    exact wellNumbered_ancDeme (hok _ List.mem_cons_self) N0 _ n _ (fun ak hak => (mem_zipIdx_anc hak).1)
      (wellNumbered_ancEvs N0 r _ (fun y hy => hok y (List.mem_cons_of_mem _ hy)))
  | .pulse p :: r, n, hok => by
    have hp : PulseOk g p := hok _ List.mem_cons_self
    obtain ⟨s, hs, hsid⟩ := hp.src
    have b1 := idOf_pos g p.dest
    have b2 := idOf_le hp.dest
    have b3 := idOf_pos g s
    have b4 := idOf_le hsid
    have b1' : 1 ≤ idOf g p.dest := by omega
    have b3' : 1 ≤ idOf g s := by omega
    rw [ancEvs, List.map_append]
    simp only [pulseEvs, List.map_cons, List.map_nil, List.cons_append, List.nil_append, scaleEv, Event.setT, Event.t, hs,
      List.headD_cons]
    rw [wellNumbered_split]
    simp only [b1', b2, b3', b4, decide_true, Bool.true_and, beq_self_eq_true, Bool.and_true]
    have : (((n + 1 : Nat) : Int) == (n : Int) + 1) = true := by simp
    rw [this, Bool.true_and]
    exact wellNumbered_ancEvs N0 r _ (fun y hy => hok y (List.mem_cons_of_mem _ hy))

/-- Statement of `Theorems.toMs_numbering`. -/
theorem toMs_numbering {graph : Graph} (hv : validGraph graph = true) (hx : MsExpressible graph = true)
    {N0 : Q} (hN : 0 < N0) {samples : Option (List Int)} (hs : samplesOk graph samples = true) :
    ∃ c cmd, toMs graph N0 samples = .ok c ∧ parseCmd c = some cmd ∧
      wellNumbered (inGenerations graph).demes.length (inGenerations graph).demes.length
        (cmd.events.filter isSplitJoin) = true := by
  have c := clauses_of_valid (InGen.inGenerations_valid graph hv)
  have hx' : MsExpressible (inGenerations graph) = true := by rw [expr_inGen]; exact hx
  have hs' : samplesOk (inGenerations graph) samples = true := by rw [samplesOk_inGen]; exact hs
  refine ⟨_, _, toMs_ok_eq hv hx hN hs, parseCmd_cmdOf c hx' hN hs', ?_⟩
  show wellNumbered _ _ ((finalEvs (inGenerations graph) N0).filter isSplitJoin) = true
  rw [finalEvs_filter_splitJoin c hx' hN]
  exact wellNumbered_ancEvs N0 _ _ (dpOk_of_valid c hx')

end Demes.Proofs.ToMs
