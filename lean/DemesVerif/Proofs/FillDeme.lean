/-
  Proofs for C02, part 5 — `Graph._add_deme` (Model `addDemeHeader`): inferred start time,
  ancestors and proportions.
-/
import DemesVerif.Proofs.FillEpoch
namespace Demes.Proofs
open Demes Demes.Obj Demes.Spec

/-- the start-time selection of `addDemeHeader` -/
def hdrStartTime (g : Graph) (stV : Option Value) (ancestors : List String) : Except Err Num :=
  match stV with
  | some v => intOrFloat v
  | none => match ancestors with
    | [] => pure Num.pinf
    | [a] => (getDeme g a) >>= fun d => pure (Num.fin d.endTime)
    | _ => valueErr "field 'start_time' not found, but is required for demes with multiple ancestors"

/-- the proportions selection and validation of `addDemeHeader` -/
def hdrProportions (propV : Option Value) (ancestors : List String) : Except Err (List Q) :=
  match propV with
  | none => pure (if ancestors.length = 1 then [(1 : Q)] else [])
  | some v => do
    let xs ← instList v
    let ns ← xs.mapM intOrFloat
    ns.mapM (fun n => do vUnitInterval n; vPositive n; toQ n)

/-- everything `addDemeHeader` has established when it succeeds -/
theorem addDemeHeader_ok {g : Graph} {nameV descV : Value} {ancV propV stV : Option Value}
    {d : Deme} (h : addDemeHeader g nameV descV ancV propV stV = .ok d) :
    ∃ ancVals startTime,
      nameV = .str d.name ∧ ¬ g.hasName d.name = true ∧
      (match ancV with | none => pure [] | some v => instList v) = Except.ok ancVals ∧
      ancVals.mapM (existingName g) = .ok d.ancestors ∧
      hdrStartTime g stV d.ancestors = .ok startTime ∧
      instStr descV = .ok d.description ∧
      vPositive startTime = .ok () ∧ toETime startTime = .ok d.startTime ∧
      hdrProportions propV d.ancestors = .ok d.proportions ∧
      d.epochs = [] ∧ d.ancestors.length = d.proportions.length := by
  unfold addDemeHeader at h
  extract_lets pv jp1 at h
  split at h
  · rw [pure_bind] at h
    simp -zeta only [jp1] at h
    extract_lets jp3 jp2 at h
    split at h
    · cases h
    · rename_i hname
      simp -zeta only [jp2] at h
      obtain ⟨ancVals, hanc, h'⟩ : ∃ ancVals,
          (match ancV with | none => pure [] | some v => instList v) = Except.ok ancVals
            ∧ jp3 ancVals = .ok d := by
        cases ancV with
        | none => exact ⟨_, rfl, h⟩
        | some v =>
          obtain ⟨a, ha, h⟩ := bind_ok h
          exact ⟨a, ha, h⟩
      clear h
      simp -zeta only [jp3] at h'
      obtain ⟨ancestors, hancs, h⟩ := bind_ok h'
      clear h'
      extract_lets jp4 at h
      obtain ⟨startTime, hst, h'⟩ : ∃ startTime,
          hdrStartTime g stV ancestors = Except.ok startTime ∧ jp4 startTime = .ok d := by
        unfold hdrStartTime
        cases stV with
        | some v =>
          obtain ⟨a, ha, h⟩ := bind_ok h
          exact ⟨a, ha, h⟩
        | none =>
          match ancestors, h with
          | [], h => exact ⟨_, rfl, h⟩
          | [a], h =>
            obtain ⟨a, ha, h⟩ := bind_ok h
            exact ⟨_, by simp only [ha]; rfl, h⟩
          | _ :: _ :: _, h => cases h
      clear h
      simp -zeta only [jp4] at h'
      extract_lets jp5 jp6 at h'
      clear jp1 jp2 jp3 jp4
      split at h'
      · cases h'
      simp -zeta only [jp6] at h'
      obtain ⟨_, hforM, h⟩ := bind_ok h'
      clear h'
      split at h
      · cases h
      simp -zeta only [jp5] at h
      obtain ⟨description, hdesc, h⟩ := bind_ok h
      obtain ⟨_, hpos, h⟩ := bind_ok h
      obtain ⟨st, hst', h⟩ := bind_ok h
      clear jp5 jp6
      extract_lets jp7 jp8 jp9 at h
      split at h
      · cases h
      simp -zeta only [jp9] at h
      split at h
      · cases h
      simp -zeta only [jp8] at h
      obtain ⟨proportions, hprop, h'⟩ : ∃ proportions,
          hdrProportions propV ancestors = Except.ok proportions ∧ jp7 proportions = .ok d := by
        unfold hdrProportions
        cases propV with
        | none => exact ⟨_, rfl, h⟩
        | some v =>
          simp only [pv] at h
          obtain ⟨xs, hxs, h⟩ := bind_ok h
          obtain ⟨ns, hns, h⟩ := bind_ok h
          obtain ⟨qs, hqs, h⟩ := bind_ok h
          refine ⟨qs, ?_, h⟩
          show (instList v >>= fun xs => xs.mapM intOrFloat >>= fun ns =>
            ns.mapM (fun n => do vUnitInterval n; vPositive n; toQ n)) = _
          rw [hxs, ok_bind, hns, ok_bind, hqs]
      clear h jp8 jp9
      simp -zeta only [jp7] at h'
      extract_lets jp10 at h'
      split at h'
      · cases h'
      simp -zeta only [jp10] at h'
      split at h'
      · cases h'
      rename_i hlen
      cases h'
      exact ⟨ancVals, startTime, rfl, hname, hanc, hancs, hst, hdesc, hpos, hst', hprop, rfl,
        Decidable.not_not.1 hlen⟩
  · cases h

/-! ### small inversion lemmas -/

theorem existingName_ok {g : Graph} {v : Value} {s : String} (h : existingName g v = .ok s) :
    v = .str s ∧ g.hasName s = true := by
  cases v with
  | str t =>
    simp only [existingName] at h
    split at h
    · rename_i hn; cases h; exact ⟨rfl, hn⟩
    · cases h
  | _ => cases h

theorem mapM_existingName {g : Graph} {xs : List Value} {names : List String}
    (h : xs.mapM (existingName g) = .ok names) :
    xs = names.map Value.str ∧ ∀ n ∈ names, g.hasName n = true := by
  induction xs generalizing names with
  | nil =>
    rw [List.mapM_nil] at h
    cases h
    exact ⟨rfl, fun n hn => by cases hn⟩
  | cons x xs ih =>
    rw [List.mapM_cons] at h
    obtain ⟨s, hs, h⟩ := bind_ok h
    obtain ⟨ns, hns, h⟩ := bind_ok h
    cases h
    obtain ⟨rfl, hx⟩ := existingName_ok hs
    obtain ⟨rfl, hall⟩ := ih hns
    refine ⟨rfl, fun n hn => ?_⟩
    rcases List.mem_cons.1 hn with rfl | hn
    · exact hx
    · exact hall n hn

theorem instList_ok {v : Value} {xs : List Value} (h : instList v = .ok xs) : v = .list xs := by
  cases v with
  | list ys => cases h; rfl
  | _ => cases h

theorem instStr_ok {v : Value} {s : String} (h : instStr v = .ok s) : v = .str s := by
  cases v with
  | str t => cases h; rfl
  | _ => cases h

theorem getDeme_ok {g : Graph} {a : String} {d : Deme} (h : getDeme g a = .ok d) :
    g.deme? a = some d := by
  unfold getDeme at h
  split at h
  · rename_i hd; cases h; exact hd
  · cases h

theorem intOrFloat_num_fin (q : Q) : intOrFloat (.num (.fin q)) = .ok (.fin q) := rfl
theorem intOrFloat_num_pinf : intOrFloat (.num .pinf) = .ok .pinf := rfl

theorem posTime_eq (v : Value) :
    posTime v = intOrFloat v >>= fun n => vPositive n >>= fun _ => toETime n := rfl

/-- the two-pass validation of explicit proportions accepts exactly what the one-pass
`unit_interval_exclusive_lo` validation accepts -/
theorem checkProportion_ok {n : Num} {q : Q}
    (h : (do vUnitInterval n; vPositive n; toQ n) = Except.ok q) :
    (do vUnitIntervalExLo n; toQ n) = Except.ok q := by
  cases n with
  | fin r =>
    obtain ⟨_, h1, h⟩ := bind_ok h
    obtain ⟨_, h2, h⟩ := bind_ok h
    have hpos : ¬ r ≤ 0 := by
      intro hle
      simp [vPositive, Num.le, Num.zero, hle] at h2
      cases h2
    have hunit : 0 ≤ r ∧ r ≤ 1 := by
      simp only [vUnitInterval, Num.le, Num.zero, Num.one, Bool.and_eq_true,
        decide_eq_true_eq] at h1
      split at h1
      · assumption
      · cases h1
    have : (Num.lt Num.zero (Num.fin r) && Num.le (Num.fin r) Num.one) = true := by
      simp only [Num.lt, Num.le, Num.zero, Num.one, Bool.and_eq_true, decide_eq_true_eq]
      exact ⟨Rat.not_le.1 hpos, hunit.2⟩
    simp only [vUnitIntervalExLo, this, if_true]
    exact h
  | pinf =>
    obtain ⟨_, h1, h⟩ := bind_ok h
    cases h1
  | ninf =>
    obtain ⟨_, h1, h⟩ := bind_ok h
    cases h1
  | nan =>
    obtain ⟨_, h1, h⟩ := bind_ok h
    cases h1

theorem unitExLoQ_eq (v : Value) :
    unitExLoQ v = intOrFloat v >>= fun n => (do vUnitIntervalExLo n; toQ n) := rfl

theorem mapM_proportions {xs : List Value} {ns : List Num} {qs : List Q}
    (h1 : xs.mapM intOrFloat = .ok ns)
    (h2 : ns.mapM (fun n => do vUnitInterval n; vPositive n; toQ n) = Except.ok qs) :
    xs.mapM unitExLoQ = .ok qs := by
  induction xs generalizing ns qs with
  | nil =>
    rw [List.mapM_nil] at h1
    cases h1
    rw [List.mapM_nil] at h2
    cases h2
    rfl
  | cons x xs ih =>
    rw [List.mapM_cons] at h1
    obtain ⟨n, hn, h1⟩ := bind_ok h1
    obtain ⟨ns', hns', h1⟩ := bind_ok h1
    cases h1
    rw [List.mapM_cons] at h2
    obtain ⟨q, hq, h2⟩ := bind_ok h2
    obtain ⟨qs', hqs', h2⟩ := bind_ok h2
    cases h2
    rw [List.mapM_cons, unitExLoQ_eq, hn, ok_bind, checkProportion_ok hq, ok_bind, ih hns' hqs']
    rfl

theorem mapM_one : List.mapM unitExLoQ [Value.num (Num.fin 1)] = Except.ok [(1 : Q)] := by
  have h : unitExLoQ (Value.num (Num.fin 1)) = Except.ok (1 : Q) := by
    have : (Num.lt Num.zero (Num.fin 1) && Num.le (Num.fin 1) Num.one) = true := by decide +kernel
    rw [unitExLoQ_eq, intOrFloat_num_fin, ok_bind]
    simp only [vUnitIntervalExLo, this, if_true]
    rfl
  rw [List.mapM_cons, h, ok_bind, List.mapM_nil]
  rfl

/-! ### **C02 (4)** the deme header -/

/-- On success of `_add_deme`:
* the ancestors are the list in force (else `[]`), all naming demes already in the graph;
* the start time is the validated raw start time of the Spec: the one in force, else the single
  ancestor's end time, else infinity without ancestors;
* the proportions are the validated raw proportions of the Spec: the ones in force, else `[1]`
  for a single ancestor, else `[]`;
* name and description are the given strings, and there are no epochs yet. -/
theorem addDemeHeader_spec {g : Graph} {nameV descV : Value} {ancV propV stV : Option Value}
    {d : Deme} (h : addDemeHeader g nameV descV ancV propV stV = .ok d) :
    nameV = .str d.name ∧ descV = .str d.description ∧ d.epochs = [] ∧
    (specAncestors ancV = .list (d.ancestors.map Value.str)
      ∧ ∀ a ∈ d.ancestors, g.hasName a = true) ∧
    (∃ v, specStartTime g stV d.ancestors = some v ∧ posTime v = .ok d.startTime) ∧
    (∃ ps, specProportions propV d.ancestors = .list ps ∧ ps.mapM unitExLoQ = .ok d.proportions) := by
  obtain ⟨ancVals, startTime, hname, _, hanc, hancs, hst, hdesc, hpos, hst', hprop, hep, _⟩ :=
    addDemeHeader_ok h
  obtain ⟨rfl, hall⟩ := mapM_existingName hancs
  refine ⟨hname, instStr_ok hdesc, hep, ⟨?_, hall⟩, ?_, ?_⟩
  · cases ancV with
    | none =>
      have heq : [] = List.map Value.str d.ancestors := Except.ok.inj hanc
      rw [← heq]; rfl
    | some v => exact instList_ok hanc
  · unfold hdrStartTime at hst
    unfold specStartTime
    cases stV with
    | some v =>
      refine ⟨v, rfl, ?_⟩
      rw [posTime_eq]
      simp only at hst
      rw [hst, ok_bind, hpos, ok_bind, hst']
    | none =>
      simp only at hst ⊢
      cases hd : d.ancestors with
      | nil =>
        rw [hd] at hst
        have hs : Num.pinf = startTime := Except.ok.inj hst
        subst hs
        refine ⟨_, rfl, ?_⟩
        rw [posTime_eq, intOrFloat_num_pinf, ok_bind, hpos, ok_bind, hst']
      | cons a as =>
        cases as with
        | nil =>
          rw [hd] at hst
          obtain ⟨dm, hdm, hst⟩ := bind_ok hst
          have hs : Num.fin dm.endTime = startTime := Except.ok.inj hst
          subst hs
          refine ⟨.num (.fin dm.endTime), by simp only [getDeme_ok hdm, Option.map_some], ?_⟩
          rw [posTime_eq, intOrFloat_num_fin, ok_bind, hpos, ok_bind, hst']
        | cons b bs =>
          rw [hd] at hst
          cases hst
  · unfold hdrProportions at hprop
    unfold specProportions
    cases propV with
    | none =>
      simp only at hprop ⊢
      by_cases hl : d.ancestors.length = 1
      · simp only [hl, if_true] at hprop ⊢
        rw [← Except.ok.inj hprop]
        exact ⟨_, rfl, mapM_one⟩
      · simp only [hl, if_false] at hprop ⊢
        rw [← Except.ok.inj hprop]
        exact ⟨_, rfl, rfl⟩
    | some v =>
      obtain ⟨xs, hxs, hprop⟩ := bind_ok hprop
      obtain ⟨ns, hns, hprop⟩ := bind_ok hprop
      exact ⟨xs, instList_ok hxs, mapM_proportions hns hprop⟩

/-! ### one iteration of the deme loop -/

/-- everything one iteration of the deme loop has established when it succeeds -/
theorem resolveDeme_ok {DD GE : Obj} {g g' : Graph} {demeData : Obj}
    (h : resolveDeme DD GE g demeData = .ok g') :
    ∃ nameV d ld L es eps,
      lookup "name" demeData = some nameV ∧
      checkAllowed demeData allowedDemeInner = .ok () ∧
      addDemeHeader g nameV
        ((lookup "description" (insertDefaults demeData DD)).getD (.str ""))
        (lookupNN "ancestors" (insertDefaults demeData DD))
        (lookupNN "proportions" (insertDefaults demeData DD))
        (lookupNN "start_time" (insertDefaults demeData DD)) = .ok d ∧
      popObject (insertDefaults demeData DD) "defaults" = .ok ld ∧
      popObject ld "epoch" = .ok L ∧
      popObjList (insertDefaults demeData DD) "epochs" (some [[]]) = .ok es ∧
      resolveEpochs d.startTime (update GE L) es = .ok eps ∧
      g'.demes = g.demes ++ [{ d with epochs := eps }] := by
  unfold resolveDeme at h
  extract_lets dd jp1 at h
  split at h
  · rename_i nameV hname
    rw [pure_bind] at h
    simp -zeta only [jp1] at h
    obtain ⟨_, hca, h⟩ := bind_ok h
    obtain ⟨d, hd, h⟩ := bind_ok h
    obtain ⟨ld, hld, h⟩ := bind_ok h
    obtain ⟨_, hca2, h⟩ := bind_ok h
    obtain ⟨L, hL, h⟩ := bind_ok h
    obtain ⟨_, hcd, h⟩ := bind_ok h
    extract_lets ED jp2 at h
    split at h
    · cases h
    simp -zeta only [jp2] at h
    obtain ⟨es, hes, h⟩ := bind_ok h
    extract_lets jp3 at h
    split at h
    · cases h
    simp -zeta only [jp3] at h
    obtain ⟨eps, heps, h⟩ := bind_ok h
    cases h
    exact ⟨nameV, d, ld, L, es, eps, hname, hca, hd, hld, hL, hes, heps, rfl⟩
  · cases h

/-- **C02 (3)+(4) together.** One successful iteration of the deme loop appends one deme `d` whose
header fields are those the Spec prescribes from the values in force (explicit field, else
`defaults.deme`; `null` counting as omitted) and whose epochs are the Spec's resolution of the
written epochs `es` (`[{}]` if there are none) under the deme-level and top-level
`defaults.epoch`. -/
theorem resolveDeme_spec {DD GE : Obj} {g g' : Graph} {demeData : Obj}
    (h : resolveDeme DD GE g demeData = .ok g')
    (hnd : ∀ ld L, popObject (insertDefaults demeData DD) "defaults" = .ok ld →
      popObject ld "epoch" = .ok L → (keys L).Nodup) :
    ∃ d ld L es,
      g'.demes = g.demes ++ [d] ∧
      lookup "name" demeData = some (.str d.name) ∧
      popObject (insertDefaults demeData DD) "defaults" = .ok ld ∧
      popObject ld "epoch" = .ok L ∧
      popObjList (insertDefaults demeData DD) "epochs" (some [[]]) = .ok es ∧
      specAncestors (effectiveNN demeData DD [] "ancestors") = .list (d.ancestors.map Value.str) ∧
      (∃ v, specStartTime g (effectiveNN demeData DD [] "start_time") d.ancestors = some v
        ∧ posTime v = .ok d.startTime) ∧
      (∃ ps, specProportions (effectiveNN demeData DD [] "proportions") d.ancestors = .list ps
        ∧ ps.mapM unitExLoQ = .ok d.proportions) ∧
      EpochsResolveTo d.startTime es L GE d.epochs := by
  obtain ⟨nameV, d, ld, L, es, eps, hname, _, hd, hld, hL, hes, heps, hg⟩ := resolveDeme_ok h
  obtain ⟨hn, _, _, ⟨hanc, _⟩, hst, hprop⟩ := addDemeHeader_spec hd
  rw [lookupNN_insertDefaults] at hanc hst hprop
  refine ⟨{ d with epochs := eps }, ld, L, es, hg, hn ▸ hname, hld, hL, hes, hanc, hst, hprop, ?_⟩
  exact resolveEpochs_spec d.startTime GE L es eps (hnd ld L hld hL) heps

end Demes.Proofs
