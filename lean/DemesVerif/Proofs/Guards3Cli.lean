/-
  Support for `Theorems/TablesGuardsCli.lean` (C19).  Nothing here depends on `Generated/`.

  The bodies of `ParseCommand.__call__`, `MsCommand.__call__` and `cli` of demes/__main__.py as terms of
  `Cli.Prog.Stmt` / `Cli.Prog.Top` (`progParse`, `progMs`, `progCli`) and the proofs that the Model's
  `parse`, `msCommand`, `cli`, `lookLoop` (`Model/Cli.lean`) are their meaning (`Model/CliProg.lean`).
-/
import DemesVerif.Model.CliProg
namespace Demes.Proofs.Guards3
open Demes Demes.Cli Demes.Cli.Prog

/-! ### the terms -/

def progParse : Stmt :=
  .seq (.ite .argsJson (.setFmt .json) (.ite .argsMsIsNotNone (.setFmt .ms) (.setFmt .yaml)))
    (.seq (.ite (.and .argsMsTruthy .argsSimplified) .skip .skip)
      (.seq .loadAndCount
        (.ite (.numDocsEq 0) .skip
          (.ite (.numDocsEq 1)
            (.seq .nextGraph (.ite .argsMsIsNotNone (.printToMs .argsMs) (.dump .var .args)))
            (.seq (.ite (.fmtNe .yaml) .raiseRuntime .skip) (.dumpAll .args))))))

def progMs : Stmt := .seq (.buildGraph .argsReferenceSize) (.dump .default .default)

def progCli : Top :=
  .seq .getParser (.seq .parseArgs (.seq (.ifNoSubcommand (.seq .printHelp (.exit 1))) .dispatch))

/-- `--json` and `--ms` exclude each other -/
def exclusiveGroups : List (List String) := [["json", "ms"]]

def dispatchTable : List (String × String) := [("parse", "ParseCommand"), ("ms", "MsCommand")]

/-! ### `ParseCommand.__call__` -/

theorem finishSt_error (o : Outcome) : finishSt (.error o) = o := rfl

theorem finishSt_afterSt (st : St) (o : Outcome) (h : st.printed = []) : finishSt (afterSt st o) = o := by
  obtain ⟨p, e⟩ := o
  by_cases he : e = .exit0 <;> simp [afterSt, finishSt, he, h]

theorem finish_after_nil (o : Outcome) : finish (after [] o) = o := by
  obtain ⟨p, e⟩ := o
  by_cases he : e = .exit0 <;> simp [after, finish, he]

theorem finishSt_libCall (I : Input) (st : St) (c : Call) (h : st.printed = []) :
    finishSt (libCall I st c) = run1 I.lib c := by
  by_cases hl : I.lib c = true <;> simp [libCall, run1, finishSt, hl, h]

theorem run_progParse (I : Input) : run I progParse = parse I.lib I.flags I.docs := by
  obtain ⟨lib, ⟨json, ms, simplified⟩, docs, built, dflt⟩ := I
  unfold run progParse parse
  cases h : loadAndCount docs with
  | none => cases json <;> cases ms <;> simp [exec, evalTest, h, finishSt]
  | some nc =>
    obtain ⟨n, c⟩ := nc
    match n with
    | 0 => cases json <;> cases ms <;> simp [exec, evalTest, h, finishSt]
    | 1 =>
      cases hn : c.next with
      | stop => cases json <;> cases ms <;> simp [exec, evalTest, h, hn, finishSt]
      | raise => cases json <;> cases ms <;> simp [exec, evalTest, h, hn, finishSt]
      | yield g rest =>
        cases json <;> cases ms <;>
          simp [exec, evalTest, h, hn, finishSt_libCall, outputFormat, SimplArg.eval]
    | n + 2 =>
      cases json <;> cases ms <;>
        simp [exec, evalTest, h, outputFormat, SimplArg.eval, finishSt_afterSt, finishSt_error]

/-! ### `MsCommand.__call__` -/

theorem run_progMs (I : Input) (hf : I.defaults.dumpFormat = .yaml) (hs : I.defaults.dumpSimplified = true) :
    run I progMs = msCommand I.lib I.built := by
  obtain ⟨lib, f, docs, built, dflt⟩ := I
  simp only at hf hs
  unfold run progMs msCommand
  cases built with
  | fail => simp [exec, finishSt]
  | ok g => simp [exec, finishSt_libCall, SimplArg.eval, hf, hs]

/-! ### `cli` -/

theorem conflict_exclusiveGroups (f : Flags) : conflict exclusiveGroups f = (f.json && f.ms.isSome) := by
  obtain ⟨json, ms, simplified⟩ := f
  cases json <;> cases ms <;> simp [conflict, exclusiveGroups, flagGiven]

theorem runTop_progCli (lib : Call → Bool) (cmd : Cmd) :
    runTop ⟨exclusiveGroups, dispatchTable, parse lib, msCommand lib⟩ progCli cmd = cli lib cmd := by
  cases cmd with
  | noSub => simp [runTop, progCli, execTop, cli, finish]
  | parse f fileOk docs =>
    simp only [runTop, progCli, execTop, cli, conflict_exclusiveGroups]
    by_cases h1 : (f.json && f.ms.isSome) = true
    · simp [h1, finish]
    · cases fileOk
      · simp [h1, finish]
      · simp [h1, Cmd.name, dispatchTable, finish_after_nil]
  | ms built =>
    simp [runTop, progCli, execTop, cli, Cmd.name, dispatchTable, finish_after_nil]

/-! ### the look-ahead -/

theorem lookLoopWith_eq (brk : Nat → Bool) (h : ∀ n, brk n = decide (n > 1)) (docs : List Doc) (acc : List Nat) :
    lookLoopWith brk docs acc = lookLoop docs acc := by
  induction docs generalizing acc with
  | nil => rfl
  | cons d rest ih =>
    cases d with
    | fail => rfl
    | ok g => simp [lookLoopWith, lookLoop, h, ih]

end Demes.Proofs.Guards3
