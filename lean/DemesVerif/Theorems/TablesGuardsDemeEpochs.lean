/-
  Semantic tie of `Deme._check_epochs` (C01, C03) — the validator attrs runs on `Deme.epochs`.

  `Generated/GuardsDemeEpochs.lean` holds, regenerated on every run, the WHOLE BODY of the method compiled into
  "completes without raising": the `enumerate` loop (`List.zipIdx`), the guard `i > 0`, the read `self.epochs[i - 1]`
  (Python indexing, `pyGetItem?`), the raising test `.end_time != epoch.start_time` (IEEE `!=`).

  Where the Model makes this test: it does NOT make it in the resolver, and neither does the library —
  `Graph._add_deme` constructs `Deme(..., epochs=[])` (pinned below: `guards_deme_check_epochs_at_construction`), so
  the validator sees the empty list, and `Deme._add_epoch` appends epochs that start at the previous epoch's end
  without re-validating.  The Model's `addDemeHeader` / `addEpoch` do the same.  The test itself lives in the
  Spec's clause V5 (`Spec.contiguous`).  So the tie is stated as an equivalence on the data that reaches the
  method: for ALL epoch lists the generated function is the alignment test `epochsAligned`
  (`guards_tie_deme_check_epochs`), `contiguous` is exactly "first epoch starts at the deme's start ∧ every epoch
  strictly descends ∧ `epochsAligned`" (`guards_deme_check_epochs_is_v5_alignment`), and every deme of a valid graph —
  hence of every graph the Model's resolver returns — passes the generated function
  (`guards_deme_check_epochs_valid`, `guards_deme_check_epochs_resolved`).
  A changed comparison (`<` for `!=`), another attribute, another index, a dropped guard or a new statement makes a
  named theorem fail to compile.
-/
import DemesVerif.Proofs.GuardsDemeEpochs
import DemesVerif.Proofs.ResolveValid
namespace Demes.Tables
open Demes Demes.Spec Demes.Proofs.GuardsDemeEpochs

/-- shape of the method: two `if`s of which one raises, hooked to the field by `@epochs.validator`, one loop -/
theorem guards_deme_check_epochs_shape : Generated.demeCheckEpochsShape =
    (2, 1, ["epochs.validator"], ["for (v0, v1) in enumerate(self.epochs)"]) := by decide +kernel

/-- the list the validator sees when the resolver constructs a deme is empty, and the empty list passes -/
theorem guards_deme_check_epochs_at_construction :
    Generated.addDemeConstructsWithEpochs = ["[]"] ∧ genDemeCheckEpochs [] = true := by
  constructor <;> decide +kernel

/-- for every list of epochs, `Deme._check_epochs` completes exactly when every epoch after the first starts
where its predecessor ended -/
theorem guards_tie_deme_check_epochs (eps : List Epoch) : genDemeCheckEpochs eps = epochsAligned eps :=
  gen_eq_aligned eps

/-- pointwise reading of the same -/
theorem guards_deme_check_epochs_meaning (eps : List Epoch) :
    genDemeCheckEpochs eps = true ↔
      ∀ j p x, eps[j]? = some p → eps[j + 1]? = some x → x.startTime = ETime.fin p.endTime :=
  gen_iff eps

/-- the Spec's V5 test `contiguous` is the source's alignment test together with "the first epoch starts at the
deme's start" and "every epoch is strictly older at its start than at its end" (tests the source makes elsewhere:
`_add_epoch` takes the start from the deme / the previous epoch; `Epoch.__attrs_post_init__`) -/
theorem guards_deme_check_epochs_is_v5_alignment (start : ETime) (eps : List Epoch) :
    contiguous start eps
      = ((match eps with | [] => true | e :: _ => e.startTime == start)
          && eps.all (fun e => decide (ETime.fin e.endTime < e.startTime)) && genDemeCheckEpochs eps) := by
  rw [gen_eq_aligned]; exact contiguous_eq start eps

/-- every deme of a valid graph passes `Deme._check_epochs` -/
theorem guards_deme_check_epochs_valid (g : Graph) (hv : validGraph g = true) (d : Deme) (hd : d ∈ g.demes) :
    genDemeCheckEpochs d.epochs = true :=
  valid_check_epochs g hv d hd

/-- … in particular every deme of a graph the Model's resolver returns (`addEpoch` only builds aligned lists) -/
theorem guards_deme_check_epochs_resolved (doc : Value) (g : Graph) (h : resolve doc = .ok g) (d : Deme)
    (hd : d ∈ g.demes) : genDemeCheckEpochs d.epochs = true :=
  valid_check_epochs g (Proofs.resolve_valid doc g h) d hd

/-! ### non-vacuity: the generated function refuses what it should -/

section
def epA : Epoch := { startTime := .inf, endTime := 50, startSize := 1, endSize := 1, sizeFunction := "constant", selfingRate := 0, cloningRate := 0 }
def epB (s : ETime) : Epoch := { epA with startTime := s, endTime := 20 }
def epC (s : ETime) : Epoch := { epA with startTime := s, endTime := 0 }

example : genDemeCheckEpochs [epA] = true
    ∧ genDemeCheckEpochs [epA, epB (.fin 50), epC (.fin 20)] = true
    ∧ genDemeCheckEpochs [epA, epB (.fin 40), epC (.fin 20)] = false     -- a gap
    ∧ genDemeCheckEpochs [epA, epB (.fin 60), epC (.fin 20)] = false     -- an overlap (`<` for `!=` would accept it)
    ∧ genDemeCheckEpochs [epA, epB (.fin 50), epC (.fin 30)] = false
    ∧ genDemeCheckEpochs [epA, epB .inf] = false := by decide +kernel
example : contiguous .inf [epA, epB (.fin 50), epC (.fin 20)] = true := by decide +kernel
end

end Demes.Tables
