/-
  C09, acceptance — the migration part: the invariant `MigWF` of the matrix history (`MsAccDefs.lean`) holds
  of the Builder state at the end of the event loop of `from_ms` on the command `to_ms` emits.

  * `migWF_finalEvs`: for every valid ms-expressible graph (generations, constant sizes), `0 < N0` and
    arguments that agree with the printed command, the state satisfies `MigWF N0 s`.
  * `ingressRow_sum`, `mmRateAt_finalEvs` (in `MsAccMigBridge.lean`): the closed forms behind it.
  * `ingressRow_le` : under `ExactIngress g` (total ingress at most one *exactly*) the row sums are at most
    `4·N0`; without it they need not be (`MsAccMigExamples.lean`, `ingress_le_counterexample`) — this is why
    `MigWF.ingress` is stated with `ingressOk`.
-/
import DemesVerif.Proofs.MsAccMigBridge
import DemesVerif.Proofs.FromMsPostInv
set_option linter.unusedSimpArgs false
set_option linter.unusedVariables false
namespace Demes.Proofs.MsAcc
open Demes Demes.Ms Demes.Spec Demes.Spec.C07 Demes.Spec.C09 Demes.Proofs.RV Demes.Proofs.ToMs Demes.Proofs.MsRT
open Demes.Proofs.FromMs
open Demes.Spec.C08 (ArgsAgree mmRateAt bEndTime)

/-! ### helpers -/

theorem mmRateAt_isSome : ∀ {ml : List MM} {ts : List Q} (j k : Nat) {t : Q}, ml.length = ts.length →
    ∀ e ∈ ts, e ≤ t → (mmRateAt ml ts j k t).isSome = true
  | [], [], _, _, _, _, e, he, _ => by cases he
  | [], _ :: _, _, _, _, hl, _, _, _ => by simp at hl
  | _ :: _, [], _, _, _, hl, _, _, _ => by simp at hl
  | m :: ms, e0 :: es, j, k, t, hl, e, he, hle => by
    unfold mmRateAt
    by_cases h0 : e0 ≤ t
    · rw [if_pos h0]; rfl
    · rw [if_neg h0]
      rcases List.mem_cons.1 he with rfl | he
      · exact absurd hle h0
      · exact mmRateAt_isSome j k (by simpa using hl) e he hle

theorem qsumS_map_mul {α} (a : Q) (f : α → Q) : ∀ l : List α, qsumS (l.map (fun x => a * f x)) = a * qsumS (l.map f)
  | [] => by simp [qsumS, Rat.mul_zero]
  | x :: xs => by
    simp only [List.map_cons, qsumS_cons, qsumS_map_mul a f xs, Rat.mul_add]

/-! ### the closed form of the row sums -/

section
variable {g : Graph} (c : Clauses g) (hx : MsExpressible g = true) (hcs : ConstSizes g = true) {N0 : Q} (hN : 0 < N0)
  {samples : Option (List Int)} {args : Args} {s : BState}
  (ha : ArgsAgree args (prOf (headerOf g samples) (finalEvs g N0))) (hb : buildState args N0 = .ok s)
include c hx hcs hN ha hb

/-- the row of rates into deme `j` in force at `t` -/
theorem ingressRow_finalEvs (j : Nat) (t : Q) :
    ingressRow s j t = ((List.range s.numDemes).filter (fun k => k != j)).map
      (fun k => 4 * N0 * (if 0 ≤ t then gRate g j k t else 0)) := by
  unfold ingressRow
  apply List.map_congr_left
  intro k hk
  have hkj : j ≠ k := by
    have := (List.mem_filter.1 hk).2
    simp only [bne_iff_ne, ne_eq] at this
    exact fun h => this h.symm
  rw [mmRateAt_finalEvs c hx hcs hN ha hb hkj t]
  by_cases ht : 0 ≤ t
  · simp only [if_pos ht, Option.getD_some, rateQ]
  · simp only [if_neg ht, Option.getD_none, rateQ, Rat.mul_zero]

/-- **the total rate into deme `j` in force at `t`** is `4·N0` times the graph's total ingress into deme
`j` at `t` (for `t ≥ 0` and `j` a deme of the graph), and `0` otherwise -/
theorem ingressRow_sum (j : Nat) (t : Q) :
    qsumS (ingressRow s j t) = 4 * N0 * (match g.demes[j]? with
      | some dj => if 0 ≤ t then ingressAt g dj.name t else 0
      | none => 0) := by
  rw [ingressRow_finalEvs c hx hcs hN ha hb, qsumS_map_mul]
  congr 1
  obtain ⟨_, _, hnd⟩ := mm_shape c hx hcs hN ha hb
  by_cases ht : 0 ≤ t
  · simp only [if_pos ht]
    cases hj : g.demes[j]? with
    | some dj => exact gRate_sum c hj hnd t
    | none =>
      apply qsumS_map_zero
      intro k _
      exact gRate_out (Or.inl (List.getElem?_eq_none_iff.1 hj)) t
  · simp only [if_neg ht]
    have : qsumS (((List.range s.numDemes).filter (fun k => k != j)).map (fun _ => (0 : Q))) = 0 :=
      qsumS_map_zero _ _ (fun _ _ => rfl)
    rw [this]
    split <;> rfl

/-! ### the invariant -/

theorem migWF_core :
    s.mmList.length = s.mmEndTimes.length ∧ (∀ m ∈ s.mmList, Dim s.numDemes m)
    ∧ s.mmEndTimes.Pairwise (fun a b => b < a) ∧ (∀ e ∈ s.mmEndTimes, 0 ≤ e)
    ∧ (∀ j k t r, j ≠ k → mmRateAt s.mmList s.mmEndTimes j k t = some r → ∃ q, r = .fin q ∧ 0 ≤ q)
    ∧ (∀ j k t q, j ≠ k → mmRateAt s.mmList s.mmEndTimes j k t = some (.fin q) → q ≠ 0 →
        ∃ dj dk, s.demes[j]? = some dj ∧ s.demes[k]? = some dk
          ∧ bEndTime dj ≤ t ∧ bEndTime dk ≤ t ∧ ETime.fin t < dj.startTime ∧ ETime.fin t < dk.startTime) := by
  have h4 : (0 : Q) < 4 * N0 := by grind
  obtain ⟨hlen, hdims, _⟩ := mm_shape c hx hcs hN ha hb
  refine ⟨hlen, hdims, (buildState_binv hb).times, ?_, ?_, ?_⟩
  · -- no matrix is in force before time 0
    intro e he
    apply Classical.byContradiction
    intro hneg
    have h1 := mmRateAt_isSome 0 1 (t := e) hlen e he Rat.le_refl
    rw [mmRateAt_finalEvs c hx hcs hN ha hb (by omega) e, if_neg hneg] at h1
    cases h1
  · intro j k t r hjk hr
    rw [mmRateAt_finalEvs c hx hcs hN ha hb hjk t] at hr
    split at hr
    · cases hr
      exact ⟨_, rfl, Rat.mul_nonneg (Rat.le_of_lt h4) (gRate_nonneg c j k t)⟩
    · cases hr
  · intro j k t q hjk hr hq
    rw [mmRateAt_finalEvs c hx hcs hN ha hb hjk t] at hr
    split at hr
    · rename_i ht
      simp only [Option.some.injEq, Num.fin.injEq] at hr
      have hne : gRate g j k t ≠ 0 := by
        intro h0
        rw [h0, Rat.mul_zero] at hr
        exact hq hr.symm
      obtain ⟨dj, dk, hj, hk, h1, h2, _⟩ := gRate_ne_zero c hne
      obtain ⟨Dj, hDj, ej, sj⟩ := deme_finalEvs c hx hcs hN ha hb hj
      obtain ⟨Dk, hDk, ek, sk⟩ := deme_finalEvs c hx hcs hN ha hb hk
      exact ⟨Dj, Dk, hDj, hDk, by rw [ej]; exact ht, by rw [ek]; exact ht, by rw [sj]; exact h1, by rw [sk]; exact h2⟩
    · cases hr

/-- V8 of the graph: an entry in force is at most `4·N0` -/
theorem migWF_le (j k : Nat) (t q : Q) (hjk : j ≠ k)
    (hr : mmRateAt s.mmList s.mmEndTimes j k t = some (.fin q)) : q ≤ 4 * N0 := by
  have h40 : (0 : Q) ≤ 4 * N0 := by grind
  rw [mmRateAt_finalEvs c hx hcs hN ha hb hjk t] at hr
  split at hr
  · simp only [Option.some.injEq, Num.fin.injEq] at hr
    rw [← hr]
    have := Rat.mul_le_mul_of_nonneg_left (gRate_le_one c j k t) h40
    rwa [Rat.mul_one] at this
  · cases hr

/-- V10 of the graph: the total rate into a deme, divided by `4·N0`, passes `ingressOk` -/
theorem migWF_ingress (j : Nat) (t : Q) : ingressOk (qsumS (ingressRow s j t) / (4 * N0)) = true := by
  have h0 : ingressOk 0 = true := by decide +kernel
  have h4ne : (4 * N0) ≠ 0 := by grind
  rw [ingressRow_sum c hx hcs hN ha hb, Rat.mul_comm, Rat.mul_div_cancel h4ne]
  cases hj : g.demes[j]? with
  | none => exact h0
  | some dj =>
    show ingressOk (if 0 ≤ t then ingressAt g dj.name t else 0) = true
    split
    · exact ingress_ok c (List.mem_of_getElem? hj) t
    · exact h0

/-- when the graph's total ingress is at most one exactly (`ExactIngress`; validity allows `1 + 1e-9`), the
rates into a deme sum to at most `4·N0` -/
theorem ingressRow_le (hei : ExactIngress g = true) (j : Nat) (t : Q) : qsumS (ingressRow s j t) ≤ 4 * N0 := by
  have h40 : (0 : Q) ≤ 4 * N0 := by grind
  rw [ingressRow_sum c hx hcs hN ha hb]
  have key : (match g.demes[j]? with
      | some dj => if 0 ≤ t then ingressAt g dj.name t else 0
      | none => (0 : Q)) ≤ 1 := by
    cases hj : g.demes[j]? with
    | none => show (0 : Q) ≤ 1; decide +kernel
    | some dj =>
      show (if 0 ≤ t then ingressAt g dj.name t else 0) ≤ 1
      split
      · exact exactIngress_all c hei (List.mem_of_getElem? hj) t
      · show (0 : Q) ≤ 1; decide +kernel
  have := Rat.mul_le_mul_of_nonneg_left key h40
  rwa [Rat.mul_one] at this

end

/-- **Acceptance, migration part.**  For a valid ms-expressible graph `g` in generations with constant
sizes, `0 < N0`, and arguments `args` that agree with the command `to_ms` prints: the Builder state at the
end of the event loop of `from_ms` satisfies `MigWF`. -/
theorem migWF_finalEvs {g : Graph} (c : ToMs.Clauses g) (hx : MsExpressible g = true) (hcs : ConstSizes g = true)
    {N0 : Q} (hN : 0 < N0) (samples : Option (List Int)) {args : Args} {s : BState}
    (ha : ArgsAgree args (prOf (ToMs.headerOf g samples) (ToMs.finalEvs g N0)))
    (hb : buildState args N0 = .ok s) : MigWF N0 s := by
  obtain ⟨h1, h2, h3, h4, h5, h6⟩ := migWF_core c hx hcs hN ha hb
  exact ⟨h1, h2, h3, h4, h5, h6, migWF_le c hx hcs hN ha hb, migWF_ingress c hx hcs hN ha hb⟩

#print axioms migWF_finalEvs

end Demes.Proofs.MsAcc
