/-
  A concrete heap with sharing (the F1 shape: two demes whose `epochs` are one YAML-aliased
  list holding one epoch dict), used by the non-vacuity examples and the counterexample of C18.
-/
import DemesVerif.Proofs.HeapSession
namespace Demes.Proofs.Heap
open Demes Demes.Heap Demes.Spec.C18

def numA (q : Q) : Ref := .atom (.num (.fin q))
def strA (s : String) : Ref := .atom (.str s)

/--
```yaml
time_units: generations
demes:
  - name: A
    epochs: &e
      - {start_size: 100, end_time: 0}
  - name: B
    epochs: *e
```
cell 1 (the `epochs` list) and with it cell 0 (the epoch) are referenced from both demes. -/
def exStore : Store :=
  [ .dict [("start_size", numA 100), ("end_time", numA 0)],            -- 0: the epoch
    .list [.addr 0],                                                   -- 1: the epochs list `&e`
    .dict [("name", strA "A"), ("epochs", .addr 1)],                   -- 2: deme A
    .dict [("name", strA "B"), ("epochs", .addr 1)],                   -- 3: deme B (`*e`)
    .list [.addr 2, .addr 3],                                          -- 4: demes
    .dict [("time_units", strA "generations"), ("demes", .addr 4)] ]   -- 5: the document

def exRoot : Ref := .addr 5

def epochV : Value := .obj [("start_size", .num (.fin 100)), ("end_time", .num (.fin 0))]
/-- the document `exRoot` denotes: aliasing unfolded -/
def exDoc : Value :=
  .obj [("time_units", .str "generations"),
        ("demes", .list [.obj [("name", .str "A"), ("epochs", .list [epochV])],
                         .obj [("name", .str "B"), ("epochs", .list [epochV])]])]

/-- library code handed the copy in register 0: `demes = data["demes"]; a = demes[0];
e = a["epochs"][0]; e.pop("start_size"); b = demes[1]` — what `fromdict` does to the first
deme's first epoch -/
def exScript : List Instr :=
  [ .getKey 0 "demes",            -- reg 1
    .getIndex 1 0,                -- reg 2: demes[0]
    .getKey 2 "epochs",           -- reg 3
    .getIndex 3 0,                -- reg 4: demes[0]["epochs"][0]
    .upd 4 (.delKey "start_size"),
    .getIndex 1 1 ]               -- reg 5: demes[1]

/-- a longer script with every kind of instruction: pops, inserts a default (a freshly
allocated dict and list), appends, overwrites, sorts -/
def exScript2 : List Instr :=
  exScript ++
  [ .upd 5 (.delKey "name"),
    .newDict [("end_time", 4)],   -- reg 6: a new dict holding reg 4 (the epoch)
    .newList [6, 6],              -- reg 7
    .upd 5 (.setKey "defaults" 7),
    .upd 1 (.append 6),
    .upd 1 (.setIndex 0 5),
    .upd 1 (.replaceList [6, 5, 2]),
    .upd 0 (.replaceDict []),
    .const (.str "x"),            -- reg 8
    .upd 3 (.insertAt 0 8),
    .upd 3 (.delIndex 1) ]


/-- the result of the un-aliasing copy of the example (computed) -/
def exCopy : Store × Ref := (copy 7 exStore exRoot).getD (exStore, exRoot)
/-- the result of the memoising copy of the example (computed) -/
def exMemoCopy : (Store × Memo) × Ref := (copyMemo 7 (exStore, []) exRoot).getD ((exStore, []), exRoot)

/-! ### Boolean checkers for closed examples -/

def refLt (n : Nat) : Ref → Bool
  | .atom _ => true
  | .addr a => decide (a < n)

def wfB (s : Store) (roots : List Ref) : Bool :=
  roots.all (refLt s.length) && s.all (fun c => c.refs.all (refLt s.length))

def backwardB (s : Store) : Bool :=
  (s.zipIdx).all (fun ci => ci.1.refs.all (refLt ci.2))

theorem refLt_sound (n : Nat) (r : Ref) (h : refLt n r = true) : RefIn (· < n) r := by
  cases r with
  | atom v => exact trivial
  | addr a => exact (of_decide_eq_true h : a < n)

theorem wfB_sound (s : Store) (roots : List Ref) (h : wfB s roots = true) : WF s roots := by
  simp only [wfB, Bool.and_eq_true, List.all_eq_true] at h
  refine ⟨fun r hr => refLt_sound _ r (h.1 r hr), ?_⟩
  intro a c _ hc x hx
  exact refLt_sound _ x (h.2 c (List.mem_of_getElem? hc) x hx)

theorem backwardB_sound (s : Store) (h : backwardB s = true) : Backward s := by
  simp only [backwardB, List.all_eq_true] at h
  intro a c hc x hx
  have hmem : (c, a) ∈ s.zipIdx := by
    rw [List.mem_zipIdx_iff_getElem?]; simpa using hc
  exact refLt_sound _ x (h (c, a) hmem x hx)

end Demes.Proofs.Heap
