/-
  C09 §8 (acceptance with exponential epochs), after the event loop — the migration clauses V8, V9, V10 of the
  explicit graph `docGraph tab doc` of a well-formed document (`DocWFV doc`): the proofs of
  `MsAccFinishMigs.lean` (they use `DocWF.migs` and `DocWF.nodup` only, which `DocWFV` has unchanged).
-/
import DemesVerif.Proofs.MsGrowAccFinishDefs
import DemesVerif.Proofs.MsAccFinishMigs
namespace Demes.Proofs.MsGrow
open Demes Demes.Ms Demes.Spec Demes.Spec.C08 Demes.Proofs.FromMs
open Demes.Proofs.MsAcc (DAncWF DMigsWF DPulseWF docGraph docDeme docMig findDeme_doc docDeme_endTime
  v8_body v9_rel ingressAt_doc rateQ)

/-! ## V8 -/

theorem docwf_v8 {doc : MsDoc} (h : DocWFV doc) (tab : List (Sz × Q)) : v8 (docGraph tab doc) = true := by
  unfold v8
  rw [List.all_eq_true]
  intro m' hm'
  obtain ⟨m, hm, rfl⟩ := List.mem_map.1 (show m' ∈ doc.migrations.map docMig from hm')
  obtain ⟨q, dj, hdj, dk, hdk, hsrc, hdst, hne, hq, hq0, hq1, hlt, hje, hke, hjs, hks⟩ :=
    h.migs.shape m hm
  have hfs : findDeme (docGraph tab doc) (docMig m).source = some (docDeme tab dk) := by
    show findDeme _ m.source = _
    rw [hsrc]; exact findDeme_doc tab h.nodup hdk
  have hfd : findDeme (docGraph tab doc) (docMig m).dest = some (docDeme tab dj) := by
    show findDeme _ m.dest = _
    rw [hdst]; exact findDeme_doc tab h.nodup hdj
  have hne' : ((docMig m).source != (docMig m).dest) = true := by
    show (m.source != m.dest) = true
    rw [hsrc, hdst, bne_iff_ne]
    exact fun e => hne e.symm
  have hrate : (docMig m).rate = q := by
    show rateQ m.rate = q
    rw [hq]; rfl
  rw [hne', hfs, hfd, Bool.true_and]
  refine v8_body (s := docDeme tab dk) (d := docDeme tab dj) (m := docMig m) hlt ?_ ?_ hks hjs ?_ ?_
  · rw [docDeme_endTime]; exact hke
  · rw [docDeme_endTime]; exact hje
  · rw [hrate]; exact hq0
  · rw [hrate]; exact hq1

/-! ## V9 -/

theorem docwf_v9 {doc : MsDoc} (h : DocWFV doc) (tab : List (Sz × Q)) : v9 (docGraph tab doc) = true := by
  unfold v9
  show pairwiseB _ (doc.migrations.map docMig) = true
  apply MsAcc.pairwiseB_map
  exact h.migs.disjoint.imp (fun hab => v9_rel hab)

/-! ## V10 -/

theorem docwf_ingress {doc : MsDoc} (h : DocWFV doc) (tab : List (Sz × Q)) {d : BDeme}
    (hd : d ∈ doc.demes) (t : Q) : ingressOk (ingressAt (docGraph tab doc) d.name t) = true := by
  rw [ingressAt_doc]
  exact h.migs.ingress d hd t

theorem docwf_v10 {doc : MsDoc} (h : DocWFV doc) (tab : List (Sz × Q)) : v10 (docGraph tab doc) = true := by
  unfold v10
  rw [List.all_eq_true]
  intro t _
  rw [List.all_eq_true]
  intro d' hd'
  obtain ⟨d, hd, rfl⟩ := List.mem_map.1 (show d' ∈ doc.demes.map (docDeme tab) from hd')
  exact docwf_ingress h tab hd t

#print axioms docwf_v8
#print axioms docwf_v9
#print axioms docwf_v10

end Demes.Proofs.MsGrow
