"""The Builder entry route (C01/C02/C03/C18 quantify over "Builder call sequences").

Not a property module of its own: helpers called from c02.py (routes agree) and c18.py (histories).

  check_builder_routes(ctx, docs)   (a) each document is turned into Builder calls exactly as
      `via_builder` does, the REAL demes.Builder executes them, and `builder.data` (exact, key order
      included) and the outcome of `builder.resolve()` are compared with the Lean Model
      (`Builder.run`, `Builder.resolve`; driver op `builder`).  The Spec's `callsOfDoc`/`builderForm`
      (driver op `builder_of_doc`) are tied to the same calls, and the statement of
      `builder_equiv_dict` is evaluated on the real code: a Builder-expressible document must resolve
      identically through Graph.fromdict and through the Builder.
  check_builder_route(ctx, doc)     the same for one document.
  check_builder_calls(ctx, n)       (b) n random call sequences (None arguments, "Infinity" strings
      in every position, explicit None for demes/source/dest, wrong types, repeated resolve, a second
      constructor call, Builder.fromdict starts on junk): after EVERY call the data and the report
      (raised / resolve outcome) are compared with the Model; and the statements of
      builder_none_is_absent, builder_infinity_string, builder_values_verbatim and builder_history are
      evaluated on the real code.

All randomness comes from ctx.rng.
"""
from __future__ import annotations

import copy
import math
import random

import demes

import gen_graphs as G
from props.common import index_of
from wire import canon, canon_eq, dec, enc, show

INIT_KW = ("description", "time_units", "generation_time", "doi", "defaults", "metadata")
DEME_KW = ("description", "ancestors", "proportions", "start_time", "epochs", "defaults")
MIG_KW = ("rate", "demes", "source", "dest", "start_time", "end_time")
PULSE_KW = ("sources", "dest", "proportions", "time")
SENTINEL_KW = ("demes", "source", "dest")
NO_START = object()


# --------------------------------------------------------------------------------------
# documents -> calls (what props/resolve_common.via_builder does)
# --------------------------------------------------------------------------------------

def calls_of_doc(doc):
    """[(method, kwargs)] entering `doc` as via_builder does, or None where via_builder itself
    cannot make the calls (a keyword the method does not have, no name, a section that is not a
    list of mappings): there the Python call raises TypeError/KeyError before the Builder runs."""
    if not isinstance(doc, dict):
        return None
    if any(k not in INIT_KW + ("demes", "migrations", "pulses") for k in doc):
        return None
    calls = [("init", {k: doc[k] for k in INIT_KW if k in doc})]
    for sec, allowed, method in (("demes", ("name",) + DEME_KW, "add_deme"), ("migrations", MIG_KW, "add_migration"),
                                 ("pulses", PULSE_KW, "add_pulse")):
        items = doc.get(sec, [])
        if not isinstance(items, list):
            return None
        for it in items:
            if not isinstance(it, dict) or any(k not in allowed for k in it):
                return None
            if sec == "demes" and "name" not in it:
                return None
            calls.append((method, dict(it)))
    return calls


def encodable(v, depth=0):
    if depth > 40:
        return False
    if v is None or isinstance(v, (bool, int, float, str)):
        return True
    if isinstance(v, list):       # not tuple: the wire format would turn it into a list, which the library treats differently
        return all(encodable(x, depth + 1) for x in v)
    if isinstance(v, dict):
        return all(isinstance(k, str) for k in v) and all(encodable(x, depth + 1) for x in v.values())
    return False


# --------------------------------------------------------------------------------------
# the REAL Builder
# --------------------------------------------------------------------------------------

def outcome_of(b):
    try:
        g = b.resolve()
        return {"ok": canon(g.asdict()), "index": index_of(g), "graph": g}
    except Exception as e:  # noqa: BLE001
        return {"err": type(e).__name__}


def apply_calls(calls, start=NO_START):
    """run the calls on the real class; returns (final data, per-call reports, data after each call (wire form))"""
    b = demes.Builder() if start is NO_START else demes.Builder.fromdict(copy.deepcopy(start))
    steps, datas = [], []
    for method, kw in calls:
        kw = copy.deepcopy(kw)
        if method == "init":
            b = demes.Builder(**kw)
            steps.append({"raised": False})
        elif method == "resolve":
            steps.append(outcome_of(b))
        else:
            try:
                if method == "add_deme":
                    name = kw.pop("name")
                    b.add_deme(name, **kw)
                else:
                    getattr(b, method)(**kw)
                steps.append({"raised": False})
            except Exception as e:  # noqa: BLE001
                steps.append({"raised": True, "class": type(e).__name__})
        datas.append(enc(b.data))
    return b, steps, datas


def request(calls, start=NO_START, trace=False):
    r = {"op": "builder", "calls": [[m, enc(kw)] for m, kw in calls], "trace": trace}
    if start is not NO_START:
        r["start"] = enc(start)
    return r


def show_calls(calls, start=NO_START):
    out = {"calls": [[m, show(canon(kw))] for m, kw in calls]}
    if start is not NO_START:
        out["start"] = show(canon(start))
    return out


def py_repro(calls, start=NO_START):
    lines = ["import demes, math; inf=math.inf; nan=math.nan"]
    lines.append("b=demes.Builder()" if start is NO_START else f"b=demes.Builder.fromdict({start!r})")
    for m, kw in calls:
        if m == "init":
            lines.append(f"b=demes.Builder(**{kw!r})")
        elif m == "resolve":
            lines.append("print(b.resolve().asdict())")
        elif m == "add_deme":
            k2 = dict(kw)
            name = k2.pop("name")
            lines.append(f"b.add_deme({name!r}, **{k2!r})")
        else:
            lines.append(f"b.{m}(**{kw!r})")
    lines.append("print(b.data)")
    return "/venv/bin/python -c \"" + "; ".join(lines).replace('"', "'") + "\""


def expected_item(method, kw):
    """what the documentation of add_deme / add_migration / add_pulse says is appended"""
    item = {}
    if method == "add_deme":
        item["name"] = kw["name"]
    order = {"add_deme": DEME_KW, "add_migration": MIG_KW, "add_pulse": PULSE_KW}[method]
    for k in order:
        if k not in kw:
            continue
        v = kw[k]
        if v is None and not (method == "add_migration" and k in SENTINEL_KW):
            continue                                   # None = not given
        if k == "start_time" and method in ("add_deme", "add_migration") and isinstance(v, str) and v == "Infinity":
            v = math.inf
        item[k] = v
    return item


def expected_data(calls):
    """the data dictionary of a call sequence on a fresh Builder, by selection from the call list
    (the harness's own reading of the class documentation; cf. Spec.BuilderRoute.docOfCalls)"""
    inits = [i for i, (m, _) in enumerate(calls) if m == "init"]
    kw = calls[inits[-1]][1] if inits else {}
    session = calls[inits[-1] + 1:] if inits else calls
    data = {"time_units": kw["time_units"] if "time_units" in kw else "generations"}
    for k in ("description", "generation_time", "doi", "defaults", "metadata"):
        if kw.get(k) is not None:
            data[k] = kw[k]
    for m, kw in session:
        if m == "resolve":
            continue
        sec = {"add_deme": "demes", "add_migration": "migrations", "add_pulse": "pulses"}[m]
        data.setdefault(sec, []).append(expected_item(m, kw))
    return data


def check_expected_data(ctx, case, calls, data_wire, repro):
    exp = enc(expected_data(calls))
    if data_wire != exp:
        ctx.violation("the Builder's data is not the dictionary its calls are documented to assemble", case,
                      detail={"data": data_wire, "expected": exp}, python=repro)
        return False
    return True


def compare_steps(ctx, case, code_steps, model_steps, op):
    """per-call reports: raised flags and resolve outcomes"""
    ok = True
    for i, (c, m) in enumerate(zip(code_steps, model_steps)):
        where = dict(case, step=i)
        if "raised" in c or "raised" in m:
            if c.get("raised") != m.get("raised"):
                ctx.disagreement(op + ":raised", where, c, m)
                ok = False
            continue
        if ("ok" in c) != ("ok" in m):
            ctx.disagreement(op + ":resolve", where, c.get("err", "accepted"),
                             {k: m.get(k) for k in ("err", "msg")} if "ok" not in m else "accepted")
            ok = False
        elif "ok" in c:
            if not canon_eq(c["ok"], dec(m["ok"])):
                ctx.disagreement(op + ":resolve", where, show(c["ok"]), show(dec(m["ok"])))
                ok = False
            elif c["index"] != m.get("index"):
                ctx.disagreement(op + ":index", where, c["index"], m.get("index"))
                ok = False
    return ok


# --------------------------------------------------------------------------------------
# (a) documents
# --------------------------------------------------------------------------------------

def dict_route(doc):
    try:
        g = demes.Graph.fromdict(copy.deepcopy(doc))
        return {"ok": canon(g.asdict()), "index": index_of(g)}
    except Exception as e:  # noqa: BLE001
        return {"err": type(e).__name__}


def check_builder_routes(ctx, docs, tag="builder_route"):
    """(a) for a list of documents; returns the number of documents compared"""
    work = []
    for doc in docs:
        calls = calls_of_doc(doc)
        if calls is None or not encodable(doc):
            ctx.dist[tag + ":not_expressible"] += 1
            continue
        work.append((doc, calls + [("resolve", {})]))
    if not work:
        return 0
    reqs = []
    for doc, calls in work:
        reqs.append(request(calls))
        reqs.append({"op": "builder_of_doc", "doc": enc(doc)})
    reps = ctx.driver.batch(reqs)
    for i, (doc, calls) in enumerate(work):
        rep, rdoc = reps[2 * i], reps[2 * i + 1]
        case = {"document": show(canon(doc)), "route": "builder"}
        b, steps, datas = apply_calls(calls)
        ctx.compared += 1
        ctx.dist[tag] += 1
        if "fail" in rep or "fail" in rdoc:
            ctx.disagreement("builder:driver", case, "ran", {"builder": rep.get("fail"), "builder_of_doc": rdoc.get("fail")})
            continue
        check_expected_data(ctx, case, calls, datas[-1], py_repro(calls))
        # the data dictionary, exact (key order included)
        if datas[-1] != rep["data"]:
            ctx.disagreement("builder:data", case, datas[-1], rep["data"])
        else:
            compare_steps(ctx, case, steps, rep["steps"], "builder")
        # Spec.callsOfDoc is the conversion used here
        if rdoc["data"] != rep["data"] or rdoc["ncalls"] != len(calls) - 1:
            ctx.disagreement("builder:callsOfDoc", case, {"data": datas[-1], "ncalls": len(calls) - 1},
                             {"data": rdoc["data"], "ncalls": rdoc["ncalls"]})
        # builder_equiv_dict / builder_roundtrip_exact evaluated on the real code
        if rdoc["form"]:
            ctx.dist[tag + ":builder_form"] += 1
            d, bo = dict_route(doc), steps[-1]
            same = (("ok" in d) == ("ok" in bo)) and ((d.get("err") == bo.get("err")) if "err" in d
                                                     else (canon_eq(d["ok"], bo["ok"]) and d["index"] == bo["index"]))
            if not same:
                ctx.violation("a Builder-expressible document resolves differently through Builder calls and through Graph.fromdict",
                              case, detail={"fromdict": d.get("err") or show(d["ok"]), "builder": bo.get("err") or show(bo["ok"])},
                              python=py_repro(calls))
            if rdoc["ordered"]:
                ctx.dist[tag + ":ordered"] += 1
                if datas[-1] != enc(doc):
                    ctx.violation("a document written in the Builder's key order is not rebuilt exactly by its Builder calls",
                                  case, detail={"data": datas[-1]}, python=py_repro(calls))
    return len(work)


def check_builder_route(ctx, doc):
    return check_builder_routes(ctx, [doc])


# --------------------------------------------------------------------------------------
# (b) random call sequences
# --------------------------------------------------------------------------------------

JUNK = [None, True, False, 0, 1, -1, 0.5, 2, math.inf, -math.inf, math.nan, "", "A", "Infinity", "infinity", "generations",
        [], [None], ["A"], ["A", "B"], [0.5], [[]], {}, {"epoch": {"start_size": 10}}, {"x": None}, [{}], [{"start_size": 100}],
        [{"start_size": "Infinity"}], [{"end_time": "Infinity", "start_size": 1}]]


def perturb_kwargs(method, kw, rng, light=False):
    """one call's kwargs after 0-2 random edits (light: mostly none)"""
    kw = copy.deepcopy(kw)
    allowed = {"init": INIT_KW, "add_deme": DEME_KW, "add_migration": MIG_KW, "add_pulse": PULSE_KW}[method]
    for _ in range(rng.choice([0, 0, 0, 0, 0, 0, 1] if light else [0, 0, 1, 1, 2])):
        k = rng.choice(allowed)
        r = rng.random()
        if r < 0.3:
            kw[k] = None                      # explicit None
        elif r < 0.45:
            kw.pop(k, None)                   # not passed
        elif r < 0.65:
            kw[k] = "Infinity"                # the string, in any position
        elif r < 0.75:
            kw[k] = math.inf
        else:
            kw[k] = copy.deepcopy(rng.choice(JUNK))
    if method == "add_deme" and rng.random() < 0.1:
        kw["name"] = copy.deepcopy(rng.choice(JUNK))
    return kw


def gen_calls(rng):
    """a random call sequence and an optional Builder.fromdict start"""
    start = NO_START
    r = rng.random()
    if r < 0.75:
        m = G.gen_model(rng, max_demes=4)
        doc = G.spell(m, rng, level=rng.choice([0, 0.5, 1]))
        calls = calls_of_doc(doc) or [("init", {})]
        head, body = calls[:1], calls[1:]
        if rng.random() < 0.3:
            head = []                                            # Builder() defaults
        if rng.random() < 0.3:
            rng.shuffle(body)                                    # sections used in another order
        elif rng.random() < 0.3 and body:
            i = rng.randrange(len(body))
            body.insert(rng.randrange(len(body) + 1), body[i])   # a call made twice
        calls = head + body
        light = rng.random() < 0.5
        calls = [(mth, perturb_kwargs(mth, kw, rng, light)) for mth, kw in calls]
        if rng.random() < 0.15:
            calls.insert(rng.randrange(len(calls) + 1), ("init", perturb_kwargs("init", {}, rng)))   # a second constructor call
        if rng.random() < 0.2:                                    # Builder.fromdict(part of the document)
            start = {k: copy.deepcopy(v) for k, v in doc.items() if rng.random() < 0.7}
            if rng.random() < 0.3:
                start[rng.choice(["demes", "migrations", "pulses"])] = copy.deepcopy(rng.choice(JUNK))
    else:
        calls = []
        for _ in range(rng.randint(0, 6)):
            mth = rng.choice(["init", "add_deme", "add_deme", "add_migration", "add_pulse"])
            base = {"name": rng.choice(["A", "B", "C"]), "epochs": [{"start_size": rng.choice([1, 100])}]} if mth == "add_deme" else {}
            if mth == "add_migration" and rng.random() < 0.6:
                base = {"demes": ["A", "B"], "rate": rng.choice([0, 0.1, 1])}
            if mth == "add_pulse" and rng.random() < 0.6:
                base = {"sources": ["A"], "dest": "B", "proportions": [0.1], "time": rng.choice([1, 10])}
            calls.append((mth, perturb_kwargs(mth, base, rng)))
        if rng.random() < 0.3:
            start = copy.deepcopy(rng.choice(JUNK + [{"time_units": "generations"}, {"demes": []}, {"demes": 5, "pulses": None}]))
    # resolve calls anywhere, always one at the end
    for _ in range(rng.choice([0, 1, 1, 2, 3])):
        calls.insert(rng.randrange(len(calls) + 1), ("resolve", {}))
    calls.append(("resolve", {}))
    return calls, start


def none_as_absent(calls):
    out = []
    for m, kw in calls:
        out.append((m, {k: v for k, v in kw.items()
                        if not (v is None and k != "name" and not (m == "add_migration" and k in SENTINEL_KW)
                                and not (m == "init" and k == "time_units"))}))
    return out


def infinity_as_number(calls):
    out = []
    for m, kw in calls:
        kw = dict(kw)
        if m in ("add_deme", "add_migration") and isinstance(kw.get("start_time"), str) and kw["start_time"] == "Infinity":
            kw["start_time"] = math.inf
        out.append((m, kw))
    return out


def stored_verbatim(ctx, case, calls, datas, repro):
    """every given argument other than the two converted ones is stored as it is"""
    for i, (m, kw) in enumerate(calls):
        if m in ("init", "resolve"):
            continue
        sec = {"add_deme": "demes", "add_migration": "migrations", "add_pulse": "pulses"}[m]
        data = datas[i]
        items = dict(data["o"]).get(sec) if isinstance(data, dict) and "o" in data else None
        if not isinstance(items, list) or not items:
            ctx.violation(f"{m} did not append to the '{sec}' list", dict(case, step=i), python=repro)
            return
        item = dict(items[-1]["o"])        # the item this call appended
        for k, v in kw.items():
            conv = m in ("add_deme", "add_migration") and k == "start_time"
            if v is None and not (m == "add_migration" and k in SENTINEL_KW) and k != "name":
                if k in item:
                    ctx.violation(f"{m}({k}=None) wrote the key '{k}'", case, detail={"item": item}, python=repro)
            elif conv and isinstance(v, str) and v == "Infinity":
                if item.get(k) != {"n": "inf"}:
                    ctx.violation(f"{m}(start_time='Infinity') did not store infinity", case, detail={"item": item}, python=repro)
            elif item.get(k, "<missing>") != enc(v):
                ctx.violation(f"{m}({k}=...) did not store the given value unchanged", case,
                              detail={"given": show_value(v), "stored": item.get(k, "<missing>")}, python=repro)


def show_value(v):
    try:
        return show(canon(v))
    except TypeError:
        return repr(v)


def check_builder_calls(ctx, n, tag="builder_calls"):
    """(b) n random call sequences"""
    cases = []
    for _ in range(n):
        rng = random.Random(ctx.rng.getrandbits(48))
        calls, start = gen_calls(rng)
        if not all(encodable(kw) for _, kw in calls) or (start is not NO_START and not encodable(start)):
            continue
        cases.append((calls, start))
    if not cases:
        return 0
    reps = ctx.driver.batch([request(c, s, trace=True) for c, s in cases])
    for (calls, start), rep in zip(cases, reps):
        case = show_calls(calls, start)
        repro = py_repro(calls, start)
        b, steps, datas = apply_calls(calls, start)
        ctx.compared += 1
        nres = sum(1 for m, _ in calls if m == "resolve")
        ctx.count(case, len(calls) >= 3, tags=[tag, f"{tag}:resolves={min(nres, 3)}", tag + (":fromdict" if start is not NO_START else ":fresh")]
                  + ([tag + ":some_resolve_ok"] if any("ok" in s for s in steps) else [])
                  + ([tag + ":some_call_raised"] if any(s.get("raised") for s in steps) else []))
        if "fail" in rep:
            ctx.disagreement("builder_calls:driver", case, "ran", rep["fail"])
            continue
        bad = next((i for i, (a, m) in enumerate(zip(datas, rep["datas"])) if a != m), None)
        if bad is not None:
            ctx.disagreement("builder_calls:data", dict(case, step=bad), datas[bad], rep["datas"][bad])
        else:
            compare_steps(ctx, case, steps, rep["steps"], "builder_calls")
        # ---- the statements evaluated on the real code
        if start is NO_START:
            for i in range(len(calls)):
                if not check_expected_data(ctx, dict(case, step=i), calls[:i + 1], datas[i], repro):
                    break
        fresh = start is NO_START and sum(1 for m, _ in calls if m == "init") <= (1 if calls and calls[0][0] == "init" else 0)
        if fresh:
            stored_verbatim(ctx, case, calls, datas, repro)
        _, _, d2 = apply_calls(none_as_absent(calls), start)
        if d2[-1] != datas[-1]:
            ctx.violation("passing None for an optional argument gives other data than omitting it", case,
                          detail={"with None": datas[-1], "omitted": d2[-1]}, python=repro)
        _, _, d3 = apply_calls(infinity_as_number(calls), start)
        if d3[-1] != datas[-1]:
            ctx.violation("start_time='Infinity' gives other data than start_time=inf", case,
                          detail={"string": datas[-1], "number": d3[-1]}, python=repro)
        # histories: each resolve = Graph.fromdict of a fresh copy of the data at that moment; the
        # data is not changed by resolve; graphs handed out earlier are as they were at the end
        for i, (m, _) in enumerate(calls):
            if m != "resolve":
                continue
            if i > 0 and datas[i] != datas[i - 1]:
                ctx.violation("Builder.resolve() changed the Builder's data", dict(case, step=i), python=repro)
            _, pre_steps, _ = apply_calls(calls[:i] + [("resolve", {})], start)
            a, bb = steps[i], pre_steps[-1]
            if ("ok" in a) != ("ok" in bb) or ("ok" in a and not canon_eq(a["ok"], bb["ok"])) or ("err" in a and a["err"] != bb["err"]):
                ctx.violation("a resolve in a history differs from resolving the calls made so far on a new Builder", dict(case, step=i),
                              detail={"in history": a.get("err") or show(a["ok"]), "fresh": bb.get("err") or show(bb["ok"])}, python=repro)
        for i, s in enumerate(steps):
            if "graph" in s:
                try:
                    now = canon(s["graph"].asdict())
                except Exception as e:  # noqa: BLE001
                    now = type(e).__name__
                if not (isinstance(now, dict) and canon_eq(now, s["ok"])):
                    ctx.violation("a graph returned by an earlier resolve changed after later Builder calls", dict(case, step=i), python=repro)
    return len(cases)
