/-
  C09, "the same deme names" — assembly, and the order of the demes.

  `from_ms` returns its demes sorted by start time (oldest first, stable: `_sort_demes_by_ancestry`), so the
  demes of `from_ms(to_ms(g), deme_names = names of g)` are those of `g` BY NAME; they are in `g`'s order exactly
  when `g` lists its demes by non-increasing start time (`StartsSorted`), which validity does not demand.
-/
import DemesVerif.Proofs.MsNamesRT
set_option linter.unusedSimpArgs false
set_option linter.unusedVariables false
namespace Demes.Proofs.MsNames
open Demes Demes.Ms Demes.Spec Demes.Spec.C07 Demes.Spec.C09
open Demes.Spec.MsSem
open Demes.Spec.C08 (semEquiv resultSem resultSemNamed popNames Tame' StableSortedDescE)
open Demes.Proofs.FromMs (nameMap demeName_injective)

/-! ### a stable sort leaves a sorted list alone -/

theorem etime_le_antisymm {a b : ETime} (h1 : a ≤ b) (h2 : b ≤ a) : a = b := by
  cases a <;> cases b
  · exact congrArg ETime.fin (Rat.le_antisymm h1 h2)
  · exact False.elim h2
  · exact False.elim h1
  · rfl

theorem sorted_unique {α} (key : α → ETime) : ∀ (xs ys : List α), ys.Perm xs →
    xs.Pairwise (fun a b => key b ≤ key a) → ys.Pairwise (fun a b => key b ≤ key a) →
    (∀ k, ys.filter (fun a => decide (key a = k)) = xs.filter (fun a => decide (key a = k))) → ys = xs
  | [], ys, hp, _, _, _ => hp.eq_nil
  | x :: xs, [], hp, _, _, _ => by have := hp.length_eq; simp at this
  | x :: xs, y :: ys, hp, hx, hy, hf => by
    rw [List.pairwise_cons] at hx hy
    have hyx : key y ≤ key x := by
      rcases List.mem_cons.mp (hp.mem_iff.mp List.mem_cons_self) with e | hm
      · rw [e]; cases key x <;> first | exact Rat.le_refl | trivial
      · exact hx.1 y hm
    have hxy : key x ≤ key y := by
      rcases List.mem_cons.mp (hp.mem_iff.mpr List.mem_cons_self) with e | hm
      · rw [e]; cases key y <;> first | exact Rat.le_refl | trivial
      · exact hy.1 x hm
    have hk : key y = key x := etime_le_antisymm hyx hxy
    have h0 := hf (key x)
    rw [List.filter_cons, List.filter_cons] at h0
    simp only [hk, decide_true, if_true] at h0
    have hyx' : y = x := (List.cons.inj h0).1
    subst hyx'
    have htl : ys = xs := by
      apply sorted_unique key xs ys (List.Perm.cons_inv hp) hx.2 hy.2
      intro k
      have h1 := hf k
      rw [List.filter_cons, List.filter_cons] at h1
      by_cases hkk : key y = k
      · simp only [hkk, decide_true, if_true] at h1
        exact (List.cons.inj h1).2
      · simpa [hkk] using h1
    rw [htl]

theorem stableSorted_of_sorted {α} {key : α → ETime} {xs ys : List α} (h : StableSortedDescE key xs ys)
    (hx : xs.Pairwise (fun a b => key b ≤ key a)) : ys = xs :=
  sorted_unique key xs ys h.perm hx h.sorted h.stable

/-! ### the order of the demes of the result -/

/-- when the demes of `G` are listed by non-increasing start time, the demes of the result are
`deme1 … deme{n}` in this order -/
theorem names_in_order {c : List String} {N0 : Q} {mg : MsGraph} {G : Graph} (hfrom : fromMs c N0 none = .ok mg)
    (rn : ResultNames mg G) (hso : G.demes.Pairwise (fun a b => b.startTime ≤ a.startTime)) :
    mg.graph.demes.map (·.name) = popNames G.demes.length := by
  obtain ⟨ks, ds, hks, hds, hst, hn, hperm⟩ := FromMs.fromMs_deme_k_is_population_k hfrom
  obtain ⟨hlen, hpt, _, _⟩ := FromMs.resolve_readback_sizes_migs hfrom
  -- the surviving Builder demes are `deme1 … deme{n}`, in this order
  have hdsn : ds.map (·.name) = popNames G.demes.length := by
    rw [hds]
    let le : String → String → Prop := fun s t => ∃ i j, s = Ms.demeName i ∧ t = Ms.demeName j ∧ i < j
    have hpw : ks.Pairwise (· < ·) := List.Pairwise.sublist hks List.pairwise_lt_range
    refine List.Perm.eq_of_pairwise (le := le) ?_ ?_ ?_ (hperm.symm.trans rn.perm)
    · rintro a b _ _ ⟨i, j, rfl, rfl, hij⟩ ⟨i', j', e1, e2, hij'⟩
      have := demeName_injective e1
      have := demeName_injective e2
      omega
    · exact List.pairwise_map.mpr (hpw.imp (fun h => ⟨_, _, rfl, rfl, h⟩))
    · unfold popNames
      exact List.pairwise_map.mpr (List.pairwise_lt_range.imp (fun h => ⟨_, _, rfl, rfl, h⟩))
  have hdl : ds.length = G.demes.length := by
    have := congrArg List.length hdsn; simpa [popNames_length] using this
  -- the start time of `deme{i+1}` is the start time of the `i`-th deme of `G`
  have hstart : ∀ (i : Nat) (hi : i < ds.length), ∃ d', G.demes[i]? = some d' ∧ ds[i].startTime = d'.startTime := by
    intro i hi
    have hname : ds[i].name = Ms.demeName i := by
      have := congrArg (fun l => l[i]?) hdsn
      simp only [List.getElem?_map, List.getElem?_eq_getElem hi, Option.map_some, popNames] at this
      rw [List.getElem?_range (by omega)] at this
      simpa using this
    have hmem : ds[i] ∈ mg.doc.demes := hst.perm.mem_iff.mpr (List.getElem_mem hi)
    obtain ⟨j, hj⟩ := List.mem_iff_getElem?.mp hmem
    have hjl : j < mg.graph.demes.length := by rw [hlen]; exact (List.getElem?_eq_some_iff.mp hj).1
    obtain ⟨e1, e2, _⟩ := hpt j ds[i] mg.graph.demes[j] hj (List.getElem?_eq_getElem hjl)
    obtain ⟨d', hd', hdd⟩ := rn.start mg.graph.demes[j] (List.getElem_mem hjl) i (e1.trans hname)
    exact ⟨d', hd', by rw [← e2]; exact hdd⟩
  have hsorted : ds.Pairwise (fun a b => b.startTime ≤ a.startTime) := by
    rw [List.pairwise_iff_getElem]
    intro i j hi hj hij
    obtain ⟨a, ha, ea⟩ := hstart i hi
    obtain ⟨b, hb, eb⟩ := hstart j hj
    rw [ea, eb]
    have hiG : i < G.demes.length := (List.getElem?_eq_some_iff.mp ha).1
    have hjG : j < G.demes.length := (List.getElem?_eq_some_iff.mp hb).1
    have := (List.pairwise_iff_getElem.mp hso) i j hiG hjG hij
    rw [(List.getElem?_eq_some_iff.mp ha).2, (List.getElem?_eq_some_iff.mp hb).2] at this
    exact this
  rw [hn, stableSorted_of_sorted hst hsorted, hdsn]

/-! ### the graph in generations with normalised proportions -/

theorem normGen_names (g : Graph) :
    (inGenerations (normalizeProportions g)).demes.map (·.name) = g.demes.map (·.name) := by
  show ((g.demes.map normDeme).map (Deme.scale _)).map (·.name) = _
  rw [List.map_map, List.map_map]
  rfl

theorem normGen_length (g : Graph) : (inGenerations (normalizeProportions g)).demes.length = g.demes.length := by
  have := congrArg List.length (normGen_names g)
  rw [List.length_map, List.length_map] at this
  exact this

theorem normGen_valid {g : Graph} (hv : validGraph g = true) :
    validGraph (inGenerations (normalizeProportions g)) = true :=
  InGen.inGenerations_valid _ (ToMsNorm.validGraph_norm hv)

theorem normGen_sorted {g : Graph} (hv : validGraph g = true) (hso : StartsSorted g = true) :
    (inGenerations (normalizeProportions g)).demes.Pairwise (fun a b => b.startTime ≤ a.startTime) := by
  have hpos : 0 < g.generationTime := by
    have h13 := (ToMs.clauses_of_valid hv).h13
    simp only [v13, Bool.and_eq_true, decide_eq_true_eq] at h13
    exact h13.1.1.2
  unfold StartsSorted at hso
  rw [pairwiseB_iff] at hso
  show ((g.demes.map normDeme).map (Deme.scale g.generationTime)).Pairwise _
  rw [List.map_map, List.pairwise_map]
  refine hso.imp ?_
  intro a b hab
  simp only [decide_eq_true_eq] at hab
  show (b.startTime.div g.generationTime) ≤ (a.startTime.div g.generationTime)
  exact (InGen.ediv_le_ediv hpos).mpr hab

/-! ### the theorems -/

/-- `ms_roundtrip_names` from acceptance (`hacc`) and the round trip without names (`hrt`) -/
theorem ms_roundtrip_names_of (c : NumCodec) (sa : Growth → String) {g : Graph} (hv : validGraph g = true)
    {N0 : Q} {toks : List (Tok Growth)}
    (hacc : ∃ mg, fromMs (renderG c sa toks) N0 none = .ok mg ∧ mg.graph = MsAcc.docGraph mg.table mg.doc)
    (hrt : ∀ mg, fromMs (renderG c sa toks) N0 none = .ok mg →
      ∃ sem rs gs, msSem (renderG c sa toks) N0 = .ok sem ∧ resultSem mg = .ok rs
        ∧ graphSem (inGenerations (normalizeProportions g)) none = .ok gs
        ∧ semEquiv sem rs = true ∧ SemRefines sem gs ∧ SemRefines rs gs) :
    ∃ mg mg' sem rs gs, fromMs (renderG c sa toks) N0 none = .ok mg
      ∧ fromMs (renderG c sa toks) N0 (some (g.demes.map (·.name))) = .ok mg'
      ∧ mg'.graph = renameDemes mg.graph (nameMap (g.demes.map (·.name))) ∧ mg'.table = mg.table ∧ mg'.doc = mg.doc
      ∧ validGraph mg'.graph = true ∧ mg'.graph.timeUnits = "generations" ∧ mg'.graph.generationTime = 1
      ∧ (mg'.graph.demes.map (·.name)).Perm (g.demes.map (·.name))
      ∧ (StartsSorted g = true → mg'.graph.demes.map (·.name) = g.demes.map (·.name))
      ∧ msSem (renderG c sa toks) N0 = .ok sem
      ∧ resultSem mg = .ok rs ∧ resultSemNamed mg' (g.demes.map (·.name)) = .ok rs
      ∧ graphSem (inGenerations (normalizeProportions g)) none = .ok gs
      ∧ semEquiv sem rs = true ∧ SemRefines sem gs ∧ SemRefines rs gs := by
  obtain ⟨mg, hfrom, hdoc⟩ := hacc
  obtain ⟨sem, rs, gs, h1, h2, h3, h4, h5, h6⟩ := hrt mg hfrom
  have rn := names_perm_of_refines hfrom h2 (normGen_valid hv) h3 h6
  have hlenG := normGen_length g
  have cl := ToMs.clauses_of_valid hv
  have hnd : (g.demes.map (·.name)).Nodup := ToMs.nodup_names cl
  have hid : ∀ n ∈ g.demes.map (·.name), isIdentifier n = true := by
    intro n hn
    obtain ⟨d, hd, rfl⟩ := List.mem_map.mp hn
    have h1 := cl.h1
    simp only [v1, Bool.and_eq_true, List.all_eq_true] at h1
    exact h1.1.2 d hd
  have hperm : (mg.graph.demes.map (·.name)).Perm (popNames (g.demes.map (·.name)).length) := by
    rw [List.length_map, ← hlenG]; exact rn.perm
  have hsome := fromMs_some_of_perm hfrom hperm hnd hid
  have hvm : validGraph mg.graph = true := FromMs.fromMs_valid hfrom
  have hle : (g.demes.map (·.name)).length ≤ mg.doc.numPops := by
    rw [List.length_map, ← hlenG]; exact rn.le
  have hnew : ((renameDemes mg.graph (nameMap (g.demes.map (·.name)))).demes.map (·.name)).Perm (g.demes.map (·.name)) := by
    have := hperm.map (nameMap (g.demes.map (·.name))).apply
    rw [popNames_map_apply] at this
    refine (List.Perm.of_eq ?_).trans this
    rw [rename_demes_rn, List.map_map, List.map_map]; rfl
  refine ⟨mg, _, sem, rs, gs, hfrom, hsome, rfl, rfl, rfl, FromMs.fromMs_valid_all hsome, ?_, ?_, hnew, ?_, h1, h2,
    resultSemNamed_eq hvm hperm hnd hle h2, h3, h4, h5, h6⟩
  · show (renameDemes mg.graph _).timeUnits = "generations"
    rw [(Proofs.rename_numbers_unchanged _ _).2.1, hdoc]; rfl
  · show (renameDemes mg.graph _).generationTime = 1
    rw [(Proofs.rename_numbers_unchanged _ _).2.2.1, hdoc]; rfl
  · intro hso
    have hord := names_in_order hfrom rn (normGen_sorted hv hso)
    show (renameDemes mg.graph _).demes.map (·.name) = _
    rw [rename_demes_rn, List.map_map]
    have : (mg.graph.demes.map (·.name)).map (nameMap (g.demes.map (·.name))).apply = g.demes.map (·.name) := by
      rw [hord, hlenG, ← List.length_map (f := fun d : Deme => d.name), popNames_map_apply]
    rw [List.map_map] at this
    exact this

/-- Statement of `Theorems.ms_roundtrip_names`. -/
theorem ms_roundtrip_names (c : NumCodec) (sa : Growth → String) {g : Graph} (hv : validGraph g = true)
    (hx : MsExpressible g = true) (hcs : ConstSizes g = true) (hpt : PulsesTame g = true)
    {N0 : Q} (hN : 0 < N0) {samples : Option (List Int)} (hs : samplesOk g samples = true)
    {toks : List (Tok Growth)} (htoks : toMs g N0 samples = .ok toks) (hc : CodecCovers c toks) :
    ∃ mg mg' sem rs gs, fromMs (renderG c sa toks) N0 none = .ok mg
      ∧ fromMs (renderG c sa toks) N0 (some (g.demes.map (·.name))) = .ok mg'
      ∧ mg'.graph = renameDemes mg.graph (nameMap (g.demes.map (·.name))) ∧ mg'.table = mg.table ∧ mg'.doc = mg.doc
      ∧ validGraph mg'.graph = true ∧ mg'.graph.timeUnits = "generations" ∧ mg'.graph.generationTime = 1
      ∧ (mg'.graph.demes.map (·.name)).Perm (g.demes.map (·.name))
      ∧ (StartsSorted g = true → mg'.graph.demes.map (·.name) = g.demes.map (·.name))
      ∧ msSem (renderG c sa toks) N0 = .ok sem
      ∧ resultSem mg = .ok rs ∧ resultSemNamed mg' (g.demes.map (·.name)) = .ok rs
      ∧ graphSem (inGenerations (normalizeProportions g)) none = .ok gs
      ∧ semEquiv sem rs = true ∧ SemRefines sem gs ∧ SemRefines rs gs :=
  ms_roundtrip_names_of c sa hv (MsAcc.ms_roundtrip_accepts c sa hv hx hcs hpt hN hs htoks hc)
    (fun _ hfrom => MsRT.ms_roundtrip_sem_tame_norm c sa hv hx hcs hpt hN hs htoks hc hfrom)

/-- Statement of `Theorems.ms_roundtrip_names_accepts`. -/
theorem ms_roundtrip_names_accepts (c : NumCodec) (sa : Growth → String) {g : Graph} (hv : validGraph g = true)
    (hx : MsExpressible g = true) (hcs : ConstSizes g = true) (hpt : PulsesTame g = true)
    {N0 : Q} (hN : 0 < N0) {samples : Option (List Int)} (hs : samplesOk g samples = true)
    {toks : List (Tok Growth)} (htoks : toMs g N0 samples = .ok toks) (hc : CodecCovers c toks) :
    ∃ mg', fromMs (renderG c sa toks) N0 (some (g.demes.map (·.name))) = .ok mg' := by
  obtain ⟨_, mg', _, _, _, _, h, _⟩ := ms_roundtrip_names c sa hv hx hcs hpt hN hs htoks hc
  exact ⟨mg', h⟩

/-- Statement of `Theorems.ms_roundtrip_names_order_partial`. -/
theorem ms_roundtrip_names_order (c : NumCodec) (sa : Growth → String) {g : Graph} (hv : validGraph g = true)
    (hx : MsExpressible g = true) (hcs : ConstSizes g = true) (hpt : PulsesTame g = true)
    {N0 : Q} (hN : 0 < N0) {samples : Option (List Int)} (hs : samplesOk g samples = true)
    {toks : List (Tok Growth)} (htoks : toMs g N0 samples = .ok toks) (hc : CodecCovers c toks)
    (hso : StartsSorted g = true) {mg' : MsGraph}
    (h : fromMs (renderG c sa toks) N0 (some (g.demes.map (·.name))) = .ok mg') :
    mg'.graph.demes.map (·.name) = g.demes.map (·.name) := by
  obtain ⟨_, mg'', _, _, _, _, h', _, _, _, _, _, _, _, hord, _⟩ := ms_roundtrip_names c sa hv hx hcs hpt hN hs htoks hc
  rw [h] at h'
  injection h' with h'
  subst h'
  exact hord hso

/-- Statement of `Theorems.graphSem_rename_invariant`. -/
theorem graphSem_rename_checked {sz : Q → Sz} {g g' : Graph} {r : Renaming} {names : List String}
    (hv : validGraph g = true) (hr : renameDemesChecked g r = .ok g')
    (hinj : ∀ x ∈ names, ∀ d ∈ g.demes, r.apply x = r.apply d.name → x = d.name) :
    (graphSemWith sz g' (some (names.map r.apply))).toOption = (graphSemWith sz g (some names)).toOption := by
  obtain ⟨_, rfl⟩ := (renameChecked_ok_iff _ _ _).mp hr
  exact graphSemWith_renameDemes hv hinj

/-- Statement of `Theorems.graphSem_rename_invariant_own_order`. -/
theorem graphSem_rename_checked_none {sz : Q → Sz} {g g' : Graph} {r : Renaming}
    (hv : validGraph g = true) (hr : renameDemesChecked g r = .ok g') :
    (graphSemWith sz g' none).toOption = (graphSemWith sz g none).toOption := by
  obtain ⟨hok, rfl⟩ := (renameChecked_ok_iff _ _ _).mp hr
  exact graphSemWith_renameDemes_none hv ((renameNamesOk_iff _ _).mp hok).1

/-- Statement of `Theorems.graphSem_extra_populations`. -/
theorem graphSem_extra {sz : Q → Sz} {g : Graph} {names : List String} (extra : List String)
    (hv : validGraph g = true) (hn : ∀ d ∈ g.demes, d.name ∈ names) :
    (graphSemWith sz g (some (names ++ extra))).toOption = (graphSemWith sz g (some names)).toOption :=
  graphSemWith_append extra ((mentions_of_valid hv).mono (fun x hx => by
    obtain ⟨d, hd, rfl⟩ := List.mem_map.mp hx
    exact hn d hd))

#print axioms ms_roundtrip_names
#print axioms ms_roundtrip_names_accepts
#print axioms ms_roundtrip_names_order
#print axioms graphSem_rename_checked
#print axioms graphSem_rename_checked_none
#print axioms graphSem_extra

end Demes.Proofs.MsNames
