/-
  C08, link C (movements), a wider fragment — the invariant of one time group through the options
  of the group: the `split_join_params`-free part of `GroupInv` (with the ideal parameter list as a
  ghost) together with `ParamsRel` for the real list.
-/
import DemesVerif.Proofs.FromMsWideInv
namespace Demes.Proofs.FromMs
open Demes Demes.Ms Demes.Spec.MsSem Demes.Spec.C08

/-- `lineage_movements` with the ideal parameter list -/
def ghostG (lm : List (List Q)) (D : List MOp) : GState := { lm := lm, params := D.map op0 }

/-- the Builder state after `-ej` -/
def joinStateW (s : BState) (T' : Q) (popI : Nat) (d' : BDeme) : BState :=
  { joinMatrix { s with demes := s.demes.set popI d' } T' popI with
    joined := (joinMatrix { s with demes := s.demes.set popI d' } T' popI).joined ++ [popI] }

theorem joinStateW_frame (s : BState) (T' : Q) (popI : Nat) (d' : BDeme) :
    (joinStateW s T' popI d').demes = s.demes.set popI d' ∧ (joinStateW s T' popI d').numDemes = s.numDemes
    ∧ (joinStateW s T' popI d').joined = s.joined ++ [popI] ∧ (joinStateW s T' popI d').pulses = s.pulses := by
  obtain ⟨f1, f2, f3, f4⟩ := joinMatrix_frame { s with demes := s.demes.set popI d' } T' popI
  refine ⟨f1, f2, ?_, f4⟩
  show _ ++ _ = _
  rw [f3]

structure GroupInvW (T' : Q) (n0 : Nat) (s0 : BState) (allOps : List MOp)
    (s : BState) (g : GState) (L : List (Nat × Row)) (done : List MOp) (pend : Option (Nat × Q))
    (rest : List Cmd) : Prop where
  core : GroupInv T' n0 s0 allOps s (ghostG g.lm (done ++ flushOp s.numDemes pend)) L done pend rest
  par : ParamsRel s g.params done pend (groupOpsAux s.numDemes pend rest)

/-- **one option of a time group** keeps the invariant, on the wide fragment -/
theorem stepEvent_groupInvW {N0 T T' : Q} {n0 : Nat} {s0 : BState} {allOps : List MOp}
    {s s' : BState} {g g' : GState} {σ σ' : St} {L L' : List (Nat × Row)} {ev : Event Num} {c : Cmd}
    {rest : List Cmd} {done : List MOp} {pend : Option (Nat × Q)}
    (hsim : SizeSim T s σ) (hc : cmdOf ev = some c)
    (hm : stepEvent N0 T' (s, g) ev = .ok (s', g')) (hs : Spec.MsSem.step N0 (σ, L) c = .ok (σ', L'))
    (hns : NSATS allOps) (hch : ChainOK allOps) (hp : FracOK c)
    (h : GroupInvW T' n0 s0 allOps s g L done pend (c :: rest)) :
    ∃ done' pend', GroupInvW T' n0 s0 allOps s' g' L' done' pend' rest := by
  have hlenD : s.demes.length = s.numDemes := by rw [hsim.len, hsim.num]
  have hjv : ∀ o ∈ done, o.2.2 = 1 → s.joined.contains (o.1 - 1) = true :=
    fun o ho hq => (h.core.joinedV o ho hq).1
  have hfq : ∀ o ∈ flushOp s.numDemes pend, o.2.2 < 1 := by
    intro o ho
    obtain ⟨i0, q0, hpe, rfl⟩ := mem_flushOp ho
    exact (h.core.pendOK i0 q0 hpe).2.2.2.1
  by_cases hsp : isSplit ev = true
  · cases ev with
    | split o t i p =>
      obtain ⟨tq, a, rfl, rfl, rfl⟩ := cmdOf_split hc
      rw [stepEvent_split] at hm
      obtain ⟨pid, hpid, hm⟩ := RV.bind_ok.1 hm
      obtain ⟨a', ha', hm⟩ := RV.bind_ok.1 hm
      split at hm
      · exact (assertionErr_bind_ok.1 hm).elim
      · cases hm
        cases finArg_ok ha'
        obtain ⟨_, _, _, hL⟩ := step_split_ok hs
        obtain ⟨q1, q2, q3, q4, q5⟩ := convertPopulationId_ok hpid
        have hidx : i.toNat - 1 = pid := by omega
        rw [← hsim.num] at hL
        refine ⟨done ++ flushOp s.numDemes pend, some (i.toNat, 1 - a), ⟨?_, ?_⟩⟩
        · apply groupInv_split h.core (by omega) (by omega) (by rw [hidx]; exact q5) hsim.jlt hp.1 hp.2 hlenD ?_ hL
          show List.map op0 (done ++ flushOp s.numDemes pend ++ flushOp (s.numDemes + 1) (some (i.toNat, 1 - a)))
            = List.map op0 (done ++ flushOp s.numDemes pend) ++ [(i.toNat - 1, s.numDemes, 1 - a)]
          rw [flushOp_some, List.map_append]
          rfl
        · have := paramsRel_split (N0 := N0) (T' := T') h.par hp.1 (by rw [hidx]; exact q5) hjv hfq (sizeSim_jlt hsim)
          rw [hidx] at this
          exact this
    | _ => cases hsp
  · have hsp' : isSplit ev = false := by simpa using hsp
    by_cases hj : isJoinEv ev = true
    · cases ev with
      | join o t i j =>
        obtain ⟨tq, rfl, rfl⟩ := cmdOf_join hc
        rw [stepEvent_join] at hm
        obtain ⟨popI, hI, hm⟩ := RV.bind_ok.1 hm
        obtain ⟨popJ, hJ, hm⟩ := RV.bind_ok.1 hm
        obtain ⟨s1, h1, hm⟩ := RV.bind_ok.1 hm
        cases hm
        obtain ⟨q, hq, _, hij, _, _, hL⟩ := step_join_ok hs
        obtain ⟨q1, q2, q3, q4, q5⟩ := convertPopulationId_ok hI
        obtain ⟨r1, r2, r3, r4, r5⟩ := convertPopulationId_ok hJ
        obtain ⟨d, d', hd, hfd, rfl⟩ := modifyDeme_ok h1
        have hidx : i.toNat - 1 = popI := by omega
        have hjdx : j.toNat - 1 = popJ := by omega
        obtain ⟨p1, p2, p3⟩ := pop_ok hq
        rw [hidx] at p2
        have hdinf : d.startTime = .inf := by
          obtain ⟨rr, _⟩ := hsim.rel popI d q hd p2
          rw [rr.2.2]
          simpa [alive] using p3
        have hd'e := joinDeme_ok hfd
        obtain ⟨fr1, fr2, fr3, fr4⟩ := joinStateW_frame s T' popI d'
        have hd'f : d'.startTime = .fin T' ∧ bEndTime d' = bEndTime d := by rw [hd'e]; exact ⟨rfl, rfl⟩
        show ∃ done' pend', GroupInvW T' n0 s0 allOps (joinStateW s T' popI d')
          { lm := joinLm g.lm popI popJ, params := joinParams g.params popI popJ } L' done' pend' rest
        by_cases hadm : ∃ i0 q0, pend = some (i0, q0) ∧ i.toNat = s.numDemes
        · obtain ⟨i0, q0, rfl, hin⟩ := hadm
          have hcore := h.core
          have hpar := h.par
          rw [hin] at hcore hpar hL hidx
          obtain ⟨_, _, _, pq, _, _, p7⟩ := hcore.pendOK i0 q0 rfl
          have hgh : (ghostG (joinLm g.lm popI popJ) (done ++ [(i0, j.toNat, q0)] ++ flushOp (joinStateW s T' popI d').numDemes none)).params
              = joinParams (ghostG g.lm (done ++ flushOp s.numDemes (some (i0, q0)))).params (s.numDemes - 1) (j.toNat - 1) := by
            have e1 : List.map op0 (done ++ flushOp s.numDemes (some (i0, q0)))
                = List.map op0 done ++ [(i0 - 1, s.numDemes - 1, q0)] := by
              rw [flushOp_some, List.map_append]; rfl
            show List.map op0 (done ++ [(i0, j.toNat, q0)] ++ flushOp _ none)
              = joinParams (List.map op0 (done ++ flushOp s.numDemes (some (i0, q0)))) (s.numDemes - 1) (j.toNat - 1)
            rw [e1]
            unfold joinParams
            rw [redirect_last]
            simp [flushOp, op0]
          refine ⟨done ++ [(i0, j.toNat, q0)], none, ⟨?_, ?_⟩⟩
          · exact groupInv_admix (s' := joinStateW s T' popI d') hcore (by omega) (by omega) (by omega) (by rw [hjdx]; exact r5)
              (by rw [hidx]; exact hd) hd'f (by rw [hidx]; exact fr1) fr2
              (by rw [hidx]; exact fr3) fr4 hgh hL
          · have := paramsRel_admix (k := j.toNat) (tq := tq) (s' := joinStateW s T' popI d')
              hpar pq hjv p7 (by rw [hidx]; exact fr1) fr2 (by rw [hidx]; exact fr3)
            rw [hidx, hjdx] at this
            exact this
        · have hpa : ∀ i0 q0, pend = some (i0, q0) → i.toNat ≠ s.numDemes :=
            fun i0 q0 hpe hin => hadm ⟨i0, q0, hpe, hin⟩
          obtain ⟨pos1, _, _⟩ := h.core.flushed
          have hlink : groupOpsAux s.numDemes pend (.join tq i.toNat j.toNat :: rest)
              = flushOp s.numDemes pend ++ (i.toNat, j.toNat, 1) :: groupOpsAux s.numDemes none rest := by
            cases hpe : pend with
            | none => rfl
            | some iq =>
              obtain ⟨i0, q0⟩ := iq
              have := hpa i0 q0 hpe
              show (if i.toNat = s.numDemes then _ else _) = _
              rw [if_neg this]; rfl
          have hall : allOps = (done ++ flushOp s.numDemes pend) ++ (i.toNat, j.toNat, 1) :: groupOpsAux s.numDemes none rest := by
            rw [h.core.link, hlink, List.append_assoc]
          have hgh : (ghostG (joinLm g.lm popI popJ) (done ++ flushOp s.numDemes pend ++ [(i.toNat, j.toNat, 1)]
                ++ flushOp (joinStateW s T' popI d').numDemes none)).params
              = (ghostG g.lm (done ++ flushOp s.numDemes pend)).params ++ [(i.toNat - 1, j.toNat - 1, 1)] := by
            show List.map op0 (done ++ flushOp s.numDemes pend ++ [(i.toNat, j.toNat, 1)] ++ flushOp _ none)
              = List.map op0 (done ++ flushOp s.numDemes pend) ++ [(i.toNat - 1, j.toNat - 1, 1)]
            simp [flushOp, op0]
          refine ⟨done ++ flushOp s.numDemes pend ++ [(i.toNat, j.toNat, 1)], none, ⟨?_, ?_⟩⟩
          · exact groupInv_joinG (s' := joinStateW s T' popI d') h.core hpa (by omega) (by omega) (by omega) (by omega) hij
              (by rw [hidx]; exact q5) (by rw [hjdx]; exact r5) (by rw [hidx]; exact hd) hdinf hd'f
              (by rw [hidx]; exact fr1) fr2 (by rw [hidx]; exact fr3) fr4 hgh hL
          · have := paramsRel_join (tq := tq) (tm := T') (rest := rest) (s' := joinStateW s T' popI d') (d := d) (d' := d')
              h.par hns hch hall hpa (fun o ho => ⟨(pos1 o ho).1, (pos1 o ho).2.1⟩) (by omega) hij
              (by rw [hidx]; exact q5) hjv hfq (by rw [hidx]; exact hd) (by rw [hjdx]; exact hd'e)
              (by rw [hidx]; exact fr1) fr2 (by rw [hidx]; exact fr3)
            rw [hidx, hjdx] at this
            exact this
      | _ => cases hj
    · have hj' : isJoinEv ev = false := by simpa using hj
      obtain ⟨e1, e2⟩ := stepEvent_nonmove hsp' hj' hm
      obtain ⟨f1, f2, f3, f4⟩ := stepEvent_nonmove_frame hsp' hj' hm
      have hcm := isMove_of_nonmove hc hsp' hj'
      have e3 := step_nonmove hcm hs
      rw [e1, e3]
      refine ⟨done, pend, ⟨?_, ?_⟩⟩
      · rw [e2]
        exact groupInv_nonmove hcm e2 f1 f2 f3 f4 h.core
      · exact paramsRel_nonmove hcm e2 f1 f3 (stepEvent_nonmove_header hsp' hj' hm) h.par

/-- all options of the group -/
theorem events_groupInvW {N0 T' : Q} {n0 : Nat} {s0 : BState} {allOps : List MOp} (hns : NSATS allOps)
    (hch : ChainOK allOps) :
    ∀ (evs : List (Event Num)) {T : Q} {s s' : BState} {g g' : GState} {σ σ' : St}
      {L L' : List (Nat × Row)} {done : List MOp} {pend : Option (Nat × Q)},
    SizeSim T s σ → T ≤ T' → (∀ e ∈ evs, HasCmd e) → (∀ e ∈ evs, 4 * N0 * (cmdOfD e).t = T') →
    (∀ e ∈ evs, FracOK (cmdOfD e)) →
    GroupInvW T' n0 s0 allOps s g L done pend (evs.map cmdOfD) →
    LmRel g.lm L → (∀ row ∈ g.lm, row.length = s.numDemes + (evs.filter isSplit).length) →
    evs.foldlM (stepEvent N0 T') (s, g) = .ok (s', g') →
    (evs.map cmdOfD).foldlM (Spec.MsSem.step N0) (σ, L) = .ok (σ', L') →
    ∃ done' pend', SizeSim T' s' σ' ∧ GroupInvW T' n0 s0 allOps s' g' L' done' pend' []
      ∧ LmRel g'.lm L' ∧ ∀ row ∈ g'.lm, row.length = s'.numDemes := by
  intro evs
  induction evs with
  | nil =>
    intro T s s' g g' σ σ' L L' done pend hsim hT _ _ _ hinv hrel hlen hm hs
    cases hm
    cases hs
    exact ⟨done, pend, hsim.mono hT, hinv, hrel, by simpa using hlen⟩
  | cons e evs ih =>
    intro T s s' g g' σ σ' L L' done pend hsim hT hall htime hfr hinv hrel hlen hm hs
    rw [List.foldlM_cons] at hm
    obtain ⟨⟨s1, g1⟩, h1, hm⟩ := RV.bind_ok.1 hm
    rw [List.map_cons, List.foldlM_cons] at hs
    obtain ⟨⟨σ1, L1⟩, hs1, hs⟩ := sbind_ok.1 hs
    have he := hall e (List.mem_cons_self ..)
    have ht := htime e (List.mem_cons_self ..)
    have hsim' := stepEvent_sizeSim hsim hT he ht.symm h1 hs1
    obtain ⟨done1, pend1, hinv1⟩ := stepEvent_groupInvW hsim he h1 hs1 hns hch (hfr e (List.mem_cons_self ..)) hinv
    obtain ⟨hrel1, hlen1⟩ := stepEvent_lm evs hsim he h1 hs1 hrel hlen
    exact ih hsim' (Rat.le_refl) (fun x hx => hall x (List.mem_cons_of_mem _ hx))
      (fun x hx => htime x (List.mem_cons_of_mem _ hx)) (fun x hx => hfr x (List.mem_cons_of_mem _ hx))
      hinv1 hrel1 hlen1 hm hs

/-- the invariant holds before the first option of the group, given that the demes of the populations
that are not joined have no `proportions` -/
theorem groupInvW_init {T T' : Q} {s : BState} {σ : St} (hsim : SizeSim T s σ) (cmds : List Cmd)
    (g : GState) (hg : g.params = [])
    (hprop : ∀ (j : Nat) (d : BDeme), s.demes[j]? = some d → s.joined.contains j = false → d.proportions = none) :
    GroupInvW T' s.numDemes s (groupOps s.numDemes cmds) s g (initL σ) [] none cmds := by
  refine ⟨groupInv_init hsim cmds _ rfl, ?_⟩
  rw [hg]
  refine ⟨rfl, fun e he => (by cases he), fun e he => (by cases he), fun o ho => (by cases ho), hprop, fun i q he => (by cases he)⟩

end Demes.Proofs.FromMs
