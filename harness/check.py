#!/venv/bin/python
"""Entry point of every check:  check <ID> [--tier quick|thorough] [--replay FILE]

Steps (DESIGN §5): regenerate tables from /repo + build, audit the property's registered
theorems, run the property's correspondence / Spec-predicate module, decide, write evidence.
Exit 0 = held (known findings are printed), 1 = violation, 2 = infrastructure failure.
"""
from __future__ import annotations

import argparse
import fcntl
import hashlib
import importlib
import json
import os
import random
import re
import subprocess
import sys
import time
import traceback
from collections import Counter

HERE = os.path.dirname(os.path.abspath(__file__))
VERIF = os.path.dirname(HERE)
LEAN = os.path.join(VERIF, "lean")
sys.path.insert(0, HERE)

import wire  # noqa: E402

STD_AXIOMS = {"propext", "Classical.choice", "Quot.sound"}
FORBIDDEN = re.compile(r"\bsorry\b|\badmit\b|^\s*axiom\s|native_decide|bv_decide|implemented_by|\bunsafe\s|maxHeartbeats\s+0")
TRUSTED_BASE = [
    "Lean 4.33.0 kernel (and leanchecker in the thorough tier)",
    "axioms: propext, Classical.choice, Quot.sound only (checked per theorem by lean/Audit.lean); no native_decide, no bv_decide, no sorry, no axioms of our own",
    "statements in lean/DemesVerif/Theorems/*.lean and definitions in lean/DemesVerif/Spec/*.lean say what the property says (pinned by lean/theorems.lock)",
    "tie to the source: harness/extract_tables.py (tables regenerated from /repo's AST every run) and the differential correspondence harness (sampling: Model = code on the cases run)",
    "CPython/attrs semantics, IEEE-754 rounding outside the dyadic grid, ruamel.yaml/json as text codecs are modelled or tested, not verified (DESIGN §6)",
]


def sh(cmd, cwd=None, timeout=None, env=None):
    p = subprocess.run(cmd, cwd=cwd, stdout=subprocess.PIPE, stderr=subprocess.STDOUT, timeout=timeout, env=env)
    return p.returncode, p.stdout.decode(errors="replace")


class Build:
    """regenerate + build; records which theorem modules failed to build"""

    def __init__(self):
        self.failed_modules = {}
        self.extract_failed = []
        self.log = ""

    def run(self, modules):
        os.makedirs(os.path.join(LEAN, ".lake"), exist_ok=True)
        lock = open(os.path.join(LEAN, ".lake", "verif.lock"), "w")
        fcntl.flock(lock, fcntl.LOCK_EX)
        try:
            rc, out = sh([sys.executable, os.path.join(HERE, "extract_tables.py")])
            self.log += out
            self.extract_failed = re.findall(r"EXTRACT-FAILED (\w+)", out)
            rc, out = sh(["lake", "build", "driver"], cwd=LEAN, timeout=1500)
            if rc != 0:
                self.log += out
                raise RuntimeError("driver build failed:\n" + out[-3000:])
            rc, out = sh(["lake", "build", "DemesVerif"], cwd=LEAN, timeout=3000)
            if rc != 0:
                self.log += out
                for m in modules:
                    rc2, out2 = sh(["lake", "build", m], cwd=LEAN, timeout=3000)
                    if rc2 != 0:
                        errs = re.findall(r"error: ([^\n]*\.lean:\d+:\d+[^\n]*)", out2)
                        self.failed_modules[m] = errs[:5] or [out2[-500:]]
        finally:
            fcntl.flock(lock, fcntl.LOCK_UN)
            lock.close()


def load_registry():
    with open(os.path.join(LEAN, "registry.json")) as fh:
        return json.load(fh)


def scan_forbidden():
    hits = []
    for root, _, files in os.walk(os.path.join(LEAN, "DemesVerif")):
        for f in files:
            if not f.endswith(".lean"):
                continue
            p = os.path.join(root, f)
            src = open(p, encoding="utf-8").read()
            src = re.sub(r"/-.*?-/", lambda m: "\n" * m.group(0).count("\n"), src, flags=re.S)
            for i, line in enumerate(src.split("\n"), 1):
                line = line.split("--")[0]
                if FORBIDDEN.search(line):
                    hits.append(f"{os.path.relpath(p, LEAN)}:{i}: {line.strip()[:80]}")
    return hits


def audit(pid, build: Build, tier="quick"):
    """returns (obligations, discharged, problems, details)"""
    reg = load_registry()
    entries = reg.get(pid, [])
    lock_path = os.path.join(LEAN, "theorems.lock")
    lock = json.load(open(lock_path)) if os.path.exists(lock_path) else {}
    problems = []
    details = []
    ok_entries = []
    for e in entries:
        if e["module"] in build.failed_modules:
            problems.append({"theorem": e["name"], "problem": "module does not build", "module": e["module"],
                             "errors": build.failed_modules[e["module"]]})
        else:
            ok_entries.append(e)
    if ok_entries:
        mods = sorted({e["module"] for e in ok_entries})
        rc, out = sh(["lake", "env", "lean", "--run", "Audit.lean", ",".join(mods)] + [e["name"] for e in ok_entries],
                     cwd=LEAN, timeout=900)
        res = {}
        for line in out.splitlines():
            try:
                j = json.loads(line)
                res[j["name"]] = j
            except Exception:  # noqa: BLE001
                continue
        for e in ok_entries:
            j = res.get(e["name"])
            if j is None or not j.get("exists"):
                problems.append({"theorem": e["name"], "problem": "constant missing from the compiled environment"})
                continue
            if not j.get("theorem"):
                problems.append({"theorem": e["name"], "problem": "not a theorem"})
                continue
            bad = sorted(set(j["axioms"]) - STD_AXIOMS)
            if bad:
                problems.append({"theorem": e["name"], "problem": f"non-standard axioms {bad}"})
                continue
            if e["name"] in lock and lock[e["name"]]["hash"] != j["hash"]:
                problems.append({"theorem": e["name"], "problem": "statement differs from theorems.lock",
                                 "now": j["statement"][:400]})
                continue
            if e["name"] not in lock:
                problems.append({"theorem": e["name"], "problem": "statement not in theorems.lock"})
                continue
            details.append({"theorem": e["name"], "axioms": j["axioms"], "statement": j["statement"][:300]})
    if tier == "thorough" and ok_entries:
        # independent re-check of the compiled modules
        mods = sorted({e["module"] for e in ok_entries})
        rc, out = sh(["lake", "env", "leanchecker"] + mods, cwd=LEAN, timeout=3000)
        if rc != 0:
            problems.append({"theorem": "*", "problem": "leanchecker rejects the compiled modules", "output": out[-600:]})
        else:
            details.append({"theorem": "*leanchecker*", "axioms": [], "statement": "leanchecker accepted " + " ".join(mods)})
    forb = scan_forbidden()
    for h in forb:
        problems.append({"theorem": "*", "problem": "forbidden token in Lean sources: " + h})
    return len(entries), len([d for d in details if d["theorem"] != "*leanchecker*"]), problems, details


class Ctx:
    def __init__(self, pid, tier, seed):
        self.pid = pid
        self.tier = tier
        self.seed = seed
        self.rng = random.Random(seed * 1000003 + int(hashlib.sha1(pid.encode()).hexdigest()[:6], 16))
        self.driver = wire.Driver()
        self.t0 = time.time()
        self.budget = 60 if tier == "quick" else 600
        self.evaluations = 0
        self.nontrivial = set()
        self.samples = []
        self.dist = Counter()
        self.compared = 0
        self.disagreements = []
        self.violations = []
        self.notes = []
        self.exhaustive = False
        self.extra = {}

    def time_left(self):
        return self.budget - (time.time() - self.t0)

    def count(self, case, nontrivial: bool, tags=()):
        """one evaluated case; `case` is any JSON-serialisable description used for distinctness"""
        self.evaluations += 1
        for t in tags:
            self.dist[t] += 1
        if nontrivial:
            h = hashlib.sha1(json.dumps(case, sort_keys=True, default=str).encode()).hexdigest()
            self.nontrivial.add(h)
        if len(self.samples) < 3 and nontrivial:
            self.samples.append(case)

    def disagreement(self, op, case, code_out, model_out):
        self.disagreements.append({"op": op, "input": case, "code": code_out, "model": model_out})

    def violation(self, what, case, detail=None, python=None):
        self.violations.append({"what": what, "input": case, "detail": detail, "reproduce": python})


def load_findings():
    p = os.path.join(VERIF, "known_findings.json")
    if not os.path.exists(p):
        return {"known": [], "fixed": []}
    return json.load(open(p))


def write_replay(pid, payload):
    os.makedirs(os.path.join(VERIF, "replays"), exist_ok=True)
    body = json.dumps(payload, indent=1, sort_keys=True, default=str)
    h = hashlib.sha1(body.encode()).hexdigest()[:10]
    path = os.path.join(VERIF, "replays", f"{pid}-{h}.json")
    with open(path, "w") as fh:
        fh.write(body)
    return path


def main():
    ap = argparse.ArgumentParser()
    ap.add_argument("pid")
    ap.add_argument("--tier", default=os.environ.get("VERIF_TIER", "quick"), choices=["quick", "thorough"])
    ap.add_argument("--replay")
    ap.add_argument("--update-lock", action="store_true")
    args = ap.parse_args()
    pid = args.pid
    seed = int(os.environ.get("VERIF_SEED", "0") or 0)
    t0 = time.time()
    manifest = json.load(open(os.path.join(VERIF, "MANIFEST.json")))
    claimed = {c["property_id"]: c for c in manifest["checks"]}
    level = claimed.get(pid, {}).get("level_claimed", {}).get("category", "proof")
    reg = load_registry()
    if args.update_lock:
        return update_lock(reg)
    try:
        mod = importlib.import_module(f"props.{pid.lower()}")
    except ModuleNotFoundError:
        print(f"no check module for {pid}")
        return 2
    modules = sorted({e["module"] for e in reg.get(pid, [])})
    build = Build()
    try:
        build.run(modules)
    except Exception as e:  # noqa: BLE001
        print(f"INFRASTRUCTURE: {e}")
        return 2
    if args.replay:
        ctx = Ctx(pid, args.tier, seed)
        return mod.replay(ctx, json.load(open(args.replay)))
    obligations, discharged, problems, details = audit(pid, build, args.tier)
    ctx = Ctx(pid, args.tier, seed)
    if problems:
        # broken obligation: spend more on the failing-input search (DESIGN §5.3)
        ctx.budget *= 2
    try:
        mod.run(ctx)
    except Exception as e:  # noqa: BLE001
        # The harness runs cleanly on the tree it was written against; if the code's behaviour has
        # moved so far that the harness itself fails, the correspondence no longer checks (§5.3).
        # Violations found before the failure are still reported.
        traceback.print_exc()
        ctx.disagreements.append({"op": "harness-exception", "input": None, "code": f"{type(e).__name__}: {e}"[:500],
                                  "model": traceback.format_exc()[-1500:]})
    findings = load_findings()
    import findings as fmod

    known_hits = {}
    new_violations = []
    for v in ctx.violations:
        k = fmod.match(pid, v, findings["known"])
        if k is not None:
            known_hits.setdefault(k["id"], (k, v))
        else:
            new_violations.append(v)
    rc = 0
    lines = []
    for fid, (k, v) in sorted(known_hits.items()):
        lines.append(f"KNOWN-FINDING: property={pid} {k['id']} {k['what']}")
    if new_violations:
        rc = 1
        seen = set()
        for v in new_violations:
            key = v["what"]
            if key in seen:
                continue
            seen.add(key)
            path = write_replay(pid, {"property": pid, "kind": "property-failing input on the real code", **v,
                                      "seed": seed, "tier": args.tier})
            lines.append(f"VIOLATION property={pid} replay={path}")
            if len(seen) >= 5:
                break
    elif problems or ctx.disagreements:
        rc = 1
        payload = {"property": pid, "kind": "proof obligation or correspondence no longer checks; no property-failing input found",
                   "broken_obligations": problems, "disagreements": ctx.disagreements[:5],
                   "searched": {"evaluations": ctx.evaluations, "distinct_nontrivial": len(ctx.nontrivial)},
                   "seed": seed, "tier": args.tier}
        path = write_replay(pid, payload)
        lines.append(f"VIOLATION property={pid} replay={path} no-failing-input-found")
    wall = time.time() - t0
    evidence = {
        "property_id": pid,
        "tier": args.tier,
        "seed": seed,
        "level": level,
        "coverage": {
            "obligations": obligations,
            "discharged": discharged,
            "checker_cmd": "cd /verif/lean && lake build && lake env lean --run Audit.lean <modules> <theorems>"
                           + (" && lake env leanchecker <modules>" if args.tier == "thorough" else ""),
            "trusted_base": TRUSTED_BASE,
            "theorems": details,
            "broken_obligations": problems,
            "evaluations": ctx.evaluations,
            "distinct_nontrivial": len(ctx.nontrivial),
            "rule": getattr(mod, "RULE", ""),
            "samples": ctx.samples or [d["theorem"] for d in details[:3]],
            "traces_validated_against_impl": ctx.compared,
            "disagreements_checked": len(ctx.disagreements),
            "input_distribution": dict(ctx.dist.most_common(60)),
            "exhaustive": ctx.exhaustive,
            "known_findings_hit": sorted(known_hits),
            "explanation": getattr(mod, "EXPLANATION", ""),
            **ctx.extra,
        },
        "assumptions": getattr(mod, "ASSUMPTIONS", []),
        "wall_s": round(wall, 2),
        "violations": len(new_violations) + (1 if (rc == 1 and not new_violations) else 0),
    }
    evdir = os.environ.get("VERIF_EVIDENCE_DIR") or os.path.join(VERIF, "evidence")
    os.makedirs(evdir, exist_ok=True)
    with open(os.path.join(evdir, f"{pid}.json"), "w") as fh:
        json.dump(evidence, fh, indent=1, default=str)
    for ln in lines:
        print(ln)
    print(f"{pid} {args.tier}: obligations {discharged}/{obligations}, {ctx.evaluations} cases "
          f"({len(ctx.nontrivial)} distinct non-trivial), {ctx.compared} compared with the implementation, "
          f"{len(ctx.disagreements)} disagreements, {len(new_violations)} violations, "
          f"{len(known_hits)} known findings, {wall:.1f}s -> exit {rc}")
    return rc


def update_lock(reg):
    build = Build()
    mods = sorted({e["module"] for es in reg.values() for e in es})
    build.run(mods)
    names = sorted({e["name"] for es in reg.values() for e in es})
    rc, out = sh(["lake", "env", "lean", "--run", "Audit.lean", ",".join(mods)] + names, cwd=LEAN, timeout=1800)
    lock = {}
    for line in out.splitlines():
        try:
            j = json.loads(line)
        except Exception:  # noqa: BLE001
            print(line)
            continue
        if j.get("exists"):
            lock[j["name"]] = {"hash": j["hash"], "statement": j["statement"]}
            bad = sorted(set(j["axioms"]) - STD_AXIOMS)
            if bad or not j.get("theorem"):
                print("WARNING", j["name"], bad, j.get("theorem"))
        else:
            print("MISSING", j["name"])
    with open(os.path.join(LEAN, "theorems.lock"), "w") as fh:
        json.dump(lock, fh, indent=1, sort_keys=True)
    print(f"locked {len(lock)} statements")
    return 0


if __name__ == "__main__":
    sys.exit(main())
