/-
  Spec definitions for C20 — "the work done to resolve, convert and serialise grows
  polynomially": the explicit polynomials (in the numbers of demes `D`, epochs `E`, ancestor
  references `A`, migrations after symmetric expansion `M`, pulses `P`, pulse source
  references `S`, and the sizes of the proportion lists / free-form header) that bound the step
  counts of `Model/Cost.lean`, and the ring family that witnesses the failure of the property
  for `asdict_simplified` (F9).
-/
import DemesVerif.Model.Cost
namespace Demes.Spec
open Demes

/-! ### the bounds -/

/-- bound for `migration_matrices`: degree 3 (boundaries² + boundaries·D² + M·(D + boundaries)) -/
def polyMatrices (D M : Nat) : Nat :=
  1 + 2 * M + (2 * M) * (2 * M) + (2 * M + 1) * (D * D) + M * (2 * D + 2 * M + 2)

/-- bound for the row-sum loop of `_check_migration_rates`: degree 3 -/
def polyCheckRates (D M : Nat) : Nat := (2 * M + 1) * (1 + D * (1 + D))

/-- bound for `Graph.fromdict`: degree 3 in `D, E, A, M, P, S` (`Pr`, `PrP`, `H`: numbers of
ancestry proportions, pulse proportions, header items enter linearly) -/
def polyResolve (D E A Pr M P S PrP H : Nat) : Nat :=
  24 + H
    + (D * (1 + D) + A * (3 * D + A) + Pr + E)
    + M * (1 + 6 * D + M)
    + polyMatrices D M + polyCheckRates D M
    + (P * (1 + 2 * D + P) + 3 * D * S + S * S + PrP)
    + P * (P + 1)

/-- bound for `Graph.fromdict` of a valid graph in `D, E, M, P` only (`A, Pr ≤ D²`,
`S, PrP ≤ P·D`): degree 4 -/
def polyResolveValid (D E M P H : Nat) : Nat :=
  polyResolve D E (D * D) (D * D) M P (P * D) (P * D) H

/-- bound for `Graph.asdict`: linear -/
def polyAsdict (D E A Pr M P S PrP H : Nat) : Nat :=
  8 + H + (6 * D + A + Pr + 6 * E) + 5 * M + (4 * P + S + PrP)

/-- bound for `Graph.in_generations`: linear -/
def polyInGenerations (D E M P : Nat) : Nat := 3 + D + E + M + P

/-- bound for `Graph.asdict_simplified` when no two migrations share `(rate, start, end)`:
degree 2 -/
def polySimplifyDistinct (D E A Pr M P S PrP H : Nat) : Nat :=
  polyAsdict D E A Pr M P S PrP H + M * (1 + 2 * D) + M * (M + 1) + 2 * M + D * (1 + D) + E

/-! ### the ring family (F9 witness) -/

/-- pairwise distinct identifiers `a`, `aa`, `aaa`, … -/
def ringName (i : Nat) : String := String.ofList (List.replicate (i + 1) 'a')

def ringDeme (i : Nat) : Deme :=
  { name := ringName i, description := "", startTime := .inf, ancestors := [], proportions := [],
    epochs := [{ startTime := .inf, endTime := 0, startSize := 100, endSize := 100,
                 sizeFunction := "constant", selfingRate := 0, cloningRate := 0 }] }

/-- all migrations of the ring share this rate and have no explicit bounds -/
def ringRate : Q := 1 / 4096

def ringMig (e : Nat × Nat) : Migration :=
  { source := ringName e.1, dest := ringName e.2, startTime := .inf, endTime := 0, rate := ringRate }

/-- the `2n` ordered neighbour pairs of the cycle `0 — 1 — … — (n-1) — 0` -/
def ringEdges (n : Nat) : List (Nat × Nat) :=
  (List.range (n - 1)).flatMap (fun i => [(i, i + 1), (i + 1, i)]) ++ [(n - 1, 0), (0, n - 1)]

/-- a ring of `n` demes: `2n` directed migrations between neighbours, one shared rate -/
def ring (n : Nat) : Graph :=
  { description := "", timeUnits := "generations", generationTime := 1, doi := [], metadata := [],
    demes := (List.range n).map ringDeme,
    migrations := (ringEdges n).map ringMig,
    pulses := [],
    index := (List.range n).map (fun i => (ringName i, i)) }

end Demes.Spec
