/-
  C12 — migration matrices agree pointwise with the graph's migrations.
-/
import DemesVerif.Proofs.Matrices
namespace Demes.Theorems
open Demes Demes.Spec

/-- On a valid graph `migration_matrices()` does not raise; the end times are non-empty,
strictly decreasing and finish at 0, and there is one matrix per end time. -/
theorem matrices_end_times (g : Graph) (hv : validGraph g = true) :
    ∃ mms ends, migrationMatrices g = .ok (mms, ends) ∧ ends ≠ [] ∧ ends.getLast? = some 0
      ∧ ends.Pairwise (· > ·) ∧ mms.length = ends.length :=
  Proofs.matrices_end_times g hv

/-- For every time `t ≥ 0` there is a matrix whose interval contains `t`, and its entry
(row = destination, column = source, indexed by deme order) is the rate of the migration
active at `t` for that ordered pair, 0 when none is active. -/
theorem matrices_pointwise (g : Graph) (hv : validGraph g = true) (mms : List Matrix) (ends : List Q)
    (h : migrationMatrices g = .ok (mms, ends)) (t : Q) (ht : 0 ≤ t)
    (i j : Nat) (di dj : Deme) (hi : g.demes[i]? = some di) (hj : g.demes[j]? = some dj) :
    ∃ k mm, intervalOf ends t = some k ∧ mms[k]? = some mm
      ∧ mm.get i j = rateAt g dj.name di.name t :=
  Proofs.matrices_pointwise g hv mms ends h t ht i j di dj hi hj

/-- non-vacuity: a concrete two-deme graph with two migrations is valid, and its matrices
are as expected. -/
example : validGraph Proofs.exampleGraph = true := by decide +kernel

end Demes.Theorems
