/-
  C08, after the event loop (1): `Builder._add_migrations_from_matrices`.

  The sweep over the matrix history (`mm_list`, `mm_end_times`, most ancient matrix first) emits,
  for every ordered pair of different demes, one migration per maximal run of equal non-zero
  rates.  `addMigrations_sem`: at every time `t` the (at most one) emitted migration of the pair
  `(j, k)` that is active at `t` (`end_time ≤ t < start_time`) carries the entry `[j][k]` of the
  matrix in force at `t` (`mmRateAt`); nothing is active where that entry is zero or where no
  matrix is in force.
-/
import DemesVerif.Proofs.FromMsMigFold
import Mathlib.Data.List.Nodup
namespace Demes.Proofs.FromMs
open Demes Demes.Ms Demes.Spec.MsSem Demes.Spec.C08
open Demes.Proofs.RV (bind_ok pure_ok)

/-! ## `ETime` order, as rewriting rules -/

@[simp] theorem et_fin_lt_fin (a b : Q) : (ETime.fin a < ETime.fin b) ↔ a < b := Iff.rfl
@[simp] theorem et_fin_le_fin (a b : Q) : (ETime.fin a ≤ ETime.fin b) ↔ a ≤ b := Iff.rfl
@[simp] theorem et_fin_lt_inf (a : Q) : (ETime.fin a < ETime.inf) ↔ True := Iff.rfl
@[simp] theorem et_le_inf (a : ETime) : (a ≤ ETime.inf) ↔ True := by cases a <;> exact Iff.rfl
@[simp] theorem et_inf_le_fin (a : Q) : (ETime.inf ≤ ETime.fin a) ↔ False := Iff.rfl
@[simp] theorem et_inf_lt (a : ETime) : (ETime.inf < a) ↔ False := by cases a <;> exact Iff.rfl

theorem et_lt_of_lt_of_le {a b c : ETime} (h1 : a < b) (h2 : b ≤ c) : a < c := by
  cases a <;> cases b <;> cases c
  all_goals simp at *
  all_goals grind

theorem et_lt_of_le_of_lt {a b c : ETime} (h1 : a ≤ b) (h2 : b < c) : a < c := by
  cases a <;> cases b <;> cases c
  all_goals simp at *
  all_goals grind

theorem et_le_of_lt {a b : ETime} (h : a < b) : a ≤ b := by
  cases a <;> cases b
  all_goals simp at *
  all_goals grind

theorem et_not_lt {a b : ETime} : ¬ a < b ↔ b ≤ a := by
  cases a <;> cases b <;> simp

theorem et_not_le {a b : ETime} : ¬ a ≤ b ↔ b < a := by
  cases a <;> cases b <;> simp

/-! ## the observable of a migration list -/

theorem numEq_eq {a b : Num} (h : numEq a b = true) : a = b := by
  cases a <;> cases b <;> simp [numEq] at h ⊢
  exact h

/-! ## association lists -/

theorem lookup_append_single {β} (l : List ((Nat × Nat) × β)) (a : Nat × Nat) (b : β) (x : Nat × Nat) :
    (l ++ [(a, b)]).lookup x = match l.lookup x with
      | some v => some v
      | none => if x == a then some b else none := by
  induction l with
  | nil => simp [List.lookup]; split <;> simp_all
  | cons p l ih =>
    obtain ⟨a', b'⟩ := p
    simp only [List.cons_append, List.lookup_cons]
    split
    · rfl
    · exact ih

theorem lookup_filter_ne {β} (l : List ((Nat × Nat) × β)) (a x : Nat × Nat) :
    (l.filter (fun c => c.1 ≠ a)).lookup x = if x = a then none else l.lookup x := by
  induction l with
  | nil => simp
  | cons p l ih =>
    obtain ⟨a', b'⟩ := p
    rw [List.filter_cons]
    by_cases h : a' = a
    · subst h
      simp only [ne_eq, not_true_eq_false, decide_false, Bool.false_eq_true, if_false, List.lookup_cons]
      rw [ih]
      by_cases hx : x = a'
      · simp [hx]
      · have : (x == a') = false := by simpa using hx
        simp [hx, this]
    · have hd : decide ((a', b').1 ≠ a) = true := by simpa using h
      rw [if_pos hd]
      simp only [List.lookup_cons]
      rw [ih]
      by_cases hx : x = a'
      · subst hx
        simp [h]
      · have : (x == a') = false := by simpa using hx
        simp [this]

theorem lookup_map_repl {β} (l : List ((Nat × Nat) × β)) (a x : Nat × Nat) (v : β) :
    (l.map (fun c => if c.1 = a then (a, v) else c)).lookup x
      = if x = a then (l.lookup a).map (fun _ => v) else l.lookup x := by
  induction l with
  | nil => simp
  | cons p l ih =>
    obtain ⟨a', b'⟩ := p
    simp only [List.map_cons, List.lookup_cons]
    by_cases h : a' = a
    · subst h
      simp only [if_true]
      by_cases hx : x = a'
      · subst hx; simp
      · have : (x == a') = false := by simpa using hx
        simp only [List.lookup_cons, this, hx, if_false]
        rw [ih, if_neg hx]
    · simp only [h, if_false, List.lookup_cons]
      by_cases hx : x = a'
      · subst hx
        simp [h]
      · have h1 : (x == a') = false := by simpa using hx
        simp only [h1]
        rw [ih]
        by_cases hxa : x = a
        · subst hxa
          have : (x == a') = false := h1
          simp [this]
        · simp [hxa]

theorem filter_modify_of_false {α} (p : α → Bool) (f : α → α) (l : List α) (i : Nat)
    (h1 : ∀ x, l[i]? = some x → p x = false ∧ p (f x) = false) : (l.modify i f).filter p = l.filter p := by
  induction l generalizing i with
  | nil => simp
  | cons a l ih =>
    cases i with
    | zero =>
      obtain ⟨h2, h3⟩ := h1 a (by simp)
      simp [List.modify_cons, h2, h3]
    | succ i =>
      simp only [List.modify_succ_cons, List.filter_cons]
      rw [ih i (fun x hx => h1 x (by simpa using hx))]


/-! ## `activeRates` -/

theorem activeRates_append (names : List String) (l1 l2 : List BMigration) (j k : Nat) (t : Q) :
    activeRates names (l1 ++ l2) j k t = activeRates names l1 j k t ++ activeRates names l2 j k t := by
  simp [activeRates, List.filter_append]

theorem activeRates_single (names : List String) (mg : BMigration) (j k : Nat) (t : Q) :
    activeRates names [mg] j k t = if pairIs names j k mg && covers t mg then [mg.rate] else [] := by
  unfold activeRates
  by_cases h1 : pairIs names j k mg = true
  · by_cases h2 : covers t mg = true
    · simp [h1, h2]
    · simp [h1, h2]
  · simp [h1]

theorem activeRates_modify (names : List String) (j k : Nat) (t : Q) (f : BMigration → BMigration) :
    ∀ (l : List BMigration) (idx : Nat) (mg : BMigration), l[idx]? = some mg →
    ∃ A1 A2, activeRates names l j k t = A1 ++ activeRates names [mg] j k t ++ A2
      ∧ activeRates names (l.modify idx f) j k t = A1 ++ activeRates names [f mg] j k t ++ A2 := by
  intro l
  induction l with
  | nil => intro idx mg h; simp at h
  | cons a l ih =>
    intro idx mg h
    cases idx with
    | zero =>
      simp only [List.getElem?_cons_zero, Option.some.injEq] at h
      subst h
      refine ⟨[], activeRates names l j k t, ?_, ?_⟩
      · rw [List.nil_append, ← activeRates_append]; rfl
      · rw [List.nil_append, ← activeRates_append]; rfl
    | succ idx =>
      simp only [List.getElem?_cons_succ] at h
      obtain ⟨A1, A2, e1, e2⟩ := ih idx mg h
      refine ⟨activeRates names [a] j k t ++ A1, A2, ?_, ?_⟩
      · have : a :: l = [a] ++ l := rfl
        rw [this, activeRates_append, e1]
        simp
      · have : (a :: l).modify (idx + 1) f = [a] ++ l.modify idx f := rfl
        rw [this, activeRates_append, e2]
        simp

theorem getD_inj {names : List String} (hnd : names.Nodup) {j j' : Nat} (hj : j < names.length)
    (hj' : j' < names.length) (h : names.getD j "" = names.getD j' "") : j = j' := by
  exact (List.getD_inj hj hj' hnd).mp h

theorem pairIs_unique {names : List String} (hnd : names.Nodup) {j k j' k' : Nat}
    (hj : j < names.length) (hk : k < names.length) (hj' : j' < names.length) (hk' : k' < names.length)
    {x : BMigration} (h1 : pairIs names j k x = true) (h2 : pairIs names j' k' x = true) : (j', k') = (j, k) := by
  unfold pairIs at h1 h2
  simp only [Bool.and_eq_true, decide_eq_true_eq] at h1 h2
  have a := getD_inj hnd hj' hj (h2.1.symm.trans h1.1)
  have b := getD_inj hnd hk' hk (h2.2.symm.trans h1.2)
  rw [a, b]

/-! ## one cell of the sweep -/

/-- what the sweep knows about the pair `(j, k)` when the matrices down to the boundary `B` have
been processed, `F` being the history of the entry `[j][k]` (`none` below `B`):
the active migrations realise `F`; `current[(j, k)]` exists exactly when the entry just above
`B` is non-zero, and then points to the migration that ends at `B`, of that rate -/
structure CellOK (names : List String) (acc : MigSweep) (B : ETime) (F : Q → Option Num) (j k : Nat) : Prop where
  act : ∀ t, activeRates names acc.migrations j k t = expectedRates (F t)
  below : ∀ t, ETime.fin t < B → F t = none
  cur : match acc.current.lookup (j, k) with
    | none => ∀ b, B = .fin b → ∃ r, F b = some r ∧ numEq r (.fin 0) = true
    | some idx => ∃ b mg, B = .fin b ∧ acc.migrations[idx]? = some mg ∧ pairIs names j k mg = true
        ∧ mg.endTime = b ∧ ETime.fin b < mg.startTime ∧ F b = some mg.rate ∧ numEq mg.rate (.fin 0) = false

/-- the history of an entry after the matrix with this entry `r` has been processed down to `e` -/
def nextF (B : ETime) (e : Q) (r : Num) (F : Q → Option Num) : Q → Option Num :=
  fun t => if B ≤ ETime.fin t then F t else if e ≤ t then some r else none

/-- the migration the sweep opens for the cell `(j, k)` -/
def mkMig (names : List String) (B : ETime) (e : Q) (m : MM) (j k : Nat) : BMigration :=
  { source := names.getD k "", dest := names.getD j "", startTime := B, endTime := e, rate := mmGet m j k }

theorem pairIs_mkMig (names : List String) (B : ETime) (e : Q) (m : MM) (j k : Nat) :
    pairIs names j k (mkMig names B e m j k) = true := by
  simp [pairIs, mkMig]

/-- the three shapes of one cell step -/
theorem cell_shape {names : List String} {acc : MigSweep} {B : ETime} {F : Q → Option Num} {j k : Nat}
    (h : CellOK names acc B F j k) (e : Q) (he : ETime.fin e < B) (m : MM) (acc' : MigSweep)
    (hacc : MigSweep.cell names B e m acc (j, k) = acc') :
    (∀ x, x ≠ (j, k) → acc'.current.lookup x = acc.current.lookup x) ∧
    (acc'.migrations = acc.migrations ∨ acc'.migrations = acc.migrations ++ [mkMig names B e m j k] ∨
      ∃ idx mg, acc.migrations[idx]? = some mg ∧ pairIs names j k mg = true ∧ ETime.fin e < mg.startTime
        ∧ acc'.migrations = acc.migrations.modify idx (fun mg => { mg with endTime := e })) := by
  have hc := h.cur
  unfold MigSweep.cell at hacc
  dsimp only at hacc
  cases hl : acc.current.lookup (j, k) with
  | none =>
    rw [hl] at hacc
    dsimp only at hacc
    split at hacc
    · subst hacc
      refine ⟨?_, Or.inr (Or.inl rfl)⟩
      intro x hx
      dsimp only
      rw [lookup_append_single]
      cases acc.current.lookup x with
      | some v => rfl
      | none =>
        have : (x == (j, k)) = false := by simpa using hx
        simp [this]
    · subst hacc
      exact ⟨fun _ _ => rfl, Or.inl rfl⟩
  | some idx =>
    rw [hl] at hc hacc
    obtain ⟨b, mg, hB, hidx, hp, hend, hlt, hFb, hnz⟩ := hc
    dsimp only at hacc
    split at hacc
    · subst hacc
      refine ⟨?_, Or.inl rfl⟩
      intro x hx
      dsimp only
      rw [lookup_filter_ne, if_neg hx]
    · split at hacc
      · subst hacc
        refine ⟨fun _ _ => rfl, Or.inr (Or.inr ⟨idx, mg, hidx, hp, ?_, rfl⟩)⟩
        rw [hB] at he
        exact et_lt_of_lt_of_le (b := ETime.fin b) he (et_le_of_lt hlt)
      · subst hacc
        refine ⟨?_, Or.inr (Or.inl rfl)⟩
        intro x hx
        dsimp only
        rw [lookup_map_repl, if_neg hx]


theorem expectedRates_zero {r : Num} (h : numEq r (.fin 0) = true) : expectedRates (some r) = [] := by
  simp [expectedRates, h]

theorem expectedRates_nz {r : Num} (h : numEq r (.fin 0) = false) : expectedRates (some r) = [r] := by
  simp [expectedRates, h]

theorem nextF_above {B : ETime} {e : Q} {r : Num} {F : Q → Option Num} {t : Q} (h : B ≤ ETime.fin t) :
    nextF B e r F t = F t := if_pos h

theorem nextF_mid {B : ETime} {e : Q} {r : Num} {F : Q → Option Num} {t : Q} (h1 : ETime.fin t < B) (h2 : e ≤ t) :
    nextF B e r F t = some r := by
  unfold nextF
  rw [if_neg (et_not_le.mpr h1), if_pos h2]

theorem nextF_low {B : ETime} {e : Q} {r : Num} {F : Q → Option Num} {t : Q} (h1 : ETime.fin t < B) (h2 : ¬ e ≤ t) :
    nextF B e r F t = none := by
  unfold nextF
  rw [if_neg (et_not_le.mpr h1), if_neg h2]

theorem nextF_below {B : ETime} {e : Q} {r : Num} {F : Q → Option Num} (he : ETime.fin e < B) (t : Q)
    (ht : ETime.fin t < ETime.fin e) : nextF B e r F t = none := by
  have ht' : t < e := ht
  apply nextF_low
  · exact et_lt_of_lt_of_le (b := ETime.fin e) ht (et_le_of_lt he)
  · grind

theorem nextF_at {B : ETime} {e : Q} {r : Num} {F : Q → Option Num} (he : ETime.fin e < B) :
    nextF B e r F e = some r := nextF_mid he Rat.le_refl

/-- the entry is zero and the migrations are untouched -/
theorem act_same {names : List String} {migs : List BMigration} {B : ETime} {F : Q → Option Num} {j k : Nat}
    (hact : ∀ t, activeRates names migs j k t = expectedRates (F t)) (hbelow : ∀ t, ETime.fin t < B → F t = none)
    {e : Q} {r : Num} (hr : numEq r (.fin 0) = true) (t : Q) :
    activeRates names migs j k t = expectedRates (nextF B e r F t) := by
  by_cases h1 : B ≤ ETime.fin t
  · rw [nextF_above h1]; exact hact t
  · have h1' := et_not_le.mp h1
    rw [hact t, hbelow t h1']
    by_cases h2 : e ≤ t
    · rw [nextF_mid h1' h2, expectedRates_zero hr]; rfl
    · rw [nextF_low h1' h2]

/-- a new migration `[e, B)` of a non-zero rate is appended -/
theorem act_append {names : List String} {migs : List BMigration} {B : ETime} {F : Q → Option Num} {j k : Nat}
    (hact : ∀ t, activeRates names migs j k t = expectedRates (F t)) (hbelow : ∀ t, ETime.fin t < B → F t = none)
    {e : Q} (m : MM) (hr : numEq (mmGet m j k) (.fin 0) = false) (t : Q) :
    activeRates names (migs ++ [mkMig names B e m j k]) j k t = expectedRates (nextF B e (mmGet m j k) F t) := by
  rw [activeRates_append, activeRates_single, pairIs_mkMig, Bool.true_and]
  have hcov : covers t (mkMig names B e m j k) = (decide (e ≤ t) && decide (ETime.fin t < B)) := rfl
  rw [hcov]
  by_cases h1 : B ≤ ETime.fin t
  · rw [nextF_above h1, hact t]
    have : ¬ ETime.fin t < B := et_not_lt.mpr h1
    simp [this]
  · have h1' := et_not_le.mp h1
    rw [hact t, hbelow t h1']
    by_cases h2 : e ≤ t
    · rw [nextF_mid h1' h2, expectedRates_nz hr]
      simp [h1', h2, expectedRates]
      rfl
    · rw [nextF_low h1' h2]
      simp [h2, expectedRates]

/-- the migration that ends at `B = b` is extended down to `e` -/
theorem act_modify {names : List String} {migs : List BMigration} {b : Q} {F : Q → Option Num} {j k : Nat}
    (hact : ∀ t, activeRates names migs j k t = expectedRates (F t))
    (hbelow : ∀ t, ETime.fin t < ETime.fin b → F t = none)
    {idx : Nat} {mg : BMigration} (hidx : migs[idx]? = some mg) (hp : pairIs names j k mg = true)
    (hend : mg.endTime = b) (hlt : ETime.fin b < mg.startTime) (hnz : numEq mg.rate (.fin 0) = false)
    {e : Q} (he : e < b) (t : Q) :
    activeRates names (migs.modify idx (fun mg => { mg with endTime := e })) j k t
      = expectedRates (nextF (ETime.fin b) e mg.rate F t) := by
  obtain ⟨A1, A2, e1, e2⟩ := activeRates_modify names j k t (fun mg => { mg with endTime := e }) migs idx mg hidx
  rw [e2]
  have hp' : pairIs names j k { mg with endTime := e } = true := hp
  rw [activeRates_single, hp', Bool.true_and]
  rw [activeRates_single, hp, Bool.true_and] at e1
  have hc1 : covers t mg = (decide (b ≤ t) && decide (ETime.fin t < mg.startTime)) := by
    unfold covers; rw [hend]
  have hc2 : covers t { mg with endTime := e } = (decide (e ≤ t) && decide (ETime.fin t < mg.startTime)) := rfl
  rw [hc2]
  rw [hc1] at e1
  by_cases h1 : b ≤ t
  · rw [nextF_above (show ETime.fin b ≤ ETime.fin t from h1), ← hact t, e1]
    have : e ≤ t := by grind
    simp [h1, this]
  · have h1' : ETime.fin t < ETime.fin b := by
      show t < b
      grind
    have hnil := hact t
    rw [hbelow t h1', e1] at hnil
    simp only [h1, decide_false, Bool.false_and, Bool.false_eq_true, if_false, List.append_nil] at hnil
    have hA : A1 = [] ∧ A2 = [] := by
      have : A1 ++ A2 = [] := hnil
      exact List.append_eq_nil_iff.mp this
    rw [hA.1, hA.2]
    have hts : ETime.fin t < mg.startTime := et_lt_of_lt_of_le (b := ETime.fin b) h1' (et_le_of_lt hlt)
    by_cases h2 : e ≤ t
    · rw [nextF_mid h1' h2, expectedRates_nz hnz]
      simp [h2, hts]
    · rw [nextF_low h1' h2]
      simp [h2, expectedRates]

/-- **one cell**: after the step for `(j, k)` the invariant of `(j, k)` holds for the boundary `e` -/
theorem cell_self {names : List String} {acc : MigSweep} {B : ETime} {F : Q → Option Num} {j k : Nat}
    (h : CellOK names acc B F j k) (e : Q) (he : ETime.fin e < B) (m : MM) :
    CellOK names (MigSweep.cell names B e m acc (j, k)) (.fin e) (nextF B e (mmGet m j k) F) j k := by
  have hc := h.cur
  have hzero : ∀ b, ETime.fin e = ETime.fin b → numEq (mmGet m j k) (.fin 0) = true →
      ∃ r, nextF B e (mmGet m j k) F b = some r ∧ numEq r (.fin 0) = true := by
    intro b hb hr
    injection hb with hb
    subst hb
    exact ⟨_, nextF_at he, hr⟩
  unfold MigSweep.cell
  dsimp only
  cases hl : acc.current.lookup (j, k) with
  | none =>
    dsimp only
    by_cases hr : numEq (mmGet m j k) (.fin 0) = true
    · simp only [hr, Bool.not_true, Bool.false_eq_true, if_false]
      refine ⟨act_same h.act h.below hr, nextF_below he, ?_⟩
      rw [hl]
      exact fun b hb => hzero b hb hr
    · have hr' : numEq (mmGet m j k) (.fin 0) = false := by simpa using hr
      simp only [hr', Bool.not_false, if_true]
      refine ⟨act_append h.act h.below m hr', nextF_below he, ?_⟩
      dsimp only
      rw [lookup_append_single, hl]
      simp only [BEq.rfl, if_true]
      refine ⟨e, mkMig names B e m j k, rfl, List.getElem?_concat_length .., pairIs_mkMig .., rfl, he, nextF_at he, hr'⟩
  | some idx =>
    rw [hl] at hc
    obtain ⟨b, mg, hB, hidx, hp, hend, hlt, hFb, hnz⟩ := hc
    dsimp only
    by_cases hr : numEq (mmGet m j k) (.fin 0) = true
    · simp only [hr, if_true]
      refine ⟨act_same h.act h.below hr, nextF_below he, ?_⟩
      dsimp only
      rw [lookup_filter_ne, if_pos rfl]
      exact fun b hb => hzero b hb hr
    · have hr' : numEq (mmGet m j k) (.fin 0) = false := by simpa using hr
      simp only [hr', Bool.false_eq_true, if_false, hidx, Option.map_some, Option.getD_some]
      by_cases hq : numEq mg.rate (mmGet m j k) = true
      · have hrate := numEq_eq hq
        simp only [hq, if_true]
        subst hB
        have heb : e < b := he
        rw [← hrate]
        refine ⟨act_modify h.act h.below hidx hp hend hlt hnz heb, nextF_below he, ?_⟩
        dsimp only
        rw [hl]
        refine ⟨e, { mg with endTime := e }, rfl, ?_, hp, rfl, ?_, nextF_at he, hnz⟩
        · rw [List.getElem?_modify, hidx]; simp
        · exact et_lt_of_lt_of_le (b := ETime.fin b) he (et_le_of_lt hlt)
      · simp only [hq, Bool.false_eq_true, if_false]
        refine ⟨act_append h.act h.below m hr', nextF_below he, ?_⟩
        dsimp only
        rw [lookup_map_repl, if_pos rfl, hl]
        simp only [Option.map_some]
        refine ⟨e, mkMig names B e m j k, rfl, List.getElem?_concat_length .., pairIs_mkMig .., rfl, he, nextF_at he, hr'⟩


/-- **the other cells**: the step for `(j, k)` does not disturb the invariant of `(j', k')` -/
theorem cell_frame {names : List String} {acc : MigSweep} {B X : ETime} {F G : Q → Option Num} {j k j' k' : Nat}
    (hnd : names.Nodup) (hj : j < names.length) (hk : k < names.length) (hj' : j' < names.length)
    (hk' : k' < names.length) (hne : (j', k') ≠ (j, k)) (hself : CellOK names acc B F j k)
    (e : Q) (he : ETime.fin e < B) (m : MM) (h : CellOK names acc X G j' k') :
    CellOK names (MigSweep.cell names B e m acc (j, k)) X G j' k' := by
  obtain ⟨hcur, hmig⟩ := cell_shape hself e he m _ rfl
  have hpf : ∀ x : BMigration, pairIs names j k x = true → pairIs names j' k' x = false := by
    intro x hx
    cases hx' : pairIs names j' k' x with
    | false => rfl
    | true => exact absurd (pairIs_unique hnd hj hk hj' hk' hx hx') hne
  refine ⟨?_, h.below, ?_⟩
  · intro t
    rw [← h.act t]
    rcases hmig with hm | hm | ⟨idx, mg, hidx, hp, _, hm⟩
    · rw [hm]
    · rw [hm, activeRates_append, activeRates_single, hpf _ (pairIs_mkMig ..)]
      simp
    · rw [hm]
      unfold activeRates
      rw [filter_modify_of_false]
      intro x hx
      rw [hidx] at hx
      injection hx with hx
      subst hx
      exact ⟨hpf _ hp, hpf _ hp⟩
  · rw [hcur _ hne]
    have hc := h.cur
    cases hl : acc.current.lookup (j', k') with
    | none => rw [hl] at hc; exact hc
    | some idx' =>
      rw [hl] at hc
      obtain ⟨b, mg', hB, hidx', hp', r⟩ := hc
      refine ⟨b, mg', hB, ?_, hp', r⟩
      rcases hmig with hm | hm | ⟨idx, mg, hidx, hp, _, hm⟩
      · rw [hm]; exact hidx'
      · rw [hm]
        have hlt : idx' < acc.migrations.length := by
          by_contra hge
          rw [List.getElem?_eq_none_iff.mpr (by omega)] at hidx'
          cases hidx'
        rw [List.getElem?_append_left hlt]
        exact hidx'
      · rw [hm, List.getElem?_modify]
        have hii : idx ≠ idx' := by
          intro hii
          subst hii
          rw [hidx] at hidx'
          injection hidx' with hidx'
          subst hidx'
          rw [hpf _ hp] at hp'
          cases hp'
        simp [hii, hidx']

theorem cell_wf {names : List String} {acc : MigSweep} {B : ETime} {F : Q → Option Num} {j k : Nat}
    (hj : j < names.length) (hk : k < names.length) (hjk : j ≠ k)
    (hself : CellOK names acc B F j k) (e : Q) (he : ETime.fin e < B) (m : MM)
    (hwf : MigsWF names acc.migrations) : MigsWF names (MigSweep.cell names B e m acc (j, k)).migrations := by
  obtain ⟨_, hmig⟩ := cell_shape hself e he m _ rfl
  rcases hmig with hm | hm | ⟨idx, mg, hidx, hp, hlt, hm⟩
  · rw [hm]; exact hwf
  · rw [hm]
    intro x hx
    rcases List.mem_append.mp hx with hx | hx
    · exact hwf x hx
    · simp only [List.mem_singleton] at hx
      subst hx
      exact ⟨j, k, hj, hk, hjk, pairIs_mkMig .., he⟩
  · rw [hm]
    intro x hx
    obtain ⟨i, hi, hxi⟩ := List.mem_iff_getElem.mp hx
    have hxi' : (acc.migrations.modify idx fun mg => { mg with endTime := e })[i]? = some x := by
      rw [List.getElem?_eq_getElem hi, hxi]
    rw [List.getElem?_modify] at hxi'
    by_cases hii : idx = i
    · subst hii
      rw [hidx] at hxi'
      simp only [if_true] at hxi'
      have hx' : x = { mg with endTime := e } := by
        injection hxi' with hxi'
        exact hxi'.symm
      subst hx'
      exact ⟨j, k, hj, hk, hjk, hp, hlt⟩
    · simp only [hii, if_false] at hxi'
      cases hq : acc.migrations[i]? with
      | none => rw [hq] at hxi'; cases hxi'
      | some y =>
        rw [hq] at hxi'
        injection hxi' with hxi'
        subst hxi'
        exact hwf _ (List.mem_of_getElem? hq)


/-! ## one matrix of the sweep: all cells -/

/-- the cells in the order of the two nested loops -/
def cellsOf (n : Nat) : List (Nat × Nat) :=
  (List.range n).flatMap (fun j => ((List.range n).filter (fun k => j ≠ k)).map (fun k => (j, k)))

theorem mem_cellsOf {n : Nat} {c : Nat × Nat} : c ∈ cellsOf n ↔ c.1 < n ∧ c.2 < n ∧ c.1 ≠ c.2 := by
  obtain ⟨j, k⟩ := c
  unfold cellsOf
  simp only [List.mem_flatMap, List.mem_range, List.mem_map, List.mem_filter, decide_eq_true_eq, Prod.mk.injEq]
  constructor
  · rintro ⟨a, ha, b, ⟨hb, hab⟩, rfl, rfl⟩
    exact ⟨ha, hb, hab⟩
  · rintro ⟨h1, h2, h3⟩
    exact ⟨j, h1, k, ⟨h2, h3⟩, rfl, rfl⟩

theorem cellsOf_nodup (n : Nat) : (cellsOf n).Nodup := by
  unfold cellsOf
  rw [List.nodup_flatMap]
  refine ⟨?_, ?_⟩
  · intro j _
    exact (List.nodup_range.filter _).map (fun a b h => by injection h)
  · apply List.Pairwise.imp _ (List.nodup_range (n := n))
    intro a b hab x h1 h2
    simp only [List.mem_map] at h1 h2
    obtain ⟨_, _, rfl⟩ := h1
    obtain ⟨_, _, h2⟩ := h2
    injection h2 with h2 _
    exact hab h2.symm

/-- a cell that has (`D`) or has not yet been processed in the current matrix -/
def CellState (names : List String) (acc : MigSweep) (B : ETime) (e : Q) (m : MM) (F : Nat → Nat → Q → Option Num)
    (D : Nat × Nat → Prop) : Prop :=
  ∀ j k, j < names.length → k < names.length → j ≠ k →
    (D (j, k) → CellOK names acc (.fin e) (nextF B e (mmGet m j k) (F j k)) j k) ∧
    (¬ D (j, k) → CellOK names acc B (F j k) j k)

theorem cells_fold {names : List String} (hnd : names.Nodup) {B : ETime} {e : Q} (he : ETime.fin e < B) (m : MM)
    (F : Nat → Nat → Q → Option Num) :
    ∀ (cs : List (Nat × Nat)) (D : Nat × Nat → Prop) (acc : MigSweep), cs.Nodup →
      (∀ c ∈ cs, c.1 < names.length ∧ c.2 < names.length ∧ c.1 ≠ c.2 ∧ ¬ D c) →
      CellState names acc B e m F D → MigsWF names acc.migrations →
      CellState names (cs.foldl (MigSweep.cell names B e m) acc) B e m F (fun x => D x ∨ x ∈ cs)
      ∧ MigsWF names (cs.foldl (MigSweep.cell names B e m) acc).migrations := by
  intro cs
  induction cs with
  | nil =>
    intro D acc _ _ hst hwf
    refine ⟨?_, hwf⟩
    intro j k hj hk hjk
    obtain ⟨a, b⟩ := hst j k hj hk hjk
    exact ⟨fun hd => a (by simpa using hd), fun hd => b (by simpa using hd)⟩
  | cons c cs ih =>
    intro D acc hnodup hval hst hwf
    obtain ⟨j0, k0⟩ := c
    obtain ⟨hj0, hk0, hjk0, hD0⟩ := hval (j0, k0) (List.mem_cons_self ..)
    have hold0 := (hst j0 k0 hj0 hk0 hjk0).2 hD0
    rw [List.foldl_cons]
    have hnd' := List.nodup_cons.mp hnodup
    have hst1 : CellState names (MigSweep.cell names B e m acc (j0, k0)) B e m F (fun x => D x ∨ x = (j0, k0)) := by
      intro j k hj hk hjk
      by_cases hc : (j, k) = (j0, k0)
      · injection hc with h1 h2
        subst h1 h2
        exact ⟨fun _ => cell_self hold0 e he m, fun hn => absurd (Or.inr rfl) hn⟩
      · obtain ⟨a, b⟩ := hst j k hj hk hjk
        refine ⟨fun hd => ?_, fun hd => ?_⟩
        · rcases hd with hd | hd
          · exact cell_frame hnd hj0 hk0 hj hk hc hold0 e he m (a hd)
          · exact absurd hd hc
        · exact cell_frame hnd hj0 hk0 hj hk hc hold0 e he m (b (fun h => hd (Or.inl h)))
    have hwf1 := cell_wf hj0 hk0 hjk0 hold0 e he m hwf
    have hval1 : ∀ c ∈ cs, c.1 < names.length ∧ c.2 < names.length ∧ c.1 ≠ c.2 ∧ ¬ (D c ∨ c = (j0, k0)) := by
      intro c hc
      obtain ⟨a1, a2, a3, a4⟩ := hval c (List.mem_cons_of_mem _ hc)
      refine ⟨a1, a2, a3, ?_⟩
      rintro (h | h)
      · exact a4 h
      · subst h; exact hnd'.1 hc
    obtain ⟨r1, r2⟩ := ih _ _ hnd'.2 hval1 hst1 hwf1
    refine ⟨?_, r2⟩
    intro j k hj hk hjk
    obtain ⟨a, b⟩ := r1 j k hj hk hjk
    refine ⟨fun hd => a ?_, fun hd => b ?_⟩
    · rcases hd with hd | hd
      · exact Or.inl (Or.inl hd)
      · rcases List.mem_cons.mp hd with hd | hd
        · exact Or.inl (Or.inr hd)
        · exact Or.inr hd
    · rintro ((h | h) | h)
      · exact hd (Or.inl h)
      · exact hd (Or.inr (h ▸ List.mem_cons_self ..))
      · exact hd (Or.inr (List.mem_cons_of_mem _ h))

/-- the invariant of the sweep between two matrices -/
structure SweepOK (names : List String) (acc : MigSweep) (B : ETime) (F : Nat → Nat → Q → Option Num) : Prop where
  cells : ∀ j k, j < names.length → k < names.length → j ≠ k → CellOK names acc B (F j k) j k
  wf : MigsWF names acc.migrations

/-- **one matrix** -/
theorem matrix_step {names : List String} (hnd : names.Nodup) {acc : MigSweep} {B : ETime}
    {F : Nat → Nat → Q → Option Num} (h : SweepOK names acc B F) (e : Q) (he : ETime.fin e < B) (m : MM) :
    SweepOK names ((cellsOf names.length).foldl (MigSweep.cell names B e m) acc) (.fin e)
      (fun j k => nextF B e (mmGet m j k) (F j k)) := by
  obtain ⟨r1, r2⟩ := cells_fold hnd he m F (cellsOf names.length) (fun _ => False) acc (cellsOf_nodup _)
    (fun c hc => by
      obtain ⟨a, b, c'⟩ := mem_cellsOf.mp hc
      exact ⟨a, b, c', fun h => h⟩)
    (fun j k hj hk hjk => ⟨fun h => h.elim, fun _ => h.cells j k hj hk hjk⟩) h.wf
  refine ⟨?_, r2⟩
  intro j k hj hk hjk
  exact (r1 j k hj hk hjk).1 (Or.inr (mem_cellsOf.mpr ⟨hj, hk, hjk⟩))


/-! ## the whole history -/

/-- the body of the loop over `zip(mm_list, end_times)` -/
def sweepStep (names : List String) (st : MigSweep × ETime) (me : MM × Q) : Except Err (MigSweep × ETime) := do
  let (acc, startTime) := st
  let (m, endTime) := me
  if m.length ≠ names.length || m.any (fun row => row.length ≠ names.length) then assertionErr "matrix shape"
  let cells := (List.range names.length).flatMap (fun j => ((List.range names.length).filter (fun k => j ≠ k)).map (fun k => (j, k)))
  pure (cells.foldl (MigSweep.cell names startTime endTime m) acc, ETime.fin endTime)

theorem addMigrations_eq (names : List String) (ml : List MM) (ts : List Q) :
    addMigrationsFromMatrices names ml ts = (do
      if ml.length ≠ ts.length then assertionErr "len(mm_list) == len(end_times)"
      if names.isEmpty then assertionErr "len(deme_names) > 0"
      let (acc, _) ← (ml.zip ts).foldlM (sweepStep names) (({ migrations := [], current := [] } : MigSweep), ETime.inf)
      pure acc.migrations) := rfl

theorem addMigrations_ok {names : List String} {ml : List MM} {ts : List Q} {migs : List BMigration}
    (h : addMigrationsFromMatrices names ml ts = .ok migs) :
    ml.length = ts.length ∧ ∃ acc B', (ml.zip ts).foldlM (sweepStep names)
      (({ migrations := [], current := [] } : MigSweep), ETime.inf) = .ok (acc, B') ∧ migs = acc.migrations := by
  rw [addMigrations_eq] at h
  by_cases hlen : ml.length = ts.length
  · by_cases hne : names.isEmpty = true
    · simp [hlen, hne, assertionErr, bind, Except.bind] at h
    · simp only [hlen, hne, ne_eq, not_true_eq_false, if_false, Bool.false_eq_true] at h
      obtain ⟨⟨acc, B'⟩, hf, h⟩ := bind_ok.1 h
      rw [pure_ok] at h
      exact ⟨hlen, acc, B', hf, h.symm⟩
  · simp [hlen, assertionErr, bind, Except.bind] at h

theorem sweepStep_ok {names : List String} {acc acc' : MigSweep} {B B' : ETime} {m : MM} {e : Q}
    (h : sweepStep names (acc, B) (m, e) = .ok (acc', B')) :
    acc' = (cellsOf names.length).foldl (MigSweep.cell names B e m) acc ∧ B' = .fin e := by
  unfold sweepStep at h
  dsimp only at h
  split at h
  · exact (assertionErr_bind_ok.1 h).elim
  · rw [pure_ok] at h
    injection h with h1 h2
    exact ⟨h1.symm, h2.symm⟩

theorem CellOK.congr {names : List String} {acc : MigSweep} {B : ETime} {F F' : Q → Option Num} {j k : Nat}
    (h : CellOK names acc B F j k) (hF : ∀ t, F t = F' t) : CellOK names acc B F' j k := by
  have : F = F' := funext hF
  rw [← this]; exact h

theorem history_fold {names : List String} (hnd : names.Nodup) :
    ∀ (ml : List MM) (ts : List Q) (acc acc' : MigSweep) (B B' : ETime) (F : Nat → Nat → Q → Option Num),
      ml.length = ts.length → (∀ e ∈ ts, ETime.fin e < B) → ts.Pairwise (fun a b => b < a) →
      SweepOK names acc B F →
      (ml.zip ts).foldlM (sweepStep names) (acc, B) = .ok (acc', B') →
      SweepOK names acc' B' (fun j k t => if B ≤ ETime.fin t then F j k t else mmRateAt ml ts j k t) := by
  intro ml
  induction ml with
  | nil =>
    intro ts acc acc' B B' F hlen _ _ hok h
    cases ts with
    | cons _ _ => simp at hlen
    | nil =>
      simp only [List.zip_nil_right, List.foldlM_nil, pure_ok] at h
      injection h with h1 h2
      subst h1 h2
      refine ⟨fun j k hj hk hjk => (hok.cells j k hj hk hjk).congr ?_, hok.wf⟩
      intro t
      by_cases h1 : B ≤ ETime.fin t
      · rw [if_pos h1]
      · rw [if_neg h1, (hok.cells j k hj hk hjk).below t (et_not_le.mp h1)]
        rfl
  | cons m ms ih =>
    intro ts acc acc' B B' F hlen hlt hdec hok h
    cases ts with
    | nil => simp at hlen
    | cons e es =>
      rw [List.zip_cons_cons, List.foldlM_cons] at h
      obtain ⟨⟨acc1, B1⟩, h1, h⟩ := bind_ok.1 h
      obtain ⟨ha1, hB1⟩ := sweepStep_ok h1
      subst ha1 hB1
      have he : ETime.fin e < B := hlt e (List.mem_cons_self ..)
      have hok1 := matrix_step hnd hok e he m
      rw [List.pairwise_cons] at hdec
      have r := ih es _ acc' (ETime.fin e) B' _ (by simpa using hlen)
        (fun x hx => (show x < e from hdec.1 x hx)) hdec.2 hok1 h
      refine ⟨fun j k hj hk hjk => (r.cells j k hj hk hjk).congr ?_, r.wf⟩
      intro t
      show (if ETime.fin e ≤ ETime.fin t then nextF B e (mmGet m j k) (F j k) t else mmRateAt ms es j k t)
        = if B ≤ ETime.fin t then F j k t else mmRateAt (m :: ms) (e :: es) j k t
      have hmm : mmRateAt (m :: ms) (e :: es) j k t = if e ≤ t then some (mmGet m j k) else mmRateAt ms es j k t := rfl
      rw [hmm]
      by_cases h2 : e ≤ t
      · rw [if_pos (show ETime.fin e ≤ ETime.fin t from h2), if_pos h2]
        unfold nextF
        rw [if_pos h2]
      · rw [if_neg (show ¬ ETime.fin e ≤ ETime.fin t from h2), if_neg h2]
        have : ¬ B ≤ ETime.fin t := by
          apply et_not_le.mpr
          have h3 : ETime.fin t < ETime.fin e := by show t < e; grind
          exact et_lt_of_lt_of_le (b := ETime.fin e) h3 (et_le_of_lt he)
        rw [if_neg this]

/-- **(1) `_add_migrations_from_matrices`.**  For a matrix history with strictly decreasing end
times (most ancient matrix first) and pairwise different deme names: every emitted migration goes
between two different demes of the list and has `end_time < start_time`; and for every ordered
pair `(j, k)`, `j ≠ k`, and every time `t`, the rates of the emitted migrations into deme `j` from
deme `k` that are active at `t` are: nothing, if no matrix is in force at `t` or the entry `[j][k]`
of the matrix in force is zero; exactly that entry otherwise.  (So no two emitted migrations of
one pair overlap, runs of equal non-zero rates are merged — the migration carries the rate of
every matrix it spans — and a zero closes a run.) -/
theorem addMigrations_sem {names : List String} {ml : List MM} {ts : List Q} {migs : List BMigration}
    (h : addMigrationsFromMatrices names ml ts = .ok migs) (hnd : names.Nodup)
    (hdec : ts.Pairwise (fun a b => b < a)) :
    MigsWF names migs ∧
    ∀ j k, j < names.length → k < names.length → j ≠ k → ∀ t,
      activeRates names migs j k t = expectedRates (mmRateAt ml ts j k t) := by
  obtain ⟨hlen, acc, B', hf, rfl⟩ := addMigrations_ok h
  have h0 : SweepOK names ({ migrations := [], current := [] } : MigSweep) ETime.inf (fun _ _ _ => none) := by
    refine ⟨fun j k _ _ _ => ⟨fun t => rfl, fun _ _ => rfl, ?_⟩, fun mg hmg => by cases hmg⟩
    show ∀ b, ETime.inf = ETime.fin b → _
    intro b hb
    cases hb
  have r := history_fold hnd ml ts _ acc ETime.inf B' _ hlen (fun e _ => trivial) hdec h0 hf
  refine ⟨r.wf, ?_⟩
  intro j k hj hk hjk t
  have := (r.cells j k hj hk hjk).act t
  rw [this]
  rfl

end Demes.Proofs.FromMs
