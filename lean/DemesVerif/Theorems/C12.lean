/-
  C12 — migration matrices agree pointwise with the graph's migrations.
-/
import DemesVerif.Proofs.Matrices
namespace Demes.Theorems
open Demes Demes.Spec

/-- On a valid graph `migration_matrices()` does not raise; the end times are non-empty,
strictly decreasing and finish at 0, and there is one matrix per end time. -/
theorem matrices_end_times (g : Graph) (hv : validGraph g = true) :
    ∃ mms ends, migrationMatrices g = .ok (mms, ends) ∧ ends ≠ [] ∧ ends.getLast? = some 0
      ∧ ends.Pairwise (· > ·) ∧ mms.length = ends.length :=
  Proofs.matrices_end_times g hv

/-- For every time `t ≥ 0` there is a matrix whose interval contains `t`, and its entry
(row = destination, column = source, indexed by deme order) is the rate of the migration
active at `t` for that ordered pair, 0 when none is active. -/
theorem matrices_pointwise (g : Graph) (hv : validGraph g = true) (mms : List Matrix) (ends : List Q)
    (h : migrationMatrices g = .ok (mms, ends)) (t : Q) (ht : 0 ≤ t)
    (i j : Nat) (di dj : Deme) (hi : g.demes[i]? = some di) (hj : g.demes[j]? = some dj) :
    ∃ k mm, intervalOf ends t = some k ∧ mms[k]? = some mm
      ∧ mm.get i j = rateAt g dj.name di.name t :=
  Proofs.matrices_pointwise g hv mms ends h t ht i j di dj hi hj

/-- Every returned matrix is square, with one row and one column per deme (so that the entry
read by `Matrix.get` in `matrices_pointwise` is a genuine entry, never the out-of-range default). -/
theorem matrices_shape (g : Graph) (hv : validGraph g = true) (mms : List Matrix) (ends : List Q)
    (h : migrationMatrices g = .ok (mms, ends)) :
    ∀ mm ∈ mms, mm.length = g.demes.length ∧ ∀ row ∈ mm, row.length = g.demes.length :=
  Proofs.matrices_shape g hv mms ends h

/-- Row `i` of the matrix of interval `k` sums to the total rate of the migrations into deme `i`
that are active at the interval's end time `ends[k]`. -/
theorem matrices_row_sum (g : Graph) (hv : validGraph g = true) (mms : List Matrix) (ends : List Q)
    (h : migrationMatrices g = .ok (mms, ends)) (k i : Nat) (e : Q) (mm : Matrix) (row : List Q)
    (di : Deme) (he : ends[k]? = some e) (hmm : mms[k]? = some mm) (hrow : mm[i]? = some row)
    (hi : g.demes[i]? = some di) :
    rowSum row = ingressAt g di.name e :=
  Proofs.matrices_row_sum g hv mms ends h k i e mm row di he hmm hrow hi

/-- No row of any returned matrix sums to more than one, beyond the relative 1e-9 tolerance
that validation allows (`ingressOk x` is `x ≤ 1 ∨ x` close to 1). -/
theorem matrices_rows_le_one (g : Graph) (hv : validGraph g = true) (mms : List Matrix) (ends : List Q)
    (h : migrationMatrices g = .ok (mms, ends)) :
    ∀ mm ∈ mms, ∀ row ∈ mm, ingressOk (rowSum row) = true :=
  Proofs.matrices_rows_le_one g hv mms ends h

/-- non-vacuity: a concrete two-deme graph with two migrations is valid, and its matrices
are as expected. -/
example : validGraph Proofs.exampleGraph = true := by decide +kernel

example : (migrationMatrices Proofs.exampleGraph).toOption = some
    ([ [[0, 0], [0, 0]],
       [[0, 0], [1/4, 0]],
       [[0, 1/8], [1/4, 0]],
       [[0, 1/8], [0, 0]] ],
     [40, 20, 10, 0]) := by decide +kernel

/-- the interval containing `t = 15` is the third one, where both migrations are active -/
example : intervalOf [40, 20, 10, 0] 15 = some 2
    ∧ rateAt Proofs.exampleGraph "A" "B" 15 = 1/4 ∧ rateAt Proofs.exampleGraph "B" "A" 15 = 1/8 := by
  decide +kernel

end Demes.Theorems
