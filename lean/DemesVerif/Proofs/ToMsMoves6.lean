/-
  C07 — the event times of the graph (`gTimes`) and of the command's `-es` / `-ej` groups.
-/
import DemesVerif.Proofs.ToMsMoves5
set_option linter.unusedSimpArgs false
set_option linter.unusedVariables false
namespace Demes.Proofs.ToMs
open Demes Demes.Ms Demes.Spec Demes.Spec.C07 Demes.Proofs.RV
open Demes.Spec.MsSem

/-! ### strictly increasing lists of times -/

theorem strict_ext_Q : ∀ (l1 l2 : List Q), l1.Pairwise (· < ·) → l2.Pairwise (· < ·) → (∀ x, x ∈ l1 ↔ x ∈ l2) → l1 = l2
  | [], [], _, _, _ => rfl
  | [], y :: ys, _, _, h => by have := (h y).2 List.mem_cons_self; cases this
  | x :: xs, [], _, _, h => by have := (h x).1 List.mem_cons_self; cases this
  | x :: xs, y :: ys, h1, h2, h => by
    have hx := List.pairwise_cons.1 h1
    have hy := List.pairwise_cons.1 h2
    have hxy : x = y := by
      have hx' := (h x).1 List.mem_cons_self
      have hy' := (h y).2 List.mem_cons_self
      rcases List.mem_cons.1 hx' with h' | h'
      · exact h'
      · rcases List.mem_cons.1 hy' with h'' | h''
        · exact h''.symm
        · have := hy.1 x h'
          have := hx.1 y h''
          grind
    subst hxy
    congr 1
    apply strict_ext_Q xs ys hx.2 hy.2
    intro z
    constructor
    · intro hz
      rcases List.mem_cons.1 ((h z).1 (List.mem_cons_of_mem _ hz)) with h' | h'
      · subst h'; have := hx.1 z hz; exact absurd this Rat.lt_irrefl
      · exact h'
    · intro hz
      rcases List.mem_cons.1 ((h z).2 (List.mem_cons_of_mem _ hz)) with h' | h'
      · subst h'; have := hy.1 z hz; exact absurd this Rat.lt_irrefl
      · exact h'

def leQ (a b : Q) : Bool := decide (a ≤ b)

theorem insertBy_strict (t : Q) : ∀ (acc : List Q), acc.Pairwise (· < ·) → t ∉ acc →
    (insertBy leQ t acc).Pairwise (· < ·)
  | [], _, _ => by simp [insertBy]
  | y :: ys, hp, hn => by
    have hy := List.pairwise_cons.1 hp
    have hty : t ≠ y := fun h => hn (by rw [h]; exact List.mem_cons_self)
    have hnys : t ∉ ys := fun h => hn (List.mem_cons_of_mem _ h)
    simp only [insertBy, leQ, decide_eq_true_eq]
    split
    · rename_i hle
      refine List.pairwise_cons.2 ⟨?_, hp⟩
      intro z hz
      rcases List.mem_cons.1 hz with rfl | hz
      · grind
      · have := hy.1 z hz; grind
    · rename_i hle
      refine List.pairwise_cons.2 ⟨?_, insertBy_strict t ys hy.2 hnys⟩
      intro z hz
      rcases List.mem_cons.1 ((insertBy_perm leQ t ys).mem_iff.1 hz) with rfl | hz
      · grind
      · exact hy.1 z hz

theorem dedupSort_spec : ∀ (l : List Q),
    (l.foldr (fun t acc => if acc.contains t then acc else insertBy leQ t acc) []).Pairwise (· < ·)
      ∧ ∀ t, t ∈ l.foldr (fun t acc => if acc.contains t then acc else insertBy leQ t acc) [] ↔ t ∈ l
  | [] => ⟨List.Pairwise.nil, fun _ => Iff.rfl⟩
  | x :: l => by
    obtain ⟨h1, h2⟩ := dedupSort_spec l
    simp only [List.foldr_cons]
    by_cases hc : (l.foldr (fun t acc => if acc.contains t then acc else insertBy leQ t acc) []).contains x = true
    · rw [if_pos hc]
      refine ⟨h1, fun t => ?_⟩
      rw [h2, List.mem_cons]
      constructor
      · exact Or.inr
      · rintro (rfl | h)
        · exact (h2 t).1 (by simpa using hc)
        · exact h
    · rw [if_neg hc]
      have hn : x ∉ l.foldr (fun t acc => if acc.contains t then acc else insertBy leQ t acc) [] := by
        simpa using hc
      refine ⟨insertBy_strict x _ h1 hn, fun t => ?_⟩
      rw [(insertBy_perm leQ x _).mem_iff, List.mem_cons, List.mem_cons, h2]

theorem gTimes_spec (g : Graph) :
    (gTimes g).Pairwise (· < ·)
      ∧ ∀ T, T ∈ gTimes g ↔ (∃ p ∈ g.pulses, p.time = T) ∨ (∃ d ∈ g.demes, d.startTime = ETime.fin T) := by
  have := dedupSort_spec (g.pulses.map (·.time) ++ g.demes.filterMap (fun d =>
    match d.startTime with | .fin t => some t | .inf => none))
  refine ⟨(show (gTimes g).Pairwise (· < ·) from this.1), fun T => ?_⟩
  have h2 := this.2 T
  refine Iff.trans (show T ∈ gTimes g ↔ _ from h2) ?_
  rw [List.mem_append, List.mem_map, List.mem_filterMap]
  apply or_congr Iff.rfl
  constructor
  · rintro ⟨d, hd, h⟩
    refine ⟨d, hd, ?_⟩
    cases hst : d.startTime with
    | inf => rw [hst] at h; cases h
    | fin t => rw [hst] at h; simp at h; rw [h]
  · rintro ⟨d, hd, h⟩
    exact ⟨d, hd, by rw [h]⟩

/-! ### the times of the `-es` / `-ej` groups -/

theorem flatMap_ite_filter {α β} (p : α → Bool) (f : α → List β) : ∀ (l : List α),
    l.flatMap (fun x => if p x then f x else []) = (l.filter p).flatMap f
  | [] => rfl
  | x :: l => by
    simp only [List.flatMap_cons, List.filter_cons]
    by_cases h : p x = true
    · simp [h, flatMap_ite_filter p f l]
    · simp [h, flatMap_ite_filter p f l]

theorem pulse_ev_mem {g : Graph} {p : Pulse} : ∀ (xs : List DemeOrPulse) (n : Nat), DemeOrPulse.pulse p ∈ xs →
    ∃ ev ∈ ancEvs g n xs, ev.t = .fin p.time ∧ isSplitJoin ev = true
  | [], _, h => by cases h
  | x :: r, n, h => by
    rcases List.mem_cons.1 h with h1 | h2
    · subst h1
      refine ⟨Event.split "" (.fin p.time) (idOf g p.dest) (.fin (1 - p.proportions.headD 0)), ?_, rfl, rfl⟩
      rw [ancEvs]; exact List.mem_append_left _ (by simp [pulseEvs])
    · cases x with
      | deme d =>
        obtain ⟨ev, hev, h'⟩ := pulse_ev_mem r (ancDemeCount d n d.ancestors.zipIdx) h2
        exact ⟨ev, by rw [ancEvs]; exact List.mem_append_right _ hev, h'⟩
      | pulse q =>
        obtain ⟨ev, hev, h'⟩ := pulse_ev_mem r (n + 1) h2
        exact ⟨ev, by rw [ancEvs]; exact List.mem_append_right _ hev, h'⟩

section
variable {g : Graph} (c : Clauses g) (hx : MsExpressible g = true) {N0 : Q} (hN : 0 < N0)
include c hx hN

/-- the graph has an event at `T` exactly when the command has an `-es` / `-ej` option at `T/4N0` -/
theorem sj_time_iff (T : Q) :
    (∃ e ∈ finalEvs g N0, isSplitJoin e = true ∧ 4 * N0 * evT e = T) ↔ T ∈ gTimes g := by
  rw [(gTimes_spec g).2]
  have hmemF : ∀ ev ∈ ancEvs g g.demes.length (dps g), scaleEv N0 ev ∈ finalEvs g N0 := by
    intro ev hev
    rw [finalEvs_eq c hx]
    apply List.mem_map.2
    exact ⟨ev, (mem_sortBy _).2 (by simp only [rawEvs, List.mem_append]; exact Or.inl (Or.inr hev)), rfl⟩
  constructor
  · rintro ⟨e, heF, hsj, hT⟩
    obtain ⟨y, hy, rfl, _⟩ := finalEvs_anc c hx heF hsj
    obtain ⟨x, hx', q, hk, hev⟩ := evT_anc_scaled c hx hN (fun _ h => h) (List.mem_map.2 ⟨y, hy, rfl⟩)
    rw [hev, mul_div_cancel4 hN] at hT
    subst hT
    cases x with
    | pulse p =>
      left
      refine ⟨p, mem_dps_pulse hx', ?_⟩
      simpa [DemeOrPulse.key] using hk
    | deme d => right; exact ⟨d, mem_dps_deme hx', hk⟩
  · rintro (⟨p, hp, rfl⟩ | ⟨d, hd, hst⟩)
    · have hpm : DemeOrPulse.pulse p ∈ dps g := by
        rw [dps, mem_sortBy]
        exact List.mem_append_left _ (List.mem_map.2 ⟨p, List.mem_reverse.2 hp, rfl⟩)
      obtain ⟨ev, hev, ht, hsj⟩ := pulse_ev_mem (g := g) (dps g) g.demes.length hpm
      refine ⟨scaleEv N0 ev, hmemF ev hev, by rw [isSplitJoin_scale]; exact hsj, ?_⟩
      rw [evT_of_good (t_scale ht), mul_div_cancel4 hN]
    · have hne : d.ancestors ≠ [] := by
        have h3 := c.h3
        simp only [v3, List.all_eq_true, Bool.and_eq_true, decide_eq_true_eq, beq_iff_eq] at h3
        have := (h3 d hd).1.2
        rw [hst] at this
        intro h0; rw [h0] at this; simp [ETime.isInf] at this
      obtain ⟨a, ha⟩ := lastJoin_ancEvs (g := g) hne (dps g) g.demes.length (mem_dps_of_deme hd)
      refine ⟨_, hmemF _ ha, rfl, ?_⟩
      have : (scaleEv N0 (Event.join "" (Num.ofETime d.startTime) (idOf g d.name) (idOf g a))).t = .fin (T / (4 * N0)) := by
        simp [scaleEv, Event.setT, Event.t, hst, Num.ofETime, numDivQ]
      rw [evT_of_good this, mul_div_cancel4 hN]

/-- the times of the groups that contain an `-es` / `-ej` option are the graph's event times -/
theorem group_times_eq :
    ((groupsByTime (finalEvs g N0)).filter (fun grp => grp.any isSplitJoin)).map (timeOf N0) = gTimes g := by
  have h4 : (0 : Q) < 4 * N0 := by grind
  have hok := groupsOK_groupsByTime _ (sorted_byQ_finalEvs c hx hN)
  have hfl := flatten_groupsByTime (finalEvs g N0)
  have htime : ∀ grp ∈ groupsByTime (finalEvs g N0), ∀ e ∈ grp, timeOf N0 grp = 4 * N0 * evT e := by
    intro grp hgrp e he
    obtain ⟨hne, hsame⟩ := hok.same grp hgrp
    cases grp with
    | nil => exact absurd rfl hne
    | cons h0 tl =>
      simp only [timeOf, List.head?_cons, Option.map_some, Option.getD_some]
      rw [hsame h0 List.mem_cons_self e he]
  apply strict_ext_Q _ _ _ (gTimes_spec g).1
  · intro T
    rw [← sj_time_iff c hx hN T, List.mem_map]
    constructor
    · rintro ⟨grp, hgrp, rfl⟩
      obtain ⟨hgm, hany⟩ := List.mem_filter.1 hgrp
      obtain ⟨e, he, hsj⟩ := List.any_eq_true.1 hany
      refine ⟨e, ?_, hsj, (htime grp hgm e he).symm⟩
      rw [← hfl]; exact List.mem_flatten.2 ⟨grp, hgm, he⟩
    · rintro ⟨e, heF, hsj, hT⟩
      rw [← hfl] at heF
      obtain ⟨grp, hgm, he⟩ := List.mem_flatten.1 heF
      exact ⟨grp, List.mem_filter.2 ⟨hgm, List.any_eq_true.2 ⟨e, he, hsj⟩⟩, by rw [htime grp hgm e he, hT]⟩
  · rw [List.pairwise_map]
    apply List.Pairwise.sublist List.filter_sublist
    refine List.Pairwise.imp_of_mem ?_ hok.inc
    intro g1 g2 hg1 hg2 hlt
    obtain ⟨hne1, _⟩ := hok.same g1 hg1
    obtain ⟨hne2, _⟩ := hok.same g2 hg2
    obtain ⟨a, ha⟩ := List.exists_mem_of_ne_nil g1 hne1
    obtain ⟨b, hb⟩ := List.exists_mem_of_ne_nil g2 hne2
    rw [htime g1 hg1 a ha, htime g2 hg2 b hb]
    exact Rat.mul_lt_mul_of_pos_left (hlt a ha b hb) h4

end

end Demes.Proofs.ToMs
