/-
  C09 (acceptance), after the event loop — `finishDoc` succeeds on a state that satisfies the invariants
  of the event loop, and the document it returns (`finDoc`, in closed form) is well-formed (`DocWF`).
-/
import DemesVerif.Proofs.MsAccFinishDefs
import DemesVerif.Proofs.FromMsPostDemes
namespace Demes.Proofs.MsAcc
open Demes Demes.Ms Demes.Spec Demes.Spec.C08 Demes.Proofs.FromMs

/-! ## `finaliseGrowth` on a growth-free deme -/

/-- what `finaliseGrowth` makes of a deme whose open epoch has no growth -/
def finDeme (d : BDeme) : BDeme :=
  match d.epochs with
  | [] => d
  | e :: r => { d with epochs := { e with growthRate := none, startSize := some e.endSize } :: r }

theorem finDeme_header (d : BDeme) : (finDeme d).name = d.name ∧ (finDeme d).startTime = d.startTime
    ∧ (finDeme d).ancestors = d.ancestors ∧ (finDeme d).proportions = d.proportions := by
  unfold finDeme
  split <;> exact ⟨rfl, rfl, rfl, rfl⟩

theorem finDeme_epochs {d : BDeme} {e : BEpoch} {r : List BEpoch} (h : d.epochs = e :: r) :
    (finDeme d).epochs = { e with growthRate := none, startSize := some e.endSize } :: r := by
  unfold finDeme
  rw [h]

theorem finDeme_times (d : BDeme) : (finDeme d).epochs.map (·.endTime) = d.epochs.map (·.endTime) := by
  cases h : d.epochs with
  | nil => unfold finDeme; rw [h]; dsimp only; rw [h]
  | cons e r => rw [finDeme_epochs h]; rfl

theorem finDeme_bEnd (d : BDeme) : bEndTime (finDeme d) = bEndTime d := by
  unfold bEndTime
  rw [← List.getLast?_map, ← List.getLast?_map, finDeme_times]

theorem finDeme_nonTransient (d : BDeme) : nonTransient (finDeme d) = nonTransient d := by
  unfold nonTransient
  rw [(finDeme_header d).2.1, finDeme_bEnd]

theorem finaliseGrowth_fin {T : Q} {d : BDeme} (h : EpochsWF T d) : finaliseGrowth d = .ok (finDeme d) := by
  cases he : d.epochs with
  | nil => exact (h.ne he).elim
  | cons e r =>
    have hg : e.growthRate.getD 0 = 0 := by
      rcases h.growth e (by rw [he]; exact List.mem_cons_self) with g | g <;> rw [g] <;> rfl
    unfold finaliseGrowth finDeme
    rw [he]
    dsimp only
    rw [hg]
    simp only [ne_eq, not_true_eq_false, if_false]
    rfl

theorem mapM_ok_map {α β} {f : α → Except Err β} {g : α → β} : ∀ (l : List α),
    (∀ x ∈ l, f x = .ok (g x)) → l.mapM f = .ok (l.map g) := by
  intro l
  induction l with
  | nil => intro _; rfl
  | cons x xs ih =>
    intro h
    rw [List.mapM_cons, h x List.mem_cons_self, ih (fun y hy => h y (List.mem_cons_of_mem _ hy))]
    rfl

theorem mapM_finalise {T : Q} {s : BState} (hinv : AccInv T s) :
    s.demes.mapM finaliseGrowth = .ok (s.demes.map finDeme) := by
  apply mapM_ok_map
  intro d hd
  obtain ⟨j, hj, hget⟩ := List.getElem_of_mem hd
  have : s.demes[j]? = some d := by rw [List.getElem?_eq_getElem hj, hget]
  exact finaliseGrowth_fin (hinv.demes j d this).ep

theorem finDeme_names (l : List BDeme) : (l.map finDeme).map (·.name) = l.map (·.name) := by
  rw [List.map_map]
  exact List.map_congr_left (fun d _ => (finDeme_header d).1)

/-! ## names -/

theorem len_of_names {s : BState} (hn : NameInv s) : s.demes.length = s.numDemes := by
  have := congrArg List.length hn
  simpa using this

theorem name_of_getElem {s : BState} (hn : NameInv s) {j : Nat} {d : BDeme} (h : s.demes[j]? = some d) :
    d.name = Ms.demeName j := by
  have hl : j < s.demes.length := by
    by_contra hge
    rw [List.getElem?_eq_none_iff.mpr (by omega)] at h
    cases h
  have hlen := len_of_names hn
  have h1 : (s.demes.map (·.name))[j]? = some d.name := by rw [List.getElem?_map, h]; rfl
  unfold NameInv at hn
  rw [hn, List.getElem?_map, List.getElem?_range (by omega)] at h1
  exact (Option.some.inj h1).symm

theorem names_nodup {s : BState} (hn : NameInv s) : (s.demes.map (·.name)).Nodup := by
  unfold NameInv at hn
  rw [hn]
  unfold List.Nodup
  rw [List.pairwise_map]
  exact (List.nodup_range).imp (fun hab e => hab (demeName_inj e))

theorem getElem_of_mem_demes {s : BState} {d : BDeme} (hd : d ∈ s.demes) : ∃ j : Nat, s.demes[j]? = some d := by
  obtain ⟨j, hj, hget⟩ := List.getElem_of_mem hd
  exact ⟨j, by rw [List.getElem?_eq_getElem hj, hget]⟩

/-- two demes of the state with the same name are the same deme -/
theorem eq_of_demeName {s : BState} {j k : Nat} {d dk : BDeme} (hj : s.demes[j]? = some d)
    (hk : s.demes[k]? = some dk) (e : Ms.demeName j = Ms.demeName k) : d = dk := by
  have := demeName_inj e
  subst this
  rw [hj] at hk
  exact Option.some.inj hk

/-! ## transient and non-transient demes of the state -/

theorem etime_lt_of_lt_of_le {a b c : ETime} (h1 : a < b) (h2 : b ≤ c) : a < c := by
  cases a with
  | inf => exact False.elim h1
  | fin x =>
    cases c with
    | inf => trivial
    | fin z =>
      cases b with
      | inf => exact False.elim h2
      | fin y =>
        have h1' : x < y := h1
        have h2' : y ≤ z := h2
        show x < z
        grind

/-- a deme that exists at some time `t` (end ≤ `t` < start) is not transient -/
theorem nonTransient_of_alive {d : BDeme} {t : Q} (h1 : bEndTime d ≤ t) (h2 : ETime.fin t < d.startTime) :
    nonTransient d = true := by
  unfold nonTransient
  cases hs : d.startTime with
  | inf => rfl
  | fin st =>
    rw [hs] at h2
    have h2' : t < st := h2
    have : st ≠ bEndTime d := by grind
    simp [this]

/-- a transient deme starts, at a non-zero time, where its last epoch ends -/
theorem transient_start {d : BDeme} (h : nonTransient d = false) :
    ∃ st, d.startTime = .fin st ∧ st ≠ 0 ∧ st = bEndTime d := by
  unfold nonTransient at h
  cases hs : d.startTime with
  | inf => rw [hs] at h; cases h
  | fin st =>
    rw [hs] at h
    refine ⟨st, rfl, ?_⟩
    simpa using h

/-- the open epoch of a non-transient deme of the state ends before the deme starts -/
theorem headLt_of_nonTransient {T : Q} {s : BState} {j : Nat} {d : BDeme} (hw : DemeWF T s j d)
    (hnt : nonTransient d = true) {e : BEpoch} {r : List BEpoch} (he : d.epochs = e :: r) :
    ETime.fin e.endTime < d.startTime := by
  by_cases hj : s.joined.contains j = true
  · obtain ⟨Tj, hst, h0, _, halt, _⟩ := hw.dead hj
    rw [hst]
    rcases halt with h | ⟨e', he', hT⟩
    · exact h e r he
    · exfalso
      have hb : bEndTime d = Tj := by
        unfold bEndTime; rw [he']; simpa using hT
      unfold nonTransient at hnt
      rw [hst] at hnt
      have : ¬ (Tj = 0) := by grind
      simp [hb, this] at hnt
  · have hj' : s.joined.contains j = false := by simpa using hj
    rw [(hw.live hj').1]
    trivial

/-- a deme the document may refer to: a non-transient deme of the state, by its name -/
def RefOK (s : BState) (name : String) : Prop :=
  ∃ k dk, name = Ms.demeName k ∧ s.demes[k]? = some dk ∧ nonTransient dk = true

theorem transient_not_ref {s : BState} (hn : NameInv s) {j : Nat} {d : BDeme} (hj : s.demes[j]? = some d)
    (ht : nonTransient d = false) (hr : RefOK s d.name) : False := by
  obtain ⟨k, dk, hk, hdk, hnt⟩ := hr
  rw [name_of_getElem hn hj] at hk
  have := eq_of_demeName hj hdk hk
  subst this
  rw [ht] at hnt
  cases hnt

/-- the names an ancestor list of a state deme mentions are `RefOK` -/
theorem anc_refOK {T : Q} {s : BState} {j : Nat} {o : BDeme} (hw : DemeWF T s j o) {a : String}
    (ha : a ∈ o.ancestors.getD []) : RefOK s a := by
  by_cases hj : s.joined.contains j = true
  · obtain ⟨Tj, _, _, _, _, hanc⟩ := hw.dead hj
    obtain ⟨as, has, _, _, hall, _⟩ := hanc.anc
    rw [has] at ha
    obtain ⟨k, dk, hk, _, hdk, h1, h2⟩ := hall a ha
    exact ⟨k, dk, hk, hdk, nonTransient_of_alive h1 h2⟩
  · have hj' : s.joined.contains j = false := by simpa using hj
    rw [(hw.live hj').2.1] at ha
    cases ha

theorem pulse_refOK {T : Q} {s : BState} {p : BPulse} (hw : PulseWF T s p) :
    RefOK s p.dest ∧ ∀ a ∈ p.sources, RefOK s a := by
  obtain ⟨j, k, q, dj, dk, hs, hd, _, _, _, _, _, _, hdj, hdk, h1, h2, h3, h4⟩ := hw.shape
  refine ⟨⟨j, dj, hd, hdj, nonTransient_of_alive (Rat.le_of_lt h1) h3⟩, ?_⟩
  intro a ha
  rw [hs] at ha
  have : a = Ms.demeName k := by simpa using ha
  exact ⟨k, dk, this, hdk, nonTransient_of_alive h2 h4⟩

theorem mig_refOK {s : BState} {migs : List BMigration} (hw : DocMigsWF s migs) {m : BMigration}
    (hm : m ∈ migs) : RefOK s m.source ∧ RefOK s m.dest := by
  obtain ⟨j, k, q, dj, dk, hs, hd, _, _, _, _, hdj, hdk, h0, h1, h2, h3, h4⟩ := hw.shape m hm
  exact ⟨⟨k, dk, hs, hdk, nonTransient_of_alive h2 (etime_lt_of_lt_of_le h0 h4)⟩,
    ⟨j, dj, hd, hdj, nonTransient_of_alive h1 (etime_lt_of_lt_of_le h0 h3)⟩⟩

/-! ## some deme is not transient -/

theorem exists_max_start : ∀ (l : List BDeme), l ≠ [] → ∃ d ∈ l, ∀ d' ∈ l, d'.startTime ≤ d.startTime := by
  intro l
  induction l with
  | nil => intro h; exact (h rfl).elim
  | cons x xs ih =>
    intro _
    cases xs with
    | nil =>
      refine ⟨x, List.mem_cons_self, ?_⟩
      intro d' hd'
      rcases List.mem_cons.1 hd' with rfl | h
      · exact RV.etime_le_refl _
      · cases h
    | cons y ys =>
      obtain ⟨d, hd, hmax⟩ := ih (by simp)
      by_cases hx : x.startTime ≤ d.startTime
      · refine ⟨d, List.mem_cons_of_mem _ hd, ?_⟩
        intro d' hd'
        rcases List.mem_cons.1 hd' with rfl | h
        · exact hx
        · exact hmax d' h
      · have hlt := RV.etime_not_le hx
        refine ⟨x, List.mem_cons_self, ?_⟩
        intro d' hd'
        rcases List.mem_cons.1 hd' with rfl | h
        · exact RV.etime_le_refl _
        · exact etime_le_trans (hmax d' h) (etime_le_of_lt hlt)

theorem etime_lt_irrefl_of_le {a b : ETime} (h1 : a < b) (h2 : b ≤ a) : False := by
  have := etime_lt_of_lt_of_le h1 h2
  cases a with
  | inf => exact this
  | fin x => exact absurd this Rat.lt_irrefl

theorem exists_nonTransient {T : Q} {s : BState} (hinv : AccInv T s) :
    ∃ (j : Nat) (d : BDeme), s.demes[j]? = some d ∧ nonTransient d = true := by
  have hne : s.demes ≠ [] := by
    intro e
    have := hinv.len
    rw [e] at this
    have := hinv.pos
    simp at *
    omega
  obtain ⟨d, hd, hmax⟩ := exists_max_start s.demes hne
  obtain ⟨j, hj⟩ := getElem_of_mem_demes hd
  refine ⟨j, d, hj, ?_⟩
  by_contra hnt
  have hnt' : nonTransient d = false := by simpa using hnt
  obtain ⟨st, hst, _, _⟩ := transient_start hnt'
  have hw := hinv.demes j d hj
  by_cases hjn : s.joined.contains j = true
  · obtain ⟨Tj, hst', _, _, _, hanc⟩ := hw.dead hjn
    obtain ⟨as, _, hne', _, hall, _⟩ := hanc.anc
    obtain ⟨a, as', rfl⟩ := List.exists_cons_of_ne_nil hne'
    obtain ⟨k, dk, _, _, hdk, _, hlt⟩ := hall a List.mem_cons_self
    have hmem : dk ∈ s.demes := List.mem_iff_getElem?.2 ⟨k, hdk⟩
    have := hmax dk hmem
    rw [hst'] at this
    exact etime_lt_irrefl_of_le hlt this
  · have hjn' : s.joined.contains j = false := by simpa using hjn
    rw [(hw.live hjn').1] at hst
    cases hst

/-! ## `_remove_transient_demes` succeeds -/

theorem transientStep_total {doc : MsDoc} {cur : List BDeme} {d : BDeme}
    (hU : nonTransient d = false → Unreferenced doc cur d) :
    ∃ cur', transientStep doc cur d = .ok cur' ∧ ∀ o ∈ cur', o ∈ cur := by
  unfold transientStep
  cases hst : d.startTime with
  | inf => exact ⟨cur, rfl, fun _ h => h⟩
  | fin st =>
    dsimp only
    by_cases h0 : st = 0
    · rw [if_pos h0]; exact ⟨cur, rfl, fun _ h => h⟩
    · rw [if_neg h0]
      by_cases h1 : st = lastEndTime d
      · rw [if_pos h1]
        have hnt : nonTransient d = false := by
          unfold nonTransient
          rw [hst]
          have : st = bEndTime d := h1
          simp [h0, ← this]
        obtain ⟨u1, u2, u3⟩ := hU hnt
        have c1 : ¬ ((doc.pulses.getD []).any (fun p => p.sources.contains d.name || p.dest = d.name) = true) := by
          simp only [List.any_eq_true, not_exists, not_and, Bool.or_eq_true, decide_eq_true_eq,
            List.contains_iff_mem, not_or]
          exact u1
        have c2 : ¬ (doc.migrations.any (fun m => m.source = d.name || m.dest = d.name) = true) := by
          simp only [List.any_eq_true, not_exists, not_and, Bool.or_eq_true, decide_eq_true_eq, not_or]
          exact u2
        have c3 : ¬ (cur.any (fun o => (o.ancestors.getD []).contains d.name) = true) := by
          simp only [List.any_eq_true, not_exists, not_and, List.contains_iff_mem]
          exact u3
        rw [if_neg c1, if_neg c2, if_neg c3]
        exact ⟨_, rfl, fun o ho => (List.mem_filter.1 ho).1⟩
      · rw [if_neg h1]; exact ⟨cur, rfl, fun _ h => h⟩

/-- **`_remove_transient_demes` succeeds** when no pulse, migration or ancestor list mentions a transient
deme, and keeps exactly the non-transient demes -/
theorem removeTransient_succeeds {doc : MsDoc} (hne : doc.demes ≠ []) (hnd : (doc.demes.map (·.name)).Nodup)
    (hU : ∀ d ∈ doc.demes, nonTransient d = false → Unreferenced doc doc.demes d) :
    removeTransientDemes doc = .ok { doc with demes := doc.demes.filter nonTransient } := by
  have hex : ∃ doc', removeTransientDemes doc = .ok doc' := by
    rw [removeTransientDemes_eq]
    have he : doc.demes.isEmpty = false := by simpa using hne
    rw [he]
    -- only the demes of the document are folded over; weaken `hU` to all transient demes that occur
    have hfold : ∀ (ds cur : List BDeme), (∀ d ∈ ds, d ∈ doc.demes) → (∀ o ∈ cur, o ∈ doc.demes) →
        ∃ cur', ds.foldlM (transientStep doc) cur = .ok cur' := by
      intro ds
      induction ds with
      | nil => intro cur _ _; exact ⟨cur, rfl⟩
      | cons d ds ih =>
        intro cur hds hc
        obtain ⟨c1, h1, hs1⟩ := transientStep_total (doc := doc) (cur := cur) (d := d) (fun hnt => by
          obtain ⟨a, b, c⟩ := hU d (hds d List.mem_cons_self) hnt
          exact ⟨a, b, fun o ho => c o (hc o ho)⟩)
        obtain ⟨c2, h2⟩ := ih c1 (fun x hx => hds x (List.mem_cons_of_mem _ hx)) (fun o ho => hc o (hs1 o ho))
        refine ⟨c2, ?_⟩
        rw [List.foldlM_cons, h1]
        exact h2
    obtain ⟨cur', hc⟩ := hfold doc.demes doc.demes (fun _ h => h) (fun _ h => h)
    refine ⟨{ doc with demes := cur' }, ?_⟩
    simp only [Bool.false_eq_true, if_false]
    rw [hc]
    rfl
  obtain ⟨doc', h⟩ := hex
  rw [h, removeTransientDemes_eqC h hnd]

end Demes.Proofs.MsAcc
