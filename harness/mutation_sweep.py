#!/usr/bin/env python3
"""Systematic small syntactic mutants of the library, as a measure of what the checks detect.

  mutation_sweep.py <scratch worktree of /repo> [--n 40] [--seed 5] [--jobs 8] [--out seeded/sweep]

For a random sample of mutation sites in demes/{demes,ms,load_dump,__main__}.py (comparison operator
swapped, `and`/`or` swapped, `not` dropped, 0/1 constants swapped, `if cond: raise` disabled,
`break`/`continue` swapped): apply the mutant in the scratch worktree, run the repository's own
test suite; mutants the suite kills are only counted.  For every SURVIVOR all twenty quick checks
are run against the patched worktree (VERIF_REPO/PYTHONPATH; /repo is never touched) and the
outcome is recorded in <out>/<k>.json.  Run it from a COPY of /verif if other checks may run at
the same time (the generated Lean tables are written into the copy's lean/ directory).
"""
import ast
import json
import os
import random
import subprocess
import sys
import tempfile
import time
from concurrent.futures import ThreadPoolExecutor

V = os.path.dirname(os.path.dirname(os.path.abspath(__file__)))
FILES = ["demes/demes.py", "demes/ms.py", "demes/load_dump.py", "demes/__main__.py"]
SUITE = ["tests/test_demes.py", "tests/test_load_dump.py", "tests/test_ms.py", "tests/test_import_visibility.py",
         "tests/test_cli.py::TestParseCommand::test_nonyaml_output_with_multiple_graphs_error",
         "tests/test_cli.py::TestTopLevel::test_no_arguments_produces_help_output"]
CMP = {"<": "<=", "<=": "<", ">": ">=", ">=": ">", "==": "!=", "!=": "=="}


def sites(path, src):
    """list of (lineno, col, end_col, replacement, kind, function) — single-line edits only"""
    tree = ast.parse(src)
    lines = src.split("\n")
    out = []
    func_of = {}

    def mark(node, name):
        for ch in ast.iter_child_nodes(node):
            nm = name
            if isinstance(ch, (ast.FunctionDef, ast.ClassDef)):
                nm = (name + "." if name else "") + ch.name
            func_of[id(ch)] = nm
            mark(ch, nm)
    mark(tree, "")
    for node in ast.walk(tree):
        fn = func_of.get(id(node), "")
        if isinstance(node, ast.Compare) and len(node.ops) == 1 and node.left.end_lineno == node.comparators[0].lineno:
            ln = node.left.end_lineno
            a, b = node.left.end_col_offset, node.comparators[0].col_offset
            seg = lines[ln - 1][a:b]
            op = seg.strip()
            if op in CMP:
                i = a + seg.index(op)
                out.append((ln, i, i + len(op), CMP[op], "cmp " + op + "->" + CMP[op], fn))
        elif isinstance(node, ast.BoolOp):
            for x, y in zip(node.values, node.values[1:]):
                if x.end_lineno == y.lineno:
                    seg = lines[x.end_lineno - 1][x.end_col_offset:y.col_offset]
                    op = "and" if isinstance(node.op, ast.And) else "or"
                    if seg.strip() == op:
                        i = x.end_col_offset + seg.index(op)
                        out.append((x.end_lineno, i, i + len(op), "or" if op == "and" else "and", f"bool {op} swapped", fn))
        elif isinstance(node, ast.UnaryOp) and isinstance(node.op, ast.Not) and node.lineno == node.operand.lineno:
            out.append((node.lineno, node.col_offset, node.operand.col_offset, "", "not dropped", fn))
        elif isinstance(node, ast.Constant) and type(node.value) is int and node.value in (0, 1) and node.lineno == node.end_lineno:
            txt = lines[node.lineno - 1][node.col_offset:node.end_col_offset]
            if txt in ("0", "1"):
                out.append((node.lineno, node.col_offset, node.end_col_offset, "1" if txt == "0" else "0", f"const {txt} flipped", fn))
        elif isinstance(node, ast.If) and node.body and isinstance(node.body[0], ast.Raise) and node.test.lineno == node.test.end_lineno:
            out.append((node.test.lineno, node.test.col_offset, node.test.end_col_offset, "False", "raise disabled", fn))
        elif isinstance(node, (ast.Break, ast.Continue)):
            w = "break" if isinstance(node, ast.Break) else "continue"
            out.append((node.lineno, node.col_offset, node.col_offset + len(w), "continue" if w == "break" else "break", w + " swapped", fn))
    return out


def run(cmd, cwd, env, timeout):
    try:
        p = subprocess.run(cmd, cwd=cwd, env=env, stdout=subprocess.PIPE, stderr=subprocess.STDOUT, timeout=timeout)
        return p.returncode, p.stdout.decode(errors="replace")
    except subprocess.TimeoutExpired:
        return 124, "timeout"


def main():
    args = sys.argv[1:]
    wt = args.pop(0)
    n, seed, jobs, out = 40, 5, 8, os.path.join(V, "seeded", "sweep")
    while args:
        a = args.pop(0)
        if a == "--n": n = int(args.pop(0))
        elif a == "--seed": seed = int(args.pop(0))
        elif a == "--jobs": jobs = int(args.pop(0))
        elif a == "--out": out = args.pop(0)
    os.makedirs(out, exist_ok=True)
    rng = random.Random(seed)
    run(["git", "checkout", "--", "."], wt, None, 60)
    allsites = []
    for f in FILES:
        src = open(os.path.join(wt, f)).read()
        for s in sites(f, src):
            allsites.append((f,) + s)
    rng.shuffle(allsites)
    pids = [c["property_id"] for c in json.load(open(os.path.join(V, "MANIFEST.json")))["checks"]]
    env = dict(os.environ, PYTHONPATH=wt)
    killed = survivors = 0
    summary = []
    for (f, ln, a, b, rep, kind, fn) in allsites:
        if survivors >= n:
            break
        path = os.path.join(wt, f)
        src = open(path).read()
        lines = src.split("\n")
        orig_line = lines[ln - 1]
        lines[ln - 1] = orig_line[:a] + rep + orig_line[b:]
        open(path, "w").write("\n".join(lines))
        try:
            rc, o = run(["/venv/bin/python", "-m", "pytest", "-q", "-x", "-p", "no:cacheprovider", "--timeout=900"] + SUITE, wt, env, 1800)
            if rc != 0:
                killed += 1
                continue
            survivors += 1
            rec = {"file": f, "line": ln, "function": fn, "kind": kind, "original": orig_line.strip(), "mutated": lines[ln - 1].strip(), "results": {}}
            ev = tempfile.mkdtemp(prefix="sweep_ev_")
            env2 = dict(env, VERIF_REPO=wt, VERIF_EVIDENCE_DIR=ev, VERIF_SEED="1")

            def one(pid):
                t0 = time.time()
                rc, o = run([os.path.join(V, "check"), pid, "--tier", "quick"], V, env2, 3600)
                what = None
                for l in o.splitlines():
                    if l.startswith("VIOLATION") and "replay=" in l:
                        try:
                            rp = json.load(open(l.split("replay=")[1].split()[0]))
                            what = rp.get("what") or rp.get("kind")
                        except Exception:  # noqa: BLE001
                            pass
                        break
                return pid, {"exit": rc, "what": what, "wall_s": round(time.time() - t0)}
            with ThreadPoolExecutor(jobs) as ex:
                for pid, r in ex.map(one, pids):
                    rec["results"][pid] = r
            rec["caught_by"] = [p for p, r in rec["results"].items() if r["exit"] == 1]
            rec["with_failing_input"] = [p for p, r in rec["results"].items() if r["exit"] == 1 and r["what"] and "no property-failing input" not in r["what"] and "no-failing-input" not in r["what"]]
            rec["errors"] = [p for p, r in rec["results"].items() if r["exit"] not in (0, 1)]
            json.dump(rec, open(os.path.join(out, f"{survivors:03d}.json"), "w"), indent=1)
            summary.append(rec)
            print(f"[{survivors}] {f}:{ln} {fn} {kind}: caught_by={rec['caught_by']} failing_input={rec['with_failing_input']} errors={rec['errors']}", flush=True)
        finally:
            open(path, "w").write(src)
    # restore the generated tables for the real tree
    run([sys.executable, os.path.join(V, "harness", "extract_tables.py")], V, dict(os.environ, VERIF_REPO="/repo"), 600)
    json.dump({"seed": seed, "sites": len(allsites), "killed_by_tests": killed, "survivors": survivors,
               "caught": sum(1 for r in summary if r["caught_by"]), "not_caught": [f"{r['file']}:{r['line']} {r['kind']}" for r in summary if not r["caught_by"]]},
              open(os.path.join(out, "summary.json"), "w"), indent=1)
    print("killed by tests:", killed, "survivors:", survivors, "caught:", sum(1 for r in summary if r["caught_by"]))


if __name__ == "__main__":
    main()
