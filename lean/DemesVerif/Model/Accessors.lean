/-
  The five read accessors of demes/demes.py:

    Epoch.time_span      return self.start_time - self.end_time
    Deme.end_time        return self.epochs[-1].end_time
    Deme.time_span       return self.start_time - self.end_time
    Graph.__getitem__    return self._deme_map[deme_name]
    Graph.__contains__   return deme_name in self._deme_map

  mirrored statement by statement.  `Deme.end_time` of a deme without epochs raises `IndexError`
  (`[][-1]`), and `Deme.time_span` reads `self.end_time`, so it raises with it; `graph[name]` raises
  `KeyError` for a name that is not a key of `_deme_map`.  The Model's `_deme_map` (`Graph.index`)
  holds the POSITION of the deme object in `Graph.demes`; a position outside the list cannot occur in
  Python (the dict holds the object itself) and is reported as an error of its own.

  `Model/Graph.lean` already has the total forms used by the rest of the Model (`Deme.endTime`,
  `Deme.endTime?`, `Graph.deme?`, `Graph.hasName`); `Theorems/C01Accessors.lean` relates the two.
-/
import DemesVerif.Model.Graph
namespace Demes

namespace ETime

/-- float `a - b` for a time `a` (finite or `inf`) and a finite `b`: `inf - b = inf` -/
def subQ (a : ETime) (b : Q) : ETime :=
  match a with
  | inf => inf
  | fin q => fin (q - b)

/-- float `a + b` on times (`inf + x = inf`) -/
def add : ETime → ETime → ETime
  | fin a, fin b => fin (a + b)
  | _, _ => inf

end ETime

def indexErr {α} (m : String) : Except Err α := .error ⟨.other, "IndexError: " ++ m⟩

namespace Epoch

/-- `Epoch.time_span` -/
def timeSpan (e : Epoch) : ETime := e.startTime.subQ e.endTime

end Epoch

namespace Deme

/-- `Deme.end_time` as the property computes it: `self.epochs[-1].end_time`, `IndexError` on a deme
without epochs -/
def endTimeAcc (d : Deme) : Except Err Q :=
  match d.epochs.getLast? with
  | some e => pure e.endTime
  | none => indexErr "list index out of range"

/-- `Deme.time_span`: `self.start_time - self.end_time`, the second operand being the property above -/
def timeSpan (d : Deme) : Except Err ETime := do
  let e ← d.endTimeAcc
  pure (d.startTime.subQ e)

end Deme

namespace Graph

/-- `Graph.__getitem__`: `self._deme_map[deme_name]` — the first (only) entry of the insertion-ordered
map with that key, `KeyError` when there is none; the value is the deme at the recorded position -/
def getItem (g : Graph) (name : String) : Except Err Deme :=
  match g.index.find? (fun kv => kv.1 = name) with
  | none => keyErr name
  | some kv =>
    match g.demes[kv.2]? with
    | some d => pure d
    | none => .error ⟨.other, "name index points outside the deme list"⟩

/-- `Graph.__contains__`: `deme_name in self._deme_map` -/
def contains (g : Graph) (name : String) : Bool := g.index.any (fun kv => kv.1 = name)

end Graph

end Demes
