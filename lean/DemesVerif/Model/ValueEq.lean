/-
  Decidable equality of documents (`Value` is a nested inductive type, for which `deriving
  DecidableEq` is not available): a Boolean comparison and its correctness proof.
  Used by the heap abstraction (`Model/Heap.lean`) so that closed statements about stores and
  unfolded documents can be checked by `decide +kernel`.
-/
import DemesVerif.Model.Value
namespace Demes

mutual
def Value.beqV : Value → Value → Bool
  | .null, .null => true
  | .bool a, .bool b => decide (a = b)
  | .num a, .num b => decide (a = b)
  | .str a, .str b => decide (a = b)
  | .list a, .list b => Value.beqL a b
  | .obj a, .obj b => Value.beqO a b
  | _, _ => false
def Value.beqL : List Value → List Value → Bool
  | [], [] => true
  | x :: xs, y :: ys => Value.beqV x y && Value.beqL xs ys
  | _, _ => false
def Value.beqO : List (String × Value) → List (String × Value) → Bool
  | [], [] => true
  | (k, x) :: xs, (k', y) :: ys => decide (k = k') && Value.beqV x y && Value.beqO xs ys
  | _, _ => false
end

mutual
theorem Value.eq_of_beqV : (a b : Value) → Value.beqV a b = true → a = b
  | .null, b, h => by cases b <;> simp_all [Value.beqV]
  | .bool x, b, h => by cases b <;> simp_all [Value.beqV]
  | .num x, b, h => by cases b <;> simp_all [Value.beqV]
  | .str x, b, h => by cases b <;> simp_all [Value.beqV]
  | .list xs, .list ys, h => by
      have := Value.eq_of_beqL xs ys (by simpa [Value.beqV] using h); simp [this]
  | .list xs, .null, h | .list xs, .bool _, h | .list xs, .num _, h | .list xs, .str _, h
  | .list xs, .obj _, h => by
      simp [Value.beqV] at h
  | .obj xs, .obj ys, h => by
      have := Value.eq_of_beqO xs ys (by simpa [Value.beqV] using h); simp [this]
  | .obj xs, .null, h | .obj xs, .bool _, h | .obj xs, .num _, h | .obj xs, .str _, h
  | .obj xs, .list _, h => by
      simp [Value.beqV] at h
theorem Value.eq_of_beqL : (a b : List Value) → Value.beqL a b = true → a = b
  | [], [], _ => rfl
  | [], _ :: _, h => by simp [Value.beqL] at h
  | _ :: _, [], h => by simp [Value.beqL] at h
  | x :: xs, y :: ys, h => by
      simp [Value.beqL] at h
      rw [Value.eq_of_beqV x y h.1, Value.eq_of_beqL xs ys h.2]
theorem Value.eq_of_beqO : (a b : List (String × Value)) → Value.beqO a b = true → a = b
  | [], [], _ => rfl
  | [], _ :: _, h => by simp [Value.beqO] at h
  | _ :: _, [], h => by simp [Value.beqO] at h
  | (k, x) :: xs, (k', y) :: ys, h => by
      simp [Value.beqO] at h
      rw [h.1.1, Value.eq_of_beqV x y h.1.2, Value.eq_of_beqO xs ys h.2]
end

mutual
theorem Value.beqV_refl : (a : Value) → Value.beqV a a = true
  | .null => by simp [Value.beqV]
  | .bool _ => by simp [Value.beqV]
  | .num _ => by simp [Value.beqV]
  | .str _ => by simp [Value.beqV]
  | .list xs => by simp [Value.beqV, Value.beqL_refl xs]
  | .obj xs => by simp [Value.beqV, Value.beqO_refl xs]
theorem Value.beqL_refl : (a : List Value) → Value.beqL a a = true
  | [] => by simp [Value.beqL]
  | x :: xs => by simp [Value.beqL, Value.beqV_refl x, Value.beqL_refl xs]
theorem Value.beqO_refl : (a : List (String × Value)) → Value.beqO a a = true
  | [] => by simp [Value.beqO]
  | (k, x) :: xs => by simp [Value.beqO, Value.beqV_refl x, Value.beqO_refl xs]
end

instance : DecidableEq Value := fun a b =>
  if h : Value.beqV a b = true then isTrue (Value.eq_of_beqV a b h)
  else isFalse (fun e => h (e ▸ Value.beqV_refl a))

end Demes
