/-
  C07 — the interpreter `msSemG`: what a run does to one population.
-/
import DemesVerif.Proofs.ToMsRun
set_option linter.unusedSimpArgs false
set_option linter.unusedVariables false
namespace Demes.Proofs.ToMs
open Demes Demes.Ms Demes.Spec Demes.Spec.C07 Demes.Proofs.RV
open Demes.Spec.MsSem (Row Mat matGet matSet canonRows Move DemogSem PopSem Seg MigSeg)

/-- the update option `e` makes to the population at position `k` -/
def updOf? (N0 : Q) (k : Nat) (e : Event Growth) : Option Upd :=
  match e with
  | .popSizeChange _ t i (.fin x) =>
    if idx i = k then some ⟨4 * N0 * evT e, some (x * N0), if numPos t then some .zero else none⟩ else none
  | .popGrowthRateChange _ _ i a => if idx i = k then some ⟨4 * N0 * evT e, none, some a⟩ else none
  | _ => none

def isJoinIdx (k : Nat) : Event Growth → Bool
  | .join _ _ i _ => idx i = k
  | _ => false

def popStep (N0 : Q) (k : Nat) (p : PopG) (e : Event Growth) : PopG :=
  { lo := p.lo, hi := if isJoinIdx k e then .fin (4 * N0 * evT e) else p.hi, upd := p.upd ++ (updOf? N0 k e).toList }

theorem stepP_pops_length (N0 : Q) (s : StG) (e : Event Growth) : s.pops.length ≤ (stepP N0 s e).pops.length := by
  cases e with
  | popSizeChange o t i x => cases x <;> simp [stepP, updPop]
  | migEntryChange o t i j r => cases r <;> simp [stepP, StG.snap]
  | split o t i p => cases p <;> simp [stepP, StG.snap]
  | popGrowthRateChange => simp [stepP, updPop]
  | join => simp [stepP, updPop, StG.snap]
  | _ => simp [stepP]

theorem modify_get {α} (l : List α) (i k : Nat) (f : α → α) (p : α) (h : l[k]? = some p) :
    (l.modify i f)[k]? = some (if i = k then f p else p) := by
  rw [List.getElem?_modify, h]
  simp only [Option.map_eq_map, Option.map_some]

theorem stepP_pops_get {N0 : Q} {s : StG} {k : Nat} {p : PopG} (h : s.pops[k]? = some p) (e : Event Growth) :
    (stepP N0 s e).pops[k]? = some (popStep N0 k p e) := by
  have hlt : k < s.pops.length := (List.getElem?_eq_some_iff.mp h).1
  cases e with
  | popSizeChange o t i x =>
    cases x with
    | fin y =>
      simp only [stepP, updPop, popStep, isJoinIdx, updOf?]
      rw [modify_get _ _ _ _ _ h]
      by_cases hk : idx i = k <;> simp [hk]
    | _ => simp [stepP, popStep, isJoinIdx, updOf?, h]
  | popGrowthRateChange o t i a =>
    simp only [stepP, updPop, popStep, isJoinIdx, updOf?]
    rw [modify_get _ _ _ _ _ h]
    by_cases hk : idx i = k <;> simp [hk]
  | migEntryChange o t i j r => cases r <;> simp [stepP, StG.snap, popStep, isJoinIdx, updOf?, h]
  | split o t i p' =>
    cases p' with
    | fin y =>
      simp only [stepP, StG.snap, popStep, isJoinIdx, updOf?]
      rw [List.getElem?_append_left hlt, h]
      simp
    | _ => simp [stepP, popStep, isJoinIdx, updOf?, h]
  | join o t i j =>
    simp only [stepP, updPop, StG.snap, popStep, isJoinIdx, updOf?]
    rw [modify_get _ _ _ _ _ h]
    by_cases hk : idx i = k <;> simp [hk]
  | growthRateChange => simp [stepP, popStep, isJoinIdx, updOf?, h]
  | sizeChange => simp [stepP, popStep, isJoinIdx, updOf?, h]
  | migRateChange => simp [stepP, popStep, isJoinIdx, updOf?, h]
  | migMatrixChange => simp [stepP, popStep, isJoinIdx, updOf?, h]

/-- the time of the last `-ej k+1 …` of `evs`, `h0` if there is none -/
def hiFrom (N0 : Q) (h0 : ETime) (evs : List (Event Growth)) (k : Nat) : ETime :=
  match (evs.filter (isJoinIdx k)).getLast? with
  | some e => .fin (4 * N0 * evT e)
  | none => h0

theorem hiFrom_cons (N0 : Q) (h0 : ETime) (e : Event Growth) (r : List (Event Growth)) (k : Nat) :
    hiFrom N0 h0 (e :: r) k = hiFrom N0 (if isJoinIdx k e then .fin (4 * N0 * evT e) else h0) r k := by
  unfold hiFrom
  by_cases hj : isJoinIdx k e = true
  · simp only [List.filter_cons, hj, if_true]
    cases hl : (r.filter (isJoinIdx k)).getLast? with
    | none =>
      have : r.filter (isJoinIdx k) = [] := by simpa using hl
      simp [this]
    | some x =>
      obtain ⟨l', hl'⟩ := List.getLast?_eq_some_iff.mp hl
      rw [hl']
      have h1 : (e :: (l' ++ [x])).getLast? = some x := by
        rw [← List.cons_append, List.getLast?_concat]
      rw [h1]
  · simp [List.filter_cons, hj]

theorem runP_pops_get {N0 : Q} : ∀ (evs : List (Event Growth)) {s : StG} {k : Nat} {p : PopG}, s.pops[k]? = some p →
    (runP N0 s evs).pops[k]? = some { lo := p.lo, hi := hiFrom N0 p.hi evs k, upd := p.upd ++ evs.filterMap (updOf? N0 k) }
  | [], s, k, p, h => by simp [runP, hiFrom, h]
  | e :: r, s, k, p, h => by
    rw [runP_cons, runP_pops_get r (stepP_pops_get h e), hiFrom_cons]
    simp only [popStep, List.filterMap_cons, List.append_assoc]
    cases updOf? N0 k e <;> simp

theorem runP_pops_length (N0 : Q) : ∀ (evs : List (Event Growth)) (s : StG), s.pops.length ≤ (runP N0 s evs).pops.length
  | [], _ => Nat.le_refl _
  | e :: r, s => Nat.le_trans (stepP_pops_length N0 s e) (runP_pops_length N0 r _)

end Demes.Proofs.ToMs
