/-
  C18 — declarative vocabulary over the heap abstraction (`Model/Heap.lean`):
  reachability, access paths, "the copy is a tree", regions of addresses, no dangling
  references.  Written from the property text ("never modifies the caller's data", "later
  changes … do not affect a graph already returned"), not from the copy algorithm.
-/
import DemesVerif.Model.Heap
namespace Demes.Spec.C18
open Demes Demes.Heap

/-- `b` is reachable from `r`: `r` is `b`, or some entry of the object `r` reaches `b` -/
inductive Reach (s : Store) : Ref → Addr → Prop where
  | here (a : Addr) : Reach s (.addr a) a
  | step (a : Addr) (c : Cell) (r : Ref) (b : Addr) :
      s[a]? = some c → r ∈ c.refs → Reach s r b → Reach s (.addr a) b

/-- follow an access path (entry positions) from a reference -/
def follow (s : Store) : Ref → List Nat → Option Ref
  | r, [] => some r
  | .atom _, _ :: _ => none
  | .addr a, i :: p =>
    match s[a]? with
    | none => none
    | some c =>
      match c.refs[i]? with
      | none => none
      | some r' => follow s r' p

/-- No container is reachable twice: every container reachable from `r` has exactly one
access path (the object graph under `r` is a tree). -/
def Unaliased (s : Store) (r : Ref) : Prop :=
  ∀ p q a, follow s r p = some (.addr a) → follow s r q = some (.addr a) → p = q

/-- a reference is a leaf or points into the set `P` of addresses -/
def RefIn (P : Addr → Prop) : Ref → Prop
  | .atom _ => True
  | .addr a => P a

/-- the objects in `P` refer only to objects in `P` -/
def ClosedOn (P : Addr → Prop) (s : Store) : Prop :=
  ∀ a c, P a → s[a]? = some c → ∀ r ∈ c.refs, RefIn P r

/-- no dangling references: every reference held by an object or in `roots` is allocated -/
def WF (s : Store) (roots : List Ref) : Prop :=
  (∀ r ∈ roots, RefIn (· < s.length) r) ∧ ClosedOn (· < s.length) s

/-- the two stores hold the same objects at the addresses in `P` -/
def SameOn (P : Addr → Prop) (s s' : Store) : Prop := ∀ a, P a → s'[a]? = s[a]?

/-- a mutation script never targets an object in `P` -/
def Avoids (P : Addr → Prop) (ms : List Mut) : Prop := ∀ m ∈ ms, ∀ a, m.target = some a → ¬ P a

/-- every store cell is only referenced "backwards" (an object is allocated after the objects
it holds): the shape of every heap built bottom-up — literals, YAML/JSON loaders, a Builder's
`add_*` calls — and of every tree or DAG up to renumbering. -/
def Backward (s : Store) : Prop :=
  ∀ a c, s[a]? = some c → ∀ r ∈ c.refs, RefIn (· < a) r

/-- session invariant: the caller's part of the heap and the part of each graph handed out
are separate, closed regions -/
structure SessionOK (σ : Session) : Prop where
  wf : WF σ.store σ.caller
  callerRegs : ∀ r ∈ σ.caller, RefIn σ.callerOwns r
  callerClosed : ClosedOn σ.callerOwns σ.store
  regionBound : ∀ ρ ∈ σ.returned, ρ.hi ≤ σ.store.length
  regionClosed : ∀ ρ ∈ σ.returned, ClosedOn (fun a => ρ.lo ≤ a ∧ a < ρ.hi) σ.store
  regionRoots : ∀ ρ ∈ σ.returned, ∀ r ∈ ρ.roots, RefIn (fun a => ρ.lo ≤ a ∧ a < ρ.hi) r

end Demes.Spec.C18
