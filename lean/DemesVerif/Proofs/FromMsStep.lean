/-
  C08 — `build_graph`, one event at a time: each branch of the event loop as a named function,
  and what each leaves unchanged (frame lemmas).
-/
import DemesVerif.Proofs.ResolveLemmas
import DemesVerif.Model.Ms
namespace Demes.Proofs.FromMs
open Demes Demes.Ms
open Demes.Proofs.RV (bind_ok pure_ok)

/-! ## the per-deme updates -/

/-- `-G`, `-eG`, `-g`, `-eg` on one deme -/
def updGrowth (gr time : Q) (d : BDeme) : Except Err BDeme :=
  if curGrowth d ≠ gr then do
    let d ← epochResolve d time
    pure (modifyHead d (fun e => { e with growthRate := some gr }))
  else pure d

/-- `-eN`, `-en` (`reset = true`) and `-n` (`reset = false`) on one deme -/
def updSize (size : Sz) (reset : Bool) (time : Q) (d : BDeme) : Except Err BDeme :=
  if curGrowth d ≠ 0 || curEndSize d ≠ size then do
    let d ← epochResolve d time
    pure (modifyHead d (fun e =>
      if reset then { e with endSize := size, growthRate := some 0 } else { e with endSize := size }))
  else pure d

/-! ## the migration-matrix updates -/

/-- `-eM` -/
def migAllState (s : BState) (time : Q) (x : Num) : BState :=
  let s := migrationMatrixAt s time
  let n := (mm0 s).length
  let v := numDivQ x ((s.numDemes : Q) - 1)
  let m := (List.range n).foldl (fun m j =>
    if s.joined.contains j then m else
    (List.range n).foldl (fun m k =>
      if j ≠ k && !s.joined.contains k then mmSet m j k v else m) m) (mm0 s)
  setMM0 s m

/-- `-m`, `-em` -/
def migEntryState (s : BState) (time : Q) (pidI pidJ : Nat) (rate : Num) : BState :=
  let s := migrationMatrixAt s time
  setMM0 s (mmSet (mm0 s) pidI pidJ rate)

/-- zero the rows and columns of the joined populations -/
def zeroJoined (s : BState) (m : MM) : MM :=
  s.joined.foldl (fun m j =>
    (List.range s.numDemes).foldl (fun m k =>
      if j ≠ k then mmSet (mmSet m j k (.fin 0)) k j (.fin 0) else m) m) m

/-- `-ma`, `-ema` (after the `npop` check) -/
def migMatrixState (s : BState) (time : Q) (m : MM) : BState :=
  let s := migrationMatrixAt s time
  setMM0 s (zeroJoined s m)

/-- the matrix part of `-ej` -/
def joinMatrix (s : BState) (time : Q) (popI : Nat) : BState :=
  let s := migrationMatrixAt s time
  let m := (List.range s.numDemes).foldl (fun m k =>
    if k ≠ popI then mmSet (mmSet m k popI (.fin 0)) popI k (.fin 0) else m) (mm0 s)
  setMM0 s m

/-- `lineage_movements` after `-ej` -/
def joinLm (lm : List (List Q)) (popI popJ : Nat) : List (List Q) :=
  lm.map (fun row =>
    let row := row.set popJ (row.getD popJ 0 + row.getD popI 0)
    row.set popI 0)

/-- the last `(g, h, q)` with `h == pop_i` is redirected to `pop_j` -/
def redirect (popI popJ : Nat) : List (Nat × Nat × Q) → Option (List (Nat × Nat × Q))
  | [] => none
  | (a, h, q) :: r =>
    match redirect popI popJ r with
    | some r' => some ((a, h, q) :: r')
    | none => if h = popI then some ((a, popJ, q) :: r) else none

/-- `split_join_params` after `-ej` -/
def joinParams (params : List (Nat × Nat × Q)) (popI popJ : Nat) : List (Nat × Nat × Q) :=
  match redirect popI popJ params with
  | some ps => ps
  | none => params ++ [(popI, popJ, 1)]

/-- the deme update of `-ej` -/
def joinDeme (time : Q) (popJ : Nat) (d : BDeme) : Except Err BDeme :=
  pure { d with startTime := .fin time, ancestors := some [Ms.demeName popJ] }

/-- `lineage_movements` after `-es` -/
def splitLm (lm : List (List Q)) (pid newPid : Nat) (p : Q) : List (List Q) :=
  lm.map (fun row =>
    let row := row.set newPid ((1 - p) * row.getD pid 0)
    row.set pid (row.getD pid 0 * p))

/-- the new deme of `-es` -/
def newDeme (N0 time : Q) (newPid : Nat) : BDeme :=
  { name := Ms.demeName newPid, startTime := .inf, epochs := [{ endSize := Sz.ofQ N0, endTime := time }] }

/-- the state after `-es` -/
def splitState (N0 time : Q) (s : BState) : BState :=
  { s with demes := s.demes ++ [newDeme N0 time s.numDemes], numDemes := s.numDemes + 1,
           mmList := s.mmList.map (fun m =>
             m.map (fun row => row ++ [Num.fin 0]) ++ [List.replicate (s.numDemes + 1) (Num.fin 0)]) }

/-! ## the event loop body, branch by branch -/

theorem stepEvent_growthAll (N0 time : Q) (s : BState) (g : GState) (o : String) (t alpha : Num) :
    stepEvent N0 time (s, g) (.growthRateChange o t alpha) = (do
      let a ← finArg "alpha" alpha
      let s ← forLiveDemes s (updGrowth (a / (4 * N0)) time)
      pure (s, g)) := rfl

theorem stepEvent_growth (N0 time : Q) (s : BState) (g : GState) (o : String) (t alpha : Num) (i : Int) :
    stepEvent N0 time (s, g) (.popGrowthRateChange o t i alpha) = (do
      let pid ← convertPopulationId s i
      let a ← finArg "alpha" alpha
      let s ← modifyDeme s pid (updGrowth (a / (4 * N0)) time)
      pure (s, g)) := rfl

theorem stepEvent_sizeAll (N0 time : Q) (s : BState) (g : GState) (o : String) (t x : Num) :
    stepEvent N0 time (s, g) (.sizeChange o t x) = (do
      let q ← finArg "x" x
      let s ← forLiveDemes s (updSize (Sz.ofQ (q * N0)) true time)
      pure (s, g)) := rfl

theorem stepEvent_size (N0 time : Q) (s : BState) (g : GState) (o : String) (t x : Num) (i : Int) :
    stepEvent N0 time (s, g) (.popSizeChange o t i x) = (do
      let pid ← convertPopulationId s i
      let q ← finArg "x" x
      let s ← modifyDeme s pid (updSize (Sz.ofQ (q * N0)) (decide (o = "-en")) time)
      pure (s, g)) := by
  by_cases h : o = "-en"
  · subst h; rfl
  · have hd : decide (o = "-en") = false := decide_eq_false h
    rw [hd]
    simp only [stepEvent, h, if_false]
    rfl

theorem stepEvent_migAll (N0 time : Q) (s : BState) (g : GState) (o : String) (t x : Num) :
    stepEvent N0 time (s, g) (.migRateChange o t x) = pure (migAllState s time x, g) := rfl

theorem stepEvent_migEntry (N0 time : Q) (s : BState) (g : GState) (o : String) (t rate : Num) (i j : Int) :
    stepEvent N0 time (s, g) (.migEntryChange o t i j rate) = (do
      let pidI ← convertPopulationId s i
      let pidJ ← convertPopulationId s j
      if pidI = pidJ then valueErr "Cannot set diagonal elements in migration matrix"
      pure (migEntryState s time pidI pidJ rate, g)) := rfl

theorem stepEvent_migMatrix (N0 time : Q) (s : BState) (g : GState) (o : String) (t : Num) (npop : Int)
    (mm : List String) :
    stepEvent N0 time (s, g) (.migMatrixChange o t npop mm) = (do
      let npop : Int := if o = "-ma" then (s.numDemes : Int) else npop
      if npop ≠ (s.numDemes : Int) then
        valueErr s!"-ema 'npop' ({npop}) doesn't match the current number of demes ({s.numDemes})"
      let m ← matrixOf npop mm
      pure (migMatrixState s time m, g)) := rfl

theorem redirect_eq (popI popJ : Nat) : ∀ l, stepEvent.redirect popI popJ l = redirect popI popJ l := by
  intro l
  induction l with
  | nil => rfl
  | cons x r ih =>
    obtain ⟨a, h, q⟩ := x
    simp only [stepEvent.redirect, redirect, ih]
    cases redirect popI popJ r <;> rfl

theorem stepEvent_join (N0 time : Q) (s : BState) (g : GState) (o : String) (t : Num) (i j : Int) :
    stepEvent N0 time (s, g) (.join o t i j) = (do
      let popI ← convertPopulationId s i
      let popJ ← convertPopulationId s j
      let s ← modifyDeme s popI (joinDeme time popJ)
      let s := joinMatrix s time popI
      pure ({ s with joined := s.joined ++ [popI] },
            { lm := joinLm g.lm popI popJ, params := joinParams g.params popI popJ })) := by
  simp only [stepEvent, joinParams, ← redirect_eq]
  rfl

theorem stepEvent_split (N0 time : Q) (s : BState) (g : GState) (o : String) (t p : Num) (i : Int) :
    stepEvent N0 time (s, g) (.split o t i p) = (do
      let pid ← convertPopulationId s i
      let p ← finArg "p" p
      if g.lm.any (fun row => row.getD s.numDemes 0 ≠ 0) then assertionErr "lm[new_pid] == 0"
      pure (splitState N0 time s,
            { lm := splitLm g.lm pid s.numDemes p, params := g.params ++ [(pid, s.numDemes, 1 - p)] })) := rfl

/-! ## what the helpers do -/

theorem assertionErr_bind_ok {α β} {m : String} {f : α → Except Err β} {b : β} :
    ((assertionErr m : Except Err α) >>= f) = .ok b ↔ False := by simp [assertionErr, bind, Except.bind]

theorem outOfModel_ok {α} {m : String} {a : α} : (outOfModel m : Except Err α) = .ok a ↔ False := by
  simp [outOfModel]

/-- `epoch_resolve`: either the head epoch already ends at `time`, or it is cut there -/
theorem epochResolve_ok {d d' : BDeme} {time : Q} (h : epochResolve d time = .ok d') :
    ∃ e older, d.epochs = e :: older ∧ ETime.fin time < d.startTime ∧ e.endTime ≤ time ∧
      ((e.endTime = time ∧ d' = d) ∨
       (e.endTime < time ∧ d' = { d with epochs :=
          { e with endSize := e.endSize.mulExp (-(e.growthRate.getD 0) * (time - e.endTime)), endTime := time } ::
          { e with growthRate := none,
                   startSize := some (e.endSize.mulExp (-(e.growthRate.getD 0) * (time - e.endTime))) } :: older })) := by
  unfold epochResolve at h
  split at h
  · cases h
  · rename_i e older he
    split at h
    · cases h
    · rename_i hc
      have hc' : (decide (ETime.fin time < d.startTime) && decide (e.endTime ≤ time)) = true := by
        simpa using hc
      clear hc
      have hc : ETime.fin time < d.startTime ∧ e.endTime ≤ time := by
        simpa only [Bool.and_eq_true, decide_eq_true_eq] using hc'
      refine ⟨e, older, he, hc.1, hc.2, ?_⟩
      split at h
      · rename_i hlt
        right
        rw [pure_ok] at h
        exact ⟨hlt, h.symm⟩
      · rename_i hlt
        left
        rw [pure_ok] at h
        refine ⟨?_, h.symm⟩
        have := hc.2
        grind

/-- the fields of a deme that the size / growth events never touch -/
def SameHeader (d' d : BDeme) : Prop :=
  d'.name = d.name ∧ d'.startTime = d.startTime ∧ d'.ancestors = d.ancestors ∧ d'.proportions = d.proportions

theorem SameHeader.refl (d : BDeme) : SameHeader d d := ⟨rfl, rfl, rfl, rfl⟩

theorem SameHeader.trans {a b c : BDeme} (h1 : SameHeader a b) (h2 : SameHeader b c) : SameHeader a c :=
  ⟨h1.1.trans h2.1, h1.2.1.trans h2.2.1, h1.2.2.1.trans h2.2.2.1, h1.2.2.2.trans h2.2.2.2⟩

theorem epochResolve_header {d d' : BDeme} {time : Q} (h : epochResolve d time = .ok d') : SameHeader d' d := by
  obtain ⟨e, older, _, _, _, h | h⟩ := epochResolve_ok h
  · rw [h.2]; exact SameHeader.refl d
  · rw [h.2]; exact ⟨rfl, rfl, rfl, rfl⟩

theorem modifyHead_header (d : BDeme) (f : BEpoch → BEpoch) : SameHeader (modifyHead d f) d := by
  unfold modifyHead
  split
  · exact SameHeader.refl d
  · exact ⟨rfl, rfl, rfl, rfl⟩

theorem updGrowth_header {gr time : Q} {d d' : BDeme} (h : updGrowth gr time d = .ok d') : SameHeader d' d := by
  unfold updGrowth at h
  split at h
  · obtain ⟨d1, h1, h⟩ := bind_ok.1 h
    rw [pure_ok] at h
    subst h
    exact (modifyHead_header d1 _).trans (epochResolve_header h1)
  · rw [pure_ok] at h; subst h; exact SameHeader.refl _

theorem updSize_header {size : Sz} {reset : Bool} {time : Q} {d d' : BDeme}
    (h : updSize size reset time d = .ok d') : SameHeader d' d := by
  unfold updSize at h
  split at h
  · obtain ⟨d1, h1, h⟩ := bind_ok.1 h
    rw [pure_ok] at h
    subst h
    exact (modifyHead_header d1 _).trans (epochResolve_header h1)
  · rw [pure_ok] at h; subst h; exact SameHeader.refl _

theorem joinDeme_ok {time : Q} {popJ : Nat} {d d' : BDeme} (h : joinDeme time popJ d = .ok d') :
    d' = { d with startTime := .fin time, ancestors := some [Ms.demeName popJ] } := by
  unfold joinDeme at h
  rw [pure_ok] at h
  exact h.symm

/-- the loop over the demes that are not joined -/
theorem mapM_live_ok (joined : List Nat) (f : BDeme → Except Err BDeme) :
    ∀ (l : List BDeme) (k : Nat) (l' : List BDeme),
      (l.zipIdx k).mapM (fun (dj : BDeme × Nat) => if joined.contains dj.2 then pure dj.1 else f dj.1) = .ok l' →
      l'.length = l.length ∧ ∀ i d, l[i]? = some d → ∃ d', l'[i]? = some d' ∧
        (if joined.contains (k + i) then d' = d else f d = .ok d') := by
  intro l
  induction l with
  | nil =>
    intro k l' h
    cases h
    exact ⟨rfl, fun i d hd => by simp at hd⟩
  | cons x l ih =>
    intro k l' h
    rw [List.zipIdx_cons, List.mapM_cons] at h
    obtain ⟨y, hy, h⟩ := bind_ok.1 h
    obtain ⟨ys, hys, h⟩ := bind_ok.1 h
    rw [pure_ok] at h
    subst h
    obtain ⟨hl, hi⟩ := ih (k + 1) ys hys
    refine ⟨by simp [hl], ?_⟩
    intro i d hd
    cases i with
    | zero =>
      simp only [List.getElem?_cons_zero, Option.some.injEq] at hd
      subst hd
      refine ⟨y, rfl, ?_⟩
      simp only [Nat.add_zero]
      dsimp only at hy
      by_cases hk : joined.contains k = true
      · simp only [hk, if_true, pure_ok] at hy ⊢; exact hy.symm
      · simp only [hk] at hy ⊢; exact hy
    | succ i =>
      simp only [List.getElem?_cons_succ] at hd ⊢
      obtain ⟨d', hd', hc⟩ := hi i d hd
      refine ⟨d', hd', ?_⟩
      have : k + (i + 1) = k + 1 + i := by omega
      rw [this]; exact hc

theorem forLiveDemes_ok {s s' : BState} {f : BDeme → Except Err BDeme} (h : forLiveDemes s f = .ok s') :
    s' = { s with demes := s'.demes } ∧ s'.demes.length = s.demes.length ∧
      ∀ i d, s.demes[i]? = some d → ∃ d', s'.demes[i]? = some d' ∧
        (if s.joined.contains i then d' = d else f d = .ok d') := by
  unfold forLiveDemes at h
  obtain ⟨ds, hds, h⟩ := bind_ok.1 h
  rw [pure_ok] at h
  subst h
  obtain ⟨hl, hi⟩ := mapM_live_ok s.joined f s.demes 0 ds hds
  refine ⟨rfl, hl, ?_⟩
  intro i d hd
  obtain ⟨d', hd', hc⟩ := hi i d hd
  exact ⟨d', hd', by simpa using hc⟩

theorem modifyDeme_ok {s s' : BState} {pid : Nat} {f : BDeme → Except Err BDeme}
    (h : modifyDeme s pid f = .ok s') :
    ∃ d d', s.demes[pid]? = some d ∧ f d = .ok d' ∧ s' = { s with demes := s.demes.set pid d' } := by
  unfold modifyDeme at h
  split at h
  · cases h
  · rename_i d hd
    obtain ⟨d', hd', h⟩ := bind_ok.1 h
    rw [pure_ok] at h
    exact ⟨d, d', hd, hd', h.symm⟩

theorem convertPopulationId_ok {s : BState} {i : Int} {pid : Nat} (h : convertPopulationId s i = .ok pid) :
    1 ≤ i ∧ i ≤ (s.numDemes : Int) ∧ pid = (i - 1).toNat ∧ pid < s.numDemes ∧ s.joined.contains pid = false := by
  unfold convertPopulationId at h
  split at h
  · cases h
  · rename_i hc
    simp only [Bool.or_eq_true, decide_eq_true_eq, not_or, Int.not_lt] at hc
    dsimp only at h
    split at h
    · cases h
    · rename_i hj
      rw [pure_ok] at h
      subst h
      refine ⟨hc.1, by omega, rfl, by omega, by simpa using hj⟩

theorem finArg_ok {what : String} {x : Num} {q : Q} (h : finArg what x = .ok q) : x = .fin q := by
  unfold finArg at h
  split at h
  · rw [pure_ok] at h; rw [h]
  · cases h

end Demes.Proofs.FromMs

namespace Demes.Proofs.FromMs
open Demes Demes.Ms
open Demes.Proofs.RV (bind_ok pure_ok)

/-! ## frame lemmas for the matrix updates -/

theorem migrationMatrixAt_frame (s : BState) (time : Q) :
    (migrationMatrixAt s time).demes = s.demes ∧ (migrationMatrixAt s time).numDemes = s.numDemes
    ∧ (migrationMatrixAt s time).joined = s.joined ∧ (migrationMatrixAt s time).pulses = s.pulses := by
  unfold migrationMatrixAt
  split
  · split <;> exact ⟨rfl, rfl, rfl, rfl⟩
  · exact ⟨rfl, rfl, rfl, rfl⟩

theorem migAllState_frame (s : BState) (time : Q) (x : Num) :
    (migAllState s time x).demes = s.demes ∧ (migAllState s time x).numDemes = s.numDemes
    ∧ (migAllState s time x).joined = s.joined ∧ (migAllState s time x).pulses = s.pulses :=
  migrationMatrixAt_frame s time

theorem migEntryState_frame (s : BState) (time : Q) (i j : Nat) (r : Num) :
    (migEntryState s time i j r).demes = s.demes ∧ (migEntryState s time i j r).numDemes = s.numDemes
    ∧ (migEntryState s time i j r).joined = s.joined ∧ (migEntryState s time i j r).pulses = s.pulses :=
  migrationMatrixAt_frame s time

theorem migMatrixState_frame (s : BState) (time : Q) (m : MM) :
    (migMatrixState s time m).demes = s.demes ∧ (migMatrixState s time m).numDemes = s.numDemes
    ∧ (migMatrixState s time m).joined = s.joined ∧ (migMatrixState s time m).pulses = s.pulses :=
  migrationMatrixAt_frame s time

theorem joinMatrix_frame (s : BState) (time : Q) (i : Nat) :
    (joinMatrix s time i).demes = s.demes ∧ (joinMatrix s time i).numDemes = s.numDemes
    ∧ (joinMatrix s time i).joined = s.joined ∧ (joinMatrix s time i).pulses = s.pulses :=
  migrationMatrixAt_frame s time

/-! ## `build_graph` in three parts: initial state, event loop, finishing -/

/-- number of populations and initial migration matrix from `-I` -/
def initPop (args : Args) : Nat × MM :=
  match args.structure_ with
  | none => (1, [[Num.fin 0]])
  | some st =>
    let n := st.npop.toNat
    if n > 1 then
      (n, (List.range n).map (fun k => (List.range n).map (fun j =>
        numMulBool (numDivQ st.rate ((n : Q) - 1)) (j ≠ k))))
    else (n, [[Num.fin 0]])

/-- the Builder state before the first event -/
def initState (args : Args) (N0 : Q) : BState :=
  { numDemes := (initPop args).1, mmList := [(initPop args).2], mmEndTimes := [0], joined := [],
    demes := (List.range (initPop args).1).map (fun j =>
      { name := Ms.demeName j, startTime := .inf, epochs := [{ endSize := Sz.ofQ N0, endTime := 0 }] }) }

/-- the `itertools.groupby` groups: initial-state options, then the events sorted by time -/
def eventGroups (args : Args) : List (List (Event Num)) :=
  (args.initialState ++ sortBy (fun a b => Num.le a.t b.t) args.demographicEvents).splitBy sameT

/-- the state at the end of the event loop -/
def buildState (args : Args) (N0 : Q) : Except Err BState := do
  if N0 ≤ 0 then valueErr "N0 must be positive"
  let _ ← args.demographicEvents.mapM eventT
  (eventGroups args).foldlM (stepGroup N0) (initState args N0)

/-- everything after the event loop, up to (not including) `resolve` -/
def finishDoc (N0 : Q) (s : BState) : Except Err MsDoc := do
  let demes ← s.demes.mapM finaliseGrowth
  let migs ← addMigrationsFromMatrices (demes.map (·.name)) s.mmList s.mmEndTimes
  let migs := migs.map (fun m => { m with rate := numDivQ m.rate (4 * N0) })
  let doc : MsDoc := { demes := demes, migrations := migs, pulses := s.pulses, numPops := s.numDemes }
  let doc ← removeTransientDemes doc
  pure { doc with demes := sortDemesByAncestry doc.demes, pulses := doc.pulses.map List.reverse }

theorem buildDoc_eq (args : Args) (N0 : Q) : buildDoc args N0 = buildState args N0 >>= finishDoc N0 := by
  obtain ⟨st, ini, dem, unk⟩ := args
  unfold buildDoc buildState finishDoc eventGroups initState initPop
  by_cases hN : N0 ≤ 0
  · simp only [hN, if_true]; rfl
  · simp only [hN, if_false]
    cases st with
    | none => generalize List.mapM eventT dem = x; cases x <;> rfl
    | some st =>
      by_cases hn : st.npop.toNat > 1
      · simp only [hn, if_true]; generalize List.mapM eventT dem = x; cases x <;> rfl
      · simp only [hn, if_false]; generalize List.mapM eventT dem = x; cases x <;> rfl

end Demes.Proofs.FromMs
