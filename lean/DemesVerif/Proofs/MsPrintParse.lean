/-
  Proofs for C09, part 2 — the argparse layer on one printed option: `parse_single` (an option
  flag followed by the arguments its arity asks for runs exactly that option's action), the
  action of every option on well-formed argument strings, and the number-codec lemmas.
-/
import DemesVerif.Proofs.MsPrintLex
namespace Demes.Proofs.MsPrint
open Demes Demes.Ms Demes.Spec.C09


theorem mapM_classify_args (vs : List String) (h : ∀ s ∈ vs, classify s = .ok .arg) :
    vs.mapM classify = .ok (vs.map (fun _ => Cls.arg)) := by
  induction vs with
  | nil => rfl
  | cons a t ih =>
    rw [List.mapM_cons, h a (by simp), ih (fun s hs => h s (by simp [hs]))]
    rfl

theorem leadingArgs_args (vs : List String) :
    leadingArgs (((vs.zip (vs.map (fun _ => Cls.arg)))).map (·.2)) = vs.length := by
  induction vs with
  | nil => rfl
  | cons a t ih => simp only [List.map_cons, List.zip_cons_cons, leadingArgs, ih, List.length_cons]

theorem map_fst_zip_args (vs : List String) :
    ((vs.zip (vs.map (fun _ => Cls.arg)))).map (·.1) = vs := by
  induction vs with
  | nil => rfl
  | cons a t ih => simp only [List.map_cons, List.zip_cons_cons, ih]

theorem parseLoop_nil (f : Nat) (a : Args) : parseLoop f [] a = .ok a := by
  cases f <;> rfl

theorem contains_dashdash (flag : String) (vs : List String)
    (hflag : classify flag = .ok (.opt flag none))
    (hargs : ∀ s ∈ vs, classify s = .ok .arg) : (flag :: vs).contains "--" = false := by
  rw [List.contains_eq_mem]
  apply decide_eq_false
  intro hm
  rcases List.mem_cons.1 hm with h | h
  · have h2 : classify "--" = .ok (.opt "--help" none) := rfl
    rw [← h, h2] at hflag
    injection hflag with h3
    injection h3 with h4
    exact absurd h4 (by decide)
  · exact ne_dashdash_of_arg _ (hargs _ h) rfl

/-- one option with the number of arguments its arity asks for, all of them classified as
arguments: the parser performs exactly the option's action on them -/
theorem parse_single (flag : String) (vs : List String) (na : Nargs) (a' : Args)
    (hflag : classify flag = .ok (.opt flag none))
    (har : arity.lookup flag = some na)
    (hn : match na with | .fixed n => vs.length = n | .plus => vs ≠ [])
    (hargs : ∀ s ∈ vs, classify s = .ok .arg)
    (hact : takeAction {} flag vs = .ok a') :
    parseKnownArgs (flag :: vs) = .ok a' := by
  unfold parseKnownArgs
  rw [contains_dashdash flag vs hflag hargs]
  rw [List.mapM_cons, hflag, mapM_classify_args vs hargs]
  show parseLoop (vs.length + 1) ((flag, Cls.opt flag none) :: vs.zip (vs.map (fun _ => Cls.arg))) {} = _
  unfold parseLoop
  simp only [har, leadingArgs_args]
  cases na with
  | fixed n =>
    simp only at hn
    subst hn
    simp only [Nat.lt_irrefl, if_false]
    rw [List.take_of_length_le (by simp), map_fst_zip_args, hact]
    show parseLoop _ _ a' = _
    rw [List.drop_of_length_le (by simp), parseLoop_nil]
  | plus =>
    simp only at hn
    have : vs.length ≠ 0 := by cases vs <;> simp_all
    simp only [this, if_false]
    rw [List.take_of_length_le (by simp), map_fst_zip_args, hact]
    show parseLoop _ _ a' = _
    rw [List.drop_of_length_le (by simp), parseLoop_nil]


theorem vPosInt_ok (i : Int) (h : 0 < i) : vPosInt i = .ok () := by
  unfold vPosInt; rw [if_neg (by omega)]; rfl

theorem vT_zero : vT (.fin 0) = .ok () := rfl

section actions
variable (tS iS jS xS : String) (t : Num) (i j : Int) (x : Num)

theorem act_n (hi : cInt iS = .ok i) (hx : cFloat xS = .ok x) (hi0 : 0 < i) (hxv : vNonNegative x = .ok ()) :
    takeAction {} "-n" [iS, xS] = .ok { initialState := [.popSizeChange "-n" (.fin 0) i x] } := by
  simp [takeAction, arg, hi, hx, mkPopSizeChange, vT_zero, vPosInt_ok i hi0, hxv, bind, Except.bind, pure, Except.pure]

theorem act_en (ht : cFloat tS = .ok t) (hi : cInt iS = .ok i) (hx : cFloat xS = .ok x)
    (hv : vT t = .ok ()) (hi0 : 0 < i) (hxv : vNonNegative x = .ok ()) :
    takeAction {} "-en" [tS, iS, xS] = .ok { demographicEvents := [.popSizeChange "-en" t i x] } := by
  simp [takeAction, arg, ht, hi, hx, mkPopSizeChange, hv, vPosInt_ok i hi0, hxv, bind, Except.bind, pure, Except.pure]

theorem act_g (hi : cInt iS = .ok i) (hx : cFloat xS = .ok x) (hi0 : 0 < i) (hxv : vFinite x = .ok ()) :
    takeAction {} "-g" [iS, xS] = .ok { initialState := [.popGrowthRateChange "-g" (.fin 0) i x] } := by
  simp [takeAction, arg, hi, hx, mkPopGrowthRateChange, vT_zero, vPosInt_ok i hi0, hxv, bind, Except.bind, pure, Except.pure]

theorem act_eg (ht : cFloat tS = .ok t) (hi : cInt iS = .ok i) (hx : cFloat xS = .ok x)
    (hv : vT t = .ok ()) (hi0 : 0 < i) (hxv : vFinite x = .ok ()) :
    takeAction {} "-eg" [tS, iS, xS] = .ok { demographicEvents := [.popGrowthRateChange "-eg" t i x] } := by
  simp [takeAction, arg, ht, hi, hx, mkPopGrowthRateChange, hv, vPosInt_ok i hi0, hxv, bind, Except.bind, pure, Except.pure]

theorem act_G (hx : cFloat xS = .ok x) (hxv : vFinite x = .ok ()) :
    takeAction {} "-G" [xS] = .ok { initialState := [.growthRateChange "-G" (.fin 0) x] } := by
  simp [takeAction, arg, hx, mkGrowthRateChange, vT_zero, hxv, bind, Except.bind, pure, Except.pure]

theorem act_eG (ht : cFloat tS = .ok t) (hx : cFloat xS = .ok x) (hv : vT t = .ok ()) (hxv : vFinite x = .ok ()) :
    takeAction {} "-eG" [tS, xS] = .ok { demographicEvents := [.growthRateChange "-eG" t x] } := by
  simp [takeAction, arg, ht, hx, mkGrowthRateChange, hv, hxv, bind, Except.bind, pure, Except.pure]

theorem act_eN (ht : cFloat tS = .ok t) (hx : cFloat xS = .ok x) (hv : vT t = .ok ()) (hxv : vNonNegative x = .ok ()) :
    takeAction {} "-eN" [tS, xS] = .ok { demographicEvents := [.sizeChange "-eN" t x] } := by
  simp [takeAction, arg, ht, hx, mkSizeChange, hv, hxv, bind, Except.bind, pure, Except.pure]

theorem act_eM (ht : cFloat tS = .ok t) (hx : cFloat xS = .ok x) (hv : vT t = .ok ()) (hxv : vNonNegative x = .ok ()) :
    takeAction {} "-eM" [tS, xS] = .ok { demographicEvents := [.migRateChange "-eM" t x] } := by
  simp [takeAction, arg, ht, hx, mkMigRateChange, hv, hxv, bind, Except.bind, pure, Except.pure]

theorem act_m (hi : cInt iS = .ok i) (hj : cInt jS = .ok j) (hx : cFloat xS = .ok x) (hi0 : 0 < i) (hj0 : 0 < j)
    (hxv : vNonNegative x = .ok ()) :
    takeAction {} "-m" [iS, jS, xS] = .ok { initialState := [.migEntryChange "-m" (.fin 0) i j x] } := by
  simp [takeAction, arg, hi, hj, hx, mkMigEntryChange, vT_zero, vPosInt_ok i hi0, vPosInt_ok j hj0, hxv, bind, Except.bind, pure, Except.pure]

theorem act_em (ht : cFloat tS = .ok t) (hi : cInt iS = .ok i) (hj : cInt jS = .ok j) (hx : cFloat xS = .ok x)
    (hv : vT t = .ok ()) (hi0 : 0 < i) (hj0 : 0 < j) (hxv : vNonNegative x = .ok ()) :
    takeAction {} "-em" [tS, iS, jS, xS] = .ok { demographicEvents := [.migEntryChange "-em" t i j x] } := by
  simp [takeAction, arg, ht, hi, hj, hx, mkMigEntryChange, hv, vPosInt_ok i hi0, vPosInt_ok j hj0, hxv, bind, Except.bind, pure, Except.pure]

theorem act_es (ht : cFloat tS = .ok t) (hi : cInt iS = .ok i) (hx : cFloat xS = .ok x)
    (hv : vT t = .ok ()) (hi0 : 0 < i) (hxv : vUnitInterval x = .ok ()) :
    takeAction {} "-es" [tS, iS, xS] = .ok { demographicEvents := [.split "-es" t i x] } := by
  simp [takeAction, arg, ht, hi, hx, mkSplit, hv, vPosInt_ok i hi0, hxv, bind, Except.bind, pure, Except.pure]

theorem act_ej (ht : cFloat tS = .ok t) (hi : cInt iS = .ok i) (hj : cInt jS = .ok j)
    (hv : vT t = .ok ()) (hi0 : 0 < i) (hj0 : 0 < j) :
    takeAction {} "-ej" [tS, iS, jS] = .ok { demographicEvents := [.join "-ej" t i j] } := by
  simp [takeAction, arg, ht, hi, hj, mkJoin, hv, vPosInt_ok i hi0, vPosInt_ok j hj0, bind, Except.bind, pure, Except.pure]

theorem act_ema (mm : List String) (ht : cFloat tS = .ok t) (hi : cInt iS = .ok i) (hv : vT t = .ok ()) (hi0 : 0 < i) :
    takeAction {} "-ema" (tS :: iS :: mm) = .ok { demographicEvents := [.migMatrixChange "-ema" t i mm] } := by
  simp [takeAction, ht, hi, mkMigMatrixChange, hv, vPosInt_ok i hi0, bind, Except.bind, pure, Except.pure]

theorem act_ma (vs : List String) :
    takeAction {} "-ma" vs = .ok { initialState := [.migMatrixChange "-ma" (.fin 0) 1 vs] } := by
  simp [takeAction, mkMigMatrixChange, vT_zero, vPosInt_ok 1 (by decide), bind, Except.bind, pure, Except.pure]

end actions


theorem mkStructure_ok (s : Structure) (hv : validStructure s) : mkStructure s.npop s.n s.rate = .ok s := by
  obtain ⟨h1, h2, h3⟩ := hv
  simp [mkStructure, vPosInt_ok _ h1, h2, h3, bind, Except.bind, pure, Except.pure]

theorem act_I_rate (npopS rS : String) (s : Structure) (hv : validStructure s)
    (hi : cInt npopS = .ok s.npop) (hr : cFloat rS = .ok s.rate) :
    takeAction {} "-I" (npopS :: (s.n ++ [rS])) = .ok { structure_ := some s } := by
  have hm := mkStructure_ok s hv
  simp [takeAction, structureFromNargs, hi, hv.2.2, hr, hm, bind, Except.bind, pure, Except.pure]

theorem act_I_norate (npopS : String) (s : Structure) (hv : validStructure s)
    (hi : cInt npopS = .ok s.npop) (hr : s.rate = .fin 0) :
    takeAction {} "-I" (npopS :: s.n) = .ok { structure_ := some s } := by
  have hm := mkStructure_ok s hv
  rw [hr] at hm
  have hlen : ¬ ((s.n.length : Int) = s.npop + 1) := by rw [hv.2.2]; omega
  simp [takeAction, structureFromNargs, hi, hlen, hm, bind, Except.bind, pure, Except.pure]

/-! ### the number codec -/

theorem vNonNeg_lt (x : Num) (h : vNonNegative x = .ok ()) : Num.lt x Num.zero = false := by
  unfold vNonNegative at h
  cases hl : Num.lt x Num.zero
  · rfl
  · rw [hl] at h; cases h

theorem vUnit_lt (x : Num) (h : vUnitInterval x = .ok ()) : Num.lt x Num.zero = false := by
  unfold vUnitInterval at h
  split at h
  · next hh =>
    simp only [Bool.and_eq_true] at hh
    cases x <;> simp_all [Num.le, Num.lt, Num.zero]
    grind
  · cases h

theorem cFloat_exact (c : NumCodec) (x : Num) (hx : c.ok x) (h : Num.lt x Num.zero = false) :
    cFloat (c.str x) = .ok x := by
  unfold cFloat; rw [c.nonneg_parse x hx.1 h]; rfl

theorem numClose_self (x : Num) (h : Num.lt x Num.zero = false) : numClose x x := by
  refine ⟨fun _ => rfl, ?_⟩
  intro a ha ha0
  subst ha
  simp [Num.lt, Num.zero] at h
  grind

/-- the parser reads *a* number back from every printed number, related by `numClose`;
finiteness is preserved (so the `finite` validator of a growth rate passes again) -/
theorem cFloat_close (c : NumCodec) (x : Num) (hx : c.ok x) :
    ∃ y, cFloat (c.str x) = .ok y ∧ numClose x y ∧ (vFinite x = .ok () → vFinite y = .ok ()) := by
  cases hlt : Num.lt x Num.zero
  · exact ⟨x, cFloat_exact c x hx hlt, numClose_self x hlt, id⟩
  · rcases lt_zero_cases x hlt with h | ⟨q, hq, hq0⟩
    · exact absurd h hx.2
    · subst hq
      obtain ⟨b, hb, hb0, hbd⟩ := c.neg_parse q hx.1 hq0
      refine ⟨.fin b, ?_, ⟨?_, ?_⟩, fun _ => rfl⟩
      · unfold cFloat; rw [hb]; rfl
      · intro h; rw [hlt] at h; cases h
      · intro a ha _
        cases ha
        exact ⟨b, rfl, hb0, hbd⟩

/-- a time that passed `non_negative`, is not NaN and is not `> 0` is `0` -/
theorem time_zero (t : Num) (hv : vT t = .ok ()) (hnan : t ≠ .nan) (hp : numPos t = false) : t = .fin 0 := by
  have h := vNonNeg_lt t hv
  cases t with
  | fin q =>
    simp [numPos, Num.lt, Num.zero] at h hp
    congr 1
    grind
  | pinf => simp [numPos, Num.lt, Num.zero] at hp
  | ninf => simp [Num.lt, Num.zero] at h
  | nan => exact absurd rfl hnan

/-- the validators on finite numbers (for building concrete records) -/
theorem vNonNeg_fin (q : Q) (h : 0 ≤ q) : vNonNegative (.fin q) = .ok () := by
  have : ¬ q < 0 := by grind
  simp [vNonNegative, Num.lt, Num.zero, this]
  rfl

theorem vT_fin (q : Q) (h : 0 ≤ q) : vT (.fin q) = .ok () := vNonNeg_fin q h

theorem vFinite_fin (q : Q) : vFinite (.fin q) = .ok () := rfl

end Demes.Proofs.MsPrint
