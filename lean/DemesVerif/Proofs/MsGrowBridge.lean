/-
  C09 §8 — the bridge lemma with growth options: on a time-sorted command of `to_ms` (`EvG`: `-n`/`-en`,
  `-g`/`-eg`, `-m`/`-em`, `-es`, `-ej`) the string interpreter `msSem` of the rendered command gives the
  embedded observable `embedSemV (growthVal sa) N0` of the typed interpreter `msSemG`; the observable is
  well formed (`UpdWFV`).  (`Proofs/MsRTBridge.lean` with `-g` / `-eg`; that the rendered command parses
  to `prOfV` is a hypothesis here, proved in another file.)
-/
import DemesVerif.Proofs.MsGrowInv
import DemesVerif.Proofs.MsRTBridge
namespace Demes.Proofs.MsGrow
open Demes Demes.Ms Demes.Spec Demes.Spec.C07 Demes.Spec.C09
open Demes.Spec.MsSem (Cmd Parsed Pop St Row Mat matGet matSet canonRows Move DemogSem PopSem mkSeg msSem migSegs)
open Demes.Spec.C08 (cmdGroups initSt runState finishSem finalSegs msSem_eq)
open Demes.Proofs.ToMs (s0Of popsObs byQ Sorted foldr_insertEv sortBy_of_sorted flatten_groupsByTime)
open Demes.Proofs.MsRT (toksOf map_const_range getLast?_snoc popsObs_mem msSemG_run zipIdx_map)

/-! ### the two ends of the run -/

theorem initSt_embedV {gv : Growth → Q} (hz : gv Growth.zero = 0) (hdr : Option (Nat × List String))
    (evs : List (Event Growth)) (N0 : Q) :
    initSt (prOfV gv hdr evs) N0 = embedStV gv N0 (s0Of N0 ((hdr.map (·.1)).getD 1)) := by
  have hmat : ∀ n : Nat, (List.range n).map (fun i => (List.range n).map (fun j =>
      if i = j then (0 : Q) else 0 / ((n : Q) - 1) / (4 * N0))) = List.replicate n (List.replicate n 0) := by
    intro n
    have : ∀ i : Nat, (List.range n).map (fun j => if i = j then (0 : Q) else 0 / ((n : Q) - 1) / (4 * N0))
        = List.replicate n 0 := by
      intro i
      rw [← map_const_range]
      apply List.map_congr_left
      intro j _
      split
      · rfl
      · simp
    simp only [this, map_const_range]
  unfold initSt embedStV s0Of prOfV
  simp only [List.map_replicate, embedPopGV_new hz, hmat]

/-- the observable population of `embedSemV` through the embedding of interpreter populations -/
theorem embedPopV_eq (gv : Growth → Q) (N0 : Q) (p : PopSemG) :
    embedPopV gv N0 p = ⟨p.id, (embedPopGV gv N0 ⟨p.lo, p.hi, p.upd⟩).lo, (embedPopGV gv N0 ⟨p.lo, p.hi, p.upd⟩).hi,
      finalSegs (embedPopGV gv N0 ⟨p.lo, p.hi, p.upd⟩)⟩ := by
  rw [embedPopGV_lo, embedPopGV_hi]; rfl

theorem obs_pointV (gv : Growth → Q) (N0 : Q) (p : PopG) (k : Nat) :
    (if decide (ETime.fin (embedPopGV gv N0 p).lo < (embedPopGV gv N0 p).hi) then
        some ({ id := k + 1, lo := (embedPopGV gv N0 p).lo, hi := (embedPopGV gv N0 p).hi,
                segs := if decide (ETime.fin (embedPopGV gv N0 p).t0 < (embedPopGV gv N0 p).hi) then
                  (embedPopGV gv N0 p).segs ++ [mkSeg (embedPopGV gv N0 p).t0 (embedPopGV gv N0 p).hi (embedPopGV gv N0 p).size0 (embedPopGV gv N0 p).growth]
                  else (embedPopGV gv N0 p).segs } : PopSem)
      else none)
    = (if decide (ETime.fin p.lo < p.hi) then some ({ id := k + 1, lo := p.lo, hi := p.hi, upd := p.upd } : PopSemG)
        else none).map (embedPopV gv N0) := by
  have hE : embedPopV gv N0 ⟨k + 1, p.lo, p.hi, p.upd⟩
      = ⟨k + 1, (embedPopGV gv N0 p).lo, (embedPopGV gv N0 p).hi, finalSegs (embedPopGV gv N0 p)⟩ :=
    embedPopV_eq gv N0 ⟨k + 1, p.lo, p.hi, p.upd⟩
  rw [embedPopGV_lo, embedPopGV_hi]
  split
  · rw [Option.map_some, hE, embedPopGV_lo, embedPopGV_hi]
    simp only [finalSegs, embedPopGV_hi]
  · rfl

theorem finishSem_embedV {gv : Growth → Q} {N0 : Q} {T : Q} (s : StG) (hinv : RunInvV T s.pops s.mat s.snaps) :
    finishSem (embedStV gv N0 s) = embedSemV gv N0 { pops := popsObs s.pops, snaps := s.snaps, moves := s.moves } := by
  obtain ⟨pre, t, hlast⟩ := hinv.last
  have hn : ((s.snaps.getLast?.map (·.2.length)).getD 0) = s.pops.length := by
    rw [hlast, getLast?_snoc]; exact hinv.matLen
  unfold finishSem embedSemV
  simp only [hn]
  congr 1
  · -- populations
    unfold popsObs embedStV
    simp only [zipIdx_map, List.filterMap_map, List.map_filterMap]
    apply List.filterMap_congr
    intro pk _
    exact obs_pointV gv N0 pk.1 pk.2
  · simp [embedStV]

theorem s0_invV (N0 : Q) (n : Nat) : RunInvV 0 (s0Of N0 n).pops (s0Of N0 n).mat (s0Of N0 n).snaps := by
  have h := MsRT.s0_inv N0 n
  exact ⟨h.sorted, h.head, h.le, h.hi, h.chron, h.snapLe, h.last, h.matLen, h.dims⟩

/-! ### the run of the string interpreter -/

/-- the invariant at the end of a successful run of the typed interpreter on a sorted command -/
theorem run_invV {hdr : Option (Nat × List String)} {evs : List (Event Growth)} {N0 : Q} (hN : 0 < N0)
    (he : ∀ e ∈ evs, EvG e) (hs : evs.Pairwise (fun a b => evT a ≤ evT b)) {s : StG}
    (hrun : (groupsByTime evs).foldlM (stepGroupG N0) (s0Of N0 ((hdr.map (·.1)).getD 1)) = .ok s) :
    ∃ T, RunInvV T s.pops s.mat s.snaps := by
  have hflat := flatten_groupsByTime evs
  exact groups_invV hN (groupsByTime evs) _ s 0 hrun (by rw [hflat]; exact he) (by rw [hflat]; exact hs)
    (by
      rw [hflat]
      intro e hm
      have h1 := evT_nonneg (he e hm)
      have : (0 : Q) ≤ 4 * N0 := by linarith
      exact mul_nonneg this h1) (s0_invV N0 _)

/-- the run of the string interpreter on the parsed command, as the embedding of the typed run -/
theorem runState_renderV {gv : Growth → Q} (hz : gv Growth.zero = 0) (hdr : Option (Nat × List String))
    (evs : List (Event Growth)) (N0 : Q)
    (he : ∀ e ∈ evs, EvG e) (hs : evs.Pairwise (fun a b => evT a ≤ evT b)) {s : StG}
    (hrun : (groupsByTime evs).foldlM (stepGroupG N0) (s0Of N0 ((hdr.map (·.1)).getD 1)) = .ok s) :
    runState (prOfV gv hdr evs) N0 = .ok (embedStV gv N0 s) := by
  have hflat := flatten_groupsByTime evs
  unfold runState
  rw [cmdGroups_prOfV gv hdr evs he hs, initSt_embedV hz,
    groups_embedV hz (groupsByTime evs) _ s (fun grp hg e hm => he e (by
      rw [← hflat]; exact List.mem_flatten.2 ⟨grp, hg, hm⟩)) hrun]

/-! ### the bridge -/

/-- **The bridge between the two interpreters, with growth options.**  For a command (header `hdr`,
option records `evs`) of `to_ms` (`EvG`), sorted by time, whose rendering parses to `prOfV`, with a
printer of growth rates that prints the rate `0` as a string that reads as `0`: if the typed interpreter
`msSemG` gives the command a meaning `semG`, then the string interpreter `msSem` gives the rendered
command the meaning `embedSemV (growthVal sa) N0 semG`.  Moreover the observable is well formed: every
population's update list is chronological (`UpdWFV`), the matrix snapshots are chronological and no
larger than the last one. -/
theorem msSem_renderV (c : NumCodec) (sa : Growth → String) (hdr : Option (Nat × List String))
    (evs : List (Event Growth)) (N0 : Q) (semG : DemogSemG)
    (he : ∀ e ∈ evs, EvG e) (hs : evs.Pairwise (fun a b => evT a ≤ evT b))
    (hz : growthVal sa Growth.zero = 0)
    (hparse : Demes.Spec.MsSem.parse (renderG c sa (toksOf hdr evs)) = .ok (prOfV (growthVal sa) hdr evs))
    (h : msSemG ⟨hdr, evs⟩ N0 = .ok semG) :
    msSem (renderG c sa (toksOf hdr evs)) N0 = .ok (embedSemV (growthVal sa) N0 semG)
    ∧ (∀ p ∈ semG.pops, UpdWFV p)
    ∧ semG.snaps.Pairwise (fun a b => a.1 ≤ b.1)
    ∧ (∀ tm ∈ semG.snaps, tm.2.length ≤ (semG.snaps.getLast?.map (·.2.length)).getD 0
          ∧ ∀ row ∈ tm.2, row.length ≤ (semG.snaps.getLast?.map (·.2.length)).getD 0) := by
  obtain ⟨hN, s, hrun, rfl⟩ := msSemG_run hs h
  obtain ⟨T, hinv⟩ := run_invV hN he hs hrun
  obtain ⟨pre, t, hlast⟩ := hinv.last
  have hn : ((s.snaps.getLast?.map (·.2.length)).getD 0) = s.pops.length := by
    rw [hlast, getLast?_snoc]; exact hinv.matLen
  refine ⟨?_, ?_, hinv.chron, ?_⟩
  · rw [msSem_eq]
    have hNle : ¬ N0 ≤ 0 := by linarith
    simp only [hNle, if_false, hparse, bind, Except.bind, runState_renderV hz hdr evs N0 he hs hrun]
    simp only [pure, Except.pure]
    rw [finishSem_embedV s hinv]
  · intro p hp
    obtain ⟨q, hq, h1, h2, h3⟩ := popsObs_mem hp
    refine ⟨by rw [h3]; exact hinv.sorted q hq, ?_, ?_⟩
    · obtain ⟨u, r, hu, hlo, hsz⟩ := hinv.head q hq
      exact ⟨u, r, by rw [h3]; exact hu, by rw [h1]; exact hlo, hsz⟩
    · rw [h3, h2]; exact hinv.hi q hq
  · show ∀ tm ∈ s.snaps, _
    rw [hn]
    exact hinv.dims

/-! ### non-vacuity: a command with `-n`, `-g`, `-eg`, `-ej` -/

namespace BridgeExample
open Demes.Proofs.MsPrint (tableCodec)

deriving instance DecidableEq for Demes.Spec.MsSem.Cmd
deriving instance DecidableEq for Demes.Spec.MsSem.Parsed

/-- `-I 2 0 0 -n 2 0.5 -g 2 1.5 -eg 0.5 1 2.0 -ej 1.0 2 1` -/
def exHdr : Option (Nat × List String) := some (2, ["0", "0"])

def exEvs : List (Event Growth) :=
  [.popSizeChange "" (.fin 0) 2 (.fin (1/2)), .popGrowthRateChange "" (.fin 0) 2 (.sym 3 2),
   .popGrowthRateChange "" (.fin (1/2)) 1 (.sym 2 1), .join "" (.fin 1) 2 1]

/-- a printer of growth rates … -/
def exSa : Growth → String
  | .zero => "0.0"
  | .sym r _ => if r = 3 then "1.5" else "2.0"

/-- … and the rationals its strings read as -/
def exGv : Growth → Q
  | .zero => 0
  | .sym r _ => if r = 3 then 3/2 else 2

example : exGv Growth.zero = 0 := rfl

example : renderG tableCodec exSa (toksOf exHdr exEvs)
    = ["-I", "2", "0", "0", "-n", "2", "0.5", "-g", "2", "1.5", "-eg", "0.5", "1", "2.0", "-ej", "1.0", "2", "1"] := by
  decide +kernel

/-- the string interpreter on the concrete strings gives the embedding (growth rates read by `exGv`) of
what the typed interpreter gives the records -/
example : (msSemG ⟨exHdr, exEvs⟩ 1).toOption.isSome = true
    ∧ (msSem ["-I", "2", "0", "0", "-n", "2", "0.5", "-g", "2", "1.5", "-eg", "0.5", "1", "2.0", "-ej", "1.0", "2", "1"] 1).toOption
      = (msSemG ⟨exHdr, exEvs⟩ 1).toOption.map (embedSemV exGv 1) := by
  decide +kernel

theorem exEvs_evG : ∀ e ∈ exEvs, EvG e := by
  intro e he
  simp only [exEvs, List.mem_cons, List.not_mem_nil, or_false] at he
  rcases he with rfl | rfl | rfl | rfl
  · exact ⟨rfl, by decide, 0, 1/2, rfl, by decide +kernel, rfl, by decide +kernel⟩
  · exact ⟨rfl, by decide, 0, rfl, by decide +kernel⟩
  · exact ⟨rfl, by decide, 1/2, rfl, by decide +kernel⟩
  · exact ⟨rfl, by decide, by decide, 1, rfl, by decide +kernel⟩

/-- the theorem at work on the command: every hypothesis holds -/
example : ∃ semG, msSemG ⟨exHdr, exEvs⟩ 1 = .ok semG
    ∧ msSem (renderG tableCodec exSa (toksOf exHdr exEvs)) 1 = .ok (embedSemV (growthVal exSa) 1 semG)
    ∧ ∀ p ∈ semG.pops, UpdWFV p := by
  have hsome : (msSemG ⟨exHdr, exEvs⟩ 1).toOption.isSome = true := by decide +kernel
  have hp : (Demes.Spec.MsSem.parse (renderG tableCodec exSa (toksOf exHdr exEvs))).toOption
      = some (prOfV (growthVal exSa) exHdr exEvs) := by decide +kernel
  have hparse : Demes.Spec.MsSem.parse (renderG tableCodec exSa (toksOf exHdr exEvs))
      = .ok (prOfV (growthVal exSa) exHdr exEvs) := by
    cases h : Demes.Spec.MsSem.parse (renderG tableCodec exSa (toksOf exHdr exEvs)) with
    | error e => rw [h] at hp; cases hp
    | ok pr => rw [h] at hp; cases hp; rfl
  cases h : msSemG ⟨exHdr, exEvs⟩ 1 with
  | error e => rw [h] at hsome; cases hsome
  | ok semG =>
    have := msSem_renderV tableCodec exSa exHdr exEvs 1 semG exEvs_evG (by decide +kernel) (by decide +kernel) hparse h
    exact ⟨semG, rfl, this.1, this.2.1⟩

end BridgeExample

#print axioms msSem_renderV
#print axioms step_embedV
#print axioms groups_embedV
#print axioms runState_renderV
#print axioms initSt_embedV
#print axioms finishSem_embedV
#print axioms groups_invV
#print axioms embedPopV_eq

end Demes.Proofs.MsGrow
