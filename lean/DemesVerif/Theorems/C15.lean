/-
  C15 — renaming demes yields an isomorphic, fully usable graph.

  `RenameOK g r` (Spec/C15.lean): the keys of `r` are distinct names of demes of `g`, the new
  name list is pairwise distinct (so swaps, chains `A ↦ B, B ↦ C` and permutations are
  allowed), and every new name is an identifier.  `renameDemes` is a pure function, so "the
  original graph is untouched" holds by construction: `g` is the same value before and after.

  `renameDemes` is the renaming itself; `renameDemesChecked` (Model/Views.lean) is
  `Graph.rename_demes` as it is since the repair of defect F23: the renaming followed by the
  validation "every resulting name is an identifier and the resulting names are pairwise distinct"
  (`renameNamesOk`), `ValueError` otherwise.  Section 6 shows that the checked function returns a
  valid graph for EVERY renaming it accepts (no `RenameOK` needed), rejects exactly the others,
  and agrees with `renameDemes` on every `RenameOK` renaming — so sections 1–5 apply to it.
-/
import DemesVerif.Proofs.RenameChecked
namespace Demes.Theorems
open Demes Demes.Spec

/-! ### 1. every name is renamed, position by position; nothing else changes -/

/-- Every deme name, ancestor, migration end point and pulse participant of the result is
`r.apply` of the original one, at the same position (holds for every graph and renaming). -/
theorem rename_names (g : Graph) (r : Renaming) :
    (∀ (i : Nat) (d : Deme), g.demes[i]? = some d → ∃ d' : Deme, (renameDemes g r).demes[i]? = some d'
        ∧ d'.name = r.apply d.name ∧ d'.ancestors = d.ancestors.map r.apply)
    ∧ (∀ (i : Nat) (m : Migration), g.migrations[i]? = some m → ∃ m' : Migration, (renameDemes g r).migrations[i]? = some m'
        ∧ m'.source = r.apply m.source ∧ m'.dest = r.apply m.dest)
    ∧ (∀ (i : Nat) (p : Pulse), g.pulses[i]? = some p → ∃ p' : Pulse, (renameDemes g r).pulses[i]? = some p'
        ∧ p'.sources = p.sources.map r.apply ∧ p'.dest = r.apply p.dest) :=
  Proofs.rename_names g r

/-- The header, the numbers of demes / migrations / pulses, their order, and every numeric or
descriptive field are unchanged (holds for every graph and renaming). -/
theorem rename_numbers_unchanged (g : Graph) (r : Renaming) :
    (renameDemes g r).description = g.description
    ∧ (renameDemes g r).timeUnits = g.timeUnits
    ∧ (renameDemes g r).generationTime = g.generationTime
    ∧ (renameDemes g r).doi = g.doi
    ∧ (renameDemes g r).metadata = g.metadata
    ∧ (renameDemes g r).demes.length = g.demes.length
    ∧ (renameDemes g r).migrations.length = g.migrations.length
    ∧ (renameDemes g r).pulses.length = g.pulses.length
    ∧ (∀ (i : Nat) (d d' : Deme), g.demes[i]? = some d → (renameDemes g r).demes[i]? = some d' →
        d'.description = d.description ∧ d'.startTime = d.startTime
        ∧ d'.proportions = d.proportions ∧ d'.epochs = d.epochs)
    ∧ (∀ (i : Nat) (m m' : Migration), g.migrations[i]? = some m → (renameDemes g r).migrations[i]? = some m' →
        m'.startTime = m.startTime ∧ m'.endTime = m.endTime ∧ m'.rate = m.rate)
    ∧ (∀ (i : Nat) (p p' : Pulse), g.pulses[i]? = some p → (renameDemes g r).pulses[i]? = some p' →
        p'.time = p.time ∧ p'.proportions = p.proportions) :=
  Proofs.rename_numbers_unchanged g r

/-- The same two facts in one line each: the result is the image of the graph under
`renamedDeme / renamedMigration / renamedPulse` (Spec/C15.lean). -/
theorem rename_structure (g : Graph) (r : Renaming) :
    (renameDemes g r).demes = g.demes.map (renamedDeme r)
    ∧ (renameDemes g r).migrations = g.migrations.map (renamedMigration r)
    ∧ (renameDemes g r).pulses = g.pulses.map (renamedPulse r) :=
  ⟨Proofs.rename_demes_eq g r, Proofs.rename_migrations_eq g r, Proofs.rename_pulses_eq g r⟩

/-! ### 2.–3. the result is a valid graph, index included, for every legitimate renaming -/

/-- All data-model clauses V1–V13 hold of the renamed graph. -/
theorem rename_data_valid (g : Graph) (r : Renaming) (hd : validData g = true) (hr : RenameOK g r) :
    validData (renameDemes g r) = true :=
  Proofs.rename_data_valid g r hd hr

/-- V0: the name index of the result maps exactly each new name to its deme's position —
for swaps and chains too. -/
theorem rename_index (g : Graph) (r : Renaming) (hr : RenameOK g r) :
    v0 (renameDemes g r) = true :=
  Proofs.rename_index g r hr

/-- The renamed graph is valid. -/
theorem rename_valid (g : Graph) (r : Renaming) (hv : validGraph g = true) (hr : RenameOK g r) :
    validGraph (renameDemes g r) = true :=
  Proofs.rename_valid g r hv hr

/-- `graph[new name]` is the renamed deme. -/
theorem rename_lookup (g : Graph) (r : Renaming) (hr : RenameOK g r) {d : Deme} (hd : d ∈ g.demes) :
    (renameDemes g r).deme? (r.apply d.name) = some (renamedDeme r d) :=
  Proofs.rename_lookup g r hr hd

/-- `name in graph` holds exactly for the new names. -/
theorem rename_hasName (g : Graph) (r : Renaming) (hr : RenameOK g r) (x : String) :
    (renameDemes g r).hasName x = true ↔ ∃ d ∈ g.demes, x = r.apply d.name :=
  Proofs.rename_hasName g r hr x

/-- An old name that was renamed away and is not reused as a new name is no longer in the
graph: membership is false and lookup fails. -/
theorem rename_old_name_gone (g : Graph) (r : Renaming) (hr : RenameOK g r) {n : String}
    (hk : n ∈ r.map (·.1)) (hv : n ∉ r.map (·.2)) :
    (renameDemes g r).hasName n = false ∧ (renameDemes g r).deme? n = none :=
  Proofs.rename_old_name_gone g r hr hk hv

/-- A name used neither by the original graph nor as a new name is not in the result. -/
theorem rename_unused_name (g : Graph) (r : Renaming) (hr : RenameOK g r) {x : String}
    (hn : x ∉ g.demes.map (·.name)) (hv : x ∉ r.map (·.2)) :
    (renameDemes g r).hasName x = false ∧ (renameDemes g r).deme? x = none :=
  Proofs.rename_unused_name g r hr hn hv

/-! ### 5. renaming back -/

/-- The inverse map is a legitimate renaming of the renamed graph … -/
theorem rename_inverse_ok (g : Graph) (r : Renaming) (hv : validGraph g = true) (hr : RenameOK g r) :
    RenameOK (renameDemes g r) (inverseRenaming r) :=
  Proofs.rename_inverse_ok g r hv hr

/-- … and renaming back with it restores the graph exactly: demes, migrations, pulses, header,
and the name index (rebuilt in deme order, which is the original index by V0). -/
theorem rename_inverse (g : Graph) (r : Renaming) (hv : validGraph g = true) (hr : RenameOK g r) :
    renameDemes (renameDemes g r) (inverseRenaming r) = g :=
  Proofs.rename_inverse g r hv hr

/-! ### 6. the checked function (`Graph.rename_demes` with its validation, repair of F23) -/

/-- What the validation checks: the last two clauses of `RenameOK` — the resulting names are
pairwise distinct and are identifiers.  (Nothing is asked of the keys of `r`.) -/
theorem renameNamesOk_iff (g : Graph) (r : Renaming) :
    renameNamesOk g r = true ↔
      (g.demes.map (fun d => r.apply d.name)).Nodup
      ∧ (∀ d ∈ g.demes, isIdentifier (r.apply d.name) = true) :=
  Proofs.renameNamesOk_iff g r

/-- The checked function succeeds exactly when the validation passes, and then returns the
renamed graph. -/
theorem renameChecked_ok_iff (g : Graph) (r : Renaming) (g' : Graph) :
    renameDemesChecked g r = .ok g' ↔ renameNamesOk g r = true ∧ g' = renameDemes g r :=
  Proofs.renameChecked_ok_iff g r g'

/-- **Whatever the checked function returns is a valid graph — for EVERY renaming** (keys that
name no deme, chains, swaps, anything): the validity half of C15 uses of `RenameOK` only the two
clauses that the validation enforces. -/
theorem renameChecked_valid (g : Graph) (r : Renaming) (g' : Graph) (hv : validGraph g = true)
    (h : renameDemesChecked g r = .ok g') : validGraph g' = true :=
  Proofs.renameChecked_valid g r g' hv h

/-- A renaming that fails the validation is rejected with `ValueError`. -/
theorem renameChecked_rejects (g : Graph) (r : Renaming) (h : renameNamesOk g r = false) :
    renameDemesChecked g r = .error ⟨.value, "invalid or colliding deme names after renaming"⟩ :=
  Proofs.renameChecked_rejects g r h

/-- … and only those are rejected. -/
theorem renameChecked_error_iff (g : Graph) (r : Renaming) :
    (∃ e, renameDemesChecked g r = .error e) ↔ renameNamesOk g r = false :=
  Proofs.renameChecked_error_iff g r

/-- Every legitimate renaming is accepted, with the result of `renameDemes`: all the theorems of
sections 1–5 are theorems about the checked function. -/
theorem renameOK_implies_checked (g : Graph) (r : Renaming) (h : RenameOK g r) :
    renameDemesChecked g r = .ok (renameDemes g r) :=
  Proofs.renameOK_implies_checked g r h

/-- `graph[new name]` and `name in graph` in the result of the checked function, for every
renaming it accepts. -/
theorem renameChecked_lookup (g : Graph) (r : Renaming) (g' : Graph)
    (h : renameDemesChecked g r = .ok g') {d : Deme} (hd : d ∈ g.demes) :
    g'.deme? (r.apply d.name) = some (renamedDeme r d) :=
  Proofs.renameChecked_lookup g r g' h hd

theorem renameChecked_hasName (g : Graph) (r : Renaming) (g' : Graph)
    (h : renameDemesChecked g r = .ok g') (x : String) :
    g'.hasName x = true ↔ ∃ d ∈ g.demes, x = r.apply d.name :=
  Proofs.renameChecked_hasName g r g' h x

/-! ### non-vacuity and the former defect F8 (swaps and chains) -/

/-- the swap `{A ↦ B, B ↦ A}` on the two-deme example graph -/
def swapAB : Renaming := [("A", "B"), ("B", "A")]
/-- the chain `{A ↦ B, B ↦ C}` on the two-deme example graph -/
def chainABC : Renaming := [("A", "B"), ("B", "C")]
/-- the 3-cycle `{A ↦ B, B ↦ C, C ↦ A}` on the three-deme example graph -/
def cycle3 : Renaming := [("A", "B"), ("B", "C"), ("C", "A")]
/-- a partial chain `{B ↦ C, C ↦ D}` leaving `A` alone -/
def partialChain : Renaming := [("C", "D"), ("B", "C")]

example : validGraph Proofs.exampleGraph = true ∧ RenameOK Proofs.exampleGraph swapAB := by
  decide +kernel
example : validGraph Proofs.exampleGraph = true ∧ RenameOK Proofs.exampleGraph chainABC := by
  decide +kernel
example : validGraph Proofs.exampleGraph3 = true ∧ RenameOK Proofs.exampleGraph3 cycle3
    ∧ RenameOK Proofs.exampleGraph3 partialChain := by
  decide +kernel

/-- swap: valid result, index in deme order, lookups by both new names find the right demes -/
example :
    let g' := renameDemes Proofs.exampleGraph swapAB
    validGraph g' = true ∧ g'.index = [("B", 0), ("A", 1)]
    ∧ (g'.deme? "B").map (·.startTime) = some .inf
    ∧ (g'.deme? "A").map (·.ancestors) = some ["B"]
    ∧ g'.migrations.map (fun m => (m.source, m.dest)) = [("B", "A"), ("A", "B")]
    ∧ g'.pulses.map (fun p => (p.sources, p.dest)) = [(["B"], "A")] := by
  decide +kernel

/-- chain: valid result, `A` is gone, `B` now names the old `A`, `C` the old `B` -/
example :
    let g' := renameDemes Proofs.exampleGraph chainABC
    validGraph g' = true ∧ g'.index = [("B", 0), ("C", 1)]
    ∧ g'.hasName "A" = false ∧ g'.deme? "A" = none
    ∧ (g'.deme? "B").map (·.startTime) = some .inf
    ∧ (g'.deme? "C").map (·.ancestors) = some ["B"] := by
  decide +kernel

/-- 3-cycle and partial chain on three demes: valid results, correct lookups -/
example :
    let g' := renameDemes Proofs.exampleGraph3 cycle3
    validGraph g' = true ∧ g'.index = [("B", 0), ("C", 1), ("A", 2)]
    ∧ (g'.deme? "A").map (·.ancestors) = some ["B", "C"]
    ∧ g'.pulses.map (fun p => (p.sources, p.dest)) = [(["B", "C"], "A")] := by
  decide +kernel

example :
    let g' := renameDemes Proofs.exampleGraph3 partialChain
    validGraph g' = true ∧ g'.index = [("A", 0), ("C", 1), ("D", 2)]
    ∧ g'.hasName "B" = false
    ∧ (g'.deme? "D").map (·.ancestors) = some ["A", "C"]
    ∧ (g'.deme? "C").map (·.ancestors) = some ["A"] := by
  decide +kernel

/-- renaming back restores the example graphs (instances of `rename_inverse`) -/
example : (renameDemes (renameDemes Proofs.exampleGraph3 cycle3) (inverseRenaming cycle3)).demes
    = Proofs.exampleGraph3.demes := by
  decide +kernel

/-! ### non-vacuity of section 6 and the former defect F23 -/

/-- accepted: swap, chain, 3-cycle — with the results shown above -/
example : renameDemesChecked Proofs.exampleGraph swapAB = .ok (renameDemes Proofs.exampleGraph swapAB) :=
  renameOK_implies_checked _ _ (by decide +kernel)
example : (renameDemesChecked Proofs.exampleGraph chainABC).toOption.map (fun g' => (validGraph g', g'.index))
    = some (true, [("B", 0), ("C", 1)]) := by decide +kernel
example : (renameDemesChecked Proofs.exampleGraph3 cycle3).toOption.map (fun g' => (validGraph g', g'.index))
    = some (true, [("B", 0), ("C", 1), ("A", 2)]) := by decide +kernel

/-- accepted although not `RenameOK` (a key that names no deme, a repeated key — the first
occurrence wins): `renameChecked_valid` covers it, `rename_valid` does not -/
example : ¬ RenameOK Proofs.exampleGraph3 Proofs.sloppyRenaming
    ∧ validGraph Proofs.exampleGraph3 = true
    ∧ renameNamesOk Proofs.exampleGraph3 Proofs.sloppyRenaming = true
    ∧ (renameDemesChecked Proofs.exampleGraph3 Proofs.sloppyRenaming).toOption.map
        (fun g' => (validGraph g', g'.index)) = some (true, [("X", 0), ("B", 1), ("C", 2)]) := by
  decide +kernel

/-- rejected: a new name that is not an identifier (F23: `rename_demes` used to return the
invalid graph) -/
example : renameNamesOk Proofs.exampleGraph [("A", "1x")] = false
    ∧ renameNamesOk Proofs.exampleGraph [("B", "b c")] = false
    ∧ renameNamesOk Proofs.exampleGraph [("B", "")] = false
    ∧ validGraph (renameDemes Proofs.exampleGraph [("A", "1x")]) = false := by decide +kernel
example : renameDemesChecked Proofs.exampleGraph [("A", "1x")]
    = .error ⟨.value, "invalid or colliding deme names after renaming"⟩ :=
  renameChecked_rejects _ _ (by decide +kernel)

/-- rejected: a new name that collides with the name of a deme that is not renamed (F23:
`rename_demes` used to return a graph with two demes `B` and a one-entry name index) -/
example : renameNamesOk Proofs.exampleGraph [("A", "B")] = false
    ∧ (renameDemes Proofs.exampleGraph [("A", "B")]).demes.map (·.name) = ["B", "B"]
    ∧ (renameDemes Proofs.exampleGraph [("A", "B")]).index = [("B", 1)]
    ∧ validGraph (renameDemes Proofs.exampleGraph [("A", "B")]) = false := by decide +kernel
example : (renameDemesChecked Proofs.exampleGraph [("A", "B")]).toOption.isSome = false := by
  decide +kernel
/-- rejected: two demes renamed to the same new name -/
example : (renameDemesChecked Proofs.exampleGraph3 [("A", "Z"), ("C", "Z")]).toOption.isSome = false := by
  decide +kernel

end Demes.Theorems
