/-
  C08, stage `build_migrations` — the migration matrices of the event loop (`mm_list`,
  `mm_end_times`, maintained by `migration_matrix_at`) and the snapshots of the ms interpreter
  describe the same rate function.
-/
import DemesVerif.Proofs.FromMsMat
import DemesVerif.Proofs.FromMsSizeSim
namespace Demes.Proofs.FromMs
open Demes Demes.Ms Demes.Spec.MsSem Demes.Spec.C08
open Demes.Proofs.RV (bind_ok pure_ok)

/-- an `n × n` interpreter matrix -/
def DimS (n : Nat) (m : Mat) : Prop := m.length = n ∧ ∀ row ∈ m, row.length = n

/-- the Builder's matrices (`numDemes`, `mm_list`, `mm_end_times`) and the interpreter's (number
of populations, current matrix, snapshots) describe the same migration history up to time `T`:
off the diagonal, the same rate at every time and the same current rate (`M / 4N0`) -/
structure MigSimC (N0 T : Q) (nd : Nat) (ml : List MM) (ts : List Q) (np : Nat) (mat : Mat)
    (snaps : List (Q × Mat)) : Prop where
  len : ml.length = ts.length
  ne : ml ≠ []
  dimM : ∀ m ∈ ml, Dim nd m
  dimS : DimS np mat
  nn : nd = np
  headLe : ∀ e ∈ ts.head?, e ≤ T
  snapLe : ∀ x ∈ snaps, x.1 ≤ T
  last : ∃ tl, snaps.getLast? = some (tl, mat)
  cur : ∀ j k, j ≠ k → scaleRate N0 (mmGet (ml.headD []) j k) = Num.fin (matGet mat j k)
  hist : ∀ j k t, j ≠ k → (mmRateAt ml ts j k t).map (scaleRate N0) = (snapRateAt snaps j k t).map Num.fin

/-- `MigSimC` of two states -/
def MigSim (N0 T : Q) (s : BState) (σ : St) : Prop :=
  MigSimC N0 T s.numDemes s.mmList s.mmEndTimes σ.pops.length σ.mat σ.snaps

/-! ## `migration_matrix_at` and `snap` -/

theorem setAt_model {ml : List MM} {ts : List Q} {T T' : Q} (s : BState) (hml : s.mmList = ml) (hts : s.mmEndTimes = ts)
    (hlen : ml.length = ts.length) (hne : ml ≠ []) (hle : ∀ e ∈ ts.head?, e ≤ T) (hT : T ≤ T') (m' : MM) :
    let s2 := setMM0 (migrationMatrixAt s T') m'
    s2.mmList.length = s2.mmEndTimes.length ∧ s2.mmList ≠ [] ∧ (∀ m ∈ s2.mmList, m = m' ∨ m ∈ ml)
    ∧ s2.mmEndTimes.head? = some T' ∧ s2.mmList.headD [] = m'
    ∧ mm0 (migrationMatrixAt s T') = ml.headD []
    ∧ ∀ j k t, mmRateAt s2.mmList s2.mmEndTimes j k t
        = if T' ≤ t then some (mmGet m' j k) else mmRateAt ml ts j k t := by
  intro s2
  cases hm : ml with
  | nil => exact absurd hm hne
  | cons m0 ms =>
    cases ht : ts with
    | nil => rw [hm, ht] at hlen; simp at hlen
    | cons e0 es =>
      have he0 : e0 ≤ T := hle e0 (by rw [ht]; rfl)
      have hmat : migrationMatrixAt s T'
          = if e0 < T' then { s with mmList := m0 :: s.mmList, mmEndTimes := T' :: s.mmEndTimes } else s := by
        unfold migrationMatrixAt
        rw [hml, hts, hm, ht]
      by_cases hlt : e0 < T'
      · have hs2 : s2 = { s with mmList := m' :: m0 :: ms, mmEndTimes := T' :: e0 :: es } := by
          show setMM0 (migrationMatrixAt s T') m' = _
          rw [hmat, if_pos hlt]
          unfold setMM0
          simp [hml, hts, hm, ht]
        have hmm0 : mm0 (migrationMatrixAt s T') = m0 := by
          rw [hmat, if_pos hlt]; rfl
        rw [hs2]
        refine ⟨by simpa [hm, ht] using hlen, by simp, ?_, rfl, rfl, by rw [hmm0]; rfl, ?_⟩
        · intro m hmem
          simp only [List.mem_cons] at hmem ⊢
          tauto
        · intro j k t
          rfl
      · have he : e0 = T' := by grind
        have hs2 : s2 = { s with mmList := m' :: ms, mmEndTimes := e0 :: es } := by
          show setMM0 (migrationMatrixAt s T') m' = _
          rw [hmat, if_neg hlt]
          unfold setMM0
          cases s
          simp only at hml hts
          subst hml hts
          simp [hm, ht]
        have hmm0 : mm0 (migrationMatrixAt s T') = m0 := by
          rw [hmat, if_neg hlt]; unfold mm0; rw [hml, hm]; rfl
        rw [hs2]
        refine ⟨by simpa [hm, ht] using hlen, by simp, ?_, by rw [he]; rfl, rfl, by rw [hmm0]; rfl, ?_⟩
        · intro m hmem
          simp only [List.mem_cons] at hmem ⊢
          tauto
        · intro j k t
          show (if e0 ≤ t then some (mmGet m' j k) else mmRateAt ms es j k t) = _
          rw [he]
          by_cases h1 : T' ≤ t
          · rw [if_pos h1, if_pos h1]
          · rw [if_neg h1, if_neg h1]
            show _ = if T' ≤ t then _ else _
            rw [if_neg h1]

theorem snapRateAt_snoc (snaps : List (Q × Mat)) (T' : Q) (m : Mat) (i j : Nat) (t : Q) :
    snapRateAt (snaps ++ [(T', m)]) i j t = if T' ≤ t then some (matGet m i j) else snapRateAt snaps i j t := by
  unfold snapRateAt
  rw [List.reverse_append, List.reverse_singleton, List.singleton_append, List.find?_cons]
  by_cases h : T' ≤ t
  · simp [h]
  · simp [h]

theorem snapRateAt_last {snaps : List (Q × Mat)} {tl T t : Q} {mat : Mat} (hl : snaps.getLast? = some (tl, mat))
    (hle : ∀ x ∈ snaps, x.1 ≤ T) (ht : T ≤ t) (i j : Nat) : snapRateAt snaps i j t = some (matGet mat i j) := by
  unfold snapRateAt
  have hh : snaps.reverse.head? = some (tl, mat) := by rw [List.head?_reverse]; exact hl
  cases hr : snaps.reverse with
  | nil => rw [hr] at hh; cases hh
  | cons x r =>
    rw [hr] at hh
    simp only [List.head?_cons, Option.some.injEq] at hh
    subst hh
    have hmem : (tl, mat) ∈ snaps := by
      have : (tl, mat) ∈ snaps.reverse := by rw [hr]; exact List.mem_cons_self ..
      exact List.mem_reverse.mp this
    have : tl ≤ t := by
      have := hle _ hmem
      grind
    simp [List.find?_cons, this]

/-! ## setting the current matrix on both sides -/

/-- an event that sets the current matrix at time `T'` on both sides, to matrices that agree
off the diagonal -/
theorem migSimC_set {N0 T T' : Q} {nd np : Nat} {ml : List MM} {ts : List Q} {mat : Mat} {snaps : List (Q × Mat)}
    (h : MigSimC N0 T nd ml ts np mat snaps) (hT : T ≤ T') (s : BState) (hml : s.mmList = ml) (hts : s.mmEndTimes = ts)
    (m' : MM) (mS : Mat) (hd : Dim nd m') (hdS : DimS np mS)
    (hcur : ∀ j k, j ≠ k → scaleRate N0 (mmGet m' j k) = Num.fin (matGet mS j k)) :
    MigSimC N0 T' nd (setMM0 (migrationMatrixAt s T') m').mmList (setMM0 (migrationMatrixAt s T') m').mmEndTimes
      np mS (snaps ++ [(T', mS)]) := by
  obtain ⟨a1, a2, a3, a4, a5, _, a7⟩ := setAt_model s hml hts h.len h.ne h.headLe hT m'
  refine ⟨a1, a2, ?_, hdS, h.nn, ?_, ?_, ⟨T', by simp⟩, ?_, ?_⟩
  · intro m hm
    rcases a3 m hm with rfl | hm
    · exact hd
    · exact h.dimM m hm
  · intro e he
    rw [a4] at he
    cases he
    exact Rat.le_refl
  · intro x hx
    rcases List.mem_append.mp hx with hx | hx
    · have := h.snapLe x hx; grind
    · simp only [List.mem_singleton] at hx; rw [hx]
  · intro j k hjk
    rw [a5]
    exact hcur j k hjk
  · intro j k t hjk
    rw [a7 j k t, snapRateAt_snoc]
    by_cases ht : T' ≤ t
    · simp only [ht, if_true, Option.map_some, hcur j k hjk]
    · simp only [ht, if_false]
      exact h.hist j k t hjk

/-! ## interpreter matrices -/

theorem matGet_matSet {n : Nat} {m : Mat} (h : DimS n m) (a b : Nat) (v : Q) (j k : Nat) :
    matGet (matSet m a b v) j k = if j = a ∧ k = b ∧ a < n ∧ b < n then v else matGet m j k := by
  unfold matGet matSet
  simp only [List.getD_eq_getElem?_getD, List.getElem?_modify]
  by_cases hj : a = j
  · subst hj
    by_cases ha : a < n
    · have ha' : a < m.length := by rw [h.1]; exact ha
      have hrow : m[a].length = n := h.2 _ (List.getElem_mem _)
      simp only [List.getElem?_eq_getElem ha', if_true, Option.map_some, Option.getD_some, List.getElem?_set]
      by_cases hk : b = k
      · subst hk
        by_cases hb : b < n
        · simp [hb, ha, hrow]
        · simp [hb, hrow]
      · have : ¬ k = b := fun e => hk e.symm
        simp [hk, this]
    · have : m[a]? = none := List.getElem?_eq_none_iff.mpr (by rw [h.1]; omega)
      simp [this, ha]
  · have : ¬ j = a := fun e => hj e.symm
    simp [hj, this]

theorem dimS_matSet {n : Nat} {m : Mat} (h : DimS n m) (a b : Nat) (v : Q) : DimS n (matSet m a b v) := by
  unfold matSet
  refine ⟨by simp [h.1], ?_⟩
  intro row hrow
  rw [List.mem_iff_getElem?] at hrow
  obtain ⟨i, hi⟩ := hrow
  rw [List.getElem?_modify] at hi
  by_cases ha : a = i
  · subst ha
    cases hm : m[a]? with
    | none => rw [hm] at hi; simp at hi
    | some r =>
      rw [hm] at hi
      simp at hi
      subst hi
      simp [h.2 r (List.mem_of_getElem? hm)]
  · simp [ha] at hi
    exact h.2 row (List.mem_of_getElem? hi)

/-- the `n × n` matrix with entries `f i j` -/
def tab (n : Nat) (f : Nat → Nat → Q) : Mat := (List.range n).map (fun i => (List.range n).map (fun j => f i j))

theorem dimS_tab (n : Nat) (f : Nat → Nat → Q) : DimS n (tab n f) := by
  unfold tab
  refine ⟨by simp, ?_⟩
  intro row hrow
  obtain ⟨i, _, rfl⟩ := List.mem_map.mp hrow
  simp

theorem matGet_tab (n : Nat) (f : Nat → Nat → Q) (i j : Nat) :
    matGet (tab n f) i j = if i < n ∧ j < n then f i j else 0 := by
  unfold matGet tab
  simp only [List.getD_eq_getElem?_getD, List.getElem?_map]
  by_cases hi : i < n
  · simp only [List.getElem?_range hi, Option.map_some, Option.getD_some, List.getElem?_map]
    by_cases hj : j < n
    · simp [List.getElem?_range hj, hi, hj]
    · have : (List.range n)[j]? = none := List.getElem?_eq_none_iff.mpr (by simp; omega)
      simp [this, hj]
  · have : (List.range n)[i]? = none := List.getElem?_eq_none_iff.mpr (by simp; omega)
    simp [this, hi]

theorem matGet_out {n : Nat} {m : Mat} (h : DimS n m) (i j : Nat) (ho : ¬ (i < n ∧ j < n)) : matGet m i j = 0 := by
  unfold matGet
  simp only [List.getD_eq_getElem?_getD]
  by_cases hi : i < n
  · have hi' : i < m.length := by rw [h.1]; exact hi
    have hrow : m[i].length = n := h.2 _ (List.getElem_mem _)
    have hj : ¬ j < n := fun hj => ho ⟨hi, hj⟩
    simp only [List.getElem?_eq_getElem hi', Option.getD_some]
    rw [List.getElem?_eq_none_iff.mpr (by omega)]
    rfl
  · have : m[i]? = none := List.getElem?_eq_none_iff.mpr (by rw [h.1]; omega)
    rw [this]
    rfl

theorem mmGet_out {n : Nat} {m : MM} (h : Dim n m) (i j : Nat) (ho : ¬ (i < n ∧ j < n)) : mmGet m i j = .fin 0 := by
  unfold mmGet
  simp only [List.getD_eq_getElem?_getD]
  by_cases hi : i < n
  · have hi' : i < m.length := by rw [h.1]; exact hi
    have hrow : m[i].length = n := h.2 _ (List.getElem_mem _)
    have hj : ¬ j < n := fun hj => ho ⟨hi, hj⟩
    simp only [List.getElem?_eq_getElem hi', Option.getD_some]
    rw [List.getElem?_eq_none_iff.mpr (by omega)]
    rfl
  · have : m[i]? = none := List.getElem?_eq_none_iff.mpr (by rw [h.1]; omega)
    rw [this]
    rfl

theorem scaleRate_fin (N0 x : Q) : scaleRate N0 (.fin x) = .fin (x / (4 * N0)) := rfl

theorem scaleRate_zero (N0 : Q) : scaleRate N0 (.fin 0) = .fin 0 := by
  rw [scaleRate_fin]
  congr 1
  simp

/-! ## the events -/

theorem MigSimC.mono {N0 T T' : Q} {nd np : Nat} {ml : List MM} {ts : List Q} {mat : Mat} {snaps : List (Q × Mat)}
    (h : MigSimC N0 T nd ml ts np mat snaps) (hT : T ≤ T') : MigSimC N0 T' nd ml ts np mat snaps :=
  ⟨h.len, h.ne, h.dimM, h.dimS, h.nn, fun e he => by have := h.headLe e he; grind,
    fun x hx => by have := h.snapLe x hx; grind, h.last, h.cur, h.hist⟩

/-- liveness as the interpreter tests it (`ok`) and as the Builder tests it (`joined`) -/
theorem ok_iff_not_joined {T : Q} {s : BState} {σ : St} (h : SizeSim T s σ) (j : Nat) :
    (σ.pops[j]?.map alive).getD false = (decide (j < s.numDemes) && !s.joined.contains j) := by
  by_cases hj : j < s.numDemes
  · have hj2 : j < σ.pops.length := by rw [← h.num]; exact hj
    have hj1 : j < s.demes.length := by rw [h.len]; exact hj2
    obtain ⟨_, _, _, r4⟩ := h.rel j _ _ (List.getElem?_eq_getElem hj1) (List.getElem?_eq_getElem hj2)
    rw [List.getElem?_eq_getElem hj2, r4]
    simp [hj]
  · have : σ.pops[j]? = none := List.getElem?_eq_none_iff.mpr (by rw [← h.num]; omega)
    simp [this, hj]

/-- `-m`, `-em` -/
theorem migEntry_cur {N0 : Q} {n : Nat} {m0 : MM} {mat : Mat} (hd : Dim n m0) (hdS : DimS n mat)
    (hcur : ∀ j k, j ≠ k → scaleRate N0 (mmGet m0 j k) = Num.fin (matGet mat j k)) (a b : Nat) (x : Q) :
    ∀ j k, j ≠ k → scaleRate N0 (mmGet (mmSet m0 a b (.fin x)) j k)
      = Num.fin (matGet (matSet mat a b (x / (4 * N0))) j k) := by
  intro j k hjk
  rw [mmGet_mmSet_dim hd, matGet_matSet hdS]
  by_cases hc : j = a ∧ k = b ∧ a < n ∧ b < n
  · rw [if_pos hc, if_pos hc]; rfl
  · rw [if_neg hc, if_neg hc]; exact hcur j k hjk

/-- `-ej` -/
theorem join_cur {N0 : Q} {n np : Nat} {m0 : MM} {mat : Mat} (hd : Dim n m0) (hdS : DimS np mat) (hnn : n = np)
    (hcur : ∀ j k, j ≠ k → scaleRate N0 (mmGet m0 j k) = Num.fin (matGet mat j k)) (p : Nat) (hp : p < n) :
    ∀ j k, j ≠ k → scaleRate N0 (mmGet (zeroRowCol n p m0) j k)
      = Num.fin (matGet (tab np (fun a b => if a = p ∨ b = p then 0 else matGet mat a b)) j k) := by
  subst hnn
  intro j k hjk
  rw [(zeroRowCol_get hd p j k).2, matGet_tab]
  by_cases hin : j < n ∧ k < n
  · rw [if_pos hin]
    by_cases hc : j = p ∨ k = p
    · have : InRowCol n p j k := by
        refine ⟨hp, hjk, ?_⟩
        rcases hc with hc | hc
        · exact Or.inr ⟨hc, hin.2⟩
        · exact Or.inl ⟨hc, hin.1⟩
      rw [if_pos this, if_pos hc, scaleRate_zero]
    · have : ¬ InRowCol n p j k := by
        rintro ⟨_, _, c | c⟩
        · exact hc (Or.inr c.1)
        · exact hc (Or.inl c.1)
      rw [if_neg this, if_neg hc]
      exact hcur j k hjk
  · rw [if_neg hin]
    have : ¬ InRowCol n p j k := by
      rintro ⟨_, _, c | c⟩
      · exact hin ⟨c.2, by omega⟩
      · exact hin ⟨by omega, c.2⟩
    rw [if_neg this, mmGet_out hd j k hin, scaleRate_zero]

/-- `-eM` -/
theorem migAll_cur {N0 T : Q} {s : BState} {σ : St} (hsz : SizeSim T s σ) {m0 : MM}
    (hd : Dim s.numDemes m0) (hdS : DimS σ.pops.length σ.mat)
    (hcur : ∀ j k, j ≠ k → scaleRate N0 (mmGet m0 j k) = Num.fin (matGet σ.mat j k)) (x : Q) :
    ∀ j k, j ≠ k →
      scaleRate N0 (mmGet (setAllLive s.numDemes s.joined (numDivQ (.fin x) ((s.numDemes : Q) - 1)) m0) j k)
      = Num.fin (matGet (tab σ.pops.length (fun i j =>
          if i ≠ j && (σ.pops[i]?.map alive).getD false && (σ.pops[j]?.map alive).getD false
          then x / ((σ.pops.length : Q) - 1) / (4 * N0) else matGet σ.mat i j)) j k) := by
  intro j k hjk
  rw [(setAllLive_get hd s.joined _ j k).2, matGet_tab, ok_iff_not_joined hsz j, ok_iff_not_joined hsz k, ← hsz.num]
  by_cases hin : j < s.numDemes ∧ k < s.numDemes
  · rw [if_pos hin]
    by_cases hc : s.joined.contains j = false ∧ s.joined.contains k = false
    · rw [if_pos ⟨hjk, hin.1, hin.2, hc.1, hc.2⟩]
      have : (decide (j ≠ k) && (decide (j < s.numDemes) && !s.joined.contains j)
          && (decide (k < s.numDemes) && !s.joined.contains k)) = true := by
        rw [hc.1, hc.2]; simp [hjk, hin.1, hin.2]
      rw [if_pos this]
      rfl
    · rw [if_neg (fun c => hc ⟨c.2.2.2.1, c.2.2.2.2⟩)]
      have : ¬ (decide (j ≠ k) && (decide (j < s.numDemes) && !s.joined.contains j)
          && (decide (k < s.numDemes) && !s.joined.contains k)) = true := by
        intro c
        simp only [Bool.and_eq_true, decide_eq_true_eq, Bool.not_eq_true'] at c
        exact hc ⟨c.1.2.2, c.2.2⟩
      rw [if_neg this]
      exact hcur j k hjk
  · rw [if_neg hin, if_neg (fun c => hin ⟨c.2.1, c.2.2.1⟩), mmGet_out hd j k hin, scaleRate_zero]

/-! ## `-es`: a zero row and column are appended -/

theorem getD_append_zero {α} (l : List α) (d : α) (k : Nat) : (l ++ [d])[k]?.getD d = l[k]?.getD d := by
  by_cases hk : k < l.length
  · rw [List.getElem?_append_left hk]
  · rw [List.getElem?_append_right (by omega)]
    have : l[k]? = none := List.getElem?_eq_none_iff.mpr (by omega)
    rw [this]
    cases h : k - l.length with
    | zero => rfl
    | succ m => rfl

theorem ext_get {α} (d : α) (n : Nat) (m : List (List α)) (j k : Nat) :
    (((m.map (fun row => row ++ [d]) ++ [List.replicate (n + 1) d])[j]?).getD [])[k]?.getD d
      = ((m[j]?).getD [])[k]?.getD d := by
  by_cases hj : j < m.length
  · rw [List.getElem?_append_left (by simpa using hj), List.getElem?_map, List.getElem?_eq_getElem hj]
    simp only [Option.map_some, Option.getD_some]
    exact getD_append_zero _ _ _
  · rw [List.getElem?_append_right (by simp; omega)]
    have : m[j]? = none := List.getElem?_eq_none_iff.mpr (by omega)
    rw [this]
    simp only [List.length_map, Option.getD_none]
    cases hz : j - m.length with
    | zero =>
      simp only [List.getElem?_cons_zero, Option.getD_some]
      by_cases hk : k < n + 1
      · simp [List.getElem?_replicate, hk]
      · simp [List.getElem?_replicate, hk]
    | succ q => simp

theorem ext_mm {n : Nat} {m : MM} (h : Dim n m) :
    Dim (n + 1) (m.map (fun row => row ++ [Num.fin 0]) ++ [List.replicate (n + 1) (Num.fin 0)])
    ∧ ∀ j k, mmGet (m.map (fun row => row ++ [Num.fin 0]) ++ [List.replicate (n + 1) (Num.fin 0)]) j k = mmGet m j k := by
  constructor
  · refine ⟨by simp [h.1], ?_⟩
    intro row hrow
    rcases List.mem_append.mp hrow with hrow | hrow
    · obtain ⟨r, hr, rfl⟩ := List.mem_map.mp hrow
      simp [h.2 r hr]
    · simp only [List.mem_singleton] at hrow
      rw [hrow]; simp
  · intro j k
    unfold mmGet
    simp only [List.getD_eq_getElem?_getD]
    exact ext_get _ _ _ _ _

theorem ext_mat {n : Nat} {m : Mat} (h : DimS n m) :
    DimS (n + 1) (m.map (fun r => r ++ [0]) ++ [List.replicate (n + 1) 0])
    ∧ ∀ j k, matGet (m.map (fun r => r ++ [0]) ++ [List.replicate (n + 1) 0]) j k = matGet m j k := by
  constructor
  · refine ⟨by simp [h.1], ?_⟩
    intro row hrow
    rcases List.mem_append.mp hrow with hrow | hrow
    · obtain ⟨r, hr, rfl⟩ := List.mem_map.mp hrow
      simp [h.2 r hr]
    · simp only [List.mem_singleton] at hrow
      rw [hrow]; simp
  · intro j k
    unfold matGet
    simp only [List.getD_eq_getElem?_getD]
    exact ext_get _ _ _ _ _

theorem mmRateAt_map {n : Nat} : ∀ (ml : List MM) (ts : List Q) (j k : Nat) (t : Q), (∀ m ∈ ml, Dim n m) →
    mmRateAt (ml.map (fun m => m.map (fun row => row ++ [Num.fin 0]) ++ [List.replicate (n + 1) (Num.fin 0)])) ts j k t
      = mmRateAt ml ts j k t := by
  intro ml
  induction ml with
  | nil => intro ts j k t _; rfl
  | cons m ms ih =>
    intro ts j k t hd
    cases ts with
    | nil => rfl
    | cons e es =>
      simp only [List.map_cons, mmRateAt]
      rw [(ext_mm (hd m (List.mem_cons_self ..))).2 j k, ih es j k t (fun m' hm' => hd m' (List.mem_cons_of_mem _ hm'))]

/-- `-es` keeps the two histories equal -/
theorem migSimC_split {N0 T T' : Q} {nd np : Nat} {ml : List MM} {ts : List Q} {mat : Mat} {snaps : List (Q × Mat)}
    (h : MigSimC N0 T nd ml ts np mat snaps) (hT : T ≤ T') :
    MigSimC N0 T' (nd + 1)
      (ml.map (fun m => m.map (fun row => row ++ [Num.fin 0]) ++ [List.replicate (nd + 1) (Num.fin 0)])) ts
      (np + 1) (mat.map (fun r => r ++ [0]) ++ [List.replicate (np + 1) 0])
      (snaps ++ [(T', mat.map (fun r => r ++ [0]) ++ [List.replicate (np + 1) 0])]) := by
  obtain ⟨tl, hl⟩ := h.last
  refine ⟨by simp [h.len], by simpa using h.ne, ?_, (ext_mat h.dimS).1, by rw [h.nn], ?_, ?_, ⟨T', by simp⟩, ?_, ?_⟩
  · intro m hm
    obtain ⟨m0, hm0, rfl⟩ := List.mem_map.mp hm
    exact (ext_mm (h.dimM m0 hm0)).1
  · intro e he
    have := h.headLe e he
    grind
  · intro x hx
    rcases List.mem_append.mp hx with hx | hx
    · have := h.snapLe x hx; grind
    · simp only [List.mem_singleton] at hx; rw [hx]
  · intro j k hjk
    cases hml : ml with
    | nil => exact absurd hml h.ne
    | cons m0 ms =>
      simp only [List.map_cons, List.headD_cons]
      rw [(ext_mm (h.dimM m0 (by rw [hml]; exact List.mem_cons_self ..))).2 j k, (ext_mat h.dimS).2 j k]
      have := h.cur j k hjk
      rw [hml] at this
      exact this
  · intro j k t hjk
    rw [mmRateAt_map ml ts j k t h.dimM, snapRateAt_snoc, (ext_mat h.dimS).2 j k]
    by_cases ht : T' ≤ t
    · rw [if_pos ht, h.hist j k t hjk, snapRateAt_last hl h.snapLe (by grind)]
    · rw [if_neg ht]
      exact h.hist j k t hjk

/-! ## `-ma`, `-ema` -/

/-- the `n × n` Builder matrix with entries `f j k` -/
def tabM (n : Nat) (f : Nat → Nat → Num) : MM := (List.range n).map (fun j => (List.range n).map (fun k => f j k))

theorem dim_tabM (n : Nat) (f : Nat → Nat → Num) : Dim n (tabM n f) := by
  unfold tabM
  refine ⟨by simp, ?_⟩
  intro row hrow
  obtain ⟨i, _, rfl⟩ := List.mem_map.mp hrow
  simp

theorem mmGet_tabM (n : Nat) (f : Nat → Nat → Num) (i j : Nat) :
    mmGet (tabM n f) i j = if i < n ∧ j < n then f i j else .fin 0 := by
  unfold mmGet tabM
  simp only [List.getD_eq_getElem?_getD, List.getElem?_map]
  by_cases hi : i < n
  · simp only [List.getElem?_range hi, Option.map_some, Option.getD_some, List.getElem?_map]
    by_cases hj : j < n
    · simp [List.getElem?_range hj, hi, hj]
    · have : (List.range n)[j]? = none := List.getElem?_eq_none_iff.mpr (by simp; omega)
      simp [this, hj]
  · have : (List.range n)[i]? = none := List.getElem?_eq_none_iff.mpr (by simp; omega)
    simp [this, hi]

theorem matrixOf_ok {npop : Int} {mm : List String} {m : MM} (h : matrixOf npop mm = .ok m) :
    mm.length = npop.toNat * npop.toNat ∧
    m = tabM npop.toNat (fun j k => if j = k then Num.fin 0 else (pyFloat (mm.getD (j * npop.toNat + k) "")).getD .nan) := by
  unfold matrixOf at h
  dsimp only at h
  split at h
  · exact (RV.valueErr_ok.1 h).elim
  · rename_i hl
    rw [pure_ok] at h
    exact ⟨by simpa using hl, h.symm⟩

theorem smapM_pointwise {α β} {f : α → Except String β} : ∀ {l : List α} {l' : List β}, l.mapM f = .ok l' →
    l'.length = l.length ∧ ∀ (i : Nat) (d : α), l[i]? = some d → ∃ d' : β, l'[i]? = some d' ∧ f d = .ok d' := by
  intro l
  induction l with
  | nil => intro l' h; cases h; exact ⟨rfl, fun i d hd => by simp at hd⟩
  | cons x l ih =>
    intro l' h
    rw [List.mapM_cons] at h
    obtain ⟨y, hy, h⟩ := sbind_ok.1 h
    obtain ⟨ys, hys, h⟩ := sbind_ok.1 h
    rw [spure_ok] at h
    subst h
    obtain ⟨hl, hi⟩ := ih hys
    refine ⟨by simp [hl], ?_⟩
    intro i d hd
    cases i with
    | zero => simp only [List.getElem?_cons_zero, Option.some.injEq] at hd; subst hd; exact ⟨y, rfl, hy⟩
    | succ i => simp only [List.getElem?_cons_succ] at hd ⊢; exact hi i d hd

/-- a matrix built by two nested `mapM` over `range n` -/
theorem mapM_range_tab {n : Nat} {g : Nat → Nat → Except String Q} {rows : Mat}
    (h : (List.range n).mapM (fun i => (List.range n).mapM (fun j => g i j)) = .ok rows) :
    DimS n rows ∧ ∀ i j, i < n → j < n → g i j = .ok (matGet rows i j) := by
  obtain ⟨hl, hi⟩ := smapM_pointwise h
  have hrows : ∀ i, i < n → ∃ row, rows[i]? = some row ∧ (List.range n).mapM (fun j => g i j) = .ok row := by
    intro i hin
    exact hi i i (List.getElem?_range hin)
  constructor
  · refine ⟨by simpa using hl, ?_⟩
    intro row hrow
    obtain ⟨i, hlt, rfl⟩ := List.mem_iff_getElem.mp hrow
    have hin : i < n := by simpa [hl] using hlt
    obtain ⟨row', hr', hm⟩ := hrows i hin
    rw [List.getElem?_eq_getElem hlt] at hr'
    injection hr' with hr'
    rw [hr']
    simpa using (smapM_pointwise hm).1
  · intro i j hin hjn
    obtain ⟨row, hr, hm⟩ := hrows i hin
    obtain ⟨_, hj⟩ := smapM_pointwise hm
    obtain ⟨v, hv, hg⟩ := hj j j (List.getElem?_range hjn)
    rw [hg]
    unfold matGet
    simp only [List.getD_eq_getElem?_getD, hr, Option.getD_some, hv]

theorem nonneg_ok {s : String} {v : Q} (h : nonneg s = .ok v) : pyFloat s = some (.fin v) := by
  unfold nonneg at h
  obtain ⟨q, hq, h⟩ := sbind_ok.1 h
  split at h
  · exact (sthrow_ok.1 h).elim
  · rw [spure_ok] at h
    subst h
    unfold num at hq
    split at hq
    · rename_i q' hp
      rw [spure_ok] at hq
      subst hq
      exact hp
    · exact (sthrow_ok.1 hq).elim

/-- `-ma`, `-ema` -/
theorem migMatrix_cur {N0 T : Q} {s : BState} {σ : St} (hsz : SizeSim T s σ) {mm : List String} {rows : Mat}
    (hrows : (List.range σ.pops.length).mapM (fun i => (List.range σ.pops.length).mapM (fun j =>
      if i = j || !((σ.pops[i]?.map alive).getD false && (σ.pops[j]?.map alive).getD false) then pure (0 : Q)
      else do
        let v ← nonneg (mm.getD (i * σ.pops.length + j) "")
        pure (v / (4 * N0)))) = .ok rows) :
    DimS σ.pops.length rows ∧ ∀ j k, j ≠ k →
      scaleRate N0 (mmGet (zeroJoined s (tabM s.numDemes (fun j k =>
        if j = k then Num.fin 0 else (pyFloat (mm.getD (j * s.numDemes + k) "")).getD .nan))) j k)
      = Num.fin (matGet rows j k) := by
  obtain ⟨hd, hg⟩ := mapM_range_tab hrows
  refine ⟨hd, ?_⟩
  intro j k hjk
  rw [(zeroJoined_get (dim_tabM _ _) j k).2]
  by_cases hin : j < s.numDemes ∧ k < s.numDemes
  · have hin' : j < σ.pops.length ∧ k < σ.pops.length := by rw [← hsz.num]; exact hin
    have hgjk := hg j k hin'.1 hin'.2
    rw [ok_iff_not_joined hsz j, ok_iff_not_joined hsz k] at hgjk
    by_cases hc : s.joined.contains j = true ∨ s.joined.contains k = true
    · rw [if_pos ⟨hjk, hin.1, hin.2, hc⟩, scaleRate_zero]
      have : (decide (j = k) || !((decide (j < s.numDemes) && !s.joined.contains j)
          && (decide (k < s.numDemes) && !s.joined.contains k))) = true := by
        rcases hc with hc | hc <;> rw [hc] <;> simp
      rw [if_pos this, spure_ok] at hgjk
      rw [← hgjk]
    · rw [if_neg (fun c => hc c.2.2.2)]
      have hcj : s.joined.contains j = false := by
        cases h : s.joined.contains j with
        | true => exact absurd (Or.inl h) hc
        | false => rfl
      have hck : s.joined.contains k = false := by
        cases h : s.joined.contains k with
        | true => exact absurd (Or.inr h) hc
        | false => rfl
      have : ¬ (decide (j = k) || !((decide (j < s.numDemes) && !s.joined.contains j)
          && (decide (k < s.numDemes) && !s.joined.contains k))) = true := by
        rw [hcj, hck]; simp [hjk, hin.1, hin.2]
      rw [if_neg this] at hgjk
      obtain ⟨v, hv, hgjk⟩ := sbind_ok.1 hgjk
      rw [spure_ok] at hgjk
      rw [mmGet_tabM, if_pos hin, if_neg hjk, ← hsz.num] at *
      rw [nonneg_ok hv, ← hgjk]
      rfl
  · rw [if_neg (fun c => hin ⟨c.2.1, c.2.2.1⟩), mmGet_tabM, if_neg hin, scaleRate_zero,
      matGet_out hd j k (by rw [← hsz.num]; exact hin)]

/-! ## one event -/

theorem joinMatrix_eq (s : BState) (time : Q) (popI : Nat) :
    joinMatrix s time popI = setMM0 (migrationMatrixAt s time)
      (zeroRowCol (migrationMatrixAt s time).numDemes popI (mm0 (migrationMatrixAt s time))) := rfl

theorem migAllState_eq (s : BState) (time : Q) (x : Num) :
    migAllState s time x = setMM0 (migrationMatrixAt s time)
      (setAllLive (mm0 (migrationMatrixAt s time)).length (migrationMatrixAt s time).joined
        (numDivQ x (((migrationMatrixAt s time).numDemes : Q) - 1)) (mm0 (migrationMatrixAt s time))) := rfl

theorem tab_or (n p : Nat) (f : Nat → Nat → Q) :
    (List.range n).map (fun a => (List.range n).map (fun b => if a = p || b = p then 0 else f a b))
      = tab n (fun a b => if a = p ∨ b = p then 0 else f a b) := by
  unfold tab
  apply List.map_congr_left
  intro a _
  apply List.map_congr_left
  intro b _
  show (if (decide (a = p) || decide (b = p)) = true then 0 else f a b) = (if a = p ∨ b = p then 0 else f a b)
  by_cases h : a = p ∨ b = p
  · rw [if_pos h, if_pos (by simpa using h)]
  · rw [if_neg h, if_neg (by simpa using h)]

/-- **one event of the loop, migration matrices**: corresponding states stay corresponding -/
theorem stepEvent_migSim {N0 T T' : Q} {s s' : BState} {g g' : GState} {σ σ' : St}
    {L L' : List (Nat × Row)} {ev : Event Num} {c : Cmd}
    (hsz : SizeSim T s σ) (h : MigSim N0 T s σ) (hT : T ≤ T') (hc : cmdOf ev = some c) (hT' : T' = 4 * N0 * c.t)
    (hm : stepEvent N0 T' (s, g) ev = .ok (s', g')) (hs : Spec.MsSem.step N0 (σ, L) c = .ok (σ', L')) :
    MigSim N0 T' s' σ' := by
  unfold MigSim at h ⊢
  have hmm0 : mm0 (migrationMatrixAt s T') = s.mmList.headD [] :=
    (setAt_model s rfl rfl h.len h.ne h.headLe hT []).2.2.2.2.2.1
  have hhead : Dim s.numDemes (s.mmList.headD []) := by
    cases hml : s.mmList with
    | nil => exact absurd hml h.ne
    | cons m0 ms => exact h.dimM m0 (by rw [hml]; exact List.mem_cons_self ..)
  have hfr := migrationMatrixAt_frame s T'
  cases ev with
  | growthRateChange o t alpha =>
    rw [stepEvent_growthAll] at hm
    obtain ⟨a', _, hm⟩ := bind_ok.1 hm
    obtain ⟨s1, h1, hm⟩ := bind_ok.1 hm
    cases hm
    obtain ⟨tq, a, rfl, rfl, rfl⟩ := cmdOf_growthAll hc
    rw [step_setGrowthAll, spure_ok] at hs
    cases hs
    rw [(forLiveDemes_ok h1).1]
    simpa using h.mono hT
  | popGrowthRateChange o t i alpha =>
    rw [stepEvent_growth] at hm
    obtain ⟨pid, _, hm⟩ := bind_ok.1 hm
    obtain ⟨a', _, hm⟩ := bind_ok.1 hm
    obtain ⟨s1, h1, hm⟩ := bind_ok.1 hm
    cases hm
    obtain ⟨tq, a, rfl, rfl, rfl⟩ := cmdOf_growth hc
    rw [step_setGrowth] at hs
    obtain ⟨p, _, hs⟩ := sbind_ok.1 hs
    rw [spure_ok] at hs
    cases hs
    obtain ⟨_, _, _, _, rfl⟩ := modifyDeme_ok h1
    simpa [St.setPop] using h.mono hT
  | sizeChange o t x =>
    rw [stepEvent_sizeAll] at hm
    obtain ⟨a', _, hm⟩ := bind_ok.1 hm
    obtain ⟨s1, h1, hm⟩ := bind_ok.1 hm
    cases hm
    obtain ⟨tq, a, rfl, rfl, rfl⟩ := cmdOf_sizeAll hc
    rw [step_setSizeAll, spure_ok] at hs
    cases hs
    rw [(forLiveDemes_ok h1).1]
    simpa using h.mono hT
  | popSizeChange o t i x =>
    rw [stepEvent_size] at hm
    obtain ⟨pid, _, hm⟩ := bind_ok.1 hm
    obtain ⟨a', _, hm⟩ := bind_ok.1 hm
    obtain ⟨s1, h1, hm⟩ := bind_ok.1 hm
    cases hm
    obtain ⟨tq, a, rfl, rfl, rfl⟩ := cmdOf_size hc
    rw [step_setSize] at hs
    obtain ⟨p, _, hs⟩ := sbind_ok.1 hs
    rw [spure_ok] at hs
    cases hs
    obtain ⟨_, _, _, _, rfl⟩ := modifyDeme_ok h1
    simpa [St.setPop] using h.mono hT
  | migRateChange o t x =>
    obtain ⟨tq, a, rfl, rfl, rfl⟩ := cmdOf_migAll hc
    rw [stepEvent_migAll] at hm
    cases hm
    rw [step_setMigAll_eq, spure_ok] at hs
    cases hs
    subst hT'
    rw [migAllState_eq]
    show MigSimC N0 _ (migrationMatrixAt s _).numDemes _ _ _ _ _
    rw [hfr.2.1, hfr.2.2.1, hmm0, hhead.1]
    have hcur := migAll_cur hsz hhead h.dimS h.cur a
    exact migSimC_set h hT s rfl rfl _ _ (setAllLive_get hhead _ _ 0 0).1 (dimS_tab _ _) hcur
  | migEntryChange o t i j rate =>
    obtain ⟨tq, a, rfl, rfl, rfl⟩ := cmdOf_migEntry hc
    rw [stepEvent_migEntry] at hm
    obtain ⟨pi, hpi, hm⟩ := bind_ok.1 hm
    obtain ⟨pj, hpj, hm⟩ := bind_ok.1 hm
    split at hm
    · exact (RV.valueErr_bind_ok.1 hm).elim
    · cases hm
      obtain ⟨⟨p, hp⟩, ⟨q, hq⟩, _, rfl⟩ := step_setMigEntry_ok hs
      subst hT'
      obtain ⟨p1, _, _⟩ := pop_ok hp
      obtain ⟨q1, _, _⟩ := pop_ok hq
      obtain ⟨a1, a2, a3, a4, a5⟩ := convertPopulationId_ok hpi
      obtain ⟨b1, b2, b3, b4, b5⟩ := convertPopulationId_ok hpj
      have e1 : i.toNat - 1 = pi := by omega
      have e2 : j.toNat - 1 = pj := by omega
      show MigSimC N0 _ (migEntryState s _ pi pj (.fin a)).numDemes _ _ _ _ _
      rw [(migEntryState_frame s _ pi pj (.fin a)).2.1]
      unfold migEntryState
      dsimp only
      rw [hmm0, e1, e2]
      have hdS : DimS σ.pops.length σ.mat := h.dimS
      rw [← h.nn] at hdS
      have hcur := migEntry_cur hhead hdS h.cur pi pj a
      exact migSimC_set h hT s rfl rfl _ _ (dim_mmSet hhead _ _ _) (dimS_matSet h.dimS _ _ _) hcur
  | migMatrixChange o t npop mm =>
    obtain ⟨tq, rfl, rfl⟩ := cmdOf_migMatrix hc
    rw [stepEvent_migMatrix] at hm
    dsimp only at hm
    generalize hnp : (if o = "-ma" then (s.numDemes : Int) else npop) = np at hm
    split at hm
    · exact (RV.valueErr_bind_ok.1 hm).elim
    · rename_i hnpe
      have hnpe' : np = (s.numDemes : Int) := by simpa using hnpe
      obtain ⟨m, hmo, hm⟩ := bind_ok.1 hm
      cases hm
      obtain ⟨rows, hrows, rfl⟩ := step_setMigMatrix_ok hs
      subst hT'
      obtain ⟨_, rfl⟩ := matrixOf_ok hmo
      have hto : np.toNat = s.numDemes := by rw [hnpe']; simp
      rw [hto]
      obtain ⟨hdr, hcur⟩ := migMatrix_cur (N0 := N0) hsz hrows
      show MigSimC N0 _ (migMatrixState s _ _).numDemes _ _ _ _ _
      rw [(migMatrixState_frame s _ _).2.1]
      unfold migMatrixState
      dsimp only
      have hz : ∀ m, zeroJoined (migrationMatrixAt s (4 * N0 * (Cmd.setMigMatrix tq (if o = "-ma" then none else some npop.toNat) mm).t)) m
          = zeroJoined s m := by
        intro m
        unfold zeroJoined
        rw [hfr.2.1, hfr.2.2.1]
      rw [hz]
      exact migSimC_set h hT s rfl rfl _ _ (zeroJoined_get (dim_tabM _ _) 0 0).1 hdr hcur
  | join o t i j =>
    obtain ⟨tq, rfl, rfl⟩ := cmdOf_join hc
    rw [stepEvent_join] at hm
    obtain ⟨popI, hI, hm⟩ := bind_ok.1 hm
    obtain ⟨popJ, hJ, hm⟩ := bind_ok.1 hm
    obtain ⟨s1, h1, hm⟩ := bind_ok.1 hm
    cases hm
    subst hT'
    obtain ⟨q, hq, _, _, hpops, _, _⟩ := step_join_ok hs
    obtain ⟨hmat, hsnaps⟩ := step_join_mat hs
    obtain ⟨p1, p2, p3⟩ := pop_ok hq
    obtain ⟨q1, q2, q3, q4, q5⟩ := convertPopulationId_ok hI
    have hidx : i.toNat - 1 = popI := by omega
    obtain ⟨d0, d1, _, _, hs1⟩ := modifyDeme_ok h1
    have k1 : s1.mmList = s.mmList := by rw [hs1]
    have k2 : s1.mmEndTimes = s.mmEndTimes := by rw [hs1]
    have k3 : s1.numDemes = s.numDemes := by rw [hs1]
    have hfr2 := migrationMatrixAt_frame s1 (4 * N0 * (Cmd.join tq i.toNat j.toNat).t)
    have hmm02 : mm0 (migrationMatrixAt s1 (4 * N0 * (Cmd.join tq i.toNat j.toNat).t)) = s.mmList.headD [] :=
      (setAt_model s1 k1 k2 h.len h.ne h.headLe hT []).2.2.2.2.2.1
    show MigSimC N0 _ (joinMatrix s1 _ popI).numDemes (joinMatrix s1 _ popI).mmList (joinMatrix s1 _ popI).mmEndTimes _ _ _
    rw [(joinMatrix_frame s1 _ popI).2.1, joinMatrix_eq, hfr2.2.1, hmm02, k3, hsnaps, hmat, hpops, hidx, tab_or]
    simp only [List.length_set]
    have hcur := join_cur hhead h.dimS h.nn h.cur popI q4
    exact migSimC_set h hT s1 k1 k2 _ _ (zeroRowCol_get hhead popI 0 0).1 (dimS_tab _ _) hcur
  | split o t i p =>
    obtain ⟨tq, a, rfl, rfl, rfl⟩ := cmdOf_split hc
    rw [stepEvent_split] at hm
    obtain ⟨pid, _, hm⟩ := bind_ok.1 hm
    obtain ⟨a', _, hm⟩ := bind_ok.1 hm
    split at hm
    · exact (assertionErr_bind_ok.1 hm).elim
    · cases hm
      subst hT'
      obtain ⟨_, hpops, _, _⟩ := step_split_ok hs
      obtain ⟨hmat, hsnaps⟩ := step_split_mat hs
      show MigSimC N0 _ (s.numDemes + 1) (s.mmList.map _) s.mmEndTimes _ _ _
      rw [hpops, hmat, hsnaps]
      simp only [List.length_append, List.length_cons, List.length_nil, Nat.zero_add]
      exact migSimC_split h hT

end Demes.Proofs.FromMs
