/-
  `Graph.asdict` (demes/demes.py), re-read from the source on every run (Generated/AsdictShape.lean), is the function
  C06's Model mirrors: an attrs filter that hides only the name index (and empty fields when asked to), a value
  serializer that turns every `str` subclass into `str`, every `numbers.Integral` into `int`, every `numbers.Real` or
  object with `__float__` into `float` — in that order, strings first —, ONE `attr.asdict` call with exactly these two
  hooks, and the removal of `start_time` from every epoch of every deme.  (What `attr.asdict` itself does — recursing
  into attrs instances, lists and dicts and copying them — is third-party behaviour listed in the trusted base; the
  clause of C06 about numeric and string subclasses is exercised by the harness with Fraction, Decimal, numpy scalars
  and str subclasses.)  A changed coercion order, a dropped branch, a second call or a shallow copy of a field added
  around the call breaks this obligation before any input is run.
-/
import DemesVerif.Generated.AsdictShape
namespace Demes.Tables

theorem tables_asdict_shape : Generated.asdictShape =
    ("self, keep_empty_fields=True",
     ["def filt(p0, p1):",
      "  return (keep_empty_fields or not (hasattr(p1, '__len__') and len(p1) == 0)) and p0.name != '_deme_map'",
      "def coerce_types(p2, p3, p4):",
      "  if isinstance(p4, str):", "    p4 = str(p4)",
      "  else:", "    if isinstance(p4, numbers.Integral):", "      p4 = int(p4)",
      "    else:", "      if isinstance(p4, numbers.Real) or hasattr(p4, '__float__'):", "        p4 = float(p4)",
      "  return p4",
      "v0 = attr.asdict(self, filter=filt, value_serializer=coerce_types)",
      "for v1 in v0['demes']:", "  for v2 in v1['epochs']:", "    del v2['start_time']",
      "return v0"]) := by decide +kernel

end Demes.Tables
