"""C06 — the fully-resolved form is explicit, self-contained and a fixed point."""
from __future__ import annotations

import copy

import decimal
from fractions import Fraction

from props.resolve_common import *  # noqa: F401,F403

RULE = ("valid graphs (generated models, incl. ones built from numeric/string subclasses, Fraction, Decimal and numpy scalars); "
        "asdict() compared with the Lean Model's, its shape checked against the machine data model, resolved again (graph equal, "
        "dictionary identical), and mutated in place at every depth to show the graph does not change; a case is one graph; "
        "non-trivial = more than one deme or a migration or a pulse")
ASSUMPTIONS = ["coercion of numeric/string subclasses (int(), float(), str()) is CPython/attrs behaviour, exercised by the harness only",
               "'changing the returned dictionary never changes the graph' is a run-time observation of object identity"]
EXPLANATION = ("Theorems asdict_shape, asdict_explicit, asdict_fields_allowed(_source), asdict_plain(_numbers), read_asdict, "
               "resolve_asdict (for EVERY valid graph resolve(asdict g) = g), asdict_fixed_point over the Lean Model; Model tied to the "
               "code by exact comparison of asdict() and of the re-resolved graph.")

KEYS = {
    "top": ["description", "time_units", "generation_time", "doi", "metadata", "demes", "migrations", "pulses"],
    "deme": ["name", "description", "start_time", "ancestors", "proportions", "epochs"],
    "epoch": ["end_time", "start_size", "end_size", "size_function", "selfing_rate", "cloning_rate"],
    "migration": ["source", "dest", "start_time", "end_time", "rate"],
    "pulse": ["sources", "dest", "time", "proportions"],
}


class MyFloat(float):
    pass


class MyInt(int):
    pass


class MyStr(str):
    pass


def exotic(v, rng):
    """replace plain numbers/strings by subclasses and other Real types (values unchanged)"""
    if isinstance(v, bool) or v is None:
        return v
    if isinstance(v, int):
        return rng.choice([MyInt(v), Fraction(v), v])
    if isinstance(v, float):
        if math.isinf(v) or math.isnan(v):
            return MyFloat(v)
        r = rng.random()
        if r < 0.3:
            return MyFloat(v)
        if r < 0.5:
            return Fraction(v)
        if r < 0.6:
            try:
                import numpy as np
                return np.float64(v)
            except ImportError:
                return v
        return v
    if isinstance(v, str):
        return MyStr(v) if rng.random() < 0.5 else v
    if isinstance(v, list):
        return [exotic(x, rng) for x in v]
    if isinstance(v, dict):
        return {k: exotic(x, rng) for k, x in v.items()}
    return v


def plain_types(v, path="asdict"):
    if v is None or type(v) in (int, float, str, bool):
        return None
    if type(v) is list:
        for i, x in enumerate(v):
            w = plain_types(x, f"{path}[{i}]")
            if w:
                return w
        return None
    if type(v) is dict:
        for k, x in v.items():
            if type(k) is not str:
                return f"{path}: key {k!r} is a {type(k).__name__}"
            w = plain_types(x, f"{path}.{k}")
            if w:
                return w
        return None
    return f"{path} is a {type(v).__name__}"


def shape(d):
    if list(d) != KEYS["top"]:
        return f"top-level keys {list(d)}"
    for dm in d["demes"]:
        if list(dm) != KEYS["deme"]:
            return f"deme keys {list(dm)}"
        for e in dm["epochs"]:
            if list(e) != KEYS["epoch"]:
                return f"epoch keys {list(e)}"
    for m in d["migrations"]:
        if list(m) != KEYS["migration"]:
            return f"migration keys {list(m)}"
    for p in d["pulses"]:
        if list(p) != KEYS["pulse"]:
            return f"pulse keys {list(p)}"
    return None


def scribble(v, rng):
    """mutate a container in place at every depth"""
    if isinstance(v, dict):
        for k in list(v):
            scribble(v[k], rng)
            if not isinstance(v[k], (dict, list)):
                v[k] = "scribbled"
        v["extra"] = 1
    elif isinstance(v, list):
        for i in range(len(v)):
            scribble(v[i], rng)
            if not isinstance(v[i], (dict, list)):
                v[i] = "scribbled"
        v.append("extra")


def fixed_docs():
    """valid documents that random generation reaches rarely: the shared corpus of delicate documents, several pulses at ONE
    time (their listed order is part of the model and must survive re-resolution), integers that no double holds exactly"""
    from props.common import delicate_docs
    docs = [copy.deepcopy(d) for d, _ in delicate_docs()]
    four = [{"name": x, "epochs": [{"start_size": 100, "end_time": 0}]} for x in "ABCDE"]
    for order in ([("A", "B"), ("C", "D"), ("A", "C"), ("B", "D")], [("B", "D"), ("A", "C"), ("C", "D"), ("A", "B"), ("E", "A")]):
        docs.append({"time_units": "generations", "demes": copy.deepcopy(four),
                     "pulses": [{"sources": ["E"], "dest": "B", "time": 30, "proportions": [0.125]}]
                     + [{"sources": [a], "dest": b, "time": 20, "proportions": [0.0625 * (i + 1)]} for i, (a, b) in enumerate(order)]
                     + [{"sources": ["A"], "dest": "E", "time": 10, "proportions": [0.5]}]})
    big = 10 ** 16 + 1
    docs.append({"time_units": "years", "generation_time": 2 ** 53 + 1,
                 "demes": [{"name": "A", "epochs": [{"start_size": big, "end_time": 2 ** 53 + 1}, {"start_size": big + 2, "end_size": big + 2, "end_time": 0}]},
                           {"name": "B", "ancestors": ["A"], "start_time": 2 ** 53 + 3, "epochs": [{"start_size": 3 * big}]}]})
    return docs


def run(ctx):
    n = 600 if ctx.tier == "quick" else 8000
    done = 0
    while done < n and ctx.time_left() > 10:
        models = gen_models(ctx, min(200, n - done))
        done += len(models)
        graphs, docs = [], []
        fixed = fixed_docs() if done == len(models) else []        # first batch only
        for m in fixed + models:
            d = m if isinstance(m, dict) else G.spell(m, ctx.rng, level=ctx.rng.choice([0, 0.5, 1]))
            ex = (not isinstance(m, dict)) and ctx.rng.random() < 0.4
            try:
                dd = exotic(d, ctx.rng) if ex else d
                if ex and ctx.rng.random() < 0.4:
                    import collections
                    md = dd.get("metadata", {}) or {"k": [1, 2], "m": {"x": "y"}}
                    dd = dict(dd, metadata=ctx.rng.choice([collections.UserDict(md), collections.ChainMap(dict(md)), collections.OrderedDict(md)]))
                g = demes.Graph.fromdict(dd)
            except Exception as e:  # noqa: BLE001
                if ex:
                    ctx.violation(f"a valid model written with numeric/string subclasses is rejected ({type(e).__name__})", {"document": show(canon_doc(d))})
                continue
            w0 = plain_types(g.asdict())
            if w0:
                ctx.count(show(canon_doc(d)), True, tags=["subclasses" if ex else "plain"])
                ctx.violation("asdict: not built from plain numbers, strings, lists and mappings: " + w0.split(" is a ")[-1],
                              {"document": show(canon_doc(d)), "subclasses": ex, "where": w0})
                continue
            graphs.append(g); docs.append((d, ex))
        reqs = []
        for g in graphs:
            ga = enc(g.asdict())
            reqs.append({"op": "read_asdict", "graph": ga})
            reqs.append({"op": "resolve", "doc": ga})
        reps = ctx.driver.batch(reqs)
        for i, (g, (d, ex)) in enumerate(zip(graphs, docs)):
            a = g.asdict()
            ctx.count(show(canon(a)), len(g.demes) > 1 or bool(g.migrations) or bool(g.pulses), tags=["subclasses" if ex else "plain"] )
            ctx.compared += 1
            r_read, r_res = reps[2 * i], reps[2 * i + 1]
            if "ok" not in r_read or not canon_eq(canon(a), dec(r_read["ok"])):
                ctx.disagreement("asdict", {"document": show(canon_doc(d))}, show(canon(a)), r_read)
            if "ok" not in r_res or not canon_eq(canon(a), dec(r_res["ok"])):
                ctx.disagreement("resolve(asdict)", {"document": show(canon_doc(d))}, show(canon(a)), {k: v for k, v in r_res.items() if k != "ok"})
            why = shape(a) or plain_types(a)
            if why is None:
                try:
                    g2 = demes.Graph.fromdict(a)
                    if g2 != g:
                        why = "resolving the fully-resolved dictionary gives a different graph"
                    elif g2.asdict() != a or list(g2.asdict()) != list(a):
                        why = "resolving the fully-resolved dictionary gives a different dictionary"
                except Exception as e:  # noqa: BLE001
                    why = f"the fully-resolved dictionary is rejected ({type(e).__name__}: {e})"
            if why is None:
                # the dictionary a graph was resolved from may be edited afterwards
                a2 = g.asdict()
                g3 = demes.Graph.fromdict(a2)
                scribble(a2, ctx.rng)
                if g3.asdict() != a:
                    why = "editing the dictionary a graph was resolved from changed that graph"
            if why is None:
                b = g.asdict()
                scribble(b, ctx.rng)
                s = g.asdict_simplified()
                scribble(s, ctx.rng)
                if g.asdict() != a:
                    why = "changing a returned dictionary changed the graph"
            if why:
                ctx.violation("asdict: " + why, {"document": show(canon_doc(d)), "subclasses": ex}, python=py_repro(d, "demes.Graph.fromdict(g.asdict()) == g"))


def replay(ctx, payload):
    from props.c01 import plain_doc
    g = demes.Graph.fromdict(plain_doc(payload["input"]["document"]))
    a = g.asdict()
    print(shape(a), plain_types(a), demes.Graph.fromdict(a) == g)
    return 0
