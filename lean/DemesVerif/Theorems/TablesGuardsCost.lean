/-
  Tie of the loop structure behind the Model's step counts (C20).

  `Generated/GuardsCost.lean` holds, regenerated from the source's AST on every run:
  * for `Graph.migration_matrices`, `_check_migration_rates`, `in_generations`, `asdict`, `asdict_simplified` every
    loop (`for`, `while`, comprehension clause), every call or membership test that visits a collection, and every
    assignment to a variable a loop header reads, in source order, each with the loops (and nested `def`s) that
    enclose it, locals renamed in order of first binding — pinned below (`cost_loops_*`);
  * the loops of `_check_migration_rates`, `in_generations`, `asdict` as terms of `Cost.Nest.Nest` over the collections
    of the Model's graph (`Model/CostNest.lean`): the Model's `costCheckRates`, `costInGenerations` are proved EQUAL
    to the `ticks` of the generated nests for all graphs, `costAsdict` to cover them;
  * which dictionary `dump` / `dump_all` build as a function of `simplified`: the non-simplified dump costs
    `costAsdict` (polynomial, `cost_asdict_poly`), only the simplified one `costSimplify` (finding F9).

  An extra loop, a loop moved inside another, `migration_matrices()` called per row, `asdict_simplified()` on the
  non-simplified branch, a different subset size in the search: each makes a named theorem fail to compile.
-/
import DemesVerif.Generated.GuardsCost
import DemesVerif.Proofs.Guards3Cost
import DemesVerif.Proofs.Matrices
namespace Demes.Tables
open Demes Demes.Cost Demes.Cost.Nest Demes.Proofs.Guards3

/-! ### the loop tables -/

/-- `migration_matrices`: the boundary times are collected by two passes over the migrations and sorted once; one
`n × n` matrix per end time (`n = len(self.demes)`); one pass over the demes for the index; for every migration
one sweep over the end times — nothing else is nested (`costMatrices`) -/
theorem cost_loops_migration_matrices : Generated.costLoops_migration_matrices =
    [
     ("comp", "comp v1 in self.migrations", []),
     ("call", "set((v1.start_time for v1 in self.migrations))", []),
     ("comp", "comp v1 in self.migrations", []),
     ("call", "v0.update((v1.end_time for v1 in self.migrations))", []),
     ("call", "v0.discard(math.inf)", []),
     ("call", "sorted(v0, reverse=True)", []),
     ("let", "v2 = sorted(v0, reverse=True)", []),
     ("let", "v3 = len(self.demes)", []),
     ("comp", "comp v5 in range(len(v2))", []),
     ("comp", "comp v5 in range(v3)", ["comp v5 in range(len(v2))"]),
     ("comp", "comp (v7, v8) in enumerate(self.demes)", []),
     ("for", "for v1 in self.migrations", []),
     ("for", "for (v10, v11) in enumerate(v2)", ["for v1 in self.migrations"]),
     ("jump", "break", ["for v1 in self.migrations", "for (v10, v11) in enumerate(v2)"])] := by decide +kernel

/-- `_check_migration_rates`: `migration_matrices()` once, outside the loops; matrices × rows, `sum(row)` per row -/
theorem cost_loops_check_migration_rates : Generated.costLoops_check_migration_rates =
    [
     ("call", "self.migration_matrices()", []),
     ("for", "for (v3, v4) in zip(v1, v2)", []),
     ("for", "for (v5, v6) in enumerate(v3)", ["for (v3, v4) in zip(v1, v2)"]),
     ("call", "sum(v6)", ["for (v3, v4) in zip(v1, v2)", "for (v5, v6) in enumerate(v3)"])] := by decide +kernel

/-- `in_generations`: one copy; demes × epochs, migrations, pulses — no loop inside another beyond that -/
theorem cost_loops_in_generations : Generated.costLoops_in_generations =
    [
     ("call", "copy.deepcopy(self)", []),
     ("let", "v0 = copy.deepcopy(self)", []),
     ("for", "for v1 in v0.demes", []),
     ("for", "for v2 in v1.epochs", ["for v1 in v0.demes"]),
     ("for", "for v3 in v0.migrations", []),
     ("for", "for v4 in v0.pulses", [])] := by decide +kernel

/-- `asdict`: `attr.asdict` once, then demes × epochs -/
theorem cost_loops_asdict : Generated.costLoops_asdict =
    [
     ("def", "filt", []),
     ("def", "coerce_types", []),
     ("call", "attr.asdict(self, filter=filt, value_serializer=coerce_types)", []),
     ("let", "v5 = attr.asdict(self, filter=filt, value_serializer=coerce_types)", []),
     ("for", "for v6 in v5['demes']", []),
     ("for", "for v7 in v6['epochs']", ["for v6 in v5['demes']"])] := by decide +kernel

/-- `asdict_simplified`: `asdict` once; `simplify_epochs` (demes × epochs, then demes); `simplify_migration_rates`: one pass
over the migrations building the rate classes, then per class the `while` over the subset size `i` (from
`len(all_demes)` down, `i -= 1` / `min(i, len(all_demes))`), inside it `itertools.combinations(all_demes, i)`,
inside that twice `itertools.permutations(deme_set, 2)` with the membership test / the two `remove`s, and
`collapse_demes(pairs)` (pairs × two membership scans) before the `while` and after a compression — the shape
`classesC` / `searchLoopC` / `tryCombinationsC` / `costSubset` of Model/Cost.lean count -/
theorem cost_loops_asdict_simplified : Generated.costLoops_asdict_simplified =
    [
     ("def", "simplify_epochs", []),
     ("for", "for v1 in v0['demes']", ["def simplify_epochs"]),
     ("for", "for v2 in v1['epochs']", ["def simplify_epochs", "for v1 in v0['demes']"]),
     ("for", "for v1 in v0['demes']", ["def simplify_epochs"]),
     ("in", "'ancestors' in v1", ["def simplify_epochs", "for v1 in v0['demes']"]),
     ("def", "simplify_migration_rates", []),
     ("def", "collapse_demes", ["def simplify_migration_rates"]),
     ("let", "v5 = []", ["def simplify_migration_rates", "def collapse_demes"]),
     ("for", "for v6 in v4", ["def simplify_migration_rates", "def collapse_demes"]),
     ("in", "v6[0] not in v5", ["def simplify_migration_rates", "def collapse_demes", "for v6 in v4"]),
     ("in", "v6[1] not in v5", ["def simplify_migration_rates", "def collapse_demes", "for v6 in v4"]),
     ("call", "v0['migrations'].copy()", ["def simplify_migration_rates"]),
     ("let", "v9 = {}", ["def simplify_migration_rates"]),
     ("for", "for v10 in v0['migrations']", ["def simplify_migration_rates"]),
     ("comp", "comp v16 in ('rate', 'start_time', 'end_time')", ["def simplify_migration_rates", "for v10 in v0['migrations']"]),
     ("call", "tuple((v10.get(v16) for v16 in ('rate', 'start_time', 'end_time')))", ["def simplify_migration_rates", "for v10 in v0['migrations']"]),
     ("for", "for (v15, v4) in v9.items()", ["def simplify_migration_rates"]),
     ("jump", "continue", ["def simplify_migration_rates", "for (v15, v4) in v9.items()"]),
     ("call", "collapse_demes(v4)", ["def simplify_migration_rates", "for (v15, v4) in v9.items()"]),
     ("let", "v5 = collapse_demes(v4)", ["def simplify_migration_rates", "for (v15, v4) in v9.items()"]),
     ("let", "v17 = len(v5)", ["def simplify_migration_rates", "for (v15, v4) in v9.items()"]),
     ("while", "while len(v5) >= 2 and v17 >= 2", ["def simplify_migration_rates", "for (v15, v4) in v9.items()"]),
     ("call", "itertools.combinations(v5, v17)", ["def simplify_migration_rates", "for (v15, v4) in v9.items()", "while len(v5) >= 2 and v17 >= 2"]),
     ("for", "for v19 in itertools.combinations(v5, v17)", ["def simplify_migration_rates", "for (v15, v4) in v9.items()", "while len(v5) >= 2 and v17 >= 2"]),
     ("call", "itertools.permutations(v19, 2)", ["def simplify_migration_rates", "for (v15, v4) in v9.items()", "while len(v5) >= 2 and v17 >= 2", "for v19 in itertools.combinations(v5, v17)"]),
     ("for", "for v21 in itertools.permutations(v19, 2)", ["def simplify_migration_rates", "for (v15, v4) in v9.items()", "while len(v5) >= 2 and v17 >= 2", "for v19 in itertools.combinations(v5, v17)"]),
     ("in", "v21 not in v4", ["def simplify_migration_rates", "for (v15, v4) in v9.items()", "while len(v5) >= 2 and v17 >= 2", "for v19 in itertools.combinations(v5, v17)", "for v21 in itertools.permutations(v19, 2)"]),
     ("jump", "break", ["def simplify_migration_rates", "for (v15, v4) in v9.items()", "while len(v5) >= 2 and v17 >= 2", "for v19 in itertools.combinations(v5, v17)", "for v21 in itertools.permutations(v19, 2)"]),
     ("call", "itertools.permutations(v19, 2)", ["def simplify_migration_rates", "for (v15, v4) in v9.items()", "while len(v5) >= 2 and v17 >= 2", "for v19 in itertools.combinations(v5, v17)"]),
     ("for", "for v21 in itertools.permutations(v19, 2)", ["def simplify_migration_rates", "for (v15, v4) in v9.items()", "while len(v5) >= 2 and v17 >= 2", "for v19 in itertools.combinations(v5, v17)"]),
     ("call", "v8.remove(v22)", ["def simplify_migration_rates", "for (v15, v4) in v9.items()", "while len(v5) >= 2 and v17 >= 2", "for v19 in itertools.combinations(v5, v17)", "for v21 in itertools.permutations(v19, 2)"]),
     ("call", "v4.remove(v21)", ["def simplify_migration_rates", "for (v15, v4) in v9.items()", "while len(v5) >= 2 and v17 >= 2", "for v19 in itertools.combinations(v5, v17)", "for v21 in itertools.permutations(v19, 2)"]),
     ("call", "dict(demes=list(v19), rate=v15[0])", ["def simplify_migration_rates", "for (v15, v4) in v9.items()", "while len(v5) >= 2 and v17 >= 2", "for v19 in itertools.combinations(v5, v17)"]),
     ("call", "collapse_demes(v4)", ["def simplify_migration_rates", "for (v15, v4) in v9.items()", "while len(v5) >= 2 and v17 >= 2"]),
     ("let", "v5 = collapse_demes(v4)", ["def simplify_migration_rates", "for (v15, v4) in v9.items()", "while len(v5) >= 2 and v17 >= 2"]),
     ("let", "v17 = min(v17, len(v5))", ["def simplify_migration_rates", "for (v15, v4) in v9.items()", "while len(v5) >= 2 and v17 >= 2"]),
     ("let", "v17 -= 1", ["def simplify_migration_rates", "for (v15, v4) in v9.items()", "while len(v5) >= 2 and v17 >= 2"]),
     ("call", "self.asdict(keep_empty_fields=False)", []),
     ("let", "v0 = self.asdict(keep_empty_fields=False)", []),
     ("in", "'migrations' in v0", []),
     ("call", "simplify_migration_rates(v0)", []),
     ("call", "simplify_epochs(v0)", [])] := by decide +kernel

/-! ### the step counts follow the loops -/

/-- `migration_matrices` + the row-sum loop: the Model's `costMatrices g + costCheckRates g` (the part of
`costResolve` for `_check_migration_rates`) is exactly the step count of the generated loop nest — one call of
`migration_matrices`, then (number of end times) × (1 + D × (1 + D)) -/
theorem cost_tie_check_migration_rates (g : Graph) :
    ticks g none Generated.costNestCheckRates = costMatrices g + costCheckRates g :=
  ticks_checkRates g

/-- `in_generations`: Σ over the demes of (1 + its epochs), + migrations + pulses, + 3 for the statements outside
the loops -/
theorem cost_tie_in_generations (g : Graph) :
    3 + ticks g none Generated.costNestInGenerations = costInGenerations g :=
  ticks_inGenerations g

/-- `asdict`: the explicit loops (demes × epochs, deleting `start_time`) are covered by the Model's count, which
also counts every field `attr.asdict` emits -/
theorem cost_tie_asdict_loops (g : Graph) : ticks g none Generated.costNestAsdict ≤ costAsdict g :=
  ticks_asdict_le g

/-- `dump` / `dump_all` build the fully-resolved dictionary (`costAsdict`, linear) unless `simplified`, and only
then the simplified one (`costSimplify`, not polynomial: F9) -/
theorem cost_tie_dump (g : Graph) :
    (Generated.costDumpCall false).cost g = costAsdict g ∧ (Generated.costDumpCall true).cost g = costSimplify g
      ∧ (Generated.costDumpAllCall false).cost g = costAsdict g
      ∧ (Generated.costDumpAllCall true).cost g = costSimplify g :=
  ⟨rfl, rfl, rfl, rfl⟩

/-- the nests themselves -/
theorem cost_nests : Generated.costNestCheckRates = nestCheckRates ∧ Generated.costNestInGenerations = nestInGenerations
    ∧ Generated.costNestAsdict = nestAsdict := by decide +kernel

/-! ### non-vacuity -/

/-- the step count of the generated nest of `in_generations` on the example graph -/
example : ticks Proofs.exampleGraph none Generated.costNestInGenerations = 7
    ∧ ticks Proofs.exampleGraph none Generated.costNestCheckRates
        = costMatrices Proofs.exampleGraph + 4 * (1 + 2 * (1 + 2)) := by decide +kernel

end Demes.Tables
