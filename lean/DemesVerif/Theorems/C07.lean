/-
  C07 — ms arguments emitted for a graph describe the same demography.

  `toMs` (Model/Ms.lean) mirrors `demes.to_ms`.  It emits a list of typed tokens (`Tok Growth`;
  growth rates are the symbols `-ln(r)/dt`, compared exactly by `Growth.eq`).  `parseCmd`
  (Spec/C07.lean) reads such a command back into its `-I` header and its option records with the
  arities of the ms manual; the theorems below interpret those records under the ms rules.

  Throughout, `g' = inGenerations g`, population `i+1` is `g'.demes[i]`, an ms time is a time in
  generations divided by `4·N0`, an ms size is a size divided by `N0`.

  Sections 1–5 read the option records one population / one pair at a time.  Section 6 runs
  the whole command through `msSemG` (Spec/C07Sem.lean: the backwards-time interpreter of
  Spec/MsSem.lean over typed tokens, so that symbolic growth rates need not be evaluated) and
  compares the result with `graphSem` by the relation `≈` (`semMatches`).  `to_ms` renormalises
  the ancestry proportions of a deme (`p_k / sum(p[k:])`), and validation only asks that they sum
  to one within 1e-9: the command denotes the demography of `normalizeProportions g` (every
  deme's proportions divided by their sum), for every valid ms-expressible graph (`toMs_sem`);
  that graph is `g` itself when the sums are exactly one (`toMs_sem_partial`), and is within the
  tolerance of validation otherwise (`normalizeProportions_close`).
-/
import DemesVerif.Proofs.ToMsSem
import DemesVerif.Proofs.ToMsNorm
import DemesVerif.Proofs.ToMsExamples
import DemesVerif.Proofs.ToMsNormExamples
namespace Demes.Theorems
open Demes Demes.Ms Demes.Spec Demes.Spec.C07

/-! ## 1. Which graphs are translated -/

/-- A graph outside the ms-expressible class (an epoch that is neither constant nor exponential,
or a pulse with several sources), or a `samples` list of the wrong length, raises an error —
for every graph, valid or not, and every `N0`. -/
theorem toMs_rejects (g : Graph) (N0 : Q) (samples : Option (List Int))
    (h : MsExpressible g = false ∨ samplesOk g samples = false) :
    ∃ err, toMs g N0 samples = .error err :=
  Proofs.ToMs.toMs_rejects g N0 samples h

/-- Every valid ms-expressible graph is translated, for every positive `N0` and every
well-formed `samples`. -/
theorem toMs_accepts {g : Graph} (hv : validGraph g = true) (hx : MsExpressible g = true)
    {N0 : Q} (hN : 0 < N0) {samples : Option (List Int)} (hs : samplesOk g samples = true) :
    ∃ c, toMs g N0 samples = .ok c :=
  Proofs.ToMs.toMs_accepts hv hx hN hs

/-! ## 2. Structure of the command -/

/-- The command reads back (`parseCmd`) as: the header `-I n s₁ … sₙ` exactly when there is more
than one deme (`n` = number of demes, the given samples, zeros when none), followed by options
`evs` that are sorted by time, whose times are times of the graph (in generations) divided by
`4·N0`, and that are a stable sort of `sz ++ anc ++ mig` (size/growth options, then `-es`/`-ej`
options, then migration options): at every time `T` the options of that time are those of
`sz`, `anc`, `mig` at `T`, in that order, with the time divided by `4·N0`. -/
theorem toMs_structure {g : Graph} (hv : validGraph g = true) (hx : MsExpressible g = true)
    {N0 : Q} (hN : 0 < N0) {samples : Option (List Int)} (hs : samplesOk g samples = true) :
    ∃ c evs, toMs g N0 samples = .ok c ∧
      parseCmd c = some ⟨if (inGenerations g).demes.length > 1 then
          some ((inGenerations g).demes.length,
            (samples.getD (List.replicate (inGenerations g).demes.length 0)).map toString)
          else none, evs⟩ ∧
      evs.Pairwise (fun a b => evT a ≤ evT b) ∧
      (∀ e ∈ evs, ∃ T ∈ graphTimes (inGenerations g), e.t = .fin (T / (4 * N0))) ∧
      ∃ sz anc mig : List (Event Growth),
        (∀ e ∈ sz, isSizeKind e = true) ∧ (∀ e ∈ anc, isSplitJoin e = true) ∧ (∀ e ∈ mig, isMigKind e = true) ∧
        evs.length = sz.length + anc.length + mig.length ∧
        ∀ T : Q, evs.filter (fun e => e.t == .fin (T / (4 * N0)))
          = ((sz ++ anc ++ mig).filter (fun e => e.t == .fin T)).map (fun e => e.setT (.fin (T / (4 * N0)))) :=
  Proofs.ToMs.toMs_structure hv hx hN hs

/-! ## 3. Sizes -/

/-- For every deme `d = g'.demes[i]`: interpreting the `-n`, `-en`, `-g`, `-eg` options of population
`i+1` under the ms rule (`-en` sets the size and resets the growth rate to 0, `-n` sets the size,
`-g`, `-eg` set the growth rate), nothing is scheduled before the deme's end time, and at the
recent end of every epoch (time `end_time/4N0`) the population has size `end_size/N0` and the
growth rate of the epoch (`0` when the sizes are equal, `-ln(start/end)/(Δt/4N0)` otherwise), with
nothing scheduled strictly inside the epoch (`popSizesMatch`, Spec/C07.lean). -/
theorem toMs_sizes {g : Graph} (hv : validGraph g = true) (hx : MsExpressible g = true)
    {N0 : Q} (hN : 0 < N0) {samples : Option (List Int)} (hs : samplesOk g samples = true) :
    ∃ c cmd, toMs g N0 samples = .ok c ∧ parseCmd c = some cmd ∧
      ∀ (i : Nat) (d : Deme), (inGenerations g).demes[i]? = some d →
        popSizesMatch N0 ((i + 1 : Nat) : Int) d cmd.events = true :=
  Proofs.ToMs.toMs_sizes hv hx hN hs

/-- The repaired sawtooth defect: among the options of population `i+1`, every size change
scheduled at the recent end of a non-constant epoch of deme `i` is immediately followed by the
growth-rate option of that epoch at the same time. -/
theorem en_followed_by_eg {g : Graph} (hv : validGraph g = true) (hx : MsExpressible g = true)
    {N0 : Q} (hN : 0 < N0) {samples : Option (List Int)} (hs : samplesOk g samples = true) :
    ∃ c cmd, toMs g N0 samples = .ok c ∧ parseCmd c = some cmd ∧
      ∀ (i : Nat) (d : Deme), (inGenerations g).demes[i]? = some d →
        enThenEg N0 ((i + 1 : Nat) : Int) d.epochs (cmd.events.filter (isSizeEvOf ((i + 1 : Nat) : Int))) = true :=
  Proofs.ToMs.en_followed_by_eg hv hx hN hs

/-! ## 4. Migration rates -/

/-- For every ordered pair of demes `(da, db) = (g'.demes[a], g'.demes[b])` and every time `T`
(generations): reading the `-m` / `-em` options of the pair `(a+1, b+1)` in command-line order, the
entry in force at ms time `T/4N0` (`migRateAt`: the last such option scheduled at or before that
time — the stable sort puts the `… 0` of a migration that stops before the start of one that
begins at the same time) is `4·N0·rate` of the migration into `da` from `db` active at `T`; and it is
`0` when no such migration is active and both demes still exist (`T` before both start times;
after a deme's start time, backwards, its `-ej` has emptied its row and column, see
`toMs_sem`). -/
theorem toMs_migrations {g : Graph} (hv : validGraph g = true) (hx : MsExpressible g = true)
    {N0 : Q} (hN : 0 < N0) {samples : Option (List Int)} (hs : samplesOk g samples = true) :
    ∃ c cmd, toMs g N0 samples = .ok c ∧ parseCmd c = some cmd ∧
      ∀ (a b : Nat) (da db : Deme), (inGenerations g).demes[a]? = some da →
        (inGenerations g).demes[b]? = some db → ∀ T : Q,
        (∀ m ∈ (inGenerations g).migrations, m.dest = da.name → m.source = db.name → activeAt m T = true →
          migRateAt cmd.events ((a + 1 : Nat) : Int) ((b + 1 : Nat) : Int) (T / (4 * N0)) = 4 * N0 * m.rate)
        ∧ ((∀ m ∈ (inGenerations g).migrations, m.dest = da.name → m.source = db.name → activeAt m T = false) →
            ETime.fin T < da.startTime → ETime.fin T < db.startTime →
            migRateAt cmd.events ((a + 1 : Nat) : Int) ((b + 1 : Nat) : Int) (T / (4 * N0)) = 0) :=
  Proofs.ToMs.toMs_migrations hv hx hN hs

/-! ## 5. Numbering of the populations created by `-es` -/

/-- Reading the `-es` / `-ej` options in command-line order with ms's rule "a split creates
population (current count + 1)": every `-es` splits one of the graph's demes and is immediately
followed by the `-ej` that joins the population just created — under exactly the number ms gives
it — to one of the graph's demes; every other `-ej` joins two of the graph's demes
(`wellNumbered`, Spec/C07.lean). -/
theorem toMs_numbering {g : Graph} (hv : validGraph g = true) (hx : MsExpressible g = true)
    {N0 : Q} (hN : 0 < N0) {samples : Option (List Int)} (hs : samplesOk g samples = true) :
    ∃ c cmd, toMs g N0 samples = .ok c ∧ parseCmd c = some cmd ∧
      wellNumbered (inGenerations g).demes.length (inGenerations g).demes.length
        (cmd.events.filter isSplitJoin) = true :=
  Proofs.ToMs.toMs_numbering hv hx hN hs

/-! ## 6. The demography of the whole command -/

/-- For every valid ms-expressible graph the emitted command has a meaning under the ms semantics
(`msSemG` does not fail: every option addresses a population that exists and has not been
joined), `graphSem g'` succeeds, and
* `popsMatch`: the populations of the command are the graph's demes in deme order; each ends
  (`-ej`) at its deme's start time; over the deme's lifetime its size updates realise the deme's
  epochs (size at the recent end, growth rate, nothing inside an epoch);
* `migsMatch`: at every time of a deme's lifetime the migration rate into it from every other
  deme is the graph's when that deme exists, and `0` when it does not (no lineage can enter a
  deme outside its lifetime);
* `movesMatch`, when the ancestry proportions sum to exactly one: at every event time the
  backwards lineage-movement matrix is the graph's, and no lineage moves into a deme outside its
  lifetime. -/
theorem toMs_sem_parts {g : Graph} (hv : validGraph g = true) (hx : MsExpressible g = true)
    {N0 : Q} (hN : 0 < N0) {samples : Option (List Int)} (hs : samplesOk g samples = true) :
    ∃ c cmd sem gs, toMs g N0 samples = .ok c ∧ parseCmd c = some cmd ∧ msSemG cmd N0 = .ok sem
      ∧ MsSem.graphSem (inGenerations g) none = .ok gs
      ∧ popsMatch N0 sem gs = true ∧ migsMatch sem gs = true
      ∧ (ExactProportions g = true → movesMatch sem gs = true) :=
  Proofs.ToMs.toMs_sem_run hv hx hN hs

/-- Normalising the ancestry proportions of a valid graph gives a valid graph, ms-expressible
and with the same `samples` condition as before, whose proportions sum to exactly one. -/
theorem normalizeProportions_valid {g : Graph} (hv : validGraph g = true) :
    validGraph (normalizeProportions g) = true ∧ ExactProportions (normalizeProportions g) = true
      ∧ MsExpressible (normalizeProportions g) = MsExpressible g
      ∧ ∀ samples, samplesOk (normalizeProportions g) samples = samplesOk g samples :=
  ⟨Proofs.ToMsNorm.validGraph_norm hv, Proofs.ToMsNorm.exact_norm (Proofs.ToMs.clauses_of_valid hv).h4,
    Proofs.ToMsNorm.expr_norm g, Proofs.ToMsNorm.samplesOk_norm g⟩

/-- `to_ms` does not see a common factor of a deme's ancestry proportions: the command emitted
for a valid ms-expressible graph is the command emitted for its normalisation. -/
theorem toMs_normalizeProportions {g : Graph} (hv : validGraph g = true) (hx : MsExpressible g = true)
    {N0 : Q} (hN : 0 < N0) {samples : Option (List Int)} (hs : samplesOk g samples = true) :
    toMs (normalizeProportions g) N0 samples = toMs g N0 samples :=
  Proofs.ToMsNorm.toMs_norm hv hx hN hs

/-- **The demography of the command.**  For every valid ms-expressible graph, every positive
`N0` and every well-formed `samples`: `toMs` succeeds, the command reads back, has a meaning `sem`
under the ms semantics, the graph with its ancestry proportions normalised
(`normalizeProportions`, Spec/C07Sem.lean: each deme's proportions `p` replaced by `p / sum p`,
nothing else changed) has a demography `gs`, and `sem ≈ gs`: same populations, sizes, migration
rates and lineage movements (`semMatches`). -/
theorem toMs_sem {g : Graph} (hv : validGraph g = true) (hx : MsExpressible g = true)
    {N0 : Q} (hN : 0 < N0) {samples : Option (List Int)} (hs : samplesOk g samples = true) :
    ∃ c cmd sem gs, toMs g N0 samples = .ok c ∧ parseCmd c = some cmd ∧ msSemG cmd N0 = .ok sem
      ∧ MsSem.graphSem (inGenerations (normalizeProportions g)) none = .ok gs
      ∧ semMatches N0 sem gs = true :=
  Proofs.ToMsNorm.toMs_sem hv hx hN hs

/-- Normalisation does nothing to a graph whose proportions sum to exactly one. -/
theorem normalizeProportions_exact {g : Graph} (hex : ExactProportions g = true) :
    normalizeProportions g = g :=
  Proofs.ToMsNorm.normalizeProportions_exact hex

/-- Normalisation stays within the tolerance of validation.  For a valid graph: the demes of
`normalizeProportions g` are those of `g`, position by position, each with all its fields but
`proportions` unchanged and as many proportions as before; the `k`-th proportion `p` of a deme
becomes `p' = p / sum`, and `|p' - p| ≤ relTol / (1 - relTol) · p`, where `relTol` is the double
`1e-9` of `math.isclose` (validation accepts a sum `s` with `|s - 1| ≤ relTol · max(s, 1)`, and
`|p/s - p| = p · |1 - s| / s`). -/
theorem normalizeProportions_close {g : Graph} (hv : validGraph g = true) :
    (normalizeProportions g).demes.length = g.demes.length ∧
    ∀ (i : Nat) (d : Deme), g.demes[i]? = some d →
      ∃ d' : Deme, (normalizeProportions g).demes[i]? = some d'
        ∧ d' = { d with proportions := d'.proportions }
        ∧ d'.proportions.length = d.proportions.length
        ∧ ∀ (k : Nat) (p : Q), d.proportions[k]? = some p →
            ∃ p' : Q, d'.proportions[k]? = some p' ∧ p' = p / qsumS d.proportions
              ∧ qabs (p' - p) ≤ relTol / (1 - relTol) * p :=
  Proofs.ToMsNorm.normalizeProportions_close hv

/-- the bound of `normalizeProportions_close` in figures: a relative error below `1e-9 + 1.1e-18` -/
theorem normalizeProportions_tolerance : relTol / (1 - relTol) < 1 / 10 ^ 9 + 11 / 10 ^ 19 :=
  Proofs.ToMsNorm.relTol_bound

/-- `toMs_sem` for the un-normalised graph, with the hypothesis this formulation needs (see
`toMs_sem_counterexample`): if the ancestry proportions of every deme sum to exactly one, the
demography of the emitted command `≈` the demography of the graph.  A corollary of `toMs_sem`:
normalisation does nothing to such a graph. -/
theorem toMs_sem_partial {g : Graph} (hv : validGraph g = true) (hx : MsExpressible g = true)
    (hex : ExactProportions g = true)
    {N0 : Q} (hN : 0 < N0) {samples : Option (List Int)} (hs : samplesOk g samples = true) :
    ∃ c cmd sem gs, toMs g N0 samples = .ok c ∧ parseCmd c = some cmd ∧ msSemG cmd N0 = .ok sem
      ∧ MsSem.graphSem (inGenerations g) none = .ok gs ∧ semMatches N0 sem gs = true := by
  simpa only [normalizeProportions_exact hex] using toMs_sem hv hx hN hs

/-- Without exact proportions the movement part of `≈` fails: `exInexact` is `ex1` with the
admixture proportions `[1/4, 3/4 + 2⁻⁴⁰]` (valid: the sum is within 1e-9 of one).  `to_ms`
renormalises them (`p_k / sum(p[k:])`), so the command moves a lineage of `C` to `A` with
probability `(1/4)/(1 + 2⁻⁴⁰)`, the graph with probability `1/4`.  Populations and migrations
still match. -/
theorem toMs_sem_counterexample :
    validGraph Proofs.ToMs.exInexact = true ∧ MsExpressible Proofs.ToMs.exInexact = true
      ∧ ExactProportions Proofs.ToMs.exInexact = false
      ∧ toMsDenotes Proofs.ToMs.exInexact 2 none = some (true, true, false) := by
  decide +kernel

/-- The same with a single ancestor: `exSingleInexact` is `exSplit` with the proportion of `B`'s
only ancestor equal to `1 - 2⁻⁴⁰` (valid).  `to_ms` emits `-ej` alone, which moves every lineage of
`B` to `A`; the graph as stored moves a lineage with probability `1 - 2⁻⁴⁰`. -/
theorem toMs_sem_counterexample_single :
    validGraph Proofs.ToMsNorm.exSingleInexact = true ∧ MsExpressible Proofs.ToMsNorm.exSingleInexact = true
      ∧ ExactProportions Proofs.ToMsNorm.exSingleInexact = false
      ∧ toMsDenotes Proofs.ToMsNorm.exSingleInexact 2 none = some (true, true, false) := by
  decide +kernel

/-! ## Non-vacuity -/

open Demes.Proofs.ToMs (ex1 ex1Linear ex1TwoSources exSplit exInexact)
open Demes.Proofs.ToMsNorm (exSingleInexact exInexactBelow proportionsOf)

/-- the hypotheses are satisfiable: three demes in years, an exponential epoch, an admixture, a
migration switched on and off, a pulse; the sawtooth; a split -/
example : validGraph ex1 = true ∧ MsExpressible ex1 = true ∧ samplesOk ex1 none = true
    ∧ samplesOk ex1 (some [1, 2, 3]) = true := by decide +kernel
example : validGraph sawtooth = true ∧ MsExpressible sawtooth = true := by decide +kernel
example : validGraph exSplit = true ∧ MsExpressible exSplit = true := by decide +kernel

/-- the hypotheses of `toMs_rejects` are satisfiable by valid graphs, and such graphs are refused -/
example : validGraph ex1Linear = true ∧ MsExpressible ex1Linear = false
    ∧ (toMs ex1Linear 2 none).toOption.isSome = false := by decide +kernel
example : validGraph ex1TwoSources = true ∧ MsExpressible ex1TwoSources = false
    ∧ (toMs ex1TwoSources 2 none).toOption.isSome = false := by decide +kernel
example : samplesOk ex1 (some [1, 2]) = false ∧ (toMs ex1 2 (some [1, 2])).toOption.isSome = false := by
  decide +kernel

/-- the command of `ex1` with `N0 = 2`: header and flags -/
example : ((toMs ex1 2 (some [1, 2, 3])).toOption.map (fun ts => ts.filterMap (fun t =>
      match t with | .flag s => some s | .raw s => some s | _ => none)))
    = some ["-I", "1", "2", "3", "-n", "-g", "-n", "-n", "-es", "-ej", "-ej", "-em", "-es", "-ej", "-em", "-ej", "-eg"] := by
  decide +kernel

/-- `toMs_sizes` and `en_followed_by_eg` checked by evaluation on the examples -/
example : ((toMs ex1 2 none).toOption.bind parseCmd).map (fun c =>
    (inGenerations ex1).demes.zipIdx.all (fun (d, i) => popSizesMatch 2 ((i + 1 : Nat) : Int) d c.events
      && enThenEg 2 ((i + 1 : Nat) : Int) d.epochs (c.events.filter (isSizeEvOf ((i + 1 : Nat) : Int))))) = some true := by
  decide +kernel
example : ((toMs sawtooth 1 none).toOption.bind parseCmd).map (fun c =>
    (inGenerations sawtooth).demes.zipIdx.all (fun (d, i) => popSizesMatch 1 ((i + 1 : Nat) : Int) d c.events
      && enThenEg 1 ((i + 1 : Nat) : Int) d.epochs (c.events.filter (isSizeEvOf ((i + 1 : Nat) : Int))))) = some true := by
  decide +kernel

/-- `enThenEg` is not vacuous: dropping the second `-eg` of the sawtooth command (what the
defective code emitted) violates it, and `popSizesMatch` fails too -/
example : ((toMs sawtooth 1 none).toOption.bind parseCmd).map (fun c =>
    let evs := c.events.eraseIdx 3
    (enThenEg 1 1 (sawtooth.demes.flatMap (·.epochs)) (evs.filter (isSizeEvOf 1)),
     sawtooth.demes.all (fun d => popSizesMatch 1 1 d evs))) = some (false, false) := by
  decide +kernel

/-- `toMs_migrations` on `ex1` (`N0 = 2`): the migration `A → B` (rate 1/100, from 40 to 20
generations ago) gives `M[2][1] = 8/100` at 30 generations, `0` at 10 and at 45 generations -/
example : ((toMs ex1 2 none).toOption.bind parseCmd).map (fun c =>
    (migRateAt c.events 2 1 (30 / 8), migRateAt c.events 2 1 (10 / 8), migRateAt c.events 2 1 (45 / 8),
     migRateAt c.events 1 2 (30 / 8))) = some (8 / 100, 0, 0, 0) := by
  decide +kernel

/-- `toMs_numbering` on `ex1`: populations 4 and 5 are created, in that order -/
example : ((toMs ex1 2 none).toOption.bind parseCmd).map (fun c =>
    (wellNumbered 3 3 (c.events.filter isSplitJoin),
     (c.events.filter isSplitJoin).filterMap (fun e => match e with | .join _ _ i _ => some i | _ => none)))
    = some (true, [4, 3, 5, 2]) := by
  decide +kernel

/-- `wellNumbered` is not vacuous: swapping the two splits' joins violates it -/
example : wellNumbered 3 3 [.split "" (.fin 1) 3 (.fin 0), .join "" (.fin 1) 5 1] = false := by decide +kernel

/-- `toMs_sem_partial`: the hypotheses are satisfiable, and `≈` holds, checked by evaluation, on:
three demes in years with an exponential epoch, an admixture, a migration switched on and off
and a pulse (`ex1`, two values of `N0`); the sawtooth `100→200, 100→200`; two demes with a
split -/
example : ExactProportions ex1 = true ∧ ExactProportions sawtooth = true ∧ ExactProportions exSplit = true := by
  decide +kernel
example : toMsDenotes ex1 2 none = some (true, true, true) := by decide +kernel
example : toMsDenotes ex1 (1 / 4) (some [1, 2, 3]) = some (true, true, true) := by decide +kernel
example : toMsDenotes sawtooth 1 none = some (true, true, true) := by decide +kernel
example : toMsDenotes exSplit 2 none = some (true, true, true) := by decide +kernel

/-- `toMs_sem` where `toMs_sem_partial` does not apply: the hypotheses hold and `ExactProportions`
fails on `exInexact` (two ancestors, proportions `[1/4, 3/4 + 2⁻⁴⁰]`, sum `1 + 2⁻⁴⁰`), on
`exInexactBelow` (`[1/4, 3/4 - 2⁻⁴⁰]`) and on `exSingleInexact` (one ancestor, `[1 - 2⁻⁴⁰]`); on each
the command denotes the demography of the normalised graph (checked by evaluation) and not that
of the graph as stored -/
example : validGraph exInexact = true ∧ MsExpressible exInexact = true ∧ samplesOk exInexact none = true
    ∧ (0 : Q) < 2 ∧ ExactProportions exInexact = false
    ∧ proportionsOf exInexact = [[], [1], [1/4, 3/4 + 1/1099511627776]]
    ∧ proportionsOf (normalizeProportions exInexact)
        = [[], [1], [274877906944 / 1099511627777, 824633720833 / 1099511627777]] := by decide +kernel
example : toMsDenotesNorm exInexact 2 none = some (true, true, true)
    ∧ toMsDenotes exInexact 2 none = some (true, true, false) := by decide +kernel
example : validGraph exInexactBelow = true ∧ MsExpressible exInexactBelow = true
    ∧ ExactProportions exInexactBelow = false
    ∧ toMsDenotesNorm exInexactBelow 2 (some [1, 2, 3]) = some (true, true, true)
    ∧ toMsDenotes exInexactBelow 2 (some [1, 2, 3]) = some (true, true, false) := by decide +kernel
example : validGraph exSingleInexact = true ∧ MsExpressible exSingleInexact = true
    ∧ ExactProportions exSingleInexact = false
    ∧ proportionsOf (normalizeProportions exSingleInexact) = [[], [1]]
    ∧ toMsDenotesNorm exSingleInexact 2 none = some (true, true, true) := by decide +kernel
/-- on graphs with exact proportions the two comparisons coincide -/
example : toMsDenotesNorm ex1 2 none = some (true, true, true)
    ∧ normalizeProportions ex1 = ex1 := ⟨by decide +kernel, normalizeProportions_exact (by decide +kernel)⟩
/-- `normalizeProportions_close` on `exInexact`: the proportion `1/4` of `C` moves by
`(1/4) · 2⁻⁴⁰ / (1 + 2⁻⁴⁰)`, below the bound -/
example : qabs ((274877906944 : Q) / 1099511627777 - 1/4) = 1 / 4398046511108
    ∧ (1 : Q) / 4398046511108 ≤ relTol / (1 - relTol) * (1/4) := by decide +kernel

/-- `≈` is not vacuous: the demography of the command of `ex1` is not that of `exSplit`, and the
command of the sawtooth without its second `-eg` (the defective output) does not denote the
sawtooth -/
example : (match (toMs ex1 2 none).toOption.bind parseCmd with
    | some c => (match msSemG c 2, MsSem.graphSem (inGenerations exSplit) none with
      | .ok sem, .ok gs => some (semMatches 2 sem gs) | _, _ => none)
    | none => none) = some false := by decide +kernel
example : (match (toMs sawtooth 1 none).toOption.bind parseCmd with
    | some c => (match msSemG ⟨c.header, c.events.eraseIdx 3⟩ 1, MsSem.graphSem (inGenerations sawtooth) none with
      | .ok sem, .ok gs => some (popsMatch 1 sem gs) | _, _ => none)
    | none => none) = some false := by decide +kernel

/-- `msSemG` against the string interpreter `MsSem.msSem` on the command of `exSplit`
(`-I 2 0 0 -n 2 100 -en 6.25 1 50 -ej 6.25 2 1`, no symbolic growth rate): same lifetimes, same
lineage movements, and the run-length encoding of the matrix snapshots is the migration list -/
example : (match (toMs exSplit 2 none).toOption.bind parseCmd,
      MsSem.msSem ["-I", "2", "0", "0", "-n", "2", "100.0", "-en", "6.25", "1", "50.0", "-ej", "6.25", "2", "1"] 2 with
    | some c, .ok ref => (match msSemG c 2 with
      | .ok sem => some (sem.pops.map (fun p => (p.id, p.lo, p.hi)) == ref.pops.map (fun p => (p.id, p.lo, p.hi))
          && sem.moves == ref.moves && MsSem.migSegs sem.snaps 2 == ref.migs)
      | _ => none)
    | _, _ => none) = some true := by decide +kernel

end Demes.Theorems
