/-
  C08, stage `build_sizes` — the epoch / growth bookkeeping of `build_graph` computes the size
  function of every ms population.

  Per population: `PopRel d p` says that the Builder deme `d` and the interpreter population `p`
  have the same size at every time (`demeSizeAt d t = popSizeAt p t`, both `none` before the
  population exists) and the same current growth rate.  The relation holds initially, for the
  population an `-es` creates, and is preserved by each of the size / growth updates
  (`updGrowth` ↔ `Pop.change T none (some g)`, `updSize` ↔ `Pop.change T (some x) …`, where
  `-en`/`-eN` reset the growth rate and `-n` does not) although the two sides cut the history
  differently (ms at every option, the Builder only where something changes).
-/
import DemesVerif.Proofs.FromMsStep
import DemesVerif.Spec.C08
import Mathlib.Tactic.FieldSimp
import Mathlib.Tactic.Ring
import Mathlib.Algebra.Order.Field.Rat
namespace Demes.Proofs.FromMs
open Demes Demes.Ms Demes.Spec.MsSem Demes.Spec.C08
open Demes.Proofs.RV (bind_ok pure_ok)

/-! ## symbolic sizes -/

theorem mulExp_zero (s : Sz) : s.mulExp 0 = s := by
  unfold Sz.mulExp
  split
  · rfl
  · cases s; simp

theorem mulExp_mulExp (s : Sz) (a b : Q) : (s.mulExp a).mulExp b = s.mulExp (a + b) := by
  unfold Sz.mulExp
  by_cases h : s.coef = 0
  · simp [h]
  · simp only [h, if_false]
    congr 1
    ring

theorem mulExp_neg_zero (s : Sz) (g : Q) (t : Q) : s.mulExp (-g * (t - t)) = s := by
  have : -g * (t - t) = 0 := by ring
  rw [this, mulExp_zero]

/-! ## the Builder side -/

theorem olderSizeAt_cons (e : BEpoch) (r : List BEpoch) (hi t : Q) :
    olderSizeAt (e :: r) hi t = if e.endTime ≤ t then some (interpSize e hi t) else olderSizeAt r e.endTime t := rfl

/-- `epoch_resolve` does not change the size function or the growth rate; afterwards the head
epoch ends at `time` -/
theorem epochResolve_size {d d' : BDeme} {time : Q} (h : epochResolve d time = .ok d') :
    (∀ t, demeSizeAt d' t = demeSizeAt d t) ∧ curGrowth d' = curGrowth d
    ∧ ∃ e r, d'.epochs = e :: r ∧ e.endTime = time := by
  obtain ⟨e, older, he, _, hle, h | h⟩ := epochResolve_ok h
  · obtain ⟨h1, rfl⟩ := h
    exact ⟨fun _ => rfl, rfl, e, older, he, h1⟩
  · obtain ⟨hlt, rfl⟩ := h
    refine ⟨?_, ?_, _, _, rfl, rfl⟩
    · intro t
      unfold demeSizeAt
      rw [he]
      dsimp only
      by_cases h1 : time ≤ t
      · have h2 : e.endTime ≤ t := by grind
        simp only [h1, h2, if_true]
        rw [mulExp_mulExp]
        congr 2
        ring
      · simp only [h1, if_false]
        rw [olderSizeAt_cons]
        dsimp only
        by_cases h2 : e.endTime ≤ t
        · simp only [h2, if_true]
          congr 1
          unfold interpSize Sz.mulExp
          dsimp only
          by_cases hc : e.endSize.coef = 0
          · simp only [hc, if_true]
            cases hz : e.endSize with
            | mk c x =>
              rw [hz] at hc
              simp only at hc
              subst hc
              simp
          · simp only [hc, if_false]
            congr 1
            have hne : time - e.endTime ≠ 0 := by grind
            field_simp
            ring
        · simp only [h2, if_false]
    · unfold curGrowth
      rw [he]
      rfl

/-- changing size / growth of a head epoch that ends at `T`: from `T` on the new values rule,
before `T` nothing changes -/
theorem modifyHead_size {d : BDeme} {e : BEpoch} {r : List BEpoch} {T : Q} (he : d.epochs = e :: r)
    (hT : e.endTime = T) (f : BEpoch → BEpoch) (hf : (f e).endTime = T) (t : Q) :
    demeSizeAt (modifyHead d f) t
      = if T ≤ t then some ((f e).endSize.mulExp (-((f e).growthRate.getD 0) * (t - T))) else demeSizeAt d t := by
  unfold modifyHead demeSizeAt
  rw [he]
  dsimp only
  rw [hf, hT]
  split <;> rfl

theorem modifyHead_growth {d : BDeme} {e : BEpoch} {r : List BEpoch} (he : d.epochs = e :: r)
    (f : BEpoch → BEpoch) : curGrowth (modifyHead d f) = (f e).growthRate.getD 0 := by
  unfold modifyHead curGrowth
  rw [he]
  rfl

theorem demeSizeAt_head {d : BDeme} {e : BEpoch} {r : List BEpoch} {T : Q} (he : d.epochs = e :: r)
    (hT : e.endTime = T) : demeSizeAt d T = some e.endSize := by
  unfold demeSizeAt
  rw [he]
  dsimp only
  rw [hT]
  simp only [Rat.le_refl, if_true]
  rw [mulExp_neg_zero]

/-! ## the interpreter side -/

/-- the closed segments of a population lie below its open piece -/
def SegsBelow (p : Pop) : Prop := ∀ s ∈ p.segs, s.t1 ≤ ETime.fin p.t0

theorem segsSizeAt_none_of_below {segs : List Seg} {t0 t : Q} (h : ∀ s ∈ segs, s.t1 ≤ ETime.fin t0)
    (ht : t0 ≤ t) : segsSizeAt segs t = none := by
  induction segs with
  | nil => rfl
  | cons s r ih =>
    unfold segsSizeAt
    have hs := h s (List.mem_cons_self ..)
    have : ¬ (ETime.fin t < s.t1) := by
      intro hlt
      cases hs1 : s.t1 with
      | inf => rw [hs1] at hs; exact hs
      | fin b =>
        rw [hs1] at hs hlt
        have h1 : b ≤ t0 := hs
        have h2 : t < b := hlt
        grind
    simp only [this, decide_false, Bool.and_false]
    exact ih (fun s hs => h s (List.mem_cons_of_mem _ hs))

theorem segsSizeAt_append (a b : List Seg) (t : Q) :
    segsSizeAt (a ++ b) t = (segsSizeAt a t).orElse (fun _ => segsSizeAt b t) := by
  induction a with
  | nil => rfl
  | cons s r ih =>
    simp only [List.cons_append, segsSizeAt]
    split
    · rfl
    · exact ih

theorem mkSeg_fields (t0 : Q) (t1 : ETime) (size : Sz) (growth : Q) :
    (mkSeg t0 t1 size growth).t0 = t0 ∧ (mkSeg t0 t1 size growth).t1 = t1
    ∧ (mkSeg t0 t1 size growth).size = size ∧ (mkSeg t0 t1 size growth).growth = some growth :=
  ⟨rfl, rfl, rfl, rfl⟩

/-- `Pop.change`: from `T` on the new size and growth rule, before `T` nothing changes -/
theorem change_size (p : Pop) (T : Q) (ns : Option Sz) (ng : Option Q) (hb : SegsBelow p) (hle : p.t0 ≤ T) :
    (p.change T ns ng).t0 = T ∧ (p.change T ns ng).growth = ng.getD p.growth
    ∧ (p.change T ns ng).size0 = ns.getD (p.sizeAt T)
    ∧ (p.change T ns ng).lo = p.lo ∧ (p.change T ns ng).hi = p.hi ∧ SegsBelow (p.change T ns ng)
    ∧ ∀ t, popSizeAt (p.change T ns ng) t
        = if T ≤ t then some ((ns.getD (p.sizeAt T)).mulExp (-(ng.getD p.growth) * (t - T)))
          else popSizeAt p t := by
  by_cases hlt : p.t0 < T
  · simp only [Pop.change, hlt, if_true]
    refine ⟨trivial, trivial, trivial, trivial, trivial, ?_, ?_⟩
    · intro s hs
      show s.t1 ≤ ETime.fin T
      rcases List.mem_append.mp hs with hs | hs
      · have := hb s hs
        cases hs1 : s.t1 with
        | inf => rw [hs1] at this; exact this
        | fin b =>
          rw [hs1] at this
          have h1 : b ≤ p.t0 := this
          show b ≤ T
          grind
      · simp only [List.mem_singleton] at hs
        rw [hs]
        exact Rat.le_refl
    · intro t
      unfold popSizeAt
      dsimp only
      by_cases h1 : T ≤ t
      · simp only [h1, if_true]
        rfl
      · simp only [h1, if_false]
        rw [segsSizeAt_append]
        by_cases h2 : p.t0 ≤ t
        · simp only [h2, if_true]
          rw [segsSizeAt_none_of_below hb h2]
          have h3 : ETime.fin t < ETime.fin T := by
            show t < T
            grind
          simp only [Option.orElse_none, segsSizeAt, (mkSeg_fields _ _ _ _).1, (mkSeg_fields _ _ _ _).2.1,
            (mkSeg_fields _ _ _ _).2.2.1, (mkSeg_fields _ _ _ _).2.2.2, h2, h3, decide_true, Bool.and_self, if_true]
          rfl
        · simp only [h2, if_false]
          have : segsSizeAt [mkSeg p.t0 (ETime.fin T) p.size0 p.growth] t = none := by
            simp only [segsSizeAt, (mkSeg_fields _ _ _ _).1, h2, decide_false, Bool.false_and]
            rfl
          rw [this]
          cases segsSizeAt p.segs t <;> rfl
  · have he : p.t0 = T := by grind
    have hsz : p.sizeAt T = p.size0 := by
      unfold Pop.sizeAt
      rw [he, mulExp_neg_zero]
    simp only [Pop.change, hlt, if_false, hsz]
    refine ⟨he, trivial, trivial, trivial, trivial, hb, ?_⟩
    intro t
    unfold popSizeAt
    dsimp only
    rw [he]
    by_cases h1 : T ≤ t
    · simp only [h1, if_true]
      rfl
    · simp only [h1, if_false]

/-! ## one population: Builder deme ↔ interpreter population -/

/-- same size at every time (both `none` before the population exists), same current growth,
same end of the lifetime (`start_time` of the deme: `∞` until the population is joined) -/
def PopRel (d : BDeme) (p : Pop) : Prop :=
  (∀ t, demeSizeAt d t = popSizeAt p t) ∧ curGrowth d = p.growth ∧ d.startTime = p.hi

theorem popSizeAt_of_le {p : Pop} {t : Q} (h : p.t0 ≤ t) : popSizeAt p t = some (p.sizeAt t) := by
  unfold popSizeAt; rw [if_pos h]

theorem sizeAt_rebase (p : Pop) (T t : Q) :
    (p.sizeAt T).mulExp (-p.growth * (t - T)) = p.sizeAt t := by
  unfold Pop.sizeAt
  rw [mulExp_mulExp]
  congr 1
  ring

theorem mulExp_neg_zero_mul (s : Sz) (x : Q) : s.mulExp (-0 * x) = s := by
  have : -(0 : Q) * x = 0 := by ring
  rw [this, mulExp_zero]

/-- `-G`, `-eG`, `-g`, `-eg` -/
theorem updGrowth_rel {gr T : Q} {d d' : BDeme} {p : Pop} (h : updGrowth gr T d = .ok d')
    (hr : PopRel d p) (hb : SegsBelow p) (hle : p.t0 ≤ T) : PopRel d' (p.change T none (some gr)) := by
  obtain ⟨c1, c2, c3, _, c5, _, c7⟩ := change_size p T none (some gr) hb hle
  have hst : d'.startTime = (p.change T none (some gr)).hi := by
    rw [c5, ← hr.2.2]; exact (updGrowth_header h).2.1
  unfold updGrowth at h
  split at h
  · obtain ⟨d1, h1, h⟩ := bind_ok.1 h
    rw [pure_ok] at h
    subst h
    obtain ⟨hs1, hg1, e1, r1, he1, hT1⟩ := epochResolve_size h1
    have hval : e1.endSize = p.sizeAt T := by
      have := demeSizeAt_head he1 hT1
      rw [hs1 T, hr.1 T, popSizeAt_of_le hle] at this
      injection this with this
      exact this.symm
    refine ⟨?_, ?_, hst⟩
    · intro t
      rw [modifyHead_size he1 hT1 _ hT1 t, c7 t]
      dsimp only [Option.getD]
      rw [hval]
      split
      · rfl
      · rw [hs1 t, hr.1 t]
    · rw [modifyHead_growth he1, c2]
      rfl
  · rename_i hc
    rw [pure_ok] at h
    subst h
    have hg : curGrowth d = gr := by simpa using hc
    refine ⟨?_, ?_, hst⟩
    · intro t
      rw [c7 t]
      dsimp only [Option.getD]
      split
      · rename_i ht
        rw [hr.1 t, popSizeAt_of_le (by grind), ← hg, hr.2.1, sizeAt_rebase]
      · exact hr.1 t
    · rw [c2]; exact hg

/-- `-eN`, `-en` (`reset = true`: the growth rate becomes 0) and `-n` (`reset = false`: it is kept) -/
theorem updSize_rel {size : Sz} {reset : Bool} {T : Q} {d d' : BDeme} {p : Pop}
    (h : updSize size reset T d = .ok d') (hr : PopRel d p) (hb : SegsBelow p) (hle : p.t0 ≤ T) :
    PopRel d' (p.change T (some size) (if reset then some 0 else none)) := by
  obtain ⟨c1, c2, c3, _, c5, _, c7⟩ := change_size p T (some size) (if reset then some 0 else none) hb hle
  have hst : d'.startTime = (p.change T (some size) (if reset then some 0 else none)).hi := by
    rw [c5, ← hr.2.2]; exact (updSize_header h).2.1
  unfold updSize at h
  split at h
  · obtain ⟨d1, h1, h⟩ := bind_ok.1 h
    rw [pure_ok] at h
    subst h
    obtain ⟨hs1, hg1, e1, r1, he1, hT1⟩ := epochResolve_size h1
    have hg1' : e1.growthRate.getD 0 = p.growth := by
      rw [← hr.2.1, ← hg1]
      unfold curGrowth
      rw [he1]
      rfl
    refine ⟨?_, ?_, hst⟩
    · intro t
      rw [modifyHead_size he1 hT1 _ (by cases reset <;> exact hT1) t, c7 t]
      split
      · cases reset
        · simp only [Bool.false_eq_true, if_false, Option.getD_some, Option.getD_none, hg1']
        · simp only [if_true, Option.getD_some]
      · rw [hs1 t, hr.1 t]
    · rw [modifyHead_growth he1, c2]
      cases reset
      · simp only [Bool.false_eq_true, if_false, Option.getD_none, hg1']
      · simp only [if_true, Option.getD_some]
  · rename_i hc
    rw [pure_ok] at h
    subst h
    have hc' : curGrowth d = 0 ∧ curEndSize d = size := by
      simpa using hc
    have hg0 : p.growth = 0 := by rw [← hr.2.1]; exact hc'.1
    have hng : (if reset then some (0 : Q) else none).getD p.growth = 0 := by
      cases reset
      · simp only [Bool.false_eq_true, if_false, Option.getD_none, hg0]
      · simp only [if_true, Option.getD_some]
    -- the current size of the population is `size`
    have hsz : p.size0 = size := by
      cases he : d.epochs with
      | nil =>
        have := hr.1 T
        rw [popSizeAt_of_le hle] at this
        unfold demeSizeAt at this
        rw [he] at this
        cases this
      | cons e r =>
        have hge : e.growthRate.getD 0 = 0 := by
          have := hc'.1; unfold curGrowth at this; rw [he] at this; exact this
        have hes : e.endSize = size := by
          have := hc'.2; unfold curEndSize at this; rw [he] at this; exact this
        by_cases hm : e.endTime ≤ T
        · have := hr.1 T
          rw [popSizeAt_of_le hle] at this
          unfold demeSizeAt Pop.sizeAt at this
          rw [he] at this
          simp only [hm, if_true, hge, hg0, mulExp_neg_zero_mul] at this
          injection this with this
          rw [← this, hes]
        · have hle2 : p.t0 ≤ e.endTime := by grind
          have := hr.1 e.endTime
          rw [popSizeAt_of_le hle2] at this
          unfold demeSizeAt Pop.sizeAt at this
          rw [he] at this
          simp only [Rat.le_refl, if_true, hge, hg0, mulExp_neg_zero_mul] at this
          injection this with this
          rw [← this, hes]
    refine ⟨?_, ?_, hst⟩
    · intro t
      rw [c7 t, hng]
      dsimp only [Option.getD]
      split
      · rename_i ht
        rw [hr.1 t, popSizeAt_of_le (by grind)]
        unfold Pop.sizeAt
        rw [hg0, mulExp_neg_zero_mul, mulExp_neg_zero_mul, hsz]
      · exact hr.1 t
    · rw [c2, hng]; exact hc'.1

end Demes.Proofs.FromMs
