/-
  Heap abstraction: the four facts about `copy` (= `deepcopy_unaliased`):
  fresh, closed, tree-shaped, and denoting the same document.
-/
import DemesVerif.Proofs.Heap
namespace Demes.Proofs.Heap
open Demes Demes.Heap Demes.Spec.C18

/-- the addresses allocated between two allocation pointers -/
def Rg (lo hi : Nat) (a : Addr) : Prop := lo ≤ a ∧ a < hi

theorem RefIn.mono {P Q : Addr → Prop} (h : ∀ a, P a → Q a) : ∀ r, RefIn P r → RefIn Q r
  | .atom _, _ => trivial
  | .addr a, hr => h a hr

theorem Rg.mono {lo hi lo' hi' : Nat} (h1 : lo' ≤ lo) (h2 : hi ≤ hi') : ∀ a, Rg lo hi a → Rg lo' hi' a :=
  fun _ ⟨ha, hb⟩ => ⟨Nat.le_trans h1 ha, Nat.lt_of_lt_of_le hb h2⟩

/-- the objects allocated since `s` refer only to objects allocated since `s` -/
def NewClosed (s s' : Store) : Prop :=
  ∀ (a : Nat) (c : Cell), s.length ≤ a → s'[a]? = some c → ∀ x ∈ c.refs, RefIn (Rg s.length s'.length) x

theorem rebuild_refs_subset (c : Cell) (rs : List Ref) : ∀ x ∈ (c.rebuild rs).refs, x ∈ rs := by
  cases c with
  | list xs => intro x hx; exact hx
  | dict kvs =>
    intro x hx
    simp only [Cell.rebuild, Cell.refs, List.mem_map] at hx
    obtain ⟨⟨k, y⟩, hky, rfl⟩ := hx
    exact (List.of_mem_zip hky).2

theorem getElem?_append_singleton_some {α} (s : List α) (x c : α) (a : Nat)
    (h : (s ++ [x])[a]? = some c) : (a < s.length ∧ s[a]? = some c) ∨ (a = s.length ∧ c = x) := by
  rcases Nat.lt_trichotomy a s.length with hlt | heq | hgt
  · left; rw [List.getElem?_append_left hlt] at h; exact ⟨hlt, h⟩
  · right; subst heq; simp at h; exact ⟨rfl, h.symm⟩
  · rw [List.getElem?_eq_none (by simp; omega)] at h; cases h

/-- the copy's root is new, and every new object refers to new objects only -/
theorem copy_fresh_closed : ∀ n s r s' r', copy n s r = some (s', r') →
    RefIn (Rg s.length s'.length) r' ∧ NewClosed s s' := by
  refine copy_induct
    (fun _ s _ s' r' => RefIn (Rg s.length s'.length) r' ∧ NewClosed s s')
    (fun _ s _ s' rs' => (∀ x ∈ rs', RefIn (Rg s.length s'.length) x) ∧ NewClosed s s')
    ?_ ?_ ?_ ?_
  · intro n s v
    refine ⟨trivial, ?_⟩
    intro a c ha hc
    rw [List.getElem?_eq_none ha] at hc; cases hc
  · intro n s a c s1 rs1 hc h1 ⟨hrs, hcl⟩
    have hle := copyList_length_le n c.refs s s1 rs1 h1
    refine ⟨show Rg _ _ _ from ⟨hle, by simp⟩, ?_⟩
    intro b c' hb hc' x hx
    rcases getElem?_append_singleton_some s1 _ c' b hc' with ⟨hlt, hb'⟩ | ⟨_, rfl⟩
    · exact RefIn.mono (Rg.mono (Nat.le_refl _) (by simp)) x (hcl b c' hb hb' x hx)
    · exact RefIn.mono (Rg.mono (Nat.le_refl _) (by simp)) x (hrs x (rebuild_refs_subset c rs1 x hx))
  · intro n s
    refine ⟨fun x hx => (by cases hx), ?_⟩
    intro a c ha hc
    rw [List.getElem?_eq_none ha] at hc; cases hc
  · intro n s r rs s1 r' s2 rs' hr hrs ⟨hr', hcl1⟩ ⟨hrs', hcl2⟩
    have h1 := copy_length_le n s r s1 r' hr
    have h2 := copyList_length_le n rs s1 s2 rs' hrs
    obtain ⟨t, ht⟩ := copyList_ext n rs s1 s2 rs' hrs
    refine ⟨?_, ?_⟩
    · intro x hx
      rcases List.mem_cons.mp hx with rfl | hx
      · exact RefIn.mono (Rg.mono (Nat.le_refl _) h2) x hr'
      · exact RefIn.mono (Rg.mono h1 (Nat.le_refl _)) x (hrs' x hx)
    · intro a c ha hc x hx
      rcases Nat.lt_or_ge a s1.length with hlt | hge
      · have : s1[a]? = some c := by
          rw [ht, List.getElem?_append_left hlt] at hc; exact hc
        exact RefIn.mono (Rg.mono (Nat.le_refl _) h2) x (hcl1 a c ha this x hx)
      · exact RefIn.mono (Rg.mono h1 (Nat.le_refl _)) x (hcl2 a c hge hc x hx)

/-! ### the copy is a tree of new objects -/

theorem walk_addr_of (m : Nat) (s : Store) (a : Addr) (c : Cell) (ls : List (List Addr))
    (hc : s[a]? = some c) (h : mapO (walk m s) c.refs = some ls) :
    walk (m + 1) s (.addr a) = some (a :: ls.flatten) :=
  fold_addr_of _ _ m s a c ls hc h

theorem walk_addr_some (n : Nat) (s : Store) (a : Addr) (l : List Addr)
    (h : walk n s (.addr a) = some l) :
    ∃ m c ls, n = m + 1 ∧ s[a]? = some c ∧ mapO (walk m s) c.refs = some ls ∧ l = a :: ls.flatten :=
  fold_addr_some _ _ n s a l h

theorem unfold_addr_of (m : Nat) (s : Store) (a : Addr) (c : Cell) (vs : List Value)
    (hc : s[a]? = some c) (h : mapO (unfold m s) c.refs = some vs) :
    unfold (m + 1) s (.addr a) = some (c.value vs) :=
  fold_addr_of _ _ m s a c vs hc h

theorem unfold_addr_some (n : Nat) (s : Store) (a : Addr) (v : Value)
    (h : unfold n s (.addr a) = some v) :
    ∃ m c vs, n = m + 1 ∧ s[a]? = some c ∧ mapO (unfold m s) c.refs = some vs ∧ v = c.value vs :=
  fold_addr_some _ _ n s a v h

theorem unfold_atom (n : Nat) (s : Store) (v : Value) : unfold n s (.atom v) = some v := by
  cases n <;> rfl

theorem walk_atom (n : Nat) (s : Store) (v : Value) : walk n s (.atom v) = some [] := by
  cases n <;> rfl

theorem walk_ext (s t : Store) : ∀ n r l, walk n s r = some l → walk n (s ++ t) r = some l :=
  fold_ext _ _ s t

theorem unfold_ext (s t : Store) : ∀ n r v, unfold n s r = some v → unfold n (s ++ t) r = some v :=
  fold_ext _ _ s t

/-- every new object occurs exactly once under the copy's root: the walk of the copy has no
repetition and stays within the new addresses -/
theorem copy_walk : ∀ n s r s' r', copy n s r = some (s', r') →
    ∃ l, walk n s' r' = some l ∧ l.Nodup ∧ ∀ b ∈ l, Rg s.length s'.length b := by
  refine copy_induct
    (fun n s _ s' r' => ∃ l, walk n s' r' = some l ∧ l.Nodup ∧ ∀ b ∈ l, Rg s.length s'.length b)
    (fun n s _ s' rs' => ∃ ls, mapO (walk n s') rs' = some ls ∧ ls.flatten.Nodup ∧
      ∀ b ∈ ls.flatten, Rg s.length s'.length b)
    ?_ ?_ ?_ ?_
  · intro n s v
    exact ⟨[], walk_atom n s v, List.nodup_nil, fun b hb => by cases hb⟩
  · intro n s a c s1 rs1 hc h1 ⟨ls, hls, hnd, hrg⟩
    have hle := copyList_length_le n c.refs s s1 rs1 h1
    have hlen := copyList_length n c.refs s s1 rs1 h1
    refine ⟨s1.length :: ls.flatten, ?_, ?_, ?_⟩
    · refine walk_addr_of n _ s1.length (c.rebuild rs1) ls (by simp) ?_
      rw [rebuild_refs c rs1 hlen]
      exact mapO_mono _ _ rs1 ls (fun x _ y hy => walk_ext s1 _ n x y hy) hls
    · refine List.nodup_cons.mpr ⟨fun hmem => ?_, hnd⟩
      exact Nat.lt_irrefl _ (hrg _ hmem).2
    · intro b hb
      rcases List.mem_cons.mp hb with rfl | hb
      · exact ⟨hle, by simp⟩
      · exact Rg.mono (Nat.le_refl _) (by simp) b (hrg b hb)
  · intro n s
    exact ⟨[], rfl, by simp, fun b hb => by simp at hb⟩
  · intro n s r rs s1 r' s2 rs' hr hrs ⟨l, hl, hnd, hrg⟩ ⟨ls, hls, hnds, hrgs⟩
    have h1 := copy_length_le n s r s1 r' hr
    have h2 := copyList_length_le n rs s1 s2 rs' hrs
    obtain ⟨t, ht⟩ := copyList_ext n rs s1 s2 rs' hrs
    refine ⟨l :: ls, ?_, ?_, ?_⟩
    · exact mapO_cons_of _ r' rs' l ls (by rw [ht]; exact walk_ext s1 t n r' l hl) hls
    · rw [List.flatten_cons]
      refine List.nodup_append.mpr ⟨hnd, hnds, ?_⟩
      intro a ha b hb hab
      subst hab
      exact Nat.lt_irrefl _ (Nat.lt_of_lt_of_le (hrg a ha).2 (hrgs a hb).1)
    · intro b hb
      rw [List.flatten_cons] at hb
      rcases List.mem_append.mp hb with hb | hb
      · exact Rg.mono (Nat.le_refl _) h2 b (hrg b hb)
      · exact Rg.mono h1 (Nat.le_refl _) b (hrgs b hb)

/-! ### the copy denotes the same document -/

theorem copy_unfold : ∀ n s r s' r', copy n s r = some (s', r') →
    ∀ v, unfold n s r = some v → unfold n s' r' = some v := by
  refine copy_induct
    (fun n s r s' r' => ∀ v, unfold n s r = some v → unfold n s' r' = some v)
    (fun n s rs s' rs' => ∀ vs, mapO (unfold n s) rs = some vs → mapO (unfold n s') rs' = some vs)
    ?_ ?_ ?_ ?_
  · intro n s v w h; exact h
  · intro n s a c s1 rs1 hc h1 ih v hv
    have hlen := copyList_length n c.refs s s1 rs1 h1
    obtain ⟨m, c', vs, hm, hc', hvs, rfl⟩ := unfold_addr_some (n + 1) s a v hv
    cases hm
    rw [hc] at hc'; cases hc'
    have := unfold_addr_of n (s1 ++ [c.rebuild rs1]) s1.length (c.rebuild rs1) vs (by simp)
      (by rw [rebuild_refs c rs1 hlen]
          exact mapO_mono _ _ rs1 vs (fun x _ y hy => unfold_ext s1 _ n x y hy) (ih vs hvs))
    rw [this, rebuild_value c rs1 vs hlen]
  · intro n s vs h; exact h
  · intro n s r rs s1 r' s2 rs' hr hrs ihr ihrs vs hvs
    obtain ⟨t1, ht1⟩ := copy_ext n s r s1 r' hr
    obtain ⟨t2, ht2⟩ := copyList_ext n rs s1 s2 rs' hrs
    obtain ⟨v, vs', rfl, hv, hvs'⟩ := mapO_cons_some _ r rs vs hvs
    refine mapO_cons_of _ r' rs' v vs' ?_ ?_
    · rw [ht2]; exact unfold_ext s1 t2 n r' v (ihr v hv)
    · refine ihrs vs' ?_
      rw [ht1]
      exact mapO_mono _ _ rs vs' (fun x _ y hy => unfold_ext s t1 n x y hy) hvs'

/-- the copy succeeds on every document that can be unfolded with the same fuel -/
theorem copy_total : ∀ n s r v, unfold n s r = some v → ∃ s' r', copy n s r = some (s', r') := by
  intro n
  induction n with
  | zero =>
    intro s r v h
    cases r with
    | atom w => exact ⟨s, .atom w, rfl⟩
    | addr a => obtain ⟨m, _, _, hm, _⟩ := unfold_addr_some 0 s a v h; cases hm
  | succ n ih =>
    intro s r v h
    cases r with
    | atom w => exact ⟨s, .atom w, rfl⟩
    | addr a =>
      obtain ⟨m, c, vs, hm, hc, hvs, rfl⟩ := unfold_addr_some (n + 1) s a v h
      cases hm
      have key : ∀ (rs : List Ref) (s : Store) (vs : List Value), mapO (unfold n s) rs = some vs →
          ∃ s' rs', mapRefsM (copy n) s rs = some (s', rs') := by
        intro rs
        induction rs with
        | nil => intro s vs _; exact ⟨s, [], rfl⟩
        | cons r rs ihrs =>
          intro s vs hvs
          obtain ⟨v, vs', rfl, hv, hvs'⟩ := mapO_cons_some _ r rs vs hvs
          obtain ⟨s1, r', hr⟩ := ih s r v hv
          obtain ⟨t1, ht1⟩ := copy_ext n s r s1 r' hr
          obtain ⟨s2, rs', hrs⟩ := ihrs s1 vs' (by
            rw [ht1]; exact mapO_mono _ _ rs vs' (fun x _ y hy => unfold_ext s t1 n x y hy) hvs')
          exact ⟨s2, r' :: rs', by simp only [mapRefsM, hr, hrs]⟩
      obtain ⟨s1, rs1, h1⟩ := key c.refs s vs hvs
      exact ⟨s1 ++ [c.rebuild rs1], .addr s1.length, by simp only [copy, hc, h1]⟩

end Demes.Proofs.Heap
