/-
  Control-flow model of the I/O entry points of `demes/load_dump.py` (C17).

  What is modelled: which files the library opens and closes, and in which order relative to
  the processing stages, for every entry point, every kind of `filename` argument and every
  point at which an exception can be raised.  What is *not* modelled: the data (documents are
  numbered 0 … n-1 and a *fault plan* says at which stage of which document an exception is
  raised, if any).

  Python constructs and their counterparts here:

  * `with cm as f: body`            ↦ `withPolymorph` / `withStringIO` (= enter; `tryFin body exit`)
  * `try: … finally: …`             ↦ `tryFin`
  * an exception                    ↦ `Except.error` in the monad `M`, the state is kept
  * a generator (`load_all`)        ↦ the explicit machine `Gen` with `genNext` / `genClose`
  * `f is not polymorph`            ↦ `o.asRef ≠ some f`

  CPython's semantics of `with`, `finally`, `contextlib.contextmanager` and of generator
  `close()` / finalisation are trusted (DESIGN §6).
-/
namespace Demes.Handles

/-! ### requests -/

/-- the `format=` argument -/
inductive Format | json | yaml | unknown
deriving DecidableEq, Repr, Inhabited

/-- what the caller passes as `filename` -/
inductive Target
  | path      -- a `str` path
  | pathlike  -- an `os.PathLike` (`pathlib.Path`)
  | stream    -- an open text stream owned by the caller (a file object, `io.StringIO`)
  | invalid   -- neither a path nor a stream (`None`, `3.5`, `object()`): `open` raises TypeError
deriving DecidableEq, Repr, Inhabited

/-- the points at which an exception can be raised -/
inductive Stage
  | open         -- `open(path)` (OSError) / `io.StringIO(...)` in `loads*`, `dumps`
  | parse        -- `json.load`, `_load_yaml_asdict`, the next document of `yaml.load_all`
  | null         -- `_no_null_values`
  | unstringify  -- `_unstringify_infinities`
  | resolve      -- `demes.Graph.fromdict`
  | simplify     -- `graph.asdict_simplified()` / `graph.asdict()`
  | serialise    -- `_stringify_infinities` + `json.dump`, `_dump_yaml_fromdict`
deriving DecidableEq, Repr, Inhabited

/-- "stage `stage` raises when it processes document number `doc`" (single-document entry
points only have document 0; `open` happens once, as document 0) -/
structure Fault where
  stage : Stage
  doc : Nat
deriving DecidableEq, Repr, Inhabited

/-- fault plan: at most one failure -/
abbrev Plan := Option Fault

def Plan.hits (p : Plan) (s : Stage) (k : Nat) : Bool := p == some ⟨s, k⟩

/-! ### exceptions, events, state -/

inductive Exn
  | at (s : Stage) (k : Nat)   -- raised by (or inside) stage `s` while processing document `k`
  | unknownFormat              -- `ValueError(f"unknown format: {format}")`
deriving DecidableEq, Repr, Inhabited

/-- a file object as seen by the library code (`f` in `_open_file_polymorph`) -/
inductive FileRef
  | handle (i : Nat)   -- the i-th handle created by the library (file or StringIO)
  | callerStream       -- the caller's stream
  | other              -- the caller's non-path non-stream object
deriving DecidableEq, Repr, Inhabited

/-- a Python object passed as `polymorph` -/
inductive Obj
  | str | pathlike
  | callerStream
  | libStream (i : Nat)  -- the StringIO that `loads_asdict` / `dumps` created (handle i)
  | other
deriving DecidableEq, Repr, Inhabited

def Target.toObj : Target → Obj
  | .path => .str | .pathlike => .pathlike | .stream => .callerStream | .invalid => .other

/-- the object as a file reference, if it is not a path (for the identity test) -/
def Obj.asRef : Obj → Option FileRef
  | .str | .pathlike => none
  | .callerStream => some .callerStream
  | .libStream i => some (.handle i)
  | .other => some .other

def Obj.isPath : Obj → Bool
  | .str | .pathlike => true
  | _ => false

inductive Event
  | callOpen                     -- the library called `open(polymorph, mode, encoding="utf-8")`
  | newStringIO                  -- the library called `io.StringIO(...)`
  | opened (h : Nat)             -- … and got handle number h
  | closed (h : Nat)             -- the library closed its handle h
  | callerClosed                 -- the library closed the caller's stream
  | stage (s : Stage) (k : Nat)  -- stage s was entered for document k
  | yielded (k : Nat)            -- `load_all` yielded document k
  | stop                         -- `next` on the iterator raised StopIteration
  | raised (e : Exn)             -- the call / `next` raised
  | returned                     -- the call returned
  | genClose                     -- the consumer called `.close()` on the iterator
  | collect                      -- the consumer dropped the iterator (`del` + `gc.collect()`)
deriving DecidableEq, Repr, Inhabited

structure State where
  /-- the handles the library created, in order of creation; `true` = still open -/
  handles : List Bool := []
  /-- has the caller's stream been closed? -/
  callerClosed : Bool := false
  /-- chronological log -/
  trace : List Event := []
deriving DecidableEq, Repr, Inhabited

def State.init : State := {}

/-! ### exceptions + state -/

/-- a computation that may raise; the state survives the exception -/
def M (α : Type) := State → Except Exn α × State

def M.pure {α} (a : α) : M α := fun s => (.ok a, s)

def M.bind {α β} (m : M α) (f : α → M β) : M β := fun s =>
  match m s with
  | (.ok a, s') => f a s'
  | (.error e, s') => (.error e, s')

instance : Monad M where
  pure := M.pure
  bind := M.bind

def raise {α} (e : Exn) : M α := fun s => (.error e, s)

def State.log (s : State) (e : Event) : State := { s with trace := s.trace ++ [e] }

def emit (e : Event) : M Unit := fun s => (.ok (), s.log e)

/-- `try: body finally: fin` (the `finally` clauses of this module do not raise) -/
def tryFin {α} (body : M α) (fin : State → State) : M α := fun s =>
  match body s with
  | (r, s') => (r, fin s')

/-- `f.close()` -/
def closeRef : FileRef → State → State
  | .handle i, s => { s with handles := s.handles.set i false, trace := s.trace ++ [.closed i] }
  | .callerStream, s => { s with callerClosed := true, trace := s.trace ++ [.callerClosed] }
  | .other, s => s

/-- a new open handle owned by the library -/
def newHandle : M Nat := fun s =>
  (.ok s.handles.length,
   { s with handles := s.handles ++ [true], trace := s.trace ++ [.opened s.handles.length] })

/-- a stage that does not touch the file: entered, then raises if the plan says so -/
def stage (p : Plan) (st : Stage) (k : Nat) : M Unit := do
  emit (.stage st k)
  if p.hits st k then raise (.at st k)

/-- a stage that reads from / writes to `f`: raises also if `f` is not a stream at all
(`AttributeError: … has no attribute 'read'`, `YAMLStreamError`, …) -/
def fileStage (p : Plan) (f : FileRef) (st : Stage) (k : Nat) : M Unit := do
  emit (.stage st k)
  if p.hits st k || f == .other then raise (.at st k)

/-! ### `_open_file_polymorph`

```python
@contextlib.contextmanager
def _open_file_polymorph(polymorph, mode="r"):
    try:
        f = open(polymorph, mode, encoding="utf-8")
    except TypeError:
        f = polymorph
    try:
        yield f
    finally:
        if f is not polymorph:
            f.close()
``` -/

/-- the part before the `yield` -/
def openPolymorph (p : Plan) (o : Obj) : M FileRef := do
  emit .callOpen
  match o with
  | .str | .pathlike =>
    -- a path: `open` opens it or raises OSError, which is not caught
    if p.hits .open 0 then raise (.at .open 0)
    else do
      let i ← newHandle
      pure (.handle i)
  -- not a path: `open` raises TypeError, `f = polymorph`
  | .callerStream => pure .callerStream
  | .libStream i => pure (.handle i)
  | .other => pure .other

/-- the `finally` clause -/
def exitPolymorph (o : Obj) (f : FileRef) (s : State) : State :=
  if o.asRef ≠ some f then closeRef f s else s

/-- `with _open_file_polymorph(o, mode) as f: body f` -/
def withPolymorph {α} (p : Plan) (o : Obj) (body : FileRef → M α) : M α := do
  let f ← openPolymorph p o
  tryFin (body f) (exitPolymorph o f)

/-- `with io.StringIO(...) as stream: body stream` (`StringIO.__exit__` closes it) -/
def withStringIO {α} (p : Plan) (body : Obj → M α) : M α := do
  emit .newStringIO
  if p.hits .open 0 then raise (.at .open 0)
  else do
    let i ← newHandle
    tryFin (body (.libStream i)) (closeRef (.handle i))

/-! ### single-call entry points -/

/-- the `if format == "json": … elif format == "yaml": … else: raise` statement of `load_asdict` -/
def readData (p : Plan) (fmt : Format) (o : Obj) : M Unit :=
  match fmt with
  | .json => withPolymorph p o (fun f => fileStage p f .parse 0)   -- data = json.load(f)
  | .yaml => withPolymorph p o (fun f => fileStage p f .parse 0)   -- data = _load_yaml_asdict(f)
  | .unknown => raise .unknownFormat

/-- `load_asdict(filename, format=fmt)`: the file is closed before the checks run -/
def loadAsdict (p : Plan) (fmt : Format) (o : Obj) : M Unit := do
  readData p fmt o
  stage p .null 0         -- _no_null_values(data)
  stage p .unstringify 0  -- _unstringify_infinities(data)

/-- `loads_asdict(string, format=fmt)` -/
def loadsAsdict (p : Plan) (fmt : Format) : M Unit :=
  withStringIO p (fun stream => loadAsdict p fmt stream)

/-- `load(filename, format=fmt)` -/
def load (p : Plan) (fmt : Format) (o : Obj) : M Unit := do
  loadAsdict p fmt o
  stage p .resolve 0      -- demes.Graph.fromdict(data)

/-- `loads(string, format=fmt)` -/
def loads (p : Plan) (fmt : Format) : M Unit := do
  loadsAsdict p fmt
  stage p .resolve 0

/-- the `if format == "json": … elif format == "yaml": … else: raise` statement of `dump` -/
def writeData (p : Plan) (fmt : Format) (o : Obj) : M Unit :=
  match fmt with
  | .json => withPolymorph p o (fun f => fileStage p f .serialise 0)  -- _stringify_infinities; json.dump
  | .yaml => withPolymorph p o (fun f => fileStage p f .serialise 0)  -- _dump_yaml_fromdict(data, f)
  | .unknown => raise .unknownFormat

/-- `dump(graph, filename, format=fmt, simplified=…)`: the dictionary is built *before* the
file is opened -/
def dump (p : Plan) (fmt : Format) (o : Obj) : M Unit := do
  stage p .simplify 0     -- graph.asdict_simplified() / graph.asdict()
  writeData p fmt o

/-- `dumps(graph, format=fmt, simplified=…)` -/
def dumps (p : Plan) (fmt : Format) : M Unit :=
  withStringIO p (fun stream => dump p fmt stream)   -- then `stream.getvalue()`

/-- the `for graph in graphs:` loop of `dump_all`, at graph number `i` with `r` graphs left -/
def dumpAllLoop (p : Plan) (f : FileRef) : Nat → Nat → M Unit
  | _, 0 => pure ()
  | i, r + 1 => do
    stage p .simplify i          -- graph.asdict_simplified() / graph.asdict(), inside the `with`
    fileStage p f .serialise i   -- _dump_yaml_fromdict(data, f, multidoc=True)
    dumpAllLoop p f (i + 1) r

/-- `dump_all(graphs, filename, simplified=…)` over `n` graphs: everything inside the `with` -/
def dumpAll (p : Plan) (n : Nat) (o : Obj) : M Unit :=
  withPolymorph p o (fun f => dumpAllLoop p f 0 n)

/-! ### `load_all`: a generator

```python
def load_all(filename):
    with _open_file_polymorph(filename) as f:
        with ruamel.yaml.YAML(typ="safe") as yaml:
            for data in yaml.load_all(f):
                _no_null_values(data)
                _unstringify_infinities(data)
                yield demes.Graph.fromdict(data)
```
Nothing runs before the first `next`.  The generator is suspended at the `yield` with the
file open; it leaves the `with` when the stream ends, when a stage raises, or when `close()`
throws GeneratorExit into the `yield`. -/

structure Cfg where
  plan : Plan
  obj : Obj
  /-- number of documents in the stream -/
  n : Nat
deriving DecidableEq, Repr, Inhabited

/-- why a generator is finished -/
inductive Done | exhausted | failed (e : Exn) | closed
deriving DecidableEq, Repr, Inhabited

inductive Gen
  | notStarted
  /-- suspended at the `yield`, inside both `with` blocks, about to ask for document `i` -/
  | suspended (f : FileRef) (i : Nat)
  | done (d : Done)
deriving DecidableEq, Repr, Inhabited

/-- one turn of the `for` loop from "ask the parser for document i" to the `yield`
(`true`) or to the end of the stream (`false`) -/
def genTurn (c : Cfg) (f : FileRef) (i : Nat) : M Bool := do
  fileStage c.plan f .parse i     -- next(yaml.load_all(f)): parse error, or bad stream object
  if i < c.n then do
    stage c.plan .null i
    stage c.plan .unstringify i
    stage c.plan .resolve i
    pure true
  else pure false                 -- StopIteration from the parser: the `for` loop ends

/-- run the generator body from document `i` up to the next suspension or exit; every exit
passes through the `finally` of `_open_file_polymorph` -/
def genResume (c : Cfg) (f : FileRef) (i : Nat) (s : State) : Gen × State :=
  match genTurn c f i s with
  | (.ok true, s') => (.suspended f (i + 1), s'.log (.yielded i))
  | (.ok false, s') => (.done .exhausted, (exitPolymorph c.obj f s').log .stop)
  | (.error e, s') => (.done (.failed e), (exitPolymorph c.obj f s').log (.raised e))

/-- `next(it)` -/
def genNext (c : Cfg) : Gen → State → Gen × State
  | .notStarted, s =>
    match openPolymorph c.plan c.obj s with
    | (.error e, s') => (.done (.failed e), s'.log (.raised e))  -- `__enter__` raised
    | (.ok f, s') => genResume c f 0 s'
  | .suspended f i, s => genResume c f i s
  | .done d, s => (.done d, s.log .stop)   -- a finished generator: StopIteration

/-- `it.close()` -/
def genClose (c : Cfg) : Gen → State → Gen × State
  | .notStarted, s => (.done .closed, s)
  | .suspended f _, s => (.done .closed, exitPolymorph c.obj f s)  -- GeneratorExit at the `yield`
  | .done d, s => (.done d, s)

def Gen.isSuspended : Gen → Bool
  | .suspended _ _ => true
  | _ => false

def Gen.isDone : Gen → Bool
  | .done _ => true
  | _ => false

/-- `for _ in it: pass` with at most `fuel` calls of `next` -/
def genExhaust (c : Cfg) : Nat → Gen → State → Gen × State
  | 0, g, s => (g, s)
  | fuel + 1, g, s =>
    match genNext c g s with
    | (.suspended f i, s') => genExhaust c fuel (.suspended f i) s'
    | r => r

/-- what the consumer of the iterator does -/
inductive Step
  | next      -- `next(it)`, whatever it answers
  | exhaust   -- `for _ in it: pass`
  | close     -- `it.close()`
  | collect   -- drop the last reference: CPython finalises a generator by calling `close()`
deriving DecidableEq, Repr, Inhabited

def genStep (c : Cfg) : Step → Gen → State → Gen × State
  | .next, g, s => genNext c g s
  | .exhaust, g, s => genExhaust c (c.n + 2) g s
  | .close, g, s => genClose c g (s.log .genClose)
  | .collect, g, s => genClose c g (s.log .collect)

def runScript (c : Cfg) : List Step → Gen → State → Gen × State
  | [], g, s => (g, s)
  | st :: rest, g, s =>
    match genStep c st g s with
    | (g', s') => runScript c rest g' s'

/-- the consumer shapes of the property text: `nexts` calls of `next`, then … -/
inductive Ending | exhaust | close | abandon
deriving DecidableEq, Repr, Inhabited

def consumer (nexts : Nat) : Ending → List Step
  | .exhaust => List.replicate nexts .next ++ [.exhaust]
  | .close => List.replicate nexts .next ++ [.close]
  | .abandon => List.replicate nexts .next

/-! ### the whole call -/

inductive Entry
  | loadAsdict (fmt : Format)
  | loadsAsdict (fmt : Format)
  | load (fmt : Format)
  | loads (fmt : Format)
  | loadAll
  | dump (fmt : Format)
  | dumps (fmt : Format)
  | dumpAll
deriving DecidableEq, Repr, Inhabited

structure Request where
  entry : Entry
  /-- ignored by `loads*` / `dumps` (they take / return a string) -/
  target : Target
  plan : Plan
  /-- number of documents (`load_all`) / graphs (`dump_all`) -/
  n : Nat := 1
  /-- what the consumer does with the iterator (`load_all`) -/
  script : List Step := []
deriving DecidableEq, Repr, Inhabited

inductive Outcome
  | returned
  | raised (e : Exn)
  | iterator (g : Gen)   -- `load_all`: the state of the iterator after the consumer's script
deriving DecidableEq, Repr, Inhabited

structure Result where
  outcome : Outcome
  state : State
deriving DecidableEq, Repr, Inhabited

/-- a single call, from the initial state -/
def finish (m : M Unit) : Result :=
  match m State.init with
  | (.ok (), s) => ⟨.returned, s.log .returned⟩
  | (.error e, s) => ⟨.raised e, s.log (.raised e)⟩

def run (r : Request) : Result :=
  match r.entry with
  | .loadAsdict fmt => finish (loadAsdict r.plan fmt r.target.toObj)
  | .loadsAsdict fmt => finish (loadsAsdict r.plan fmt)
  | .load fmt => finish (load r.plan fmt r.target.toObj)
  | .loads fmt => finish (loads r.plan fmt)
  | .dump fmt => finish (dump r.plan fmt r.target.toObj)
  | .dumps fmt => finish (dumps r.plan fmt)
  | .dumpAll => finish (dumpAll r.plan r.n r.target.toObj)
  | .loadAll =>
    match runScript ⟨r.plan, r.target.toObj, r.n⟩ r.script .notStarted State.init with
    | (g, s) => ⟨.iterator g, s⟩

end Demes.Handles
