/-
  C09 §8 — the bridge between the two ms interpreters with growth options (`-g` / `-eg`): the string
  interpreter (`MsSem.step`, `stepGroup`) simulates the typed interpreter (`stepSt`, `stepGroupG`)
  option by option, through the embedding `embedStV gv N0`, a symbolic growth rate `G` (ms units) read
  as the rational `gv G` (per generation: `gv G / (4 * N0)`).  (`Proofs/MsRTRun.lean` with `-g` / `-eg`.)

  `-en`, `-es` and the initial state reset the growth rate to the symbol `Growth.zero` on the typed side
  and to the rational `0` on the string side: hence the hypothesis `hz : gv Growth.zero = 0`.
-/
import DemesVerif.Proofs.MsGrowGroups
import DemesVerif.Proofs.MsRTRun
namespace Demes.Proofs.MsGrow
open Demes Demes.Ms Demes.Spec Demes.Spec.C07 Demes.Spec.C09
open Demes.Spec.MsSem (Cmd Parsed Pop St Row Mat matGet matSet canonRows Move DemogSem PopSem mkSeg)
open Demes.Spec.C08 (cmdGroups initSt runState finishSem finalSegs)
open Demes.Proofs.ToMs (idx updPop stepP AliveIn OkEv stepSt_ok set_eq_modify runP)
open Demes.Proofs.MsRT (change_hi change_lo idx_toNat pop_inv aliveIn_get toNat_ne updPop_eq_set zipIdx_map)

/-! ### the embedding of states -/

/-- a population of the typed interpreter as a population of the string interpreter, growth rates read
by `gv` -/
def embedPopGV (gv : Growth → Q) (N0 : Q) (p : PopG) : Pop := closePop (evalUpdsV gv N0 p.lo p.upd) p.hi

def embedStV (gv : Growth → Q) (N0 : Q) (s : StG) : St :=
  { pops := s.pops.map (embedPopGV gv N0), mat := s.mat, snaps := s.snaps, moves := s.moves }

theorem evalUpdsV_hi (gv : Growth → Q) (N0 lo : Q) : ∀ (upd : List Upd), (evalUpdsV gv N0 lo upd).hi = .inf := by
  intro upd
  unfold evalUpdsV
  generalize hq : ({ lo := lo, t0 := lo, size0 := Sz.ofQ 0 } : Pop) = q0
  have h0 : q0.hi = .inf := by rw [← hq]
  clear hq
  induction upd generalizing q0 with
  | nil => exact h0
  | cons u r ih => rw [List.foldl_cons]; exact ih _ (by rw [change_hi]; exact h0)

theorem evalUpdsV_lo (gv : Growth → Q) (N0 lo : Q) : ∀ (upd : List Upd), (evalUpdsV gv N0 lo upd).lo = lo := by
  intro upd
  unfold evalUpdsV
  generalize hq : ({ lo := lo, t0 := lo, size0 := Sz.ofQ 0 } : Pop) = q0
  have h0 : q0.lo = lo := by rw [← hq]
  clear hq
  induction upd generalizing q0 with
  | nil => exact h0
  | cons u r ih => rw [List.foldl_cons]; exact ih _ (by rw [change_lo]; exact h0)

theorem evalUpdsV_snoc (gv : Growth → Q) (N0 lo : Q) (upd : List Upd) (u : Upd) :
    evalUpdsV gv N0 lo (upd ++ [u])
      = (evalUpdsV gv N0 lo upd).change u.t (u.size.map Sz.ofQ) (u.growth.map (fun G => gv G / (4 * N0))) := by
  unfold evalUpdsV; rw [List.foldl_append]; rfl

theorem embedPopGV_hi (gv : Growth → Q) (N0 : Q) (p : PopG) : (embedPopGV gv N0 p).hi = p.hi := by
  unfold embedPopGV
  cases h : p.hi with
  | inf => exact evalUpdsV_hi _ _ _ _
  | fin T => rfl

theorem embedPopGV_lo (gv : Growth → Q) (N0 : Q) (p : PopG) : (embedPopGV gv N0 p).lo = p.lo := by
  unfold embedPopGV
  cases h : p.hi with
  | inf => exact evalUpdsV_lo _ _ _ _
  | fin T => exact evalUpdsV_lo _ _ _ _

theorem alive_embedV (gv : Growth → Q) (N0 : Q) (p : PopG) :
    Demes.Spec.MsSem.alive (embedPopGV gv N0 p) = aliveG p := by
  unfold Demes.Spec.MsSem.alive aliveG; rw [embedPopGV_hi]

theorem embedPopGV_alive {gv : Growth → Q} {N0 : Q} {p : PopG} (h : p.hi = .inf) :
    embedPopGV gv N0 p = evalUpdsV gv N0 p.lo p.upd := by
  unfold embedPopGV; rw [h]; rfl

/-- a population as the initial state and `-es` create it -/
theorem embedPopGV_new {gv : Growth → Q} (hz : gv Growth.zero = 0) (T N0 : Q) :
    embedPopGV gv N0 { lo := T, upd := [⟨T, some N0, some .zero⟩] } = { lo := T, t0 := T, size0 := Sz.ofQ N0 } := by
  have : ¬ T < T := Rat.lt_irrefl
  simp [embedPopGV, closePop, evalUpdsV, Pop.change, hz]

/-! ### addressing a population -/

theorem pop_embedV {gv : Growth → Q} {N0 : Q} {s : StG} {i : Int} {p : PopG} (h1 : 1 ≤ i)
    (hp : s.pops[idx i]? = some p) (hh : p.hi = .inf) :
    (embedStV gv N0 s).pop i.toNat = .ok (embedPopGV gv N0 p) := by
  unfold St.pop embedStV
  simp only [idx_toNat h1, List.getElem?_map, hp, Option.map_some]
  have h2 : i.toNat ≥ 1 := by omega
  have h3 : Demes.Spec.MsSem.alive (embedPopGV gv N0 p) = true := by rw [alive_embedV]; simp [aliveG, hh]
  simp [h2, h3, pure, Except.pure]

theorem setPop_embedV (gv : Growth → Q) (N0 : Q) (s : StG) (i : Int) (h1 : 1 ≤ i) (p' : PopG) :
    embedStV gv N0 { s with pops := s.pops.set (idx i) p' }
      = (embedStV gv N0 s).setPop i.toNat (embedPopGV gv N0 p') := by
  unfold embedStV St.setPop
  simp only [idx_toNat h1, List.map_set]

/-! ### one option -/

theorem map_growthV {gv : Growth → Q} (hz : gv Growth.zero = 0) (N0 : Q) (c : Bool) :
    (if c then some Growth.zero else none).map (fun G => gv G / (4 * N0)) = if c then some (0 : Q) else none := by
  cases c
  · rfl
  · simp [hz]

theorem embedStV_len (gv : Growth → Q) (N0 : Q) (s : StG) : (embedStV gv N0 s).pops.length = s.pops.length := by
  simp [embedStV]

theorem embed_updV {gv : Growth → Q} {N0 : Q} {p : PopG} (hh : p.hi = .inf) (u : Upd) :
    embedPopGV gv N0 { p with upd := p.upd ++ [u] }
      = (embedPopGV gv N0 p).change u.t (u.size.map Sz.ofQ) (u.growth.map (fun G => gv G / (4 * N0))) := by
  have h1 : embedPopGV gv N0 { p with upd := p.upd ++ [u] } = evalUpdsV gv N0 p.lo (p.upd ++ [u]) := by
    unfold embedPopGV; simp only [hh]; rfl
  rw [h1, embedPopGV_alive hh, evalUpdsV_snoc]

theorem embed_joinV {gv : Growth → Q} {N0 : Q} {p : PopG} (hh : p.hi = .inf) (T : Q) :
    embedPopGV gv N0 { p with hi := .fin T } = closePop (embedPopGV gv N0 p) (.fin T) := by
  rw [embedPopGV_alive hh]; rfl

/-- the string interpreter performs the step of the typed interpreter; the lineage-movement matrix
is updated as `stepRow` does, and the running population count is the number of populations -/
theorem step_embedV {gv : Growth → Q} (hz : gv Growth.zero = 0) {N0 : Q} {s : StG} {e : Event Growth}
    (he : EvG e) (hok : OkEv s e) (L : List (Nat × Row)) :
    Demes.Spec.MsSem.step N0 (embedStV gv N0 s, L) (cmdOfV gv e)
      = .ok (embedStV gv N0 (stepP N0 s e), (stepRow (s.pops.length, L) e).2)
    ∧ (stepRow (s.pops.length, L) e).1 = (stepP N0 s e).pops.length := by
  cases e with
  | popSizeChange o t i x =>
    obtain ⟨_, h1, q, y, rfl, hq, rfl, hy⟩ := he
    obtain ⟨_, _, ha⟩ := hok
    obtain ⟨_, p, hp, hh⟩ := aliveIn_get ha
    refine ⟨?_, by simp [stepRow, stepP, updPop]⟩
    have hR : embedStV gv N0 (stepP N0 s (.popSizeChange o (.fin q) i (.fin y)))
        = (embedStV gv N0 s).setPop i.toNat ((embedPopGV gv N0 p).change (4 * N0 * q) (some (Sz.ofQ (y * N0)))
            (if numPos (.fin q) then some 0 else none)) := by
      simp only [stepP, evT, Event.t]
      rw [updPop_eq_set hp, setPop_embedV gv N0 s i h1, embed_updV hh]
      simp only [Option.map_some, map_growthV hz]
    rw [hR]
    simp only [cmdOfV, Demes.Spec.MsSem.step, Cmd.t, pop_embedV h1 hp hh, bind, Except.bind, pure, Except.pure, stepRow,
      evT, Event.t]
  | popGrowthRateChange o t i G =>
    obtain ⟨_, h1, q, rfl, hq⟩ := he
    obtain ⟨_, ha⟩ := hok
    obtain ⟨_, p, hp, hh⟩ := aliveIn_get ha
    refine ⟨?_, by simp [stepRow, stepP, updPop]⟩
    have hR : embedStV gv N0 (stepP N0 s (.popGrowthRateChange o (.fin q) i G))
        = (embedStV gv N0 s).setPop i.toNat ((embedPopGV gv N0 p).change (4 * N0 * q) none
            (some (gv G / (4 * N0)))) := by
      simp only [stepP, evT, Event.t]
      rw [updPop_eq_set hp, setPop_embedV gv N0 s i h1, embed_updV hh]
      simp only [Option.map_some, Option.map_none]
    rw [hR]
    simp only [cmdOfV, Demes.Spec.MsSem.step, Cmd.t, pop_embedV h1 hp hh, bind, Except.bind, pure, Except.pure, stepRow,
      evT, Event.t]
  | migEntryChange o t i j x =>
    obtain ⟨_, h1, h2, q, y, rfl, hq, rfl, hy⟩ := he
    obtain ⟨_, _, hai, haj, hne⟩ := hok
    obtain ⟨_, p, hp, hh⟩ := aliveIn_get hai
    obtain ⟨_, p', hp', hh'⟩ := aliveIn_get haj
    refine ⟨?_, by simp [stepRow, stepP, StG.snap]⟩
    have hne' : ¬ i.toNat = j.toNat := toNat_ne h1 h2 hne
    simp only [cmdOfV, Demes.Spec.MsSem.step, Cmd.t, pop_embedV h1 hp hh, pop_embedV h2 hp' hh', bind, Except.bind, pure,
      Except.pure, stepRow, stepP, evT, Event.t, hne', if_false, idx_toNat h1, idx_toNat h2]
    rfl
  | split o t i x =>
    obtain ⟨_, h1, q, y, rfl, hq, rfl, hy0, hy1⟩ := he
    obtain ⟨_, _, ha⟩ := hok
    obtain ⟨_, p, hp, hh⟩ := aliveIn_get ha
    refine ⟨?_, by simp [stepRow, stepP, StG.snap]⟩
    have hR : embedStV gv N0 (stepP N0 s (.split o (.fin q) i (.fin y)))
        = ({ embedStV gv N0 s with pops := (embedStV gv N0 s).pops ++ [({ lo := 4 * N0 * q, t0 := 4 * N0 * q, size0 := Sz.ofQ N0 } : Pop)] }).snap
            (4 * N0 * q) ((embedStV gv N0 s).mat.map (fun r => r ++ [0]) ++ [List.replicate ((embedStV gv N0 s).pops.length + 1) 0]) := by
      simp only [stepP, evT, Event.t, embedStV_len]
      unfold embedStV St.snap StG.snap Demes.Proofs.ToMs.extendMat
      simp only [List.map_append, List.map_cons, List.map_nil, embedPopGV_new hz]
    rw [hR]
    simp only [cmdOfV, Demes.Spec.MsSem.step, Cmd.t, pop_embedV h1 hp hh, bind, Except.bind, pure, Except.pure, stepRow,
      evT, Event.t, embedStV_len]
  | join o t i j =>
    obtain ⟨_, h1, h2, q, rfl, hq⟩ := he
    obtain ⟨_, hai, haj, hne⟩ := hok
    obtain ⟨_, p, hp, hh⟩ := aliveIn_get hai
    obtain ⟨_, p', hp', hh'⟩ := aliveIn_get haj
    refine ⟨?_, by simp [stepRow, stepP, StG.snap, updPop]⟩
    have hne' : ¬ i.toNat = j.toNat := toNat_ne h1 h2 hne
    have hR : embedStV gv N0 (stepP N0 s (.join o (.fin q) i j))
        = ((embedStV gv N0 s).setPop i.toNat (closePop (embedPopGV gv N0 p) (.fin (4 * N0 * q)))).snap (4 * N0 * q)
            ((List.range (embedStV gv N0 s).pops.length).map (fun a => (List.range (embedStV gv N0 s).pops.length).map (fun b =>
              if a = i.toNat - 1 || b = i.toNat - 1 then 0 else matGet (embedStV gv N0 s).mat a b))) := by
      simp only [stepP, evT, Event.t, embedStV_len, idx_toNat h1]
      rw [updPop_eq_set hp, ← embed_joinV hh, ← setPop_embedV gv N0 s i h1]
      rfl
    rw [hR]
    simp only [cmdOfV, Demes.Spec.MsSem.step, Cmd.t, pop_embedV h1 hp hh, pop_embedV h2 hp' hh', bind, Except.bind, pure,
      Except.pure, stepRow, evT, Event.t, hne', if_false]
    rfl
  | growthRateChange => exact he.elim
  | sizeChange => exact he.elim
  | migRateChange => exact he.elim
  | migMatrixChange => exact he.elim

/-- a successful step of the typed interpreter is the pure step on a well-addressed option -/
theorem stepSt_inv {N0 : Q} {s s' : StG} {e : Event Growth} (he : EvG e) (h : stepSt N0 s e = .ok s') :
    OkEv s e ∧ s' = stepP N0 s e := by
  have hok : OkEv s e := by
    cases e with
    | popSizeChange o t i x =>
      obtain ⟨_, h1, q, y, rfl, hq, rfl, hy⟩ := he
      simp only [stepSt, Event.t, bind, Except.bind, pure, Except.pure] at h
      cases hp : s.pop i with
      | error err => rw [hp] at h; cases h
      | ok p => exact ⟨⟨q, rfl⟩, ⟨y, rfl⟩, (pop_inv hp).1⟩
    | popGrowthRateChange o t i G =>
      obtain ⟨_, h1, q, rfl, hq⟩ := he
      simp only [stepSt, Event.t, bind, Except.bind, pure, Except.pure] at h
      cases hp : s.pop i with
      | error err => rw [hp] at h; cases h
      | ok p => exact ⟨⟨q, rfl⟩, (pop_inv hp).1⟩
    | migEntryChange o t i j x =>
      obtain ⟨_, h1, h2, q, y, rfl, hq, rfl, hy⟩ := he
      simp only [stepSt, Event.t, bind, Except.bind, pure, Except.pure] at h
      cases hp : s.pop i with
      | error err => rw [hp] at h; cases h
      | ok p =>
        rw [hp] at h
        cases hp' : s.pop j with
        | error err => rw [hp'] at h; cases h
        | ok p' =>
          rw [hp'] at h
          by_cases hij : i = j
          · simp [hij, throw, throwThe, MonadExceptOf.throw] at h
          · exact ⟨⟨q, rfl⟩, ⟨y, rfl⟩, (pop_inv hp).1, (pop_inv hp').1, hij⟩
    | split o t i x =>
      obtain ⟨_, h1, q, y, rfl, hq, rfl, hy0, hy1⟩ := he
      simp only [stepSt, Event.t, bind, Except.bind, pure, Except.pure] at h
      cases hp : s.pop i with
      | error err => rw [hp] at h; cases h
      | ok p => exact ⟨⟨q, rfl⟩, ⟨y, rfl, hy0, hy1⟩, (pop_inv hp).1⟩
    | join o t i j =>
      obtain ⟨_, h1, h2, q, rfl, hq⟩ := he
      simp only [stepSt, Event.t, bind, Except.bind, pure, Except.pure] at h
      cases hp : s.pop i with
      | error err => rw [hp] at h; cases h
      | ok p =>
        rw [hp] at h
        cases hp' : s.pop j with
        | error err => rw [hp'] at h; cases h
        | ok p' =>
          rw [hp'] at h
          by_cases hij : i = j
          · simp [hij, throw, throwThe, MonadExceptOf.throw] at h
          · exact ⟨⟨q, rfl⟩, (pop_inv hp).1, (pop_inv hp').1, hij⟩
    | growthRateChange => exact he.elim
    | sizeChange => exact he.elim
    | migRateChange => exact he.elim
    | migMatrixChange => exact he.elim
  refine ⟨hok, ?_⟩
  rw [stepSt_ok hok] at h
  cases h
  rfl

/-! ### the options of one time group -/

theorem fold_embedV {gv : Growth → Q} (hz : gv Growth.zero = 0) {N0 : Q} :
    ∀ (grp : List (Event Growth)) (s s' : StG) (L : List (Nat × Row)),
    (∀ e ∈ grp, EvG e) → grp.foldlM (stepSt N0) s = .ok s' →
    (grp.map (cmdOfV gv)).foldlM (Demes.Spec.MsSem.step N0) (embedStV gv N0 s, L)
        = .ok (embedStV gv N0 s', (grp.foldl stepRow (s.pops.length, L)).2)
  | [], s, s', L, _, h => by cases h; rfl
  | e :: r, s, s', L, he, h => by
    rw [List.foldlM_cons] at h
    cases h1 : stepSt N0 s e with
    | error err => rw [h1] at h; cases h
    | ok s1 =>
      rw [h1] at h
      obtain ⟨hok, rfl⟩ := stepSt_inv (he e List.mem_cons_self) h1
      obtain ⟨hs, hn⟩ := step_embedV hz (N0 := N0) (he e List.mem_cons_self) hok L
      rw [List.map_cons, List.foldlM_cons, hs]
      simp only [bind, Except.bind]
      have ih := fold_embedV hz r (stepP N0 s e) s' (stepRow (s.pops.length, L) e).2
        (fun x hx => he x (List.mem_cons_of_mem _ hx)) h
      rw [ih, List.foldl_cons, ← hn]

theorem rows0_embedV (gv : Growth → Q) (N0 : Q) (s : StG) :
    (((embedStV gv N0 s).pops.zipIdx).filter (fun pi => Demes.Spec.MsSem.alive pi.1)).map (fun pi => (pi.2 + 1, ([(pi.2 + 1, (1 : Q))] : Row)))
      = rows0 s := by
  unfold rows0 embedStV
  simp only [zipIdx_map, List.filter_map, List.map_map]
  congr 1
  apply List.filter_congr
  intro x _
  simp [Function.comp, alive_embedV]

theorem isMove_cmdOfV (gv : Growth → Q) {e : Event Growth} (h : EvG e) :
    Demes.Spec.MsSem.isMove (cmdOfV gv e) = isSplitJoin e := by
  cases e with
  | popSizeChange o t i x => obtain ⟨_, _, q, y, rfl, _, rfl, _⟩ := h; rfl
  | popGrowthRateChange o t i G => rfl
  | migEntryChange o t i j x => obtain ⟨_, _, _, q, y, rfl, _, rfl, _⟩ := h; rfl
  | split o t i p => obtain ⟨_, _, q, y, rfl, _, rfl, _⟩ := h; rfl
  | join o t i j => rfl
  | growthRateChange => exact h.elim
  | sizeChange => exact h.elim
  | migRateChange => exact h.elim
  | migMatrixChange => exact h.elim

theorem any_isMoveV (gv : Growth → Q) : ∀ {grp : List (Event Growth)}, (∀ e ∈ grp, EvG e) →
    (grp.map (cmdOfV gv)).any Demes.Spec.MsSem.isMove = grp.any isSplitJoin
  | [], _ => rfl
  | e :: r, he => by
    rw [List.map_cons, List.any_cons, List.any_cons, isMove_cmdOfV gv (he e List.mem_cons_self),
      any_isMoveV gv (fun x hx => he x (List.mem_cons_of_mem _ hx))]

/-- **one time group** -/
theorem stepGroup_embedV {gv : Growth → Q} (hz : gv Growth.zero = 0) {N0 : Q} {grp : List (Event Growth)} {s s' : StG}
    (he : ∀ e ∈ grp, EvG e) (h : stepGroupG N0 s grp = .ok s') :
    Demes.Spec.MsSem.stepGroup N0 (embedStV gv N0 s) (grp.map (cmdOfV gv)) = .ok (embedStV gv N0 s') := by
  unfold stepGroupG at h
  cases h1 : grp.foldlM (stepSt N0) s with
  | error err => rw [h1] at h; cases h
  | ok s1 =>
    rw [h1] at h
    simp only [bind, Except.bind] at h
    unfold Demes.Spec.MsSem.stepGroup
    dsimp only
    rw [rows0_embedV, fold_embedV hz grp s s1 (rows0 s) he h1]
    simp only [bind, Except.bind, any_isMoveV gv he]
    have hT : ((grp.map (cmdOfV gv)).head?.map Cmd.t).getD 0 = (grp.head?.map evT).getD 0 := by
      cases grp with
      | nil => rfl
      | cons e r => simp [cmdOfV_t gv (he e List.mem_cons_self)]
    rw [hT]
    by_cases hsj : grp.any isSplitJoin = true
    · simp only [hsj, if_true, pure, Except.pure] at h ⊢
      cases h
      split <;> rfl
    · simp only [hsj, Bool.false_eq_true, if_false, pure, Except.pure] at h ⊢
      cases h
      rfl

theorem groups_embedV {gv : Growth → Q} (hz : gv Growth.zero = 0) {N0 : Q} :
    ∀ (gs : List (List (Event Growth))) (s s' : StG),
    (∀ grp ∈ gs, ∀ e ∈ grp, EvG e) → gs.foldlM (stepGroupG N0) s = .ok s' →
    (gs.map (List.map (cmdOfV gv))).foldlM (Demes.Spec.MsSem.stepGroup N0) (embedStV gv N0 s) = .ok (embedStV gv N0 s')
  | [], s, s', _, h => by cases h; rfl
  | grp :: gs, s, s', he, h => by
    rw [List.foldlM_cons] at h
    cases h1 : stepGroupG N0 s grp with
    | error err => rw [h1] at h; cases h
    | ok s1 =>
      rw [h1] at h
      rw [List.map_cons, List.foldlM_cons, stepGroup_embedV hz (he grp List.mem_cons_self) h1]
      exact groups_embedV hz gs s1 s' (fun g hg => he g (List.mem_cons_of_mem _ hg)) h

#print axioms step_embedV
#print axioms groups_embedV

end Demes.Proofs.MsGrow
