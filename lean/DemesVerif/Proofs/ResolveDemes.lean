/-
  C01, stages 1–2: the header and the deme loop of `Graph.fromdict`.
-/
import DemesVerif.Proofs.ResolveLemmas
namespace Demes.Proofs.RV
open Demes Demes.Spec

/-! ### name lookups (`_deme_map`) against lookups by the demes' own names -/

theorem getDeme_ok {g : Graph} {a : String} {d : Deme} (h : getDeme g a = .ok d) : g.deme? a = some d := by
  unfold getDeme at h
  split at h
  · rw [pure_ok] at h; subst h; assumption
  · exact (keyErr_ok.1 h).elim

theorem existingName_ok {g : Graph} {v : Value} {s : String} (h : existingName g v = .ok s) :
    v = .str s ∧ g.hasName s = true := by
  unfold existingName at h
  split at h
  · simp only [ite_ok, valueErr_ok, and_false, or_false, pure_ok] at h
    obtain ⟨h1, rfl⟩ := h
    exact ⟨rfl, h1⟩
  · exact (typeErr_ok.1 h).elim
  · exact (typeErr_ok.1 h).elim
  · exact (valueErr_ok.1 h).elim

/-- looking a name up in the index built from the demes' own names finds the first deme of
that name -/
theorem index_find (name : String) : ∀ (l : List Deme) (k : Nat),
    match ((l.zipIdx k).map (fun (d, i) => (d.name, i))).find? (fun kv => kv.1 = name) with
    | none => l.find? (fun d => d.name = name) = none
    | some kv => ∃ j, kv.2 = k + j ∧ l[j]? = l.find? (fun d => d.name = name)
        ∧ (l.find? (fun d => d.name = name)).isSome = true := by
  intro l
  induction l with
  | nil => intro k; simp
  | cons x xs ih =>
    intro k
    simp only [List.zipIdx_cons, List.map_cons, List.find?_cons]
    by_cases hx : x.name = name
    · simp only [hx, decide_true]
      exact ⟨0, rfl, rfl, rfl⟩
    · simp only [hx, decide_false]
      have := ih (k + 1)
      split at this
      · rename_i heq; simp only [heq]; exact this
      · rename_i kv heq
        simp only [heq]
        obtain ⟨j, h1, h2, h3⟩ := this
        exact ⟨j + 1, by omega, by simpa using h2, h3⟩

theorem deme?_eq_findDeme {g : Graph} (h0 : v0 g = true) (name : String) :
    g.deme? name = findDeme g name := by
  simp only [v0, beq_iff_eq] at h0
  have := index_find name g.demes 0
  simp only [Graph.deme?, Graph.indexLookup, findDeme, h0]
  split at this
  · rename_i heq; simp only [heq, Option.map_none]; exact this.symm
  · rename_i kv heq
    obtain ⟨j, h1, h2, _⟩ := this
    simp only [heq, Option.map_some, h1, Nat.zero_add]; exact h2

theorem hasName_eq {g : Graph} (h0 : v0 g = true) (name : String) :
    g.hasName name = (findDeme g name).isSome := by
  simp only [v0, beq_iff_eq] at h0
  have := index_find name g.demes 0
  simp only [Graph.hasName, Graph.indexLookup, findDeme, h0]
  split at this
  · rename_i heq; simp only [heq, Option.map_none, this]; rfl
  · rename_i kv heq
    obtain ⟨j, _, _, h3⟩ := this
    simp only [heq, Option.map_some, h3]; rfl

theorem findDeme_isSome_iff {g : Graph} {name : String} :
    (findDeme g name).isSome = true ↔ ∃ d ∈ g.demes, d.name = name := by
  simp [findDeme, List.find?_isSome]

theorem findDeme_append_some {g g' : Graph} {x : List Deme} {name : String} {d : Deme}
    (hg : g'.demes = g.demes ++ x) (h : findDeme g name = some d) : findDeme g' name = some d := by
  simp only [findDeme] at *
  rw [hg, List.find?_append, h]; rfl

/-! ### `Graph._add_deme` up to the construction of the `Deme` -/

structure HeaderFacts (g : Graph) (d : Deme) : Prop where
  epochs : d.epochs = []
  fresh : g.hasName d.name = false
  ident : isIdentifier d.name = true
  anc : ∀ a ∈ d.ancestors, g.hasName a = true
  ancTime : ∀ a ∈ d.ancestors, ∃ anc, g.deme? a = some anc
    ∧ d.startTime < anc.startTime ∧ ETime.fin anc.endTime ≤ d.startTime
  nodup : d.ancestors.Nodup
  notSelf : d.ancestors.contains d.name = false
  infIff : d.ancestors.isEmpty = d.startTime.isInf
  pos : ETime.fin 0 < d.startTime
  plen : d.proportions.length = d.ancestors.length
  prange : ∀ p ∈ d.proportions, 0 < p ∧ p ≤ 1
  psum : d.proportions.isEmpty = true ∨ closeTo1 (qsumS d.proportions) = true

theorem ancCheck_ok {g : Graph} {startTime : Num} {st : ETime} (hst : startTime = Num.ofETime st)
    {a : String}
    (h : (do
      let anc ← getDeme g a
      if Num.lt startTime (Num.ofETime anc.startTime) && Num.le (Num.fin anc.endTime) startTime then pure ()
      else valueErr s!"start_time is outside the interval of existence for ancestor '{a}'") = Except.ok ()) :
    ∃ anc, g.deme? a = some anc ∧ st < anc.startTime ∧ ETime.fin anc.endTime ≤ st := by
  obtain ⟨anc, h1, h2⟩ := bind_ok.1 h
  simp only [ite_ok, valueErr_ok, and_false, or_false, Bool.and_eq_true] at h2
  subst hst
  exact ⟨anc, getDeme_ok h1, num_lt_ofETime h2.1.1, num_fin_le_ofETime h2.1.2⟩

theorem propCheck_ok {n : Num} {q : Q}
    (h : (do vUnitInterval n; vPositive n; toQ n) = Except.ok q) : 0 < q ∧ q ≤ 1 := by
  obtain ⟨_, h1, h⟩ := bind_ok.1 h
  obtain ⟨_, h2, h⟩ := bind_ok.1 h
  have := toQ_ok h; subst this
  have h1 := vUnitInterval_ok h1
  have h2 := vPositive_ok h2
  simp only [Num.le, Num.zero, Num.one, decide_eq_true_eq, decide_eq_false_iff_not, Rat.not_le] at h1 h2
  exact ⟨h2, h1.2⟩

theorem addDemeHeader_ok {g : Graph} {nameV descriptionV : Value}
    {ancestorsV proportionsV startTimeV : Option Value} {d : Deme}
    (h : addDemeHeader g nameV descriptionV ancestorsV proportionsV startTimeV = .ok d) :
    HeaderFacts g d := by
  unfold addDemeHeader at h
  extract_lets pv jp1 at h
  have h1 : ∃ name, nameV = .str name ∧ jp1 name = .ok d := by
    cases nameV with
    | str name => exact ⟨name, rfl, pbind h⟩
    | _ => exact (typeErr_bind_ok.1 h).elim
  clear h
  obtain ⟨name, rfl, h⟩ := h1
  dsimp -zeta only [jp1] at h
  extract_lets jp3 jp2 at h
  obtain ⟨hfresh, h⟩ := ite_verr h
  dsimp -zeta only [jp2] at h
  have h1 : ∃ ancVals, jp3 ancVals = .ok d := by
    cases ancestorsV with
    | none => exact ⟨_, pbind h⟩
    | some v => obtain ⟨a, _, h⟩ := bind_ok.1 h; exact ⟨a, h⟩
  clear h
  obtain ⟨ancVals, h⟩ := h1
  dsimp -zeta only [jp3] at h
  obtain ⟨ancestors, hanc, h⟩ := bind_ok.1 h
  extract_lets jp4 at h
  have h1 : ∃ startTime : Num, jp4 startTime = .ok d := by
    cases startTimeV with
    | some v =>
      obtain ⟨n, hn, h⟩ := bind_ok.1 h
      exact ⟨n, pbind h⟩
    | none =>
      match ancestors, h with
      | [], h => exact ⟨_, pbind h⟩
      | [a], h =>
        obtain ⟨dd, hdd, h⟩ := bind_ok.1 h
        exact ⟨_, pbind h⟩
      | _ :: _ :: _, h => exact (valueErr_bind_ok.1 h).elim
  obtain ⟨startTime, h⟩ := h1
  dsimp -zeta only [jp4] at h
  extract_lets jp5 jp6 at h
  obtain ⟨hinf, h⟩ := ite_verr h
  dsimp -zeta only [jp6] at h
  obtain ⟨_, hforM, h⟩ := bind_ok.1 h
  obtain ⟨hident, h⟩ := ite_verr h
  dsimp -zeta only [jp5] at h
  obtain ⟨description, hdesc, h⟩ := bind_ok.1 h
  obtain ⟨_, hpos, h⟩ := bind_ok.1 h
  obtain ⟨st, hst, h⟩ := bind_ok.1 h
  extract_lets jp7 jp8 jp9 at h
  obtain ⟨hnodup, h⟩ := ite_verr h
  dsimp -zeta only [jp9] at h
  obtain ⟨hself, h⟩ := ite_verr h
  dsimp -zeta only [jp8] at h
  have h1 : ∃ proportions : List Q, (∀ p ∈ proportions, 0 < p ∧ p ≤ 1) ∧ jp7 proportions = .ok d := by
    cases proportionsV with
    | none =>
      refine ⟨_, ?_, pbind h⟩
      intro p hp
      split at hp
      · simp only [List.mem_singleton] at hp; subst hp; decide +kernel
      · cases hp
    | some v =>
      dsimp only [pv] at h
      obtain ⟨xs, hxs, h⟩ := bind_ok.1 h
      obtain ⟨ns, hns, h⟩ := bind_ok.1 h
      obtain ⟨qs, hqs, h⟩ := bind_ok.1 h
      refine ⟨qs, ?_, pbind h⟩
      intro p hp
      obtain ⟨n, _, hn⟩ := (mapM_ok _ _ _ hqs).2 p hp
      exact propCheck_ok hn
  obtain ⟨proportions, hprange, h⟩ := h1
  dsimp -zeta only [jp7] at h
  extract_lets jp10 at h
  obtain ⟨hsum, h⟩ := ite_verr h
  dsimp -zeta only [jp10] at h
  simp only [ite_ok, valueErr_ok, and_false, false_or, pure_ok] at h
  obtain ⟨hlen, rfl⟩ := h
  have hst := toETime_ok hst
  have hancT : ∀ a ∈ ancestors, ∃ anc, g.deme? a = some anc
      ∧ st < anc.startTime ∧ ETime.fin anc.endTime ≤ st := by
    intro a ha
    exact ancCheck_ok hst (forM_ok _ _ hforM a ha)
  refine ⟨rfl, by simpa using hfresh, by simpa using hident, ?_, hancT, by simpa using hnodup,
    by simpa using hself, ?_, ?_, ?_, hprange, ?_⟩
  · intro a ha
    obtain ⟨v, _, hv⟩ := (mapM_ok _ _ _ hanc).2 a ha
    exact (existingName_ok hv).2
  · -- ancestors.isEmpty = st.isInf
    show ancestors.isEmpty = st.isInf
    subst hst
    cases st with
    | inf =>
      cases ancestors with
      | nil => rfl
      | cons a as =>
        obtain ⟨anc, _, h1, _⟩ := hancT a List.mem_cons_self
        exact h1.elim
    | fin q =>
      cases ancestors with
      | nil => simp [Num.ofETime, Num.isInf] at hinf
      | cons a as => rfl
  · show ETime.fin 0 < st
    subst hst
    have := vPositive_ok hpos
    cases st with
    | inf => trivial
    | fin q =>
      show (0 : Q) < q
      simpa [Num.le, Num.zero, Num.ofETime, Rat.not_le] using this
  · show proportions.length = ancestors.length
    simp only [ne_eq, Decidable.not_not] at hlen
    exact hlen.symm
  · show proportions.isEmpty = true ∨ closeTo1 (qsumS proportions) = true
    rw [← proportionsSumOk_iff]
    simp only [Bool.and_eq_true, Bool.not_eq_true', not_and, Bool.not_eq_false] at hsum
    cases hp : proportions.isEmpty with
    | true => exact .inl rfl
    | false => exact .inr (by simpa using hsum (by simpa using hp))

/-! ### `Deme._add_epoch` and the epoch loop -/

/-- where the next epoch of a deme starts -/
def lastEnd (start : ETime) (eps : List Epoch) : ETime :=
  match eps.getLast? with
  | none => start
  | some p => .fin p.endTime

/-- the per-epoch clause of V6 -/
def epochOK (e : Epoch) : Bool :=
  decide (0 < e.startSize) && decide (0 < e.endSize)
    && decide (0 ≤ e.selfingRate) && decide (e.selfingRate ≤ 1)
    && decide (0 ≤ e.cloningRate) && decide (e.cloningRate ≤ 1)
    && sizeFunctionsS.contains e.sizeFunction
    && (e.sizeFunction != "constant" || e.startSize == e.endSize)
    && (!e.startTime.isInf || e.startSize == e.endSize)
    && decide (0 ≤ e.endTime)

theorem addEpoch_ok {s : ETime} {eps eps' : List Epoch} {e : Obj} (h : addEpoch s eps e = .ok eps') :
    ∃ ep, eps' = eps ++ [ep] ∧ ep.startTime = lastEnd s eps ∧ ETime.fin ep.endTime < ep.startTime
      ∧ epochOK ep = true := by
  unfold addEpoch at h
  extract_lets a1 a2 a3 a4 a5 a6 at h
  have h1 : ∃ endTimeV, a6 endTimeV = .ok eps' := by
    cases hl : Obj.lookup "end_time" e with
    | some v => rw [hl] at h; exact ⟨v, pbind h⟩
    | none => rw [hl] at h; exact (keyErr_bind_ok.1 h).elim
  clear h
  obtain ⟨endTimeV, h⟩ := h1
  dsimp -zeta only [a6] at h
  extract_lets jp1 at h
  have h1 : ∃ ss es, jp1 (lastEnd s eps, ss, es) = .ok eps' := by
    unfold lastEnd
    cases hl : eps.getLast? with
    | none =>
      rw [hl] at h
      cases h1 : a1 <;> cases h2 : a2 <;> simp only [h1, h2] at h
      · exact (keyErr_bind_ok.1 h).elim
      · exact ⟨_, _, pbind h⟩
      · exact ⟨_, _, pbind h⟩
      · exact ⟨_, _, pbind h⟩
    | some prev =>
      rw [hl] at h
      exact ⟨_, _, pbind h⟩
  clear h
  obtain ⟨ss, es, h⟩ := h1
  dsimp -zeta only [jp1] at h
  obtain ⟨endTime, hendTime, h⟩ := bind_ok.1 h
  obtain ⟨startSize, hstartSize, h⟩ := bind_ok.1 h
  obtain ⟨endSize, hendSize, h⟩ := bind_ok.1 h
  extract_lets jp2 at h
  have h1 : ∃ sf, sizeFunctions.contains sf = true ∧ jp2 sf = .ok eps' := by
    cases ha : a3 with
    | none =>
      rw [ha] at h
      refine ⟨_, ?_, pbind h⟩
      split <;> decide
    | some v =>
      rw [ha] at h
      cases v with
      | str s =>
        by_cases hc : sizeFunctions.contains s = true
        · simp only [if_pos hc] at h; exact ⟨s, hc, pbind h⟩
        · simp only [if_neg hc] at h; exact (valueErr_bind_ok.1 h).elim
      | _ => exact (valueErr_bind_ok.1 h).elim
  clear h
  obtain ⟨sf, hsf, h⟩ := h1
  dsimp -zeta only [jp2] at h
  obtain ⟨selfingRate, hself, h⟩ := bind_ok.1 h
  obtain ⟨cloningRate, hclon, h⟩ := bind_ok.1 h
  extract_lets jp4 jp3 at h
  obtain ⟨hlt, h⟩ := ite_verr h
  dsimp -zeta only [jp3] at h
  simp only [ite_ok, valueErr_ok, valueErr_bind_ok, and_false, false_or] at h
  obtain ⟨hinf, hconst, h⟩ := h
  dsimp -zeta only [jp4] at h
  rw [pure_ok] at h
  subst h
  refine ⟨_, rfl, rfl, etime_not_le hlt, ?_⟩
  have h1 := (posFiniteQ_ok hstartSize).2
  have h2 := (posFiniteQ_ok hendSize).2
  have h3 := (nonNegFiniteQ_ok hendTime).2
  have h4 := unitQ_ok hself
  have h5 := unitQ_ok hclon
  simp only [epochOK, Bool.and_eq_true, decide_eq_true_eq, Bool.or_eq_true, bne_iff_ne, beq_iff_eq,
    Bool.not_eq_true']
  simp only [Bool.and_eq_true, decide_eq_true_eq, not_and, Decidable.not_not] at hinf hconst
  refine ⟨⟨⟨⟨⟨⟨⟨⟨⟨h1, h2⟩, h4.1⟩, h4.2⟩, h5.1⟩, h5.2⟩, hsf⟩, ?_⟩, ?_⟩, h3⟩
  · by_cases hc : sf = "constant"
    · exact .inr (hconst hc)
    · exact .inl hc
  · cases hi : (lastEnd s eps).isInf with
    | true => exact .inr (hinf hi)
    | false => exact .inl rfl

theorem lastEnd_cons (start : ETime) (x : Epoch) (xs : List Epoch) :
    lastEnd start (x :: xs) = lastEnd (.fin x.endTime) xs := by
  unfold lastEnd
  rw [List.getLast?_cons]
  cases xs.getLast? <;> rfl

theorem contiguous_snoc {start : ETime} {eps : List Epoch} {e : Epoch}
    (h : contiguous start eps = true) (hs : e.startTime = lastEnd start eps)
    (hlt : ETime.fin e.endTime < e.startTime) : contiguous start (eps ++ [e]) = true := by
  induction eps generalizing start with
  | nil =>
    simp only [List.nil_append, contiguous, Bool.and_eq_true, beq_iff_eq, decide_eq_true_eq, and_true]
    exact ⟨hs, hlt⟩
  | cons x xs ih =>
    simp only [List.cons_append, contiguous, Bool.and_eq_true, beq_iff_eq, decide_eq_true_eq] at h ⊢
    rw [lastEnd_cons] at hs
    exact ⟨h.1, ih h.2 hs⟩

/-- the epoch-loop invariant -/
def EpInv (start : ETime) (eps : List Epoch) : Prop :=
  contiguous start eps = true ∧ eps.all epochOK = true

theorem addEpoch_inv {start : ETime} {eps eps' : List Epoch} {e : Obj}
    (hi : EpInv start eps) (h : addEpoch start eps e = .ok eps') :
    EpInv start eps' ∧ eps'.length = eps.length + 1 := by
  obtain ⟨ep, rfl, h1, h2, h3⟩ := addEpoch_ok h
  refine ⟨⟨contiguous_snoc hi.1 h1 h2, ?_⟩, by simp⟩
  rw [List.all_append, hi.2]
  simp [h3]

theorem resolveEpochs_ok {start : ETime} {defaults : Obj} {epochs : List Obj} {eps : List Epoch}
    (h : resolveEpochs start defaults epochs = .ok eps) :
    EpInv start eps ∧ eps.length = epochs.length := by
  unfold resolveEpochs at h
  have hstep : ∀ (acc : List Epoch) (ej : Obj × Nat) (acc' : List Epoch),
      (do
        let (e, j) := ej
        checkAllowed e allowedEpoch
        let e := Obj.insertDefaults e defaults
        let e ← if Obj.contains "end_time" e then pure e
          else if j = epochs.length - 1 then pure (Obj.set "end_time" (.num (.fin 0)) e)
          else keyErr s!"epochs[{j}]: required field 'end_time' not found"
        addEpoch start acc e) = Except.ok acc' → ∃ e', addEpoch start acc e' = .ok acc' := by
    intro acc ej acc' h
    obtain ⟨e, j⟩ := ej
    obtain ⟨_, _, h⟩ := bind_ok.1 h
    extract_lets e1 jp at h
    split at h
    · exact ⟨_, pbind h⟩
    · split at h
      · exact ⟨_, pbind h⟩
      · exact (keyErr_bind_ok.1 h).elim
  constructor
  · refine foldlM_inv (EpInv start) _ ?_ _ _ _ ⟨rfl, rfl⟩ h
    intro s a s' hs hst
    obtain ⟨e', he'⟩ := hstep s a s' hst
    exact (addEpoch_inv hs he').1
  · have := foldlM_count (List.length) _ ?_ _ _ _ h
    · simpa using this
    · intro s a s' hst
      obtain ⟨e', he'⟩ := hstep s a s' hst
      obtain ⟨ep, rfl, _⟩ := addEpoch_ok he'
      simp

/-- what one iteration of the deme loop does -/
theorem resolveDeme_ok {dd ged : Obj} {g g' : Graph} {demeData : Obj}
    (h : resolveDeme dd ged g demeData = .ok g') :
    ∃ (dh : Deme) (eps : List Epoch), HeaderFacts g dh ∧ EpInv dh.startTime eps ∧ eps ≠ []
      ∧ g' = { g with demes := g.demes ++ [{ dh with epochs := eps }],
                      index := g.index ++ [(dh.name, g.demes.length)] } := by
  unfold resolveDeme at h
  extract_lets dd1 jp1 at h
  have h1 : ∃ nameV, jp1 nameV = .ok g' := by
    cases hl : Obj.lookup "name" demeData with
    | some v => rw [hl] at h; exact ⟨v, pbind h⟩
    | none => rw [hl] at h; exact (keyErr_bind_ok.1 h).elim
  clear h
  obtain ⟨nameV, h⟩ := h1
  dsimp -zeta only [jp1] at h
  obtain ⟨_, _, h⟩ := bind_ok.1 h
  obtain ⟨dh, hdh, h⟩ := bind_ok.1 h
  obtain ⟨localDefaults, _, h⟩ := bind_ok.1 h
  obtain ⟨_, _, h⟩ := bind_ok.1 h
  obtain ⟨led, _, h⟩ := bind_ok.1 h
  obtain ⟨_, _, h⟩ := bind_ok.1 h
  extract_lets ed jp2 at h
  obtain ⟨_, h⟩ := ite_kerr h
  dsimp -zeta only [jp2] at h
  obtain ⟨epochs, _, h⟩ := bind_ok.1 h
  extract_lets jp3 at h
  obtain ⟨hne, h⟩ := ite_verr h
  dsimp -zeta only [jp3] at h
  obtain ⟨eps, heps, h⟩ := bind_ok.1 h
  rw [pure_ok] at h
  obtain ⟨hinv, hlen⟩ := resolveEpochs_ok heps
  refine ⟨dh, eps, addDemeHeader_ok hdh, hinv, ?_, h.symm⟩
  intro he
  rw [he] at hlen
  cases epochs with
  | nil => exact hne rfl
  | cons _ _ => cases hlen

/-! ### the deme-level invariant -/

/-- the deme-level clauses (everything that depends on `demes` and `index` only) -/
structure DInv (g : Graph) : Prop where
  h0 : v0 g = true
  hid : g.demes.all (fun d => isIdentifier d.name) = true
  hnd : (g.demes.map (·.name)).Nodup
  h2 : v2 g = true
  h3 : v3 g = true
  h4 : v4 g = true
  h5 : v5 g = true
  h6 : v6 g = true

theorem DInv.congr {g g' : Graph} (hd : g'.demes = g.demes) (hi : g'.index = g.index)
    (h : DInv g) : DInv g' := by
  obtain ⟨h0, hid, hnd, h2, h3, h4, h5, h6⟩ := h
  refine ⟨?_, ?_, ?_, ?_, ?_, ?_, ?_, ?_⟩
  · simpa only [v0, hd, hi] using h0
  · simpa only [hd] using hid
  · simpa only [hd] using hnd
  · simpa only [v2, hd] using h2
  · simpa only [v3, findDeme, hd] using h3
  · simpa only [v4, hd] using h4
  · simpa only [v5, hd] using h5
  · simpa only [v6, hd] using h6

theorem hasName_iff {g : Graph} (h0 : v0 g = true) (name : String) :
    g.hasName name = true ↔ ∃ d ∈ g.demes, d.name = name := by
  rw [hasName_eq h0, findDeme_isSome_iff]

theorem v6_body_eq (d : Deme) : d.epochs.all (fun e =>
    decide (0 < e.startSize) && decide (0 < e.endSize)
    && decide (0 ≤ e.selfingRate) && decide (e.selfingRate ≤ 1)
    && decide (0 ≤ e.cloningRate) && decide (e.cloningRate ≤ 1)
    && sizeFunctionsS.contains e.sizeFunction
    && (e.sizeFunction != "constant" || e.startSize == e.endSize)
    && (!e.startTime.isInf || e.startSize == e.endSize)
    && decide (0 ≤ e.endTime)) = d.epochs.all epochOK := rfl

/-- the per-deme clause of V3 -/
def v3body (g : Graph) (d : Deme) : Bool :=
  d.ancestors.all (fun a =>
      match findDeme g a with
      | some anc => decide (d.startTime < anc.startTime) && decide (ETime.fin anc.endTime ≤ d.startTime)
      | none => false)
    && (d.ancestors.isEmpty == d.startTime.isInf)
    && decide (ETime.fin 0 < d.startTime)

theorem v3_eq (g : Graph) : v3 g = g.demes.all (v3body g) := rfl

theorem v3body_mono {g g' : Graph} {l : List Deme} (hg : g'.demes = g.demes ++ l) {d : Deme}
    (h : v3body g d = true) : v3body g' d = true := by
  simp only [v3body, Bool.and_eq_true, List.all_eq_true] at h ⊢
  refine ⟨⟨?_, h.1.2⟩, h.2⟩
  intro a ha
  have := h.1.1 a ha
  split at this
  · rename_i anc heq
    rw [findDeme_append_some hg heq]; exact this
  · cases this

theorem DInv.snoc {g : Graph} (hg : DInv g) {dh : Deme} {eps : List Epoch}
    (hh : HeaderFacts g dh) (he : EpInv dh.startTime eps) (hne : eps ≠ []) :
    DInv { g with demes := g.demes ++ [{ dh with epochs := eps }],
                  index := g.index ++ [(dh.name, g.demes.length)] } := by
  obtain ⟨h0, hid, hnd, h2, h3, h4, h5, h6⟩ := hg
  have hfresh : ∀ x ∈ g.demes, x.name ≠ dh.name := by
    intro x hx hn
    have := (hasName_iff h0 dh.name).2 ⟨x, hx, hn⟩
    rw [hh.fresh] at this; cases this
  refine ⟨?_, ?_, ?_, ?_, ?_, ?_, ?_, ?_⟩
  · simp only [v0, beq_iff_eq] at h0 ⊢
    simp [List.zipIdx_append, h0]
  · simp only [List.all_append, hid, List.all_cons, List.all_nil, hh.ident, Bool.and_self]
  · simp only [List.map_append, List.map_cons, List.map_nil]
    rw [List.nodup_append]
    refine ⟨hnd, by simp, ?_⟩
    intro a ha b hb
    simp only [List.mem_singleton] at hb
    obtain ⟨x, hx, rfl⟩ := List.mem_map.1 ha
    rw [hb]; exact hfresh x hx
  · -- V2
    simp only [v2, List.zipIdx_append, List.all_append, Bool.and_eq_true] at h2 ⊢
    constructor
    · rw [List.all_eq_true] at h2 ⊢
      intro p hp
      obtain ⟨x, i⟩ := p
      have hi := (List.mem_zipIdx hp).2.1
      have := h2 (x, i) hp
      simp only [] at this ⊢
      rw [List.take_append_of_le_length (by omega)]
      exact this
    · simp only [Nat.zero_add, List.zipIdx_cons, List.zipIdx_nil, List.all_cons, List.all_nil, Bool.and_true,
        List.take_left', Bool.and_eq_true, decide_eq_true_eq, Bool.not_eq_true']
      refine ⟨⟨?_, hh.nodup⟩, hh.notSelf⟩
      rw [List.all_eq_true]
      intro a ha
      obtain ⟨e, he1, he2⟩ := (hasName_iff h0 a).1 (hh.anc a ha)
      rw [List.any_eq_true]
      exact ⟨e, he1, by simpa using he2⟩
  · -- V3
    rw [v3_eq] at h3 ⊢
    simp only [List.all_append, Bool.and_eq_true, List.all_cons, List.all_nil, Bool.and_true]
    constructor
    · rw [List.all_eq_true] at h3 ⊢
      intro x hx
      exact v3body_mono (l := [{ dh with epochs := eps }]) rfl (h3 x hx)
    · apply v3body_mono (g := g) (l := [{ dh with epochs := eps }]) rfl
      simp only [v3body, Bool.and_eq_true, List.all_eq_true, beq_iff_eq, decide_eq_true_eq]
      refine ⟨⟨?_, hh.infIff⟩, hh.pos⟩
      intro a ha
      obtain ⟨anc, h1, h2, h3⟩ := hh.ancTime a ha
      rw [deme?_eq_findDeme h0] at h1
      rw [h1]
      simp only [Bool.and_eq_true, decide_eq_true_eq]
      exact ⟨h2, h3⟩
  · -- V4
    simp only [v4, List.all_append, Bool.and_eq_true, List.all_cons, List.all_nil, Bool.and_true] at h4 ⊢
    refine ⟨h4, ⟨?_, ?_⟩, ?_⟩
    · simpa using hh.plen
    · rw [List.all_eq_true]
      intro p hp
      simpa using hh.prange p hp
    · simpa using hh.psum
  · -- V5
    simp only [v5, List.all_append, Bool.and_eq_true, List.all_cons, List.all_nil, Bool.and_true] at h5 ⊢
    refine ⟨h5, ?_, he.1⟩
    cases eps with
    | nil => exact (hne rfl).elim
    | cons _ _ => rfl
  · -- V6
    simp only [v6, v6_body_eq, List.all_append, Bool.and_eq_true, List.all_cons, List.all_nil,
      Bool.and_true] at h6 ⊢
    exact ⟨h6, he.2⟩

/-! ### the header and the deme loop -/

theorem resolveHeader_ok {data : Obj} {g : Graph} (h : resolveHeader data = .ok g) :
    v13 g = true ∧ g.demes = [] ∧ g.index = [] ∧ g.migrations = [] ∧ g.pulses = [] := by
  unfold resolveHeader at h
  obtain ⟨description, _, h⟩ := bind_ok.1 h
  extract_lets eg jp1 at h
  have h1 : ∃ tu, jp1 tu = .ok g := by
    cases hl : Obj.lookup "time_units" data with
    | some v => rw [hl] at h; obtain ⟨a, _, h⟩ := bind_ok.1 h; exact ⟨a, h⟩
    | none => rw [hl] at h; exact (keyErr_bind_ok.1 h).elim
  clear h
  obtain ⟨tu, h⟩ := h1
  dsimp -zeta only [jp1] at h
  extract_lets jp3 jp2 at h
  obtain ⟨htu, h⟩ := ite_verr h
  dsimp -zeta only [jp2] at h
  have h1 : ∃ gt : Option Q, (∀ q, gt = some q → 0 < q) ∧ jp3 gt = .ok g := by
    cases hl : Obj.lookupNN "generation_time" data with
    | none =>
      rw [hl] at h
      exact ⟨none, fun q hq => (by cases hq), pbind h⟩
    | some v =>
      rw [hl] at h
      obtain ⟨q, hq, h⟩ := bind_ok.1 h
      refine ⟨some q, ?_, pbind h⟩
      intro q' hq'
      cases hq'
      exact (posFiniteQ_ok hq).2
  clear h
  obtain ⟨gt, hgt, h⟩ := h1
  dsimp -zeta only [jp3] at h
  obtain ⟨doiRaw, _, h⟩ := bind_ok.1 h
  obtain ⟨doi, hdoi, h⟩ := bind_ok.1 h
  obtain ⟨metadata, _, h⟩ := bind_ok.1 h
  extract_lets gt' jp6 jp5 at h
  obtain ⟨hgt1, h⟩ := ite_verr h
  dsimp -zeta only [jp5] at h
  obtain ⟨hgt2, h⟩ := ite_verr h
  dsimp -zeta only [jp6] at h
  rw [pure_ok] at h
  subst h
  refine ⟨?_, rfl, rfl, rfl, rfl⟩
  simp only [v13, Bool.and_eq_true, Bool.not_eq_true', decide_eq_true_eq, Bool.or_eq_true, bne_iff_ne,
    beq_iff_eq, List.all_eq_true]
  refine ⟨⟨⟨by simpa using htu, ?_⟩, ?_⟩, ?_⟩
  · show 0 < gt.getD 1
    cases gt with
    | none => decide +kernel
    | some q => exact hgt q rfl
  · by_cases ht : tu = "generations"
    · right
      simp only [ht, decide_true, Bool.true_and, decide_eq_true_eq, Decidable.not_not] at hgt2
      exact hgt2
    · exact .inl ht
  · intro s hs
    obtain ⟨v, _, hv⟩ := (mapM_ok _ _ _ hdoi).2 s hs
    obtain ⟨s', _, hv⟩ := bind_ok.1 hv
    simp only [ite_ok, valueErr_ok, and_false, false_or, pure_ok] at hv
    obtain ⟨h1, rfl⟩ := hv
    simpa using h1

/-- invariant of the deme loop -/
structure Inv2 (g : Graph) : Prop where
  d : DInv g
  h13 : v13 g = true
  migs : g.migrations = []
  pulses : g.pulses = []

theorem v13_congr {g g' : Graph} (h1 : g'.timeUnits = g.timeUnits)
    (h2 : g'.generationTime = g.generationTime) (h3 : g'.doi = g.doi) (h : v13 g = true) :
    v13 g' = true := by
  simpa only [v13, h1, h2, h3] using h

theorem resolveDeme_inv {dd ged : Obj} {g g' : Graph} {x : Obj} (hi : Inv2 g)
    (h : resolveDeme dd ged g x = .ok g') : Inv2 g' ∧ g'.demes.length = g.demes.length + 1 := by
  obtain ⟨dh, eps, hh, he, hne, rfl⟩ := resolveDeme_ok h
  exact ⟨⟨hi.d.snoc hh he hne, v13_congr rfl rfl rfl hi.h13, hi.migs, hi.pulses⟩, by simp⟩

theorem Inv2_header {data : Obj} {g : Graph} (h : resolveHeader data = .ok g) : Inv2 g := by
  obtain ⟨h13, hd, hi, hm, hp⟩ := resolveHeader_ok h
  refine ⟨⟨?_, ?_, ?_, ?_, ?_, ?_, ?_, ?_⟩, h13, hm, hp⟩
  · simp [v0, hd, hi]
  · simp [hd]
  · simp [hd]
  · simp [v2, hd]
  · simp [v3, hd]
  · simp [v4, hd]
  · simp [v5, hd]
  · simp [v6, hd]

theorem demeLoop_ok {dd ged : Obj} {g0 g1 : Graph} {xs : List Obj} (h0 : Inv2 g0) (hd : g0.demes = [])
    (hne : xs ≠ []) (h : List.foldlM (resolveDeme dd ged) g0 xs = .ok g1) :
    Inv2 g1 ∧ g1.demes ≠ [] := by
  constructor
  · exact foldlM_inv Inv2 _ (fun s a s' hs hst => (resolveDeme_inv hs hst).1) _ _ _ h0 h
  · have := foldlM_count (fun s : Graph => s.demes.length) _ (fun s a s' hst => by
      obtain ⟨dh, eps, _, _, _, rfl⟩ := resolveDeme_ok hst
      simp) _ _ _ h
    intro he
    rw [he, hd] at this
    cases xs with
    | nil => exact hne rfl
    | cons _ _ => simp at this

end Demes.Proofs.RV
