/-
  Support for `Theorems/TablesGuardsToMs.lean` (C07) and `Theorems/TablesGuardsMsBuild.lean` (C08).
  Nothing here depends on `Generated/`.

  `…With`: the functions of `Model/Ms.lean` that inline a test of `ms.to_ms` / `ms.build_graph` on times, rates,
  counts or population indices, written once more with the test abstracted.  They only occur on the right-hand
  side of the `guards_tie_*` equations.
-/
import DemesVerif.Model.NumClose
import DemesVerif.Model.Ms
import DemesVerif.Proofs.Guards
namespace Demes.Proofs.Guards2
open Demes Demes.Ms

/-! ## `to_ms` -/

/-- `get_growth_rate`: `gFn epoch.size_function` raises, `gDiffer epoch.end_size epoch.start_size` -/
def getGrowthRateWith (gFn : String → Bool) (gDiffer : Num → Num → Bool) (N0 : Q) (e : Epoch) : Except Err Growth := do
  if gFn e.sizeFunction then
    valueErr "ms only supports constant or exponentially changing population sizes"
  if gDiffer (.fin e.endSize) (.fin e.startSize) then
    match e.startTime with
    | .inf => outOfModel "infinite epoch with unequal sizes"
    | .fin st =>
      let dt := (st - e.endTime) / (4 * N0)
      pure (.sym (e.startSize / e.endSize) dt)
  else pure .zero

/-- `demeSizeEvents`: `gChange size epoch.end_size` -/
def demeSizeEventsWith (gChange : Num → Num → Bool) (N0 : Q) (j : Nat) (d : Deme) : Except Err (List (Event Growth)) := do
  let (_, _, evs) ← d.epochs.reverse.foldlM (fun (st : Q × Growth × List (Event Growth)) (e : Epoch) => do
    let (size, growth, evs) := st
    let (growth, evs) ←
      if gChange (.fin size) (.fin e.endSize) then do
        if N0 = 0 then otherErr "ZeroDivisionError"
        let ev ← mkPopSizeChange "" (.fin e.endTime) (j : Int) (.fin (e.endSize / N0))
        pure (Growth.zero, evs ++ [ev])
      else pure (growth, evs)
    let alpha ← getGrowthRate N0 e
    let (growth, evs) ←
      if !(growth.eq alpha) then do
        let ev ← mkPopGrowthRateChange finG "" (.fin e.endTime) (j : Int) alpha
        pure (alpha, evs ++ [ev])
      else pure (growth, evs)
    pure (e.startSize, growth, evs)) (N0, Growth.zero, [])
  pure evs

/-- `ancestryEvents`: `gLast k len(deme.ancestors)`, `gMulti len(pulse.sources)` raises -/
def ancestryEventsWith (gLast : Nat → Nat → Bool) (gMulti : Nat → Bool)
    (g : Graph) (xs : List DemeOrPulse) (numDemes : Nat) : Except Err (List (Event Growth)) := do
  let (_, evs) ← xs.foldlM (fun (st : Nat × List (Event Growth)) (x : DemeOrPulse) =>
    match x with
    | .deme d =>
      (d.ancestors.zipIdx).foldlM (fun (st : Nat × List (Event Growth)) (ak : String × Nat) => do
        let (numDemes, evs) := st
        let (ancestor, k) := ak
        let ancId ← demeId g ancestor
        let pk ← match d.proportions[k]? with
          | some p => pure p
          | none => otherErr "IndexError"
        let den := sumFrom d.proportions k
        if den = 0 then otherErr "ZeroDivisionError"
        let proportion := pk / den
        let me ← demeId g d.name
        if gLast k d.ancestors.length then
          if !iscloseQ proportion 1 relTol 0 then assertionErr "math.isclose(proportion, 1)"
          let e ← mkJoin "" (Num.ofETime d.startTime) me ancId
          pure (numDemes, evs ++ [e])
        else
          let numDemes := numDemes + 1
          let e1 ← mkSplit "" (Num.ofETime d.startTime) me (.fin (1 - proportion))
          let e2 ← mkJoin "" (Num.ofETime d.startTime) (numDemes : Int) ancId
          pure (numDemes, evs ++ [e1, e2])) st
    | .pulse p => do
      let (numDemes, evs) := st
      let numDemes := numDemes + 1
      if gMulti p.sources.length then valueErr "Currently pulses with only a single source are supported"
      let dest ← demeId g p.dest
      let p0 ← match p.proportions.head? with
        | some x => pure x
        | none => otherErr "IndexError"
      let e1 ← mkSplit "" (.fin p.time) dest (.fin (1 - p0))
      let src ← match p.sources.head? with
        | some s => demeId g s
        | none => otherErr "IndexError"
      let e2 ← mkJoin "" (.fin p.time) (numDemes : Int) src
      pure (numDemes, evs ++ [e1, e2])) (numDemes, [])
  pure evs

/-- `migrationEvents`: `gOff migration.start_time graph[dest].start_time graph[source].start_time` -/
def migrationEventsWith (gOff : Num → Num → Num → Bool) (N0 : Q) (g : Graph) : Except Err (List (Event Growth)) := do
  let offs ← g.migrations.foldlM (fun (evs : List (Event Growth)) (m : Migration) => do
    let dd ← lookupDeme g m.dest
    let sd ← lookupDeme g m.source
    if gOff (Num.ofETime m.startTime) (Num.ofETime dd.startTime) (Num.ofETime sd.startTime) then
      let e ← mkMigEntryChange "" (Num.ofETime m.startTime) (← demeId g m.dest) (← demeId g m.source) (.fin 0)
      pure (evs ++ [e])
    else pure evs) []
  let ons ← g.migrations.mapM (fun (m : Migration) => do
    mkMigEntryChange (α := Growth) "" (.fin m.endTime) (← demeId g m.dest) (← demeId g m.source) (.fin (4 * N0 * m.rate)))
  pure (offs ++ ons)

/-- `toMs`: `gSamples (samples is None) len(samples) num_demes` raises, `gStructure num_demes`,
`gNoSamples (samples is None)` -/
def toMsWith (gSamples : Bool → Nat → Nat → Bool) (gStructure : Num → Bool) (gNoSamples : Bool → Bool)
    (graph : Graph) (N0 : Q) (samples : Option (List Int)) : Except Err (List (Tok Growth)) := do
  let g := inGenerations graph
  let numDemes := g.demes.length
  if gSamples samples.isNone ((samples.map List.length).getD 0) numDemes then
    valueErr "samples must match the number of demes in the graph"
  let cmd : List (Tok Growth) ←
    if gStructure (.fin (numDemes : Q)) then do
      let smp := if gNoSamples samples.isNone then List.replicate numDemes 0 else samples.getD []
      let st ← mkStructure (numDemes : Int) (smp.map toString) (.fin 0)
      pure st.print
    else pure []
  let sizeEvs ← (g.demes.zipIdx).foldlM (fun (evs : List (Event Growth)) (dj : Deme × Nat) => do
    pure (evs ++ (← demeSizeEvents N0 (dj.2 + 1) dj.1))) []
  let demesAndPulses := sortBy (fun a b => decide (a.key ≤ b.key))
    (g.pulses.reverse.map DemeOrPulse.pulse ++ g.demes.map DemeOrPulse.deme)
  let ancEvs ← ancestryEvents g demesAndPulses numDemes
  let migEvs ← migrationEvents N0 g
  let events := sizeEvs ++ ancEvs ++ migEvs
  let events := sortBy (fun a b => Num.le a.t b.t) events
  if N0 = 0 && !events.isEmpty then otherErr "ZeroDivisionError"
  let events ← events.mapM (fun e => do
    let t := numDivQ e.t (4 * N0)
    vT t
    pure (e.setT t))
  let toks ← events.mapM Event.print
  pure (cmd ++ toks.flatten)

/-! ## `build_graph` -/

/-- `convert_population_id`: `gBad population_id num_demes`, `gJoined joined pid` raise -/
def convertPopulationIdWith (gBad : Num → Num → Bool) (gJoined : List Nat → Nat → Bool) (s : BState) (i : Int) :
    Except Err Nat :=
  if gBad (.fin (i : Q)) (.fin (s.numDemes : Q)) then
    valueErr s!"Bad population ID '{i}': must be between 1 and num_demes ({s.numDemes})"
  else
    let pid := (i - 1).toNat
    if gJoined s.joined pid then valueErr s!"Bad population ID '{i}': population previously joined with -ej"
    else pure pid

/-- `epoch_resolve`: `gOutside time deme.start_time epoch.end_time` raises, `gNew time epoch.end_time` -/
def epochResolveWith (gOutside : Num → Num → Num → Bool) (gNew : Num → Num → Bool) (d : BDeme) (time : Q) :
    Except Err BDeme :=
  match d.epochs with
  | [] => otherErr "IndexError"
  | epoch :: older =>
    if gOutside (.fin time) (Num.ofETime d.startTime) (.fin epoch.endTime) then
      valueErr s!"time outside {d.name}'s existence interval"
    else if gNew (.fin time) (.fin epoch.endTime) then
      let growth := epoch.growthRate.getD 0
      let dt := time - epoch.endTime
      let sizeAtT := epoch.endSize.mulExp (-growth * dt)
      let epoch' : BEpoch := { epoch with growthRate := none, startSize := some sizeAtT }
      let newEpoch : BEpoch := { epoch with endSize := sizeAtT, endTime := time }
      pure { d with epochs := newEpoch :: epoch' :: older }
    else pure d

/-- `migration_matrix_at`: `gNew time mm_end_times[0]` -/
def migrationMatrixAtWith (gNew : Num → Num → Bool) (s : BState) (time : Q) : BState :=
  match s.mmList, s.mmEndTimes with
  | m :: _, e :: _ =>
    if gNew (.fin time) (.fin e) then { s with mmList := m :: s.mmList, mmEndTimes := time :: s.mmEndTimes } else s
  | _, _ => s

/-- the last loop of `build_graph`: `gGrowing growth_rate`, `gInf start_time` raises -/
def finaliseGrowthWith (gGrowing gInf : Num → Bool) (d : BDeme) : Except Err BDeme :=
  match d.epochs with
  | [] => otherErr "IndexError"
  | epoch :: older =>
    let growth := epoch.growthRate.getD 0
    if gGrowing (.fin growth) then
      if gInf (Num.ofETime d.startTime) then
        valueErr s!"{d.name}: growth rate for infinite-length epoch is invalid"
      else
        match d.startTime with
        | .inf => valueErr s!"{d.name}: growth rate for infinite-length epoch is invalid"
        | .fin st =>
          let dt := st - epoch.endTime
          pure { d with epochs := { epoch with growthRate := none, startSize := some (epoch.endSize.mulExp (-dt * growth)) } :: older }
    else pure { d with epochs := { epoch with growthRate := none, startSize := some epoch.endSize } :: older }

/-- `applyParams`: `gForeign j o proportion` selects an ancestor, `gNone len(ancestors)` skips,
`gReplaced lineage_movements[j][j]` chooses ancestry over a pulse -/
def applyParamsWith (gForeign : Num → Num → Num → Bool) (gNone : Nat → Bool) (gReplaced : Num → Bool)
    (time : Q) (s : BState) (g : GState) : BState :=
  g.params.foldl (fun s (jkp : Nat × Nat × Q) =>
    let (j, k, p) := jkp
    let row := g.lm.getD j []
    let anc := (row.zipIdx).filter (fun (po : Q × Nat) => gForeign (.fin (j : Q)) (.fin (po.2 : Q)) (.fin po.1))
    if gNone anc.length then s
    else if gReplaced (.fin (lmGet g.lm j j)) then
      { s with demes := s.demes.modify j (fun d =>
          { d with ancestors := some (anc.map (fun po => Ms.demeName po.2)), proportions := some (anc.map (·.1)) }) }
    else
      { s with pulses := some (s.pulses.getD [] ++
          [{ sources := [Ms.demeName k], dest := Ms.demeName j, time := time, proportions := [p] }]) }) s

/-- the event loop's body: `gGrowthAll` / `gGrowthOne current_growth_rate growth_rate` (`-eG` / `-eg`),
`gDiag pid_i pid_j` raises (`-em`), `gNpop event.npop num_demes` raises (`-ema`); everything else as in `stepEvent` -/
def stepEventWith (gGrowthAll gGrowthOne gDiag gNpop : Num → Num → Bool)
    (N0 : Q) (time : Q) (sg : BState × GState) (ev : Event Num) : Except Err (BState × GState) := do
  let (s, g) := sg
  match ev with
  | .growthRateChange _ _ alpha =>
    let growthRate := (← finArg "alpha" alpha) / (4 * N0)
    let s ← forLiveDemes s (fun d =>
      if gGrowthAll (.fin (curGrowth d)) (.fin growthRate) then do
        let d ← epochResolve d time
        pure (modifyHead d (fun e => { e with growthRate := some growthRate }))
      else pure d)
    pure (s, g)
  | .popGrowthRateChange _ _ i alpha =>
    let pid ← convertPopulationId s i
    let growthRate := (← finArg "alpha" alpha) / (4 * N0)
    let s ← modifyDeme s pid (fun d =>
      if gGrowthOne (.fin (curGrowth d)) (.fin growthRate) then do
        let d ← epochResolve d time
        pure (modifyHead d (fun e => { e with growthRate := some growthRate }))
      else pure d)
    pure (s, g)
  | .migEntryChange _ _ i j rate =>
    let pidI ← convertPopulationId s i
    let pidJ ← convertPopulationId s j
    if gDiag (.fin (pidI : Q)) (.fin (pidJ : Q)) then valueErr "Cannot set diagonal elements in migration matrix"
    let s := migrationMatrixAt s time
    pure (setMM0 s (mmSet (mm0 s) pidI pidJ rate), g)
  | .migMatrixChange opt _ npop mm =>
    let npop : Int := if opt = "-ma" then (s.numDemes : Int) else npop
    if gNpop (.fin (npop : Q)) (.fin (s.numDemes : Q)) then
      valueErr s!"-ema 'npop' ({npop}) doesn't match the current number of demes ({s.numDemes})"
    let s := migrationMatrixAt s time
    let m ← matrixOf npop mm
    let m := s.joined.foldl (fun m j =>
      (List.range s.numDemes).foldl (fun m k =>
        if j ≠ k then mmSet (mmSet m j k (.fin 0)) k j (.fin 0) else m) m) m
    pure (setMM0 s m, g)
  | ev => stepEvent N0 time (s, g) ev

end Demes.Proofs.Guards2
