/-
  C07 — `toMs_sem`: the demography denoted by the emitted command is that of the graph.
-/
import DemesVerif.Proofs.ToMsMoves7
set_option linter.unusedSimpArgs false
set_option linter.unusedVariables false
namespace Demes.Proofs.ToMs
open Demes Demes.Ms Demes.Spec Demes.Spec.C07 Demes.Proofs.RV
open Demes.Spec.MsSem

theorem exact_inGen (g : Graph) : ExactProportions (inGenerations g) = ExactProportions g := by
  simp [ExactProportions, List.all_map, Function.comp_def]

/-- what `toMs`, `parseCmd`, `msSemG` and `graphSem` return on a valid ms-expressible graph -/
theorem toMs_sem_run {graph : Graph} (hv : validGraph graph = true) (hx : MsExpressible graph = true)
    {N0 : Q} (hN : 0 < N0) {samples : Option (List Int)} (hs : samplesOk graph samples = true) :
    ∃ c cmd sem gs, toMs graph N0 samples = .ok c ∧ parseCmd c = some cmd ∧ msSemG cmd N0 = .ok sem
      ∧ graphSem (inGenerations graph) none = .ok gs
      ∧ popsMatch N0 sem gs = true ∧ migsMatch sem gs = true
      ∧ (ExactProportions graph = true → movesMatch sem gs = true) := by
  have c := clauses_of_valid (InGen.inGenerations_valid graph hv)
  have hx' : MsExpressible (inGenerations graph) = true := by rw [expr_inGen]; exact hx
  have hs' : samplesOk (inGenerations graph) samples = true := by rw [samplesOk_inGen]; exact hs
  obtain ⟨sem, hsem, hp, hsn, hm⟩ := msSemG_finalEvs c hx' hN samples
  refine ⟨_, _, sem, gSem (inGenerations graph), toMs_ok_eq hv hx hN hs, parseCmd_cmdOf c hx' hN hs', ?_,
    graphSem_ok c hx', popsMatch_run c hx' hN sem hp, migsMatch_run c hx' hN sem hsn, ?_⟩
  · exact hsem
  · intro hex
    exact movesMatch_run c hx' (by rw [exact_inGen]; exact hex) hN sem hm

/-- Statement of `Theorems.toMs_sem`. -/
theorem toMs_sem {graph : Graph} (hv : validGraph graph = true) (hx : MsExpressible graph = true)
    (hex : ExactProportions graph = true)
    {N0 : Q} (hN : 0 < N0) {samples : Option (List Int)} (hs : samplesOk graph samples = true) :
    ∃ c cmd sem gs, toMs graph N0 samples = .ok c ∧ parseCmd c = some cmd ∧ msSemG cmd N0 = .ok sem
      ∧ graphSem (inGenerations graph) none = .ok gs ∧ semMatches N0 sem gs = true := by
  obtain ⟨c, cmd, sem, gs, h1, h2, h3, h4, h5, h6, h7⟩ := toMs_sem_run hv hx hN hs
  exact ⟨c, cmd, sem, gs, h1, h2, h3, h4, by simp [semMatches, h5, h6, h7 hex]⟩

end Demes.Proofs.ToMs
