#!/usr/bin/env python3
"""Re-pin lean/DemesVerif/Model/Pinned.lean from the freshly generated tables.
Run BY HAND after a deliberate change of the source that the Model has been brought in line
with (never by a check)."""
import os
LEAN = os.path.join(os.path.dirname(os.path.dirname(os.path.abspath(__file__))), "lean")
out = ["/-\n  Pinned copies of the source tables the Model was written against (classes' attr.ib\n  validators, ms parser and option records, CLI flags).  Produced from Generated/*.lean by\n  harness/pin_tables.py, by hand (never at check time); `Theorems/Tables*.lean` prove the\n  freshly regenerated tables equal to these.\n-/", "namespace Demes.Pinned", ""]
for f in ["Resolve", "Ms"]:
    s = open(os.path.join(LEAN, "DemesVerif", "Generated", f + ".lean")).read()
    s = s.split("namespace Demes.Generated")[1].split("end Demes.Generated")[0]
    if f == "Resolve":
        s = s[s.index("/-- per class"):]
    out.append(s.strip())
    out.append("")
out.append("end Demes.Pinned\n")
open(os.path.join(LEAN, "DemesVerif", "Model", "Pinned.lean"), "w").write("\n".join(out))
print("pinned")
