/-
  Specification vocabulary for C15 (renaming demes): which renamings are legitimate, and what
  the renamed deme / migration / pulse is, written independently of `Demes.renameDemes`.
-/
import DemesVerif.Spec.Relations
namespace Demes.Spec
open Demes

/-- the names of the demes of a graph, in deme order -/
def nameList (g : Graph) : List String := g.demes.map (·.name)

/-- A legitimate renaming of (some or all) demes of `g`:
* its keys are pairwise distinct (it is a Python `dict`) and are names of demes of `g`;
* the resulting list of names is pairwise distinct, i.e. `r.apply` is injective on the names of
  the graph — swaps, chains (`A ↦ B` together with `B ↦ C`) and arbitrary permutations are allowed;
* every resulting name is a valid identifier. -/
def RenameOK (g : Graph) (r : Renaming) : Prop :=
  (r.map (·.1)).Nodup
  ∧ (∀ k ∈ r.map (·.1), k ∈ g.demes.map (·.name))
  ∧ (g.demes.map (fun d => r.apply d.name)).Nodup
  ∧ (∀ d ∈ g.demes, isIdentifier (r.apply d.name) = true)

instance (g : Graph) (r : Renaming) : Decidable (RenameOK g r) := by
  unfold RenameOK; infer_instance

/-- the deme `d` after renaming: new name, new ancestor names, everything else as it was -/
def renamedDeme (r : Renaming) (d : Deme) : Deme :=
  { name := r.apply d.name, description := d.description, startTime := d.startTime,
    ancestors := d.ancestors.map r.apply, proportions := d.proportions, epochs := d.epochs }

def renamedMigration (r : Renaming) (m : Migration) : Migration :=
  { source := r.apply m.source, dest := r.apply m.dest, startTime := m.startTime,
    endTime := m.endTime, rate := m.rate }

def renamedPulse (r : Renaming) (p : Pulse) : Pulse :=
  { sources := p.sources.map r.apply, dest := r.apply p.dest, time := p.time,
    proportions := p.proportions }

/-- the renaming read backwards: every `old ↦ new` becomes `new ↦ old` -/
def inverseRenaming (r : Renaming) : Renaming := r.map (fun kv => (kv.2, kv.1))

end Demes.Spec
