/-
  Proofs for C15, the checked function: `Graph.rename_demes` with the validation added by the
  repair of defect F23 (`renameDemesChecked`, Model/Views.lean).

  The validity half of C15 (`rename_data_valid`, `rename_index`, `rename_valid`, the lookups) uses
  of `RenameOK g r` only its last two clauses — the resulting names are pairwise distinct and are
  identifiers — which is exactly what `renameNamesOk` checks.  "The keys are distinct" and "the
  keys are names of `g`" are needed only for the inverse theorems.  So the checked function returns
  a valid graph for EVERY renaming it accepts.
-/
import DemesVerif.Proofs.Rename
namespace Demes.Proofs
open Demes Demes.Spec

/-! ### what the check says -/

/-- `renameNamesOk` read as a proposition: the last two clauses of `RenameOK` -/
theorem renameNamesOk_iff (g : Graph) (r : Renaming) :
    renameNamesOk g r = true ↔
      (g.demes.map (fun d => r.apply d.name)).Nodup
      ∧ (∀ d ∈ g.demes, isIdentifier (r.apply d.name) = true) := by
  unfold renameNamesOk
  simp only [Bool.and_eq_true, List.all_map, List.all_eq_true, decide_eq_true_eq, Function.comp_def]
  exact And.comm

theorem renameOK_namesOk {g : Graph} {r : Renaming} (h : RenameOK g r) : renameNamesOk g r = true :=
  (renameNamesOk_iff g r).mpr ⟨h.2.2.1, h.2.2.2⟩

/-! ### the checked function -/

theorem renameChecked_ok_iff (g : Graph) (r : Renaming) (g' : Graph) :
    renameDemesChecked g r = .ok g' ↔ renameNamesOk g r = true ∧ g' = renameDemes g r := by
  unfold renameDemesChecked
  cases h : renameNamesOk g r with
  | true =>
    simp only [if_true, true_and]
    show Except.ok (renameDemes g r) = Except.ok g' ↔ _
    constructor
    · intro e; injection e with e; exact e.symm
    · intro e; rw [e]
  | false =>
    simp only [Bool.false_eq_true, if_false, false_and, iff_false]
    intro e; cases e

theorem renameChecked_rejects (g : Graph) (r : Renaming) (h : renameNamesOk g r = false) :
    renameDemesChecked g r
      = .error ⟨.value, "invalid or colliding deme names after renaming"⟩ := by
  unfold renameDemesChecked
  rw [h]
  rfl

theorem renameChecked_error_iff (g : Graph) (r : Renaming) :
    (∃ e, renameDemesChecked g r = .error e) ↔ renameNamesOk g r = false := by
  constructor
  · rintro ⟨e, he⟩
    cases h : renameNamesOk g r with
    | false => rfl
    | true =>
      have := (renameChecked_ok_iff g r (renameDemes g r)).mpr ⟨h, rfl⟩
      rw [this] at he; cases he
  · intro h; exact ⟨_, renameChecked_rejects g r h⟩

theorem renameOK_implies_checked (g : Graph) (r : Renaming) (h : RenameOK g r) :
    renameDemesChecked g r = .ok (renameDemes g r) :=
  (renameChecked_ok_iff g r _).mpr ⟨renameOK_namesOk h, rfl⟩

/-! ### validity from the two checked clauses only -/

section weak
variable {g : Graph} {r : Renaming}

theorem inj_of_nodup (hn : (g.demes.map (fun d => r.apply d.name)).Nodup) : InjNames g r := by
  have hn' : ((nameList g).map r.apply).Nodup := by
    simpa only [nameList, List.map_map, Function.comp_def] using hn
  intro a ha b hb hab
  exact List.inj_on_of_nodup_map hn' ha hb hab

theorem rename_v1_of_names (h : v1 g = true)
    (hn : (g.demes.map (fun d => r.apply d.name)).Nodup)
    (hid : ∀ d ∈ g.demes, isIdentifier (r.apply d.name) = true) : v1 (renameDemes g r) = true := by
  unfold v1 at h ⊢
  simp only [Bool.and_eq_true, decide_eq_true_eq, List.all_eq_true, Bool.not_eq_true',
    List.isEmpty_eq_false_iff] at h ⊢
  rw [rename_demes_eq]
  refine ⟨⟨?_, ?_⟩, ?_⟩
  · intro e; exact h.1.1 (List.map_eq_nil_iff.mp e)
  · intro d hd
    obtain ⟨d0, hd0, rfl⟩ := List.mem_map.mp hd
    exact hid d0 hd0
  · simpa only [List.map_map, Function.comp_def, renamedDeme] using hn

/-- V1–V13 after any renaming whose resulting names are distinct identifiers -/
theorem rename_data_valid_of_names (hd : validData g = true)
    (hn : (g.demes.map (fun d => r.apply d.name)).Nodup)
    (hid : ∀ d ∈ g.demes, isIdentifier (r.apply d.name) = true) :
    validData (renameDemes g r) = true := by
  have hi := inj_of_nodup hn
  unfold validData at hd ⊢
  simp only [Bool.and_eq_true] at hd ⊢
  obtain ⟨⟨⟨⟨⟨⟨⟨⟨⟨⟨⟨h1, h2⟩, h3⟩, h4⟩, h5⟩, h6⟩, h8⟩, h9⟩, h10⟩, h11⟩, h12⟩, h13⟩ := hd
  exact ⟨⟨⟨⟨⟨⟨⟨⟨⟨⟨⟨rename_v1_of_names h1 hn hid, rename_v2 h2 h3 hi⟩, rename_v3 h3 hi⟩, rename_v4 h4⟩,
    rename_v5 h5⟩, rename_v6 h6⟩, rename_v8 h8 hi⟩, rename_v9 h9 h8 hi⟩, rename_v10 h10 h8 hi⟩,
    rename_v11 h11 hi⟩, rename_v12 h12⟩, rename_v13 h13⟩

/-- V0 after any renaming whose resulting names are distinct -/
theorem rename_index_of_names (hn : (g.demes.map (fun d => r.apply d.name)).Nodup) :
    v0 (renameDemes g r) = true := by
  rw [v0_iff, rename_index_eq, rename_demes_eq]
  apply rebuildIndex_eq
  simpa only [List.map_map, Function.comp_def, renamedDeme] using hn

theorem rename_valid_of_names (hv : validGraph g = true)
    (hn : (g.demes.map (fun d => r.apply d.name)).Nodup)
    (hid : ∀ d ∈ g.demes, isIdentifier (r.apply d.name) = true) :
    validGraph (renameDemes g r) = true := by
  unfold validGraph at hv ⊢
  rw [Bool.and_eq_true] at hv ⊢
  exact ⟨rename_index_of_names hn, rename_data_valid_of_names hv.2 hn hid⟩

end weak

/-- whatever the checked function returns is a valid graph — for every renaming -/
theorem renameChecked_valid (g : Graph) (r : Renaming) (g' : Graph) (hv : validGraph g = true)
    (h : renameDemesChecked g r = .ok g') : validGraph g' = true := by
  obtain ⟨hok, rfl⟩ := (renameChecked_ok_iff g r g').mp h
  obtain ⟨hn, hid⟩ := (renameNamesOk_iff g r).mp hok
  exact rename_valid_of_names hv hn hid

/-- lookup by a new name in the result of the checked function — for every renaming -/
theorem renameChecked_lookup (g : Graph) (r : Renaming) (g' : Graph)
    (h : renameDemesChecked g r = .ok g') {d : Deme} (hd : d ∈ g.demes) :
    g'.deme? (r.apply d.name) = some (renamedDeme r d) := by
  obtain ⟨hok, rfl⟩ := (renameChecked_ok_iff g r g').mp h
  obtain ⟨hn, _⟩ := (renameNamesOk_iff g r).mp hok
  have hn' : ((renameDemes g r).demes.map (·.name)).Nodup := by
    simpa only [rename_demes_eq, List.map_map, Function.comp_def, renamedDeme] using hn
  have hm : renamedDeme r d ∈ (renameDemes g r).demes := by
    rw [rename_demes_eq]; exact List.mem_map_of_mem hd
  exact deme?_of_valid (rename_index_of_names hn) hn' hm

/-- `name in graph` for the result of the checked function: exactly the new names -/
theorem renameChecked_hasName (g : Graph) (r : Renaming) (g' : Graph)
    (h : renameDemesChecked g r = .ok g') (x : String) :
    g'.hasName x = true ↔ ∃ d ∈ g.demes, x = r.apply d.name := by
  obtain ⟨hok, rfl⟩ := (renameChecked_ok_iff g r g').mp h
  obtain ⟨hn, _⟩ := (renameNamesOk_iff g r).mp hok
  rw [hasName_iff_of_v0 (rename_index_of_names hn)]
  unfold nameList
  rw [rename_demes_eq, List.map_map, List.mem_map]
  constructor
  · rintro ⟨d, hd, e⟩; exact ⟨d, hd, e.symm⟩
  · rintro ⟨d, hd, e⟩; exact ⟨d, hd, e.symm⟩

/-! ### a renaming outside `RenameOK` that the check accepts

Keys that are not deme names and repeated keys (impossible in a Python `dict`, harmless in the
Model: the first occurrence wins) do not matter to the check. -/

/-- `ghost ↦ Z` names no deme, and `A` is listed twice -/
def sloppyRenaming : Renaming := [("ghost", "Z"), ("A", "X"), ("A", "Y")]

end Demes.Proofs
