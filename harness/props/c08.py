"""C08 — a graph built from an ms command line describes the same demography."""
from __future__ import annotations

import itertools
import json
import re
from collections import Counter
from fractions import Fraction

from props.ms_common import *  # noqa: F401,F403
from props import ms_common as M

RULE = ("ms command lines over -I -n -g -G -m -ma -eG -eg -eN -en -eM -em -ema -es -ej + ignored options (-t -T -r -s "
        "-seeds -p -L): 1-3 populations, <= 8 (thorough <= 12) events on a grid of <= 4 dyadic times, all orders of "
        "same-time options, N0 in {1, 2, 64, 1/4}, invalid indices / values / arities with small probability, optional "
        "deme_names; thorough additionally every command with <= 3 events over a 2-point time grid on 2 populations "
        "(budget permitting); a case is one (command, N0, names); non-trivial = the command has at least one "
        "demographic event and reaches build_graph")
ASSUMPTIONS = [
    "exact stream: every number is a dyadic rational spelled so that float() reads it exactly; sizes that went through "
    "math.exp are symbolic in the Model (coef*exp(expo)) and compared with the code's double at 1e-9 relative",
    "float residue excluded by construction (counted in the evidence): commands in which growth exponents could cancel "
    "to 0; -eM / -I rates are multiples of 60*2^-k so that x/(npop-1) is dyadic; |growth*dt| < 40",
    "inf / nan in time, size and growth positions, '-f', '-h', '--' and underscores in numbers are outside the Model "
    "(never generated); inf / nan / 'x' migration entries are modelled",
    "Spec (ms manual reading, DESIGN §9): matrix entries that involve an already joined population are ignored",
]
EXPLANATION = ("Theorems fromMs_valid_all, fromMs_ignores_*, fromMs_deme_k_is_population_k, the stage lemmas, parsers_agree, "
               "fromMs_sizes_migs_sem (every command) and the end-to-end refinement fromMs_sem / fromMs_sem_plain on the fragment "
               "Tame' (counterexample theorems for the known findings outside it) over the Lean Model of build_parser / "
               "build_graph / from_ms; the Model is tied to the code by "
               "differential comparison (accept/reject and the resolved graph incl. name index); the independent "
               "backwards-time interpreter Spec.MsSem.msSem is compared with graphSem of the code's own graph; "
               "same-time permutations that the Spec says are equivalent must be accepted alike.")

CORPUS = [
    ("-I 2 1 1 -ej 1.0 2 1", 1, None),
    ("-I 2 1 1 -eN 1.0 2.0 -ej 1.0 2 1", 1, None),            # F4
    ("-I 2 1 1 -ej 1.0 2 1 -eN 1.0 2.0", 1, None),
    ("-I 2 1 1 -es 1.0 2 0.5 -es 1.0 3 0.5", 1, None),        # F5
    ("-I 2 1 1 -es 1.0 1 0.25 -ej 1.0 3 2", 2, None),
    ("-I 2 1 1 0.5 -g 1 1.0 -en 0.5 1 2 -ej 1.0 2 1 -t 5 -T", 1, None),
    ("-I 3 1 1 1 -ma x 0.25 0.5 0.25 x 0.5 0.25 0.125 x -ej 0.5 3 2 -ema 0.75 3 x 0.5 x 0.5 x x x x x -ej 1 2 1", 1, ["A", "B", "C"]),
    ("-I 2 1 1 -es 0.5 1 0.0 -ej 0.5 3 2", 1, None),          # the shape to_ms prints for a pulse of proportion 1 (F6)
    ("-G 1.0 -eN 0.5 2", 64, None),
    ("-I 3 1 1 1 -es 1.0 2 0.75 -es 1.0 1 0.125 -ej 1.0 4 1 -ej 1.0 5 3", 1, None),   # interleaved pairs
    ("-I 3 1 1 1 -es 1.0 2 0.75 -ej 1.0 4 1 -es 1.0 1 0.125 -ej 1.0 5 3", 1, None),
    ("-I 3 1 1 1 -ej 1.0 2 3 -ej 1.0 3 1 -es 1.0 1 0.25", 1, None),                       # join chain, then split
    ("-I 2 1 1 -ej 1.0 2 1 -es 1.0 1 0.25", 1, None),
    ("-I 2 1 1 -n 1 2 -g 1 -1.0 -eg 0.25 1 0.0 -ej 0.5 2 1", Fraction(1, 4), None),
]

SPEC_DOMAIN_ERRORS = ("unknown option", "too few", "not a finite number", "not an integer", "negative", "population index")


def split_options(tokens):
    """[(flag, [tokens])] using argparse's rule for what starts an option (letters after '-')"""
    out = []
    for t in tokens:
        if t.startswith("-") and len(t) > 1 and not (t[1].isdigit() or t[1] == "."):
            out.append([t])
        elif out:
            out[-1].append(t)
        else:
            out.append([t])
    return out


def event_time(opt):
    if opt[0] in ("-eG", "-eg", "-eN", "-en", "-eM", "-em", "-ema", "-es", "-ej") and len(opt) > 1:
        try:
            return Fraction(float(opt[1]))
        except (ValueError, OverflowError):
            return None
    return None


def same_time_variants(rng, cmd, limit=4):
    """commands that differ from `cmd` by a permutation of one same-time group of event options"""
    opts = split_options(cmd.tokens)
    by_t = {}
    for k, o in enumerate(opts):
        t = event_time(o)
        if t is not None:
            by_t.setdefault(t, []).append(k)
    groups = [ks for ks in by_t.values() if len(ks) >= 2]
    if not groups:
        return []
    ks = rng.choice(groups)
    perms = list(itertools.permutations(ks))[1:]
    rng.shuffle(perms)
    out = []
    for p in perms[:limit]:
        new = list(opts)
        for src, dst in zip(p, ks):
            new[dst] = opts[src]
        out.append(M.Cmd([t for o in new for t in o], cmd.N0, cmd.names, cmd.tags))
    return out


def f5_shape(tokens):
    """an -es that splits a population created by an -es with the same time"""
    opts = [o for o in split_options(tokens) if o[0] in ("-es",) and len(o) >= 3]
    npop = 1
    so = split_options(tokens)
    for o in so:
        if o[0] == "-I" and len(o) > 1 and o[1].lstrip("+").isdigit():
            npop = int(o[1])
    # populations created in time order (stable)
    es = sorted([(event_time(o), k, o) for k, o in enumerate(opts) if event_time(o) is not None], key=lambda x: x[0])
    created = {}
    n = npop
    for t, _, o in es:
        n += 1
        created[n] = t
    for t, _, o in es:
        if o[2].lstrip("+").isdigit() and created.get(int(o[2])) == t:
            return True
    return False


def p0_shape(tokens):
    """an -es with p = 0: every lineage leaves the split population"""
    for o in split_options(tokens):
        if o[0] == "-es" and len(o) >= 4:
            try:
                if float(o[3]) == 0:
                    return True
            except ValueError:
                pass
    return False


def interleaved_shape(tokens):
    """same-time group: a population a receives lineages (it is created by an -es, or is the target of
    an -ej); population i is split by an -es; later -ej a i: a's lineages arrive in i after i was
    split, but the pulses from_ms writes are those of another order of the group"""
    so = split_options(tokens)
    npop = 1
    for o in so:
        if o[0] == "-I" and len(o) > 1 and o[1].lstrip("+").isdigit():
            npop = int(o[1])
    evs = sorted([(event_time(o), k, o) for k, o in enumerate(so) if event_time(o) is not None], key=lambda x: x[0])
    n = npop
    group_t, received, split = None, set(), set()
    for pos, (t, _, o) in enumerate(evs):
        if t != group_t:
            group_t, received, split = t, set(), set()
        try:
            if o[0] == "-es":
                n += 1
                received.add(n)
                split.add(int(o[2]))
            elif o[0] == "-ej":
                a, i = int(o[2]), int(o[3])
                if a in received and i in split:
                    return True
                received.add(i)
        except (ValueError, IndexError):
            return False
    return False


def chain_shape(tokens):
    """same-time group: -ej a b, then -ej b c (b's own join consumes a's bookkeeping entry), and either an
    -es / -ej afterwards that moves the lineages of c, or an -es of b between the two joins (the lineages that
    arrived in b from a then miss b's split)"""
    so = split_options(tokens)
    evs = sorted([(event_time(o), k, o) for k, o in enumerate(so) if event_time(o) is not None], key=lambda x: x[0])
    group_t, received, targets, split_after_receive = None, set(), set(), set()
    for t, _, o in evs:
        if t != group_t:
            group_t, received, targets, split_after_receive = t, set(), set(), set()
        try:
            if o[0] == "-ej":
                a, b = int(o[2]), int(o[3])
                if a in targets:
                    return True
                if a in split_after_receive:
                    return True
                if a in received:
                    targets.add(b)
                received.add(b)
            elif o[0] == "-es":
                i = int(o[2])
                if i in targets:
                    return True
                if i in received:
                    split_after_receive.add(i)
        except (ValueError, IndexError):
            return False
    return False


def f4_shape(tokens):
    """a size / growth event and an -ej at the same time"""
    so = split_options(tokens)
    tj = {event_time(o) for o in so if o[0] == "-ej"}
    return any(o[0] in ("-eN", "-eG", "-en", "-eg") and event_time(o) in tj for o in so)


def requests_for(cmd, code):
    toks = cmd.tokens
    n0 = M.num_str(cmd.N0)
    reqs = [{"op": "from_ms", "tokens": toks, "N0": n0, "names": cmd.names},
            {"op": "ms_sem", "tokens": toks, "N0": n0}]
    if code[0] == "ok":
        g = code[1]
        pops = cmd.names if cmd.names is not None else None
        if pops is None:
            # population k is deme{k}; removed (transient) populations simply have no deme
            top = max([int(d.name[4:]) for d in g.demes if d.name.startswith("deme") and d.name[4:].isdigit()] + [len(g.demes)])
            pops = [f"deme{k + 1}" for k in range(top)]
        reqs.append({"op": "graph_sem", "graph": enc(g.asdict()), "names": pops})
    return reqs


def judge(ctx, cmd, code, reps, stats, probe_of=None):
    """compare one command's results; returns (code accepted, decoded ms_sem or None)"""
    model, spec = reps[0], reps[1]
    gsem = reps[2] if len(reps) > 2 else None
    accepted = code[0] == "ok"
    nontrivial = any(t in ("-eG", "-eg", "-eN", "-en", "-eM", "-em", "-ema", "-es", "-ej") for t in cmd.tokens)
    tags = list(cmd.tags) + (["accept"] if accepted else ["reject:" + code[1]])
    if "fail" in model:
        raise RuntimeError(f"driver failure: {model}")
    oom = "msg" in model and model["msg"].startswith("OUT-OF-MODEL")
    if oom:
        stats["out_of_model"] += 1
        tags.append("out_of_model")
    if "ok" in model and any(dec(e[k]["expo"]) != 0 for d in model["ok"]["demes"] for e in d["epochs"] for k in ("start_size", "end_size")):
        tags.append("symbolic_sizes")
    if "err" in model and not oom:
        tags.append("model_reject:" + re.sub(r"[0-9]+", "#", model.get("msg", ""))[:34])
    ctx.count(cmd.case(), nontrivial and not oom, tags=tags)
    stats["accepted" if accepted else "rejected"] += 1
    if not accepted:
        stats["error:" + code[1]] += 1
    # ---- Model = code
    if not oom:
        ctx.compared += 1
        if accepted != ("ok" in model):
            ctx.disagreement("from_ms accept/reject", cmd.case(), "accepted" if accepted else f"rejected ({code[1]}: {code[2]})",
                             model if "ok" not in model else "accepted")
        elif accepted:
            why = M.cmp_from_ms_graph(code[1], model)
            if why:
                ctx.disagreement("from_ms graph", cmd.case(), show(canon(code[1].asdict())), {"difference": why, "model": model["ok"]})
    # ---- Spec oracle on the code's own behaviour
    sem = None
    if "ok" in spec:
        sem = M.sem_decode(spec["ok"])
        stats["spec_valid"] += 1
        if accepted:
            if gsem is None or "ok" not in gsem:
                ctx.violation("from_ms: the returned graph has no demography under graphSem", cmd.case(), detail=gsem, python=cmd.repro())
            else:
                why = M.cmp_sem(sem, M.sem_decode(gsem["ok"]))
                if why:
                    shape = ""
                    if f5_shape(cmd.tokens) and why.startswith("lineage movements"):
                        shape = " [split of a population created at the same time]"
                    elif p0_shape(cmd.tokens) and why.startswith("lineage movements"):
                        shape = " [-es with p = 0]"
                    elif interleaved_shape(cmd.tokens) and why.startswith("lineage movements"):
                        shape = " [interleaved same-time -es/-ej pairs]"
                    elif chain_shape(cmd.tokens) and why.startswith("lineage movements"):
                        shape = " [chain of same-time joins followed by a split/join of its target]"
                    elif why.startswith("lineage movements"):
                        # no listed shape: is the command at least outside the fragment on which from_ms is PROVED right
                        # (fromMs_sem2: Tame2, fromMs_sem3: Tame3)?  Inside them, a wrong result contradicts the theorem and is never attributed.
                        tr = ctx.driver.batch([{"op": "ms_tame", "tokens": cmd.tokens}])[0]
                        if "ok" in tr and not tr["ok"]["tame2"] and not tr["ok"]["tame3"] and not tr["ok"].get("tame13", False):
                            shape = " [same-time -es/-ej group outside the proved fragments Tame2 and Tame3]"
                    ctx.violation("from_ms: graph differs from the ms semantics" + shape + ": " + why.split(":")[0],
                                  cmd.case(), detail={"difference": why}, python=cmd.repro())
                else:
                    stats["spec_agree"] += 1
        else:
            stats["rejected_but_spec_valid"] += 1
    else:
        msg = spec.get("msg", "")
        if any(s in msg for s in SPEC_DOMAIN_ERRORS):
            stats["spec_out_of_domain"] += 1
        else:
            stats["spec_invalid"] += 1
            if accepted:
                ctx.violation("from_ms: accepted a command that has no meaning under the ms semantics: " + msg.split("(")[0].strip(),
                              cmd.case(), detail={"spec": msg}, python=cmd.repro())
    return accepted, sem


def process(ctx, cmds, stats, rng_probe=None, probe_rate=0.0):
    codes = [M.code_from_ms(c) for c in cmds]
    reqs, spans = [], []
    for c, code in zip(cmds, codes):
        r = requests_for(c, code)
        spans.append((len(reqs), len(reqs) + len(r)))
        reqs += r
    reps = ctx.driver.batch(reqs)
    results = []
    for c, code, (a, b) in zip(cmds, codes, spans):
        results.append(judge(ctx, c, code, reps[a:b], stats))
    # ---- order probe: same-time permutations the Spec considers equivalent must be accepted alike
    if rng_probe is not None and probe_rate > 0:
        variants, owner = [], []
        for k, (c, (acc, sem)) in enumerate(zip(cmds, results)):
            if sem is not None and "same_time" in c.tags and rng_probe.random() < probe_rate:
                for v in same_time_variants(rng_probe, c):
                    variants.append(v)
                    owner.append(k)
        if variants:
            vcodes = [M.code_from_ms(v) for v in variants]
            vreqs, vspans = [], []
            for v, code in zip(variants, vcodes):
                r = requests_for(v, code)
                vspans.append((len(vreqs), len(vreqs) + len(r)))
                vreqs += r
            vreps = ctx.driver.batch(vreqs)
            for v, code, (a, b), k in zip(variants, vcodes, vspans, owner):
                vacc, vsem = judge(ctx, v, code, vreps[a:b], stats)
                acc, sem = results[k]
                stats["order_probes"] += 1
                if vsem is not None and vsem == sem:
                    stats["order_probes_spec_equal"] += 1
                    if vacc != acc:
                        shape = " [size/growth event and -ej at the same time]" if f4_shape(v.tokens) else ""
                        good, badc = (cmds[k], v) if acc else (v, cmds[k])
                        ctx.violation("from_ms: acceptance depends on the order of equivalent same-time options" + shape,
                                      {"accepted": good.case(), "rejected": badc.case()},
                                      detail={"note": "the Spec interpreter gives both orders the same demography"},
                                      python=badc.repro())


def run(ctx):
    stats = Counter()
    thorough = ctx.tier != "quick"
    target = 3000 if not thorough else 15000
    corpus = [M.Cmd(c.split(), Fraction(n0), names, ["corpus"]) for c, n0, names in CORPUS]
    process(ctx, corpus, stats, ctx.rng, 1.0)
    done = 0
    while done < target and ctx.time_left() > (8 if not thorough else 60):
        batch = []
        while len(batch) < 300:
            c = M.gen_command(ctx.rng, max_events=12 if thorough else 8)
            if M.cancel_risk(c.tokens):
                stats["excluded_cancellation"] += 1
                continue
            batch.append(c)
        process(ctx, batch, stats, ctx.rng, 0.35)
        done += len(batch)
    if thorough:
        n = 0
        buf = []
        complete = True
        for c in M.small_scope_commands():
            if ctx.time_left() < 25:
                complete = False
                break
            buf.append(c)
            if len(buf) == 400:
                process(ctx, buf, stats)
                n += len(buf)
                buf = []
        if buf:
            process(ctx, buf, stats)
            n += len(buf)
        stats["small_scope_commands"] = n
        ctx.exhaustive = complete
    ctx.extra["ms_command_stats"] = dict(stats)


def replay(ctx, payload):
    inp = payload["input"]
    for case in ([inp] if "command" in inp else [inp.get("accepted"), inp.get("rejected")]):
        if not case:
            continue
        n0 = float(Fraction(case["N0"]))
        try:
            g = demes.from_ms(case["command"], N0=n0, deme_names=case.get("deme_names"))
            print("implementation: accepted\n", g)
        except Exception as e:  # noqa: BLE001
            print("implementation: rejected", type(e).__name__, e)
        reps = ctx.driver.batch([{"op": "from_ms", "tokens": case["command"].split(), "N0": case["N0"], "names": case.get("deme_names")},
                                 {"op": "ms_sem", "tokens": case["command"].split(), "N0": case["N0"]}])
        print("model:", json.dumps(reps[0])[:2000])
        print("spec :", json.dumps(reps[1])[:2000])
    return 0
