/-
  `Graph.fromdict` and the helpers it calls (demes/demes.py), statement by statement.
  Only accept/reject and the resulting graph are meant to agree with the implementation;
  the error class is best effort.
-/
import DemesVerif.Model.Matrices
namespace Demes
open Obj

/-! ### field tables (pinned to the source by `Theorems/Tables.lean`) -/

def allowedTop : List String :=
  ["description", "time_units", "generation_time", "defaults", "doi", "metadata",
   "demes", "migrations", "pulses"]
def allowedDefaults : List String := ["deme", "migration", "pulse", "epoch"]
def allowedDeme : List String := ["description", "start_time", "ancestors", "proportions"]
def allowedDemeInner : List String := allowedDeme ++ ["name", "defaults", "epochs"]
def allowedMigration : List String :=
  ["demes", "source", "dest", "start_time", "end_time", "rate"]
def allowedPulse : List String := ["sources", "dest", "time", "proportions"]
def allowedEpoch : List String :=
  ["end_time", "start_size", "end_size", "size_function", "cloning_rate", "selfing_rate"]
def allowedLocalDefaults : List String := ["epoch"]
def sizeFunctions : List String := ["constant", "exponential", "linear"]

/-! ### validators -/

/-- `int_or_float` -/
def intOrFloat (v : Value) : Except Err Num :=
  match v.asNumRaw? with
  | some n => if n.isNan then typeErr "must be a number (NaN)" else pure n
  | none => typeErr "must be a number"

def vPositive (n : Num) : Except Err Unit :=
  if Num.le n Num.zero then valueErr "must be greater than zero" else pure ()
def vNonNegative (n : Num) : Except Err Unit :=
  if Num.lt n Num.zero then valueErr "must be non-negative" else pure ()
def vFinite (n : Num) : Except Err Unit :=
  if n.isInf then valueErr "must be finite" else pure ()
def vUnitInterval (n : Num) : Except Err Unit :=
  if Num.le Num.zero n && Num.le n Num.one then pure () else valueErr "must have 0 <= x <= 1"
def vUnitIntervalExLo (n : Num) : Except Err Unit :=
  if Num.lt Num.zero n && Num.le n Num.one then pure () else valueErr "must have 0 < x <= 1"

def toQ (n : Num) : Except Err Q :=
  match n with
  | .fin q => pure q
  | _ => valueErr "must be finite"

def toETime (n : Num) : Except Err ETime :=
  match n with
  | .fin q => pure (.fin q)
  | .pinf => pure .inf
  | _ => valueErr "must be a time"

/-- `[int_or_float, positive, finite]` -/
def posFiniteQ (v : Value) : Except Err Q := do
  let n ← intOrFloat v; vPositive n; vFinite n; toQ n
/-- `[int_or_float, non_negative, finite]` -/
def nonNegFiniteQ (v : Value) : Except Err Q := do
  let n ← intOrFloat v; vNonNegative n; vFinite n; toQ n
/-- `[int_or_float, unit_interval]` -/
def unitQ (v : Value) : Except Err Q := do
  let n ← intOrFloat v; vUnitInterval n; toQ n
/-- `[int_or_float, unit_interval_exclusive_lo]` -/
def unitExLoQ (v : Value) : Except Err Q := do
  let n ← intOrFloat v; vUnitIntervalExLo n; toQ n
/-- `[int_or_float, positive]` -/
def posTime (v : Value) : Except Err ETime := do
  let n ← intOrFloat v; vPositive n; toETime n
/-- `[int_or_float, non_negative]` -/
def nonNegTime (v : Value) : Except Err ETime := do
  let n ← intOrFloat v; vNonNegative n; toETime n

def instStr (v : Value) : Except Err String :=
  match v with
  | .str s => pure s
  | _ => typeErr "must be a str"

/-- `[instance_of(str), valid_deme_name]` -/
def demeName (v : Value) : Except Err String := do
  let s ← instStr v
  if isIdentifier s then pure s else valueErr s!"Invalid deme name '{s}'"

def instList (v : Value) : Except Err (List Value) :=
  match v with
  | .list xs => pure xs
  | _ => typeErr "must be a list"

def instObj (v : Value) : Except Err Obj :=
  match v with
  | .obj kvs => pure kvs
  | _ => typeErr "must be a mapping"

/-- `deep_iterable(and_(instance_of(str), valid_deme_name), instance_of(list))` -/
def namesList (v : Value) : Except Err (List String) := do
  let xs ← instList v
  xs.mapM demeName

def qsum (xs : List Q) : Q := xs.foldl (· + ·) 0

def checkAllowed (d : Obj) (allowed : List String) : Except Err Unit :=
  d.forM (fun kv => if allowed.contains kv.1 then pure () else keyErr s!"unexpected field: '{kv.1}'")

/-! ### `check_defaults` tables

Each entry: field name, the required type and the normalised source text of the
validator expression, exactly as written in `Graph.fromdict`; `interpValidator`
gives the text its meaning. -/

structure FieldSpec where
  name : String
  ty : String
  validator : String
  deriving DecidableEq, Repr

def txtNames : String :=
  "attr.validators.deep_iterable(member_validator=attr.validators.and_(attr.validators.instance_of(str), valid_deme_name), iterable_validator=attr.validators.instance_of(list))"

def demeDefaultsTable : List FieldSpec := [
  ⟨"description", "str", "None"⟩,
  ⟨"start_time", "numbers.Number", "[int_or_float, positive]"⟩,
  ⟨"ancestors", "list", txtNames⟩,
  ⟨"proportions", "list", "attr.validators.deep_iterable(member_validator=[int_or_float, unit_interval_exclusive_lo], iterable_validator=attr.validators.instance_of(list))"⟩]

def migrationDefaultsTable : List FieldSpec := [
  ⟨"rate", "numbers.Number", "[int_or_float, unit_interval]"⟩,
  ⟨"start_time", "numbers.Number", "[int_or_float, non_negative]"⟩,
  ⟨"end_time", "numbers.Number", "[int_or_float, non_negative, finite]"⟩,
  ⟨"source", "str", "valid_deme_name"⟩,
  ⟨"dest", "str", "valid_deme_name"⟩,
  ⟨"demes", "list", txtNames⟩]

def pulseDefaultsTable : List FieldSpec := [
  ⟨"sources", "list", "attr.validators.and_(" ++ txtNames ++ ", nonzero_len)"⟩,
  ⟨"dest", "str", "valid_deme_name"⟩,
  ⟨"time", "numbers.Number", "[int_or_float, positive, finite]"⟩,
  ⟨"proportions", "list", "attr.validators.deep_iterable(member_validator=attr.validators.and_(int_or_float, unit_interval_exclusive_lo), iterable_validator=attr.validators.and_(attr.validators.instance_of(list), nonzero_len, sum_less_than_one))"⟩]

def epochDefaultsTable : List FieldSpec := [
  ⟨"end_time", "numbers.Number", "[int_or_float, non_negative, finite]"⟩,
  ⟨"start_size", "numbers.Number", "[int_or_float, positive, finite]"⟩,
  ⟨"end_size", "numbers.Number", "[int_or_float, positive, finite]"⟩,
  ⟨"selfing_rate", "numbers.Number", "[int_or_float, unit_interval]"⟩,
  ⟨"cloning_rate", "numbers.Number", "[int_or_float, unit_interval]"⟩,
  ⟨"size_function", "str", "None"⟩]

/-- `isinstance(value, required_type)` for the three types used in the tables -/
def hasType (ty : String) (v : Value) : Bool :=
  if ty = "str" then (match v with | .str _ => true | _ => false)
  else if ty = "numbers.Number" then (match v with | .num _ => true | .bool _ => true | _ => false)
  else if ty = "list" then (match v with | .list _ => true | _ => false)
  else false

def discard {α} (x : Except Err α) : Except Err Unit := x.map (fun _ => ())

/-- meaning of each validator text occurring in the tables -/
def interpValidator (txt : String) (v : Value) : Except Err Unit :=
  if txt = "None" then pure ()
  else if txt = "[int_or_float, positive]" then discard (posTime v)
  else if txt = "[int_or_float, non_negative]" then discard (nonNegTime v)
  else if txt = "[int_or_float, non_negative, finite]" then discard (nonNegFiniteQ v)
  else if txt = "[int_or_float, positive, finite]" then discard (posFiniteQ v)
  else if txt = "[int_or_float, unit_interval]" then discard (unitQ v)
  else if txt = "valid_deme_name" then discard (demeName v)
  else if txt = txtNames then discard (namesList v)
  else if txt = "attr.validators.and_(" ++ txtNames ++ ", nonzero_len)" then do
    let xs ← namesList v
    if xs.isEmpty then valueErr "must have non-zero length" else pure ()
  else if txt = "attr.validators.deep_iterable(member_validator=[int_or_float, unit_interval_exclusive_lo], iterable_validator=attr.validators.instance_of(list))" then do
    let xs ← instList v
    discard (xs.mapM unitExLoQ)
  else if txt = "attr.validators.deep_iterable(member_validator=attr.validators.and_(int_or_float, unit_interval_exclusive_lo), iterable_validator=attr.validators.and_(attr.validators.instance_of(list), nonzero_len, sum_less_than_one))" then do
    let xs ← instList v
    if xs.isEmpty then valueErr "must have non-zero length"
    let qs ← xs.mapM unitExLoQ
    if qsum qs > 1 then valueErr "must sum to less than one" else pure ()
  else typeErr s!"unknown validator {txt}"

/-- `check_defaults(defaults, allowed_fields, scope)` -/
def checkDefaults (d : Obj) (table : List FieldSpec) : Except Err Unit :=
  d.forM (fun kv =>
    match table.find? (fun f => f.name = kv.1) with
    | none => keyErr s!"unexpected field: '{kv.1}'"
    | some f =>
      if hasType f.ty kv.2 then interpValidator f.validator kv.2
      else typeErr s!"field '{kv.1}' must be a {f.ty}")

/-- `pop_object(data, name, {})` -/
def popObject (d : Obj) (k : String) : Except Err Obj :=
  match lookup k d with
  | none => pure []
  | some v => instObj v

/-- `pop_list(data, name, default, required_type=MutableMapping)` -/
def popObjList (d : Obj) (k : String) (dflt : Option (List Obj)) : Except Err (List Obj) :=
  match lookup k d with
  | none => match dflt with
    | some x => pure x
    | none => keyErr s!"required field '{k}' not found"
  | some v => do
    let xs ← instList v
    xs.mapM instObj

/-! ### graph header -/

def emptyGraph : Graph :=
  { description := "", timeUnits := "", generationTime := 1, doi := [], metadata := [],
    demes := [], migrations := [], pulses := [], index := [] }

/-- `cls(description=…, time_units=…, doi=…, generation_time=…, metadata=…)` -/
def resolveHeader (data : Obj) : Except Err Graph := do
  let description ← instStr ((lookup "description" data).getD (.str ""))
  let timeUnits ← match lookup "time_units" data with
    | none => keyErr "toplevel: required field 'time_units' not found"
    | some v => instStr v
  if timeUnits.isEmpty then valueErr "time_units must be a non-empty string"
  let gt ← match lookupNN "generation_time" data with
    | none => pure none
    | some v => do let q ← posFiniteQ v; pure (some q)
  let doiRaw ← instList ((lookup "doi" data).getD (.list []))
  let doi ← doiRaw.mapM (fun v => do
    let s ← instStr v
    if s.isEmpty then valueErr "doi must be a non-empty string" else pure s)
  let metadata ← instObj ((lookup "metadata" data).getD (.obj []))
  if timeUnits ≠ "generations" && gt.isNone then
    valueErr "if time_units!=\"generations\", generation_time must be specified"
  let gt' := gt.getD 1
  if timeUnits = "generations" && gt' ≠ 1 then
    valueErr "time_units==\"generations\", but generation_time!=1"
  pure { emptyGraph with description, timeUnits, generationTime := gt', doi, metadata }

/-! ### demes -/

/-- the ancestor must be the name of a deme already in the graph -/
def existingName (g : Graph) (v : Value) : Except Err String :=
  match v with
  | .str s => if g.hasName s then pure s else valueErr s!"deme '{s}' not found"
  | .list _ => typeErr "unhashable"
  | .obj _ => typeErr "unhashable"
  | _ => valueErr "deme not found"

def getDeme (g : Graph) (name : String) : Except Err Deme :=
  match g.deme? name with
  | some d => pure d
  | none => keyErr name

/-- `math.isclose(sum(proportions), 1.0)` with the default tolerances -/
def proportionsSumOk (ps : List Q) : Bool := iscloseQ (qsum ps) 1 relTol 0

/-- `Graph._add_deme` up to and including the construction of the `Deme` (epochs empty) -/
def addDemeHeader (g : Graph) (nameV descriptionV : Value)
    (ancestorsV proportionsV startTimeV : Option Value) : Except Err Deme := do
  let name ← match nameV with
    | .str s => pure s
    | _ => typeErr "deme name must be a str"
  if g.hasName name then valueErr s!"{name}: field 'name' must be unique"
  let ancVals ← match ancestorsV with
    | none => pure []
    | some v => instList v
  let ancestors ← ancVals.mapM (existingName g)
  -- proportions default
  let propVals : Option Value := match proportionsV with
    | some v => some v
    | none => none
  let startTime ← match startTimeV with
    | some v => do
        let n ← intOrFloat v     -- a non-number fails in `math.isinf` / the comparisons
        pure n
    | none =>
      match ancestors with
      | [] => pure Num.pinf
      | [a] => do let d ← getDeme g a; pure (Num.fin d.endTime)
      | _ => valueErr "field 'start_time' not found, but is required for demes with multiple ancestors"
  if ancestors.isEmpty && !startTime.isInf then
    valueErr "field 'ancestors' not found, but is required for demes with a finite 'start_time'"
  ancestors.forM (fun a => do
    let anc ← getDeme g a
    if Num.lt startTime (Num.ofETime anc.startTime) && Num.le (Num.fin anc.endTime) startTime then pure ()
    else valueErr s!"start_time is outside the interval of existence for ancestor '{a}'")
  -- Deme(...) validators
  if !isIdentifier name then valueErr s!"Invalid deme name '{name}'"
  let description ← instStr descriptionV
  vPositive startTime
  let st ← toETime startTime
  if !ancestors.Nodup then valueErr "duplicate ancestors"
  if ancestors.contains name then valueErr "deme cannot be its own ancestor"
  let proportions ← match propVals with
    | none => pure (if ancestors.length = 1 then [(1 : Q)] else [])
    | some v => do
      let xs ← instList v
      let ns ← xs.mapM intOrFloat
      -- `_check_proportions`
      let qs ← ns.mapM (fun n => do vUnitInterval n; vPositive n; toQ n)
      pure qs
  if !proportions.isEmpty && !proportionsSumOk proportions then
    valueErr "ancestry proportions must sum to 1.0"
  if ancestors.length ≠ proportions.length then
    valueErr "ancestors and proportions have different lengths" else
  pure { name, description, startTime := st, ancestors, proportions, epochs := [] }

/-- `Deme._add_epoch` (the epoch dict already has the defaults inserted and an `end_time`) -/
def addEpoch (demeStart : ETime) (epochs : List Epoch) (e : Obj) : Except Err (List Epoch) := do
  let endTimeV ← match lookup "end_time" e with
    | some v => pure v
    | none => keyErr "end_time"
  let startSizeV := lookupNN "start_size" e
  let endSizeV := lookupNN "end_size" e
  let sizeFunctionV := lookupNN "size_function" e
  let selfingV := (lookup "selfing_rate" e).getD (.num (.fin 0))
  let cloningV := (lookup "cloning_rate" e).getD (.num (.fin 0))
  let (startTime, startSizeV', endSizeV') ← match epochs.getLast? with
    | none =>
      match startSizeV, endSizeV with
      | none, none => keyErr "first epoch must have start_size or end_size"
      | some s, none => pure (demeStart, s, s)
      | none, some e => pure (demeStart, e, e)
      | some s, some e => pure (demeStart, s, e)
    | some prev =>
      let s := startSizeV.getD (.num (.fin prev.endSize))
      let e := endSizeV.getD s
      pure (ETime.fin prev.endTime, s, e)
  -- Epoch(...) validators
  let endTime ← nonNegFiniteQ endTimeV
  let startSize ← posFiniteQ startSizeV'
  let endSize ← posFiniteQ endSizeV'
  let sizeFunction ← match sizeFunctionV with
    | none => pure (if startSize = endSize then "constant" else "exponential")
    | some (.str s) => if sizeFunctions.contains s then pure s else valueErr "size_function"
    | some _ => valueErr "size_function"
  let selfingRate ← unitQ selfingV
  let cloningRate ← unitQ cloningV
  if startTime ≤ ETime.fin endTime then valueErr "must have start_time > end_time"
  if startTime.isInf && startSize ≠ endSize then
    valueErr "if start time is inf, must be a constant size epoch" else
  if sizeFunction = "constant" && startSize ≠ endSize then
    valueErr "start_size != end_size, but size_function is constant"
  pure (epochs ++ [{ startTime, endTime, startSize, endSize, sizeFunction, selfingRate, cloningRate }])

/-- the epoch loop of `fromdict` for one deme -/
def resolveEpochs (demeStart : ETime) (epochDefaults : Obj) (epochs : List Obj) : Except Err (List Epoch) :=
  let n := epochs.length
  (epochs.zipIdx).foldlM (fun acc (ej : Obj × Nat) => do
    let (e, j) := ej
    checkAllowed e allowedEpoch
    let e := insertDefaults e epochDefaults
    let e ← if contains "end_time" e then pure e
      else if j = n - 1 then pure (Obj.set "end_time" (.num (.fin 0)) e)
      else keyErr s!"epochs[{j}]: required field 'end_time' not found"
    addEpoch demeStart acc e) []

/-- one iteration of the deme loop of `fromdict` -/
def resolveDeme (demeDefaults globalEpochDefaults : Obj) (g : Graph) (demeData : Obj) : Except Err Graph := do
  let nameV ← match lookup "name" demeData with
    | some v => pure v
    | none => keyErr "required field 'name' not found"
  checkAllowed demeData allowedDemeInner
  let demeData := insertDefaults demeData demeDefaults
  let deme ← addDemeHeader g nameV ((lookup "description" demeData).getD (.str ""))
    (lookupNN "ancestors" demeData) (lookupNN "proportions" demeData) (lookupNN "start_time" demeData)
  let localDefaults ← popObject demeData "defaults"
  checkAllowed localDefaults allowedLocalDefaults
  let localEpochDefaults ← popObject localDefaults "epoch"
  checkDefaults localEpochDefaults epochDefaultsTable
  let epochDefaults := update globalEpochDefaults localEpochDefaults
  if epochDefaults.isEmpty && !(contains "epochs" demeData) then
    keyErr "required field 'epochs' not found"
  let epochs ← popObjList demeData "epochs" (some [[]])
  if epochs.isEmpty then valueErr "'epochs' must be a non-empty list"
  let eps ← resolveEpochs deme.startTime epochDefaults epochs
  let deme := { deme with epochs := eps }
  pure { g with demes := g.demes ++ [deme], index := g.index ++ [(deme.name, g.demes.length)] }

/-! ### migrations -/

/-- `Graph._check_time_intersection(deme1, deme2, time)` -/
def timeIntersection (g : Graph) (n1 n2 : String) (time : Option Value) : Except Err (Q × ETime) := do
  let d1 ← getDeme g n1
  let d2 ← getDeme g n2
  let lo := qmax d1.endTime d2.endTime
  let hi := ETime.min d1.startTime d2.startTime
  match time with
  | none => pure (lo, hi)
  | some v =>
    match v.asNumRaw? with
    | none => typeErr "time is not a number"
    | some t =>
      if Num.le (Num.fin lo) t && Num.le t (Num.ofETime hi) then pure (lo, hi)
      else valueErr "time not in the time-intersection of the two demes"

/-- `Graph._add_asymmetric_migration` -/
def addAsymmetricMigration (g : Graph) (sourceV destV rateV : Value)
    (startTimeV endTimeV : Option Value) : Except Err Graph := do
  let source ← existingName g sourceV
  let dest ← existingName g destV
  let (lo, hi) ← timeIntersection g source dest startTimeV
  let startV := startTimeV.getD (.num (Num.ofETime hi))
  let endV ← match endTimeV with
    | none => pure (Value.num (.fin lo))
    | some v => do let _ ← timeIntersection g source dest (some v); pure v
  -- AsymmetricMigration(...) validators
  if !isIdentifier source then valueErr "invalid name"
  if !isIdentifier dest then valueErr "invalid name"
  let startTime ← nonNegTime startV
  let endTime ← nonNegFiniteQ endV
  let rate ← unitQ rateV
  if source = dest then valueErr "source and dest cannot be the same deme"
  if !(ETime.fin endTime < startTime) then valueErr "must have start_time > end_time"
  -- no other migration for the same ordered pair may overlap it in time
  if g.migrations.any (fun o => o.source = source && o.dest = dest
      && decide (ETime.fin endTime < o.startTime) && decide (ETime.fin o.endTime < startTime)) then
    valueErr s!"multiple migrations defined for source={source}, dest={dest}"
  pure { g with migrations := g.migrations ++ [{ source, dest, startTime, endTime, rate }] }

/-- `itertools.permutations(xs, 2)` -/
def permutations2 {α} (xs : List α) : List (α × α) :=
  (xs.zipIdx).flatMap (fun (a, i) =>
    (xs.zipIdx).filterMap (fun (b, j) => if i ≠ j then some (a, b) else none))

/-- `Graph._add_symmetric_migration` -/
def addSymmetricMigration (g : Graph) (demesV rateV : Value)
    (startTimeV endTimeV : Option Value) : Except Err Graph := do
  let names ← match demesV with
    | .list xs => if xs.length < 2 then valueErr "must specify a list of two or more deme names" else pure xs
    | _ => valueErr "must specify a list of two or more deme names"
  (permutations2 names).foldlM (fun g (sd : Value × Value) =>
    addAsymmetricMigration g sd.1 sd.2 rateV startTimeV endTimeV) g

/-- one iteration of the migration loop of `fromdict` -/
def resolveMigration (migrationDefaults : Obj) (g : Graph) (m : Obj) : Except Err Graph := do
  checkAllowed m allowedMigration
  let m := insertDefaults m migrationDefaults
  let rateV ← match lookup "rate" m with
    | some v => pure v
    | none => keyErr "required field 'rate' not found"
  match lookupNN "demes" m, lookupNN "source" m, lookupNN "dest" m with
  | some demes, none, none =>
    addSymmetricMigration g demes rateV (lookupNN "start_time" m) (lookupNN "end_time" m)
  | none, some s, some d =>
    addAsymmetricMigration g s d rateV (lookupNN "start_time" m) (lookupNN "end_time" m)
  | _, _, _ => keyErr "must be symmetric *or* asymmetric"

/-! ### pulses -/

/-- `Graph._add_pulse` -/
def addPulse (g : Graph) (sourcesV destV timeV proportionsV : Value) : Except Err Graph := do
  let srcVals ← instList sourcesV            -- `sources + [dest]`
  let sources ← srcVals.mapM (existingName g)
  let dest ← existingName g destV
  sources.forM (fun s => discard (timeIntersection g s dest (some timeV)))
  let destDeme ← getDeme g dest
  -- `time == self[dest].end_time`
  let tRaw := timeV.asNumRaw?
  if tRaw = some (Num.fin destDeme.endTime) then valueErr "invalid pulse at dest's end_time"
  sources.forM (fun s => do
    let sd ← getDeme g s
    if tRaw = some (Num.ofETime sd.startTime) then valueErr "invalid pulse at source's start_time" else pure ())
  -- Pulse(...) validators
  if !(sources.all isIdentifier) then valueErr "invalid name"
  if sources.isEmpty then valueErr "sources must have non-zero length"
  if !isIdentifier dest then valueErr "invalid name"
  let time ← posFiniteQ timeV
  let propVals ← instList proportionsV
  let proportions ← propVals.mapM unitExLoQ
  if sources.contains dest then valueErr "source cannot be the same as dest"
  if !sources.Nodup then valueErr "source cannot be repeated in sources"
  if sources.length ≠ proportions.length then valueErr "sources and proportions must have the same length"
  if qsum proportions > 1 then valueErr "proportions must sum to less than one" else
  pure { g with pulses := g.pulses ++ [{ sources, dest, time, proportions }] }

/-- one iteration of the pulse loop of `fromdict` -/
def resolvePulse (pulseDefaults : Obj) (g : Graph) (p : Obj) : Except Err Graph := do
  checkAllowed p allowedPulse
  let p := insertDefaults p pulseDefaults
  match lookup "sources" p, lookup "dest" p, lookup "time" p, lookup "proportions" p with
  | some s, some d, some t, some pr => addPulse g s d t pr
  | _, _, _, _ => keyErr "pulse: required field not found"

/-- stable insertion sort by descending time (`pulses.sort(key=time, reverse=True)`) -/
def insertPulse (p : Pulse) : List Pulse → List Pulse
  | [] => [p]
  | q :: qs => if q.time ≤ p.time then p :: q :: qs else q :: insertPulse p qs

def sortPulses (ps : List Pulse) : List Pulse := ps.foldr insertPulse []

/-! ### `Graph.fromdict` -/

def resolve (dataV : Value) : Except Err Graph := do
  let data ← instObj dataV
  checkAllowed data allowedTop
  let defaults ← popObject data "defaults"
  checkAllowed defaults allowedDefaults
  let demeDefaults ← popObject defaults "deme"
  checkDefaults demeDefaults demeDefaultsTable
  let migrationDefaults ← popObject defaults "migration"
  checkDefaults migrationDefaults migrationDefaultsTable
  let pulseDefaults ← popObject defaults "pulse"
  checkDefaults pulseDefaults pulseDefaultsTable
  let globalEpochDefaults ← popObject defaults "epoch"
  checkDefaults globalEpochDefaults epochDefaultsTable
  let g ← resolveHeader data
  let demesList ← popObjList data "demes" none
  if demesList.isEmpty then valueErr "toplevel: 'demes' must be a non-empty list"
  let g ← demesList.foldlM (resolveDeme demeDefaults globalEpochDefaults) g
  let migs ← popObjList data "migrations" (some [])
  let g ← migs.foldlM (resolveMigration migrationDefaults) g
  checkMigrationRates g
  let pulses ← popObjList data "pulses" (some [])
  let g ← pulses.foldlM (resolvePulse pulseDefaults) g
  pure { g with pulses := sortPulses g.pulses }

end Demes
