/-
  C09, "the same deme names" — the counterexample to "in the order of `g`", the name clashes that are
  harmless, and non-vacuity on the concrete graphs of `MsRTExamples` / `MsAccExamples`.
-/
import DemesVerif.Proofs.MsNamesOrder
import DemesVerif.Proofs.MsAccExamples
namespace Demes.Proofs.MsNames
open Demes Demes.Ms Demes.Spec Demes.Spec.C07 Demes.Spec.C09
open Demes.Spec.MsSem (graphSem graphSemWith msSem)
open Demes.Spec.C08 (resultSem resultSemNamed)
open Demes.Proofs.MsPrint (tableCodec growthStr twoDemePulse branchMig)
open Demes.Proofs.MsRT (admixture twoEpochs cEpoch refinesAt)
open Demes.Proofs.MsAcc (acceptHyps admixMig)

/-- `from_ms(to_ms(g, N0), N0, deme_names = [d.name for d in g.demes])`, evaluated -/
def namedRoundTrip (g : Graph) (N0 : Q) : Option MsGraph :=
  match toMs g N0 none with
  | .ok toks => (fromMs (renderG tableCodec growthStr toks) N0 (some (g.demes.map (·.name)))).toOption
  | .error _ => none

/-- the names of the demes of the result -/
def namedRoundTripNames (g : Graph) (N0 : Q) : Option (List String) :=
  (namedRoundTrip g N0).map (fun mg => mg.graph.demes.map (·.name))

/-- the conclusion of `ms_roundtrip_names`, evaluated independently of the theorem: both calls succeed; the
named result is valid, in generations, and has the names of `g`; its observable read with `g`'s names is the
observable of the unnamed result read with `deme{k}`, and it passes the decidable consequence `refinesAt` of
`SemRefines` against the demography of `g` at the times `ts` -/
def namedRoundTripOk (g : Graph) (N0 : Q) (ts : List Q) : Bool :=
  match toMs g N0 none with
  | .ok toks =>
    let cmd := renderG tableCodec growthStr toks
    let names := g.demes.map (·.name)
    match fromMs cmd N0 none, fromMs cmd N0 (some names) with
    | .ok mg, .ok mg' =>
      validGraph mg'.graph && mg'.graph.timeUnits == "generations" && decide (mg'.graph.generationTime = 1)
      && decide ((mg'.graph.demes.map (·.name)).Perm names)
      && (match resultSem mg, resultSemNamed mg' names, graphSem (inGenerations (normalizeProportions g)) none with
          | .ok rs, .ok rs', .ok gs => decide (rs = rs') && refinesAt rs' gs ts
          | _, _, _ => false)
    | _, _ => false
  | .error _ => false

/-! ### the order of the demes: the counterexample -/

/-- `A` (size 2) and `C` (size 3) from the infinite past, `B` (size 1) branches off `A` at time 4; listed
`A`, `B`, `C`: valid (every deme after its ancestors), not sorted by start time -/
def orderEx : Graph :=
  { description := "", timeUnits := "generations", generationTime := 1, doi := [], metadata := [],
    demes := [constDeme "A" "" 2 0 0,
              { name := "B", description := "", startTime := .fin 4, ancestors := ["A"], proportions := [1],
                epochs := [cEpoch (.fin 4) 0 1] },
              constDeme "C" "" 3 0 0],
    migrations := [], pulses := [], index := [("A", 0), ("B", 1), ("C", 2)] }

/-- **"… gives a graph with the demes of `g` in `g`'s order" is false.**  `orderEx` satisfies every hypothesis of
`ms_roundtrip_names` (and has exact proportions); `to_ms` prints `-I 3 0 0 0 -n 1 2.0 -n 3 3.0 -ej 1.0 2 1`;
`from_ms` of that with `deme_names = ["A", "B", "C"]` returns the demes `A`, `C`, `B` in this order
(`_sort_demes_by_ancestry`: by start time, oldest first) — each name on the right deme (`namedRoundTripOk`:
the observable read by name is that of `g`), the list in another order.  `orderEx` is not `StartsSorted`. -/
theorem names_order_counterexample :
    acceptHyps orderEx 1 = true ∧ ExactProportions orderEx = true ∧ StartsSorted orderEx = false
    ∧ (toMs orderEx 1 none).toOption.map (renderG tableCodec growthStr)
        = some ["-I", "3", "0", "0", "0", "-n", "1", "2.0", "-n", "3", "3.0", "-ej", "1.0", "2", "1"]
    ∧ orderEx.demes.map (·.name) = ["A", "B", "C"]
    ∧ namedRoundTripNames orderEx 1 = some ["A", "C", "B"]
    ∧ namedRoundTripOk orderEx 1 [0, 1, 4, 5] = true := by
  decide +kernel

/-! ### names that look like the placeholders `deme{k}` are harmless -/

/-- the demes of `g` are called `deme2` (the root) and `deme1` (branches off at time 4): the name map is the
swap `{deme1 ↦ deme2, deme2 ↦ deme1}`, applied simultaneously by `rename_demes` -/
def swapEx : Graph :=
  { description := "", timeUnits := "generations", generationTime := 1, doi := [], metadata := [],
    demes := [constDeme "deme2" "" 2 0 0,
              { name := "deme1", description := "", startTime := .fin 4, ancestors := ["deme2"], proportions := [1],
                epochs := [cEpoch (.fin 4) 0 1] }],
    migrations := [], pulses := [], index := [("deme2", 0), ("deme1", 1)] }

/-- `admixture` with `A` called `deme4` — the name of the population `to_ms` creates with `-es` and `from_ms`
drops as a transient deme — and `C` called `deme5` -/
def clashEx : Graph :=
  { description := "", timeUnits := "generations", generationTime := 1, doi := [], metadata := [],
    demes := [constDeme "deme4" "" 2 0 0,
              { name := "B", description := "", startTime := .fin 8, ancestors := ["deme4"], proportions := [1],
                epochs := [cEpoch (.fin 8) 0 1] },
              { name := "deme5", description := "", startTime := .fin 4, ancestors := ["deme4", "B"], proportions := [1/2, 1/2],
                epochs := [cEpoch (.fin 4) 0 (1/2)] }],
    migrations := [], pulses := [], index := [("deme4", 0), ("B", 1), ("deme5", 2)] }

theorem placeholder_names_harmless :
    acceptHyps swapEx 1 = true ∧ StartsSorted swapEx = true
    ∧ namedRoundTripNames swapEx 1 = some ["deme2", "deme1"] ∧ namedRoundTripOk swapEx 1 [0, 1, 4, 5] = true
    ∧ (namedRoundTrip swapEx 1).map (fun mg => mg.graph.demes.map (fun d => (d.name, d.startTime, d.ancestors)))
        = some [("deme2", .inf, []), ("deme1", .fin 4, ["deme2"])]
    ∧ acceptHyps clashEx 1 = true ∧ StartsSorted clashEx = true
    ∧ (toMs clashEx 1 none).toOption.map (renderG tableCodec growthStr)
        = some ["-I", "3", "0", "0", "0", "-n", "1", "2.0", "-n", "3", "0.5", "-es", "1.0", "3", "0.5", "-ej", "1.0", "4", "1",
                "-ej", "1.0", "3", "2", "-ej", "2.0", "2", "1"]
    ∧ namedRoundTripNames clashEx 1 = some ["deme4", "B", "deme5"] ∧ namedRoundTripOk clashEx 1 [0, 1, 4, 5, 8, 9] = true := by
  decide +kernel

/-! ### the theorem on a graph that meets the hypotheses -/

theorem names_of_acceptHyps {g : Graph} {N0 : Q} (h : acceptHyps g N0 = true) :
    ∃ toks mg mg' sem rs gs, toMs g N0 none = .ok toks
      ∧ fromMs (renderG tableCodec growthStr toks) N0 none = .ok mg
      ∧ fromMs (renderG tableCodec growthStr toks) N0 (some (g.demes.map (·.name))) = .ok mg'
      ∧ validGraph mg'.graph = true
      ∧ (mg'.graph.demes.map (·.name)).Perm (g.demes.map (·.name))
      ∧ (StartsSorted g = true → mg'.graph.demes.map (·.name) = g.demes.map (·.name))
      ∧ msSem (renderG tableCodec growthStr toks) N0 = .ok sem
      ∧ resultSemNamed mg' (g.demes.map (·.name)) = .ok rs
      ∧ graphSem (inGenerations (normalizeProportions g)) none = .ok gs
      ∧ C08.semEquiv sem rs = true ∧ SemRefines sem gs ∧ SemRefines rs gs := by
  unfold acceptHyps at h
  simp only [Bool.and_eq_true, decide_eq_true_eq] at h
  obtain ⟨⟨⟨⟨⟨h1, h2⟩, h3⟩, h4⟩, h5⟩, h6⟩ := h
  cases ht : toMs g N0 none with
  | error e => rw [ht] at h6; cases h6
  | ok toks =>
    rw [ht] at h6
    simp only [decide_eq_true_eq] at h6
    obtain ⟨mg, mg', sem, rs, gs, a1, a2, _, _, _, a3, _, _, a4, a5, a6, _, a7, a8, a9, a10, a11⟩ :=
      ms_roundtrip_names tableCodec growthStr h1 h2 h3 h4 h5 (samples := none) rfl ht h6
    exact ⟨toks, mg, mg', sem, rs, gs, rfl, a1, a2, a3, a4, a5, a6, a7, a8, a9, a10, a11⟩

/-- the conclusion evaluated, for the graphs of §§5–6 with their own names -/
example : namedRoundTripNames branchMig 1 = some ["A", "B"] := by decide +kernel
example : namedRoundTripNames admixture 1 = some ["A", "B", "C"] := by decide +kernel
example : namedRoundTripNames (twoDemePulse (1/2)) 1 = some ["A", "B"] := by decide +kernel
example : namedRoundTripNames twoEpochs 1 = some ["A", "B"] := by decide +kernel
example : namedRoundTripNames admixMig 1 = some ["A", "B", "C"] := by decide +kernel
example : [branchMig, admixture, twoDemePulse (1/2), twoEpochs, admixMig].all StartsSorted = true := by decide +kernel

example : namedRoundTripOk branchMig 1 [0, 1, 2, 4, 5, 100] = true := by decide +kernel
example : namedRoundTripOk admixture 1 [0, 1, 4, 5, 8, 9] = true := by decide +kernel
example : namedRoundTripOk admixture 2 [0, 1, 4, 5, 8, 9] = true := by decide +kernel
example : namedRoundTripOk (twoDemePulse (1/2)) 1 [0, 1, 4, 5] = true := by decide +kernel
example : namedRoundTripOk twoEpochs 1 [0, 1, 2, 3, 4, 5] = true := by decide +kernel
example : namedRoundTripOk admixMig 1 [0, 1, 2, 4, 5, 8, 9] = true := by decide +kernel

/-- not vacuous: with the names of `g` given in another order the observable read with `g`'s names is not `g`'s -/
example : (match fromMs ["-I", "2", "0", "0", "-n", "1", "2.0", "-n", "2", "0.5", "-m", "2", "1", "0.5", "-ej", "1.0", "2", "1"] 1
      (some ["B", "A"]), graphSem (inGenerations branchMig) none with
    | .ok mg', .ok gs => (resultSemNamed mg' ["A", "B"]).toOption.map (fun rs' => refinesAt rs' gs [0])
    | _, _ => none) = some false := by decide +kernel

/-! ### the invariance lemma on concrete renamings -/

/-- a 3-cycle on the three-deme example graph of C15 (ancestors, migrations, a two-source pulse): the renaming is
accepted, and the observable in the graph's own order is the same value -/
example : validGraph Proofs.exampleGraph3 = true
    ∧ (renameDemesChecked Proofs.exampleGraph3 [("A", "B"), ("B", "C"), ("C", "A")]).toOption.isSome = true
    ∧ (graphSem (inGenerations Proofs.exampleGraph3) none).toOption.isSome = true
    ∧ graphSem (renameDemes (inGenerations Proofs.exampleGraph3) [("A", "B"), ("B", "C"), ("C", "A")]) none
        = graphSem (inGenerations Proofs.exampleGraph3) none := by decide +kernel

/-- a renaming that is not injective on the population list changes the observable (the hypothesis of
`graphSem_rename_invariant` is needed): population list `["A", "X", "B", "C"]`, `X ↦ B` -/
example : (graphSem (renameDemes (inGenerations Proofs.exampleGraph3) [("X", "B")])
        (some (["A", "X", "B", "C"].map (Renaming.apply [("X", "B")])))).toOption
      ≠ (graphSem (inGenerations Proofs.exampleGraph3) (some ["A", "X", "B", "C"])).toOption
    ∧ (graphSem (inGenerations Proofs.exampleGraph3) (some ["A", "X", "B", "C"])).toOption.isSome = true := by
  decide +kernel

end Demes.Proofs.MsNames
