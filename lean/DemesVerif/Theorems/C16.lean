/-
  C16 — JSON output is strict; infinity travels as "Infinity"; nulls are refused.

  Model: `DemesVerif/Model/LoadDump.lean` (`_stringify_infinities`, `_unstringify_infinities`,
  `_no_null_values`, `load_asdict`, `load`, `load_all`, `dump` of demes/load_dump.py, with the
  text layer abstracted into a `Codec`).  Spec vocabulary: `DemesVerif/Spec/C16.lean`

  * `Reach v w`               `w` is a sub-value of `v`, through any nesting of lists / mappings
  * `hasNonFinite v`          some number inside `v` is `inf`, `-inf` or `nan`
  * `hasNullOutsideMetadata`  a null is reachable from a top-level entry other than `metadata`
  * `at? v p`                 the value at position `p`; a step `.key i k` is "entry number `i`,
                              whose key is `k`", a step `.idx i` is "element number `i`"
  * `StartTimePos p`          `p` is `demes[i].start_time`, `migrations[i].start_time`,
                              `defaults.deme.start_time` or `defaults.migration.start_time`
  * `AwayFromStartTimes p`    `p` is not an initial segment of a start-time position
  * `TowardsStartTime p`      `p` is a proper initial segment of one (`demes`, `demes[i]`, …)
  * `convInfinity v`          `"Infinity" ↦ +inf`, anything else unchanged
  * `outline v`               constructor, and for containers the length / the keys in order

  `dumpValue fmt simplified g` is the dictionary `dump` passes to the serialiser;
  `loadAsdictValue v` is `load_asdict` applied to what the parser returned.
-/
import DemesVerif.Proofs.LoadDump
import DemesVerif.Spec.Valid
namespace Demes.Theorems
open Demes Demes.Spec

/-! ## the Spec's searches mean what they say -/

/-- `hasNonFinite` holds exactly when an `inf`, `-inf` or `nan` is reachable. -/
theorem hasNonFinite_iff (v : Value) :
    hasNonFinite v = true ↔ ∃ n, Reach v (.num n) ∧ (n = .pinf ∨ n = .ninf ∨ n = .nan) :=
  Proofs.hasNonFinite_iff v

/-- The Model's recursive `assert_no_nulls` fails on a value exactly when a null is reachable in
it, through any nesting of lists and mappings (nested lists included). -/
theorem noNullVal_false_iff (v : Value) : noNullVal v = false ↔ Reach v .null :=
  Proofs.noNullVal_false_iff v

/-! ## 1. strict JSON -/

/-- For every graph and both styles, the dictionary written as JSON contains, outside the
user's own `metadata`, no `inf`, `-inf` or `nan`. -/
theorem stringify_no_inf (g : Graph) (simplified : Bool) :
    ∃ kvs, dumpValue .json simplified g = .obj kvs ∧
      hasNonFinite (.obj (Obj.erase "metadata" kvs)) = false :=
  Proofs.stringify_no_inf g simplified

/-- The restriction to "outside `metadata`" cannot be dropped at the level of the dictionary:
`_stringify_infinities` does not look inside `metadata`, so an infinite number a user put there
reaches the serialiser.  (On the pinned tree `json.dump(..., allow_nan=False)` then raises
`ValueError` — `Codec.ser = none`, the dump fails — rather than write the token `Infinity`; that
call, not `_stringify_infinities`, is what keeps the *text* strict in this case.) -/
theorem stringify_no_inf_metadata_counterexample :
    validGraph Proofs.c16Graph = true ∧
    hasNonFinite (dumpValue .json false Proofs.c16Graph) = true := by decide +kernel

/-- entry-wise form of `stringify_no_inf`: every top-level entry but `metadata` is strict -/
theorem stringify_no_inf_entries (g : Graph) (simplified : Bool) :
    ∃ kvs, dumpValue .json simplified g = .obj kvs ∧
      ∀ k v, (k, v) ∈ kvs → k ≠ "metadata" → hasNonFinite v = false :=
  Proofs.stringify_no_inf_entries g simplified

/-! ## 2. what was written is read back -/

/-- `_unstringify_infinities` undoes `_stringify_infinities` on the library's own dictionaries
(full and simplified form). -/
theorem unstringify_stringify (g : Graph) (simplified : Bool) :
    ∃ kvs, (if simplified then g.asdictSimplified else g.asdict) = .obj kvs ∧
      unstringifyInfinities (stringifyInfinities kvs) = .ok kvs :=
  Proofs.unstringify_stringify g simplified

/-- `asdict` / `asdict_simplified` never emit a null outside `metadata`, in either format: the
Model's check passes and, declaratively, no null is reachable outside `metadata`. -/
theorem dump_no_null (g : Graph) (simplified : Bool) (fmt : Format) :
    ∃ kvs, dumpValue fmt simplified g = .obj kvs ∧
      noNullObj (kvs.filter (fun kv => kv.1 ≠ "metadata")) = true ∧
      noNullValues kvs = .ok () ∧ hasNullOutsideMetadata kvs = false :=
  Proofs.dump_no_null g simplified fmt

/-- `load_asdict` applied to the JSON dictionary returns the YAML dictionary, i.e. the one with
real infinities. -/
theorem load_dump_json (g : Graph) (simplified : Bool) :
    loadAsdictValue (dumpValue .json simplified g) = .ok (dumpValue .yaml simplified g) :=
  Proofs.load_dump_json g simplified

/-- … through `load_asdict` / `loads_asdict` with either parser (JSON text is also YAML): whatever
codec and format, if the parser returned the JSON dictionary. -/
theorem loadAsdict_dump_json {Text} (c : Codec Text) (fmt : Format) (t : Text) (g : Graph)
    (simplified : Bool) (hp : c.par fmt t = some (dumpValue .json simplified g)) :
    loadAsdict c fmt t = .ok (dumpValue .yaml simplified g) :=
  Proofs.loadAsdict_dump_json c fmt t g simplified hp

/-- … through `load` / `loads` -/
theorem load_dump_json_graph {Text} (c : Codec Text) (fmt : Format) (t : Text) (g : Graph)
    (simplified : Bool) (hp : c.par fmt t = some (dumpValue .json simplified g)) :
    load c fmt t = resolve (dumpValue .yaml simplified g) :=
  Proofs.load_dump_json_graph c fmt t g simplified hp

/-- … and through `load_all` -/
theorem loadAll_dump_json {Text} (c : Codec Text) (t : Text) (gs : List Graph) (simplified : Bool)
    (hp : c.parAll t = some (gs.map (dumpValue .json simplified))) :
    loadAll c t = gs.mapM (fun g => resolve (dumpValue .yaml simplified g)) :=
  Proofs.loadAll_dump_json c t gs simplified hp

/-! ## 3. only start times are converted -/

/-- After a successful `_unstringify_infinities`: the top-level keys are the same, in the same
order; the value at each start-time position is the old one with `"Infinity" ↦ +inf`; the value
at every position that is not on the way to a start-time position is unchanged; and the
containers on the way keep their outline. -/
theorem unstringify_only_start_times (data data' : Obj)
    (h : unstringifyInfinities data = .ok data') :
    (data'.map (·.1) = data.map (·.1)) ∧
    (∀ p, StartTimePos p → at? (.obj data') p = (at? (.obj data) p).map convInfinity) ∧
    (∀ p, AwayFromStartTimes p → at? (.obj data') p = at? (.obj data) p) ∧
    (∀ p, TowardsStartTime p →
      (at? (.obj data') p).map outline = (at? (.obj data) p).map outline) :=
  Proofs.unstringify_only_start_times data data' h

/-- At a start-time position the value changes exactly when it was the string "Infinity", and
then it becomes `+inf`. -/
theorem unstringify_at_start_time (data data' : Obj)
    (h : unstringifyInfinities data = .ok data') (p : Path) (hp : StartTimePos p) :
    (at? (.obj data) p = some (.str "Infinity") → at? (.obj data') p = some (.num .pinf)) ∧
    (at? (.obj data) p ≠ some (.str "Infinity") → at? (.obj data') p = at? (.obj data) p) :=
  Proofs.unstringify_at_start_time data data' h p hp

/-- The two `defaults` positions are converted. -/
theorem unstringify_defaults (data data' : Obj) (h : unstringifyInfinities data = .ok data')
    (a c b : Nat) (k : String) (hk : k = "deme" ∨ k = "migration")
    (hs : at? (.obj data) [.key a "defaults", .key c k, .key b "start_time"]
            = some (.str "Infinity")) :
    at? (.obj data') [.key a "defaults", .key c k, .key b "start_time"] = some (.num .pinf) :=
  Proofs.unstringify_defaults data data' h a c b k hk hs

/-- The string "Infinity" anywhere else stays a string. -/
theorem unstringify_keeps_other_strings (data data' : Obj)
    (h : unstringifyInfinities data = .ok data') (p : Path) (hp : AwayFromStartTimes p)
    (hs : at? (.obj data) p = some (.str "Infinity")) :
    at? (.obj data') p = some (.str "Infinity") :=
  Proofs.unstringify_keeps_other_strings data data' h p hp hs

/-- "Anywhere else" includes: everything under a top-level key other than `demes`,
`migrations`, `defaults` (`description`, `time_units`, `doi`, `pulses`, `metadata`, …) -/
theorem away_top (a : Nat) (k : String) (r : Path) (h1 : k ≠ "demes") (h2 : k ≠ "migrations")
    (h3 : k ≠ "defaults") : AwayFromStartTimes (.key a k :: r) :=
  Proofs.away_top a k r h1 h2 h3

/-- … and, two levels down, every field other than `start_time` with everything below it (a
deme's `name`, `description`, `epochs`, a migration's `rate`, `defaults.epoch.*` …) -/
theorem away_field (s1 s2 : Step) (b : Nat) (k : String) (r : Path) (hk : k ≠ "start_time") :
    AwayFromStartTimes (s1 :: s2 :: .key b k :: r) :=
  Proofs.away_field s1 s2 b k r hk

/-- The conversion succeeds on every document of the expected shape (so the statements above
are not vacuous). -/
theorem unstringify_succeeds (data : Obj) (h : WellShaped data) :
    ∃ data', unstringifyInfinities data = .ok data' :=
  Proofs.unstringify_succeeds data h

/-! ## 4. nulls -/

/-- The null check passes exactly when no null is reachable from a top-level entry other than
`metadata` — at any nesting depth of lists and mappings. -/
theorem nonull_iff (data : Obj) :
    noNullValues data = .ok () ↔ hasNullOutsideMetadata data = false :=
  Proofs.nonull_iff data

theorem nonull_error_iff (data : Obj) :
    (∃ e, noNullValues data = .error e) ↔ hasNullOutsideMetadata data = true :=
  Proofs.nonull_error_iff data

/-- Two documents that agree outside `metadata` get the same verdict. -/
theorem nonull_metadata_ignored (data data' : Obj)
    (h : Obj.erase "metadata" data = Obj.erase "metadata" data') :
    noNullValues data = noNullValues data' :=
  Proofs.nonull_metadata_ignored data data' h

/-- Setting (or adding) `data["metadata"]` to anything never changes the verdict. -/
theorem nonull_metadata_set (data : Obj) (m : Value) :
    noNullValues (Obj.set "metadata" m data) = noNullValues data :=
  Proofs.nonull_metadata_set data m

/-- `load_asdict` hands back `data["metadata"]` as it was — nulls inside preserved. -/
theorem load_preserves_metadata (data : Obj) (v : Value) (h : loadAsdictValue (.obj data) = .ok v) :
    ∃ data', v = .obj data' ∧ Obj.lookup "metadata" data' = Obj.lookup "metadata" data :=
  Proofs.load_preserves_metadata data v h

/-- More generally every entry other than `demes`, `migrations`, `defaults` comes back unchanged
at the same place. -/
theorem load_preserves_entry (data : Obj) (v : Value) (h : loadAsdictValue (.obj data) = .ok v)
    (k : String) (h1 : k ≠ "demes") (h2 : k ≠ "migrations") (h3 : k ≠ "defaults") :
    ∃ data', v = .obj data' ∧ data'.length = data.length ∧
      ∀ (i : Nat) m, data[i]? = some (k, m) → data'[i]? = some (k, m) :=
  Proofs.load_preserves_entry data v h k h1 h2 h3

/-! ## 5. every loading entry point refuses a null outside `metadata` -/

/-- `load_asdict` after parsing -/
theorem load_rejects_null (data : Obj) (h : hasNullOutsideMetadata data = true) :
    ∃ e, loadAsdictValue (.obj data) = .error e :=
  Proofs.load_rejects_null data h

/-- `load_asdict` / `loads_asdict`, any codec, any format -/
theorem loadAsdict_rejects_null {Text} (c : Codec Text) (fmt : Format) (t : Text) (data : Obj)
    (hp : c.par fmt t = some (.obj data)) (h : hasNullOutsideMetadata data = true) :
    ∃ e, loadAsdict c fmt t = .error e :=
  Proofs.loadAsdict_rejects_null c fmt t data hp h

/-- `load` / `loads` -/
theorem load_rejects_null_graph {Text} (c : Codec Text) (fmt : Format) (t : Text) (data : Obj)
    (hp : c.par fmt t = some (.obj data)) (h : hasNullOutsideMetadata data = true) :
    ∃ e, load c fmt t = .error e :=
  Proofs.load_rejects_null_graph c fmt t data hp h

/-- `load_all`: one offending document in the stream makes the whole call fail -/
theorem loadAll_rejects_null {Text} (c : Codec Text) (t : Text) (vs : List Value) (data : Obj)
    (hp : c.parAll t = some vs) (hmem : .obj data ∈ vs) (h : hasNullOutsideMetadata data = true) :
    ∃ e, loadAll c t = .error e :=
  Proofs.loadAll_rejects_null c t vs data hp hmem h

/-- A document that is not a mapping at all (a bare `null` included) is refused too. -/
theorem load_rejects_non_mapping (v : Value) (h : ∀ kvs, v ≠ .obj kvs) :
    ∃ e, loadAsdictValue v = .error e :=
  Proofs.loadAsdictValue_not_obj v h

/-! ## non-vacuity

`Proofs.c16Graph`: a valid graph with two demes alive since forever and a migration between them
that also started infinitely long ago; its description and a metadata entry are the string
"Infinity", its metadata also holds a null and an infinite number.  `Proofs.c16Doc st` is its full
dictionary with the value `st` at the three start times (and only there). -/

section
open Proofs

example : validGraph c16Graph = true := by decide +kernel

-- the JSON dictionary has the string "Infinity" at exactly the three start times, the YAML
-- dictionary has `+inf` there, and they are otherwise the same (`veq_sound : veq v w → v = w`)
example : dumpValue .json false c16Graph = c16Doc (.str "Infinity") :=
  veq_sound _ _ (by decide +kernel)
example : dumpValue .yaml false c16Graph = c16Doc (.num .pinf) :=
  veq_sound _ _ (by decide +kernel)
-- `stringify_no_inf`: the YAML dictionary does contain infinities outside metadata, the JSON
-- one does not
example : hasNonFinite (outsideMetadata (c16Doc (.num .pinf))) = true
    ∧ hasNonFinite (outsideMetadata (c16Doc (.str "Infinity"))) = false := by
  decide +kernel
-- `load_dump_json`: it loads back, the description / metadata strings "Infinity" untouched
example : loadAsdictValue (c16Doc (.str "Infinity")) = .ok (c16Doc (.num .pinf)) :=
  okEq_sound (by decide +kernel)
-- the simplified form of a graph whose migration start cannot be inferred keeps it, as "Infinity"
example : (at? (dumpValue .json true c16Loose) [.key 5 "migrations", .idx 0, .key 2 "start_time"]).any
      (veq · (.str "Infinity")) = true
    ∧ (at? (dumpValue .yaml true c16Loose) [.key 5 "migrations", .idx 0, .key 2 "start_time"]).any
      (veq · (.num .pinf)) = true := by decide +kernel

-- `unstringify_only_start_times`, `unstringify_defaults`: a hand-written document with
-- "Infinity" as description, time_units, doi, names, ancestors, epoch fields, pulse fields,
-- defaults.epoch.start_time, deme-level defaults, rate, inside metadata (under the keys
-- start_time and demes, too) — and at the four kinds of start-time position.  Loading changes
-- exactly the latter.
example : loadAsdictValue (.obj (c16Input (.str "Infinity"))) = .ok (.obj (c16Input (.num .pinf))) :=
  okEq_sound (by decide +kernel)
example : WellShaped (c16Input (.str "Infinity")) := by
  refine ⟨by decide +kernel, ?_, ?_⟩
  · intro k v hm hk
    simp only [c16Input, List.mem_cons, Prod.mk.injEq, List.mem_nil_iff, or_false] at hm
    rcases hm with ⟨rfl, _⟩ | ⟨rfl, _⟩ | ⟨rfl, _⟩ | ⟨rfl, _⟩ | ⟨rfl, _⟩ | ⟨_, rfl⟩ | ⟨_, rfl⟩ | ⟨rfl, _⟩
    all_goals first
      | (rcases hk with hk | hk <;> exact absurd hk (by decide))
      | (refine ⟨_, rfl, ?_⟩
         intro x hx
         simp only [List.mem_cons, List.mem_nil_iff, or_false] at hx
         rcases hx with rfl | rfl <;> exact ⟨_, rfl⟩)
      | (refine ⟨_, rfl, ?_⟩
         intro x hx
         simp only [List.mem_cons, List.mem_nil_iff, or_false] at hx
         subst hx; exact ⟨_, rfl⟩)
  · intro v hm
    simp only [c16Input, List.mem_cons, Prod.mk.injEq, List.mem_nil_iff, or_false] at hm
    rcases hm with ⟨h, _⟩ | ⟨h, _⟩ | ⟨h, _⟩ | ⟨h, _⟩ | ⟨_, rfl⟩ | ⟨h, _⟩ | ⟨h, _⟩ | ⟨h, _⟩
    all_goals first
      | exact absurd h (by decide)
      | (refine ⟨_, rfl, ?_⟩
         intro k w hw hk
         simp only [List.mem_cons, Prod.mk.injEq, List.mem_nil_iff, or_false] at hw
         rcases hw with ⟨rfl, _⟩ | ⟨_, rfl⟩ | ⟨_, rfl⟩ | ⟨rfl, _⟩
         · rcases hk with hk | hk <;> exact absurd hk (by decide)
         · exact ⟨_, rfl⟩
         · exact ⟨_, rfl⟩
         · rcases hk with hk | hk <;> exact absurd hk (by decide))

-- `nonull_iff`, `load_rejects_null`: `doi: [[null]]` has a null outside metadata, two lists deep,
-- and is refused
example : hasNullOutsideMetadata c16NullDoc = true :=
  hasNullOutsideMetadata_eq_true.mpr
    ⟨"doi", .list [.list [.null]], .tail _ (.head _), by decide,
      .elem (.head _) (.elem (.head _) (.here _))⟩
example : isError (noNullValues c16NullDoc) = true ∧ isError (loadAsdictValue (.obj c16NullDoc)) = true := by
  decide +kernel
-- … while `metadata: {a: null, b: [null, {c: null}]}` has none outside metadata, is accepted, and
-- comes back unchanged
example : hasNullOutsideMetadata c16MetaDoc = false :=
  (nonull_iff _).mp (noNullValues_ok_of _ (by decide +kernel))
example : loadAsdictValue (.obj c16MetaDoc) = .ok (.obj c16MetaDoc) := okEq_sound (by decide +kernel)
-- and the metadata of `c16Graph` (with its null) survives the JSON round trip
example : (Obj.lookup "metadata" (match c16Doc (.num .pinf) with | .obj kvs => kvs | _ => [])).any
    (veq · (.obj [("note", .str "Infinity"), ("a", .null), ("x", .num .pinf)])) = true := by
  decide +kernel
end

end Demes.Theorems
