/-
  Semantic tie of the ancestry views (C14): `Graph.predecessors`, `Graph.successors`,
  `Graph.discrete_demographic_events` of demes/demes.py.

  * `predecessors` / `successors`: the extractor compiles the whole function (a dict of lists built by
    `setdefault` / `append` inside `for` / `if`) into a fold over the Model's `NameMap`
    (`Generated.views_predecessors`, `Generated.views_successors`); the Model's functions are proved equal
    to them for ALL graphs (`deme_info.ancestors is not None` read as `true`: the Model's ancestors are a list).
  * `discrete_demographic_events`: its four classification tests are translated into `Bool` functions
    (`Generated.guard_events_*`) and the Model's `discreteEvents` is proved equal, for ALL graphs, to
    `discreteEventsWith` (Proofs/Guards2Views.lean) of these; the number of `if`s, the loops and branches
    enclosing each test, the shape of the `time_aligned` flag, the initial dictionary and the statements that
    append an event (with the branch they stand in and the fields they pass) are pinned as tables.
-/
import DemesVerif.Generated.GuardsViews
import DemesVerif.Proofs.Guards2Views
namespace Demes.Tables
open Demes Demes.Proofs.Guards Demes.Proofs.Guards2
set_option linter.unusedSimpArgs false

/-! ### `predecessors`, `successors` -/

theorem guards_tie_predecessors (g : Graph) :
    predecessors g = Generated.views_predecessors (Deme_name := Deme.name) (Deme_ancestors := Deme.ancestors)
      (Deme_ancestors_is_not_None := fun _ => true) (self_demes := g.demes) := by
  unfold predecessors Generated.views_predecessors
  simp only [if_true]
  first | done | rfl

theorem guards_tie_successors (g : Graph) :
    successors g = Generated.views_successors (Deme_name := Deme.name) (Deme_ancestors := Deme.ancestors)
      (Deme_ancestors_is_not_None := fun _ => true) (self_demes := g.demes) := by
  unfold successors Generated.views_successors
  simp only [if_true]
  first | done | rfl

/-! ### `discrete_demographic_events` -/

theorem guards_sites_views : Generated.guardSitesViews =
    [("Graph.discrete_demographic_events", 5, 0), ("Graph.predecessors", 1, 0), ("Graph.successors", 1, 0)] := by
  decide +kernel

theorem guards_context_views : Generated.guardContextViews =
    [("guard_events_no_ancestors", ["for (v2, v3) in self.predecessors().items()"]),
     ("guard_events_one_ancestor", ["for (v2, v3) in self.predecessors().items()", "else of if len(v3) == 0"]),
     ("guard_events_split", ["for (v2, v3) in self.predecessors().items()", "else of if len(v3) == 0", "if len(v3) == 1"]),
     ("guard_events_misaligned", ["for (v2, v3) in self.predecessors().items()", "else of if len(v3) == 0",
        "else of if len(v3) == 1", "for v5 in v3"])] := by decide +kernel

/-- `time_aligned = True` immediately before `for deme_from in p`, whose only statement is `if` #3 (the
misalignment test) with the only statement `time_aligned = False`; read once, by `if` #4 right after the loop:
the flag is "no `deme_from` in `p` is misaligned" (`ends.all (fun e => !gMisaligned ..)` in `discreteEventsWith`) -/
theorem guards_events_aligned_flag :
    Generated.eventsAlignedFlag = ("for v5 in v3", 3, 4, "v4 is True") := by decide +kernel

theorem guards_events_loops : Generated.eventsLoops =
    ["for (v2, v3) in self.predecessors().items()", "for v5 in v3",
     "for (v5, v6) in v1.items()"] := by decide +kernel

theorem guards_events_initial : Generated.eventsInitial =
    [("pulses", "self.pulses"), ("splits", "[]"), ("branches", "[]"), ("mergers", "[]"), ("admixtures", "[]")] := by
  decide +kernel

/-- what is appended where (each row is one line of `discreteEventsWith`) -/
theorem guards_events_effects : Generated.eventsEffects =
    [("v1.setdefault(v3[0], set())", ["for (v2, v3) in self.predecessors().items()", "else of if len(v3) == 0",
        "if len(v3) == 1", "if self[v2].start_time == self[v3[0]].end_time"]),
     ("v1[v3[0]].add(v2)", ["for (v2, v3) in self.predecessors().items()", "else of if len(v3) == 0",
        "if len(v3) == 1", "if self[v2].start_time == self[v3[0]].end_time"]),
     ("v0['branches'].append(Branch(parent=v3[0], child=v2, time=self[v2].start_time))",
        ["for (v2, v3) in self.predecessors().items()", "else of if len(v3) == 0", "if len(v3) == 1",
         "else of if self[v2].start_time == self[v3[0]].end_time"]),
     ("v0['mergers'].append(Merge(parents=self[v2].ancestors, proportions=self[v2].proportions, child=v2, time=self[v2].start_time))",
        ["for (v2, v3) in self.predecessors().items()", "else of if len(v3) == 0", "else of if len(v3) == 1",
         "if v4 is True"]),
     ("v0['admixtures'].append(Admix(parents=self[v2].ancestors, proportions=self[v2].proportions, child=v2, time=self[v2].start_time))",
        ["for (v2, v3) in self.predecessors().items()", "else of if len(v3) == 0", "else of if len(v3) == 1",
         "else of if v4 is True"]),
     ("v0['splits'].append(Split(parent=v5, children=list(v6), time=self[v5].end_time))",
        ["for (v5, v6) in v1.items()"])] := by decide +kernel

/-- `len(p) == 0` -/
theorem guard_events_no_ancestors_meaning (n : Nat) :
    Generated.guard_events_no_ancestors (len_v3 := n) = decide (n = 0) := by
  unfold Generated.guard_events_no_ancestors
  grind

/-- `len(p) == 1` -/
theorem guard_events_one_ancestor_meaning (n : Nat) :
    Generated.guard_events_one_ancestor (len_v3 := n) = decide (n = 1) := by
  unfold Generated.guard_events_one_ancestor
  grind

/-- `self[c].start_time == self[p[0]].end_time` -/
theorem guard_events_split_meaning (childStart : ETime) (parentEnd : Q) :
    Generated.guard_events_split (self_v2_start_time := Num.ofETime childStart) (self_v3_0_end_time := Num.fin parentEnd)
      = decide (childStart = ETime.fin parentEnd) := by
  unfold Generated.guard_events_split
  exact eqIEEE_ofETime childStart (.fin parentEnd)

/-- `self[c].start_time != self[deme_from].end_time` -/
theorem guard_events_misaligned_meaning (childStart parentEnd : ETime) :
    Generated.guard_events_misaligned (self_v2_start_time := Num.ofETime childStart)
      (self_v5_end_time := Num.ofETime parentEnd) = !decide (childStart = parentEnd) := by
  unfold Generated.guard_events_misaligned
  rw [eqIEEE_ofETime]

/-- `discreteEvents` makes exactly the source's four tests, in the source's nesting -/
theorem guards_tie_discrete_events : discreteEvents = discreteEventsWith
    (fun n => Generated.guard_events_no_ancestors (len_v3 := n))
    (fun n => Generated.guard_events_one_ancestor (len_v3 := n))
    (fun s e => Generated.guard_events_split (self_v2_start_time := s) (self_v3_0_end_time := e))
    (fun s e => Generated.guard_events_misaligned (self_v2_start_time := s) (self_v5_end_time := e)) := by
  funext g
  unfold discreteEvents discreteEventsWith
  dsimp only
  congr 2
  funext acc cp
  obtain ⟨ev, sp⟩ := acc
  obtain ⟨c, p⟩ := cp
  match p with
  | [] => simp [guard_events_no_ancestors_meaning]
  | [p0] =>
    simp [guard_events_no_ancestors_meaning, guard_events_one_ancestor_meaning, guard_events_split_meaning]
  | p0 :: p1 :: rest =>
    simp [guard_events_no_ancestors_meaning, guard_events_one_ancestor_meaning, guard_events_misaligned_meaning]

/-! ### `discreteEventsWith` really uses its test arguments: in `exGraph` deme `b` starts at 10 inside the life of
its only ancestor `a` (which ends at 0): a branch -/

section sensitivity

example : (discreteEvents exGraph).map (·.branches) = some [{ parent := "a", child := "b", time := .fin 10 }]
    ∧ (discreteEvents exGraph).map (·.splits) = some [] := by decide +kernel
-- the split test answering "yes": a split of `a` instead
example : ((discreteEventsWith (fun n => n == 0) (fun n => n == 1) yes2 no2 exGraph).map (·.splits))
      = some [{ parent := "a", children := ["b"], time := 0 }]
    ∧ ((discreteEventsWith (fun n => n == 0) (fun n => n == 1) yes2 no2 exGraph).map (·.branches)) = some [] := by
  decide +kernel
-- every deme counted as without ancestors: nothing
example : ((discreteEventsWith (fun _ => true) (fun n => n == 1) no2 no2 exGraph).map (·.branches)) = some [] := by
  decide +kernel
-- no deme counted as having one ancestor: `b` is classified by alignment, as a merger or an admixture
example : ((discreteEventsWith (fun n => n == 0) (fun _ => false) no2 no2 exGraph).map (·.mergers))
      = some [{ parents := ["a"], proportions := [1], child := "b", time := .fin 10 }]
    ∧ ((discreteEventsWith (fun n => n == 0) (fun _ => false) no2 yes2 exGraph).map (·.admixtures))
      = some [{ parents := ["a"], proportions := [1], child := "b", time := .fin 10 }] := by decide +kernel
example : predecessors exGraph = [("a", []), ("b", ["a"])] ∧ successors exGraph = [("a", ["b"]), ("b", [])] := by
  decide +kernel

end sensitivity

end Demes.Tables
