#!/usr/bin/env python3
"""Rebuild lean/registry.json: every `theorem` of the listed Theorems/*.lean files (namespace
Demes.Theorems) plus the table/fact obligations each property depends on."""
import json, os, re
LEAN = os.path.join(os.path.dirname(os.path.dirname(os.path.abspath(__file__))), "lean")
# Theorems/Builder.lean (the Builder entry route) serves three properties: a FILES entry may be
# ("Module", [theorem names]) to register only the named theorems of that file
BUILDER_C01 = ["builder_resolve_valid"]
BUILDER_C18 = ["builder_history", "builder_history_stable", "builder_fromdict_history"]
BUILDER_C02 = ["builder_doc", "builder_equiv_dict", "builder_run_callsOfDoc", "builder_roundtrip_exact", "builder_fromdict_is_dict",
               "builder_equiv_dict_counterexample", "builder_equiv_dict_null_counterexample", "builder_equiv_dict_infinity_counterexample",
               "builder_equiv_dict_null_default_counterexample", "builder_equiv_dict_empty_demes_counterexample",
               "builder_none_is_absent", "builder_none_kept", "builder_none_hides_default_demes", "builder_none_hides_default_source",
               "builder_none_hides_default_dest", "builder_none_vs_omitted_counterexample", "builder_time_units_none_kept",
               "builder_infinity_string", "builder_values_verbatim", "builder_infinity_elsewhere_counterexample"]
FILES = {
    "C01": ["C01", "C01Ops", "C01Accessors", ("Builder", BUILDER_C01)], "C02": ["C02", ("Builder", BUILDER_C02)], "C03": ["C03"], "C04": ["C04"], "C05": ["C05"], "C06": ["C06"],
    "C07": ["C07"], "C08": ["C08"], "C09": ["C09", "C09Real"], "C10": ["C10"], "C11": ["C11"], "C12": ["C12"],
    "C13": ["C13", "C13Real"], "C14": ["C14", "C14Close"], "C15": ["C15"], "C16": ["C16"], "C17": ["C17"], "C18": ["C18", ("Builder", BUILDER_C18)],
    "C19": ["C19"], "C20": ["C20"],
}
T = lambda mod, names: [{"module": f"DemesVerif.Theorems.{mod}", "name": f"Demes.Tables.{n}"} for n in names]
RESOLVE_TABLES = ["tables_allowed_top", "tables_allowed_defaults", "tables_allowed_deme", "tables_allowed_local_defaults",
                  "tables_allowed_epoch", "tables_allowed_migration", "tables_allowed_pulse", "tables_defaults_deme",
                  "tables_defaults_migration", "tables_defaults_pulse", "tables_defaults_epoch", "tables_defaults_local_epoch",
                  "tables_class_epoch", "tables_class_migration", "tables_class_pulse", "tables_class_deme", "tables_class_graph",
                  "tables_validators_interpreted"]
EVENT_TABLES = ["tables_class_split", "tables_class_branch", "tables_class_merge", "tables_class_admix"]
MS_TABLES = ["tables_ms_parser", "tables_ms_structure", "tables_ms_event", "tables_ms_growth", "tables_ms_pop_growth", "tables_ms_size",
             "tables_ms_pop_size", "tables_ms_mig_rate", "tables_ms_mig_entry", "tables_ms_mig_matrix", "tables_ms_split", "tables_ms_join",
             "tables_ms_float_str"]
# semantic tie of the numeric guard conditions (Generated/Guards.lean, DESIGN §4.1)
GUARDS_RESOLVE = ["guards_sites_resolve", "guards_context_resolve",
                  "guards_tie_int_or_float", "guards_tie_int_or_float_not_number", "guard_int_or_float_duck_meaning",
                  "guards_tie_positive", "guards_tie_non_negative", "guards_tie_finite", "guards_tie_unit_interval",
                  "guards_tie_unit_interval_exclusive_lo", "guards_tie_list_positive_finite",
                  "guards_tie_list_non_negative_finite", "guards_tie_list_positive", "guards_tie_list_non_negative",
                  "guards_tie_list_unit_interval", "guards_tie_list_unit_interval_exclusive_lo", "guards_tie_sum_less_than_one",
                  "guard_epoch_order_meaning", "guard_epoch_inf_constant_meaning", "guard_epoch_constant_sizes_meaning",
                  "guards_tie_add_epoch",
                  "guard_add_deme_no_ancestors_meaning", "guard_add_deme_alive_meaning", "guards_tie_add_deme_header",
                  "guard_time_intersection_meaning", "guards_tie_time_intersection",
                  "guard_migration_same_deme_meaning", "guard_migration_order_meaning", "guard_migration_overlap_meaning",
                  "guards_tie_add_asymmetric_migration",
                  "guard_pulse_dest_end_meaning", "guard_pulse_source_start_meaning", "guard_pulse_sum_meaning",
                  "guards_tie_add_pulse"]
GUARDS_MATRICES = ["guards_sites_matrices", "guards_context_matrices", "guard_matrices_break_meaning",
                   "guard_matrices_active_meaning", "guard_matrices_occupied_meaning", "guards_tie_sweep",
                   "guards_tie_migration_matrices", "guard_migration_rates_meaning", "guards_tie_check_migration_rates"]
GUARDS_SIZE_AT = ["guards_sites_size_at", "guards_context_size_at", "guard_size_at_inf_meaning",
                  "guard_size_at_epoch_meaning", "guard_size_at_end_size_meaning", "guards_tie_size_at"]
GUARDS_CLOSE = ["guards_tie_isclose_deme_proportions", "guards_tie_epoch_assert_close", "guards_tie_epoch_isclose",
                "guards_tie_migration_assert_close", "guards_tie_migration_isclose",
                "guards_tie_pulse_assert_close", "guards_tie_pulse_isclose", "guards_tie_deme_assert_close",
                "guards_tie_deme_isclose", "guards_tie_graph_assert_close", "guards_tie_graph_isclose"]
GUARDS_VIEWS = ["guards_tie_predecessors", "guards_tie_successors", "guards_sites_views", "guards_context_views",
                "guards_events_aligned_flag", "guards_events_loops", "guards_events_initial",
                "guards_events_effects", "guard_events_no_ancestors_meaning", "guard_events_one_ancestor_meaning",
                "guard_events_split_meaning", "guard_events_misaligned_meaning", "guards_tie_discrete_events"]
GUARDS_IO = ["guards_no_null_helpers", "guards_tie_check_if_none", "guards_tie_no_null_val",
             "guards_tie_no_null_obj", "guards_tie_no_null_list", "guards_tie_no_null_values",
             "guards_sites_io", "guards_context_io", "guards_stringify_loops", "guards_stringify_assignments",
             "guard_stringify_deme_meaning", "guard_stringify_migration_meaning",
             "guards_tie_stringify_infinities", "guards_unstringify_loops", "guards_unstringify_assignments",
             "guard_unstringify_deme_meaning", "guard_unstringify_migration_meaning",
             "guard_unstringify_default_key_meaning", "guard_unstringify_default_meaning",
             "guards_tie_unstringify_infinities", "guards_io_pipeline"]
GUARDS_RESCALE = ["guards_tie_in_generations", "guards_in_generations_other"]
GUARDS_RENAME = ["guards_tie_rename_demes", "guards_sites_rename", "guards_context_rename", "guards_rename_other",
                 "guard_rename_types_meaning", "guard_rename_collision_meaning", "guards_tie_rename_check"]
GUARDS_SIMPLIFY = ["guards_sites_simplify", "guards_context_simplify", "guards_simplify_epochs_deletes",
                   "guards_simplify_migrations_deletes", "guards_simplify_epochs_locals", "guards_simplify_calls",
                   "guard_simplify_infer_constant_meaning", "guard_simplify_size_function_meaning",
                   "guard_simplify_end_size_meaning", "guard_simplify_selfing_meaning",
                   "guard_simplify_cloning_meaning", "guards_tie_epoch_simplified",
                   "guard_simplify_start_inf_meaning", "guard_simplify_single_ancestor_meaning",
                   "guard_simplify_unit_proportion_meaning", "guard_simplify_start_implied_meaning",
                   "guards_tie_deme_simplified", "guard_simplify_mig_end_meaning", "guard_simplify_mig_start_meaning",
                   "guards_tie_strip_bounds", "guard_collapse_first_meaning", "guard_collapse_second_meaning",
                   "guards_tie_collapse_demes", "guard_simplify_single_pair_meaning",
                   "guard_simplify_search_loop_meaning", "guards_tie_search_loop", "guards_tie_simplify_migrations",
                   "guard_asdict_keep_field_meaning", "guard_simplify_has_migrations_meaning"]
# semantic tie of the tests of ms.to_ms / ms.build_graph (Generated/GuardsToMs.lean, GuardsMsBuild.lean)
GUARDS_TO_MS = ["guards_sites_to_ms", "guards_context_to_ms", "guards_tests_to_ms",
                "guard_to_ms_size_function_meaning", "guard_to_ms_sizes_differ_meaning",
                "guards_tie_get_growth_rate", "guard_to_ms_size_change_meaning", "guards_tie_deme_size_events",
                "guard_to_ms_last_ancestor_meaning", "guard_to_ms_multi_source_meaning",
                "guards_tie_ancestry_events", "guard_to_ms_migration_off_meaning", "guards_tie_migration_events",
                "guard_to_ms_samples_meaning", "guard_to_ms_structure_meaning", "guard_to_ms_no_samples_meaning",
                "guards_tie_to_ms"]
GUARDS_MS_BUILD = ["guards_sites_ms_build", "guards_context_ms_build", "guards_tests_ms_build",
                   "guard_ms_bad_id_meaning", "guard_ms_joined_id_meaning", "guards_tie_convert_population_id",
                   "guard_ms_outside_meaning", "guard_ms_new_epoch_meaning", "guards_tie_epoch_resolve",
                   "guard_ms_new_matrix_meaning", "guards_tie_migration_matrix_at", "guard_ms_growth_all_meaning",
                   "guard_ms_growth_one_meaning", "guard_ms_diagonal_meaning", "guard_ms_npop_meaning",
                   "guards_tie_step_event", "guard_ms_foreign_meaning", "guard_ms_no_foreign_meaning",
                   "guard_ms_replaced_meaning", "guards_tie_apply_params", "guard_ms_growing_meaning",
                   "guard_ms_infinite_meaning", "guards_tie_finalise_growth"]
# translator tie of the handle management (C17), the command line (C19) and the loop structure behind the step counts (C20):
# Generated/GuardsHandles.lean, GuardsCli.lean, GuardsCost.lean (DESIGN §4.1)
GUARDS_HANDLES = ["handles_tie_context_enter", "handles_tie_context_exit", "handles_context_manager_open",
                  "handles_tie_load_asdict", "handles_tie_loads_asdict", "handles_tie_load", "handles_tie_loads",
                  "handles_tie_dump", "handles_tie_dumps", "handles_tie_dump_all", "handles_tie_load_all_first_next",
                  "handles_tie_load_all", "handles_term_load_asdict", "handles_term_loads_asdict", "handles_term_load",
                  "handles_term_loads", "handles_term_load_all", "handles_term_dump", "handles_term_dumps",
                  "handles_term_dump_all", "handles_signatures"]
GUARDS_CLI = ["cli_tie_parse_call", "cli_tie_ms_call", "cli_dump_defaults", "cli_tie_main", "cli_tie_exclusive", "cli_dispatch",
              "cli_parse_arguments", "cli_ms_arguments", "cli_look_ahead_break_meaning", "cli_tie_look_loop", "cli_look_ahead",
              "cli_term_parse_call", "cli_term_ms_call", "cli_term_main"]
GUARDS_COST = ["cost_loops_migration_matrices", "cost_loops_check_migration_rates", "cost_loops_in_generations",
               "cost_loops_asdict", "cost_loops_asdict_simplified", "cost_tie_check_migration_rates",
               "cost_tie_in_generations", "cost_tie_asdict_loops", "cost_tie_dump", "cost_nests"]
# semantic tie of the validators of the record classes (C14: Theorems/TablesGuardsRecords.lean) and of Deme / Graph
# (C01, C03: Theorems/TablesGuardsRecordsResolve.lean): Generated/GuardsRecords.lean
GUARDS_RECORDS_SHAPE = ["guards_sites_records", "guards_context_records", "guards_records_hooks", "guards_records_loops"]
GUARDS_RECORDS = GUARDS_RECORDS_SHAPE + [
    "guard_record_proportion_meaning", "guards_tie_split_post_init", "guards_tie_branch_post_init",
    "guards_tie_merge_check_proportions", "guards_tie_merge_post_init",
    "guards_tie_admix_check_proportions", "guards_tie_admix_post_init"]
GUARDS_RECORDS_RESOLVE = [
    "guards_deme_check_ancestors_body", "guards_deme_check_proportions_body", "guards_deme_post_init_body",
    "guards_deme_check_proportions_is_merge", "guard_deme_duplicate_ancestors_meaning", "guard_deme_own_ancestor_meaning",
    "guard_deme_proportions_sum_meaning", "guard_deme_lengths_meaning", "guard_deme_unit_interval_meaning",
    "guard_deme_positive_meaning", "guards_tie_deme_validators",
    "guard_graph_units_need_generation_time_meaning", "guard_graph_generations_meaning",
    "guards_graph_post_init_default", "guards_tie_graph_post_init"]
G_RESOLVE = T("TablesGuards", GUARDS_RESOLVE) + T("TablesGuardsMatrices", GUARDS_MATRICES) \
    + T("TablesGuardsRecords", GUARDS_RECORDS_SHAPE) + T("TablesGuardsRecordsResolve", GUARDS_RECORDS_RESOLVE)
G_DEME_EPOCHS = lambda: T("TablesGuardsDemeEpochs", GUARDS_DEME_EPOCHS)
# `str.isidentifier` beyond ASCII: the interpreter's identifier classes, regenerated on every run (Generated/Ident.lean)
IDENT_TABLES = T("TablesIdent", ["tables_valid_deme_name", "tables_xid_start", "tables_xid_continue", "tables_xid_start_wf",
                                 "tables_xid_continue_wf", "tables_xid_start_sub_continue", "isIdStart_ascii", "isIdCont_ascii"])
# translator tie of `class Builder` (C02, C18): Generated/GuardsBuilder.lean, Model/BuilderProg.lean
GUARDS_BUILDER = ["builder_tie_init_dict", "builder_tie_add_deme_dict", "builder_tie_add_migration_dict", "builder_tie_add_pulse_dict",
                  "builder_tieV_init", "builder_tieV_add_deme", "builder_tieV_add_migration", "builder_tieV_add_pulse",
                  "builder_tie_init", "builder_tie_add_deme", "builder_tie_add_migration", "builder_tie_add_pulse",
                  "builder_tie_call", "builder_tie_history", "builder_signatures", "builder_call_arguments",
                  "builder_parameter_kinds", "builder_sentinel", "builder_fromdict_body"]
# closeness of the event records (C14: Theorems/TablesGuardsRecordsClose.lean): Generated/GuardsRecordsClose.lean
GUARDS_RECORDS_CLOSE = ["guards_record_assert_close_returns", "guards_tie_split_assert_close", "guards_tie_split_isclose",
                        "guards_tie_branch_assert_close", "guards_tie_branch_isclose", "guards_tie_merge_assert_close",
                        "guards_tie_merge_isclose", "guards_tie_admix_assert_close", "guards_tie_admix_isclose",
                        "guards_tie_record_isclose", "guards_record_class_test"]
# whole body of `Deme._check_epochs` (C01, C03: Theorems/TablesGuardsDemeEpochs.lean): Generated/GuardsDemeEpochs.lean
GUARDS_DEME_EPOCHS = ["guards_deme_check_epochs_shape", "guards_deme_check_epochs_at_construction", "guards_tie_deme_check_epochs",
                      "guards_deme_check_epochs_meaning", "guards_deme_check_epochs_is_v5_alignment",
                      "guards_deme_check_epochs_valid", "guards_deme_check_epochs_resolved"]
# translator tie of the five read accessors (C01, C15: Theorems/TablesAccessors.lean): Generated/Accessors.lean
ACCESSOR_TABLES = ["accessors_bodies", "accessors_fields", "accessors_tie_epoch_time_span", "accessors_tie_deme_end_time",
                   "accessors_deme_end_time_raises", "accessors_tie_deme_time_span", "accessors_tie_graph_getitem",
                   "accessors_tie_graph_contains"]
ACCESSOR_LOOKUPS = [{"module": "DemesVerif.Theorems.C01Accessors", "name": f"Demes.Theorems.{n}"} for n in
                    ["getItem_ok_iff_deme?", "contains_eq_hasName", "rename_getItem", "rename_contains",
                     "rename_getItem_old_name_gone", "rename_getItem_unused_name"]]
# semantic tie of the post-passes of from_ms (C08: Generated/GuardsMsPost.lean): Builder._add_migrations_from_matrices,
# _remove_transient_demes, _sort_demes_by_ancestry, ms.remap_deme_names, ms.from_ms and the end of build_graph
GUARDS_MS_POST_SHAPE = ["guards_sites_ms_post", "guards_tests_ms_post", "guards_context_ms_post", "guards_ms_post_effects",
                        "guards_from_ms_pipeline"]
GUARDS_MS_POST_NAMES = ["guard_ms_post_names_given_meaning", "guard_ms_post_names_count_meaning", "guards_tie_from_ms"]
GUARDS_MS_POST = GUARDS_MS_POST_SHAPE + [
    "guard_ms_post_lengths_meaning", "guard_ms_post_has_names_meaning", "guard_ms_post_square_meaning",
    "guard_ms_post_row_meaning", "guard_ms_post_diagonal_meaning", "guard_ms_post_no_current_meaning",
    "guard_ms_post_new_rate_meaning", "guard_ms_post_rate_zero_meaning", "guard_ms_post_same_rate_meaning",
    "guards_tie_migration_cell", "guards_tie_add_migrations_from_matrices", "guard_ms_post_has_demes_meaning",
    "guard_ms_post_skip_meaning", "guard_ms_post_transient_meaning", "guard_ms_post_pulse_source_meaning",
    "guard_ms_post_pulse_dest_meaning", "guard_ms_post_migration_source_meaning", "guard_ms_post_migration_dest_meaning",
    "guards_tie_remove_transient_demes", "guard_ms_post_sort_le_meaning", "guards_tie_sort_demes_by_ancestry"] + GUARDS_MS_POST_NAMES
CODEC_TABLES = T("TablesCodec", ["tables_codec_yaml_load", "tables_codec_yaml_dump", "tables_codec_calls"])
EXTRA = {
    "C01": T("TablesResolve", RESOLVE_TABLES) + T("TablesConst", ["tables_rel_tol"]) + G_RESOLVE + IDENT_TABLES + G_DEME_EPOCHS()
    + T("TablesAccessors", ACCESSOR_TABLES),
    "C02": T("TablesResolve", RESOLVE_TABLES) + T("TablesGuardsBuilder", GUARDS_BUILDER)
    + T("TablesFacts", ["fact_builder_resolve_only_passes_data"]),
    "C03": T("TablesResolve", RESOLVE_TABLES) + T("TablesConst", ["tables_rel_tol"]) + G_RESOLVE + IDENT_TABLES + G_DEME_EPOCHS(),
    "C05": T("TablesResolve", RESOLVE_TABLES[:7]) + T("TablesGuardsSimplify", GUARDS_SIMPLIFY),
    "C06": T("TablesResolve", RESOLVE_TABLES[:7]) + T("TablesAsdictShape", ["tables_asdict_shape"]),
    "C07": T("TablesMs", MS_TABLES) + T("TablesGuardsToMs", GUARDS_TO_MS),
    "C08": T("TablesMs", MS_TABLES) + T("TablesGuardsMsBuild", GUARDS_MS_BUILD) + T("TablesGuardsMsPost", GUARDS_MS_POST),
    "C09": T("TablesMs", MS_TABLES),
    "C16": T("TablesGuardsIO", GUARDS_IO) + CODEC_TABLES,
    "C04": CODEC_TABLES,
    "C10": T("TablesConst", ["tables_rel_tol", "tables_abs_tol"]) + T("TablesGuardsClose", GUARDS_CLOSE),
    "C11": T("TablesFacts", ["fact_in_generations_copies_first"]) + T("TablesGuardsRescale", GUARDS_RESCALE),
    "C12": T("TablesConst", ["tables_rel_tol"]) + T("TablesGuardsMatrices", GUARDS_MATRICES),
    "C13": T("TablesConst", ["tables_rel_tol"]) + T("TablesGuardsSizeAt", GUARDS_SIZE_AT),
    "C14": T("TablesResolve", EVENT_TABLES) + T("TablesGuardsViews", GUARDS_VIEWS) + T("TablesGuardsRecords", GUARDS_RECORDS)
           + T("TablesGuardsRecordsClose", GUARDS_RECORDS_CLOSE)
           + T("TablesGuardsClose", ["guards_tie_isclose_deme_proportions"]) + T("TablesConst", ["tables_rel_tol", "tables_abs_tol"]),
    "C15": T("TablesFacts", ["fact_rename_demes_copies_first"]) + T("TablesGuardsRename", GUARDS_RENAME) + IDENT_TABLES[:3]
    + ACCESSOR_LOOKUPS + T("TablesAccessors", ["accessors_bodies", "accessors_fields", "accessors_tie_graph_getitem", "accessors_tie_graph_contains"]),
    "C18": T("TablesAsdictShape", ["tables_asdict_shape"]) + T("TablesFacts", ["fact_fromdict_copies_first", "fact_builder_resolve_passes_data", "fact_fromdict_copy_is_unaliased", "fact_deepcopy_unaliased_shape", "fact_builder_resolve_only_passes_data"])
    + T("TablesGuardsBuilder", GUARDS_BUILDER),
    "C19": T("TablesMs", ["tables_cli_parse_flags", "tables_cli_parse_tests"]) + T("TablesGuardsCli", GUARDS_CLI),
    "C17": T("TablesGuardsHandles", GUARDS_HANDLES),
    "C20": T("TablesGuardsCost", GUARDS_COST),
}
# theorems of other properties that a property's level rests on
BORROW = {"C03": [("C01", "resolve_valid"), ("C06", "resolve_asdict")], "C01": [("C08", "C08.fromMs_valid_all")],
          "C02": [("C03", "resolve_eq_fill"), ("C18", "resolve_alias_insensitive")]}
reg = {}
for pid, mods in FILES.items():
    entries = []
    for m in mods:
        only = None
        if isinstance(m, tuple):
            m, only = m
        p = os.path.join(LEAN, "DemesVerif", "Theorems", m + ".lean")
        if not os.path.exists(p):
            continue
        src = open(p, encoding="utf-8").read()
        src = re.sub(r"/-.*?-/", "", src, flags=re.S)
        ns = re.search(r"^namespace\s+(\S+)", src, flags=re.M).group(1)
        names = re.findall(r"^theorem\s+(\S+)", src, flags=re.M)
        if only is not None:
            missing = [n for n in only if n not in names]
            assert not missing, f"{m}: theorems not found: {missing}"
        for name in names:
            if only is not None and name not in only:
                continue
            entries.append({"module": f"DemesVerif.Theorems.{m}", "name": f"{ns}.{name}"})
    for (m, n) in BORROW.get(pid, []):
        entries.append({"module": f"DemesVerif.Theorems.{m}", "name": f"Demes.Theorems.{n}"})
    if entries:
        reg[pid] = entries + EXTRA.get(pid, [])
json.dump(reg, open(os.path.join(LEAN, "registry.json"), "w"), indent=1)
print({k: len(v) for k, v in reg.items()})
