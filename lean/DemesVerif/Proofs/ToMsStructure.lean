/-
  C07 — structure of the emitted command: reading it back (`parseCmd`), the order of the
  options (stable sort by time), their times.
-/
import DemesVerif.Proofs.ToMsAccept
set_option linter.unusedSimpArgs false
set_option linter.unusedVariables false
namespace Demes.Proofs.ToMs
open Demes Demes.Ms Demes.Spec Demes.Spec.C07 Demes.Proofs.RV

/-! ### reading the printed options back -/

/-- a record that `parseOne` reads back unchanged from its printed form -/
def Canon : Event Growth → Prop
  | .popSizeChange o t _ _ => o = "" ∧ (numPos t = false → t = .fin 0)
  | .popGrowthRateChange o t _ _ => o = "" ∧ (numPos t = false → t = .fin 0)
  | .migEntryChange o t _ _ _ => o = "" ∧ (numPos t = false → t = .fin 0)
  | .split o _ _ _ => o = ""
  | .join o _ _ _ => o = ""
  | _ => False

theorem numPos0 : numPos (Num.fin 0) = false := by simp [numPos, Num.lt, Num.zero]

theorem parseOne_print {e : Event Growth} (h : Canon e) (rest : List (Tok Growth)) :
    parseOne (printEv e ++ rest) = some (e, rest) := by
  cases e with
  | popSizeChange o t i x =>
    obtain ⟨rfl, ht⟩ := h
    by_cases hp : numPos t = true
    · simp [printEv, hp, parseOne]
    · have := ht (by simpa using hp)
      subst this
      simp [printEv, numPos0, parseOne]
  | popGrowthRateChange o t i a =>
    obtain ⟨rfl, ht⟩ := h
    by_cases hp : numPos t = true
    · simp [printEv, hp, parseOne]
    · have := ht (by simpa using hp)
      subst this
      simp [printEv, numPos0, parseOne]
  | migEntryChange o t i j r =>
    obtain ⟨rfl, ht⟩ := h
    by_cases hp : numPos t = true
    · simp [printEv, hp, parseOne]
    · have := ht (by simpa using hp)
      subst this
      simp [printEv, numPos0, parseOne]
  | split o t i p => cases h; simp [printEv, parseOne]
  | join o t i j => cases h; simp [printEv, parseOne]
  | growthRateChange => cases h
  | sizeChange => cases h
  | migRateChange => cases h
  | migMatrixChange => cases h

theorem printEv_ne_nil {e : Event Growth} (h : Canon e) : printEv e ≠ [] := by
  cases e <;> simp [Canon] at h <;> simp [printEv] <;> split <;> simp

theorem parseEvents_print : ∀ (evs : List (Event Growth)), (∀ e ∈ evs, Canon e) →
    ∀ fuel, ((evs.map printEv).flatten).length ≤ fuel →
      parseEvents fuel ((evs.map printEv).flatten) = some evs
  | [], _, fuel, _ => by cases fuel <;> rfl
  | e :: evs, h, fuel, hf => by
    have hc := h e List.mem_cons_self
    simp only [List.map_cons, List.flatten_cons] at hf ⊢
    obtain ⟨t, ts, hts⟩ : ∃ t ts, printEv e = t :: ts := by
      cases hp : printEv e with
      | nil => exact absurd hp (printEv_ne_nil hc)
      | cons t ts => exact ⟨t, ts, rfl⟩
    cases fuel with
    | zero => rw [hts] at hf; simp at hf
    | succ fuel =>
      have hlen : ((evs.map printEv).flatten).length ≤ fuel := by
        rw [hts] at hf; simp only [List.cons_append, List.length_cons, List.length_append] at hf; omega
      have h1 : parseEvents (fuel + 1) (printEv e ++ (evs.map printEv).flatten)
          = match parseOne (printEv e ++ (evs.map printEv).flatten) with
            | some (e, r) => (parseEvents fuel r).map (e :: ·)
            | none => none := by
        rw [hts]; rfl
      rw [h1, parseOne_print hc]
      simp only []
      rw [parseEvents_print evs (fun x hx => h x (List.mem_cons_of_mem _ hx)) fuel hlen]
      rfl

theorem parseEvents_mono {evs : List (Event Growth)} (h : ∀ e ∈ evs, Canon e) (fuel : Nat)
    (hf : ((evs.map printEv).flatten).length ≤ fuel) :
    parseEvents fuel ((evs.map printEv).flatten) = some evs := parseEvents_print evs h fuel hf

/-- the first token of a printed option is a flag other than `-I` -/
theorem printEv_head {e : Event Growth} (h : Canon e) :
    ∃ f ts, printEv e = Tok.flag f :: ts ∧ f ≠ "-I" := by
  cases e <;> simp [Canon] at h <;> simp [printEv] <;> (try split) <;> simp

theorem parseCmd_noHeader {evs : List (Event Growth)} (h : ∀ e ∈ evs, Canon e) :
    parseCmd ((evs.map printEv).flatten) = some ⟨none, evs⟩ := by
  have hp := parseEvents_print evs h _ (Nat.le_refl _)
  cases evs with
  | nil => rfl
  | cons e evs =>
    obtain ⟨f, ts, hts, hf⟩ := printEv_head (h e List.mem_cons_self)
    simp only [List.map_cons, List.flatten_cons, hts, List.cons_append] at hp ⊢
    unfold parseCmd
    split
    · rename_i f' n r heq
      simp only [List.cons.injEq, Tok.flag.injEq] at heq
      obtain ⟨rfl, _⟩ := heq
      simp only [hf, if_false]
      rw [hp]; rfl
    · rw [hp]; rfl

theorem raws_map (ss : List String) : raws (ss.map (Tok.raw (α := Growth))) = some ss := by
  induction ss with
  | nil => rfl
  | cons s ss ih => simp [raws, ih]

theorem parseCmd_header {n : Nat} (hn : 0 < n) {ss : List String} (hl : ss.length = n)
    {evs : List (Event Growth)} (h : ∀ e ∈ evs, Canon e) :
    parseCmd ([Tok.flag "-I", Tok.int (n : Int)] ++ ss.map Tok.raw ++ (evs.map printEv).flatten)
      = some ⟨some (n, ss), evs⟩ := by
  have hlen : (ss.map (Tok.raw (α := Growth))).length = n := by simp [hl]
  have h1 : ¬ ((n : Int) < 1) := by omega
  have h2 : ¬ ((ss.map (Tok.raw (α := Growth)) ++ (evs.map printEv).flatten).length < n) := by
    simp [hl]
  have htake : (ss.map (Tok.raw (α := Growth)) ++ (evs.map printEv).flatten).take n = ss.map Tok.raw := by
    rw [List.take_append_of_le_length (by omega), List.take_of_length_le (by omega)]
  have hdrop : (ss.map (Tok.raw (α := Growth)) ++ (evs.map printEv).flatten).drop n = (evs.map printEv).flatten := by
    rw [List.drop_append_of_le_length (by omega), List.drop_of_length_le (by omega)]; rfl
  have hp := parseEvents_print evs h (ss.map (Tok.raw (α := Growth)) ++ (evs.map printEv).flatten).length
    (by simp)
  simp only [List.cons_append, List.nil_append, List.append_assoc, parseCmd, if_true, Int.toNat_natCast, h1, h2,
    decide_false, Bool.or_self, Bool.false_eq_true, if_false, htake, hdrop, raws_map, hp]

/-! ### the emitted options are canonical -/

theorem canon_scale {N0 : Q} (hN : 0 < N0) {e : Event Growth} (hg : EvGood e) (ho : Canon e) :
    Canon (scaleEv N0 e) := by
  obtain ⟨q, hq, hq0⟩ := hg.time
  have h4 : (0 : Q) < 4 * N0 := by grind
  have key : ∀ q' : Q, q' = q / (4 * N0) → (numPos (.fin q') = false → (Num.fin q') = .fin 0) := by
    intro q' hq' hp
    have hd : 0 ≤ q / (4 * N0) := (InGen.div_nonneg h4).2 hq0
    simp only [numPos, Num.lt, Num.zero, decide_eq_false_iff_not] at hp
    have : q' = 0 := by grind
    rw [this]
  cases e <;> simp only [Canon] at ho <;> simp only [Event.t] at hq <;> subst hq <;>
    simp only [scaleEv, Event.setT, Event.t, numDivQ, Canon] <;>
    first | exact ⟨ho.1, key _ rfl⟩ | exact ho

theorem canon_of_good {e : Event Growth} (hg : EvGood e) : Canon e := by
  obtain ⟨q, hq, hq0⟩ := hg.time
  have key : numPos (.fin q) = false → Num.fin q = .fin 0 := by
    intro hp
    simp only [numPos, Num.lt, Num.zero, decide_eq_false_iff_not] at hp
    have : q = 0 := by grind
    rw [this]
  have ho := hg.opt
  have hk := hg.kind
  cases e <;> simp only [kindOk] at hk <;> simp only [Event.t] at hq <;> subst hq <;>
    simp only [evOpt] at ho <;> subst ho <;> simp only [Canon] <;>
    first | exact ⟨trivial, key⟩ | exact ⟨rfl, key⟩ | trivial | rfl | cases hk

theorem evGood_scale {N0 : Q} (hN : 0 < N0) {e : Event Growth} (hg : EvGood e) : EvGood (scaleEv N0 e) := by
  obtain ⟨q, hq, hq0⟩ := hg.time
  have h4 : (0 : Q) < 4 * N0 := by grind
  have hd : 0 ≤ q / (4 * N0) := (InGen.div_nonneg h4).2 hq0
  have ho := hg.opt
  have hk := hg.kind
  refine ⟨⟨q / (4 * N0), ?_, hd⟩, ?_, ?_⟩
  · cases e <;> simp only [Event.t] at hq <;> subst hq <;> rfl
  · rw [scaleEv, kindOk_setT]; exact hk
  · cases e <;> exact ho

theorem evGood_finalEvs {g : Graph} (c : Clauses g) (hx : MsExpressible g = true) {N0 : Q} (hN : 0 < N0)
    {e : Event Growth} (h : e ∈ finalEvs g N0) : EvGood e := by
  obtain ⟨e', he', rfl⟩ := List.mem_map.1 h
  exact evGood_scale hN (evGood_rawEvs c hx ((mem_sortBy _).1 he'))

/-- the emitted command reads back as its `-I` header (when there is more than one deme) and
its list of options -/
theorem parseCmd_cmdOf {g : Graph} (c : Clauses g) (hx : MsExpressible g = true) {N0 : Q} (hN : 0 < N0)
    {samples : Option (List Int)} (hs : samplesOk g samples = true) :
    parseCmd (cmdOf g N0 samples) =
      some ⟨if g.demes.length > 1 then
              some (g.demes.length, (samples.getD (List.replicate g.demes.length 0)).map toString)
            else none, finalEvs g N0⟩ := by
  have hcanon : ∀ e ∈ finalEvs g N0, Canon e := fun e he => canon_of_good (evGood_finalEvs c hx hN he)
  unfold cmdOf headerToks
  by_cases hn : g.demes.length > 1
  · simp only [hn, if_true]
    have hl : ((samples.getD (List.replicate g.demes.length 0)).map toString).length = g.demes.length := by
      cases samples with
      | none => simp
      | some s => simpa [samplesOk] using hs
    have := parseCmd_header (n := g.demes.length) (by omega) hl hcanon
    simp only [List.map_map] at this
    exact this
  · simp only [hn, if_false, List.nil_append]
    exact parseCmd_noHeader hcanon

/-! ### the order of the options -/

/-- comparison of the (finite) times -/
def byQ (a b : Event Growth) : Bool := decide (evT a ≤ evT b)

theorem totalPre_byQ : TotalPre byQ where
  total a b := by
    simp only [byQ, decide_eq_true_eq]
    exact Rat.le_total
  trans a b c h1 h2 := by
    simp only [byQ, decide_eq_true_eq] at *
    exact Rat.le_trans h1 h2

theorem evT_of_good {e : Event Growth} {q : Q} (h : e.t = .fin q) : evT e = q := by
  simp [evT, h]

theorem byT_eq_byQ {a b : Event Growth} (ha : EvGood a) (hb : EvGood b) : byT a b = byQ a b := by
  obtain ⟨qa, hqa, _⟩ := ha.time
  obtain ⟨qb, hqb, _⟩ := hb.time
  simp [byT, byQ, hqa, hqb, Num.le, evT]

theorem sortBy_byT_eq {l : List (Event Growth)} (h : ∀ e ∈ l, EvGood e) : sortBy byT l = sortBy byQ l :=
  sortBy_congr l (fun a ha b hb => byT_eq_byQ (h a ha) (h b hb))

theorem evT_scale {N0 : Q} {e : Event Growth} (hg : EvGood e) : evT (scaleEv N0 e) = evT e / (4 * N0) := by
  obtain ⟨q, hq, _⟩ := hg.time
  cases e <;> simp only [Event.t] at hq <;> subst hq <;> rfl

theorem t_scale {N0 : Q} {e : Event Growth} {q : Q} (hq : e.t = .fin q) : (scaleEv N0 e).t = .fin (q / (4 * N0)) := by
  cases e <;> simp only [Event.t] at hq <;> subst hq <;> rfl

theorem finalEvs_eq {g : Graph} (c : Clauses g) (hx : MsExpressible g = true) (N0 : Q) :
    finalEvs g N0 = (sortBy byQ (rawEvs g N0)).map (scaleEv N0) := by
  rw [finalEvs, sortBy_byT_eq (fun e he => evGood_rawEvs c hx he)]

theorem sorted_finalEvs {g : Graph} (c : Clauses g) (hx : MsExpressible g = true) {N0 : Q} (hN : 0 < N0) :
    (finalEvs g N0).Pairwise (fun a b => evT a ≤ evT b) := by
  rw [finalEvs_eq c hx, List.pairwise_map]
  have hs := sorted_sortBy totalPre_byQ (rawEvs g N0)
  refine List.Pairwise.imp_of_mem ?_ hs
  intro a b ha hb hab
  have h4 : (0 : Q) < 4 * N0 := by grind
  rw [evT_scale (evGood_rawEvs c hx ((mem_sortBy _).1 ha)), evT_scale (evGood_rawEvs c hx ((mem_sortBy _).1 hb))]
  simp only [byQ, decide_eq_true_eq] at hab
  exact (InGen.div_le_div h4).2 hab

/-- stability: the options of one time keep the order in which `toMs` generated them -/
theorem finalEvs_filter_time {g : Graph} (c : Clauses g) (hx : MsExpressible g = true) {N0 : Q} (hN : 0 < N0) (T : Q) :
    (finalEvs g N0).filter (fun e => e.t == .fin (T / (4 * N0)))
      = ((rawEvs g N0).filter (fun e => e.t == .fin T)).map (scaleEv N0) := by
  have h4 : (0 : Q) < 4 * N0 := by grind
  rw [finalEvs_eq c hx, List.filter_map]
  congr 1
  have h1 : (sortBy byQ (rawEvs g N0)).filter ((fun e => e.t == Num.fin (T / (4 * N0))) ∘ scaleEv N0)
      = (sortBy byQ (rawEvs g N0)).filter (fun e => e.t == .fin T) := by
    apply List.filter_congr
    intro e he
    obtain ⟨q, hq, _⟩ := (evGood_rawEvs c hx ((mem_sortBy _).1 he)).time
    simp only [Function.comp, t_scale hq, hq, beq_iff_eq, Num.fin.injEq]
    rw [Bool.eq_iff_iff]
    simp only [beq_iff_eq, Num.fin.injEq]
    exact InGen.div_eq_div h4
  rw [h1, sortBy_filter totalPre_byQ]
  apply sortBy_of_sorted
  unfold Sorted
  rw [List.pairwise_iff_forall_sublist]
  intro a b hab
  have ha := (List.mem_filter.1 (hab.subset (List.mem_cons_self))).2
  have hb := (List.mem_filter.1 (hab.subset (List.mem_cons_of_mem _ List.mem_cons_self))).2
  simp only [beq_iff_eq] at ha hb
  simp [byQ, evT, ha, hb]

/-! ### the times of the options -/

theorem mem_ancEvs {g : Graph} {ev : Event Growth} :
    ∀ (xs : List DemeOrPulse) (n : Nat), ev ∈ ancEvs g n xs →
      (∃ d n', DemeOrPulse.deme d ∈ xs ∧ ev ∈ ancDemeEvs g d n' d.ancestors.zipIdx)
      ∨ (∃ p n', DemeOrPulse.pulse p ∈ xs ∧ ev ∈ pulseEvs g p n')
  | [], _, h => by simp [ancEvs] at h
  | .deme d :: r, n, h => by
    simp only [ancEvs, List.mem_append] at h
    rcases h with h | h
    · exact Or.inl ⟨d, n, List.mem_cons_self, h⟩
    · rcases mem_ancEvs r _ h with ⟨d', n', hd', h'⟩ | ⟨p, n', hp, h'⟩
      · exact Or.inl ⟨d', n', List.mem_cons_of_mem _ hd', h'⟩
      · exact Or.inr ⟨p, n', List.mem_cons_of_mem _ hp, h'⟩
  | .pulse p :: r, n, h => by
    simp only [ancEvs, List.mem_append] at h
    rcases h with h | h
    · exact Or.inr ⟨p, n, List.mem_cons_self, h⟩
    · rcases mem_ancEvs r _ h with ⟨d', n', hd', h'⟩ | ⟨p', n', hp, h'⟩
      · exact Or.inl ⟨d', n', List.mem_cons_of_mem _ hd', h'⟩
      · exact Or.inr ⟨p', n', List.mem_cons_of_mem _ hp, h'⟩

theorem mem_dps_deme {g : Graph} {d : Deme} (h : DemeOrPulse.deme d ∈ dps g) : d ∈ g.demes := by
  rw [dps, mem_sortBy] at h
  rcases List.mem_append.1 h with h | h
  · obtain ⟨p, _, hp⟩ := List.mem_map.1 h; cases hp
  · obtain ⟨d', hd', hd⟩ := List.mem_map.1 h; cases hd; exact hd'

theorem mem_dps_pulse {g : Graph} {p : Pulse} (h : DemeOrPulse.pulse p ∈ dps g) : p ∈ g.pulses := by
  rw [dps, mem_sortBy] at h
  rcases List.mem_append.1 h with h | h
  · obtain ⟨p', hp', hp⟩ := List.mem_map.1 h; cases hp; exact List.mem_reverse.1 hp'
  · obtain ⟨d', _, hd⟩ := List.mem_map.1 h; cases hd

theorem mem_zipIdx_fst {α} {l : List α} {x : α × Nat} (h : x ∈ l.zipIdx) : x.1 ∈ l := by
  have := List.mem_zipIdx h
  simp only [Nat.zero_add] at this
  obtain ⟨_, _, h3⟩ := this
  rw [h3]; exact List.getElem_mem _

theorem rawEvs_time {g : Graph} (c : Clauses g) (hx : MsExpressible g = true) {N0 : Q} {ev : Event Growth}
    (h : ev ∈ rawEvs g N0) : ∃ T ∈ graphTimes g, ev.t = .fin T := by
  simp only [rawEvs, List.mem_append] at h
  simp only [graphTimes, List.mem_append, List.mem_flatMap, List.mem_map]
  rcases h with (h | h) | h
  · obtain ⟨dj, hdj, e, he, h'⟩ := mem_sizeEvsAll h
    refine ⟨e.endTime, Or.inl (Or.inl ⟨dj.1, mem_zipIdx_fst hdj, Or.inr ⟨e, he, rfl⟩⟩), ?_⟩
    rcases h' with rfl | rfl <;> rfl
  · rcases mem_ancEvs _ _ h with ⟨d, n', hd, h'⟩ | ⟨p, n', hp, h'⟩
    · have hdm := mem_dps_deme hd
      have hgood := evGood_ancDemeEvs (demeAncOk_of_valid c hdm) h'
      have hne : d.ancestors ≠ [] := by
        intro h0; rw [h0] at h'; simp [ancDemeEvs] at h'
      obtain ⟨t, hst, _⟩ := (demeAncOk_of_valid c hdm).start hne
      refine ⟨t, Or.inl (Or.inl ⟨d, hdm, Or.inl (by rw [hst]; simp)⟩), ?_⟩
      rcases mem_ancDemeEvs _ _ h' with ⟨k, rfl⟩ | ⟨i, j, rfl, _, _⟩ <;> simp [Event.t, hst, Num.ofETime]
    · refine ⟨p.time, Or.inl (Or.inr ⟨p, mem_dps_pulse hp, rfl⟩), ?_⟩
      simp only [pulseEvs, List.mem_cons, List.not_mem_nil, or_false] at h'
      rcases h' with rfl | rfl <;> rfl
  · simp only [migEvs, List.mem_append, migOffs, migOns, List.mem_map, List.mem_filter] at h
    rcases h with ⟨m, ⟨hm, hc⟩, rfl⟩ | ⟨m, hm, rfl⟩
    · cases hst : m.startTime with
      | inf => simp [offCond, hst, ETime.isInf] at hc
      | fin t =>
        exact ⟨t, Or.inr ⟨m, hm, Or.inl (by rw [hst]; simp)⟩, by simp [migOff, Event.t, hst, Num.ofETime]⟩
    · exact ⟨m.endTime, Or.inr ⟨m, hm, Or.inr (by simp)⟩, rfl⟩

theorem finalEvs_time {g : Graph} (c : Clauses g) (hx : MsExpressible g = true) {N0 : Q} {ev : Event Growth}
    (h : ev ∈ finalEvs g N0) : ∃ T ∈ graphTimes g, ev.t = .fin (T / (4 * N0)) := by
  obtain ⟨e, he, rfl⟩ := List.mem_map.1 h
  obtain ⟨T, hT, ht⟩ := rawEvs_time c hx ((mem_sortBy _).1 he)
  exact ⟨T, hT, t_scale ht⟩

/-! ### the structure theorem -/

theorem sizeKind_sizeEvsAll {N0 : Q} {ds : List (Deme × Nat)} {ev : Event Growth} (h : ev ∈ sizeEvsAll N0 ds) :
    isSizeKind ev = true := by
  obtain ⟨_, _, _, _, h'⟩ := mem_sizeEvsAll h
  rcases h' with rfl | rfl <;> rfl

theorem splitJoin_ancEvs {g : Graph} {n : Nat} {xs : List DemeOrPulse} {ev : Event Growth} (h : ev ∈ ancEvs g n xs) :
    isSplitJoin ev = true := by
  rcases mem_ancEvs _ _ h with ⟨d, n', _, h'⟩ | ⟨p, n', _, h'⟩
  · rcases mem_ancDemeEvs _ _ h' with ⟨k, rfl⟩ | ⟨i, j, rfl, _, _⟩ <;> rfl
  · simp only [pulseEvs, List.mem_cons, List.not_mem_nil, or_false] at h'
    rcases h' with rfl | rfl <;> rfl

theorem migKind_migEvs {N0 : Q} {g : Graph} {ev : Event Growth} (h : ev ∈ migEvs N0 g) : isMigKind ev = true := by
  simp only [migEvs, List.mem_append, migOffs, migOns, List.mem_map, List.mem_filter] at h
  rcases h with ⟨m, _, rfl⟩ | ⟨m, _, rfl⟩ <;> rfl

theorem scaleEv_eq_setT {N0 : Q} {e : Event Growth} {T : Q} (h : e.t = .fin T) :
    scaleEv N0 e = e.setT (.fin (T / (4 * N0))) := by
  simp [scaleEv, h, numDivQ]

/-- Structure of the emitted command (statement of `Theorems.toMs_structure`). -/
theorem toMs_structure {graph : Graph} (hv : validGraph graph = true) (hx : MsExpressible graph = true)
    {N0 : Q} (hN : 0 < N0) {samples : Option (List Int)} (hs : samplesOk graph samples = true) :
    ∃ c evs, toMs graph N0 samples = .ok c ∧
      parseCmd c = some ⟨if (inGenerations graph).demes.length > 1 then
          some ((inGenerations graph).demes.length,
            (samples.getD (List.replicate (inGenerations graph).demes.length 0)).map toString)
          else none, evs⟩ ∧
      evs.Pairwise (fun a b => evT a ≤ evT b) ∧
      (∀ e ∈ evs, ∃ T ∈ graphTimes (inGenerations graph), e.t = .fin (T / (4 * N0))) ∧
      ∃ sz anc mig : List (Event Growth),
        (∀ e ∈ sz, isSizeKind e = true) ∧ (∀ e ∈ anc, isSplitJoin e = true) ∧ (∀ e ∈ mig, isMigKind e = true) ∧
        evs.length = sz.length + anc.length + mig.length ∧
        ∀ T : Q, evs.filter (fun e => e.t == .fin (T / (4 * N0)))
          = ((sz ++ anc ++ mig).filter (fun e => e.t == .fin T)).map (fun e => e.setT (.fin (T / (4 * N0)))) := by
  have c := clauses_of_valid (InGen.inGenerations_valid graph hv)
  have hx' : MsExpressible (inGenerations graph) = true := by rw [expr_inGen]; exact hx
  have hs' : samplesOk (inGenerations graph) samples = true := by rw [samplesOk_inGen]; exact hs
  refine ⟨_, finalEvs (inGenerations graph) N0, toMs_ok_eq hv hx hN hs, parseCmd_cmdOf c hx' hN hs',
    sorted_finalEvs c hx' hN, fun e he => finalEvs_time c hx' he,
    sizeEvsAll N0 (inGenerations graph).demes.zipIdx,
    ancEvs (inGenerations graph) (inGenerations graph).demes.length (dps (inGenerations graph)),
    migEvs N0 (inGenerations graph),
    fun e he => sizeKind_sizeEvsAll he, fun e he => splitJoin_ancEvs he, fun e he => migKind_migEvs he, ?_, ?_⟩
  · simp only [finalEvs, List.length_map, length_sortBy, rawEvs, List.length_append]
  · intro T
    rw [finalEvs_filter_time c hx' hN T]
    apply List.map_congr_left
    intro e he
    have := (List.mem_filter.1 he).2
    simp only [beq_iff_eq] at this
    exact scaleEv_eq_setT this

end Demes.Proofs.ToMs
