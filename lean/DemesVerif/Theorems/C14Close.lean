/-
  C14 (closeness of the event records) — `Split / Branch / Merge / Admix.assert_close` and `.isclose`
  of demes/demes.py, the comparison users of `discrete_demographic_events()` apply to its records.

  Model: `Model/RecordsClose.lean` (`SplitEv.isclose`, `BranchEv.isclose`, `MergeEv.mergeIsclose`,
  `MergeEv.admixIsclose`, and `Record.assertClose` / `Record.isclose` on records carrying their class).
  Spec: `Spec/RecordsClose.lean` (`SplitClose`, `BranchClose`, `MergeClose`, `RecordClose`): same class,
  same parent(s) / child(ren) up to order, times within the tolerance, (parent, proportion) pairs
  matched by parent.  `t : Tol` carries `rel_tol` / `abs_tol`; no theorem needs them non-negative.

  What is true of the code as it stands (none of it contradicts a property text):
  * `Split.assert_close` returns `True`, the other three return `None` (`record_assert_value`);
  * a `Merge` and an `Admix` with equal fields are not close (`record_isclose_detects_class`);
  * on records no constructor returns (more parents than proportions, a repeated parent — reachable only by
    assigning to attributes) closeness does not imply equal parents and depends on the order of the pairs
    (`merge_isclose_same_parents_counterexample`, `merge_isclose_perm_pairs_counterexample`); for constructed
    records both hold (`merge_isclose_same_parents`, `merge_isclose_perm_pairs`).
-/
import DemesVerif.Proofs.RecordsClose
namespace Demes.Theorems
open Demes Demes.Spec

/-! ### the asserting and the boolean form -/

/-- `assert_close` completes exactly when `isclose` answers `True` … -/
theorem record_assert_iff_isclose (t : Tol) (a b : Record) :
    (∃ v, Record.assertClose t a b = .ok v) ↔ Record.isclose t a b = true :=
  Proofs.RecClose.record_assert_iff_isclose t a b

/-- … and raises `AssertionError` exactly when `isclose` answers `False`. -/
theorem record_assert_raises_iff (t : Tol) (a b : Record) :
    (∃ f, Record.assertClose t a b = .error f) ↔ Record.isclose t a b = false :=
  Proofs.RecClose.record_assert_raises_iff t a b

/-- What a completing `assert_close` returns: `True` for a split, `None` for the other classes. -/
theorem record_assert_value (t : Tol) (a b : Record) (v : AssertRet)
    (h : Record.assertClose t a b = .ok v) :
    v = (match a with | .split _ => AssertRet.pyTrue | _ => AssertRet.pyNone) :=
  Proofs.RecClose.record_assert_value t a b v h

/-- On two records `isclose` is the class test followed by the class's own comparison. -/
theorem record_isclose_eq (t : Tol) (a b : Record) :
    Record.isclose t a b = (match a, b with
      | .split x, .split y => SplitEv.isclose t x y
      | .branch x, .branch y => BranchEv.isclose t x y
      | .merge x, .merge y => MergeEv.mergeIsclose t x y
      | .admix x, .admix y => MergeEv.admixIsclose t x y
      | _, _ => false) :=
  Proofs.RecClose.record_isclose_eq t a b

/-- `Admix` compares exactly as `Merge` does. -/
theorem admix_isclose_eq_merge (t : Tol) (a b : MergeEv) :
    MergeEv.admixIsclose t a b = MergeEv.mergeIsclose t a b :=
  Proofs.RecClose.admix_isclose_eq_merge t a b

/-! ### reflexive, symmetric (every record, every tolerance — no validity needed) -/

theorem record_isclose_refl (t : Tol) (a : Record) : Record.isclose t a a = true :=
  Proofs.RecClose.record_isclose_refl t a

theorem record_isclose_symm (t : Tol) (a b : Record) : Record.isclose t a b = Record.isclose t b a :=
  Proofs.RecClose.record_isclose_symm t a b

theorem split_isclose_refl (t : Tol) (a : SplitEv) : SplitEv.isclose t a a = true :=
  Proofs.RecClose.split_isclose_refl t a
theorem split_isclose_symm (t : Tol) (a b : SplitEv) : SplitEv.isclose t a b = SplitEv.isclose t b a :=
  Proofs.RecClose.split_isclose_symm t a b
theorem branch_isclose_refl (t : Tol) (a : BranchEv) : BranchEv.isclose t a a = true :=
  Proofs.RecClose.branch_isclose_refl t a
theorem branch_isclose_symm (t : Tol) (a b : BranchEv) : BranchEv.isclose t a b = BranchEv.isclose t b a :=
  Proofs.RecClose.branch_isclose_symm t a b
theorem merge_isclose_refl (t : Tol) (a : MergeEv) : MergeEv.mergeIsclose t a a = true :=
  Proofs.RecClose.merge_isclose_refl t a
theorem merge_isclose_symm (t : Tol) (a b : MergeEv) :
    MergeEv.mergeIsclose t a b = MergeEv.mergeIsclose t b a :=
  Proofs.RecClose.merge_isclose_symm t a b

/-! ### soundness (for splits and branches also completeness) -/

/-- Records reported close are of the same class and describe the same event up to the tolerance. -/
theorem record_isclose_sound (t : Tol) (a b : Record) (h : Record.isclose t a b = true) :
    RecordClose t a b :=
  Proofs.RecClose.record_isclose_sound t a b h

/-- Two splits are close exactly when they have the same parent, the same children up to order (the
children are compared as sorted lists) and times within the tolerance. -/
theorem split_isclose_iff (t : Tol) (a b : SplitEv) : SplitEv.isclose t a b = true ↔ SplitClose t a b :=
  Proofs.RecClose.split_isclose_iff t a b

theorem branch_isclose_iff (t : Tol) (a b : BranchEv) : BranchEv.isclose t a b = true ↔ BranchClose t a b :=
  Proofs.RecClose.branch_isclose_iff t a b

theorem merge_isclose_sound (t : Tol) (a b : MergeEv) (h : MergeEv.mergeIsclose t a b = true) :
    MergeClose t a b :=
  Proofs.RecClose.merge_isclose_sound t a b h

/-- Proportions are matched per parent: every (parent, proportion) pair of `a` has a partner in `b`
with the same parent and a proportion within the tolerance. -/
theorem merge_isclose_matched (t : Tol) (a b : MergeEv) (h : MergeEv.mergeIsclose t a b = true)
    (x : String × Q) (hx : x ∈ a.parents.zip a.proportions) :
    ∃ y ∈ b.parents.zip b.proportions, x.1 = y.1 ∧ WithinTol t x.2 y.2 :=
  Proofs.RecClose.merge_isclose_matched t a b h x hx

/-- Close mergers have the same parents up to order, when each has as many proportions as parents … -/
theorem merge_isclose_same_parents (t : Tol) (a b : MergeEv) (h : MergeEv.mergeIsclose t a b = true)
    (ha : a.parents.length = a.proportions.length) (hb : b.parents.length = b.proportions.length) :
    a.parents.Perm b.parents :=
  Proofs.RecClose.merge_isclose_same_parents t a b h ha hb

/-- … as every record a constructor returns has (and distinct parents). -/
theorem mergeOk_facts (m : MergeEv) (h : m.mergeOk = true) :
    m.parents.Nodup ∧ m.parents.length = m.proportions.length :=
  Proofs.RecClose.mergeOk_facts m h
theorem admixOk_facts (m : MergeEv) (h : m.admixOk = true) :
    m.parents.Nodup ∧ m.parents.length = m.proportions.length :=
  Proofs.RecClose.admixOk_facts m h

/-- Without that hypothesis it is false: with two parents and one proportion each, `zip` drops the second
parent, and records with different parents are reported close.  (No constructor returns such a record.) -/
theorem merge_isclose_same_parents_counterexample :
    MergeEv.mergeIsclose defaultTol Proofs.RecClose.exMalformedA Proofs.RecClose.exMalformedB = true
      ∧ ¬ Proofs.RecClose.exMalformedA.parents.Perm Proofs.RecClose.exMalformedB.parents
      ∧ Proofs.RecClose.exMalformedA.mergeOk = false ∧ Proofs.RecClose.exMalformedB.mergeOk = false :=
  Proofs.RecClose.merge_isclose_same_parents_counterexample

/-! ### order of children and of (parent, proportion) pairs -/

/-- Listing the children of a split in another order does not change the result. -/
theorem split_isclose_perm_children (t : Tol) (a b : SplitEv) (cs : List String)
    (h : cs.Perm a.children) :
    SplitEv.isclose t { a with children := cs } b = SplitEv.isclose t a b :=
  Proofs.RecClose.split_isclose_perm_children t a b cs h

/-- Rearranging the (parent, proportion) pairs of a merger does not change the result, when its parents
are pairwise distinct (every constructed record: `mergeOk_facts`). -/
theorem merge_isclose_perm_pairs (t : Tol) (a a' b : MergeEv) (h : SameUpToParentOrder a a')
    (hn : a.parents.Nodup) : MergeEv.mergeIsclose t a' b = MergeEv.mergeIsclose t a b :=
  Proofs.RecClose.merge_isclose_perm_pairs t a a' b h hn

/-- With a parent listed twice the order of the pairs matters. -/
theorem merge_isclose_perm_pairs_counterexample :
    SameUpToParentOrder (Proofs.RecClose.exTwice (1/4) (3/4)) (Proofs.RecClose.exTwice (3/4) (1/4))
      ∧ MergeEv.mergeIsclose defaultTol (Proofs.RecClose.exTwice (1/4) (3/4)) (Proofs.RecClose.exTwice (1/4) (3/4)) = true
      ∧ MergeEv.mergeIsclose defaultTol (Proofs.RecClose.exTwice (3/4) (1/4)) (Proofs.RecClose.exTwice (1/4) (3/4)) = false
      ∧ (Proofs.RecClose.exTwice (1/4) (3/4)).mergeOk = false :=
  Proofs.RecClose.merge_isclose_perm_pairs_counterexample

/-! ### differences that are reported (by symmetry each also holds with `a` and `b` exchanged) -/

/-- records of different classes (a `Merge` and an `Admix` with equal fields included) -/
theorem record_isclose_detects_class (t : Tol) (a b : Record) (h : a.className ≠ b.className) :
    Record.isclose t a b = false :=
  Proofs.RecClose.record_isclose_detects_class t a b h

theorem split_isclose_detects_parent (t : Tol) (a b : SplitEv) (h : a.parent ≠ b.parent) :
    SplitEv.isclose t a b = false :=
  Proofs.RecClose.split_detects_parent t a b h

/-- the children (with multiplicity) differ -/
theorem split_isclose_detects_children (t : Tol) (a b : SplitEv) (h : ¬ a.children.Perm b.children) :
    SplitEv.isclose t a b = false :=
  Proofs.RecClose.split_detects_children t a b h

/-- some name is a child in one split only -/
theorem split_isclose_detects_child_set (t : Tol) (a b : SplitEv) (c : String)
    (h : (c ∈ a.children ∧ c ∉ b.children) ∨ (c ∈ b.children ∧ c ∉ a.children)) :
    SplitEv.isclose t a b = false :=
  Proofs.RecClose.split_detects_child_set t a b c h

/-- the times differ by more than the tolerance -/
theorem split_isclose_detects_time (t : Tol) (a b : SplitEv) (h : ¬ WithinTol t a.time b.time) :
    SplitEv.isclose t a b = false :=
  Proofs.RecClose.split_detects_time t a b h

theorem branch_isclose_detects_parent (t : Tol) (a b : BranchEv) (h : a.parent ≠ b.parent) :
    BranchEv.isclose t a b = false :=
  Proofs.RecClose.branch_detects_parent t a b h

theorem branch_isclose_detects_child (t : Tol) (a b : BranchEv) (h : a.child ≠ b.child) :
    BranchEv.isclose t a b = false :=
  Proofs.RecClose.branch_detects_child t a b h

theorem branch_isclose_detects_time (t : Tol) (a b : BranchEv) (h : ¬ WithinTolE t a.time b.time) :
    BranchEv.isclose t a b = false :=
  Proofs.RecClose.branch_detects_time t a b h

theorem merge_isclose_detects_child (t : Tol) (a b : MergeEv) (h : a.child ≠ b.child) :
    MergeEv.mergeIsclose t a b = false :=
  Proofs.RecClose.merge_detects_child t a b h

theorem merge_isclose_detects_time (t : Tol) (a b : MergeEv) (h : ¬ WithinTolE t a.time b.time) :
    MergeEv.mergeIsclose t a b = false :=
  Proofs.RecClose.merge_detects_time t a b h

theorem merge_isclose_detects_parent_count (t : Tol) (a b : MergeEv)
    (h : a.parents.length ≠ b.parents.length) : MergeEv.mergeIsclose t a b = false :=
  Proofs.RecClose.merge_detects_parent_count t a b h

theorem merge_isclose_detects_proportion_count (t : Tol) (a b : MergeEv)
    (h : a.proportions.length ≠ b.proportions.length) : MergeEv.mergeIsclose t a b = false :=
  Proofs.RecClose.merge_detects_proportion_count t a b h

/-- a (parent, proportion) pair of `a` has no partner in `b` (another proportion for that parent, or the
parent is missing) -/
theorem merge_isclose_detects_proportion (t : Tol) (a b : MergeEv) (x : String × Q)
    (hx : x ∈ a.parents.zip a.proportions)
    (h : ∀ y ∈ b.parents.zip b.proportions, ¬ (x.1 = y.1 ∧ WithinTol t x.2 y.2)) :
    MergeEv.mergeIsclose t a b = false :=
  Proofs.RecClose.merge_detects_proportion t a b x hx h

/-- the parents (with multiplicity) differ, both records having as many proportions as parents -/
theorem merge_isclose_detects_parents (t : Tol) (a b : MergeEv)
    (ha : a.parents.length = a.proportions.length) (hb : b.parents.length = b.proportions.length)
    (h : ¬ a.parents.Perm b.parents) : MergeEv.mergeIsclose t a b = false :=
  Proofs.RecClose.merge_detects_parents t a b ha hb h

/-! ### non-vacuity and tests on concrete records

`exSplit` = Split(parent="A", children=["B","C"], time=100), `exBranch` = Branch("B" → "D" at 80),
`exMerge` = Merge / Admix(parents=["C","D"], proportions=[1/4, 3/4], child="E", time=50): the records of
`Proofs.eventsGraph` (Theorems/C14.lean) up to the proportions.  Closed instances are evaluated through
`record_eq_eval` (insertion sort in place of `List.mergeSort`, proved equal). -/

section
open Proofs.RecClose

-- the records are ones the constructors return
example : exSplit.recordOk = true ∧ exBranch.recordOk = true ∧ exMerge.mergeOk = true ∧ exMerge.admixOk = true := by
  decide +kernel

-- a close pair that is not equal: children in another order, time moved by half the (relative) tolerance
example : Record.isclose defaultTol (.split exSplit)
      (.split { exSplit with children := ["C", "B"], time := 100 + 1/20000000 }) = true
    ∧ exSplit ≠ { exSplit with children := ["C", "B"], time := 100 + 1/20000000 } := by
  refine ⟨by rw [record_eq_eval]; decide +kernel, by decide +kernel⟩
-- time moved by twice the tolerance; exact comparison; a wide tolerance
example : Record.isclose defaultTol (.split exSplit) (.split { exSplit with time := 100 + 2/10000000 }) = false
    ∧ Record.isclose ⟨0, 0⟩ (.split exSplit) (.split { exSplit with time := 100 + 1/20000000 }) = false
    ∧ Record.isclose ⟨1/100, 0⟩ (.split exSplit) (.split { exSplit with time := 100.5 }) = true
    ∧ Record.isclose ⟨0, 1⟩ (.split exSplit) (.split { exSplit with time := 100.5 }) = true := by
  simp only [record_eq_eval]; decide +kernel
-- hypothesis of `split_isclose_detects_time` for the first pair
example : ¬ WithinTol defaultTol exSplit.time (100 + 2/10000000) := by decide +kernel
-- another parent, a missing child, a repeated child
example : Record.isclose defaultTol (.split exSplit) (.split { exSplit with parent := "Z" }) = false
    ∧ Record.isclose defaultTol (.split exSplit) (.split { exSplit with children := ["B"] }) = false
    ∧ Record.isclose defaultTol (.split exSplit) (.split { exSplit with children := ["B", "C", "C"] }) = false := by
  simp only [record_eq_eval]; decide +kernel
example : ("C" ∈ exSplit.children ∧ "C" ∉ ["B"]) := by decide +kernel
example : ¬ exSplit.children.Perm ["B", "C", "C"] := by decide +kernel

-- branches
example : Record.isclose defaultTol (.branch exBranch) (.branch { exBranch with time := .fin (80 + 1/100000000) }) = true
    ∧ Record.isclose defaultTol (.branch exBranch) (.branch { exBranch with time := .fin 81 }) = false
    ∧ Record.isclose defaultTol (.branch exBranch) (.branch { exBranch with child := "E" }) = false
    ∧ Record.isclose defaultTol (.branch exBranch) (.branch { exBranch with parent := "A" }) = false := by
  decide +kernel
example : ¬ WithinTolE defaultTol exBranch.time (.fin 81) := by decide +kernel

-- mergers: the pairs rearranged together (close), only the parents rearranged (not close)
example : Record.isclose defaultTol (.merge exMerge)
      (.merge { exMerge with parents := ["D", "C"], proportions := [3/4, 1/4] }) = true
    ∧ Record.isclose defaultTol (.merge exMerge) (.merge { exMerge with parents := ["D", "C"] }) = false
    ∧ Record.isclose defaultTol (.merge exMerge) (.merge { exMerge with proportions := [3/4, 1/4] }) = false := by
  simp only [record_eq_eval]; decide +kernel
-- hypotheses of `merge_isclose_perm_pairs` for the first pair
example : SameUpToParentOrder exMerge { exMerge with parents := ["D", "C"], proportions := [3/4, 1/4] }
    ∧ exMerge.parents.Nodup :=
  ⟨⟨rfl, rfl, rfl, rfl, List.Perm.swap _ _ _⟩, by decide +kernel⟩
-- a proportion moved by 2× / ½× the tolerance, another child, another time, a third parent, another class
example : Record.isclose defaultTol (.merge exMerge)
      (.merge { exMerge with proportions := [1/4 + 1/2000000000, 3/4 - 1/2000000000] }) = false
    ∧ Record.isclose defaultTol (.merge exMerge)
      (.merge { exMerge with proportions := [1/4 + 1/8000000000, 3/4 - 1/8000000000] }) = true
    ∧ Record.isclose ⟨0, 0⟩ (.merge exMerge)
      (.merge { exMerge with proportions := [1/4 + 1/8000000000, 3/4 - 1/8000000000] }) = false
    ∧ Record.isclose defaultTol (.merge exMerge) (.merge { exMerge with child := "F" }) = false
    ∧ Record.isclose defaultTol (.merge exMerge) (.merge { exMerge with time := .fin 51 }) = false
    ∧ Record.isclose defaultTol (.merge exMerge)
      (.merge { exMerge with parents := ["C", "D", "X"], proportions := [1/4, 1/2, 1/4] }) = false
    ∧ Record.isclose defaultTol (.merge exMerge) (.admix exMerge) = false
    ∧ Record.isclose defaultTol (.admix exMerge) (.admix exMerge) = true := by
  simp only [record_eq_eval]; decide +kernel
-- hypothesis of `merge_isclose_detects_proportion` for the first pair
example : ("C", (1/4 : Q)) ∈ exMerge.parents.zip exMerge.proportions
    ∧ ∀ y ∈ ["C", "D"].zip [(1/4 + 1/2000000000 : Q), 3/4 - 1/2000000000],
        ¬ (("C", (1/4 : Q)).1 = y.1 ∧ WithinTol defaultTol ("C", (1/4 : Q)).2 y.2) := by decide +kernel
-- hypothesis of `record_isclose_detects_class`
example : (Record.merge exMerge).className ≠ (Record.admix exMerge).className := by decide +kernel

-- the asserting form: `True` for a split, `None` for a merger, the failing assert otherwise
example : Record.assertClose defaultTol (.branch exBranch) (.branch exBranch) = .ok .pyNone
    ∧ Record.assertClose defaultTol (.branch exBranch) (.branch { exBranch with child := "E" }) = .error .child
    ∧ Record.assertClose defaultTol (.branch exBranch) (.split exSplit) = .error .cls := by decide +kernel

-- closeness is not transitive
example : Record.isclose ⟨1/100, 0⟩ (.branch exBranch) (.branch { exBranch with time := .fin 80.6 }) = true
    ∧ Record.isclose ⟨1/100, 0⟩ (.branch { exBranch with time := .fin 80.6 }) (.branch { exBranch with time := .fin 81.2 }) = true
    ∧ Record.isclose ⟨1/100, 0⟩ (.branch exBranch) (.branch { exBranch with time := .fin 81.2 }) = false := by
  decide +kernel
end

end Demes.Theorems
