/-
  C09, acceptance — a Model-only invariant of the `from_ms` event loop: the demes that exist before
  the first event keep `epochs[-1].end_time = 0` for ever (`buildState_end0`).

  Size / growth options insert epochs at the head of `epochs`, `-ej` keeps `epochs`, `-es` appends a
  new deme at the end of `demes`, `applyParams` keeps `epochs`.
-/
import DemesVerif.Proofs.MsAccDefs
namespace Demes.Proofs.MsAcc
open Demes Demes.Ms Demes.Spec Demes.Spec.MsSem Demes.Spec.C08 Demes.Proofs.FromMs

/-- the first `n` demes exist and their oldest epoch ends at time 0 -/
def End0 (n : Nat) (s : BState) : Prop :=
  n ≤ s.demes.length ∧ ∀ (j : Nat) (d : BDeme), j < n → s.demes[j]? = some d → bEndTime d = 0

/-- `s'` keeps every deme of `s` at its index, with the same end time of the oldest epoch -/
def KeepEnd (s' s : BState) : Prop :=
  s.demes.length ≤ s'.demes.length ∧
  ∀ (j : Nat) (d : BDeme), s.demes[j]? = some d → ∃ d', s'.demes[j]? = some d' ∧ bEndTime d' = bEndTime d

theorem End0.keep {n : Nat} {s s' : BState} (h : End0 n s) (k : KeepEnd s' s) : End0 n s' := by
  refine ⟨Nat.le_trans h.1 k.1, ?_⟩
  intro j d' hj hd'
  have hlt : j < s.demes.length := Nat.lt_of_lt_of_le hj h.1
  obtain ⟨d'', hd'', he⟩ := k.2 j s.demes[j] (List.getElem?_eq_getElem hlt)
  rw [hd'] at hd''
  cases hd''
  rw [he]
  exact h.2 j _ hj (List.getElem?_eq_getElem hlt)

theorem keepEnd_of_demes_eq {s' s : BState} (h : s'.demes = s.demes) : KeepEnd s' s :=
  ⟨Nat.le_of_eq (congrArg List.length h).symm, fun j d hd => ⟨d, by rw [h]; exact hd, rfl⟩⟩

theorem KeepEnd.trans {a b c : BState} (h1 : KeepEnd a b) (h2 : KeepEnd b c) : KeepEnd a c := by
  refine ⟨Nat.le_trans h2.1 h1.1, ?_⟩
  intro j d hd
  obtain ⟨d1, hd1, e1⟩ := h2.2 j d hd
  obtain ⟨d2, hd2, e2⟩ := h1.2 j d1 hd1
  exact ⟨d2, hd2, e2.trans e1⟩

/-- `-ej`: the joined deme keeps its epochs -/
theorem modifyDeme_join_keep {s s' : BState} {pid popJ : Nat} {time : Q}
    (h : modifyDeme s pid (joinDeme time popJ) = .ok s') : KeepEnd s' s := by
  obtain ⟨d0, d0', hd0, hfd, rfl⟩ := modifyDeme_ok h
  have hd0' := joinDeme_ok hfd
  refine ⟨by simp, ?_⟩
  intro j d hd
  show ∃ d', (s.demes.set pid d0')[j]? = some d' ∧ bEndTime d' = bEndTime d
  by_cases hj : pid = j
  · subst hj
    have hl : pid < s.demes.length := (List.getElem?_eq_some_iff.mp hd0).1
    rw [hd0] at hd
    cases hd
    refine ⟨d0', by simp [hl], ?_⟩
    rw [hd0']
    rfl
  · exact ⟨d, by rw [List.getElem?_set_ne hj]; exact hd, rfl⟩

theorem stepEvent_keepEnd {N0 time : Q} {s s' : BState} {g g' : GState} {ev : Event Num}
    (h : stepEvent N0 time (s, g) ev = .ok (s', g')) : KeepEnd s' s := by
  by_cases h1 : isSplit ev = false
  · by_cases h2 : isJoinEv ev = false
    · obtain ⟨_, _, hl, hf⟩ := stepEvent_nonmove_frame h1 h2 h
      refine ⟨Nat.le_of_eq hl.symm, ?_⟩
      intro j d hd
      obtain ⟨d', hd', hfr⟩ := hf j d hd
      exact ⟨d', hd', hfr.2⟩
    · cases ev with
      | join o t i j =>
        rw [stepEvent_join] at h
        obtain ⟨pi, _, h⟩ := RV.bind_ok.1 h
        obtain ⟨pj, _, h⟩ := RV.bind_ok.1 h
        obtain ⟨s1, hs1, h⟩ := RV.bind_ok.1 h
        cases h
        have k1 : KeepEnd s1 s := modifyDeme_join_keep hs1
        refine KeepEnd.trans (keepEnd_of_demes_eq ?_) k1
        exact (joinMatrix_frame s1 time pi).1
      | _ => exact absurd rfl h2
  · cases ev with
    | split o t i p =>
      rw [stepEvent_split] at h
      obtain ⟨pid, _, h⟩ := RV.bind_ok.1 h
      obtain ⟨q, _, h⟩ := RV.bind_ok.1 h
      split at h
      · exact (assertionErr_bind_ok.1 h).elim
      · cases h
        refine ⟨?_, ?_⟩
        · show s.demes.length ≤ (s.demes ++ [_]).length
          rw [List.length_append]
          exact Nat.le_add_right _ _
        · intro j d hd
          have hl : j < s.demes.length := (List.getElem?_eq_some_iff.mp hd).1
          refine ⟨d, ?_, rfl⟩
          show (s.demes ++ [_])[j]? = some d
          rw [List.getElem?_append_left hl]
          exact hd
    | _ => exact absurd rfl h1

theorem applyParams_keepEnd (time : Q) (s : BState) (g : GState) : KeepEnd (applyParams time s g) s := by
  obtain ⟨e1, _, _⟩ := applyParams_epochs time s g
  have hl : (applyParams time s g).demes.length = s.demes.length := by
    have := congrArg List.length e1
    simpa only [List.length_map] using this
  refine ⟨Nat.le_of_eq hl.symm, ?_⟩
  intro j d hd
  have hj : j < s.demes.length := (List.getElem?_eq_some_iff.mp hd).1
  have hj' : j < (applyParams time s g).demes.length := by rw [hl]; exact hj
  refine ⟨(applyParams time s g).demes[j], List.getElem?_eq_getElem hj', ?_⟩
  have := congrArg (fun l => l[j]?) e1
  simp only [List.getElem?_map, List.getElem?_eq_getElem hj', hd, Option.map_some, Option.some.injEq,
    Prod.mk.injEq] at this
  unfold bEndTime
  rw [this.1]

theorem stepGroup_end0 {n : Nat} {N0 : Q} {s s' : BState} {group : List (Event Num)}
    (hinv : End0 n s) (h : Ms.stepGroup N0 s group = .ok s') : End0 n s' := by
  unfold Ms.stepGroup at h
  obtain ⟨t, _, h⟩ := RV.bind_ok.1 h
  dsimp only at h
  obtain ⟨sg, hsg, h⟩ := RV.bind_ok.1 h
  obtain ⟨s1, g1⟩ := sg
  cases h
  have h1 : End0 n s1 :=
    RV.foldlM_inv (fun (sg : BState × GState) => End0 n sg.1) _
      (fun a ev b ha hst => by
        obtain ⟨a1, a2⟩ := a
        obtain ⟨b1, b2⟩ := b
        exact End0.keep ha (stepEvent_keepEnd hst)) _ _ _ hinv hsg
  exact End0.keep h1 (applyParams_keepEnd _ s1 g1)

theorem initState_end0 (args : Args) (N0 : Q) : End0 (initPop args).1 (initState args N0) := by
  refine ⟨?_, ?_⟩
  · unfold initState
    simp
  · intro j d _ hd
    unfold initState at hd
    simp only [List.getElem?_map] at hd
    cases hr : (List.range (initPop args).1)[j]? with
    | none => rw [hr] at hd; cases hd
    | some k =>
      rw [hr] at hd
      cases hd
      rfl

/-- the demes that exist before the first event keep `epochs[-1].end_time = 0` for ever -/
theorem buildState_end0 {args : Args} {N0 : Q} {s : BState} (h : buildState args N0 = .ok s) :
    (initPop args).1 ≤ s.demes.length ∧
    ∀ (j : Nat) (d : BDeme), j < (initPop args).1 → s.demes[j]? = some d → bEndTime d = 0 := by
  unfold buildState at h
  split at h
  · exact (RV.valueErr_bind_ok.1 h).elim
  · obtain ⟨_, _, h⟩ := RV.bind_ok.1 h
    exact RV.foldlM_inv (End0 (initPop args).1) _ (fun a gr b ha hst => stepGroup_end0 ha hst) _ _ _
      (initState_end0 args N0) h

#print axioms buildState_end0

end Demes.Proofs.MsAcc
