/-
  C09 §10 — `Proofs/MsRT3Tame.lean` for graphs with exponential epochs: the command `to_ms` prints for a valid
  ms-expressible graph whose pulse proportions are below one (`PulsesBelowOne`, no condition on the order of
  same-time pulses, no `ConstSizes`) lies in the third fragment `C08.Tame3` (`tame3_finalEvsV`, `tame3_toMsV`).
  (`Proofs/MsGrowTame.lean` with `GoodGroup3` in place of `GoodGroup`; the facts on the moves of one time —
  `MsRT.sourcesOld_dpMoves`, `MsRT.jnt_dpMoves`, `MsRT.splitPos_rawEvs3` — are those of `Proofs/MsRT3Tame.lean`.)
-/
import DemesVerif.Proofs.MsGrowTame
import DemesVerif.Proofs.MsRT3Tame
import DemesVerif.Proofs.MsTame2Examples
set_option linter.unusedSimpArgs false
set_option linter.unusedVariables false
namespace Demes.Proofs.MsGrow
open Demes Demes.Ms Demes.Spec Demes.Spec.C07 Demes.Spec.C09
open Demes.Spec.MsSem (Cmd Parsed isMove)
open Demes.Spec.C08 (groupOps groupOpsAux flushOp noSourceAfterTarget GoodGroup goodGroups Tame' isSplitC cmdGroups
  sourcesOld joinedNeverTarget GoodGroup3 goodGroups3 Tame3)
open Demes.Proofs.ToMs
open Demes.Proofs.MsRT (key_pos groupOpsAux_skip groupOpsAux_cons_congr demeMoves pulseMove dpMoves
  SplitPos splitPos_scale splitPos_rawEvs3 sourcesOld_dpMoves jnt_dpMoves pulsesBelowOne_inGen_of_valid chainGraph)

/-! ### every time group is a `GoodGroup3` -/

section
variable (gv : Growth → Q) {g : Graph} (c : Clauses g) (hx : MsExpressible g = true)
  (hpb : PulsesBelowOne g = true) {N0 : Q} (hN : 0 < N0)
include c hx hpb hN

theorem cmdTame_finalEvs3V {e : Event Growth} (he : e ∈ finalEvs g N0) :
    (match cmdOfV gv e with
      | .split _ _ p => decide (0 < p) && decide (p ≤ 1)
      | _ => true) = true ∧ (isMove (cmdOfV gv e) = true → 0 < (cmdOfV gv e).t) := by
  refine cmdTame gv (evG_finalEvs c hx hN e he) ?_
  obtain ⟨e', he', rfl⟩ := List.mem_map.1 he
  exact splitPos_scale N0 (splitPos_rawEvs3 c hx hpb ((mem_sortBy _).1 he'))

/-- one time group of the command, read after the options `pre` -/
theorem goodGroup3_groupV {pre grp post : List (Event Growth)} (hF : finalEvs g N0 = pre ++ grp ++ post)
    (hne : grp ≠ []) (hsame : ∀ a ∈ grp, ∀ b ∈ grp, evT a = evT b)
    (hpre : ∀ a ∈ pre, ∀ b ∈ grp, evT a < evT b) (hpost : ∀ a ∈ grp, ∀ b ∈ post, evT a < evT b) :
    GoodGroup3 (g.demes.length + ((pre.map (cmdOfV gv)).filter isSplitC).length) (grp.map (cmdOfV gv)) = true := by
  obtain ⟨h0, tl, rfl⟩ : ∃ h0 tl, grp = h0 :: tl := by
    cases grp with
    | nil => exact absurd rfl hne
    | cons h0 tl => exact ⟨h0, tl, rfl⟩
  have hT : ToMs.timeOf N0 (h0 :: tl) / (4 * N0) = evT h0 := by
    simp only [ToMs.timeOf, List.head?_cons, Option.map_some, Option.getD_some]
    exact mul_div_cancel_left4 hN _
  have b1 : ∀ a ∈ pre, evT a < ToMs.timeOf N0 (h0 :: tl) / (4 * N0) := fun a ha => by
    rw [hT]; exact hpre a ha h0 List.mem_cons_self
  have b2 : ∀ a ∈ h0 :: tl, evT a = ToMs.timeOf N0 (h0 :: tl) / (4 * N0) := fun a ha => by
    rw [hT]; exact hsame a ha h0 List.mem_cons_self
  have b3 : ∀ b ∈ post, ToMs.timeOf N0 (h0 :: tl) / (4 * N0) < evT b := fun b hb => by
    rw [hT]; exact hpost h0 List.mem_cons_self b hb
  obtain ⟨_, hgrp⟩ := group_parts c hx hN (T := ToMs.timeOf N0 (h0 :: tl)) hF b1 b2 b3
  have hcount : g.demes.length + ((pre.map (cmdOfV gv)).filter isSplitC).length
      = ancCount g.demes.length (dpsLt g (ToMs.timeOf N0 (h0 :: tl))) := by
    have := count_pre c hx hN (T := ToMs.timeOf N0 (h0 :: tl)) hF b1 b2 b3
    rw [runP_len] at this
    have hlen : (s0Of N0 g.demes.length).pops.length = g.demes.length := by simp [s0Of]
    rw [hlen] at this
    rw [count_splitC, this]
  have hmem : ∀ e ∈ h0 :: tl, e ∈ finalEvs g N0 := fun e he => by
    rw [hF]; exact List.mem_append_left _ (List.mem_append_right _ he)
  have hops : groupOps (g.demes.length + ((pre.map (cmdOfV gv)).filter isSplitC).length) ((h0 :: tl).map (cmdOfV gv))
      = dpMoves g (dpsEq g (ToMs.timeOf N0 (h0 :: tl))) := by
    rw [hcount]
    unfold groupOps
    rw [groupOpsAux_filter, hgrp, groupOps_ancEvs]
  unfold GoodGroup3
  rw [hops]
  simp only [Bool.and_eq_true]
  refine ⟨⟨?_, ?_⟩, ?_⟩
  · exact sourcesOld_dpMoves c hx _ (Nat.le_add_right _ _)
  · exact jnt_dpMoves c hx hpb _
  · rw [List.all_eq_true]
    intro cm hcm
    obtain ⟨e, he, rfl⟩ := List.mem_map.1 hcm
    exact (cmdTame_finalEvs3V gv c hx hpb hN (hmem e he)).1

/-- the time groups `G`, read after the options `pre` -/
theorem goodGroups3_groupsV : ∀ (G : List (List (Event Growth))) (pre : List (Event Growth)),
    finalEvs g N0 = pre ++ G.flatten → GroupsOK G →
    (∀ a ∈ pre, ∀ grp ∈ G, ∀ b ∈ grp, evT a < evT b) →
    goodGroups3 (g.demes.length + ((pre.map (cmdOfV gv)).filter isSplitC).length) (G.map (List.map (cmdOfV gv))) = true
  | [], _, _, _, _ => rfl
  | grp :: rest, pre, hF, hok, hsep => by
    have hinc := List.pairwise_cons.1 hok.inc
    obtain ⟨hne, hsame⟩ := hok.same grp List.mem_cons_self
    have hF' : finalEvs g N0 = pre ++ grp ++ rest.flatten := by rw [hF]; simp
    have hpost : ∀ a ∈ grp, ∀ b ∈ rest.flatten, evT a < evT b := by
      intro a ha b hb
      obtain ⟨g2, hg2, hb2⟩ := List.mem_flatten.1 hb
      exact hinc.1 g2 hg2 a ha b hb2
    have h1 := goodGroup3_groupV gv c hx hpb hN hF' hne hsame
      (fun a ha b hb => hsep a ha grp List.mem_cons_self b hb) hpost
    have h2 := goodGroups3_groupsV rest (pre ++ grp) (by rw [hF'])
      ⟨hinc.2, fun g2 hg2 => hok.same g2 (List.mem_cons_of_mem _ hg2)⟩ (by
        intro a ha g2 hg2 b hb
        rcases List.mem_append.1 ha with ha | ha
        · exact hsep a ha g2 (List.mem_cons_of_mem _ hg2) b hb
        · exact hinc.1 g2 hg2 a ha b hb)
    simp only [List.map_append, List.filter_append, List.length_append, ← Nat.add_assoc] at h2
    simp only [List.map_cons, goodGroups3, Bool.and_eq_true]
    exact ⟨h1, h2⟩

end

/-- the command `to_ms` prints for a valid ms-expressible graph (exponential epochs allowed) whose pulse
proportions are below one lies in `Tame3` — no condition on the order of same-time pulses -/
theorem tame3_finalEvsV (gv : Growth → Q) {g : Graph} (c : ToMs.Clauses g) (hx : MsExpressible g = true)
    (hpb : PulsesBelowOne g = true) {N0 : Q} (hN : 0 < N0) (samples : Option (List Int)) :
    Demes.Spec.C08.Tame3 (prOfV gv (ToMs.headerOf g samples) (ToMs.finalEvs g N0)) = true := by
  have hn : (prOfV gv (headerOf g samples) (finalEvs g N0)).npop = g.demes.length := by
    show ((headerOf g samples).map (·.1)).getD 1 = g.demes.length
    unfold headerOf
    have := demes_pos c
    by_cases h1 : g.demes.length > 1
    · simp [h1]
    · simp [h1]; omega
  unfold Tame3
  rw [hn, cmdGroups_prOfV gv _ _ (evG_finalEvs c hx hN) (sorted_finalEvs c hx hN)]
  have := goodGroups3_groupsV gv c hx hpb hN (groupsByTime (finalEvs g N0)) []
    (by rw [flatten_groupsByTime]; rfl) (groupsOK_groupsByTime _ (sorted_byQ_finalEvs c hx hN))
    (fun a ha => by cases ha)
  simpa using this

/-- `tame3_finalEvsV` for the command of `to_ms graph`: hypotheses on the graph itself -/
theorem tame3_toMsV (gv : Growth → Q) {graph : Graph} (hv : validGraph graph = true) (hx : MsExpressible graph = true)
    (hpb : PulsesBelowOne graph = true) {N0 : Q} (hN : 0 < N0) (samples : Option (List Int)) :
    Demes.Spec.C08.Tame3 (prOfV gv (ToMs.headerOf (inGenerations graph) samples) (ToMs.finalEvs (inGenerations graph) N0)) = true :=
  tame3_finalEvsV gv (clauses_of_valid (InGen.inGenerations_valid graph hv)) (by rw [expr_inGen]; exact hx)
    (by rw [pulsesBelowOne_inGen_of_valid hv]; exact hpb) hN samples

/-! ### closed instances -/

open Demes.Proofs.MsTame2 (fourDemes startPulsesChain longChain startPulses)

/-- `chainGraph` with an exponential epoch in `B`: pulses `A → B` (listed first) and `B → C` at time 4; `B` is
constant 1 until 10 generations ago, then grows 1 → 2 -/
def growChain : Graph :=
  { description := "", timeUnits := "generations", generationTime := 1, doi := [], metadata := [],
    demes := [constDeme "A" "" 1 0 0,
              { name := "B", description := "", startTime := .inf, ancestors := [], proportions := [],
                epochs := [{ startTime := .inf, endTime := 10, startSize := 1, endSize := 1,
                             sizeFunction := "constant", selfingRate := 0, cloningRate := 0 },
                           { startTime := .fin 10, endTime := 0, startSize := 1, endSize := 2,
                             sizeFunction := "exponential", selfingRate := 0, cloningRate := 0 }] },
              constDeme "C" "" 1 0 0],
    migrations := [],
    pulses := [{ sources := ["A"], dest := "B", time := 4, proportions := [1/2] },
               { sources := ["B"], dest := "C", time := 4, proportions := [1/2] }],
    index := [("A", 0), ("B", 1), ("C", 2)] }

/-- the hypotheses of `tame3_toMsV` hold for `growChain`, which is neither of constant sizes nor `PulsesTame` -/
theorem growChain_hyps3 :
    validGraph growChain = true ∧ MsExpressible growChain = true ∧ PulsesBelowOne growChain = true
      ∧ ConstSizes growChain = false ∧ PulsesTame growChain = false := by decide +kernel

example : Demes.Spec.C08.Tame3 (prOfV (fun _ => 0) (headerOf (inGenerations growChain) none)
    (finalEvs (inGenerations growChain) 1)) = true :=
  tame3_toMsV _ growChain_hyps3.1 growChain_hyps3.2.1 growChain_hyps3.2.2.1 (by decide) none

/-- the command of `growChain` has growth options, is in `Tame3` and not in `Tame'` (by evaluation) -/
theorem growChain_tame3_not_tame :
    (alphasOf (finalEvs (inGenerations growChain) 1)).length = 2
      ∧ Demes.Spec.C08.Tame3 (prOfV (fun _ => 0) (headerOf (inGenerations growChain) none)
          (finalEvs (inGenerations growChain) 1)) = true
      ∧ Demes.Spec.C08.Tame' (prOfV (fun _ => 0) (headerOf (inGenerations growChain) none)
          (finalEvs (inGenerations growChain) 1)) = false := by decide +kernel

/-- the pulse chains of `MsTame2.chains_outside_tame2` (two pulses; a chain into the ancestors of a deme born at
the time of the chain; three pulses ending in the newborn deme): `PulsesBelowOne`, not `PulsesTame`; the commands
are in `Tame3` and outside `Tame'`.  `fourDemes startPulses` (no chain) is in both. -/
theorem chains_inside_tame3 :
    [chainGraph, fourDemes startPulsesChain, fourDemes longChain].all
        (fun g => validGraph g && MsExpressible g && ConstSizes g && PulsesBelowOne g && !PulsesTame g
          && Demes.Spec.C08.Tame3 (prOfV (fun _ => 0) (headerOf (inGenerations g) none) (finalEvs (inGenerations g) 1))
          && !Demes.Spec.C08.Tame' (prOfV (fun _ => 0) (headerOf (inGenerations g) none) (finalEvs (inGenerations g) 1))
          && Demes.Spec.C08.Tame3 (MsRT.prOf (headerOf (inGenerations g) none) (finalEvs (inGenerations g) 1))
          && !Demes.Spec.C08.Tame' (MsRT.prOf (headerOf (inGenerations g) none) (finalEvs (inGenerations g) 1))) = true
    ∧ (PulsesBelowOne (fourDemes startPulses) && PulsesTame (fourDemes startPulses)
        && Demes.Spec.C08.Tame3 (MsRT.prOf (headerOf (inGenerations (fourDemes startPulses)) none)
            (finalEvs (inGenerations (fourDemes startPulses)) 1))
        && Demes.Spec.C08.Tame' (MsRT.prOf (headerOf (inGenerations (fourDemes startPulses)) none)
            (finalEvs (inGenerations (fourDemes startPulses)) 1))) = true := by decide +kernel

#print axioms goodGroup3_groupV
#print axioms goodGroups3_groupsV
#print axioms tame3_finalEvsV
#print axioms tame3_toMsV
#print axioms growChain_hyps3
#print axioms growChain_tame3_not_tame
#print axioms chains_inside_tame3

end Demes.Proofs.MsGrow
