/-
  Proofs for C14, record validation: every `Split` / `Branch` / `Merge` / `Admix` that
  `discrete_demographic_events` constructs on a valid graph passes its class's validators, so the
  checked function (`discreteEventsChecked`, Model/Records.lean) returns what `discreteEvents` does.
-/
import DemesVerif.Proofs.Events
import DemesVerif.Proofs.ResolveLemmas
import DemesVerif.Model.Records
namespace Demes.Proofs.Rec
open Demes Demes.Spec Demes.Proofs

/-! ### what validity says about one deme -/

structure DemeFacts (g : Graph) (d : Deme) : Prop where
  nameId : isIdentifier d.name = true
  ancId : ∀ a ∈ d.ancestors, isIdentifier a = true
  ancNodup : d.ancestors.Nodup
  notSelf : d.name ∉ d.ancestors
  start : d.ancestors ≠ [] → ∃ q, d.startTime = .fin q ∧ 0 < q
  propLen : d.proportions.length = d.ancestors.length
  propRange : ∀ p ∈ d.proportions, 0 < p ∧ p ≤ 1
  propSum : d.proportions = [] ∨ closeTo1 (qsumS d.proportions) = true
  endNonneg : 0 ≤ d.endTime

theorem demeFacts (g : Graph) (hv : validGraph g = true) (d : Deme) (hd : d ∈ g.demes) :
    DemeFacts g d := by
  have hwf := ancWF_of_valid g hv
  simp only [validGraph, validData, Bool.and_eq_true] at hv
  obtain ⟨_, ⟨⟨⟨⟨⟨⟨⟨⟨⟨⟨⟨h1, _⟩, h3⟩, h4⟩, _⟩, h6⟩, _⟩, _⟩, _⟩, _⟩, _⟩, _⟩⟩ := hv
  simp only [v1, Bool.and_eq_true, List.all_eq_true] at h1
  have hids := h1.1.2
  obtain ⟨pre, post, hl⟩ := List.append_of_mem hd
  have hanc := hwf.2 pre d post hl
  have hns : d.name ∉ pre.map (·.name) := AncWF.not_self (hl ▸ hwf)
  simp only [v3, List.all_eq_true, Bool.and_eq_true, decide_eq_true_eq] at h3
  have h3d := h3 d hd
  simp only [v4, List.all_eq_true, Bool.and_eq_true, Bool.or_eq_true, decide_eq_true_eq,
    beq_iff_eq, List.isEmpty_iff] at h4
  have h4d := h4 d hd
  simp only [v6, List.all_eq_true, Bool.and_eq_true, decide_eq_true_eq] at h6
  refine ⟨hids d hd, ?_, hanc.1, ?_, ?_, h4d.1.1, h4d.1.2, h4d.2, ?_⟩
  · intro a ha
    obtain ⟨e, he, hea⟩ := List.mem_map.mp (hanc.2 a ha)
    rw [← hea]
    exact hids e (by rw [hl]; exact List.mem_append_left _ he)
  · intro hself
    exact hns (hanc.2 _ hself)
  · intro hne
    have hfin : d.startTime.isInf = false := by
      have := h3d.1.2
      cases hs : d.startTime.isInf
      · rfl
      · rw [hs] at this
        simp only [beq_iff_eq, List.isEmpty_iff] at this
        exact absurd this hne
    cases hst : d.startTime with
    | inf => rw [hst] at hfin; simp [ETime.isInf] at hfin
    | fin q =>
      refine ⟨q, rfl, ?_⟩
      have := h3d.2
      rw [hst] at this
      exact this
  · unfold Deme.endTime Deme.endTime?
    cases hlast : d.epochs.getLast? with
    | none => simp
    | some e =>
      have hmem := List.mem_of_getLast? hlast
      simpa using (h6 d hd e hmem).2

/-! ### field validators on the values a valid graph provides -/

theorem recordTimeOk_fin (q : Q) (h : 0 ≤ q) : recordTimeOk (Num.fin q) = true := by
  have : ¬ q < 0 := by grind
  simp [recordTimeOk, recordNumOk, Num.isNan, vNonNegative, vFinite, Num.lt, Num.zero, Num.isInf,
    Except.isOk, Except.toBool, pure, Except.pure, this]

theorem recordTimeOk_start (g : Graph) (d : Deme) (hf : DemeFacts g d) (hne : d.ancestors ≠ []) :
    recordTimeOk (Num.ofETime d.startTime) = true := by
  obtain ⟨q, hq, hpos⟩ := hf.start hne
  rw [hq]
  exact recordTimeOk_fin q (by grind)

theorem foldl_add_fin (ps : List Q) (a : Q) :
    (ps.map Num.fin).foldl Num.add (Num.fin a) = Num.fin (ps.foldl (· + ·) a) := by
  induction ps generalizing a with
  | nil => rfl
  | cons p ps ih => simp only [List.map_cons, List.foldl_cons, Num.add]; exact ih _

theorem pysum_fin (ps : List Q) : Num.pysum (ps.map Num.fin) = Num.fin (qsum ps) :=
  foldl_add_fin ps 0

theorem recordSumIsOne_fin (ps : List Q) :
    recordSumIsOne (ps.map Num.fin) = proportionsSumOk ps := by
  rw [recordSumIsOne, pysum_fin]
  rfl

theorem proportionOk_fin (p : Q) (h : 0 < p ∧ p ≤ 1) :
    ((vUnitInterval (Num.fin p)).isOk && (vPositive (Num.fin p)).isOk) = true := by
  have h0 : 0 ≤ p := by grind
  have h1 : ¬ p ≤ 0 := by grind
  simp [vUnitInterval, vPositive, Num.le, Num.zero, Num.one, Except.isOk, Except.toBool, pure, Except.pure, h0, h1, h.2]

theorem checkProportions_fin (g : Graph) (d : Deme) (hf : DemeFacts g d) :
    mergeCheckProportionsOk (d.proportions.map Num.fin) = true := by
  unfold mergeCheckProportionsOk
  rw [Bool.and_eq_true]
  constructor
  · rcases hf.propSum with h | h
    · simp [h]
    · rw [recordSumIsOne_fin, RV.proportionsSumOk_iff, h]
      simp
  · rw [List.all_eq_true]
    intro x hx
    obtain ⟨p, hp, rfl⟩ := List.mem_map.mp hx
    exact proportionOk_fin p (hf.propRange p hp)

theorem admixCheck_eq_mergeCheck (ps : List Num) :
    admixCheckProportionsOk ps = mergeCheckProportionsOk ps := rfl

theorem admixPostInit_eq_mergePostInit (ps : List String) (qs : List Num) (c : String) :
    admixPostInitOk ps qs c = mergePostInitOk ps qs c := rfl

theorem admixRecord_eq_mergeRecord (ps : List String) (qs : List Num) (c : String) (t : Num) :
    admixRecordOk ps qs c t = mergeRecordOk ps qs c t := rfl

/-! ### the records of the Spec lists are valid -/

theorem mergeEvOf_ok (g : Graph) (d : Deme) (hf : DemeFacts g d) (h2 : 2 ≤ d.ancestors.length) :
    (mergeEvOf d).mergeOk = true := by
  have hne : d.ancestors ≠ [] := by
    intro h; rw [h] at h2; simp at h2
  have hnums : recordNumsOk (d.proportions.map Num.fin) = true := by
    simp [recordNumsOk, recordNumOk, Num.isNan]
  have hnames : recordNamesOk d.ancestors = true := by
    simpa [recordNamesOk, recordNameOk] using hf.ancId
  have hlen : ¬ d.ancestors.length < 2 := by omega
  have hns := hf.notSelf
  simp only [MergeEv.mergeOk, mergeEvOf, mergeRecordOk, hnames, hnums, checkProportions_fin g d hf,
    recordNameOk, hf.nameId, recordTimeOk_start g d hf hne, mergePostInitOk, Bool.and_self,
    Bool.true_and, List.length_map, hf.propLen, hlen, decide_false, Bool.not_false, ne_eq,
    not_true_eq_false, hf.ancNodup, decide_true, Bool.and_true, List.contains_eq_mem,
    Bool.not_eq_eq_eq_not, Bool.not_true, decide_eq_false_iff_not]
  exact hns

theorem mergeEvOf_admixOk (g : Graph) (d : Deme) (hf : DemeFacts g d) (h2 : 2 ≤ d.ancestors.length) :
    (mergeEvOf d).admixOk = true := mergeEvOf_ok g d hf h2

theorem branchEvOf_ok (g : Graph) (d : Deme) (hf : DemeFacts g d) (b : BranchEv)
    (hb : branchEvOf? g d = some b) : b.recordOk = true := by
  unfold branchEvOf? at hb
  rcases hanc : d.ancestors with _ | ⟨p0, _ | ⟨p1, ps⟩⟩
  · simp [hanc] at hb
  · simp only [hanc] at hb
    split at hb
    · simp at hb
    · simp only [Option.some.injEq] at hb
      subst hb
      have hne : d.ancestors ≠ [] := by simp [hanc]
      have hp : isIdentifier p0 = true := hf.ancId p0 (by simp [hanc])
      have hns : d.name ≠ p0 := by
        intro h
        exact hf.notSelf (by simp [hanc, h])
      simp [BranchEv.recordOk, branchRecordOk, recordNameOk, hp, hf.nameId,
        recordTimeOk_start g d hf hne, branchPostInitOk, hns]
  · simp [hanc] at hb

theorem specSplit_ok (g : Graph) (hv : validGraph g = true) (s : SplitEv) (hs : s ∈ specSplits g) :
    s.recordOk = true := by
  have hnd := (valid_facts g hv).2.1
  unfold specSplits at hs
  obtain ⟨pd, hpd, hsome⟩ := List.mem_filterMap.mp hs
  simp only at hsome
  split at hsome
  · simp at hsome
  · rename_i hne
    simp only [Option.some.injEq] at hsome
    subst hsome
    have hfp := demeFacts g hv pd hpd
    have hchildren : ∀ c ∈ splitChildren g pd, c ∈ g.demes ∧ c.ancestors = [pd.name] := by
      intro c hc
      have := List.mem_filter.mp hc
      simp only [Bool.and_eq_true, beq_iff_eq] at this
      exact ⟨this.1, this.2.1⟩
    have hnames : recordNamesOk ((splitChildren g pd).map (·.name)) = true := by
      simp only [recordNamesOk, recordNameOk, List.all_map, List.all_eq_true, Function.comp]
      intro c hc
      exact (demeFacts g hv c (hchildren c hc).1).nameId
    have hnonempty : ((splitChildren g pd).map (·.name)).isEmpty = false := by
      simpa using hne
    have hnotin : pd.name ∉ (splitChildren g pd).map (·.name) := by
      intro hin
      obtain ⟨c, hc, hcn⟩ := List.mem_map.mp hin
      have hfc := demeFacts g hv c (hchildren c hc).1
      apply hfc.notSelf
      rw [(hchildren c hc).2, hcn]
      simp
    have hnodup : ((splitChildren g pd).map (·.name)).Nodup := by
      have hsub : ((splitChildren g pd).map (·.name)).Sublist (g.demes.map (·.name)) :=
        List.Sublist.map _ List.filter_sublist
      exact hnd.sublist hsub
    simp only [SplitEv.recordOk, splitRecordOk, recordNameOk, hfp.nameId, hnames, hnonempty,
      recordTimeOk_fin _ hfp.endNonneg, splitPostInitOk, hnodup, List.contains_eq_mem,
      Bool.not_false, Bool.and_self, decide_true, Bool.and_true, Bool.true_and,
      Bool.not_eq_eq_eq_not, Bool.not_true, decide_eq_false_iff_not]
    exact hnotin

/-! ### `events_records_valid` -/

theorem events_records_valid (g : Graph) (hv : validGraph g = true) (ev : Events)
    (hev : discreteEvents g = some ev) :
    (∀ s ∈ ev.splits, s.recordOk = true) ∧ (∀ b ∈ ev.branches, b.recordOk = true)
      ∧ (∀ m ∈ ev.mergers, m.mergeOk = true) ∧ (∀ m ∈ ev.admixtures, m.admixOk = true) := by
  obtain ⟨ev', h1, _, hb, hm, ha, hs⟩ := events_spec_ordered g hv
  rw [hev, Option.some.injEq] at h1
  subst h1
  refine ⟨?_, ?_, ?_, ?_⟩
  · intro s hmem
    exact specSplit_ok g hv s (hs.mem_iff.mp hmem)
  · intro b hmem
    rw [hb, specBranches] at hmem
    obtain ⟨d, hd, hbd⟩ := List.mem_filterMap.mp hmem
    exact branchEvOf_ok g d (demeFacts g hv d hd) b hbd
  · intro m hmem
    rw [hm, specMergers] at hmem
    obtain ⟨d, hd, rfl⟩ := List.mem_map.mp hmem
    obtain ⟨hd, hcls⟩ := List.mem_filter.mp hd
    simp only [isMergerChild, Bool.and_eq_true, decide_eq_true_eq] at hcls
    exact mergeEvOf_ok g d (demeFacts g hv d hd) hcls.1
  · intro m hmem
    rw [ha, specAdmixtures] at hmem
    obtain ⟨d, hd, rfl⟩ := List.mem_map.mp hmem
    obtain ⟨hd, hcls⟩ := List.mem_filter.mp hd
    simp only [isAdmixChild, Bool.and_eq_true, decide_eq_true_eq] at hcls
    exact mergeEvOf_admixOk g d (demeFacts g hv d hd) hcls.1

theorem events_recordsOk (g : Graph) (hv : validGraph g = true) (ev : Events)
    (hev : discreteEvents g = some ev) : ev.recordsOk = true := by
  obtain ⟨h1, h2, h3, h4⟩ := events_records_valid g hv ev hev
  simp only [Events.recordsOk, Bool.and_eq_true, List.all_eq_true]
  exact ⟨⟨⟨h1, h2⟩, h3⟩, h4⟩

/-! ### the checked loop returns what the unchecked loop returns -/

theorem mapM_okE {α β : Type} (f : α → Except Err β) (h : α → β) (l : List α)
    (hl : ∀ a ∈ l, f a = .ok (h a)) : l.mapM f = .ok (l.map h) := by
  induction l with
  | nil => rfl
  | cons a l ih =>
    rw [List.mapM_cons, hl a List.mem_cons_self, ih (fun b hb => hl b (List.mem_cons_of_mem _ hb))]
    rfl

theorem getDeme_of_find (g : Graph) (hfd : ∀ n, g.deme? n = findDeme g n) (n : String) (d : Deme)
    (h : findDeme g n = some d) : getDeme g n = .ok d := by
  unfold getDeme
  rw [hfd, h]
  rfl

theorem evStepC_eq (g : Graph) (hfd : ∀ n, g.deme? n = findDeme g n) (acc : Events × NameMap)
    (d : Deme) (hd : findDeme g d.name = some d)
    (ha : ∀ a ∈ d.ancestors, ∃ pd, findDeme g a = some pd) (hf : DemeFacts g d) :
    eventsStepChecked g acc (d.name, d.ancestors) = .ok (evStep g acc d) := by
  have hbr : ∀ b, branchEvOf? g d = some b → b.recordOk = true := branchEvOf_ok g d hf
  unfold eventsStepChecked evStep
  unfold branchEvOf? at hbr
  rcases hanc : d.ancestors with _ | ⟨p0, _ | ⟨p1, ps⟩⟩
  · rfl
  · obtain ⟨pd, hpd⟩ := ha p0 (by simp [hanc])
    simp only [hanc] at hbr
    simp only [getDeme_of_find g hfd _ _ hd, getDeme_of_find g hfd _ _ hpd,
      endsAt_of_find g p0 _ pd hpd, bind, Except.bind, decide_eq_true_eq]
    split
    · rfl
    · rename_i hne
      have := hbr { parent := p0, child := d.name, time := d.startTime }
        (by rw [endsAt_of_find g p0 _ pd hpd]; simp [hne])
      simp [this, pure, Except.pure]
  · have h2 : 2 ≤ d.ancestors.length := by simp [hanc]
    have hmo := mergeEvOf_ok g d hf h2
    have hao := mergeEvOf_admixOk g d hf h2
    have hm := mapM_okE (fun a => (getDeme g a).map (fun d => ETime.fin d.endTime))
      (fun a => ETime.fin ((findDeme g a).getD default).endTime) (p0 :: p1 :: ps) (by
        intro a hmem
        obtain ⟨pd, hpd⟩ := ha a (by rw [hanc]; exact hmem)
        simp [getDeme_of_find g hfd _ _ hpd, hpd, Except.map])
    have hal : ((p0 :: p1 :: ps).map (fun a => ETime.fin ((findDeme g a).getD default).endTime)).all
        (fun e => decide (d.startTime = e)) = aligned g d := by
      unfold aligned
      rw [hanc, List.all_map, Bool.eq_iff_iff, List.all_eq_true, List.all_eq_true]
      constructor
      · intro h a hmem
        obtain ⟨pd, hpd⟩ := ha a (by rw [hanc]; exact hmem)
        have := h a hmem
        rw [endsAt_of_find g a _ pd hpd]
        simpa [hpd] using this
      · intro h a hmem
        obtain ⟨pd, hpd⟩ := ha a (by rw [hanc]; exact hmem)
        have := h a hmem
        rw [endsAt_of_find g a _ pd hpd] at this
        simpa [hpd] using this
    simp only [mergeEvOf, hanc] at hmo hao
    simp only [getDeme_of_find g hfd _ _ hd, bind, Except.bind, hm, hal]
    split <;> simp [mergeEvOf, hanc, hmo, hao, pure, Except.pure]

theorem evFoldC_eq (g : Graph) (hfd : ∀ n, g.deme? n = findDeme g n) (l : List Deme)
    (acc : Events × NameMap)
    (hl : ∀ d ∈ l, findDeme g d.name = some d
      ∧ (∀ a ∈ d.ancestors, ∃ pd, findDeme g a = some pd) ∧ DemeFacts g d) :
    (l.map (fun d => (d.name, d.ancestors))).foldlM (eventsStepChecked g) acc
      = .ok (l.foldl (evStep g) acc) := by
  induction l generalizing acc with
  | nil => rfl
  | cons d l ih =>
    have hd := hl d List.mem_cons_self
    rw [List.map_cons, List.foldlM_cons, evStepC_eq g hfd acc d hd.1 hd.2.1 hd.2.2]
    simp only [bind, Except.bind, List.foldl_cons]
    exact ih _ (fun e he => hl e (List.mem_cons_of_mem _ he))

theorem discreteEventsChecked_eq (g : Graph) :
    discreteEventsChecked g = (do
      let (ev, splitsToAdd) ← (predecessors g).foldlM (eventsStepChecked g) (evInit g)
      let splits ← splitsToAdd.mapM (splitOfChecked g)
      pure { ev with splits := splits }) := rfl

theorem splitsC_of_some (g : Graph) : ∀ (sp : NameMap) (splits : List SplitEv),
    sp.mapM (splitOfM g) = some splits → (∀ s ∈ splits, s.recordOk = true) →
      sp.mapM (splitOfChecked g) = .ok splits := by
  intro sp
  induction sp with
  | nil =>
    intro splits h _
    simp only [List.mapM_nil, Option.pure_def, Option.some.injEq] at h
    subst h
    rfl
  | cons kv sp ih =>
    intro splits h hok
    rw [List.mapM_cons] at h
    cases hpd : g.deme? kv.1 with
    | none => simp [splitOfM, hpd] at h
    | some pd =>
      cases hrest : sp.mapM (splitOfM g) with
      | none => simp [hrest] at h
      | some rest =>
        simp only [splitOfM, hpd, hrest, Option.bind_eq_bind, Option.bind_some, Option.pure_def,
          Option.some.injEq] at h
        subst h
        have h1 : ({ parent := kv.1, children := kv.2, time := pd.endTime } : SplitEv).recordOk = true :=
          hok _ List.mem_cons_self
        have h2 := ih rest hrest (fun s hs => hok s (List.mem_cons_of_mem _ hs))
        rw [List.mapM_cons, h2]
        simp [splitOfChecked, getDeme, hpd, h1, bind, Except.bind, pure, Except.pure]

theorem events_checked_total (g : Graph) (hv : validGraph g = true) :
    ∃ ev, discreteEventsChecked g = .ok ev ∧ discreteEvents g = some ev := by
  obtain ⟨hfd, hnd, hanc⟩ := valid_facts g hv
  obtain ⟨ev, hev, _⟩ := events_spec_ordered g hv
  have hrec := events_records_valid g hv ev hev
  refine ⟨ev, ?_, hev⟩
  have hfoldM := evFoldM_eq g hfd g.demes (evInit g)
    (fun d hd => ⟨findDeme_mem g hnd d hd, hanc d hd⟩)
  have hfoldC := evFoldC_eq g hfd g.demes (evInit g)
    (fun d hd => ⟨findDeme_mem g hnd d hd, hanc d hd, demeFacts g hv d hd⟩)
  rw [discreteEvents_eq, pred_of_nodup g hnd, hfoldM] at hev
  simp only [Option.bind_eq_bind, Option.bind_some] at hev
  cases hsp : (g.demes.foldl (evStep g) (evInit g)).2.mapM (splitOfM g) with
  | none => simp [hsp] at hev
  | some splits =>
    simp only [hsp, Option.bind_some, Option.pure_def, Option.some.injEq] at hev
    subst hev
    have hC := splitsC_of_some g _ splits hsp hrec.1
    rw [discreteEventsChecked_eq, pred_of_nodup g hnd, hfoldC]
    simp only [bind, Except.bind, hC]
    rfl

theorem events_checked_spec (g : Graph) (hv : validGraph g = true) :
    ∃ ev, discreteEventsChecked g = .ok ev ∧ ev.pulses = g.pulses
      ∧ ev.branches = specBranches g ∧ ev.mergers = specMergers g
      ∧ ev.admixtures = specAdmixtures g ∧ splitsAgree ev.splits (specSplits g) := by
  obtain ⟨ev, hc, hu⟩ := events_checked_total g hv
  obtain ⟨ev', hu', rest⟩ := events_spec g hv
  rw [hu, Option.some.injEq] at hu'
  subst hu'
  exact ⟨ev, hc, rest⟩

/-- not a valid graph: `B` lists its ancestor `A` twice (used to show the validation is not idle) -/
def repeatedAncestorGraph : Graph :=
  { description := "", timeUnits := "generations", generationTime := 1, doi := [], metadata := [],
    demes := [evDeme "A" .inf 0 [] [], evDeme "B" (.fin 50) 0 ["A", "A"] [1/2, 1/2]],
    migrations := [], pulses := [], index := [("A", 0), ("B", 1)] }

/-! ### the record predicates refuse what the classes refuse -/

theorem recordTimeOk_iff (t : Num) : recordTimeOk t = true ↔ ∃ q, t = Num.fin q ∧ 0 ≤ q := by
  cases t with
  | fin q =>
    constructor
    · intro h
      refine ⟨q, rfl, ?_⟩
      simp only [recordTimeOk, recordNumOk, Num.isNan, vNonNegative, Num.lt, Num.zero,
        Bool.and_eq_true] at h
      have h2 := h.1.2
      by_cases hq : q < 0
      · simp [hq, valueErr, Except.isOk, Except.toBool] at h2
      · grind
    · rintro ⟨q', hq, h0⟩
      cases hq
      exact recordTimeOk_fin q h0
  | pinf => simp [recordTimeOk, recordNumOk, Num.isNan, vNonNegative, vFinite, Num.lt, Num.zero, Num.isInf,
      Except.isOk, Except.toBool, pure, Except.pure, valueErr]
  | ninf => simp [recordTimeOk, recordNumOk, Num.isNan, vNonNegative, vFinite, Num.lt, Num.zero, Num.isInf,
      Except.isOk, Except.toBool, valueErr]
  | nan => simp [recordTimeOk, recordNumOk, Num.isNan]

theorem splitRecordOk_iff (parent : String) (children : List String) (time : Num) :
    splitRecordOk parent children time = true ↔
      isIdentifier parent = true ∧ (∀ c ∈ children, isIdentifier c = true) ∧ children ≠ []
        ∧ (∃ q, time = Num.fin q ∧ 0 ≤ q) ∧ parent ∉ children ∧ children.Nodup := by
  rw [← recordTimeOk_iff]
  simp only [splitRecordOk, recordNameOk, recordNamesOk, splitPostInitOk, Bool.and_eq_true,
    List.all_eq_true, Bool.not_eq_eq_eq_not, Bool.not_true, List.isEmpty_eq_false_iff,
    List.contains_eq_mem, decide_eq_false_iff_not, decide_eq_true_eq, ne_eq]
  simp only [and_assoc]

theorem branchRecordOk_iff (parent child : String) (time : Num) :
    branchRecordOk parent child time = true ↔
      isIdentifier parent = true ∧ isIdentifier child = true
        ∧ (∃ q, time = Num.fin q ∧ 0 ≤ q) ∧ child ≠ parent := by
  rw [← recordTimeOk_iff]
  simp only [branchRecordOk, recordNameOk, branchPostInitOk, Bool.and_eq_true,
    Bool.not_eq_eq_eq_not, Bool.not_true, beq_eq_false_iff_ne, ne_eq]
  simp only [and_assoc]

theorem split_parent_among_children_rejects (parent : String) (children : List String) (time : Num)
    (h : parent ∈ children) : splitRecordOk parent children time = false := by
  rw [Bool.eq_false_iff]
  intro hok
  exact ((splitRecordOk_iff _ _ _).mp hok).2.2.2.2.1 h

theorem split_repeated_child_rejects (parent : String) (children : List String) (time : Num)
    (h : ¬ children.Nodup) : splitRecordOk parent children time = false := by
  rw [Bool.eq_false_iff]
  intro hok
  exact h ((splitRecordOk_iff _ _ _).mp hok).2.2.2.2.2

theorem split_no_children_rejects (parent : String) (time : Num) :
    splitRecordOk parent [] time = false := by
  simp [splitRecordOk]

theorem record_time_rejects (t : Num) (h : t = Num.nan ∨ t = Num.pinf ∨ t = Num.ninf ∨ ∃ q, t = Num.fin q ∧ q < 0) :
    recordTimeOk t = false := by
  rw [Bool.eq_false_iff]
  intro hok
  obtain ⟨q, rfl, h0⟩ := (recordTimeOk_iff t).mp hok
  rcases h with h | h | h | ⟨q', h, hq⟩
  · cases h
  · cases h
  · cases h
  · cases h; grind

theorem branch_of_itself_rejects (name : String) (time : Num) : branchRecordOk name name time = false := by
  simp [branchRecordOk, branchPostInitOk]

theorem merge_fewer_than_two_parents_rejects (parents : List String) (proportions : List Num)
    (child : String) (time : Num) (h : parents.length < 2) :
    mergeRecordOk parents proportions child time = false ∧ admixRecordOk parents proportions child time = false := by
  simp [mergeRecordOk, admixRecordOk, mergePostInitOk, admixPostInitOk, h]

theorem merge_length_mismatch_rejects (parents : List String) (proportions : List Num)
    (child : String) (time : Num) (h : parents.length ≠ proportions.length) :
    mergeRecordOk parents proportions child time = false ∧ admixRecordOk parents proportions child time = false := by
  simp [mergeRecordOk, admixRecordOk, mergePostInitOk, admixPostInitOk, h]

theorem merge_child_among_parents_rejects (parents : List String) (proportions : List Num)
    (child : String) (time : Num) (h : child ∈ parents) :
    mergeRecordOk parents proportions child time = false ∧ admixRecordOk parents proportions child time = false := by
  simp [mergeRecordOk, admixRecordOk, mergePostInitOk, admixPostInitOk, h]

theorem merge_sum_not_one_rejects (parents : List String) (proportions : List Num)
    (child : String) (time : Num) (hne : proportions ≠ []) (h : recordSumIsOne proportions = false) :
    mergeRecordOk parents proportions child time = false ∧ admixRecordOk parents proportions child time = false := by
  have : 0 < proportions.length := List.length_pos_iff.mpr hne
  simp [mergeRecordOk, admixRecordOk, mergeCheckProportionsOk, admixCheckProportionsOk, h, this]

end Demes.Proofs.Rec
