/-
  C01 — every graph the library hands out is a valid fully-resolved Demes model.

  `resolve : Value → Except Err Graph` is the Model of `Graph.fromdict`; `Spec.validGraph` is the
  independent validator of the fully-resolved data model (clauses V0–V13 of `Spec/Valid.lean`).
-/
import DemesVerif.Proofs.ResolveValid
namespace Demes.Theorems
open Demes Demes.Spec

/-- Whenever resolving a document returns a graph instead of raising, that graph satisfies every
invariant of the fully-resolved data model: the name index is exact (V0); names are distinct
identifiers (V1); ancestors are listed earlier, distinct, and alive at the descendant's start
time (V2, V3); ancestry proportions match the ancestors and sum to one (V4); epochs are
contiguous and strictly descending with positive finite sizes, an infinite first epoch being
constant-size (V5, V6); migrations join two different coexisting demes inside their coexistence
interval with a rate in [0,1] (V8), at most one per ordered pair at any time (V9), with total
ingress per deme at most one up to a 1e-9 relative tolerance (V10); pulses lie inside the
coexistence intervals with the open/closed end rules and proportions summing to at most one
(V11) and are ordered oldest first (V12); the header is well-formed (V13). -/
theorem resolve_valid (d : Value) (g : Graph) (h : resolve d = .ok g) : validGraph g = true :=
  Proofs.resolve_valid d g h

/-- there is at least one deme, names are identifiers and pairwise distinct -/
theorem resolve_names_unique (d : Value) (g : Graph) (h : resolve d = .ok g) :
    g.demes ≠ [] ∧ (∀ x ∈ g.demes, isIdentifier x.name = true) ∧ (g.demes.map (·.name)).Nodup :=
  Proofs.resolve_names_unique d g h

/-- every deme has at least one epoch, and its epochs are contiguous and strictly descending
from the deme's start time -/
theorem resolve_epochs_contiguous (d : Value) (g : Graph) (h : resolve d = .ok g) :
    ∀ x ∈ g.demes, x.epochs ≠ [] ∧ contiguous x.startTime x.epochs = true :=
  Proofs.resolve_epochs_contiguous d g h

/-- two migrations of the same ordered pair of demes are never active at a common time -/
theorem resolve_migrations_disjoint (d : Value) (g : Graph) (h : resolve d = .ok g) :
    g.migrations.Pairwise (fun a b => a.source = b.source → a.dest = b.dest → disjoint a b = true) :=
  Proofs.resolve_migrations_disjoint d g h

/-- at every migration boundary time the total ingress into every deme is at most one (up to
the 1e-9 relative tolerance) -/
theorem resolve_ingress_le_one (d : Value) (g : Graph) (h : resolve d = .ok g) :
    ∀ t ∈ boundaries g, ∀ x ∈ g.demes, ingressOk (ingressAt g x.name t) = true :=
  Proofs.resolve_ingress_le_one d g h

/-- the `∀ t` form of V10: at *every* time (not only at the boundaries, between which the set of
active migrations is constant) the total ingress into every deme is at most one, up to the
tolerance -/
theorem resolve_ingress_all_times (d : Value) (g : Graph) (h : resolve d = .ok g) (t : Q) :
    ∀ x ∈ g.demes, ingressOk (ingressAt g x.name t) = true :=
  Proofs.resolve_ingress_all_times d g h t

/-- the same for any valid graph -/
theorem valid_ingress_all_times (g : Graph) (hv : validGraph g = true) (t : Q) :
    ∀ x ∈ g.demes, ingressOk (ingressAt g x.name t) = true :=
  Proofs.ingress_all_times hv t

/-- pulses are listed oldest first -/
theorem resolve_pulses_sorted (d : Value) (g : Graph) (h : resolve d = .ok g) :
    g.pulses.Pairwise (fun a b => b.time ≤ a.time) :=
  Proofs.resolve_pulses_sorted d g h

/-! ### non-vacuity -/

/-- a three-deme document with global defaults (epoch size, migration rate), a deme that takes
its only epoch from the defaults, a two-epoch deme, an admixed deme, a symmetric and an
asymmetric migration, and two pulses given youngest first -/
def exampleDoc : Value := .obj [
  ("description", .str "example"),
  ("time_units", .str "years"),
  ("generation_time", .num (.fin 25)),
  ("doi", .list [.str "10.1000/example"]),
  ("defaults", .obj [
    ("epoch", .obj [("start_size", .num (.fin 1000))]),
    ("migration", .obj [("rate", .num (.fin (1/1000)))])]),
  ("demes", .list [
    .obj [("name", .str "A")],
    .obj [("name", .str "B"), ("ancestors", .list [.str "A"]), ("start_time", .num (.fin 1000)),
          ("epochs", .list [
            .obj [("end_time", .num (.fin 500)), ("start_size", .num (.fin 100)), ("end_size", .num (.fin 400))],
            .obj [("end_size", .num (.fin 200)), ("size_function", .str "linear")]])],
    .obj [("name", .str "C"), ("ancestors", .list [.str "A", .str "B"]),
          ("proportions", .list [.num (.fin (1/4)), .num (.fin (3/4))]),
          ("start_time", .num (.fin 200))]]),
  ("migrations", .list [
    .obj [("demes", .list [.str "A", .str "B"])],
    .obj [("source", .str "A"), ("dest", .str "C"), ("rate", .num (.fin (1/100))),
          ("start_time", .num (.fin 100))]]),
  ("pulses", .list [
    .obj [("sources", .list [.str "A"]), ("dest", .str "B"), ("time", .num (.fin 300)),
          ("proportions", .list [.num (.fin (1/10))])],
    .obj [("sources", .list [.str "A"]), ("dest", .str "B"), ("time", .num (.fin 600)),
          ("proportions", .list [.num (.fin (1/5))])]])]

/-- the hypothesis of `resolve_valid` is satisfiable: the example document resolves … -/
example : (resolve exampleDoc).toOption.isSome = true := by decide +kernel

/-- … to a graph with three demes, three migrations (the symmetric one expanded) and the two
pulses reordered oldest first -/
example : (resolve exampleDoc).toOption.map
    (fun g => (g.demes.map (·.name), g.migrations.map (fun m => (m.source, m.dest, m.rate)),
      g.pulses.map (·.time)))
    = some (["A", "B", "C"], [("A", "B", 1/1000), ("B", "A", 1/1000), ("A", "C", 1/100)],
        [600, 300]) := by decide +kernel

/-- … and, as the theorem says, the validator accepts it (checked here by evaluation) -/
example : (resolve exampleDoc).toOption.map validGraph = some true := by decide +kernel

/-- non-vacuity of `valid_ingress_all_times` -/
example : validGraph Proofs.exampleGraph = true := by decide +kernel

end Demes.Theorems
