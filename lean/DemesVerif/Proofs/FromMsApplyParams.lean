/-
  C08, link C (movements) — `applyParams` unfolded: which pulses it appends and which demes it
  gives an ancestry; deme names and population numbers; the read-back of a pulse and of an
  ancestry on a sparse row is the corresponding move on the row as a function.
-/
import DemesVerif.Proofs.FromMsApplyInv
import Std.Data.String.ToNat
namespace Demes.Proofs.FromMs
open Demes Demes.Ms Demes.Spec.MsSem Demes.Spec.C08
open Demes.Proofs.RV (bind_ok pure_ok)

/-! ## `applyParams` -/

/-- the positive off-diagonal entries of row `j` with their columns -/
def ancOf (g : GState) (j : Nat) : List (Q × Nat) :=
  ((g.lm.getD j []).zipIdx).filter (fun (po : Q × Nat) => j ≠ po.2 && po.1 > 0)

/-- the moves of population `j` become pulses -/
def emitB (g : GState) (j : Nat) : Bool := !(ancOf g j).isEmpty && !decide (lmGet g.lm j j = 0)

/-- population `j` gets its ancestry from its row -/
def assignB (g : GState) (j : Nat) : Bool := !(ancOf g j).isEmpty && decide (lmGet g.lm j j = 0)

def mkPulse (time : Q) (e : Nat × Nat × Q) : BPulse :=
  { sources := [Ms.demeName e.2.1], dest := Ms.demeName e.1, time := time, proportions := [e.2.2] }

def setAnc (g : GState) (j : Nat) (d : BDeme) : BDeme :=
  { d with ancestors := some ((ancOf g j).map (fun po => Ms.demeName po.2)),
           proportions := some ((ancOf g j).map (·.1)) }

def apStep (time : Q) (g : GState) (s : BState) (jkp : Nat × Nat × Q) : BState :=
  let (j, k, p) := jkp
  let row := g.lm.getD j []
  let anc := (row.zipIdx).filter (fun (po : Q × Nat) => j ≠ po.2 && po.1 > 0)
  if anc.isEmpty then s
  else if lmGet g.lm j j = 0 then
    { s with demes := s.demes.modify j (fun d =>
        { d with ancestors := some (anc.map (fun po => Ms.demeName po.2)), proportions := some (anc.map (·.1)) }) }
  else
    { s with pulses := some (s.pulses.getD [] ++
        [{ sources := [Ms.demeName k], dest := Ms.demeName j, time := time, proportions := [p] }]) }

theorem applyParams_eq (time : Q) (s : BState) (g : GState) :
    applyParams time s g = g.params.foldl (apStep time g) s := rfl

theorem apStep_cases (time : Q) (g : GState) (s : BState) (e : Nat × Nat × Q) :
    apStep time g s e =
      if emitB g e.1 then { s with pulses := some (s.pulses.getD [] ++ [mkPulse time e]) }
      else if assignB g e.1 then { s with demes := s.demes.modify e.1 (setAnc g e.1) }
      else s := by
  obtain ⟨j, k, p⟩ := e
  show (if (ancOf g j).isEmpty then s
        else if lmGet g.lm j j = 0 then { s with demes := s.demes.modify j (setAnc g j) }
        else { s with pulses := some (s.pulses.getD [] ++ [mkPulse time (j, k, p)]) }) = _
  unfold emitB assignB
  by_cases h1 : (ancOf g j).isEmpty = true
  · rw [if_pos h1]; simp [h1]
  · rw [if_neg h1]
    have h1' : (ancOf g j).isEmpty = false := by simpa using h1
    by_cases h2 : lmGet g.lm j j = 0
    · rw [if_pos h2]; simp [h1', h2]
    · rw [if_neg h2]; simp [h1', h2]

theorem setAnc_idem (g : GState) (j : Nat) (d : BDeme) : setAnc g j (setAnc g j d) = setAnc g j d := rfl

/-- what `applyParams` does, entry by entry -/
theorem apFold (time : Q) (g : GState) : ∀ (ps : List (Nat × Nat × Q)) (s : BState),
    (ps.foldl (apStep time g) s).pulses.getD [] = s.pulses.getD [] ++ (ps.filter (fun e => emitB g e.1)).map (mkPulse time)
    ∧ (ps.foldl (apStep time g) s).numDemes = s.numDemes
    ∧ (ps.foldl (apStep time g) s).demes.length = s.demes.length
    ∧ ∀ (j : Nat) (d : BDeme), s.demes[j]? = some d →
        (ps.foldl (apStep time g) s).demes[j]? =
          some (if ps.any (fun e => decide (e.1 = j)) && assignB g j then setAnc g j d else d) := by
  intro ps
  induction ps with
  | nil => intro s; exact ⟨by simp, rfl, rfl, fun j d hd => by simpa using hd⟩
  | cons e ps ih =>
    intro s
    rw [List.foldl_cons]
    obtain ⟨i1, i2, i3, i4⟩ := ih (apStep time g s e)
    rw [apStep_cases] at i1 i2 i3 i4 ⊢
    by_cases he : emitB g e.1 = true
    · simp only [he, if_true] at i1 i2 i3 i4 ⊢
      refine ⟨?_, i2, i3, ?_⟩
      · rw [i1]; simp only [List.filter_cons, he, if_true, List.map_cons, Option.getD_some, List.append_assoc,
          List.singleton_append]
      · intro j d hd
        rw [i4 j d hd]
        have : assignB g e.1 = false := by
          unfold emitB at he; unfold assignB
          simp only [Bool.and_eq_true, Bool.not_eq_true', decide_eq_false_iff_not] at he
          simp [he.2]
        by_cases hj : e.1 = j
        · subst hj; simp [this]
        · rw [List.any_cons, decide_eq_false hj, Bool.false_or]
    · have he' : emitB g e.1 = false := by simpa using he
      simp only [he', Bool.false_eq_true, if_false] at i1 i2 i3 i4 ⊢
      by_cases ha : assignB g e.1 = true
      · simp only [ha, if_true] at i1 i2 i3 i4 ⊢
        refine ⟨?_, i2, by rw [i3]; simp, ?_⟩
        · rw [i1]; simp only [List.filter_cons, he', Bool.false_eq_true, if_false]
        · intro j d hd
          by_cases hj : e.1 = j
          · subst hj
            have h1 : (s.demes.modify e.1 (setAnc g e.1))[e.1]? = some (setAnc g e.1 d) := by
              rw [List.getElem?_modify]; simp [hd]
            rw [i4 e.1 _ h1]
            simp [ha, setAnc_idem]
          · have h1 : (s.demes.modify e.1 (setAnc g e.1))[j]? = some d := by
              rw [List.getElem?_modify]; simp [hj, hd]
            rw [i4 j _ h1]
            rw [List.any_cons, decide_eq_false hj, Bool.false_or]
      · have ha' : assignB g e.1 = false := by simpa using ha
        simp only [ha', Bool.false_eq_true, if_false] at i1 i2 i3 i4 ⊢
        refine ⟨?_, i2, i3, ?_⟩
        · rw [i1]; simp only [List.filter_cons, he', Bool.false_eq_true, if_false]
        · intro j d hd
          rw [i4 j d hd]
          by_cases hj : e.1 = j
          · subst hj; simp [ha']
          · rw [List.any_cons, decide_eq_false hj, Bool.false_or]

/-! ## names and population numbers -/

theorem demeName_inj {j k : Nat} (h : Ms.demeName j = Ms.demeName k) : j = k := by
  unfold Ms.demeName at h
  have h1 := (String.append_right_inj _).mp h
  have h2 : Nat.repr (j + 1) = Nat.repr (k + 1) := h1
  have := Nat.repr_injective h2
  omega

theorem popId_popNamesC (N j : Nat) (hj : j < N) : popId (popNames N) (Ms.demeName j) = .ok (j + 1) := by
  unfold popId popNames
  have : ((List.range N).map Ms.demeName).findIdx? (fun x => decide (x = Ms.demeName j)) = some j := by
    rw [List.findIdx?_eq_some_iff_getElem]
    refine ⟨by simpa using hj, by simp, ?_⟩
    intro k hk
    simp only [List.getElem_map, List.getElem_range, decide_eq_true_eq]
    intro e
    have := demeName_inj e
    omega
  rw [this]
  rfl

/-! ## a pulse and an ancestry on a sparse row -/

/-- the single-source pulse `(src → dest, q)` on a row, as `graphSem` applies it -/
def pulseRow1 (dest src : Nat) (q : Q) (r : Row) : Row :=
  if Row.get r dest = 0 then r
  else (Row.set r dest (Row.get r dest * (1 - (0 + q)))).add src (Row.get r dest * q)

theorem pulseRows_single (dest src : Nat) (q : Q) (L : List (Nat × Row)) :
    pulseRows dest [src] [q] L = L.map (fun ir => (ir.1, pulseRow1 dest src q ir.2)) := by
  unfold pulseRows pulseRow1
  apply List.map_congr_left
  intro ir _
  dsimp only
  split
  · rfl
  · simp [List.zip, List.zipWith, List.foldl]

theorem pulseRow1_get (dest src : Nat) (q : Q) (r : Row) (x : Nat) :
    Row.get (pulseRow1 dest src q r) x = opF (dest, src, q) (fun y => Row.get r y) x := by
  unfold pulseRow1
  split
  · rename_i hz
    rw [opF_noop (f := fun y => Row.get r y) (o := (dest, src, q)) hz]
  · rw [Row.get_add, Row.get_set, Row.get_set]
    unfold opF
    dsimp only
    by_cases h1 : x = src
    · subst h1
      by_cases h2 : x = dest
      · subst h2; simp only [if_true]; ring
      · simp only [if_true, h2, if_false]
    · by_cases h2 : x = dest
      · subst h2; simp only [h1, if_false, if_true]; ring
      · simp only [h1, h2, if_false]

theorem pulseRow1_ok {dest src : Nat} (q : Q) {r : Row} (h : RowOK r) (hd : 1 ≤ dest) (hs : 1 ≤ src) :
    RowOK (pulseRow1 dest src q r) := by
  unfold pulseRow1
  split
  · exact h
  · exact Row.add_ok (Row.set_ok h _ _ hd) _ _ hs

/-- the ancestry of deme `me` on a row, as `graphSem` applies it -/
def bornRow1 (me : Nat) (ancs : List (Nat × Q)) (r : Row) : Row :=
  if Row.get r me = 0 then r
  else ancs.foldl (fun (r' : Row) ap => r'.add ap.1 (Row.get r me * ap.2)) (Row.set r me 0)

theorem bornRows_eq (me : Nat) (ancs : List Nat) (props : List Q) (L : List (Nat × Row)) :
    bornRows me ancs props L = L.map (fun ir => (ir.1, bornRow1 me (ancs.zip props) ir.2)) := by
  unfold bornRows bornRow1
  apply List.map_congr_left
  intro ir _
  dsimp only
  split <;> rfl

theorem wsum_cons (a : Nat) (p : Q) (r : List (Nat × Q)) (k : Nat) :
    wsum ((a, p) :: r) k = (if a = k then p else 0) + wsum r k := rfl

theorem foldl_add_get (m : Q) : ∀ (ancs : List (Nat × Q)) (r : Row) (x : Nat),
    Row.get (ancs.foldl (fun (r' : Row) ap => r'.add ap.1 (m * ap.2)) r) x = Row.get r x + m * wsum ancs x := by
  intro ancs
  induction ancs with
  | nil => intro r x; simp [wsum]
  | cons ap rest ih =>
    intro r x
    obtain ⟨a, p⟩ := ap
    rw [List.foldl_cons, ih, Row.get_add, wsum_cons]
    by_cases h : x = a
    · subst h; simp only [if_true]; ring
    · have : ¬ a = x := fun e => h e.symm
      simp only [h, this, if_false]; ring

theorem foldl_add_ok (m : Q) : ∀ (ancs : List (Nat × Q)) (r : Row), RowOK r → (∀ ap ∈ ancs, 1 ≤ ap.1) →
    RowOK (ancs.foldl (fun (r' : Row) ap => r'.add ap.1 (m * ap.2)) r) := by
  intro ancs
  induction ancs with
  | nil => intro r h _; exact h
  | cons ap rest ih =>
    intro r h hp
    rw [List.foldl_cons]
    exact ih _ (Row.add_ok h _ _ (hp ap (List.mem_cons_self ..))) (fun ap' h' => hp ap' (List.mem_cons_of_mem _ h'))

theorem bornRow1_get (me : Nat) (ancs : List (Nat × Q)) (r : Row) (x : Nat) :
    Row.get (bornRow1 me ancs r) x = bornF me ancs (fun y => Row.get r y) x := by
  unfold bornRow1 bornF
  dsimp only
  split
  · rfl
  · rw [foldl_add_get, Row.get_set]

theorem bornRow1_ok {me : Nat} {ancs : List (Nat × Q)} {r : Row} (h : RowOK r) (hm : 1 ≤ me)
    (hp : ∀ ap ∈ ancs, 1 ≤ ap.1) : RowOK (bornRow1 me ancs r) := by
  unfold bornRow1
  split
  · exact h
  · exact foldl_add_ok _ ancs _ (Row.set_ok h _ _ hm) hp

end Demes.Proofs.FromMs
