/-
  C08, stage `build_sizes` — the simulation between the event loop of `build_graph` and the ms
  interpreter, as far as populations, their liveness and their size functions are concerned.
-/
import DemesVerif.Proofs.FromMsSizes
import DemesVerif.Proofs.FromMsSpecStep
namespace Demes.Proofs.FromMs
open Demes Demes.Ms Demes.Spec.MsSem Demes.Spec.C08
open Demes.Proofs.RV (bind_ok pure_ok)

/-- the Builder state and the interpreter state describe the same populations at time `T`:
as many; deme `j` and population `j+1` have the same size function and growth rate; a deme is
in `joined` exactly when the population has been joined -/
structure SizeSim (T : Q) (s : BState) (σ : St) : Prop where
  len : s.demes.length = σ.pops.length
  num : s.numDemes = σ.pops.length
  jlt : ∀ j ∈ s.joined, j < s.numDemes
  rel : ∀ (j : Nat) (d : BDeme) (p : Pop), s.demes[j]? = some d → σ.pops[j]? = some p →
          PopRel d p ∧ SegsBelow p ∧ p.t0 ≤ T ∧ s.joined.contains j = !alive p

theorem SizeSim.mono {T T' : Q} {s : BState} {σ : St} (h : SizeSim T s σ) (hT : T ≤ T') : SizeSim T' s σ :=
  ⟨h.len, h.num, h.jlt, fun j d p hd hp => by
    obtain ⟨a, b, c, e⟩ := h.rel j d p hd hp
    exact ⟨a, b, by grind, e⟩⟩

theorem SizeSim.congr {T : Q} {s s' : BState} {σ σ' : St} (h : SizeSim T s σ)
    (hd : s'.demes = s.demes) (hn : s'.numDemes = s.numDemes) (hj : s'.joined = s.joined)
    (hp : σ'.pops = σ.pops) : SizeSim T s' σ' := by
  refine ⟨by rw [hd, hp]; exact h.len, by rw [hn, hp]; exact h.num, by rw [hj, hn]; exact h.jlt, ?_⟩
  intro j d p hd' hp'
  rw [hd] at hd'
  rw [hp] at hp'
  rw [hj]
  exact h.rel j d p hd' hp'

/-- what an update of one population must satisfy -/
def UpdOK (T' : Q) (f : BDeme → Except Err BDeme) (g : Pop → Pop) : Prop :=
  ∀ d d' p, f d = .ok d' → PopRel d p → SegsBelow p → p.t0 ≤ T' →
    PopRel d' (g p) ∧ SegsBelow (g p) ∧ (g p).t0 ≤ T' ∧ alive (g p) = alive p

theorem updGrowth_updOK (gr T' : Q) : UpdOK T' (updGrowth gr T') (fun p => p.change T' none (some gr)) := by
  intro d d' p hf hr hb hle
  obtain ⟨c1, _, _, _, c5, c6, _⟩ := change_size p T' none (some gr) hb hle
  refine ⟨updGrowth_rel hf hr hb hle, c6, by rw [c1], ?_⟩
  unfold alive; rw [c5]

theorem updSize_updOK (size : Sz) (reset : Bool) (T' : Q) :
    UpdOK T' (updSize size reset T') (fun p => p.change T' (some size) (if reset then some 0 else none)) := by
  intro d d' p hf hr hb hle
  obtain ⟨c1, _, _, _, c5, c6, _⟩ := change_size p T' (some size) (if reset then some 0 else none) hb hle
  refine ⟨updSize_rel hf hr hb hle, c6, by rw [c1], ?_⟩
  unfold alive; rw [c5]

/-- an update of every live population -/
theorem sim_forLive {T T' : Q} {s s' : BState} {σ σ' : St} {f : BDeme → Except Err BDeme} {g : Pop → Pop}
    (h : SizeSim T s σ) (hT : T ≤ T') (hu : UpdOK T' f g) (hf : forLiveDemes s f = .ok s')
    (hp : σ'.pops = σ.pops.map (fun p => if alive p then g p else p)) : SizeSim T' s' σ' := by
  obtain ⟨he, hl, hi⟩ := forLiveDemes_ok hf
  have hn : s'.numDemes = s.numDemes := by rw [he]
  have hj : s'.joined = s.joined := by rw [he]
  refine ⟨by rw [hl, hp, List.length_map]; exact h.len, by rw [hn, hp, List.length_map]; exact h.num,
    by rw [hj, hn]; exact h.jlt, ?_⟩
  intro j d' p' hd' hp'
  rw [hp, List.getElem?_map] at hp'
  cases hpj : σ.pops[j]? with
  | none => rw [hpj] at hp'; cases hp'
  | some p =>
    rw [hpj] at hp'
    simp only [Option.map_some, Option.some.injEq] at hp'
    have hjl : j < s.demes.length := by
      rw [h.len]
      exact (List.getElem?_eq_some_iff.mp hpj).1
    have hdj : s.demes[j]? = some s.demes[j] := List.getElem?_eq_getElem hjl
    obtain ⟨d'', hd'', hc⟩ := hi j _ hdj
    rw [hd'] at hd''
    cases hd''
    obtain ⟨r1, r2, r3, r4⟩ := h.rel j _ p hdj hpj
    rw [hj]
    by_cases ha : alive p = true
    · rw [if_pos ha] at hp'
      subst hp'
      have hnj : s.joined.contains j = false := by rw [r4, ha]; rfl
      rw [hnj] at hc
      simp only [Bool.false_eq_true, if_false] at hc
      obtain ⟨u1, u2, u3, u4⟩ := hu _ _ p hc r1 r2 (by grind)
      exact ⟨u1, u2, u3, by rw [u4]; exact r4⟩
    · rw [if_neg ha] at hp'
      subst hp'
      have hnj : s.joined.contains j = true := by
        rw [r4]; simp only [Bool.not_eq_true] at ha; rw [ha]; rfl
      rw [hnj] at hc
      simp only [if_true] at hc
      subst hc
      exact ⟨r1, r2, by grind, r4⟩

/-- an update of one live population -/
theorem sim_modify {T T' : Q} {s s' : BState} {σ σ' : St} {f : BDeme → Except Err BDeme} {g : Pop → Pop}
    {pid : Nat} {p : Pop}
    (h : SizeSim T s σ) (hT : T ≤ T') (hu : UpdOK T' f g) (hf : modifyDeme s pid f = .ok s')
    (hpp : σ.pops[pid]? = some p) (hp : σ'.pops = σ.pops.set pid (g p)) : SizeSim T' s' σ' := by
  obtain ⟨d, d', hd, hfd, rfl⟩ := modifyDeme_ok hf
  refine ⟨by simp [hp, h.len], by simp [hp, h.num], h.jlt, ?_⟩
  intro j e q he hq
  simp only [List.getElem?_set] at he
  rw [hp, List.getElem?_set] at hq
  by_cases hj : pid = j
  · subst hj
    have hl1 : pid < s.demes.length := (List.getElem?_eq_some_iff.mp hd).1
    have hl2 : pid < σ.pops.length := (List.getElem?_eq_some_iff.mp hpp).1
    simp only [if_true, hl1, hl2, Option.some.injEq] at he hq
    subst he hq
    obtain ⟨r1, r2, r3, r4⟩ := h.rel pid d p hd hpp
    obtain ⟨u1, u2, u3, u4⟩ := hu _ _ p hfd r1 r2 (by grind)
    exact ⟨u1, u2, u3, by rw [u4]; exact r4⟩
  · simp only [hj, if_false] at he hq
    obtain ⟨r1, r2, r3, r4⟩ := h.rel j e q he hq
    exact ⟨r1, r2, by grind, r4⟩

/-! ## `-ej` and `-es` -/

theorem joinedPop_size (p : Pop) (T : Q) (hb : SegsBelow p) (hle : p.t0 ≤ T) :
    (∀ t, popSizeAt (joinedPop p T) t = popSizeAt p t) ∧ (joinedPop p T).growth = p.growth
    ∧ SegsBelow (joinedPop p T) ∧ (joinedPop p T).t0 = T ∧ alive (joinedPop p T) = false := by
  obtain ⟨c1, c2, c3, _, _, c6, c7⟩ := change_size p T none none hb hle
  have hsame : ∀ t, popSizeAt (joinedPop p T) t = popSizeAt (p.change T none none) t := by
    intro t
    unfold popSizeAt joinedPop Pop.change
    by_cases hlt : p.t0 < T
    · simp only [hlt, if_true]
      rfl
    · have he : p.t0 = T := by grind
      simp only [hlt, if_false]
      unfold Pop.sizeAt
      dsimp only [Option.getD]
      rw [he, mulExp_neg_zero]
  have hseg : ∀ s ∈ (joinedPop p T).segs, s ∈ (p.change T none none).segs := by
    intro s hs
    unfold joinedPop at hs
    unfold Pop.change
    by_cases hlt : p.t0 < T
    · simp only [hlt, if_true] at hs ⊢; exact hs
    · simp only [hlt, if_false] at hs ⊢; exact hs
  refine ⟨?_, rfl, ?_, rfl, rfl⟩
  · intro t
    rw [hsame t, c7 t]
    dsimp only [Option.getD]
    split
    · rename_i ht
      rw [sizeAt_rebase, popSizeAt_of_le (by grind)]
    · rfl
  · intro s hs
    have := c6 s (hseg s hs)
    rw [c1] at this
    exact this

theorem sim_join {T T' : Q} {s s1 s' : BState} {σ σ' : St} {popI popJ : Nat} {q : Pop}
    (h : SizeSim T s σ) (hT : T ≤ T') (hlt : popI < s.numDemes)
    (hf : modifyDeme s popI (joinDeme T' popJ) = .ok s1)
    (hs' : s'.demes = s1.demes ∧ s'.numDemes = s1.numDemes ∧ s'.joined = s1.joined ++ [popI])
    (hq : σ.pops[popI]? = some q)
    (hp : σ'.pops = σ.pops.set popI (joinedPop q T')) : SizeSim T' s' σ' := by
  obtain ⟨d, d', hd, hfd, rfl⟩ := modifyDeme_ok hf
  obtain ⟨e1, e2, e3⟩ := hs'
  rw [joinDeme_ok hfd] at e1
  dsimp only at e1 e2 e3
  refine ⟨by simp [e1, hp, h.len], by simp [e2, hp, h.num], ?_, ?_⟩
  · intro j hj
    rw [e3] at hj
    rw [e2]
    rcases List.mem_append.mp hj with hj | hj
    · exact h.jlt j hj
    · simp only [List.mem_singleton] at hj; rw [hj]; exact hlt
  · intro j e p he hpj
    rw [e1, List.getElem?_set] at he
    rw [hp, List.getElem?_set] at hpj
    have hcont : (s'.joined).contains j = (s.joined.contains j || decide (j = popI)) := by
      rw [e3]; simp
    rw [hcont]
    by_cases hj : popI = j
    · subst hj
      have hl1 : popI < s.demes.length := (List.getElem?_eq_some_iff.mp hd).1
      have hl2 : popI < σ.pops.length := (List.getElem?_eq_some_iff.mp hq).1
      simp only [if_true, hl1, hl2, Option.some.injEq] at he hpj
      subst he hpj
      obtain ⟨r1, r2, r3, r4⟩ := h.rel popI d q hd hq
      obtain ⟨j1, j2, j3, j4, j5⟩ := joinedPop_size q T' r2 (by grind)
      refine ⟨⟨fun t => ?_, ?_, rfl⟩, j3, by rw [j4], by rw [j5]; simp⟩
      · rw [j1 t]; exact r1.1 t
      · rw [j2]; exact r1.2.1
    · simp only [hj, if_false] at he hpj
      obtain ⟨r1, r2, r3, r4⟩ := h.rel j e p he hpj
      refine ⟨r1, r2, by grind, ?_⟩
      have : decide (j = popI) = false := by simp; exact fun e => hj e.symm
      rw [this, Bool.or_false]; exact r4

theorem newDeme_rel (N0 T : Q) (k : Nat) : PopRel (newDeme N0 T k) (newPop N0 T) := by
  refine ⟨?_, rfl, rfl⟩
  intro t
  unfold demeSizeAt popSizeAt newDeme newPop Pop.sizeAt
  dsimp only
  split
  · rfl
  · rfl

theorem sim_split {T T' N0 : Q} {s : BState} {σ σ' : St}
    (h : SizeSim T s σ) (hT : T ≤ T') (hp : σ'.pops = σ.pops ++ [newPop N0 T']) :
    SizeSim T' (splitState N0 T' s) σ' := by
  refine ⟨by simp [splitState, hp, h.len], by simp [splitState, hp, h.num], ?_, ?_⟩
  · intro j hj
    have := h.jlt j hj
    show j < s.numDemes + 1
    omega
  · intro j e p he hpj
    show PopRel e p ∧ SegsBelow p ∧ p.t0 ≤ T' ∧ s.joined.contains j = !alive p
    have he' : (s.demes ++ [newDeme N0 T' s.numDemes])[j]? = some e := he
    rw [hp] at hpj
    by_cases hj : j < s.demes.length
    · rw [List.getElem?_append_left hj] at he'
      rw [List.getElem?_append_left (by rw [← h.len]; exact hj)] at hpj
      obtain ⟨r1, r2, r3, r4⟩ := h.rel j e p he' hpj
      exact ⟨r1, r2, by grind, r4⟩
    · have hj' : s.demes.length ≤ j := by omega
      rw [List.getElem?_append_right hj'] at he'
      rw [List.getElem?_append_right (by rw [← h.len]; exact hj')] at hpj
      have hz : j - s.demes.length = 0 := by
        by_contra hne
        rw [List.getElem?_eq_none_iff.mpr (by simp; omega)] at he'
        cases he'
      rw [hz] at he'
      rw [← h.len, hz] at hpj
      simp only [List.getElem?_cons_zero, Option.some.injEq] at he' hpj
      subst he' hpj
      refine ⟨newDeme_rel N0 T' _, (fun sg (hs : sg ∈ ([] : List Seg)) => by cases hs), Rat.le_refl, ?_⟩
      have hjn : j = s.numDemes := by rw [h.num, ← h.len]; omega
      have : s.joined.contains j = false := by
        rw [List.contains_eq_mem]
        simp only [decide_eq_false_iff_not]
        intro hm
        have := h.jlt j hm
        omega
      rw [this]; rfl

/-! ## which ms option a record stands for -/

theorem cmdOf_growthAll {o : String} {t alpha : Num} {c : Cmd} (h : cmdOf (.growthRateChange o t alpha) = some c) :
    ∃ tq a, t = .fin tq ∧ alpha = .fin a ∧ c = .setGrowthAll tq a := by
  cases t <;> cases alpha <;> simp only [cmdOf] at h <;> first | cases h | skip
  exact ⟨_, _, rfl, rfl, rfl⟩

theorem cmdOf_growth {o : String} {t alpha : Num} {i : Int} {c : Cmd}
    (h : cmdOf (.popGrowthRateChange o t i alpha) = some c) :
    ∃ tq a, t = .fin tq ∧ alpha = .fin a ∧ c = .setGrowth tq i.toNat a := by
  cases t <;> cases alpha <;> simp only [cmdOf] at h <;> first | cases h | skip
  exact ⟨_, _, rfl, rfl, rfl⟩

theorem cmdOf_sizeAll {o : String} {t x : Num} {c : Cmd} (h : cmdOf (.sizeChange o t x) = some c) :
    ∃ tq a, t = .fin tq ∧ x = .fin a ∧ c = .setSizeAll tq a := by
  cases t <;> cases x <;> simp only [cmdOf] at h <;> first | cases h | skip
  exact ⟨_, _, rfl, rfl, rfl⟩

theorem cmdOf_size {o : String} {t x : Num} {i : Int} {c : Cmd} (h : cmdOf (.popSizeChange o t i x) = some c) :
    ∃ tq a, t = .fin tq ∧ x = .fin a ∧ c = .setSize tq i.toNat a (decide (o = "-en")) := by
  cases t <;> cases x <;> simp only [cmdOf] at h <;> first | cases h | skip
  exact ⟨_, _, rfl, rfl, rfl⟩

theorem cmdOf_migAll {o : String} {t x : Num} {c : Cmd} (h : cmdOf (.migRateChange o t x) = some c) :
    ∃ tq a, t = .fin tq ∧ x = .fin a ∧ c = .setMigAll tq a := by
  cases t <;> cases x <;> simp only [cmdOf] at h <;> first | cases h | skip
  exact ⟨_, _, rfl, rfl, rfl⟩

theorem cmdOf_migEntry {o : String} {t r : Num} {i j : Int} {c : Cmd} (h : cmdOf (.migEntryChange o t i j r) = some c) :
    ∃ tq a, t = .fin tq ∧ r = .fin a ∧ c = .setMigEntry tq i.toNat j.toNat a := by
  cases t <;> cases r <;> simp only [cmdOf] at h <;> first | cases h | skip
  exact ⟨_, _, rfl, rfl, rfl⟩

theorem cmdOf_migMatrix {o : String} {t : Num} {npop : Int} {mm : List String} {c : Cmd}
    (h : cmdOf (.migMatrixChange o t npop mm) = some c) :
    ∃ tq, t = .fin tq ∧ c = .setMigMatrix tq (if o = "-ma" then none else some npop.toNat) mm := by
  cases t <;> simp only [cmdOf] at h <;> first | cases h | skip
  exact ⟨_, rfl, rfl⟩

theorem cmdOf_split {o : String} {t p : Num} {i : Int} {c : Cmd} (h : cmdOf (.split o t i p) = some c) :
    ∃ tq a, t = .fin tq ∧ p = .fin a ∧ c = .split tq i.toNat a := by
  cases t <;> cases p <;> simp only [cmdOf] at h <;> first | cases h | skip
  exact ⟨_, _, rfl, rfl, rfl⟩

theorem cmdOf_join {o : String} {t : Num} {i j : Int} {c : Cmd} (h : cmdOf (.join o t i j) = some c) :
    ∃ tq, t = .fin tq ∧ c = .join tq i.toNat j.toNat := by
  cases t <;> simp only [cmdOf] at h <;> first | cases h | skip
  exact ⟨_, rfl, rfl⟩

/-! ## one event -/

theorem setPop_pops (σ : St) (i : Nat) (p : Pop) : (σ.setPop i p).pops = σ.pops.set (i - 1) p := rfl

/-- **one event of the loop**: if the Builder and the interpreter are in corresponding states
and both accept corresponding options at a time `T' ≥ T`, they are in corresponding states
afterwards -/
theorem stepEvent_sizeSim {N0 T T' : Q} {s s' : BState} {g g' : GState} {σ σ' : St}
    {L L' : List (Nat × Row)} {ev : Event Num} {c : Cmd}
    (h : SizeSim T s σ) (hT : T ≤ T') (hc : cmdOf ev = some c) (hT' : T' = 4 * N0 * c.t)
    (hm : stepEvent N0 T' (s, g) ev = .ok (s', g')) (hs : Spec.MsSem.step N0 (σ, L) c = .ok (σ', L')) :
    SizeSim T' s' σ' := by
  cases ev with
  | growthRateChange o t alpha =>
    obtain ⟨tq, a, rfl, rfl, rfl⟩ := cmdOf_growthAll hc
    rw [stepEvent_growthAll] at hm
    obtain ⟨a', ha', hm⟩ := bind_ok.1 hm
    obtain ⟨s1, h1, hm⟩ := bind_ok.1 hm
    cases hm
    cases finArg_ok ha'
    rw [step_setGrowthAll, spure_ok] at hs
    cases hs
    subst hT'
    exact sim_forLive h hT (updGrowth_updOK _ _) h1 rfl
  | popGrowthRateChange o t i alpha =>
    obtain ⟨tq, a, rfl, rfl, rfl⟩ := cmdOf_growth hc
    rw [stepEvent_growth] at hm
    obtain ⟨pid, hpid, hm⟩ := bind_ok.1 hm
    obtain ⟨a', ha', hm⟩ := bind_ok.1 hm
    obtain ⟨s1, h1, hm⟩ := bind_ok.1 hm
    cases hm
    cases finArg_ok ha'
    rw [step_setGrowth] at hs
    obtain ⟨p, hp, hs⟩ := sbind_ok.1 hs
    rw [spure_ok] at hs
    cases hs
    subst hT'
    obtain ⟨p1, p2, p3⟩ := pop_ok hp
    obtain ⟨q1, q2, q3, q4, q5⟩ := convertPopulationId_ok hpid
    have hidx : i.toNat - 1 = pid := by omega
    rw [hidx] at p2
    exact sim_modify h hT (updGrowth_updOK _ _) h1 p2 (by rw [setPop_pops, hidx]; rfl)
  | sizeChange o t x =>
    obtain ⟨tq, a, rfl, rfl, rfl⟩ := cmdOf_sizeAll hc
    rw [stepEvent_sizeAll] at hm
    obtain ⟨a', ha', hm⟩ := bind_ok.1 hm
    obtain ⟨s1, h1, hm⟩ := bind_ok.1 hm
    cases hm
    cases finArg_ok ha'
    rw [step_setSizeAll, spure_ok] at hs
    cases hs
    subst hT'
    exact sim_forLive h hT (updSize_updOK _ true _) h1 rfl
  | popSizeChange o t i x =>
    obtain ⟨tq, a, rfl, rfl, rfl⟩ := cmdOf_size hc
    rw [stepEvent_size] at hm
    obtain ⟨pid, hpid, hm⟩ := bind_ok.1 hm
    obtain ⟨a', ha', hm⟩ := bind_ok.1 hm
    obtain ⟨s1, h1, hm⟩ := bind_ok.1 hm
    cases hm
    cases finArg_ok ha'
    rw [step_setSize] at hs
    obtain ⟨p, hp, hs⟩ := sbind_ok.1 hs
    rw [spure_ok] at hs
    cases hs
    subst hT'
    obtain ⟨p1, p2, p3⟩ := pop_ok hp
    obtain ⟨q1, q2, q3, q4, q5⟩ := convertPopulationId_ok hpid
    have hidx : i.toNat - 1 = pid := by omega
    rw [hidx] at p2
    exact sim_modify h hT (updSize_updOK _ _ _) h1 p2 (by rw [setPop_pops, hidx]; rfl)
  | migRateChange o t x =>
    obtain ⟨tq, a, rfl, rfl, rfl⟩ := cmdOf_migAll hc
    rw [stepEvent_migAll] at hm
    cases hm
    obtain ⟨e1, _, _⟩ := step_mig_pops (c := .setMigAll tq a) trivial hs
    obtain ⟨f1, f2, f3, _⟩ := migAllState_frame s T' (.fin a)
    exact (h.mono hT).congr f1 f2 f3 e1
  | migEntryChange o t i j rate =>
    obtain ⟨tq, a, rfl, rfl, rfl⟩ := cmdOf_migEntry hc
    rw [stepEvent_migEntry] at hm
    obtain ⟨pi, _, hm⟩ := bind_ok.1 hm
    obtain ⟨pj, _, hm⟩ := bind_ok.1 hm
    split at hm
    · exact (RV.valueErr_bind_ok.1 hm).elim
    · cases hm
      obtain ⟨e1, _, _⟩ := step_mig_pops (c := .setMigEntry tq i.toNat j.toNat a) trivial hs
      obtain ⟨f1, f2, f3, _⟩ := migEntryState_frame s T' pi pj (.fin a)
      exact (h.mono hT).congr f1 f2 f3 e1
  | migMatrixChange o t npop mm =>
    obtain ⟨tq, rfl, rfl⟩ := cmdOf_migMatrix hc
    rw [stepEvent_migMatrix] at hm
    dsimp only at hm
    generalize (if o = "-ma" then (s.numDemes : Int) else npop) = np at hm
    split at hm
    · exact (RV.valueErr_bind_ok.1 hm).elim
    · obtain ⟨m, _, hm⟩ := bind_ok.1 hm
      cases hm
      obtain ⟨e1, _, _⟩ := step_mig_pops (c := .setMigMatrix tq _ mm) trivial hs
      obtain ⟨f1, f2, f3, _⟩ := migMatrixState_frame s T' m
      exact (h.mono hT).congr f1 f2 f3 e1
  | join o t i j =>
    obtain ⟨tq, rfl, rfl⟩ := cmdOf_join hc
    rw [stepEvent_join] at hm
    obtain ⟨popI, hI, hm⟩ := bind_ok.1 hm
    obtain ⟨popJ, hJ, hm⟩ := bind_ok.1 hm
    obtain ⟨s1, h1, hm⟩ := bind_ok.1 hm
    cases hm
    subst hT'
    obtain ⟨q, hq, _, _, hpops, _, _⟩ := step_join_ok hs
    obtain ⟨p1, p2, p3⟩ := pop_ok hq
    obtain ⟨q1, q2, q3, q4, q5⟩ := convertPopulationId_ok hI
    have hidx : i.toNat - 1 = popI := by omega
    rw [hidx] at p2 hpops
    obtain ⟨f1, f2, f3, _⟩ := joinMatrix_frame s1 (4 * N0 * (Cmd.join tq i.toNat j.toNat).t) popI
    exact sim_join h hT q4 h1 ⟨f1, f2, by show _ ++ _ = _; rw [f3]⟩ p2 hpops
  | split o t i p =>
    obtain ⟨tq, a, rfl, rfl, rfl⟩ := cmdOf_split hc
    rw [stepEvent_split] at hm
    obtain ⟨pid, _, hm⟩ := bind_ok.1 hm
    obtain ⟨a', _, hm⟩ := bind_ok.1 hm
    split at hm
    · exact (assertionErr_bind_ok.1 hm).elim
    · cases hm
      subst hT'
      obtain ⟨_, hpops, _, _⟩ := step_split_ok hs
      exact sim_split h hT hpops

end Demes.Proofs.FromMs
