/-
  Translator tie of the five read accessors of demes.py (C01, C15): `Epoch.time_span`, `Deme.end_time`,
  `Deme.time_span`, `Graph.__getitem__`, `Graph.__contains__`.

  `Generated/Accessors.lean` holds, regenerated on every run from the alpha-normalised tree: per accessor its
  decorators, parameters and the statements of its body (docstring dropped) as text, how the attributes it reads
  are declared in their classes, and the returned expression translated into a Lean function of those
  attributes (IEEE `-`, Python list / dict indexing, `in`; an expression that can raise has type `Option`).
  Here the texts are pinned and the Model's accessors (`Model/Accessors.lean`) are proved to be the meaning of the
  translated expressions, for ALL epochs / demes / graphs / names.  `self.epochs[0]` for `[-1]`, another attribute,
  `+` for `-`, a lookup in another container, a new statement (a cache, a `try`), a changed decorator or a field
  turned into a property make a named theorem fail to compile; an expression outside the translator's fragment
  leaves its definition out, with the same effect.
-/
import DemesVerif.Proofs.AccessorsTie
namespace Demes.Tables
open Demes

/-- the five bodies: a single `return` each, `@property` on the three time accessors, the two graph methods take
one name -/
theorem accessors_bodies : Generated.accessorBodies = [
    ("Epoch.time_span", ["property"], ["self"], ["return self.start_time - self.end_time"]),
    ("Deme.end_time", ["property"], ["self"], ["return self.epochs[-1].end_time"]),
    ("Deme.time_span", ["property"], ["self"], ["return self.start_time - self.end_time"]),
    ("Graph.__getitem__", [], ["self", "deme_name: Name"], ["return self._deme_map[deme_name]"]),
    ("Graph.__contains__", [], ["self", "deme_name: Name"], ["return deme_name in self._deme_map"])] := by
  decide +kernel

/-- the attributes they read are plain fields: times, the list of epochs, the name ↦ deme dictionary -/
theorem accessors_fields : Generated.accessorFields = [
    ("Epoch.start_time", "field: Time"), ("Epoch.end_time", "field: Time"), ("Deme.start_time", "field: Time"),
    ("Deme.epochs", "field: List[Epoch]"), ("Graph.demes", "field: List[Deme]"),
    ("Graph._deme_map", "field: Dict[Name, Deme]")] := by decide +kernel

/-- `Epoch.time_span`: the source's `self.start_time - self.end_time` (IEEE) on the epoch's fields is the Model's
`Epoch.timeSpan` -/
theorem accessors_tie_epoch_time_span (e : Epoch) :
    Generated.epoch_time_span (Num.ofETime e.startTime) (Num.fin e.endTime) = Num.ofETime e.timeSpan :=
  Proofs.Accessors.gen_epoch_time_span e

/-- `Deme.end_time`: the source's `self.epochs[-1].end_time` is the Model's `Deme.endTimeAcc` — the same value when
it returns, and it raises (`none`) exactly when the Model's raises -/
theorem accessors_tie_deme_end_time (d : Deme) :
    Generated.deme_end_time (fun e : Epoch => Num.fin e.endTime) d.epochs = d.endTimeAcc.toOption.map Num.fin :=
  Proofs.Accessors.gen_deme_end_time d

/-- … and the exception is the `IndexError` of the empty list -/
theorem accessors_deme_end_time_raises (d : Deme) :
    Generated.deme_end_time (fun e : Epoch => Num.fin e.endTime) d.epochs = none ↔
      d.endTimeAcc = indexErr "list index out of range" := by
  rw [Proofs.Accessors.gen_deme_end_time]
  unfold Deme.endTimeAcc
  cases d.epochs.getLast? with
  | none => exact ⟨fun _ => rfl, fun _ => rfl⟩
  | some l =>
    exact ⟨fun h => (by simp [pure, Except.pure, Except.toOption] at h), fun h => (by simp [pure, Except.pure, indexErr] at h)⟩

/-- `Deme.time_span`: the source's `self.start_time - self.end_time`, the second operand being the property above, is
the Model's `Deme.timeSpan` -/
theorem accessors_tie_deme_time_span (d : Deme) :
    Generated.deme_time_span (Num.ofETime d.startTime)
        (Generated.deme_end_time (fun e : Epoch => Num.fin e.endTime) d.epochs)
      = d.timeSpan.toOption.map Num.ofETime :=
  Proofs.Accessors.gen_deme_time_span d

/-- `Graph.__getitem__`: the source's `self._deme_map[deme_name]` on the Model's index (name ↦ position of the deme
object) is the Model's index lookup, and `Graph.getItem` is that lookup followed by the read of the deme at the
position found, `KeyError(deme_name)` when the source's expression raises -/
theorem accessors_tie_graph_getitem (g : Graph) (n : String) :
    Generated.graph_getitem g.index n = g.indexLookup n
    ∧ Graph.getItem g n =
        (match Generated.graph_getitem g.index n with
         | none => keyErr n
         | some i =>
           match g.demes[i]? with
           | some d => .ok d
           | none => .error ⟨.other, "name index points outside the deme list"⟩) :=
  ⟨Proofs.Accessors.gen_graph_getitem g n, Proofs.Accessors.getItem_of_gen g n⟩

/-- `Graph.__contains__`: the source's `deme_name in self._deme_map` is the Model's `Graph.contains` -/
theorem accessors_tie_graph_contains (g : Graph) (n : String) :
    Generated.graph_contains n g.index = Graph.contains g n :=
  Proofs.Accessors.gen_graph_contains g n

/-! ### non-vacuity: the generated expressions distinguish what they should -/

section
example : Generated.epoch_time_span .pinf (.fin 5) = .pinf ∧ Generated.epoch_time_span (.fin 7) (.fin 5) = .fin 2 := by
  decide +kernel
example : Generated.deme_end_time (fun q : Q => Num.fin q) [30, 20, 5] = some (.fin 5)
    ∧ Generated.deme_end_time (fun q : Q => Num.fin q) [] = none
    ∧ Generated.deme_time_span (.fin 40) (some (.fin 5)) = some (.fin 35)
    ∧ Generated.deme_time_span (.fin 40) none = none := by decide +kernel
example : Generated.graph_getitem [("A", 0), ("B", 1)] "B" = some 1
    ∧ Generated.graph_getitem [("A", 0), ("B", 1)] "" = none
    ∧ Generated.graph_contains "B" [("A", 0), ("B", 1)] = true
    ∧ Generated.graph_contains "b" [("A", 0), ("B", 1)] = false := by decide +kernel
end

end Demes.Tables
