"""Boundary-directed generator of Demes documents.

A *semantic model* is generated first (every value explicit, all times from a small grid so
that coincidences are the norm), together with the fully-resolved dictionary the
specification prescribes for it (`expected`).  `spell` then writes the model as a
human-data-model document in one of many equivalent spellings (fields omitted, moved into
top-level / deme-level defaults, ints vs floats).
"""
from __future__ import annotations

import copy
import itertools
import math
import random
from fractions import Fraction

INF = math.inf
SIZES = [50, 100, 200, 400, 1000, 25.5]
RATES = [Fraction(1, 64), Fraction(1, 32), Fraction(1, 16), Fraction(1, 8)]
BIG_RATES = [Fraction(1, 4), Fraction(1, 2), 1, 0]
PROPS = [Fraction(1, 8), Fraction(1, 4), Fraction(1, 2)]
ANC_PROPS = {
    1: [[1]],
    2: [[Fraction(1, 2), Fraction(1, 2)], [Fraction(1, 4), Fraction(3, 4)], [Fraction(7, 8), Fraction(1, 8)]],
    3: [[Fraction(1, 4), Fraction(1, 4), Fraction(1, 2)], [Fraction(1, 8), Fraction(1, 8), Fraction(3, 4)]],
    # (4 and 5 ancestors: lists whose conditional fractions p[k] / sum(p[k:]), which to_ms prints, are dyadic, so that
    #  the exact comparison of lineage movements stays exact)
    4: [[Fraction(1, 2), Fraction(1, 4), Fraction(1, 8), Fraction(1, 8)], [Fraction(3, 4), Fraction(1, 8), Fraction(1, 16), Fraction(1, 16)]],
    5: [[Fraction(1, 2), Fraction(1, 4), Fraction(1, 8), Fraction(1, 16), Fraction(1, 16)]],
}
NAMES = ["A", "B", "C", "D", "E", "F", "G", "H", "pop_1", "_x", "Z9", "deme1",
         # valid identifiers beyond ASCII (XID_Start / XID_Continue; Model/Ident.lean): Greek, CJK, a combining accent,
         # an Arabic-Indic digit and the middle dot in continuing position
         "π", "Δx", "名前", "e\u0301t", "x٣", "a·b"]
DESCRIPTIONS = ["", "", "a deme", "x: y", "two\nlines", "café"]


def fl(x):
    """numbers handed to the library are ordinary floats/ints"""
    if isinstance(x, Fraction):
        return int(x) if x.denominator == 1 else float(x)
    return x


class Model:
    """explicit semantic model"""

    def __init__(self):
        self.header = {}
        self.demes = []  # dict(name, description, start_time, end_time, ancestors, proportions, epochs)
        self.migrations = []  # authored form
        self.pulses = []

    def deme(self, name):
        for d in self.demes:
            if d["name"] == name:
                return d
        raise KeyError(name)


def gen_model(rng: random.Random, *, max_demes=6, time_scale=8, gen_times=(1, 2, 4, 0.5),
              ms_expressible=False, allow_f2=True, near=0.08) -> Model:
    m = Model()
    units = rng.choice(["generations", "generations", "years", "weeks"])
    m.header["time_units"] = units
    if units == "generations":
        m.header["generation_time"] = rng.choice([None, None, 1])
    else:
        m.header["generation_time"] = rng.choice(list(gen_times))
    m.header["description"] = rng.choice(DESCRIPTIONS)
    m.header["doi"] = rng.choice([[], [], ["10.1000/xyz"], ["a", "b"]])
    m.header["metadata"] = rng.choice(
        [{}, {}, {"k": 1}, {"a": {"b": [1, 2.5, "s", None]}, "c": "Infinity"}, {"flag": True, "n": None}, {"start_time": "Infinity", "demes": [{"start_time": "Infinity", "name": "A"}]},
         {"time": 2500, "sampling": {"start_time": 100, "end_time": [5, 7.5], "demes": [{"name": "x", "start_time": 64}]}, "rate": 0.5}]
    )
    ngrid = rng.randint(2, 6)
    grid = sorted(rng.sample([time_scale * i for i in range(1, 13)], ngrid), reverse=True)
    m.grid = grid
    n = rng.randint(1, max_demes)
    names = rng.sample(NAMES, n)
    for i in range(n):
        d = dict(name=names[i], description=rng.choice(["", "", "", "d" + str(i)]))
        anc = []
        start = INF
        if i > 0 and rng.random() > 0.15:
            k = rng.choice([1, 1, 1, 1, 2, 2, 2, 3, 3, 4, 5])
            k = min(k, i)
            cand = rng.sample(m.demes, k)
            times = set(grid) | {a["end_time"] for a in cand}
            ok = [t for t in times if t > 0 and all(a["start_time"] > t >= a["end_time"] for a in cand)]
            if not ok and k > 1:
                cand = cand[:1]
                ok = [t for t in times if t > 0 and all(a["start_time"] > t >= a["end_time"] for a in cand)]
            if ok:
                # favour the coincidence start == ancestor end
                pref = [t for t in ok if any(t == a["end_time"] for a in cand)]
                start = rng.choice(pref) if pref and rng.random() < 0.6 else rng.choice(ok)
                anc = [a["name"] for a in cand]
        if anc and near and start != INF and rng.random() < near and all(a["start_time"] > start * (1 + 2.0 ** -40) for a in m.demes if a["name"] in anc):
            # near-coincidence: within 1e-9 (relative) of a grid time, but not equal to it
            start = start * (1 + 2.0 ** -40)
        d["ancestors"] = anc
        d["proportions"] = list(rng.choice(ANC_PROPS[len(anc)])) if anc else []
        if len(anc) >= 2 and near and rng.random() < near * 2:
            # proportions whose sum is close to, but not exactly, 1 (the data model accepts them)
            d["proportions"][0] = Fraction(d["proportions"][0]) + Fraction(1, 2 ** 40) * rng.choice([1, -1])
        elif len(anc) == 1 and near and rng.random() < near:
            d["proportions"] = [1 - Fraction(1, 2 ** 40)]     # a single proportion that is only close to 1
        d["start_time"] = start
        lower = [t for t in grid if t < start]
        end = 0 if (not lower or rng.random() < 0.5) else rng.choice(lower)
        d["end_time"] = end
        inner = [t for t in grid if end < t < start]
        ne = rng.choice([0, 0, 1, 1, 2, 3])
        bounds = sorted(rng.sample(inner, min(ne, len(inner))), reverse=True) + [end]
        epochs = []
        prev_end_size = None
        for j, et in enumerate(bounds):
            first_inf = j == 0 and start == INF
            ss = rng.choice(SIZES) if (prev_end_size is None or rng.random() < 0.5) else prev_end_size
            r = rng.random()
            if first_inf or r < 0.45:
                es, sf = ss, "constant"
                if allow_f2 and rng.random() < 0.04 and not ms_expressible:
                    sf = rng.choice(["exponential", "linear"])
            elif near and r < 0.45 + near / 2:
                # sizes that differ, but only by a relative 2^-40: still a size change
                es = Fraction(ss) * (1 + Fraction(1, 2 ** 40))
                sf = "exponential" if rng.random() < 0.7 else "linear"
            else:
                es = rng.choice([s for s in SIZES if s != ss])
                sf = "exponential" if (ms_expressible or rng.random() < 0.7) else "linear"
            epochs.append(
                dict(
                    end_time=et,
                    start_size=ss,
                    end_size=es,
                    size_function=sf,
                    selfing_rate=rng.choice([0, 0, 0, Fraction(1, 4), 1]),
                    cloning_rate=rng.choice([0, 0, 0, Fraction(1, 8)]),
                )
            )
            prev_end_size = es
        d["epochs"] = epochs
        m.demes.append(d)

    # migrations
    occupied = {}  # (src, dst) -> list of (start, end)
    ingress = {d["name"]: Fraction(0) for d in m.demes}

    def overlap(a, b):
        return max(a["end_time"], b["end_time"]), min(a["start_time"], b["start_time"])

    def free(src, dst, s, e):
        return all(not (s > e2 and s2 > e) for (s2, e2) in occupied.get((src, dst), []))

    def pick_bounds(lo, hi):
        starts = [None] + [t for t in grid if lo < t <= hi] + ([hi] if hi != INF else [])
        s = rng.choice(starts)
        s_eff = hi if s is None else s
        ends = [None] + [t for t in grid if lo <= t < s_eff] + [lo]
        e = rng.choice(ends)
        e_eff = lo if e is None else e
        if near and rng.random() < near:
            # a bound within a relative 2^-40 of the demes' coexistence interval, but not on it
            if rng.random() < 0.5 and hi != INF and hi * (1 - 2.0 ** -40) > e_eff:
                s = s_eff = hi * (1 - 2.0 ** -40)
            elif lo > 0 and lo * (1 + 2.0 ** -40) < s_eff:
                e = e_eff = lo * (1 + 2.0 ** -40)
        return s, e, s_eff, e_eff

    if n >= 2:
        for _ in range(rng.choice([0, 1, 2, 3, 5])):
            if rng.random() < 0.35 and n >= 2:
                k = rng.randint(2, min(4, n))
                group = rng.sample(m.demes, k)
                los_his = [overlap(a, b) for a, b in itertools.combinations(group, 2)]
                if any(hi <= lo for lo, hi in los_his):
                    continue
                glo = max(lo for lo, _ in los_his)
                ghi = min(hi for _, hi in los_his)
                if ghi <= glo:
                    continue
                if rng.random() < 0.5:
                    s, e = None, None
                else:
                    s, e, _, _ = pick_bounds(glo, ghi)
                rate = rng.choice(RATES)
                pairs = list(itertools.permutations([g["name"] for g in group], 2))
                effs = []
                okk = True
                for src, dst in pairs:
                    lo, hi = overlap(m.deme(src), m.deme(dst))
                    se = hi if s is None else s
                    ee = lo if e is None else e
                    if not (se > ee) or not free(src, dst, se, ee):
                        okk = False
                    effs.append((src, dst, se, ee))
                add = {}
                for src, dst, _, _ in effs:
                    add[dst] = add.get(dst, 0) + rate
                if not okk or any(ingress[d] + r > 1 for d, r in add.items()):
                    continue
                for src, dst, se, ee in effs:
                    occupied.setdefault((src, dst), []).append((se, ee))
                for d, r in add.items():
                    ingress[d] += r
                m.migrations.append(dict(demes=[g["name"] for g in group], start_time=s, end_time=e, rate=rate, _eff=effs))
            else:
                a, b = rng.sample(m.demes, 2)
                lo, hi = overlap(a, b)
                if hi <= lo:
                    continue
                cuts = [t for t in grid if lo < t < hi]
                if len(cuts) >= 2 and rng.random() < 0.2 and not occupied.get((a["name"], b["name"])):
                    # three consecutive windows for one ordered pair with rates r1, r2, r1 (or r1, 0, r1)
                    t2, t1 = sorted(rng.sample(cuts, 2), reverse=True)
                    r1 = rng.choice(RATES)
                    r2 = rng.choice([r for r in RATES if r != r1] + [0])
                    if (rng.random() < 0.4 and not occupied.get((b["name"], a["name"])) and ingress[b["name"]] + max(r1, r2) <= 1
                            and ingress[a["name"]] + max(r1, r2) <= 1):
                        # the same three windows as SYMMETRIC migrations of the pair (the middle one may be a pause, the
                        # last one may be one-way): two windows of one pair with the same rate, an earlier-listed one of
                        # which collapses into a symmetric entry of the simplified form
                        ingress[b["name"]] += max(r1, r2)
                        ingress[a["name"]] += max(r1, r2)
                        wins = [(hi, t2, r1, True), (t2, t1, r2, True), (t1, lo, r1, rng.random() < 0.6)]
                        order = rng.choice([wins, wins[::-1], [wins[1], wins[0], wins[2]]])
                        for (ws, we, rr, sym) in order:
                            if rr == 0 and sym and rng.random() < 0.5:
                                continue            # a pause instead of an explicit zero-rate window
                            dirs = [(a["name"], b["name"]), (b["name"], a["name"])] if sym else [(a["name"], b["name"])]
                            for (x, y) in dirs:
                                occupied.setdefault((x, y), []).append((ws, we))
                            st, en = (None if ws == hi else ws), (None if we == lo else we)
                            if sym:
                                m.migrations.append(dict(demes=[a["name"], b["name"]], start_time=st, end_time=en, rate=rr,
                                                         _eff=[(x, y, ws, we) for (x, y) in dirs]))
                            else:
                                m.migrations.append(dict(source=a["name"], dest=b["name"], start_time=st, end_time=en, rate=rr,
                                                         _eff=[(a["name"], b["name"], ws, we)]))
                        continue
                    if ingress[b["name"]] + max(r1, r2) <= 1:
                        ingress[b["name"]] += max(r1, r2)
                        wins = [(hi, t2, r1), (t2, t1, r2), (t1, lo, r1)]
                        order = rng.choice([wins, wins[::-1], [wins[1], wins[0], wins[2]]])
                        for (ws, we, rr) in order:
                            occupied.setdefault((a["name"], b["name"]), []).append((ws, we))
                            m.migrations.append(dict(source=a["name"], dest=b["name"], start_time=(None if ws == hi else ws),
                                                     end_time=(None if we == lo else we), rate=rr, _eff=[(a["name"], b["name"], ws, we)]))
                        continue
                s, e, se, ee = pick_bounds(lo, hi)
                if not (se > ee) or not free(a["name"], b["name"], se, ee):
                    continue
                rate = rng.choice(RATES if rng.random() < 0.85 else BIG_RATES)
                if ingress[b["name"]] + rate > 1:
                    continue
                ingress[b["name"]] += rate
                occupied.setdefault((a["name"], b["name"]), []).append((se, ee))
                m.migrations.append(
                    dict(source=a["name"], dest=b["name"], start_time=s, end_time=e, rate=rate,
                         _eff=[(a["name"], b["name"], se, ee)])
                )
    # pulses
    if n >= 2:
        for _ in range(rng.choice([0, 0, 1, 2, 3])):
            dest = rng.choice(m.demes)
            others = [d for d in m.demes if d is not dest]
            k = 1 if (ms_expressible or rng.random() < 0.75) else 2
            srcs = rng.sample(others, min(k, len(others)))
            lo = max([dest["end_time"]] + [s["end_time"] for s in srcs])
            hi = min([dest["start_time"]] + [s["start_time"] for s in srcs])
            cands = set(t for t in grid if lo <= t <= hi) | set(t + time_scale // 2 for t in grid if lo <= t + time_scale // 2 <= hi)
            cands |= {lo} if (lo > 0 and lo <= hi) else set()
            cands = [t for t in cands if t > 0 and t != dest["end_time"] and all(t != s["start_time"] for s in srcs) and t != INF]
            if not cands:
                continue
            props = [rng.choice(PROPS) for _ in srcs]
            if len(srcs) == 1 and rng.random() < 0.05:
                props = [1]
            if sum(props) > 1:
                continue
            m.pulses.append(dict(sources=[s["name"] for s in srcs], dest=dest["name"], time=rng.choice(sorted(cands)), proportions=props))
    return m


def expected(m: Model) -> dict:
    """The fully-resolved dictionary the specification prescribes for the model
    (computed from the semantic model, never from the library)."""
    out = dict(
        description=m.header["description"],
        time_units=m.header["time_units"],
        generation_time=m.header["generation_time"] if m.header["generation_time"] is not None else 1,
        doi=list(m.header["doi"]),
        metadata=copy.deepcopy(m.header["metadata"]),
        demes=[],
        migrations=[],
        pulses=[],
    )
    for d in m.demes:
        out["demes"].append(
            dict(
                name=d["name"],
                description=d["description"],
                start_time=d["start_time"],
                ancestors=list(d["ancestors"]),
                proportions=list(d["proportions"]),
                epochs=[{k: e[k] for k in ("end_time", "start_size", "end_size", "size_function", "selfing_rate", "cloning_rate")} for e in d["epochs"]],
            )
        )
    for mig in m.migrations:
        for src, dst, s, e in mig["_eff"]:
            out["migrations"].append(dict(source=src, dest=dst, start_time=s, end_time=e, rate=mig["rate"]))
    ps = sorted(enumerate(m.pulses), key=lambda ip: (-ip[1]["time"], ip[0]))
    for _, p in ps:
        out["pulses"].append(dict(sources=list(p["sources"]), dest=p["dest"], time=p["time"], proportions=list(p["proportions"])))
    return out


def _num(rng, x, as_int=True):
    x = fl(x)
    if isinstance(x, float) and x.is_integer() and not math.isinf(x) and as_int and rng.random() < 0.5:
        return int(x)
    if isinstance(x, int) and not isinstance(x, bool) and rng.random() < 0.3:
        return float(x)
    return x


def spell(m: Model, rng: random.Random, *, level=1.0) -> dict:
    """Write the model as a human-data-model document; `level` is the probability with which an
    omissible field is omitted (0 = everything explicit)."""
    omit = lambda: rng.random() < level
    doc = {}
    h = m.header
    doc["time_units"] = h["time_units"]
    if h["generation_time"] is not None:
        doc["generation_time"] = _num(rng, h["generation_time"])
    if h["description"] != "" or not omit():
        doc["description"] = h["description"]
    if h["doi"] or not omit():
        doc["doi"] = list(h["doi"])
    if h["metadata"] or not omit():
        doc["metadata"] = copy.deepcopy(h["metadata"])
    defaults = {}
    # ---- epoch defaults (top level and deme level)
    top_epoch = {}
    all_epochs = [e for d in m.demes for e in d["epochs"]]
    if level > 0 and rng.random() < 0.35:
        f = rng.choice(["selfing_rate", "cloning_rate", "start_size", "end_size", "size_function", "end_time"])
        top_epoch[f] = rng.choice(all_epochs)[f]
        if rng.random() < 0.3:
            f2 = rng.choice(["selfing_rate", "cloning_rate", "start_size"])
            top_epoch.setdefault(f2, rng.choice(all_epochs)[f2])
    # ---- deme defaults
    top_deme = {}
    if level > 0 and rng.random() < 0.2:
        f = rng.choice(["description", "start_time", "ancestors", "proportions"])
        top_deme[f] = copy.deepcopy(rng.choice(m.demes)[f])
    doc["demes"] = []
    for d in m.demes:
        dd = {"name": d["name"]}
        # description
        if "description" in top_deme:
            if d["description"] != top_deme["description"] or not omit():
                dd["description"] = d["description"]
        elif d["description"] != "" or not omit():
            dd["description"] = d["description"]
        # ancestors
        if "ancestors" in top_deme:
            if d["ancestors"] != top_deme["ancestors"] or not omit():
                dd["ancestors"] = list(d["ancestors"])
        elif d["ancestors"] or not omit():
            dd["ancestors"] = list(d["ancestors"])
        # proportions
        inferred_props = [1] if len(d["ancestors"]) == 1 else []
        if "proportions" in top_deme:
            if d["proportions"] != top_deme["proportions"] or not omit():
                dd["proportions"] = [_num(rng, p) for p in d["proportions"]]
        elif (len(d["ancestors"]) > 1) or d["proportions"] != inferred_props or not omit():
            dd["proportions"] = [_num(rng, p) for p in d["proportions"]]
        # start_time
        if len(d["ancestors"]) == 0:
            inferred_start = INF
        elif len(d["ancestors"]) == 1:
            inferred_start = m.deme(d["ancestors"][0])["end_time"]
        else:
            inferred_start = None
        if "start_time" in top_deme:
            if d["start_time"] != top_deme["start_time"] or not omit():
                dd["start_time"] = _num(rng, d["start_time"])
        elif inferred_start is None or d["start_time"] != inferred_start or not omit():
            dd["start_time"] = _num(rng, d["start_time"])
        # deme-level epoch defaults
        local_epoch = {}
        if level > 0 and rng.random() < 0.25:
            f = rng.choice(["selfing_rate", "cloning_rate", "start_size", "end_size", "size_function"])
            local_epoch[f] = rng.choice(d["epochs"])[f]
        eff = dict(top_epoch)
        eff.update(local_epoch)
        if local_epoch or (level > 0 and rng.random() < 0.05):
            dd["defaults"] = {"epoch": {k: _num(rng, v) if not isinstance(v, str) else v for k, v in local_epoch.items()}} if (local_epoch or rng.random() < 0.5) else {}
        eps = []
        prev_end = None
        ne = len(d["epochs"])
        for j, e in enumerate(d["epochs"]):
            ed = {}
            last = j == ne - 1

            def put(f):
                v = e[f]
                ed[f] = v if isinstance(v, str) else _num(rng, v)

            # end_time
            if "end_time" in eff:
                if e["end_time"] != eff["end_time"] or not omit():
                    put("end_time")
            elif not (last and e["end_time"] == 0 and omit()):
                put("end_time")
            # sizes
            ss, es = e["start_size"], e["end_size"]
            if j == 0:
                # at least one of the two must be available after defaults are inserted
                can_omit_start = (eff["start_size"] == ss) if "start_size" in eff else (ss == es)
                can_omit_end = (eff["end_size"] == es) if "end_size" in eff else (ss == es)
                o_s = can_omit_start and omit()
                o_e = can_omit_end and omit()
                if o_s and o_e and "start_size" not in eff and "end_size" not in eff:
                    if rng.random() < 0.5:
                        o_s = False
                    else:
                        o_e = False
                if not o_s:
                    put("start_size")
                if not o_e:
                    put("end_size")
            else:
                can_omit_start = (eff["start_size"] == ss) if "start_size" in eff else (ss == prev_end)
                can_omit_end = (eff["end_size"] == es) if "end_size" in eff else (ss == es)
                if not (can_omit_start and omit()):
                    put("start_size")
                if not (can_omit_end and omit()):
                    put("end_size")
            inferred_sf = "constant" if ss == es else "exponential"
            can_omit_sf = (eff["size_function"] == e["size_function"]) if "size_function" in eff else (e["size_function"] == inferred_sf)
            if not (can_omit_sf and omit()):
                put("size_function")
            for f in ("selfing_rate", "cloning_rate"):
                can = (eff[f] == e[f]) if f in eff else (e[f] == 0)
                if not (can and omit()):
                    put(f)
            prev_end = es
            eps.append(ed)
        if not (len(eps) == 1 and eps[0] == {} and eff and omit()):
            dd["epochs"] = eps
        doc["demes"].append(dd)
    # ---- migrations
    top_mig = {}
    if m.migrations and level > 0 and rng.random() < 0.3:
        f = rng.choice(["rate", "start_time", "end_time"])
        vals = [mg[f] for mg in m.migrations]
        if f == "rate" or all(v is not None for v in vals):
            top_mig[f] = rng.choice(vals)
        elif all("source" in mg for mg in m.migrations):
            # defaults for inferred bounds need the effective value
            mg = rng.choice(m.migrations)
            top_mig[f] = mg["_eff"][0][2 if f == "start_time" else 3]
    if m.migrations and level > 0 and all("source" in mg for mg in m.migrations) and rng.random() < 0.15:
        top_mig["source"] = rng.choice(m.migrations)["source"]
    migs = []
    for mg in m.migrations:
        md = {}
        if "demes" in mg:
            md["demes"] = list(mg["demes"])
        else:
            if not ("source" in top_mig and top_mig["source"] == mg["source"] and omit()):
                md["source"] = mg["source"]
            md["dest"] = mg["dest"]
        for f, idx in (("start_time", 2), ("end_time", 3)):
            v = mg[f]
            if f in top_mig:
                if v is None and "source" in mg:
                    v = mg["_eff"][0][idx]
                if v != top_mig[f] or not omit():
                    md[f] = _num(rng, v)
            else:
                if v is None:
                    if "source" in mg and not omit():
                        md[f] = _num(rng, mg["_eff"][0][idx])
                else:
                    md[f] = _num(rng, v)
        if not ("rate" in top_mig and top_mig["rate"] == mg["rate"] and omit()):
            md["rate"] = _num(rng, mg["rate"])
        migs.append(md)
    if migs or not omit():
        doc["migrations"] = migs
    # ---- pulses
    top_pulse = {}
    if m.pulses and level > 0 and rng.random() < 0.3:
        f = rng.choice(["sources", "dest", "time", "proportions"])
        top_pulse[f] = copy.deepcopy(rng.choice(m.pulses)[f])
    ps = []
    for p in m.pulses:
        pd = {}
        for f in ("sources", "dest", "time", "proportions"):
            if f in top_pulse and top_pulse[f] == p[f] and omit():
                continue
            v = p[f]
            if f == "time":
                v = _num(rng, v)
            elif f == "proportions":
                v = [_num(rng, x) for x in v]
            else:
                v = copy.deepcopy(v)
            pd[f] = v
        ps.append(pd)
    if ps or not omit():
        doc["pulses"] = ps
    if top_epoch:
        defaults["epoch"] = {k: (v if isinstance(v, str) else _num(rng, v)) for k, v in top_epoch.items()}
    if top_deme:
        defaults["deme"] = {k: (_num(rng, v) if isinstance(v, (int, float, Fraction)) else ([_num(rng, x) for x in v] if k == "proportions" else v)) for k, v in top_deme.items()}
    if top_mig:
        defaults["migration"] = {k: (v if isinstance(v, str) else _num(rng, v)) for k, v in top_mig.items()}
    if top_pulse:
        tp = {}
        for k, v in top_pulse.items():
            tp[k] = _num(rng, v) if k == "time" else ([_num(rng, x) for x in v] if k == "proportions" else v)
        defaults["pulse"] = tp
    if defaults or (level > 0 and rng.random() < 0.05):
        doc["defaults"] = defaults
    # shuffle top-level key order a little (dict order must not matter)
    if rng.random() < 0.3:
        items = list(doc.items())
        rng.shuffle(items)
        doc = dict(items)
    return plain(doc)


def plain(v):
    """Fractions -> floats/ints (what a user would write)"""
    if isinstance(v, Fraction):
        return fl(v)
    if isinstance(v, dict):
        return {k: plain(x) for k, x in v.items()}
    if isinstance(v, (list, tuple)):
        return [plain(x) for x in v]
    return v


def features(m: Model) -> list:
    f = []
    if len(m.demes) > 1:
        f.append("multi_deme")
    if any(len(d["ancestors"]) > 1 for d in m.demes):
        f.append("multi_ancestor")
    if any(len(d["epochs"]) > 1 for d in m.demes):
        f.append("multi_epoch")
    if any(e["size_function"] != "constant" for d in m.demes for e in d["epochs"]):
        f.append("size_change")
    if any(e["size_function"] != "constant" and abs(Fraction(e["start_size"]) - Fraction(e["end_size"])) < Fraction(1, 1000) for d in m.demes for e in d["epochs"]):
        f.append("near_equal_sizes")
    if any(d["proportions"] and sum(Fraction(x) for x in d["proportions"]) != 1 for d in m.demes):
        f.append("near_one_proportions")
    if any("demes" in mg for mg in m.migrations):
        f.append("symmetric_migration")
    if any("source" in mg for mg in m.migrations):
        f.append("asymmetric_migration")
    pairs = {}
    for mg in m.migrations:
        for (src, dst, _s, _e) in mg["_eff"]:
            pairs[(src, dst)] = pairs.get((src, dst), 0) + 1
    if any(v >= 3 for v in pairs.values()):
        f.append("three_windows_one_pair")
    if m.pulses:
        f.append("pulse")
    if any(len(p["sources"]) > 1 for p in m.pulses):
        f.append("multi_source_pulse")
    if any(d["end_time"] > 0 for d in m.demes):
        f.append("extinct_deme")
    if m.header["time_units"] != "generations":
        f.append("non_generation_units")
    return f


def overlap_variant(m: Model, rng: random.Random):
    """A copy of the model with a SECOND migration for an ordered pair that already has one,
    placed (inside the pair's coexistence interval, so that nothing else is wrong) so that it
    overlaps / abuts / contains / is contained in the first, with zero and positive rates in both
    list orders.  Returns (model, overlapping: bool) or None.  `expected()` is meaningless for an
    overlapping variant (the document must be rejected)."""
    cands = [mg for mg in m.migrations if "source" in mg]
    if not cands:
        return None
    m2 = copy.deepcopy(m)
    cands = [mg for mg in m2.migrations if "source" in mg]
    mg = rng.choice(cands)
    a, b = m2.deme(mg["source"]), m2.deme(mg["dest"])
    lo, hi = max(a["end_time"], b["end_time"]), min(a["start_time"], b["start_time"])
    ts = sorted({t for t in m2.grid if lo <= t <= hi} | {lo} | ({hi} if hi != INF else set()))
    if hi == INF:
        ts.append(INF)
    if len(ts) < 2:
        return None

    def window():
        i = rng.randrange(len(ts) - 1)
        j = rng.randrange(i + 1, len(ts))
        return ts[j], ts[i]

    s1, e1 = window()
    s2, e2 = window()
    if rng.random() < 0.3:
        # strict nesting on both sides, built from the ends of the coexistence interval (always possible):
        # e2 < e1 < s1 < s2
        top = hi if hi != INF else lo + 32
        q = (top - lo) / 4
        e2, e1, s1, s2 = lo, lo + q, lo + 2 * q, (hi if rng.random() < 0.5 else lo + 3 * q)
        if rng.random() < 0.5:
            s1, e1, s2, e2 = s2, e2, s1, e1      # which of the two is listed as the existing migration
    mg["start_time"], mg["end_time"] = s1, e1
    mg["rate"] = rng.choice([0, 0, mg["rate"]])
    mg["_eff"] = [(mg["source"], mg["dest"], s1, e1)]
    new = dict(source=mg["source"], dest=mg["dest"], start_time=s2, end_time=e2, rate=rng.choice([0, Fraction(1, 64), Fraction(1, 64)]),
               _eff=[(mg["source"], mg["dest"], s2, e2)])
    if rng.random() < 0.25:
        # the second one written as a SYMMETRIC migration that lists the pair (in either order)
        pair = [mg["source"], mg["dest"]]
        rng.shuffle(pair)
        new = dict(demes=pair, start_time=s2, end_time=e2, rate=new["rate"],
                   _eff=[(pair[0], pair[1], s2, e2), (pair[1], pair[0], s2, e2)])
    idx = m2.migrations.index(mg)
    if rng.random() < 0.5:
        m2.migrations.insert(idx + 1, new)
    else:
        m2.migrations.insert(idx, new)
    if rng.random() < 0.3:
        # a third entry for the same ordered pair, listed anywhere among the entries: an overlap may then be between
        # entries that are not neighbours in the list (e.g. a zero-rate window, a disjoint one, then one that
        # overlaps the first)
        s3, e3 = window()
        third = dict(source=mg["source"], dest=mg["dest"], start_time=s3, end_time=e3, rate=rng.choice([0, Fraction(1, 64), Fraction(1, 32)]),
                     _eff=[(mg["source"], mg["dest"], s3, e3)])
        m2.migrations.insert(rng.choice([idx, idx + 1, idx + 2, len(m2.migrations)]), third)
    # overlapping: two entries for one ordered pair whose intervals intersect
    effs = [e for other in m2.migrations for e in other["_eff"]]
    overlapping = any(x is not y and x[0] == y[0] and x[1] == y[1] and x[2] > y[3] and y[2] > x[3]
                      for i, x in enumerate(effs) for y in effs[i + 1:])
    return m2, overlapping
