/-
  Audit of registered theorems.  Usage:
     lake env lean --run Audit.lean <module>[,<module>...] <theorem name>...
  Prints one JSON object per theorem: whether the constant exists in the compiled
  environment, whether it is a theorem, the axioms it depends on, and its pretty-printed
  statement and the structural hash of its type (the hash is compared by the harness with
  lean/theorems.lock; the pretty-printed text depends on which modules are imported).
-/
import Lean
open Lean Meta

def auditOne (n : String) : CoreM Json := do
  let env ← getEnv
  let name := n.toName
  match env.find? name with
  | none => pure (Json.mkObj [("name", .str n), ("exists", .bool false)])
  | some ci =>
    let axs ← collectAxioms name
    let isThm := match ci with | .thmInfo _ => true | _ => false
    let stmt ← try (do let f ← MetaM.run' (ppExpr ci.type); pure (f.pretty 100))
               catch _ => pure "<pp failed>"
    pure (Json.mkObj [("name", .str n), ("exists", .bool true), ("theorem", .bool isThm),
      ("axioms", .arr (axs.map (fun a => Json.str a.toString))), ("statement", .str stmt),
      ("hash", .str (toString ci.type.hash))])

unsafe def main (args : List String) : IO UInt32 := do
  match args with
  | [] => IO.eprintln "usage: Audit <modules> <names...>"; return 2
  | mods :: names =>
    initSearchPath (← findSysroot)
    unsafe enableInitializersExecution
    let modNames := (mods.splitOn ",").map (fun s => s.toName)
    let env ← importModules (modNames.map (fun m => ({ module := m } : Import))).toArray {} (loadExts := true)
    let ctx : Core.Context := { fileName := "<audit>", fileMap := default, maxHeartbeats := 0 }
    let st : Core.State := { env }
    for n in names do
      let (j, _) ← (auditOne n).toIO ctx st
      IO.println j.compress
    return 0
