/-
  C08 — agreement of the two parsers: the shape of a plain command line.

  * `PSuf N l`: `l` is a suffix of a plain command line that starts at an option;
  * `findStructure` along the groups of a plain command line;
  * the shapes of the groups (`shape1 … shape4`, `I_shape`, `ema_shape`).
-/
import DemesVerif.Proofs.FromMsParseBasic
namespace Demes.Proofs.FromMsParse
open Demes.Proofs.FromMs
open Demes Demes.Ms Demes.Spec Demes.Spec.MsSem Demes.Spec.C08
open Demes.Proofs.RV (bind_ok pure_ok)

/-! ### suffixes of a plain command line -/

theorem everySuffix_iff (p : String → List String → Bool) (l : List String) :
    C08.everySuffix p l = true ↔ ∀ s r, (s :: r) <:+ l → p s r = true := by
  induction l with
  | nil =>
    simp only [C08.everySuffix, true_iff]
    intro s r h
    have := List.IsSuffix.length_le h
    simp at this
  | cons t l ih =>
    simp only [C08.everySuffix, Bool.and_eq_true, ih]
    constructor
    · rintro ⟨h1, h2⟩ s r hs
      rcases List.suffix_cons_iff.1 hs with h | h
      · cases h; exact h1
      · exact h2 s r h
    · intro h
      exact ⟨h t l (List.suffix_refl _), fun s r hs => h s r (List.suffix_cons_iff.2 (Or.inr hs))⟩

/-- `l` is what is left of a plain command line at the start of an option group -/
structure PSuf (N : Nat) (l : List String) : Prop where
  plain : ∀ s ∈ l, C08.plainTok s = true
  head : ∀ s, l.head? = some s → C08.isArgTok s = false
  group : ∀ flag rest, (flag :: rest) <:+ l → C08.isArgTok flag = false → C08.groupOK N flag rest = true
  count : l.count "-I" ≤ 1

theorem PSuf.of_plainTokens {tokens : List String} (h : C08.PlainTokens tokens = true) :
    PSuf (C08.structNpop tokens) tokens := by
  unfold C08.PlainTokens at h
  simp only [Bool.and_eq_true, List.all_eq_true, decide_eq_true_eq] at h
  obtain ⟨⟨⟨h1, h2⟩, h3⟩, h4⟩ := h
  refine ⟨h1, ?_, ?_, h3⟩
  · intro s hs
    cases tokens with
    | nil => cases hs
    | cons t l =>
      simp only [List.head?_cons, Option.some.injEq] at hs
      subst hs
      simpa using h2
  · intro flag rest hs ha
    have := (everySuffix_iff _ _).1 h4 flag rest hs
    rw [ha] at this
    simpa using this

theorem isArgTok_I : C08.isArgTok "-I" = false := by decide +kernel

theorem arg_ne_I {s : String} (h : C08.isArgTok s = true) : s ≠ "-I" := by
  intro he; subst he; rw [isArgTok_I] at h; cases h

/-- the head of a suffix is an option of the tables, its group is the manual's, and what follows
the group is again a suffix that starts at an option -/
theorem PSuf.group_split {N : Nat} {flag : String} {rest : List String} (hp : PSuf N (flag :: rest)) :
    C08.isArgTok flag = false ∧ (flag ∈ C08.knownFlags ∨ flag ∈ C08.ignoredFlags)
      ∧ C08.groupOK N flag rest = true ∧ PSuf N (rest.drop (C08.argRun rest))
      ∧ (∀ s ∈ rest.take (C08.argRun rest), C08.isArgTok s = true)
      ∧ (rest.drop (C08.argRun rest)).length ≤ rest.length := by
  have ha : C08.isArgTok flag = false := hp.head flag rfl
  refine ⟨ha, plain_cases (hp.plain flag (List.mem_cons_self ..)) ha,
    hp.group flag rest (List.suffix_refl _) ha, ?_, argRun_take_args rest, by simp⟩
  have hsuf : (rest.drop (C08.argRun rest)) <:+ (flag :: rest) :=
    (List.drop_suffix _ _).trans (List.suffix_cons _ _)
  refine ⟨fun s hs => hp.plain s (hsuf.subset hs), argRun_drop_head rest,
    fun f r hs => hp.group f r (hs.trans hsuf), ?_⟩
  exact Nat.le_trans (hsuf.sublist.count_le _) hp.count

theorem PSuf.no_second_I {N : Nat} {rest : List String} (hp : PSuf N ("-I" :: rest)) (k : Nat) :
    "-I" ∉ rest.drop k := by
  have := hp.count
  rw [List.count_cons_self] at this
  have h0 : rest.count "-I" = 0 := by omega
  intro h
  have : "-I" ∈ rest := (List.drop_sublist k rest).subset h
  exact absurd h0 (Nat.ne_of_gt (List.count_pos_iff.2 this))

/-! ### `findStructure` along the groups -/

theorem fs_skip {s : String} (rest : List String) (h : s ≠ "-I") : findStructure (s :: rest) = findStructure rest :=
  findStructure.eq_3 s rest (fun _ _ he _ => h he)

theorem fs_skip_args : ∀ (k : Nat) (l : List String), (∀ s ∈ l.take k, C08.isArgTok s = true) →
    findStructure (l.drop k) = findStructure l := by
  intro k
  induction k with
  | zero => intro l _; rfl
  | succ k ih =>
    intro l h
    cases l with
    | nil => rfl
    | cons s l =>
      rw [List.drop_succ_cons, fs_skip l (arg_ne_I (h s (by simp)))]
      exact ih l (fun t ht => h t (by rw [List.take_succ_cons]; exact List.mem_cons_of_mem _ ht))

theorem fs_group {flag : String} {rest : List String} (k : Nat) (hI : flag ≠ "-I")
    (h : ∀ s ∈ rest.take k, C08.isArgTok s = true) :
    findStructure (rest.drop k) = findStructure (flag :: rest) := by
  rw [fs_skip rest hI, fs_skip_args k rest h]

theorem fs_no_I : ∀ (l : List String), "-I" ∉ l → findStructure l = .ok (1, 0) := by
  intro l
  induction l with
  | nil => intro _; rfl
  | cons s l ih =>
    intro h
    rw [fs_skip l (fun he => h (he ▸ List.mem_cons_self ..))]
    exact ih (fun hm => h (List.mem_cons_of_mem _ hm))

/-- the number of populations `findStructure` reports is the one `structNpop` reads, and positive -/
theorem fs_npop : ∀ (l : List String) (n : Nat) (r : Q), findStructure l = .ok (n, r) →
    C08.structNpop l = n ∧ 1 ≤ n := by
  intro l
  induction l with
  | nil => intro n r h; cases h; exact ⟨rfl, Nat.le_refl _⟩
  | cons s l ih =>
    intro n r h
    by_cases hs : s = "-I"
    · subst hs
      cases l with
      | nil => cases h; exact ⟨rfl, Nat.le_refl _⟩
      | cons nS rest =>
        rw [findStructure.eq_2] at h
        obtain ⟨npop, hnpop, h⟩ := sbind_ok.1 h
        obtain ⟨j, hj, hj1, rfl⟩ := idx_ok.1 hnpop
        have hn : n = j.toNat := by
          dsimp only at h
          by_cases hl : rest.length < j.toNat
          · rw [if_pos hl] at h
            exact (sthrow_bind_ok.1 h).elim
          · rw [if_neg hl] at h
            split at h
            · split at h
              · obtain ⟨q, _, h⟩ := sbind_ok.1 h
                rw [spure_ok] at h
                cases h; rfl
              · rw [spure_ok] at h
                cases h; rfl
            · rw [spure_ok] at h
              cases h; rfl
        subst hn
        refine ⟨?_, by omega⟩
        simp only [C08.structNpop, if_true, hj, Option.getD_some]
    · rw [fs_skip l hs] at h
      simp only [C08.structNpop, hs, if_false]
      exact ih n r h

/-! ### the shapes of the groups -/

theorem shape1 {rest : List String} (h : C08.argRun rest = 1) : ∃ v0 post, rest = v0 :: post := by
  have := argRun_le rest
  match rest, this with
  | v0 :: post, _ => exact ⟨v0, post, rfl⟩
  | [], h' => simp [C08.argRun] at h

theorem shape2 {rest : List String} (h : C08.argRun rest = 2) : ∃ v0 v1 post, rest = v0 :: v1 :: post := by
  have := argRun_le rest
  rw [h] at this
  match rest, this with
  | v0 :: v1 :: post, _ => exact ⟨v0, v1, post, rfl⟩
  | [_], h' => simp at h'
  | [], h' => simp at h'

theorem shape3 {rest : List String} (h : C08.argRun rest = 3) :
    ∃ v0 v1 v2 post, rest = v0 :: v1 :: v2 :: post := by
  have := argRun_le rest
  rw [h] at this
  match rest, this with
  | v0 :: v1 :: v2 :: post, _ => exact ⟨v0, v1, v2, post, rfl⟩
  | [_, _], h' => simp at h'
  | [_], h' => simp at h'
  | [], h' => simp at h'

theorem shape4 {rest : List String} (h : C08.argRun rest = 4) :
    ∃ v0 v1 v2 v3 post, rest = v0 :: v1 :: v2 :: v3 :: post := by
  have := argRun_le rest
  rw [h] at this
  match rest, this with
  | v0 :: v1 :: v2 :: v3 :: post, _ => exact ⟨v0, v1, v2, v3, post, rfl⟩
  | [_, _, _], h' => simp at h'
  | [_, _], h' => simp at h'
  | [_], h' => simp at h'
  | [], h' => simp at h'

/-- a run of `k` arguments: the list is `k` strings followed by the rest -/
theorem shapeN {rest : List String} {k : Nat} (h : C08.argRun rest = k) :
    ∃ vs post, rest = vs ++ post ∧ vs.length = k ∧ rest.take k = vs ∧ rest.drop k = post := by
  have := argRun_le rest
  exact ⟨rest.take k, rest.drop k, (List.take_append_drop k rest).symm, by simp; omega, rfl, rfl⟩

theorem flags_not_numbers : ∀ s ∈ C08.knownFlags ++ C08.ignoredFlags, isNumberLike s = false := by
  decide +kernel

/-- the number of arguments of a fixed-arity option of the table -/
theorem groupOK_fixed {N : Nat} {flag : String} {rest : List String} {n : Nat}
    (har : arity.lookup flag = some (.fixed n)) (h1 : flag ≠ "-I") (h2 : flag ≠ "-ma") (h3 : flag ≠ "-ema")
    (h : C08.groupOK N flag rest = true) : C08.argRun rest = n := by
  unfold C08.groupOK at h
  simp only [h1, h2, h3, if_false, har] at h
  simpa using h

theorem ignored_lookup : ∀ s ∈ C08.ignoredFlags, arity.lookup s = none := by decide +kernel

theorem groupOK_ignored {N : Nat} {flag : String} {rest : List String} {n : Nat}
    (hi : flag ∈ C08.ignoredFlags) (har : ignoredArity.lookup flag = some n)
    (h : C08.groupOK N flag rest = true) : C08.argRun rest = n := by
  have hk := ignored_not_known flag hi
  have h1 : flag ≠ "-I" := by intro he; subst he; exact hk (by decide)
  have h2 : flag ≠ "-ma" := by intro he; subst he; exact hk (by decide)
  have h3 : flag ≠ "-ema" := by intro he; subst he; exact hk (by decide)
  have hl : arity.lookup flag = none := ignored_lookup flag hi
  unfold C08.groupOK at h
  simp only [h1, h2, h3, if_false, hl, har] at h
  simpa using h

theorem groupOK_ma {N : Nat} {rest : List String} (h : C08.groupOK N "-ma" rest = true) :
    C08.argRun rest = N * N := by
  unfold C08.groupOK at h
  simp (decide := true) only [if_false, if_true] at h
  simpa using h

/-- the `-ema` group: `t`, `npop`, `npop²` entries -/
theorem ema_shape {N : Nat} {rest : List String} (h : C08.groupOK N "-ema" rest = true) :
    ∃ tS nS n mm post, rest = tS :: nS :: (mm ++ post) ∧ pyInt nS = some n ∧ 1 ≤ n
      ∧ mm.length = n.toNat * n.toNat ∧ C08.argRun rest = 2 + n.toNat * n.toNat := by
  unfold C08.groupOK at h
  simp (decide := true) only [if_false, if_true] at h
  split at h
  · rename_i tS nS rest'
    split at h
    · rename_i n hn
      simp only [Bool.and_eq_true, decide_eq_true_eq, beq_iff_eq] at h
      have hle := argRun_le (tS :: nS :: rest')
      rw [h.2] at hle
      simp only [List.length_cons] at hle
      refine ⟨tS, nS, n, rest'.take (n.toNat * n.toNat), rest'.drop (n.toNat * n.toNat), ?_, hn, h.1, ?_, h.2⟩
      · rw [List.take_append_drop]
      · simp; omega
    · cases h
  · cases h

/-- the `-I` group: `npop`, `npop` sample sizes, and possibly a migration rate -/
theorem I_shape {N : Nat} {rest : List String} (hp : PSuf N ("-I" :: rest)) :
    ∃ nS n samples post, pyInt nS = some n ∧ 1 ≤ n ∧ samples.length = n.toNat ∧
      ((rest = nS :: (samples ++ post) ∧ C08.argRun rest = 1 + n.toNat
          ∧ (∀ r t, post = r :: t → isNumberLike r = false))
       ∨ (∃ r, rest = nS :: (samples ++ r :: post) ∧ C08.argRun rest = 2 + n.toNat
          ∧ isNumberLike r = true ∧ r.startsWith "-" = false)) := by
  cases rest with
  | nil =>
    obtain ⟨_, _, h, _, _, _⟩ := hp.group_split
    simp [C08.groupOK] at h
  | cons nS rest' =>
    obtain ⟨_, _, h, hnext, _, _⟩ := hp.group_split
    cases hn : pyInt nS with
    | none => simp [C08.groupOK, hn] at h
    | some n =>
      simp only [C08.groupOK, if_true, hn] at h
      simp only [Bool.and_eq_true, decide_eq_true_eq, beq_iff_eq, Bool.or_eq_true, Bool.not_eq_true'] at h
      obtain ⟨h1, h⟩ := h
      have hle := argRun_le (nS :: rest')
      simp only [List.length_cons] at hle
      rcases h with h | ⟨h, hnum, hdash⟩
      · refine ⟨nS, n, rest'.take n.toNat, rest'.drop n.toNat, hn, h1, by simp; omega, Or.inl ⟨?_, h, ?_⟩⟩
        · rw [List.take_append_drop]
        · intro r t hr
          have hd : (nS :: rest').drop (C08.argRun (nS :: rest')) = r :: t := by
            rw [h, Nat.add_comm, List.drop_succ_cons, hr]
          rw [hd] at hnext
          have hpl := hnext.plain r (List.mem_cons_self ..)
          have hna := hnext.head r rfl
          rcases plain_cases hpl hna with hk | hi
          · exact flags_not_numbers r (List.mem_append_left _ hk)
          · exact flags_not_numbers r (List.mem_append_right _ hi)
      · have hlen : n.toNat < rest'.length := by omega
        have hget : (nS :: rest').getD (1 + n.toNat) "" = rest'[n.toNat] := by
          rw [Nat.add_comm, List.getD_cons_succ, List.getD_eq_getElem?_getD, List.getElem?_eq_getElem hlen]
          rfl
        rw [hget] at hnum hdash
        refine ⟨nS, n, rest'.take n.toNat, rest'.drop (n.toNat + 1), hn, h1, by simp; omega,
          Or.inr ⟨rest'[n.toNat], ?_, h, hnum, hdash⟩⟩
        rw [← List.drop_eq_getElem_cons hlen, List.take_append_drop]

end Demes.Proofs.FromMsParse
