"""C13 — deme size lookup matches the epoch size functions at every time."""
from __future__ import annotations

import math
from fractions import Fraction

from props.common import *  # noqa: F401,F403

RULE = ("every deme of generated valid graphs x probe times {0, inf, every epoch boundary, boundary +- grid step, "
        "boundary*(1+-2^-31), boundary*(1+-2^-29), interior points}; a case is one (deme, time); non-trivial = the "
        "time lies inside the deme's lifetime in a non-constant epoch or exactly on a boundary")
ASSUMPTIONS = ["exponential sizes: the Model returns the symbolic term, re-evaluated with Python's own formula and compared at 1e-9 relative",
               "linear sizes compared at 1e-12 relative (double rounding of the interpolation)"]
EXPLANATION = ("Theorems sizeAt_outside/_inf/_unique_epoch/_end/_interior/_near_end/_between (+ real-analysis bridge) over "
               "the Lean Model of Deme.size_at; Model tied to the code by comparison at the probe times; the property's "
               "bounds re-evaluated on the code's own output.")


def probes(d):
    ts = {0.0, math.inf}
    for e in d.epochs:
        for b in (e.end_time, e.start_time):
            if math.isinf(b):
                continue
            ts |= {b, b + 4, b + 0.5, b * (1 + 2 ** -31), b * (1 - 2 ** -31), b * (1 + 2 ** -29), b * (1 - 2 ** -29)}
            if b >= 4:
                ts.add(b - 4)
        if not math.isinf(e.start_time):
            ts.add((e.start_time + e.end_time) / 2)
            ts.add(e.end_time + (e.start_time - e.end_time) / 4)
    return sorted(t for t in ts if t >= 0)


def bounds_ok(d, t, v):
    if isinstance(v, float) and math.isnan(v):
        return "size is NaN"
    alive = d.start_time > t >= d.end_time
    if math.isinf(t) and math.isinf(d.start_time):
        return None if v == d.epochs[0].start_size else "size at infinity is not the first epoch's size"
    if not alive:
        return None if v == 0 else f"size {v} outside the lifetime"
    owner = [e for e in d.epochs if e.start_time > t >= e.end_time]
    if len(owner) != 1:
        return f"{len(owner)} epochs own t"
    e = owner[0]
    lo, hi = min(e.start_size, e.end_size), max(e.start_size, e.end_size)
    if not (lo * (1 - 1e-12) <= v <= hi * (1 + 1e-12)):
        return f"size {v} outside [{lo}, {hi}]"
    if t == e.end_time and v != e.end_size:
        return "size at the epoch end is not the end size"
    if e.start_size == e.end_size and v != e.end_size:
        return "constant-size epoch reports a different size"
    # the documented interpolation, evaluated here (exactly for linear, with Python's exp/log for exponential)
    if e.start_size != e.end_size and not math.isinf(e.start_time) and t != e.end_time:
        dt = (Fraction(e.start_time) - Fraction(t)) / (Fraction(e.start_time) - Fraction(e.end_time))
        if e.size_function == "linear":
            want = float(Fraction(e.start_size) + (Fraction(e.end_size) - Fraction(e.start_size)) * dt)
        elif e.size_function == "exponential":
            want = e.start_size * math.exp(math.log(e.end_size / e.start_size) * float(dt))
        else:
            return None
        if not math.isclose(v, want, rel_tol=1e-9) and not math.isclose(t, e.end_time):
            return f"size {v} differs from the documented {e.size_function} interpolation {want}"
    return None


def short_epoch_docs():
    """one deme with a very short non-constant epoch (span 2^-k) between two ordinary ones"""
    out = []
    for T in (8.0, 0.25, 1000.0):
        for k in (5, 20, 28, 31):
            for f in ("linear", "exponential"):
                s = 2.0 ** -k
                out.append({"time_units": "generations", "demes": [{"name": "A", "epochs": [
                    {"end_time": T + s, "start_size": 100}, {"end_time": T, "end_size": 1000, "size_function": f},
                    {"end_time": 0, "end_size": 50}]}]})
    return out


def run(ctx):
    n = 300 if ctx.tier == "quick" else 5000
    done = 0
    while done < n and ctx.time_left() > 5:
        batch = gen_valid_graphs(ctx, min(150, n - done), corpus=True)
        if done == 0:
            import demes
            batch = batch + [(d, demes.Graph.fromdict(d), None) for d in short_epoch_docs()]
        # the same lookups on the generations view of graphs in other time units (a graph object that went
        # through in_generations(), not one resolved afresh)
        views = []
        for doc, g, _ in batch[:40]:
            if g.time_units != "generations":
                # (the original has answered lookups before the view is taken: whatever a deme remembers from
                # them must not be carried into the view, whose times are in other units)
                for d in g.demes:
                    for t in list(probes(d))[:4]:
                        d.size_at(t)
                v = g.in_generations()
                views.append(({"in_generations_of": doc}, v, None))
        batch = batch + views
        done += len(batch)
        reqs = []
        plist = []
        for doc, g, _ in batch:
            ts = sorted({t for d in g.demes for t in probes(d)})
            plist.append(ts)
            reqs.append({"op": "size_at", "graph": enc(g.asdict()), "times": enc(ts)})
        reps = ctx.driver.batch(reqs)
        for (doc, g, _), ts, r in zip(batch, plist, reps):
            for d, row in zip(g.demes, r.get("ok", [])):
                for t, x in zip(ts, row):
                    v = d.size_at(t)
                    alive = d.start_time > t >= d.end_time
                    nontriv = alive and any(e.start_time > t >= e.end_time and (e.size_function != "constant" or t == e.end_time) for e in d.epochs)
                    ctx.count({"deme": show(canon({"start": d.start_time, "epochs": [[e.end_time, e.start_size, e.end_size, e.size_function] for e in d.epochs]})), "t": show(canon(t))},
                              nontriv, tags=["alive" if alive else "outside"])
                    ctx.compared += 1
                    ok = True
                    if x is None:
                        ok = False
                    elif isinstance(v, float) and (math.isnan(v) or math.isinf(v)):
                        ok = ("nan" in x) and math.isnan(v)
                    elif "exact" in x:
                        ref = dec(x["exact"])
                        ok = (Fraction(v) == ref) or math.isclose(v, float(ref), rel_tol=1e-12)
                    elif "expo" in x:
                        a, b, dt = [float(dec(z)) for z in x["expo"]]
                        ok = math.isclose(v, a * math.exp(math.log(b / a) * dt), rel_tol=1e-9)
                    elif "nan" in x:
                        ok = isinstance(v, float) and math.isnan(v)
                    else:
                        ok = False
                    if not ok:
                        ctx.disagreement("size_at", {"document": doc, "deme": d.name, "t": show(canon(t))}, repr(v), x)
                    why = bounds_ok(d, t, v)
                    if why:
                        if "in_generations_of" in doc:
                            rp = py_repro(doc["in_generations_of"], f"[x.size_at(x.end_time) for x in g.demes] and g.in_generations()[{d.name!r}].size_at({t!r})")
                        else:
                            rp = py_repro(doc, f"g[{d.name!r}].size_at({t!r})")
                        ctx.violation("size_at: " + why, {"document": doc, "deme": d.name, "t": show(canon(t))}, python=rp)


def replay(ctx, payload):
    import demes
    inp = payload["input"]
    doc = inp["document"]
    g = demes.Graph.fromdict(doc["in_generations_of"]).in_generations() if "in_generations_of" in doc else demes.Graph.fromdict(doc)
    print("implementation:", g[inp["deme"]].size_at(float(Fraction(str(inp["t"])) if inp["t"] != "Infinity" else math.inf)))
    return 0
