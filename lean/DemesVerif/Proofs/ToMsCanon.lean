/-
  C07 — `canonRows` depends only on what the rows read, and ignores identity rows.
-/
import DemesVerif.Proofs.ToMsRows
set_option linter.unusedSimpArgs false
set_option linter.unusedVariables false
namespace Demes.Proofs.ToMs
open Demes Demes.Ms
open Demes.Spec.MsSem

theorem canonRows_def (rows : List (Nat × Row)) :
    canonRows rows = sortKey ((rows.map (fun (ir : Nat × Row) => (ir.1, canonRow ir.2))).filter
      (fun ir => ir.2 ≠ [(ir.1, (1 : Q))])) := rfl

theorem canonRows_eq {L L' : List (Nat × Row)}
    (h1 : L.Pairwise (fun a b => a.1 < b.1)) (h1' : L'.Pairwise (fun a b => a.1 < b.1))
    (hk : ∀ ir ∈ L, (Keys ir.2).Nodup) (hk' : ∀ ir ∈ L', (Keys ir.2).Nodup)
    (h3 : ∀ ir ∈ L, (∃ r', (ir.1, r') ∈ L' ∧ ∀ k, ir.2.get k = r'.get k)
      ∨ (∀ k, ir.2.get k = if k = ir.1 then 1 else 0))
    (h4 : ∀ ir' ∈ L', ∃ r, (ir'.1, r) ∈ L ∧ ∀ k, r.get k = ir'.2.get k) :
    canonRows L = canonRows L' := by
  rw [canonRows_def, canonRows_def]
  congr 1
  have hsorted : ∀ {M : List (Nat × Row)}, M.Pairwise (fun a b => a.1 < b.1) →
      ((M.map (fun (ir : Nat × Row) => (ir.1, canonRow ir.2))).filter (fun ir => ir.2 ≠ [(ir.1, (1 : Q))])).Pairwise
        (fun a b => a.1 < b.1) := by
    intro M hM
    apply List.Pairwise.sublist List.filter_sublist
    rw [List.pairwise_map]
    exact hM
  apply sorted_strict_ext _ _ (hsorted h1) (hsorted h1')
  intro x
  simp only [List.mem_filter, List.mem_map, ne_eq, decide_not, Bool.not_eq_true', decide_eq_false_iff_not]
  constructor
  · rintro ⟨⟨ir, hir, rfl⟩, hne⟩
    rcases h3 ir hir with ⟨r', hr', hg⟩ | hid
    · have hc : canonRow ir.2 = canonRow r' := canonRow_ext (hk ir hir) (hk' _ hr') hg
      exact ⟨⟨(ir.1, r'), hr', by simp [hc]⟩, hne⟩
    · exact absurd (canonRow_identity (hk ir hir) hid) hne
  · rintro ⟨⟨ir', hir', rfl⟩, hne⟩
    obtain ⟨r, hr, hg⟩ := h4 ir' hir'
    have hc : canonRow r = canonRow ir'.2 := canonRow_ext (hk _ hr) (hk' ir' hir') hg
    exact ⟨⟨(ir'.1, r), hr, by simp [hc]⟩, hne⟩

end Demes.Proofs.ToMs
