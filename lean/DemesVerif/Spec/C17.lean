/-
  C17 — file handles are never leaked and caller streams never closed: the property, stated
  on the final state of a call (`Handles.Result`), independently of how the calls are
  structured.
-/
import DemesVerif.Model.Handles
namespace Demes.Spec
open Demes.Handles

/-- "every file the library opened from a path is closed" (the Model also counts the
`StringIO` objects the library creates for `loads*` / `dumps`) -/
def allClosed (s : State) : Prop := ∀ b ∈ s.handles, b = false

/-- "a stream supplied by the caller is never closed by the library" -/
def callerStreamOpen (s : State) : Prop := s.callerClosed = false

/-- "by the time the call has returned or raised or the multi-document iterator is exhausted
or closed": a finished iterator is one that ran off the end of the stream, whose `next`
raised, or that was closed (explicitly, or by CPython's finaliser when it was dropped) -/
def settled : Outcome → Prop
  | .returned => True
  | .raised _ => True
  | .iterator (.done _) => True
  | .iterator .notStarted => False
  | .iterator (.suspended _ _) => False

instance : DecidablePred settled := fun o => by
  unfold settled
  split <;> infer_instance

/-- the property at the end of one call -/
def handlesOK (r : Result) : Prop := allClosed r.state ∧ callerStreamOpen r.state

/-- The log read on its own: `opened h` appends an open handle, `closed h` clears handle `h`,
`callerClosed` marks the caller's stream closed; all other events say nothing about handles. -/
def replayStep (acc : List Bool × Bool) (e : Event) : List Bool × Bool :=
  match e with
  | .opened _ => (acc.1 ++ [true], acc.2)
  | .closed h => (acc.1.set h false, acc.2)
  | .callerClosed => (acc.1, true)
  | _ => acc

/-- which handles are open after the events of a log, and whether the caller's stream was
closed -/
def replay (t : List Event) : List Bool × Bool := t.foldl replayStep ([], false)

end Demes.Spec
