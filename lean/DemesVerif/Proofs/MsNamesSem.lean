/-
  C09, "the same deme names" — the observable of a graph (`Spec.MsSem.graphSemWith`) does not depend on
  what the demes are called.

  * `graphSemWith_rename`: renaming every name of a graph by `f` and the population-name list by `f` too
    gives the same observable (same outcome: both fail, or both succeed with the same value), as soon as
    `f` does not identify a listed population name with a different name the graph mentions;
  * `graphSemWith_append`: population names appended after a list that already contains every name the
    graph mentions change nothing (the populations that have no deme: the transient ones of `from_ms`).

  Outcomes are compared up to the error message (`Agree`: the message of `popId` quotes the name).
-/
import DemesVerif.Proofs.FromMsPostTotal
import DemesVerif.Proofs.RenameChecked
set_option linter.unusedSimpArgs false
set_option linter.unusedVariables false
namespace Demes.Proofs.MsNames
open Demes Demes.Ms Demes.Spec Demes.Spec.MsSem

/-! ### outcomes up to the error message -/

/-- both fail, or both succeed with the same value -/
def Agree {α} (a b : Except String α) : Prop := a.toOption = b.toOption

theorem Agree.refl {α} (a : Except String α) : Agree a a := rfl
theorem Agree.symm {α} {a b : Except String α} (h : Agree a b) : Agree b a := Eq.symm h
theorem Agree.trans {α} {a b c : Except String α} (h1 : Agree a b) (h2 : Agree b c) : Agree a c := Eq.trans h1 h2

theorem Agree.of_eq {α} {a b : Except String α} (h : a = b) : Agree a b := h ▸ Agree.refl a

theorem agree_error {α} (e e' : String) : Agree (Except.error e : Except String α) (Except.error e') := rfl

theorem Agree.ok_left {α} {a b : Except String α} {x : α} (h : Agree a b) (ha : a = .ok x) : b = .ok x := by
  subst ha
  cases b with
  | error e => cases h
  | ok y =>
    have : some x = some y := h
    injection this with this
    rw [this]

theorem Agree.ok_right {α} {a b : Except String α} {x : α} (h : Agree a b) (hb : b = .ok x) : a = .ok x :=
  h.symm.ok_left hb

theorem Agree.bind' {α β} {a b : Except String α} {F G : α → Except String β} (h : Agree a b)
    (hf : ∀ x, a = .ok x → Agree (F x) (G x)) : Agree (a >>= F) (b >>= G) := by
  cases a with
  | error e =>
    cases b with
    | error e' => exact agree_error _ _
    | ok y => cases h
  | ok x =>
    have hb := h.ok_left rfl
    subst hb
    exact hf x rfl

theorem Agree.bind {α β} {a b : Except String α} {F G : α → Except String β} (h : Agree a b)
    (hf : ∀ x, Agree (F x) (G x)) : Agree (a >>= F) (b >>= G) := h.bind' (fun x _ => hf x)

theorem Agree.mapM {α α' β} {F : α → Except String β} {G : α' → Except String β} {h : α → α'} :
    ∀ (l : List α), (∀ x ∈ l, Agree (F x) (G (h x))) → Agree (l.mapM F) ((l.map h).mapM G)
  | [], _ => Agree.refl _
  | x :: l, hx => by
    rw [List.map_cons, List.mapM_cons, List.mapM_cons]
    exact (hx x List.mem_cons_self).bind (fun y =>
      (Agree.mapM l (fun z hz => hx z (List.mem_cons_of_mem _ hz))).bind (fun ys => Agree.refl _))

theorem Agree.mapM' {α β} {F G : α → Except String β} (l : List α) (hx : ∀ x ∈ l, Agree (F x) (G x)) :
    Agree (l.mapM F) (l.mapM G) := by
  have := Agree.mapM (F := F) (G := G) (h := id) l hx
  rwa [List.map_id] at this

theorem Agree.foldlM {σ α α'} {F : σ → α → Except String σ} {G : σ → α' → Except String σ} {h : α → α'} :
    ∀ (l : List α) (s : σ), (∀ s, ∀ x ∈ l, Agree (F s x) (G s (h x))) → Agree (l.foldlM F s) ((l.map h).foldlM G s)
  | [], _, _ => Agree.refl _
  | x :: l, s, hx => by
    rw [List.map_cons, List.foldlM_cons, List.foldlM_cons]
    exact (hx s x List.mem_cons_self).bind (fun s' =>
      Agree.foldlM l s' (fun s z hz => hx s z (List.mem_cons_of_mem _ hz)))

theorem mapM_ok_mem {α β} {f : α → Except String β} : ∀ {l : List α} {ys : List β}, l.mapM f = .ok ys →
    ∀ y ∈ ys, ∃ x ∈ l, f x = .ok y
  | [], ys, h, y, hy => by
    have : ys = [] := by cases h; rfl
    subst this; cases hy
  | a :: l, ys, h, y, hy => by
    rw [List.mapM_cons] at h
    cases ha : f a with
    | error e => rw [ha] at h; cases h
    | ok b =>
      rw [ha] at h
      cases hl : l.mapM f with
      | error e =>
        have h' : (Except.ok b >>= fun b => l.mapM f >>= fun bs => pure (b :: bs)) = Except.ok ys := h
        rw [hl] at h'; cases h'
      | ok bs =>
        have h' : (Except.ok b >>= fun b => l.mapM f >>= fun bs => pure (b :: bs)) = Except.ok ys := h
        rw [hl] at h'
        have : ys = b :: bs := by cases h'; rfl
        subst this
        rcases List.mem_cons.mp hy with rfl | hy
        · exact ⟨a, List.mem_cons_self, ha⟩
        · obtain ⟨x, hx, hfx⟩ := mapM_ok_mem hl y hy
          exact ⟨x, List.mem_cons_of_mem _ hx, hfx⟩

/-! ### the do-block of `graphSemWith`, with the lookup `popId names` and the number of populations as parameters -/

abbrev Pid := String → Except String Nat

def popM (sz : Q → Sz) (pid : Pid) (d : Deme) : Except String PopSem :=
  pid d.name >>= fun id =>
  pure ({ id := id, lo := d.endTime, hi := d.startTime,
          segs := d.epochs.reverse.map (fun (e : Epoch) =>
            ({ t0 := e.endTime, t1 := e.startTime, size := sz e.endSize, growth := none,
               sizeOld := some (sz e.startSize), fn := e.sizeFunction } : Seg)) } : PopSem)

def rawM (pid : Pid) (m : Migration) : Except String MigSeg :=
  pid m.dest >>= fun a => pid m.source >>= fun b =>
  pure ({ dest := a, source := b, t0 := m.endTime, t1 := m.startTime, rate := m.rate } : MigSeg)

def row0M (pid : Pid) (d : Deme) : Except String (Nat × Row) :=
  pid d.name >>= fun id => pure (id, ([(id, (1 : Q))] : Row))

def pulseM (pid : Pid) (L : List (Nat × Row)) (p : Pulse) : Except String (List (Nat × Row)) :=
  pid p.dest >>= fun dest => p.sources.mapM pid >>= fun srcs =>
  pure (L.map (fun (ir : Nat × Row) =>
    let m := ir.2.get dest
    if m = 0 then ir else
    (ir.1, (srcs.zip p.proportions).foldl (fun (r : Row) sp => r.add sp.1 (m * sp.2))
      (ir.2.set dest (m * (1 - p.proportions.foldl (· + ·) 0))))))

def bornM (pid : Pid) (L : List (Nat × Row)) (d : Deme) : Except String (List (Nat × Row)) :=
  pid d.name >>= fun me => d.ancestors.mapM pid >>= fun ancs =>
  pure (L.map (fun (ir : Nat × Row) =>
    let m := ir.2.get me
    if m = 0 then ir else
    (ir.1, (ancs.zip d.proportions).foldl (fun (r : Row) ap => r.add ap.1 (m * ap.2)) (ir.2.set me 0))))

def moveM (demes : List Deme) (pulses : List Pulse) (pid : Pid) (T : Q) : Except String Move :=
  (demes.filter (fun d => decide (d.endTime < T) && decide (ETime.fin T ≤ d.startTime))).mapM (row0M pid) >>= fun L0 =>
  ((pulses.filter (fun p => p.time = T)).reverse).foldlM (pulseM pid) L0 >>= fun L1 =>
  (demes.filter (fun d => d.startTime = ETime.fin T)).foldlM (bornM pid) L1 >>= fun L2 =>
  pure ({ time := T, rows := canonRows L2 } : Move)

def timesOf (demes : List Deme) (pulses : List Pulse) : List Q :=
  (pulses.map (·.time) ++ demes.filterMap (fun d => match d.startTime with | .fin t => some t | .inf => none)).foldr
    (fun t acc => if acc.contains t then acc else Demes.Ms.insertBy (fun a b => decide (a ≤ b)) t acc) []

/-- the migration segments of the ordered pair `(i+1, j+1)`: sorted by end time, adjacent equal rates merged -/
def cellOf (raw : List MigSeg) (i j : Nat) : List MigSeg :=
  ((raw.filter (fun m => m.dest = i + 1 && m.source = j + 1 && m.rate ≠ 0)).foldr insertMig []).foldl
    (fun (acc : List MigSeg) (m : MigSeg) =>
      match acc.getLast? with
      | some last => if last.t1 = ETime.fin m.t0 && last.rate = m.rate then acc.dropLast ++ [{ last with t1 := m.t1 }] else acc ++ [m]
      | none => [m]) []

def migsOf (raw : List MigSeg) (n : Nat) : List MigSeg :=
  (List.range n).flatMap (fun i => (List.range n).flatMap (fun j => cellOf raw i j))

def semCore (sz : Q → Sz) (pid : Pid) (n : Nat) (demes : List Deme) (migs : List Migration) (pulses : List Pulse) :
    Except String DemogSem :=
  demes.mapM (popM sz pid) >>= fun pops =>
  migs.mapM (rawM pid) >>= fun raw =>
  (timesOf demes pulses).mapM (moveM demes pulses pid) >>= fun moves =>
  pure { pops := (sortKey (pops.map (fun p => (p.id, p)))).map (·.2), migs := migsOf raw n,
         moves := moves.filter (fun m => !m.rows.isEmpty) }

theorem graphSemWith_eq (sz : Q → Sz) (g : Graph) (names : List String) :
    graphSemWith sz g (some names) = semCore sz (popId names) names.length g.demes g.migrations g.pulses := rfl

theorem graphSemWith_none (sz : Q → Sz) (g : Graph) :
    graphSemWith sz g none = graphSemWith sz g (some (g.demes.map (·.name))) := rfl

/-! ### the names a graph mentions -/

/-- every name the graph mentions (deme names, ancestors, end points of migrations and pulses) satisfies `P` -/
structure Mentions (P : String → Prop) (demes : List Deme) (migs : List Migration) (pulses : List Pulse) : Prop where
  deme : ∀ d ∈ demes, P d.name
  anc : ∀ d ∈ demes, ∀ a ∈ d.ancestors, P a
  mig : ∀ m ∈ migs, P m.source ∧ P m.dest
  pulse : ∀ p ∈ pulses, P p.dest ∧ ∀ s ∈ p.sources, P s

theorem Mentions.mono {P Q : String → Prop} {demes migs pulses} (h : Mentions P demes migs pulses)
    (hpq : ∀ x, P x → Q x) : Mentions Q demes migs pulses :=
  ⟨fun d hd => hpq _ (h.deme d hd), fun d hd a ha => hpq _ (h.anc d hd a ha),
   fun m hm => ⟨hpq _ (h.mig m hm).1, hpq _ (h.mig m hm).2⟩,
   fun p hp => ⟨hpq _ (h.pulse p hp).1, fun s hs => hpq _ ((h.pulse p hp).2 s hs)⟩⟩

/-- in a valid graph every mentioned name is the name of a deme -/
theorem mentions_of_valid {g : Graph} (hv : validGraph g = true) :
    Mentions (· ∈ g.demes.map (·.name)) g.demes g.migrations g.pulses := by
  obtain ⟨_, _, _, h3, _, _, _, h8, _, _, h11, _, _⟩ := validGraph_clauses hv
  have hfind : ∀ nm d, findDeme g nm = some d → nm ∈ g.demes.map (·.name) := by
    intro nm d hd
    obtain ⟨hm, hn⟩ := FromMs.findDeme_name hd
    exact List.mem_map.mpr ⟨d, hm, hn⟩
  refine ⟨fun d hd => List.mem_map.mpr ⟨d, hd, rfl⟩, ?_, ?_, ?_⟩
  · intro d hd a ha
    unfold v3 at h3
    have := List.all_eq_true.mp h3 d hd
    simp only [Bool.and_eq_true, List.all_eq_true] at this
    have h2 := this.1.1 a ha
    cases hf : findDeme g a with
    | none => rw [hf] at h2; cases h2
    | some anc => exact hfind _ _ hf
  · intro m hm
    unfold v8 at h8
    have := List.all_eq_true.mp h8 m hm
    simp only [Bool.and_eq_true] at this
    have h2 := this.2
    cases hs : findDeme g m.source with
    | none => rw [hs] at h2; cases h2
    | some sd =>
      cases hd : findDeme g m.dest with
      | none => rw [hs, hd] at h2; cases h2
      | some dd => exact ⟨hfind _ _ hs, hfind _ _ hd⟩
  · intro p hp
    unfold v11 at h11
    have := List.all_eq_true.mp h11 p hp
    simp only [Bool.and_eq_true] at this
    have h2 := this.2
    cases hd : findDeme g p.dest with
    | none => rw [hd] at h2; cases h2
    | some dd =>
      rw [hd] at h2
      simp only [Bool.and_eq_true, List.all_eq_true] at h2
      refine ⟨hfind _ _ hd, ?_⟩
      intro s hs
      have h3' := h2.2 s hs
      cases hsd : findDeme g s with
      | none => rw [hsd] at h3'; cases h3'
      | some sd => exact hfind _ _ hsd

/-! ### renaming -/

def rnD (f : String → String) (d : Deme) : Deme := { d with name := f d.name, ancestors := d.ancestors.map f }
def rnM (f : String → String) (m : Migration) : Migration := { m with source := f m.source, dest := f m.dest }
def rnP (f : String → String) (p : Pulse) : Pulse := { p with sources := p.sources.map f, dest := f p.dest }

theorem rename_demes_rn (g : Graph) (r : Renaming) : (renameDemes g r).demes = g.demes.map (rnD r.apply) := rfl
theorem rename_migs_rn (g : Graph) (r : Renaming) : (renameDemes g r).migrations = g.migrations.map (rnM r.apply) := rfl
theorem rename_pulses_rn (g : Graph) (r : Renaming) : (renameDemes g r).pulses = g.pulses.map (rnP r.apply) := rfl

theorem timesOf_rn (f : String → String) (demes : List Deme) (pulses : List Pulse) :
    timesOf (demes.map (rnD f)) (pulses.map (rnP f)) = timesOf demes pulses := by
  unfold timesOf
  rw [List.map_map, List.filterMap_map]
  rfl

section core
variable {sz : Q → Sz} {f : String → String} {pid pid' : Pid} {P : String → Prop}

theorem popM_rn (hP : ∀ nm, P nm → Agree (pid' (f nm)) (pid nm)) {d : Deme} (hd : P d.name) :
    Agree (popM sz pid' (rnD f d)) (popM sz pid d) :=
  (hP _ hd).bind (fun _ => Agree.refl _)

theorem rawM_rn (hP : ∀ nm, P nm → Agree (pid' (f nm)) (pid nm)) {m : Migration} (hs : P m.source) (hd : P m.dest) :
    Agree (rawM pid' (rnM f m)) (rawM pid m) :=
  (hP _ hd).bind (fun _ => (hP _ hs).bind (fun _ => Agree.refl _))

theorem row0M_rn (hP : ∀ nm, P nm → Agree (pid' (f nm)) (pid nm)) {d : Deme} (hd : P d.name) :
    Agree (row0M pid' (rnD f d)) (row0M pid d) :=
  (hP _ hd).bind (fun _ => Agree.refl _)

theorem namesM_rn (hP : ∀ nm, P nm → Agree (pid' (f nm)) (pid nm)) (l : List String) (hl : ∀ x ∈ l, P x) :
    Agree ((l.map f).mapM pid') (l.mapM pid) :=
  (Agree.mapM (F := pid) (G := pid') (h := f) l (fun x hx => (hP x (hl x hx)).symm)).symm

theorem pulseM_rn (hP : ∀ nm, P nm → Agree (pid' (f nm)) (pid nm)) (L : List (Nat × Row)) {p : Pulse}
    (hd : P p.dest) (hs : ∀ s ∈ p.sources, P s) :
    Agree (pulseM pid' L (rnP f p)) (pulseM pid L p) :=
  (hP _ hd).bind (fun _ => (namesM_rn hP p.sources hs).bind (fun _ => Agree.refl _))

theorem bornM_rn (hP : ∀ nm, P nm → Agree (pid' (f nm)) (pid nm)) (L : List (Nat × Row)) {d : Deme}
    (hd : P d.name) (ha : ∀ a ∈ d.ancestors, P a) :
    Agree (bornM pid' L (rnD f d)) (bornM pid L d) :=
  (hP _ hd).bind (fun _ => (namesM_rn hP d.ancestors ha).bind (fun _ => Agree.refl _))

theorem moveM_rn (hP : ∀ nm, P nm → Agree (pid' (f nm)) (pid nm)) {demes : List Deme} {migs : List Migration}
    {pulses : List Pulse} (hm : Mentions P demes migs pulses) (T : Q) :
    Agree (moveM (demes.map (rnD f)) (pulses.map (rnP f)) pid' T) (moveM demes pulses pid T) := by
  unfold moveM
  have e1 : (demes.map (rnD f)).filter (fun d => decide (d.endTime < T) && decide (ETime.fin T ≤ d.startTime))
      = (demes.filter (fun d => decide (d.endTime < T) && decide (ETime.fin T ≤ d.startTime))).map (rnD f) := by
    rw [List.filter_map]; rfl
  have e2 : ((pulses.map (rnP f)).filter (fun p => p.time = T)).reverse
      = ((pulses.filter (fun p => p.time = T)).reverse).map (rnP f) := by
    rw [List.filter_map, List.map_reverse]; rfl
  have e3 : (demes.map (rnD f)).filter (fun d => d.startTime = ETime.fin T)
      = (demes.filter (fun d => d.startTime = ETime.fin T)).map (rnD f) := by
    rw [List.filter_map]; rfl
  rw [e1, e2, e3]
  refine (Agree.mapM _ (fun d hd => (row0M_rn hP (hm.deme d (List.mem_filter.mp hd).1)).symm)).symm.bind (fun L0 => ?_)
  refine (Agree.foldlM _ L0 (fun L p hp => ?_)).symm.bind (fun L1 => ?_)
  · have hp' : p ∈ pulses := (List.mem_filter.mp (List.mem_reverse.mp hp)).1
    exact (pulseM_rn hP L (hm.pulse p hp').1 (hm.pulse p hp').2).symm
  refine (Agree.foldlM _ L1 (fun L d hd => ?_)).symm.bind (fun L2 => Agree.refl _)
  have hd' : d ∈ demes := (List.mem_filter.mp hd).1
  exact (bornM_rn hP L (hm.deme d hd') (hm.anc d hd')).symm

/-- **the congruence**: if the lookups agree on every mentioned name, so do the observables -/
theorem semCore_rn (hP : ∀ nm, P nm → Agree (pid' (f nm)) (pid nm)) (n : Nat) {demes : List Deme}
    {migs : List Migration} {pulses : List Pulse} (hm : Mentions P demes migs pulses) :
    Agree (semCore sz pid' n (demes.map (rnD f)) (migs.map (rnM f)) (pulses.map (rnP f)))
      (semCore sz pid n demes migs pulses) := by
  unfold semCore
  rw [timesOf_rn]
  refine (Agree.mapM _ (fun d hd => (popM_rn (sz := sz) hP (hm.deme d hd)).symm)).symm.bind (fun pops => ?_)
  refine (Agree.mapM _ (fun m hmm => (rawM_rn hP (hm.mig m hmm).1 (hm.mig m hmm).2).symm)).symm.bind (fun raw => ?_)
  exact (Agree.mapM' _ (fun T _ => moveM_rn hP hm T)).bind (fun moves => Agree.refl _)

end core

/-! ### `popId` under a renaming of the list, and under an extension of the list -/

theorem findIdx_map_inj {f : String → String} {nm : String} : ∀ (names : List String),
    (∀ x ∈ names, f x = f nm → x = nm) →
    (names.map f).findIdx? (fun x => decide (x = f nm)) = names.findIdx? (fun x => decide (x = nm))
  | [], _ => rfl
  | a :: l, h => by
    rw [List.map_cons, List.findIdx?_cons, List.findIdx?_cons,
      findIdx_map_inj l (fun x hx => h x (List.mem_cons_of_mem _ hx))]
    have : decide (f a = f nm) = decide (a = nm) := by
      by_cases e : a = nm
      · subst e; simp
      · have : f a ≠ f nm := fun e' => e (h a List.mem_cons_self e')
        simp [e, this]
    rw [this]

theorem popId_map_agree {f : String → String} {names : List String} {nm : String}
    (hinj : ∀ x ∈ names, f x = f nm → x = nm) : Agree (popId (names.map f) (f nm)) (popId names nm) := by
  unfold popId
  have := findIdx_map_inj names hinj
  rw [show (List.findIdx? (fun x => decide (x = f nm)) (List.map f names)) = _ from this]
  cases List.findIdx? (fun x => decide (x = nm)) names with
  | none => exact agree_error _ _
  | some k => exact Agree.refl _

theorem popId_append {names extra : List String} {nm : String} (h : nm ∈ names) :
    popId (names ++ extra) nm = popId names nm := by
  unfold popId
  rw [List.findIdx?_append]
  have : (names.findIdx? (fun x => decide (x = nm))).isSome = true := by
    rw [List.findIdx?_isSome]
    exact List.any_eq_true.mpr ⟨nm, h, by simp⟩
  cases hf : names.findIdx? (fun x => decide (x = nm)) with
  | none => rw [hf] at this; cases this
  | some k => rfl

theorem popId_le {names : List String} {nm : String} {k : Nat} (h : popId names nm = .ok k) : k ≤ names.length := by
  unfold popId at h
  cases hf : names.findIdx? (· = nm) with
  | none => rw [hf] at h; cases h
  | some j =>
    rw [hf] at h
    have hj : j < names.length := by
      have := List.findIdx?_eq_some_iff_getElem.mp hf
      exact this.1
    have : k = j + 1 := by cases h; rfl
    omega

/-! ### the number of populations: pairs beyond the last population that occurs carry no migration -/

theorem cellOf_nil {raw : List MigSeg} {n i j : Nat} (h : ∀ m ∈ raw, m.dest ≤ n ∧ m.source ≤ n) (hij : n ≤ i ∨ n ≤ j) :
    cellOf raw i j = [] := by
  unfold cellOf
  have : raw.filter (fun m => m.dest = i + 1 && m.source = j + 1 && m.rate ≠ 0) = [] := by
    rw [List.filter_eq_nil_iff]
    intro m hm hc
    simp only [Bool.and_eq_true, decide_eq_true_eq] at hc
    have := h m hm
    omega
  rw [this]
  rfl

theorem flatMap_range_add {β} (F : Nat → List β) (n e : Nat) (h : ∀ i, n ≤ i → F i = []) :
    (List.range (n + e)).flatMap F = (List.range n).flatMap F := by
  rw [List.range_add, List.flatMap_append]
  have : (List.map (fun x => n + x) (List.range e)).flatMap F = [] := by
    rw [List.flatMap_eq_nil_iff]
    intro x hx
    obtain ⟨y, _, rfl⟩ := List.mem_map.mp hx
    exact h _ (by omega)
  rw [this, List.append_nil]

theorem migsOf_add {raw : List MigSeg} {n : Nat} (e : Nat) (h : ∀ m ∈ raw, m.dest ≤ n ∧ m.source ≤ n) :
    migsOf raw (n + e) = migsOf raw n := by
  unfold migsOf
  rw [flatMap_range_add _ n e (fun i hi => by
    rw [List.flatMap_eq_nil_iff]
    intro j _
    exact cellOf_nil h (Or.inl hi))]
  apply List.flatMap_congr
  intro i _
  exact flatMap_range_add _ n e (fun j hj => cellOf_nil h (Or.inr hj))

theorem semCore_add {sz : Q → Sz} {pid : Pid} {n : Nat} (e : Nat) {demes : List Deme} {migs : List Migration}
    {pulses : List Pulse} (hle : ∀ nm k, pid nm = .ok k → k ≤ n) :
    Agree (semCore sz pid (n + e) demes migs pulses) (semCore sz pid n demes migs pulses) := by
  unfold semCore
  refine (Agree.refl _).bind (fun pops => ?_)
  refine (Agree.refl _).bind' (fun raw hraw => ?_)
  refine (Agree.refl _).bind (fun moves => ?_)
  have : migsOf raw (n + e) = migsOf raw n := by
    apply migsOf_add
    intro y hy
    obtain ⟨m, _, hm⟩ := mapM_ok_mem hraw y hy
    unfold rawM at hm
    cases ha : pid m.dest with
    | error e => rw [ha] at hm; cases hm
    | ok a =>
      cases hb : pid m.source with
      | error e => rw [ha, hb] at hm; cases hm
      | ok b =>
        rw [ha, hb] at hm
        have : y = { dest := a, source := b, t0 := m.endTime, t1 := m.startTime, rate := m.rate } := by
          cases hm; rfl
        subst this
        exact ⟨hle _ _ ha, hle _ _ hb⟩
  rw [this]
  exact Agree.refl _

/-! ### the two invariance theorems -/

theorem rnD_id (d : Deme) : rnD id d = d := by cases d; simp [rnD]
theorem rnM_id (m : Migration) : rnM id m = m := by cases m; simp [rnM]
theorem rnP_id (p : Pulse) : rnP id p = p := by cases p; simp [rnP]

/-- **renaming.**  `g'` is `g` with every name replaced by its image under `f`; the population list is renamed
too.  If `f` identifies no listed population name with a *different* name that `g` mentions, the observable
is the same. -/
theorem graphSemWith_rename {sz : Q → Sz} {f : String → String} {g g' : Graph} {names : List String}
    {P : String → Prop} (hd : g'.demes = g.demes.map (rnD f)) (hmg : g'.migrations = g.migrations.map (rnM f))
    (hp : g'.pulses = g.pulses.map (rnP f)) (hm : Mentions P g.demes g.migrations g.pulses)
    (hinj : ∀ x ∈ names, ∀ y, P y → f x = f y → x = y) :
    Agree (graphSemWith sz g' (some (names.map f))) (graphSemWith sz g (some names)) := by
  rw [graphSemWith_eq, graphSemWith_eq, hd, hmg, hp, List.length_map]
  exact semCore_rn (fun nm hnm => popId_map_agree (fun x hx => hinj x hx nm hnm)) _ hm

/-- **more populations than demes.**  Names appended to a population list that already contains every name
the graph mentions do not change the observable. -/
theorem graphSemWith_append {sz : Q → Sz} {g : Graph} {names : List String} (extra : List String)
    (hm : Mentions (· ∈ names) g.demes g.migrations g.pulses) :
    Agree (graphSemWith sz g (some (names ++ extra))) (graphSemWith sz g (some names)) := by
  rw [graphSemWith_eq, graphSemWith_eq, List.length_append]
  refine Agree.trans ?_ (semCore_add extra.length (fun nm k h => popId_le h))
  have := semCore_rn (sz := sz) (f := id) (pid' := popId (names ++ extra)) (pid := popId names) (P := (· ∈ names))
    (fun nm hnm => Agree.of_eq (popId_append hnm)) (names.length + extra.length) hm
  simp only [List.map_congr_left (fun d _ => rnD_id d), List.map_congr_left (fun d _ => rnM_id d),
    List.map_congr_left (fun d _ => rnP_id d), List.map_id''] at this
  simpa [List.map_id'', rnD_id, rnM_id, rnP_id] using this

/-- the renaming of `rename_demes`, the population list renamed accordingly -/
theorem graphSemWith_renameDemes {sz : Q → Sz} {g : Graph} {r : Renaming} {names : List String}
    (hv : validGraph g = true)
    (hinj : ∀ x ∈ names, ∀ d ∈ g.demes, r.apply x = r.apply d.name → x = d.name) :
    Agree (graphSemWith sz (renameDemes g r) (some (names.map r.apply))) (graphSemWith sz g (some names)) :=
  graphSemWith_rename (rename_demes_rn g r) (rename_migs_rn g r) (rename_pulses_rn g r) (mentions_of_valid hv)
    (fun x hx y hy e => by
      obtain ⟨d, hd, rfl⟩ := List.mem_map.mp hy
      exact hinj x hx d hd e)

/-- … and read in the graph's own deme order: any renaming that keeps the names distinct -/
theorem graphSemWith_renameDemes_none {sz : Q → Sz} {g : Graph} {r : Renaming} (hv : validGraph g = true)
    (hn : (g.demes.map (fun d => r.apply d.name)).Nodup) :
    Agree (graphSemWith sz (renameDemes g r) none) (graphSemWith sz g none) := by
  rw [graphSemWith_none, graphSemWith_none]
  have hnames : (renameDemes g r).demes.map (·.name) = (g.demes.map (·.name)).map r.apply := by
    rw [rename_demes_rn, List.map_map, List.map_map]; rfl
  rw [hnames]
  apply graphSemWith_renameDemes hv
  intro x hx d hd e
  obtain ⟨d0, hd0, rfl⟩ := List.mem_map.mp hx
  have hn' : ((g.demes.map (·.name)).map r.apply).Nodup := by rw [List.map_map]; exact hn
  exact List.inj_on_of_nodup_map hn' (List.mem_map.mpr ⟨d0, hd0, rfl⟩) (List.mem_map.mpr ⟨d, hd, rfl⟩) e

#print axioms graphSemWith_rename
#print axioms graphSemWith_append
#print axioms graphSemWith_renameDemes_none

end Demes.Proofs.MsNames
