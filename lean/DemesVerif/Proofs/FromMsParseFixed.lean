/-
  C08 — agreement of the two parsers: the options with a fixed number of arguments, one lemma per
  option and direction (generated from the table of options; `-es`, whose range check the
  interpreter performs first, is written by hand).
-/
import DemesVerif.Proofs.FromMsParseInv
namespace Demes.Proofs.FromMsParse
open Demes.Proofs.FromMs
open Demes Demes.Ms Demes.Spec Demes.Spec.MsSem Demes.Spec.C08
open Demes.Proofs.RV (bind_ok pure_ok)

theorem zero_le_zero_Q : (0 : Q) ≤ 0 := by decide


theorem C_n {npop0 : Nat} {rate0 : Q} {f : Nat} {pr : Parsed} {rest : List String} {a : Args} {acc : Parsed}
    (ih : CHyp npop0 rate0 f pr) (hlen : rest.length ≤ f) (hp : PSuf npop0 ("-n" :: rest))
    (hinv : Inv (findStructure ("-n" :: rest)) npop0 rate0 a acc)
    (h2 : parseFrom npop0 (f + 1) ("-n" :: rest) acc = .ok pr) :
    ∃ args, ML ("-n" :: rest) a = .ok args ∧ Inv (.ok (1, 0)) npop0 rate0 args pr := by
  obtain ⟨_, _, hg, hnext, hargs, hl⟩ := hp.group_split
  have har : arity.lookup "-n" = some (.fixed 2) := by decide
  have hk : C08.argRun rest = 2 := groupOK_fixed har (by decide) (by decide) (by decide) hg
  have hfs := fs_group (flag := "-n") (C08.argRun rest) (by decide) hargs
  rw [hk] at hnext hfs hl
  obtain ⟨v0, v1, post, rfl⟩ := shape2 hk
  simp only [List.drop_succ_cons, List.drop_zero] at hnext hfs hl
  simp (decide := true) only [parseFrom, if_false, if_true, List.getD_cons_zero, List.getD_cons_succ, List.drop_succ_cons, List.drop_zero] at h2
  obtain ⟨_, _, h2⟩ := sbind_ok.1 h2
  obtain ⟨i0, hs0, h2⟩ := sbind_ok.1 h2
  obtain ⟨j0, hf0, hj0, rfl⟩ := idx_ok.1 hs0
  obtain ⟨q1, hs1, h2⟩ := sbind_ok.1 h2
  obtain ⟨hf1, hq1⟩ := nonneg_ok.1 hs1
  rw [ML_fixed _ a (clsOf_known (known_mem _ (by decide))) har hk]
  have hT : takeAction a "-n" [v0, v1]
      = .ok { a with initialState := a.initialState ++ [.popSizeChange "-n" (.fin 0) j0 (.fin q1)] } := by
    simp (decide := true) only [takeAction, if_false, if_true, arg, List.getD_cons_zero, List.getD_cons_succ,
      cInt_some hf0, cFloat_some hf1, mkPopSizeChange_fin _ zero_le_zero_Q hj0 hq1, eok_bind]
    rfl
  simp only [List.take_succ_cons, List.take_zero, List.drop_succ_cons, List.drop_zero]
  rw [hT]
  exact ih post _ _ (by simp only [List.length_cons] at hlen; omega) hnext (hinv.ini hfs rfl rfl) h2

theorem B_n {npop0 : Nat} {f : Nat} {args : Args} {rest : List String} {a : Args} {acc : Parsed}
    (ih : BHyp npop0 f args) (hlen : rest.length ≤ f) (hp : PSuf npop0 ("-n" :: rest))
    (hfin : ∀ s ∈ "-n" :: rest, C08.finTok s = true) (hI : acc.sawI = true → "-I" ∉ "-n" :: rest)
    (h1 : ML ("-n" :: rest) a = .ok args) :
    ∃ pr, parseFrom npop0 (f + 1) ("-n" :: rest) acc = .ok pr := by
  obtain ⟨_, _, hg, hnext, hargs, hl⟩ := hp.group_split
  have har : arity.lookup "-n" = some (.fixed 2) := by decide
  have hk : C08.argRun rest = 2 := groupOK_fixed har (by decide) (by decide) (by decide) hg
  rw [hk] at hnext hl
  obtain ⟨v0, v1, post, rfl⟩ := shape2 hk
  simp only [List.drop_succ_cons, List.drop_zero] at hnext hl
  rw [ML_fixed _ a (clsOf_known (known_mem _ (by decide))) har hk] at h1
  obtain ⟨a', hT, h1⟩ := bind_ok.1 h1
  simp only [List.take_succ_cons, List.take_zero, List.drop_succ_cons, List.drop_zero] at hT h1
  simp (decide := true) only [takeAction, if_false, if_true, arg, List.getD_cons_zero, List.getD_cons_succ] at hT
  obtain ⟨x0, hc0, hT⟩ := bind_ok.1 hT
  obtain ⟨x1, hc1, hT⟩ := bind_ok.1 hT
  obtain ⟨e, he, hT⟩ := bind_ok.1 hT
  obtain ⟨hwZ, hwj0, hwq1⟩ := mkPopSizeChange_ok he
  have hs0 := idx_of hc0 hwj0
  obtain ⟨q1, hs1⟩ := nonneg_of hc1 (hfin v1 (by simp)) hwq1
  simp (decide := true) only [parseFrom, if_false, if_true, List.getD_cons_zero, List.getD_cons_succ, List.drop_succ_cons, List.drop_zero,
    need_ok (l := v0 :: v1 :: post) (k := 2) _ (by simp), hs0, hs1, sok_bind]
  exact ih post a' _ (by simp only [List.length_cons] at hlen; omega) hnext
    (fun s hs => hfin s (by simp [hs])) (fun h hm => hI h (by simp [hm])) h1

theorem C_g {npop0 : Nat} {rate0 : Q} {f : Nat} {pr : Parsed} {rest : List String} {a : Args} {acc : Parsed}
    (ih : CHyp npop0 rate0 f pr) (hlen : rest.length ≤ f) (hp : PSuf npop0 ("-g" :: rest))
    (hinv : Inv (findStructure ("-g" :: rest)) npop0 rate0 a acc)
    (h2 : parseFrom npop0 (f + 1) ("-g" :: rest) acc = .ok pr) :
    ∃ args, ML ("-g" :: rest) a = .ok args ∧ Inv (.ok (1, 0)) npop0 rate0 args pr := by
  obtain ⟨_, _, hg, hnext, hargs, hl⟩ := hp.group_split
  have har : arity.lookup "-g" = some (.fixed 2) := by decide
  have hk : C08.argRun rest = 2 := groupOK_fixed har (by decide) (by decide) (by decide) hg
  have hfs := fs_group (flag := "-g") (C08.argRun rest) (by decide) hargs
  rw [hk] at hnext hfs hl
  obtain ⟨v0, v1, post, rfl⟩ := shape2 hk
  simp only [List.drop_succ_cons, List.drop_zero] at hnext hfs hl
  simp (decide := true) only [parseFrom, if_false, if_true, List.getD_cons_zero, List.getD_cons_succ, List.drop_succ_cons, List.drop_zero] at h2
  obtain ⟨_, _, h2⟩ := sbind_ok.1 h2
  obtain ⟨i0, hs0, h2⟩ := sbind_ok.1 h2
  obtain ⟨j0, hf0, hj0, rfl⟩ := idx_ok.1 hs0
  obtain ⟨q1, hs1, h2⟩ := sbind_ok.1 h2
  have hf1 := num_ok.1 hs1
  rw [ML_fixed _ a (clsOf_known (known_mem _ (by decide))) har hk]
  have hT : takeAction a "-g" [v0, v1]
      = .ok { a with initialState := a.initialState ++ [.popGrowthRateChange "-g" (.fin 0) j0 (.fin q1)] } := by
    simp (decide := true) only [takeAction, if_false, if_true, arg, List.getD_cons_zero, List.getD_cons_succ,
      cInt_some hf0, cFloat_some hf1, mkPopGrowthRateChange_fin _ zero_le_zero_Q hj0, eok_bind]
    rfl
  simp only [List.take_succ_cons, List.take_zero, List.drop_succ_cons, List.drop_zero]
  rw [hT]
  exact ih post _ _ (by simp only [List.length_cons] at hlen; omega) hnext (hinv.ini hfs rfl rfl) h2

theorem B_g {npop0 : Nat} {f : Nat} {args : Args} {rest : List String} {a : Args} {acc : Parsed}
    (ih : BHyp npop0 f args) (hlen : rest.length ≤ f) (hp : PSuf npop0 ("-g" :: rest))
    (hfin : ∀ s ∈ "-g" :: rest, C08.finTok s = true) (hI : acc.sawI = true → "-I" ∉ "-g" :: rest)
    (h1 : ML ("-g" :: rest) a = .ok args) :
    ∃ pr, parseFrom npop0 (f + 1) ("-g" :: rest) acc = .ok pr := by
  obtain ⟨_, _, hg, hnext, hargs, hl⟩ := hp.group_split
  have har : arity.lookup "-g" = some (.fixed 2) := by decide
  have hk : C08.argRun rest = 2 := groupOK_fixed har (by decide) (by decide) (by decide) hg
  rw [hk] at hnext hl
  obtain ⟨v0, v1, post, rfl⟩ := shape2 hk
  simp only [List.drop_succ_cons, List.drop_zero] at hnext hl
  rw [ML_fixed _ a (clsOf_known (known_mem _ (by decide))) har hk] at h1
  obtain ⟨a', hT, h1⟩ := bind_ok.1 h1
  simp only [List.take_succ_cons, List.take_zero, List.drop_succ_cons, List.drop_zero] at hT h1
  simp (decide := true) only [takeAction, if_false, if_true, arg, List.getD_cons_zero, List.getD_cons_succ] at hT
  obtain ⟨x0, hc0, hT⟩ := bind_ok.1 hT
  obtain ⟨x1, hc1, hT⟩ := bind_ok.1 hT
  obtain ⟨e, he, hT⟩ := bind_ok.1 hT
  obtain ⟨hwZ, hwj0⟩ := mkPopGrowthRateChange_ok he
  have hs0 := idx_of hc0 hwj0
  obtain ⟨q1, hs1⟩ := num_of hc1 (hfin v1 (by simp))
  simp (decide := true) only [parseFrom, if_false, if_true, List.getD_cons_zero, List.getD_cons_succ, List.drop_succ_cons, List.drop_zero,
    need_ok (l := v0 :: v1 :: post) (k := 2) _ (by simp), hs0, hs1, sok_bind]
  exact ih post a' _ (by simp only [List.length_cons] at hlen; omega) hnext
    (fun s hs => hfin s (by simp [hs])) (fun h hm => hI h (by simp [hm])) h1

theorem C_G {npop0 : Nat} {rate0 : Q} {f : Nat} {pr : Parsed} {rest : List String} {a : Args} {acc : Parsed}
    (ih : CHyp npop0 rate0 f pr) (hlen : rest.length ≤ f) (hp : PSuf npop0 ("-G" :: rest))
    (hinv : Inv (findStructure ("-G" :: rest)) npop0 rate0 a acc)
    (h2 : parseFrom npop0 (f + 1) ("-G" :: rest) acc = .ok pr) :
    ∃ args, ML ("-G" :: rest) a = .ok args ∧ Inv (.ok (1, 0)) npop0 rate0 args pr := by
  obtain ⟨_, _, hg, hnext, hargs, hl⟩ := hp.group_split
  have har : arity.lookup "-G" = some (.fixed 1) := by decide
  have hk : C08.argRun rest = 1 := groupOK_fixed har (by decide) (by decide) (by decide) hg
  have hfs := fs_group (flag := "-G") (C08.argRun rest) (by decide) hargs
  rw [hk] at hnext hfs hl
  obtain ⟨v0, post, rfl⟩ := shape1 hk
  simp only [List.drop_succ_cons, List.drop_zero] at hnext hfs hl
  simp (decide := true) only [parseFrom, if_false, if_true, List.getD_cons_zero, List.getD_cons_succ, List.drop_succ_cons, List.drop_zero] at h2
  obtain ⟨_, _, h2⟩ := sbind_ok.1 h2
  obtain ⟨q0, hs0, h2⟩ := sbind_ok.1 h2
  have hf0 := num_ok.1 hs0
  rw [ML_fixed _ a (clsOf_known (known_mem _ (by decide))) har hk]
  have hT : takeAction a "-G" [v0]
      = .ok { a with initialState := a.initialState ++ [.growthRateChange "-G" (.fin 0) (.fin q0)] } := by
    simp (decide := true) only [takeAction, if_false, if_true, arg, List.getD_cons_zero, List.getD_cons_succ,
      cFloat_some hf0, mkGrowthRateChange_fin _ zero_le_zero_Q, eok_bind]
    rfl
  simp only [List.take_succ_cons, List.take_zero, List.drop_succ_cons, List.drop_zero]
  rw [hT]
  exact ih post _ _ (by simp only [List.length_cons] at hlen; omega) hnext (hinv.ini hfs rfl rfl) h2

theorem B_G {npop0 : Nat} {f : Nat} {args : Args} {rest : List String} {a : Args} {acc : Parsed}
    (ih : BHyp npop0 f args) (hlen : rest.length ≤ f) (hp : PSuf npop0 ("-G" :: rest))
    (hfin : ∀ s ∈ "-G" :: rest, C08.finTok s = true) (hI : acc.sawI = true → "-I" ∉ "-G" :: rest)
    (h1 : ML ("-G" :: rest) a = .ok args) :
    ∃ pr, parseFrom npop0 (f + 1) ("-G" :: rest) acc = .ok pr := by
  obtain ⟨_, _, hg, hnext, hargs, hl⟩ := hp.group_split
  have har : arity.lookup "-G" = some (.fixed 1) := by decide
  have hk : C08.argRun rest = 1 := groupOK_fixed har (by decide) (by decide) (by decide) hg
  rw [hk] at hnext hl
  obtain ⟨v0, post, rfl⟩ := shape1 hk
  simp only [List.drop_succ_cons, List.drop_zero] at hnext hl
  rw [ML_fixed _ a (clsOf_known (known_mem _ (by decide))) har hk] at h1
  obtain ⟨a', hT, h1⟩ := bind_ok.1 h1
  simp only [List.take_succ_cons, List.take_zero, List.drop_succ_cons, List.drop_zero] at hT h1
  simp (decide := true) only [takeAction, if_false, if_true, arg, List.getD_cons_zero, List.getD_cons_succ] at hT
  obtain ⟨x0, hc0, hT⟩ := bind_ok.1 hT
  obtain ⟨e, he, hT⟩ := bind_ok.1 hT
  have hwZ := mkGrowthRateChange_ok he
  obtain ⟨q0, hs0⟩ := num_of hc0 (hfin v0 (by simp))
  simp (decide := true) only [parseFrom, if_false, if_true, List.getD_cons_zero, List.getD_cons_succ, List.drop_succ_cons, List.drop_zero,
    need_ok (l := v0 :: post) (k := 1) _ (by simp), hs0, sok_bind]
  exact ih post a' _ (by simp only [List.length_cons] at hlen; omega) hnext
    (fun s hs => hfin s (by simp [hs])) (fun h hm => hI h (by simp [hm])) h1

theorem C_m {npop0 : Nat} {rate0 : Q} {f : Nat} {pr : Parsed} {rest : List String} {a : Args} {acc : Parsed}
    (ih : CHyp npop0 rate0 f pr) (hlen : rest.length ≤ f) (hp : PSuf npop0 ("-m" :: rest))
    (hinv : Inv (findStructure ("-m" :: rest)) npop0 rate0 a acc)
    (h2 : parseFrom npop0 (f + 1) ("-m" :: rest) acc = .ok pr) :
    ∃ args, ML ("-m" :: rest) a = .ok args ∧ Inv (.ok (1, 0)) npop0 rate0 args pr := by
  obtain ⟨_, _, hg, hnext, hargs, hl⟩ := hp.group_split
  have har : arity.lookup "-m" = some (.fixed 3) := by decide
  have hk : C08.argRun rest = 3 := groupOK_fixed har (by decide) (by decide) (by decide) hg
  have hfs := fs_group (flag := "-m") (C08.argRun rest) (by decide) hargs
  rw [hk] at hnext hfs hl
  obtain ⟨v0, v1, v2, post, rfl⟩ := shape3 hk
  simp only [List.drop_succ_cons, List.drop_zero] at hnext hfs hl
  simp (decide := true) only [parseFrom, if_false, if_true, List.getD_cons_zero, List.getD_cons_succ, List.drop_succ_cons, List.drop_zero] at h2
  obtain ⟨_, _, h2⟩ := sbind_ok.1 h2
  obtain ⟨i0, hs0, h2⟩ := sbind_ok.1 h2
  obtain ⟨j0, hf0, hj0, rfl⟩ := idx_ok.1 hs0
  obtain ⟨i1, hs1, h2⟩ := sbind_ok.1 h2
  obtain ⟨j1, hf1, hj1, rfl⟩ := idx_ok.1 hs1
  obtain ⟨q2, hs2, h2⟩ := sbind_ok.1 h2
  obtain ⟨hf2, hq2⟩ := nonneg_ok.1 hs2
  rw [ML_fixed _ a (clsOf_known (known_mem _ (by decide))) har hk]
  have hT : takeAction a "-m" [v0, v1, v2]
      = .ok { a with initialState := a.initialState ++ [.migEntryChange "-m" (.fin 0) j0 j1 (.fin q2)] } := by
    simp (decide := true) only [takeAction, if_false, if_true, arg, List.getD_cons_zero, List.getD_cons_succ,
      cInt_some hf0, cInt_some hf1, cFloat_some hf2, mkMigEntryChange_fin _ zero_le_zero_Q hj0 hj1 hq2, eok_bind]
    rfl
  simp only [List.take_succ_cons, List.take_zero, List.drop_succ_cons, List.drop_zero]
  rw [hT]
  exact ih post _ _ (by simp only [List.length_cons] at hlen; omega) hnext (hinv.ini hfs rfl rfl) h2

theorem B_m {npop0 : Nat} {f : Nat} {args : Args} {rest : List String} {a : Args} {acc : Parsed}
    (ih : BHyp npop0 f args) (hlen : rest.length ≤ f) (hp : PSuf npop0 ("-m" :: rest))
    (hfin : ∀ s ∈ "-m" :: rest, C08.finTok s = true) (hI : acc.sawI = true → "-I" ∉ "-m" :: rest)
    (h1 : ML ("-m" :: rest) a = .ok args) :
    ∃ pr, parseFrom npop0 (f + 1) ("-m" :: rest) acc = .ok pr := by
  obtain ⟨_, _, hg, hnext, hargs, hl⟩ := hp.group_split
  have har : arity.lookup "-m" = some (.fixed 3) := by decide
  have hk : C08.argRun rest = 3 := groupOK_fixed har (by decide) (by decide) (by decide) hg
  rw [hk] at hnext hl
  obtain ⟨v0, v1, v2, post, rfl⟩ := shape3 hk
  simp only [List.drop_succ_cons, List.drop_zero] at hnext hl
  rw [ML_fixed _ a (clsOf_known (known_mem _ (by decide))) har hk] at h1
  obtain ⟨a', hT, h1⟩ := bind_ok.1 h1
  simp only [List.take_succ_cons, List.take_zero, List.drop_succ_cons, List.drop_zero] at hT h1
  simp (decide := true) only [takeAction, if_false, if_true, arg, List.getD_cons_zero, List.getD_cons_succ] at hT
  obtain ⟨x0, hc0, hT⟩ := bind_ok.1 hT
  obtain ⟨x1, hc1, hT⟩ := bind_ok.1 hT
  obtain ⟨x2, hc2, hT⟩ := bind_ok.1 hT
  obtain ⟨e, he, hT⟩ := bind_ok.1 hT
  obtain ⟨hwZ, hwj0, hwj1, hwq2⟩ := mkMigEntryChange_ok he
  have hs0 := idx_of hc0 hwj0
  have hs1 := idx_of hc1 hwj1
  obtain ⟨q2, hs2⟩ := nonneg_of hc2 (hfin v2 (by simp)) hwq2
  simp (decide := true) only [parseFrom, if_false, if_true, List.getD_cons_zero, List.getD_cons_succ, List.drop_succ_cons, List.drop_zero,
    need_ok (l := v0 :: v1 :: v2 :: post) (k := 3) _ (by simp), hs0, hs1, hs2, sok_bind]
  exact ih post a' _ (by simp only [List.length_cons] at hlen; omega) hnext
    (fun s hs => hfin s (by simp [hs])) (fun h hm => hI h (by simp [hm])) h1

theorem C_eG {npop0 : Nat} {rate0 : Q} {f : Nat} {pr : Parsed} {rest : List String} {a : Args} {acc : Parsed}
    (ih : CHyp npop0 rate0 f pr) (hlen : rest.length ≤ f) (hp : PSuf npop0 ("-eG" :: rest))
    (hinv : Inv (findStructure ("-eG" :: rest)) npop0 rate0 a acc)
    (h2 : parseFrom npop0 (f + 1) ("-eG" :: rest) acc = .ok pr) :
    ∃ args, ML ("-eG" :: rest) a = .ok args ∧ Inv (.ok (1, 0)) npop0 rate0 args pr := by
  obtain ⟨_, _, hg, hnext, hargs, hl⟩ := hp.group_split
  have har : arity.lookup "-eG" = some (.fixed 2) := by decide
  have hk : C08.argRun rest = 2 := groupOK_fixed har (by decide) (by decide) (by decide) hg
  have hfs := fs_group (flag := "-eG") (C08.argRun rest) (by decide) hargs
  rw [hk] at hnext hfs hl
  obtain ⟨v0, v1, post, rfl⟩ := shape2 hk
  simp only [List.drop_succ_cons, List.drop_zero] at hnext hfs hl
  simp (decide := true) only [parseFrom, if_false, if_true, List.getD_cons_zero, List.getD_cons_succ, List.drop_succ_cons, List.drop_zero] at h2
  obtain ⟨_, _, h2⟩ := sbind_ok.1 h2
  obtain ⟨q0, hs0, h2⟩ := sbind_ok.1 h2
  obtain ⟨hf0, hq0⟩ := nonneg_ok.1 hs0
  obtain ⟨q1, hs1, h2⟩ := sbind_ok.1 h2
  have hf1 := num_ok.1 hs1
  rw [ML_fixed _ a (clsOf_known (known_mem _ (by decide))) har hk]
  have hT : takeAction a "-eG" [v0, v1]
      = .ok { a with demographicEvents := a.demographicEvents ++ [.growthRateChange "-eG" (.fin q0) (.fin q1)] } := by
    simp (decide := true) only [takeAction, if_false, if_true, arg, List.getD_cons_zero, List.getD_cons_succ,
      cFloat_some hf0, cFloat_some hf1, mkGrowthRateChange_fin _ hq0, eok_bind]
    rfl
  simp only [List.take_succ_cons, List.take_zero, List.drop_succ_cons, List.drop_zero]
  rw [hT]
  exact ih post _ _ (by simp only [List.length_cons] at hlen; omega) hnext (hinv.ev hfs rfl hq0) h2

theorem B_eG {npop0 : Nat} {f : Nat} {args : Args} {rest : List String} {a : Args} {acc : Parsed}
    (ih : BHyp npop0 f args) (hlen : rest.length ≤ f) (hp : PSuf npop0 ("-eG" :: rest))
    (hfin : ∀ s ∈ "-eG" :: rest, C08.finTok s = true) (hI : acc.sawI = true → "-I" ∉ "-eG" :: rest)
    (h1 : ML ("-eG" :: rest) a = .ok args) :
    ∃ pr, parseFrom npop0 (f + 1) ("-eG" :: rest) acc = .ok pr := by
  obtain ⟨_, _, hg, hnext, hargs, hl⟩ := hp.group_split
  have har : arity.lookup "-eG" = some (.fixed 2) := by decide
  have hk : C08.argRun rest = 2 := groupOK_fixed har (by decide) (by decide) (by decide) hg
  rw [hk] at hnext hl
  obtain ⟨v0, v1, post, rfl⟩ := shape2 hk
  simp only [List.drop_succ_cons, List.drop_zero] at hnext hl
  rw [ML_fixed _ a (clsOf_known (known_mem _ (by decide))) har hk] at h1
  obtain ⟨a', hT, h1⟩ := bind_ok.1 h1
  simp only [List.take_succ_cons, List.take_zero, List.drop_succ_cons, List.drop_zero] at hT h1
  simp (decide := true) only [takeAction, if_false, if_true, arg, List.getD_cons_zero, List.getD_cons_succ] at hT
  obtain ⟨x0, hc0, hT⟩ := bind_ok.1 hT
  obtain ⟨x1, hc1, hT⟩ := bind_ok.1 hT
  obtain ⟨e, he, hT⟩ := bind_ok.1 hT
  have hwq0 := mkGrowthRateChange_ok he
  obtain ⟨q0, hs0⟩ := nonneg_of hc0 (hfin v0 (by simp)) hwq0
  obtain ⟨q1, hs1⟩ := num_of hc1 (hfin v1 (by simp))
  simp (decide := true) only [parseFrom, if_false, if_true, List.getD_cons_zero, List.getD_cons_succ, List.drop_succ_cons, List.drop_zero,
    need_ok (l := v0 :: v1 :: post) (k := 2) _ (by simp), hs0, hs1, sok_bind]
  exact ih post a' _ (by simp only [List.length_cons] at hlen; omega) hnext
    (fun s hs => hfin s (by simp [hs])) (fun h hm => hI h (by simp [hm])) h1

theorem C_eg {npop0 : Nat} {rate0 : Q} {f : Nat} {pr : Parsed} {rest : List String} {a : Args} {acc : Parsed}
    (ih : CHyp npop0 rate0 f pr) (hlen : rest.length ≤ f) (hp : PSuf npop0 ("-eg" :: rest))
    (hinv : Inv (findStructure ("-eg" :: rest)) npop0 rate0 a acc)
    (h2 : parseFrom npop0 (f + 1) ("-eg" :: rest) acc = .ok pr) :
    ∃ args, ML ("-eg" :: rest) a = .ok args ∧ Inv (.ok (1, 0)) npop0 rate0 args pr := by
  obtain ⟨_, _, hg, hnext, hargs, hl⟩ := hp.group_split
  have har : arity.lookup "-eg" = some (.fixed 3) := by decide
  have hk : C08.argRun rest = 3 := groupOK_fixed har (by decide) (by decide) (by decide) hg
  have hfs := fs_group (flag := "-eg") (C08.argRun rest) (by decide) hargs
  rw [hk] at hnext hfs hl
  obtain ⟨v0, v1, v2, post, rfl⟩ := shape3 hk
  simp only [List.drop_succ_cons, List.drop_zero] at hnext hfs hl
  simp (decide := true) only [parseFrom, if_false, if_true, List.getD_cons_zero, List.getD_cons_succ, List.drop_succ_cons, List.drop_zero] at h2
  obtain ⟨_, _, h2⟩ := sbind_ok.1 h2
  obtain ⟨q0, hs0, h2⟩ := sbind_ok.1 h2
  obtain ⟨hf0, hq0⟩ := nonneg_ok.1 hs0
  obtain ⟨i1, hs1, h2⟩ := sbind_ok.1 h2
  obtain ⟨j1, hf1, hj1, rfl⟩ := idx_ok.1 hs1
  obtain ⟨q2, hs2, h2⟩ := sbind_ok.1 h2
  have hf2 := num_ok.1 hs2
  rw [ML_fixed _ a (clsOf_known (known_mem _ (by decide))) har hk]
  have hT : takeAction a "-eg" [v0, v1, v2]
      = .ok { a with demographicEvents := a.demographicEvents ++ [.popGrowthRateChange "-eg" (.fin q0) j1 (.fin q2)] } := by
    simp (decide := true) only [takeAction, if_false, if_true, arg, List.getD_cons_zero, List.getD_cons_succ,
      cFloat_some hf0, cInt_some hf1, cFloat_some hf2, mkPopGrowthRateChange_fin _ hq0 hj1, eok_bind]
    rfl
  simp only [List.take_succ_cons, List.take_zero, List.drop_succ_cons, List.drop_zero]
  rw [hT]
  exact ih post _ _ (by simp only [List.length_cons] at hlen; omega) hnext (hinv.ev hfs rfl hq0) h2

theorem B_eg {npop0 : Nat} {f : Nat} {args : Args} {rest : List String} {a : Args} {acc : Parsed}
    (ih : BHyp npop0 f args) (hlen : rest.length ≤ f) (hp : PSuf npop0 ("-eg" :: rest))
    (hfin : ∀ s ∈ "-eg" :: rest, C08.finTok s = true) (hI : acc.sawI = true → "-I" ∉ "-eg" :: rest)
    (h1 : ML ("-eg" :: rest) a = .ok args) :
    ∃ pr, parseFrom npop0 (f + 1) ("-eg" :: rest) acc = .ok pr := by
  obtain ⟨_, _, hg, hnext, hargs, hl⟩ := hp.group_split
  have har : arity.lookup "-eg" = some (.fixed 3) := by decide
  have hk : C08.argRun rest = 3 := groupOK_fixed har (by decide) (by decide) (by decide) hg
  rw [hk] at hnext hl
  obtain ⟨v0, v1, v2, post, rfl⟩ := shape3 hk
  simp only [List.drop_succ_cons, List.drop_zero] at hnext hl
  rw [ML_fixed _ a (clsOf_known (known_mem _ (by decide))) har hk] at h1
  obtain ⟨a', hT, h1⟩ := bind_ok.1 h1
  simp only [List.take_succ_cons, List.take_zero, List.drop_succ_cons, List.drop_zero] at hT h1
  simp (decide := true) only [takeAction, if_false, if_true, arg, List.getD_cons_zero, List.getD_cons_succ] at hT
  obtain ⟨x0, hc0, hT⟩ := bind_ok.1 hT
  obtain ⟨x1, hc1, hT⟩ := bind_ok.1 hT
  obtain ⟨x2, hc2, hT⟩ := bind_ok.1 hT
  obtain ⟨e, he, hT⟩ := bind_ok.1 hT
  obtain ⟨hwq0, hwj1⟩ := mkPopGrowthRateChange_ok he
  obtain ⟨q0, hs0⟩ := nonneg_of hc0 (hfin v0 (by simp)) hwq0
  have hs1 := idx_of hc1 hwj1
  obtain ⟨q2, hs2⟩ := num_of hc2 (hfin v2 (by simp))
  simp (decide := true) only [parseFrom, if_false, if_true, List.getD_cons_zero, List.getD_cons_succ, List.drop_succ_cons, List.drop_zero,
    need_ok (l := v0 :: v1 :: v2 :: post) (k := 3) _ (by simp), hs0, hs1, hs2, sok_bind]
  exact ih post a' _ (by simp only [List.length_cons] at hlen; omega) hnext
    (fun s hs => hfin s (by simp [hs])) (fun h hm => hI h (by simp [hm])) h1

theorem C_eN {npop0 : Nat} {rate0 : Q} {f : Nat} {pr : Parsed} {rest : List String} {a : Args} {acc : Parsed}
    (ih : CHyp npop0 rate0 f pr) (hlen : rest.length ≤ f) (hp : PSuf npop0 ("-eN" :: rest))
    (hinv : Inv (findStructure ("-eN" :: rest)) npop0 rate0 a acc)
    (h2 : parseFrom npop0 (f + 1) ("-eN" :: rest) acc = .ok pr) :
    ∃ args, ML ("-eN" :: rest) a = .ok args ∧ Inv (.ok (1, 0)) npop0 rate0 args pr := by
  obtain ⟨_, _, hg, hnext, hargs, hl⟩ := hp.group_split
  have har : arity.lookup "-eN" = some (.fixed 2) := by decide
  have hk : C08.argRun rest = 2 := groupOK_fixed har (by decide) (by decide) (by decide) hg
  have hfs := fs_group (flag := "-eN") (C08.argRun rest) (by decide) hargs
  rw [hk] at hnext hfs hl
  obtain ⟨v0, v1, post, rfl⟩ := shape2 hk
  simp only [List.drop_succ_cons, List.drop_zero] at hnext hfs hl
  simp (decide := true) only [parseFrom, if_false, if_true, List.getD_cons_zero, List.getD_cons_succ, List.drop_succ_cons, List.drop_zero] at h2
  obtain ⟨_, _, h2⟩ := sbind_ok.1 h2
  obtain ⟨q0, hs0, h2⟩ := sbind_ok.1 h2
  obtain ⟨hf0, hq0⟩ := nonneg_ok.1 hs0
  obtain ⟨q1, hs1, h2⟩ := sbind_ok.1 h2
  obtain ⟨hf1, hq1⟩ := nonneg_ok.1 hs1
  rw [ML_fixed _ a (clsOf_known (known_mem _ (by decide))) har hk]
  have hT : takeAction a "-eN" [v0, v1]
      = .ok { a with demographicEvents := a.demographicEvents ++ [.sizeChange "-eN" (.fin q0) (.fin q1)] } := by
    simp (decide := true) only [takeAction, if_false, if_true, arg, List.getD_cons_zero, List.getD_cons_succ,
      cFloat_some hf0, cFloat_some hf1, mkSizeChange_fin _ hq0 hq1, eok_bind]
    rfl
  simp only [List.take_succ_cons, List.take_zero, List.drop_succ_cons, List.drop_zero]
  rw [hT]
  exact ih post _ _ (by simp only [List.length_cons] at hlen; omega) hnext (hinv.ev hfs rfl hq0) h2

theorem B_eN {npop0 : Nat} {f : Nat} {args : Args} {rest : List String} {a : Args} {acc : Parsed}
    (ih : BHyp npop0 f args) (hlen : rest.length ≤ f) (hp : PSuf npop0 ("-eN" :: rest))
    (hfin : ∀ s ∈ "-eN" :: rest, C08.finTok s = true) (hI : acc.sawI = true → "-I" ∉ "-eN" :: rest)
    (h1 : ML ("-eN" :: rest) a = .ok args) :
    ∃ pr, parseFrom npop0 (f + 1) ("-eN" :: rest) acc = .ok pr := by
  obtain ⟨_, _, hg, hnext, hargs, hl⟩ := hp.group_split
  have har : arity.lookup "-eN" = some (.fixed 2) := by decide
  have hk : C08.argRun rest = 2 := groupOK_fixed har (by decide) (by decide) (by decide) hg
  rw [hk] at hnext hl
  obtain ⟨v0, v1, post, rfl⟩ := shape2 hk
  simp only [List.drop_succ_cons, List.drop_zero] at hnext hl
  rw [ML_fixed _ a (clsOf_known (known_mem _ (by decide))) har hk] at h1
  obtain ⟨a', hT, h1⟩ := bind_ok.1 h1
  simp only [List.take_succ_cons, List.take_zero, List.drop_succ_cons, List.drop_zero] at hT h1
  simp (decide := true) only [takeAction, if_false, if_true, arg, List.getD_cons_zero, List.getD_cons_succ] at hT
  obtain ⟨x0, hc0, hT⟩ := bind_ok.1 hT
  obtain ⟨x1, hc1, hT⟩ := bind_ok.1 hT
  obtain ⟨e, he, hT⟩ := bind_ok.1 hT
  obtain ⟨hwq0, hwq1⟩ := mkSizeChange_ok he
  obtain ⟨q0, hs0⟩ := nonneg_of hc0 (hfin v0 (by simp)) hwq0
  obtain ⟨q1, hs1⟩ := nonneg_of hc1 (hfin v1 (by simp)) hwq1
  simp (decide := true) only [parseFrom, if_false, if_true, List.getD_cons_zero, List.getD_cons_succ, List.drop_succ_cons, List.drop_zero,
    need_ok (l := v0 :: v1 :: post) (k := 2) _ (by simp), hs0, hs1, sok_bind]
  exact ih post a' _ (by simp only [List.length_cons] at hlen; omega) hnext
    (fun s hs => hfin s (by simp [hs])) (fun h hm => hI h (by simp [hm])) h1

theorem C_en {npop0 : Nat} {rate0 : Q} {f : Nat} {pr : Parsed} {rest : List String} {a : Args} {acc : Parsed}
    (ih : CHyp npop0 rate0 f pr) (hlen : rest.length ≤ f) (hp : PSuf npop0 ("-en" :: rest))
    (hinv : Inv (findStructure ("-en" :: rest)) npop0 rate0 a acc)
    (h2 : parseFrom npop0 (f + 1) ("-en" :: rest) acc = .ok pr) :
    ∃ args, ML ("-en" :: rest) a = .ok args ∧ Inv (.ok (1, 0)) npop0 rate0 args pr := by
  obtain ⟨_, _, hg, hnext, hargs, hl⟩ := hp.group_split
  have har : arity.lookup "-en" = some (.fixed 3) := by decide
  have hk : C08.argRun rest = 3 := groupOK_fixed har (by decide) (by decide) (by decide) hg
  have hfs := fs_group (flag := "-en") (C08.argRun rest) (by decide) hargs
  rw [hk] at hnext hfs hl
  obtain ⟨v0, v1, v2, post, rfl⟩ := shape3 hk
  simp only [List.drop_succ_cons, List.drop_zero] at hnext hfs hl
  simp (decide := true) only [parseFrom, if_false, if_true, List.getD_cons_zero, List.getD_cons_succ, List.drop_succ_cons, List.drop_zero] at h2
  obtain ⟨_, _, h2⟩ := sbind_ok.1 h2
  obtain ⟨q0, hs0, h2⟩ := sbind_ok.1 h2
  obtain ⟨hf0, hq0⟩ := nonneg_ok.1 hs0
  obtain ⟨i1, hs1, h2⟩ := sbind_ok.1 h2
  obtain ⟨j1, hf1, hj1, rfl⟩ := idx_ok.1 hs1
  obtain ⟨q2, hs2, h2⟩ := sbind_ok.1 h2
  obtain ⟨hf2, hq2⟩ := nonneg_ok.1 hs2
  rw [ML_fixed _ a (clsOf_known (known_mem _ (by decide))) har hk]
  have hT : takeAction a "-en" [v0, v1, v2]
      = .ok { a with demographicEvents := a.demographicEvents ++ [.popSizeChange "-en" (.fin q0) j1 (.fin q2)] } := by
    simp (decide := true) only [takeAction, if_false, if_true, arg, List.getD_cons_zero, List.getD_cons_succ,
      cFloat_some hf0, cInt_some hf1, cFloat_some hf2, mkPopSizeChange_fin _ hq0 hj1 hq2, eok_bind]
    rfl
  simp only [List.take_succ_cons, List.take_zero, List.drop_succ_cons, List.drop_zero]
  rw [hT]
  exact ih post _ _ (by simp only [List.length_cons] at hlen; omega) hnext (hinv.ev hfs rfl hq0) h2

theorem B_en {npop0 : Nat} {f : Nat} {args : Args} {rest : List String} {a : Args} {acc : Parsed}
    (ih : BHyp npop0 f args) (hlen : rest.length ≤ f) (hp : PSuf npop0 ("-en" :: rest))
    (hfin : ∀ s ∈ "-en" :: rest, C08.finTok s = true) (hI : acc.sawI = true → "-I" ∉ "-en" :: rest)
    (h1 : ML ("-en" :: rest) a = .ok args) :
    ∃ pr, parseFrom npop0 (f + 1) ("-en" :: rest) acc = .ok pr := by
  obtain ⟨_, _, hg, hnext, hargs, hl⟩ := hp.group_split
  have har : arity.lookup "-en" = some (.fixed 3) := by decide
  have hk : C08.argRun rest = 3 := groupOK_fixed har (by decide) (by decide) (by decide) hg
  rw [hk] at hnext hl
  obtain ⟨v0, v1, v2, post, rfl⟩ := shape3 hk
  simp only [List.drop_succ_cons, List.drop_zero] at hnext hl
  rw [ML_fixed _ a (clsOf_known (known_mem _ (by decide))) har hk] at h1
  obtain ⟨a', hT, h1⟩ := bind_ok.1 h1
  simp only [List.take_succ_cons, List.take_zero, List.drop_succ_cons, List.drop_zero] at hT h1
  simp (decide := true) only [takeAction, if_false, if_true, arg, List.getD_cons_zero, List.getD_cons_succ] at hT
  obtain ⟨x0, hc0, hT⟩ := bind_ok.1 hT
  obtain ⟨x1, hc1, hT⟩ := bind_ok.1 hT
  obtain ⟨x2, hc2, hT⟩ := bind_ok.1 hT
  obtain ⟨e, he, hT⟩ := bind_ok.1 hT
  obtain ⟨hwq0, hwj1, hwq2⟩ := mkPopSizeChange_ok he
  obtain ⟨q0, hs0⟩ := nonneg_of hc0 (hfin v0 (by simp)) hwq0
  have hs1 := idx_of hc1 hwj1
  obtain ⟨q2, hs2⟩ := nonneg_of hc2 (hfin v2 (by simp)) hwq2
  simp (decide := true) only [parseFrom, if_false, if_true, List.getD_cons_zero, List.getD_cons_succ, List.drop_succ_cons, List.drop_zero,
    need_ok (l := v0 :: v1 :: v2 :: post) (k := 3) _ (by simp), hs0, hs1, hs2, sok_bind]
  exact ih post a' _ (by simp only [List.length_cons] at hlen; omega) hnext
    (fun s hs => hfin s (by simp [hs])) (fun h hm => hI h (by simp [hm])) h1

theorem C_eM {npop0 : Nat} {rate0 : Q} {f : Nat} {pr : Parsed} {rest : List String} {a : Args} {acc : Parsed}
    (ih : CHyp npop0 rate0 f pr) (hlen : rest.length ≤ f) (hp : PSuf npop0 ("-eM" :: rest))
    (hinv : Inv (findStructure ("-eM" :: rest)) npop0 rate0 a acc)
    (h2 : parseFrom npop0 (f + 1) ("-eM" :: rest) acc = .ok pr) :
    ∃ args, ML ("-eM" :: rest) a = .ok args ∧ Inv (.ok (1, 0)) npop0 rate0 args pr := by
  obtain ⟨_, _, hg, hnext, hargs, hl⟩ := hp.group_split
  have har : arity.lookup "-eM" = some (.fixed 2) := by decide
  have hk : C08.argRun rest = 2 := groupOK_fixed har (by decide) (by decide) (by decide) hg
  have hfs := fs_group (flag := "-eM") (C08.argRun rest) (by decide) hargs
  rw [hk] at hnext hfs hl
  obtain ⟨v0, v1, post, rfl⟩ := shape2 hk
  simp only [List.drop_succ_cons, List.drop_zero] at hnext hfs hl
  simp (decide := true) only [parseFrom, if_false, if_true, List.getD_cons_zero, List.getD_cons_succ, List.drop_succ_cons, List.drop_zero] at h2
  obtain ⟨_, _, h2⟩ := sbind_ok.1 h2
  obtain ⟨q0, hs0, h2⟩ := sbind_ok.1 h2
  obtain ⟨hf0, hq0⟩ := nonneg_ok.1 hs0
  obtain ⟨q1, hs1, h2⟩ := sbind_ok.1 h2
  obtain ⟨hf1, hq1⟩ := nonneg_ok.1 hs1
  rw [ML_fixed _ a (clsOf_known (known_mem _ (by decide))) har hk]
  have hT : takeAction a "-eM" [v0, v1]
      = .ok { a with demographicEvents := a.demographicEvents ++ [.migRateChange "-eM" (.fin q0) (.fin q1)] } := by
    simp (decide := true) only [takeAction, if_false, if_true, arg, List.getD_cons_zero, List.getD_cons_succ,
      cFloat_some hf0, cFloat_some hf1, mkMigRateChange_fin _ hq0 hq1, eok_bind]
    rfl
  simp only [List.take_succ_cons, List.take_zero, List.drop_succ_cons, List.drop_zero]
  rw [hT]
  exact ih post _ _ (by simp only [List.length_cons] at hlen; omega) hnext (hinv.ev hfs rfl hq0) h2

theorem B_eM {npop0 : Nat} {f : Nat} {args : Args} {rest : List String} {a : Args} {acc : Parsed}
    (ih : BHyp npop0 f args) (hlen : rest.length ≤ f) (hp : PSuf npop0 ("-eM" :: rest))
    (hfin : ∀ s ∈ "-eM" :: rest, C08.finTok s = true) (hI : acc.sawI = true → "-I" ∉ "-eM" :: rest)
    (h1 : ML ("-eM" :: rest) a = .ok args) :
    ∃ pr, parseFrom npop0 (f + 1) ("-eM" :: rest) acc = .ok pr := by
  obtain ⟨_, _, hg, hnext, hargs, hl⟩ := hp.group_split
  have har : arity.lookup "-eM" = some (.fixed 2) := by decide
  have hk : C08.argRun rest = 2 := groupOK_fixed har (by decide) (by decide) (by decide) hg
  rw [hk] at hnext hl
  obtain ⟨v0, v1, post, rfl⟩ := shape2 hk
  simp only [List.drop_succ_cons, List.drop_zero] at hnext hl
  rw [ML_fixed _ a (clsOf_known (known_mem _ (by decide))) har hk] at h1
  obtain ⟨a', hT, h1⟩ := bind_ok.1 h1
  simp only [List.take_succ_cons, List.take_zero, List.drop_succ_cons, List.drop_zero] at hT h1
  simp (decide := true) only [takeAction, if_false, if_true, arg, List.getD_cons_zero, List.getD_cons_succ] at hT
  obtain ⟨x0, hc0, hT⟩ := bind_ok.1 hT
  obtain ⟨x1, hc1, hT⟩ := bind_ok.1 hT
  obtain ⟨e, he, hT⟩ := bind_ok.1 hT
  obtain ⟨hwq0, hwq1⟩ := mkMigRateChange_ok he
  obtain ⟨q0, hs0⟩ := nonneg_of hc0 (hfin v0 (by simp)) hwq0
  obtain ⟨q1, hs1⟩ := nonneg_of hc1 (hfin v1 (by simp)) hwq1
  simp (decide := true) only [parseFrom, if_false, if_true, List.getD_cons_zero, List.getD_cons_succ, List.drop_succ_cons, List.drop_zero,
    need_ok (l := v0 :: v1 :: post) (k := 2) _ (by simp), hs0, hs1, sok_bind]
  exact ih post a' _ (by simp only [List.length_cons] at hlen; omega) hnext
    (fun s hs => hfin s (by simp [hs])) (fun h hm => hI h (by simp [hm])) h1

theorem C_em {npop0 : Nat} {rate0 : Q} {f : Nat} {pr : Parsed} {rest : List String} {a : Args} {acc : Parsed}
    (ih : CHyp npop0 rate0 f pr) (hlen : rest.length ≤ f) (hp : PSuf npop0 ("-em" :: rest))
    (hinv : Inv (findStructure ("-em" :: rest)) npop0 rate0 a acc)
    (h2 : parseFrom npop0 (f + 1) ("-em" :: rest) acc = .ok pr) :
    ∃ args, ML ("-em" :: rest) a = .ok args ∧ Inv (.ok (1, 0)) npop0 rate0 args pr := by
  obtain ⟨_, _, hg, hnext, hargs, hl⟩ := hp.group_split
  have har : arity.lookup "-em" = some (.fixed 4) := by decide
  have hk : C08.argRun rest = 4 := groupOK_fixed har (by decide) (by decide) (by decide) hg
  have hfs := fs_group (flag := "-em") (C08.argRun rest) (by decide) hargs
  rw [hk] at hnext hfs hl
  obtain ⟨v0, v1, v2, v3, post, rfl⟩ := shape4 hk
  simp only [List.drop_succ_cons, List.drop_zero] at hnext hfs hl
  simp (decide := true) only [parseFrom, if_false, if_true, List.getD_cons_zero, List.getD_cons_succ, List.drop_succ_cons, List.drop_zero] at h2
  obtain ⟨_, _, h2⟩ := sbind_ok.1 h2
  obtain ⟨q0, hs0, h2⟩ := sbind_ok.1 h2
  obtain ⟨hf0, hq0⟩ := nonneg_ok.1 hs0
  obtain ⟨i1, hs1, h2⟩ := sbind_ok.1 h2
  obtain ⟨j1, hf1, hj1, rfl⟩ := idx_ok.1 hs1
  obtain ⟨i2, hs2, h2⟩ := sbind_ok.1 h2
  obtain ⟨j2, hf2, hj2, rfl⟩ := idx_ok.1 hs2
  obtain ⟨q3, hs3, h2⟩ := sbind_ok.1 h2
  obtain ⟨hf3, hq3⟩ := nonneg_ok.1 hs3
  rw [ML_fixed _ a (clsOf_known (known_mem _ (by decide))) har hk]
  have hT : takeAction a "-em" [v0, v1, v2, v3]
      = .ok { a with demographicEvents := a.demographicEvents ++ [.migEntryChange "-em" (.fin q0) j1 j2 (.fin q3)] } := by
    simp (decide := true) only [takeAction, if_false, if_true, arg, List.getD_cons_zero, List.getD_cons_succ,
      cFloat_some hf0, cInt_some hf1, cInt_some hf2, cFloat_some hf3, mkMigEntryChange_fin _ hq0 hj1 hj2 hq3, eok_bind]
    rfl
  simp only [List.take_succ_cons, List.take_zero, List.drop_succ_cons, List.drop_zero]
  rw [hT]
  exact ih post _ _ (by simp only [List.length_cons] at hlen; omega) hnext (hinv.ev hfs rfl hq0) h2

theorem B_em {npop0 : Nat} {f : Nat} {args : Args} {rest : List String} {a : Args} {acc : Parsed}
    (ih : BHyp npop0 f args) (hlen : rest.length ≤ f) (hp : PSuf npop0 ("-em" :: rest))
    (hfin : ∀ s ∈ "-em" :: rest, C08.finTok s = true) (hI : acc.sawI = true → "-I" ∉ "-em" :: rest)
    (h1 : ML ("-em" :: rest) a = .ok args) :
    ∃ pr, parseFrom npop0 (f + 1) ("-em" :: rest) acc = .ok pr := by
  obtain ⟨_, _, hg, hnext, hargs, hl⟩ := hp.group_split
  have har : arity.lookup "-em" = some (.fixed 4) := by decide
  have hk : C08.argRun rest = 4 := groupOK_fixed har (by decide) (by decide) (by decide) hg
  rw [hk] at hnext hl
  obtain ⟨v0, v1, v2, v3, post, rfl⟩ := shape4 hk
  simp only [List.drop_succ_cons, List.drop_zero] at hnext hl
  rw [ML_fixed _ a (clsOf_known (known_mem _ (by decide))) har hk] at h1
  obtain ⟨a', hT, h1⟩ := bind_ok.1 h1
  simp only [List.take_succ_cons, List.take_zero, List.drop_succ_cons, List.drop_zero] at hT h1
  simp (decide := true) only [takeAction, if_false, if_true, arg, List.getD_cons_zero, List.getD_cons_succ] at hT
  obtain ⟨x0, hc0, hT⟩ := bind_ok.1 hT
  obtain ⟨x1, hc1, hT⟩ := bind_ok.1 hT
  obtain ⟨x2, hc2, hT⟩ := bind_ok.1 hT
  obtain ⟨x3, hc3, hT⟩ := bind_ok.1 hT
  obtain ⟨e, he, hT⟩ := bind_ok.1 hT
  obtain ⟨hwq0, hwj1, hwj2, hwq3⟩ := mkMigEntryChange_ok he
  obtain ⟨q0, hs0⟩ := nonneg_of hc0 (hfin v0 (by simp)) hwq0
  have hs1 := idx_of hc1 hwj1
  have hs2 := idx_of hc2 hwj2
  obtain ⟨q3, hs3⟩ := nonneg_of hc3 (hfin v3 (by simp)) hwq3
  simp (decide := true) only [parseFrom, if_false, if_true, List.getD_cons_zero, List.getD_cons_succ, List.drop_succ_cons, List.drop_zero,
    need_ok (l := v0 :: v1 :: v2 :: v3 :: post) (k := 4) _ (by simp), hs0, hs1, hs2, hs3, sok_bind]
  exact ih post a' _ (by simp only [List.length_cons] at hlen; omega) hnext
    (fun s hs => hfin s (by simp [hs])) (fun h hm => hI h (by simp [hm])) h1

theorem C_ej {npop0 : Nat} {rate0 : Q} {f : Nat} {pr : Parsed} {rest : List String} {a : Args} {acc : Parsed}
    (ih : CHyp npop0 rate0 f pr) (hlen : rest.length ≤ f) (hp : PSuf npop0 ("-ej" :: rest))
    (hinv : Inv (findStructure ("-ej" :: rest)) npop0 rate0 a acc)
    (h2 : parseFrom npop0 (f + 1) ("-ej" :: rest) acc = .ok pr) :
    ∃ args, ML ("-ej" :: rest) a = .ok args ∧ Inv (.ok (1, 0)) npop0 rate0 args pr := by
  obtain ⟨_, _, hg, hnext, hargs, hl⟩ := hp.group_split
  have har : arity.lookup "-ej" = some (.fixed 3) := by decide
  have hk : C08.argRun rest = 3 := groupOK_fixed har (by decide) (by decide) (by decide) hg
  have hfs := fs_group (flag := "-ej") (C08.argRun rest) (by decide) hargs
  rw [hk] at hnext hfs hl
  obtain ⟨v0, v1, v2, post, rfl⟩ := shape3 hk
  simp only [List.drop_succ_cons, List.drop_zero] at hnext hfs hl
  simp (decide := true) only [parseFrom, if_false, if_true, List.getD_cons_zero, List.getD_cons_succ, List.drop_succ_cons, List.drop_zero] at h2
  obtain ⟨_, _, h2⟩ := sbind_ok.1 h2
  obtain ⟨q0, hs0, h2⟩ := sbind_ok.1 h2
  obtain ⟨hf0, hq0⟩ := nonneg_ok.1 hs0
  obtain ⟨i1, hs1, h2⟩ := sbind_ok.1 h2
  obtain ⟨j1, hf1, hj1, rfl⟩ := idx_ok.1 hs1
  obtain ⟨i2, hs2, h2⟩ := sbind_ok.1 h2
  obtain ⟨j2, hf2, hj2, rfl⟩ := idx_ok.1 hs2
  rw [ML_fixed _ a (clsOf_known (known_mem _ (by decide))) har hk]
  have hT : takeAction a "-ej" [v0, v1, v2]
      = .ok { a with demographicEvents := a.demographicEvents ++ [.join "-ej" (.fin q0) j1 j2] } := by
    simp (decide := true) only [takeAction, if_false, if_true, arg, List.getD_cons_zero, List.getD_cons_succ,
      cFloat_some hf0, cInt_some hf1, cInt_some hf2, mkJoin_fin _ hq0 hj1 hj2, eok_bind]
    rfl
  simp only [List.take_succ_cons, List.take_zero, List.drop_succ_cons, List.drop_zero]
  rw [hT]
  exact ih post _ _ (by simp only [List.length_cons] at hlen; omega) hnext (hinv.ev hfs rfl hq0) h2

theorem B_ej {npop0 : Nat} {f : Nat} {args : Args} {rest : List String} {a : Args} {acc : Parsed}
    (ih : BHyp npop0 f args) (hlen : rest.length ≤ f) (hp : PSuf npop0 ("-ej" :: rest))
    (hfin : ∀ s ∈ "-ej" :: rest, C08.finTok s = true) (hI : acc.sawI = true → "-I" ∉ "-ej" :: rest)
    (h1 : ML ("-ej" :: rest) a = .ok args) :
    ∃ pr, parseFrom npop0 (f + 1) ("-ej" :: rest) acc = .ok pr := by
  obtain ⟨_, _, hg, hnext, hargs, hl⟩ := hp.group_split
  have har : arity.lookup "-ej" = some (.fixed 3) := by decide
  have hk : C08.argRun rest = 3 := groupOK_fixed har (by decide) (by decide) (by decide) hg
  rw [hk] at hnext hl
  obtain ⟨v0, v1, v2, post, rfl⟩ := shape3 hk
  simp only [List.drop_succ_cons, List.drop_zero] at hnext hl
  rw [ML_fixed _ a (clsOf_known (known_mem _ (by decide))) har hk] at h1
  obtain ⟨a', hT, h1⟩ := bind_ok.1 h1
  simp only [List.take_succ_cons, List.take_zero, List.drop_succ_cons, List.drop_zero] at hT h1
  simp (decide := true) only [takeAction, if_false, if_true, arg, List.getD_cons_zero, List.getD_cons_succ] at hT
  obtain ⟨x0, hc0, hT⟩ := bind_ok.1 hT
  obtain ⟨x1, hc1, hT⟩ := bind_ok.1 hT
  obtain ⟨x2, hc2, hT⟩ := bind_ok.1 hT
  obtain ⟨e, he, hT⟩ := bind_ok.1 hT
  obtain ⟨hwq0, hwj1, hwj2⟩ := mkJoin_ok he
  obtain ⟨q0, hs0⟩ := nonneg_of hc0 (hfin v0 (by simp)) hwq0
  have hs1 := idx_of hc1 hwj1
  have hs2 := idx_of hc2 hwj2
  simp (decide := true) only [parseFrom, if_false, if_true, List.getD_cons_zero, List.getD_cons_succ, List.drop_succ_cons, List.drop_zero,
    need_ok (l := v0 :: v1 :: v2 :: post) (k := 3) _ (by simp), hs0, hs1, hs2, sok_bind]
  exact ih post a' _ (by simp only [List.length_cons] at hlen; omega) hnext
    (fun s hs => hfin s (by simp [hs])) (fun h hm => hI h (by simp [hm])) h1

end Demes.Proofs.FromMsParse
