/-
  C08 / C01 — `from_ms` hands out valid graphs.

  `fromMs` ends with `Demes.resolve` on the assembled document (so `resolve_valid` applies) and,
  with `deme_names`, with `renameDemesChecked` under the name map `deme{j+1} ↦ names[j]`.  The two
  checks of `from_ms` (`len(set(deme_names)) == len(graph.demes)` and, in `remap_deme_names`,
  "the keys are exactly the graph's deme names") give the first three clauses of `RenameOK`; the
  validation at the end of `Graph.rename_demes` (repair of F23: resulting names are identifiers
  and pairwise distinct) gives the identifier clause.  So every graph `from_ms` returns is valid.
-/
import DemesVerif.Proofs.RenameChecked
import DemesVerif.Proofs.ResolveValid
import DemesVerif.Spec.C08
namespace Demes.Proofs.FromMs
open Demes Demes.Ms Demes.Spec
open Demes.Proofs.RV (bind_ok pure_ok)

/-! ### the stages of `fromMs` -/

theorem buildGraph_ok {args : Args} {N0 : Q} {mg : MsGraph} (h : buildGraph args N0 = .ok mg) :
    buildDoc args N0 = .ok mg.doc ∧ mg.table = placeholders mg.doc
      ∧ resolve (mg.doc.toValue mg.table) = .ok mg.graph := by
  unfold buildGraph at h
  obtain ⟨doc, hdoc, h⟩ := bind_ok.1 h
  obtain ⟨g, hg, h⟩ := bind_ok.1 h
  rw [pure_ok] at h
  subst h
  exact ⟨hdoc, rfl, hg⟩

theorem fromMs_none_ok {c : List String} {N0 : Q} {mg : MsGraph} (h : fromMs c N0 none = .ok mg) :
    ∃ args, parseKnownArgs c = .ok args ∧ buildGraph args N0 = .ok mg := by
  unfold fromMs at h
  obtain ⟨args, hargs, h⟩ := bind_ok.1 h
  obtain ⟨mg', hmg, h⟩ := bind_ok.1 h
  rw [pure_ok] at h
  subst h
  exact ⟨args, hargs, hmg⟩

/-- the name map `dict(zip(("deme{j+1}" …), deme_names))` -/
def nameMap (names : List String) : Renaming :=
  ((List.range names.length).zip names).map (fun (jn : Nat × String) => (Ms.demeName jn.1, jn.2))

theorem fromMs_some_ok {c : List String} {N0 : Q} {names : List String} {mg' : MsGraph}
    (h : fromMs c N0 (some names) = .ok mg') :
    ∃ mg, fromMs c N0 none = .ok mg
      ∧ names.eraseDups.length = mg.graph.demes.length
      ∧ ((nameMap names).map (·.1)).foldr insertStr [] = (mg.graph.demes.map (·.name)).foldr insertStr []
      ∧ renameNamesOk mg.graph (nameMap names) = true
      ∧ mg' = { mg with graph := renameDemes mg.graph (nameMap names) } := by
  unfold fromMs at h ⊢
  obtain ⟨args, hargs, h⟩ := bind_ok.1 h
  obtain ⟨mg, hmg, h⟩ := bind_ok.1 h
  refine ⟨mg, by rw [hargs]; show (buildGraph args N0 >>= _) = _; rw [hmg]; rfl, ?_⟩
  simp only at h
  split at h
  · cases h
  rename_i h1
  split at h
  · cases h
  rename_i h2
  obtain ⟨g', hg', h⟩ := bind_ok.1 h
  rw [pure_ok] at h
  obtain ⟨hok, rfl⟩ := (renameChecked_ok_iff _ _ _).mp hg'
  exact ⟨by simpa using h1, by simpa [nameMap] using h2, hok, h.symm⟩

/-! ### list facts -/

theorem insertStr_perm (x : String) (l : List String) : (insertStr x l).Perm (x :: l) := by
  induction l with
  | nil => exact List.Perm.refl _
  | cons y ys ih =>
    unfold insertStr
    split
    · exact List.Perm.refl _
    · exact ((List.Perm.cons y ih).trans (List.Perm.swap x y ys))

theorem sortStr_perm (l : List String) : (l.foldr insertStr []).Perm l := by
  induction l with
  | nil => exact List.Perm.refl _
  | cons x xs ih => exact (insertStr_perm x _).trans (List.Perm.cons x ih)

theorem eraseDups_length_le : ∀ (n : Nat) (l : List String), l.length ≤ n → l.eraseDups.length ≤ l.length := by
  intro n
  induction n with
  | zero => intro l hl; cases l with
    | nil => simp
    | cons _ _ => simp at hl
  | succ n ih =>
    intro l hl
    cases l with
    | nil => simp
    | cons a as =>
      rw [List.eraseDups_cons, List.length_cons, List.length_cons]
      have h1 : (as.filter (fun b => !b == a)).length ≤ as.length := List.length_filter_le _ _
      have h2 := ih (as.filter (fun b => !b == a)) (by simp only [List.length_cons] at hl; omega)
      omega

theorem nodup_of_eraseDups_length : ∀ (n : Nat) (l : List String), l.length ≤ n →
    l.eraseDups.length = l.length → l.Nodup := by
  intro n
  induction n with
  | zero => intro l hl _; cases l with
    | nil => exact List.nodup_nil
    | cons _ _ => simp at hl
  | succ n ih =>
    intro l hl h
    cases l with
    | nil => exact List.nodup_nil
    | cons a as =>
      rw [List.eraseDups_cons, List.length_cons, List.length_cons] at h
      have h1 : (as.filter (fun b => !b == a)).length ≤ as.length := List.length_filter_le _ _
      have h2 := eraseDups_length_le _ (as.filter (fun b => !b == a)) (Nat.le_refl _)
      have h3 : (as.filter (fun b => !b == a)).length = as.length := by omega
      have h4 : as.filter (fun b => !b == a) = as := List.filter_eq_self.mpr (by
        intro b hb
        exact (List.length_filter_eq_length_iff.mp h3) b hb)
      rw [h4] at h
      simp only [List.length_cons] at hl
      refine List.nodup_cons.mpr ⟨?_, ih as (by omega) (by omega)⟩
      intro ha
      have := (List.filter_eq_self.mp h4) a ha
      simp at this

theorem nameMap_keys (names : List String) :
    (nameMap names).map (·.1) = (List.range names.length).map Ms.demeName := by
  unfold nameMap
  rw [List.map_map]
  have : ((fun x : String × String => x.1) ∘ fun jn : Nat × String => (Ms.demeName jn.1, jn.2))
      = Ms.demeName ∘ Prod.fst := rfl
  rw [this, ← List.map_map, List.map_fst_zip (by simp)]

theorem nameMap_values (names : List String) : (nameMap names).map (·.2) = names := by
  unfold nameMap
  rw [List.map_map]
  have : ((fun x : String × String => x.2) ∘ fun jn : Nat × String => (Ms.demeName jn.1, jn.2))
      = Prod.snd := rfl
  rw [this, List.map_snd_zip (by simp)]

theorem map_apply_keys {r : Renaming} (hk : (r.map (·.1)).Nodup) :
    (r.map (·.1)).map r.apply = r.map (·.2) := by
  rw [List.map_map]
  apply List.map_congr_left
  intro kv hkv
  exact apply_of_mem hk (by cases kv; exact hkv)

/-! ### the clauses of `RenameOK` that `from_ms` establishes -/

/-- what the two checks of `from_ms` give: the keys of the name map are distinct and are
exactly (a permutation of) the deme names; the supplied names are pairwise distinct; and the
new name list of the graph is a permutation of the supplied names -/
theorem nameMap_facts {g : Graph} {names : List String} (hnd : (g.demes.map (·.name)).Nodup)
    (h1 : names.eraseDups.length = g.demes.length)
    (h2 : ((nameMap names).map (·.1)).foldr insertStr [] = (g.demes.map (·.name)).foldr insertStr []) :
    ((nameMap names).map (·.1)).Perm (g.demes.map (·.name))
    ∧ ((nameMap names).map (·.1)).Nodup
    ∧ names.Nodup
    ∧ (g.demes.map (fun d => (nameMap names).apply d.name)).Perm names := by
  have hperm : ((nameMap names).map (·.1)).Perm (g.demes.map (·.name)) :=
    (sortStr_perm _).symm.trans (h2 ▸ sortStr_perm _)
  have hk : ((nameMap names).map (·.1)).Nodup := hperm.nodup_iff.mpr hnd
  have hlen : names.length = g.demes.length := by
    have := hperm.length_eq
    rw [nameMap_keys] at this
    simpa using this
  have hnn : names.Nodup := nodup_of_eraseDups_length _ names (Nat.le_refl _) (by omega)
  refine ⟨hperm, hk, hnn, ?_⟩
  have : g.demes.map (fun d => (nameMap names).apply d.name) = (g.demes.map (·.name)).map (nameMap names).apply := by
    rw [List.map_map]; rfl
  rw [this]
  have h3 := (hperm.map (nameMap names).apply).symm
  rw [map_apply_keys hk, nameMap_values] at h3
  exact h3

theorem renameOK_of_checks {g : Graph} {names : List String} (hnd : (g.demes.map (·.name)).Nodup)
    (h1 : names.eraseDups.length = g.demes.length)
    (h2 : ((nameMap names).map (·.1)).foldr insertStr [] = (g.demes.map (·.name)).foldr insertStr [])
    (hid : ∀ n ∈ names, isIdentifier n = true) : RenameOK g (nameMap names) := by
  obtain ⟨hperm, hk, hnn, hp⟩ := nameMap_facts hnd h1 h2
  refine ⟨hk, fun k hkm => hperm.mem_iff.mp hkm, hp.nodup_iff.mpr hnn, ?_⟩
  intro d hd
  exact hid _ (hp.mem_iff.mp (List.mem_map.mpr ⟨d, hd, rfl⟩))

/-! ### the theorems -/

/-- without `deme_names`: the result of `from_ms` is the result of `resolve`, hence valid -/
theorem fromMs_valid {c : List String} {N0 : Q} {mg : MsGraph} (h : fromMs c N0 none = .ok mg) :
    validGraph mg.graph = true := by
  obtain ⟨args, _, hb⟩ := fromMs_none_ok h
  exact resolve_valid _ _ (buildGraph_ok hb).2.2

/-- with `deme_names`: everything `RenameOK` asks for — the first three clauses from the two
checks of `from_ms`, the identifier clause from the validation in `rename_demes` -/
theorem fromMs_names_checked {c : List String} {N0 : Q} {names : List String} {mg' : MsGraph}
    (h : fromMs c N0 (some names) = .ok mg') :
    ∃ mg, fromMs c N0 none = .ok mg ∧ mg'.graph = renameDemes mg.graph (nameMap names)
      ∧ mg'.doc = mg.doc ∧ mg'.table = mg.table
      ∧ ((nameMap names).map (·.1)).Nodup
      ∧ (∀ k ∈ (nameMap names).map (·.1), k ∈ mg.graph.demes.map (·.name))
      ∧ (mg.graph.demes.map (fun d => (nameMap names).apply d.name)).Nodup
      ∧ names.Nodup ∧ names.length = mg.graph.demes.length
      ∧ (mg'.graph.demes.map (·.name)).Perm names
      ∧ (∀ n ∈ names, isIdentifier n = true) := by
  obtain ⟨mg, hmg, h1, h2, hok, rfl⟩ := fromMs_some_ok h
  obtain ⟨args, _, hb⟩ := fromMs_none_ok hmg
  have hnd := (resolve_names_unique _ _ (buildGraph_ok hb).2.2).2.2
  obtain ⟨hperm, hk, hnn, hp⟩ := nameMap_facts hnd h1 h2
  refine ⟨mg, hmg, rfl, rfl, rfl, hk, fun k hkm => hperm.mem_iff.mp hkm, hp.nodup_iff.mpr hnn, hnn, ?_, ?_, ?_⟩
  · have := hp.length_eq; simpa using this.symm
  · simp only [rename_demes_eq, List.map_map]
    exact hp
  · intro n hn
    obtain ⟨d, hd, hdn⟩ := List.mem_map.mp (hp.mem_iff.mpr hn)
    rw [← hdn]
    exact ((renameNamesOk_iff _ _).mp hok).2 d hd

/-- with `deme_names`: the name map is a legitimate renaming (`RenameOK`) of the result without
names, so every theorem of C15 (lookups, inverse renaming) applies to the result of `from_ms` -/
theorem fromMs_renameOK {c : List String} {N0 : Q} {names : List String} {mg' : MsGraph}
    (h : fromMs c N0 (some names) = .ok mg') :
    ∃ mg, fromMs c N0 none = .ok mg ∧ mg'.graph = renameDemes mg.graph (nameMap names)
      ∧ RenameOK mg.graph (nameMap names) := by
  obtain ⟨mg, hmg, _, _, _, hk, hkeys, hnd, _, _, _, hid⟩ := fromMs_names_checked h
  obtain ⟨mg2, hmg2, _, _, hok, _⟩ := fromMs_some_ok h
  have : mg2 = mg := by rw [hmg] at hmg2; injection hmg2 with e; exact e.symm
  subst this
  exact ⟨mg2, hmg, by assumption, hk, hkeys, hnd, ((renameNamesOk_iff _ _).mp hok).2⟩

/-- with or without `deme_names`: whatever `from_ms` returns is a valid graph -/
theorem fromMs_valid_all {c : List String} {N0 : Q} {names : Option (List String)} {mg : MsGraph}
    (h : fromMs c N0 names = .ok mg) : validGraph mg.graph = true := by
  cases names with
  | none => exact fromMs_valid h
  | some names =>
    obtain ⟨mg0, hmg0, _, _, hok, rfl⟩ := fromMs_some_ok h
    obtain ⟨hn, hid⟩ := (renameNamesOk_iff _ _).mp hok
    exact rename_valid_of_names (fromMs_valid hmg0) hn hid

/-- `from_ms` with a name that is not an identifier, or with colliding names, is rejected -/
theorem fromMs_bad_names_rejected {c : List String} {N0 : Q} {names : List String}
    (hbad : ∃ n ∈ names, isIdentifier n = false) : ∃ e, fromMs c N0 (some names) = .error e := by
  cases hf : fromMs c N0 (some names) with
  | error e => exact ⟨e, rfl⟩
  | ok mg' =>
    obtain ⟨n, hn, hbn⟩ := hbad
    obtain ⟨_, _, _, _, _, _, _, _, _, _, _, hid⟩ := fromMs_names_checked hf
    rw [hid n hn] at hbn; cases hbn

end Demes.Proofs.FromMs
