/-
  C11 — conversion to generations rescales all the times and nothing else.

  `inGenerations` (Model/Views.lean) mirrors `Graph.in_generations`.  Times are exact
  rationals or +∞ (`ETime`); `ETime.div` divides a possibly infinite time (∞ stays ∞).
  The Model function is pure, so "the original graph is not modified" holds by construction
  of the Model (the Python side of that clause — `copy.deepcopy` before mutation — is covered
  by the differential harness, not by a theorem).

  `inGenerations_header`, `_times`, `_rest` and `_idem` hold for every graph; validity (which
  gives `0 < generationTime` through clause V13) is needed only for `inGenerations_valid`.
  Together `_header`, `_times` and `_rest` mention every field of `Graph`, `Deme`, `Epoch`,
  `Migration` and `Pulse`, so they determine the result completely.
-/
import DemesVerif.Proofs.InGenerations
namespace Demes.Theorems
open Demes Demes.Spec

/-- The generations view has time units "generations" and generation time 1. -/
theorem inGenerations_header (g : Graph) :
    (inGenerations g).timeUnits = "generations" ∧ (inGenerations g).generationTime = 1 :=
  Proofs.InGen.inGenerations_header g

/-- Meaning of `ETime.div`: a finite time is divided, an infinite one stays infinite. -/
theorem time_division (q c : Q) :
    (ETime.fin q).div c = ETime.fin (q / c) ∧ ETime.inf.div c = ETime.inf :=
  Proofs.InGen.time_division q c

/-- Every time is the original divided by the generation time, position by position: the
lists of demes, migrations and pulses (and each deme's list of epochs) keep their lengths;
deme `i`'s start time, each of its epochs' start and end times, each migration's start and
end times and each pulse's time are the original ones divided by `g.generationTime`. -/
theorem inGenerations_times (g : Graph) :
    (inGenerations g).demes.length = g.demes.length
    ∧ (inGenerations g).migrations.length = g.migrations.length
    ∧ (inGenerations g).pulses.length = g.pulses.length
    ∧ (∀ (i : Nat) (d : Deme), g.demes[i]? = some d →
        ∃ d' : Deme, (inGenerations g).demes[i]? = some d'
          ∧ d'.startTime = d.startTime.div g.generationTime
          ∧ d'.epochs.length = d.epochs.length
          ∧ ∀ (j : Nat) (e : Epoch), d.epochs[j]? = some e →
              ∃ e' : Epoch, d'.epochs[j]? = some e'
                ∧ e'.startTime = e.startTime.div g.generationTime
                ∧ e'.endTime = e.endTime / g.generationTime)
    ∧ (∀ (i : Nat) (m : Migration), g.migrations[i]? = some m →
        ∃ m' : Migration, (inGenerations g).migrations[i]? = some m'
          ∧ m'.startTime = m.startTime.div g.generationTime
          ∧ m'.endTime = m.endTime / g.generationTime)
    ∧ (∀ (i : Nat) (p : Pulse), g.pulses[i]? = some p →
        ∃ p' : Pulse, (inGenerations g).pulses[i]? = some p' ∧ p'.time = p.time / g.generationTime) :=
  Proofs.InGen.inGenerations_times g

/-- Nothing else changes, position by position: graph description, doi, metadata and name
index; each deme's name, description, ancestors and proportions; each epoch's sizes, size
function, selfing and cloning rates; each migration's source, destination and rate; each
pulse's sources, destination and proportions.  (Order is preserved because the statement is
by position.) -/
theorem inGenerations_rest (g : Graph) :
    (inGenerations g).description = g.description
    ∧ (inGenerations g).doi = g.doi
    ∧ (inGenerations g).metadata = g.metadata
    ∧ (inGenerations g).index = g.index
    ∧ (∀ (i : Nat) (d : Deme), g.demes[i]? = some d →
        ∃ d' : Deme, (inGenerations g).demes[i]? = some d'
          ∧ d'.name = d.name ∧ d'.description = d.description
          ∧ d'.ancestors = d.ancestors ∧ d'.proportions = d.proportions
          ∧ ∀ (j : Nat) (e : Epoch), d.epochs[j]? = some e →
              ∃ e' : Epoch, d'.epochs[j]? = some e'
                ∧ e'.startSize = e.startSize ∧ e'.endSize = e.endSize
                ∧ e'.sizeFunction = e.sizeFunction
                ∧ e'.selfingRate = e.selfingRate ∧ e'.cloningRate = e.cloningRate)
    ∧ (∀ (i : Nat) (m : Migration), g.migrations[i]? = some m →
        ∃ m' : Migration, (inGenerations g).migrations[i]? = some m'
          ∧ m'.source = m.source ∧ m'.dest = m.dest ∧ m'.rate = m.rate)
    ∧ (∀ (i : Nat) (p : Pulse), g.pulses[i]? = some p →
        ∃ p' : Pulse, (inGenerations g).pulses[i]? = some p'
          ∧ p'.sources = p.sources ∧ p'.dest = p.dest ∧ p'.proportions = p.proportions) :=
  Proofs.InGen.inGenerations_rest g

/-- A graph already in generations (units "generations", generation time 1) is unchanged. -/
theorem inGenerations_fixed (g : Graph) (hu : g.timeUnits = "generations")
    (hg : g.generationTime = 1) : inGenerations g = g :=
  Proofs.InGen.inGenerations_fixed g hu hg

/-- Applying the conversion twice changes nothing further. -/
theorem inGenerations_idem (g : Graph) : inGenerations (inGenerations g) = inGenerations g :=
  Proofs.InGen.inGenerations_idem g

/-- The generations view of a valid graph is a valid graph. -/
theorem inGenerations_valid (g : Graph) (hv : validGraph g = true) :
    validGraph (inGenerations g) = true :=
  Proofs.InGen.inGenerations_valid g hv

/-! ### Non-vacuity: a three-deme graph in years with generation time 2 -/

example : Proofs.InGen.exampleYears.generationTime = 2
    ∧ Proofs.InGen.exampleYears.timeUnits = "years" := by decide +kernel

/-- the hypothesis of `inGenerations_valid` is satisfiable by a non-trivial graph … -/
example : validGraph Proofs.InGen.exampleYears = true := by decide +kernel

/-- … and its image is valid, as the theorem says (checked independently by evaluation). -/
example : validGraph (inGenerations Proofs.InGen.exampleYears) = true := by decide +kernel

/-- the image really has halved (here partly non-integer) times and unchanged rates -/
example :
    (inGenerations Proofs.InGen.exampleYears).demes.map (·.startTime)
        = [.inf, .fin (81/2), .fin 20]
    ∧ (inGenerations Proofs.InGen.exampleYears).migrations.map (fun m => (m.startTime, m.endTime, m.rate))
        = [(.fin (81/2), 21/2, 1/4), (.fin 20, 0, 1/8), (.fin (15/2), 3/2, 1/16)]
    ∧ (inGenerations Proofs.InGen.exampleYears).pulses.map (·.time) = [5, 5/2] := by
  decide +kernel

/-- the hypotheses of `inGenerations_fixed` are satisfiable (by the image graph) -/
example : (inGenerations Proofs.InGen.exampleYears).timeUnits = "generations"
    ∧ (inGenerations Proofs.InGen.exampleYears).generationTime = 1 := by decide +kernel

end Demes.Theorems
