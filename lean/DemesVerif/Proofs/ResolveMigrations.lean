/-
  C01, stage 3: the migration loop of `Graph.fromdict`.
-/
import DemesVerif.Proofs.ResolveDemes
namespace Demes.Proofs.RV
open Demes Demes.Spec

/-! ### `_check_time_intersection` and `_add_asymmetric_migration` -/

theorem timeIntersection_ok {g : Graph} {n1 n2 : String} {time : Option Value} {lo : Q} {hi : ETime}
    (h : timeIntersection g n1 n2 time = .ok (lo, hi)) :
    ∃ d1 d2, g.deme? n1 = some d1 ∧ g.deme? n2 = some d2
      ∧ lo = qmax d1.endTime d2.endTime ∧ hi = ETime.min d1.startTime d2.startTime
      ∧ ∀ v, time = some v → ∃ t, v.asNumRaw? = some t ∧ Num.le (Num.fin lo) t = true
          ∧ Num.le t (Num.ofETime hi) = true := by
  unfold timeIntersection at h
  obtain ⟨d1, h1, h⟩ := bind_ok.1 h
  obtain ⟨d2, h2, h⟩ := bind_ok.1 h
  refine ⟨d1, d2, getDeme_ok h1, getDeme_ok h2, ?_⟩
  cases time with
  | none =>
    simp only [pure_ok, Prod.mk.injEq] at h
    exact ⟨h.1.symm, h.2.symm, fun v hv => by cases hv⟩
  | some v =>
    simp only [] at h
    split at h
    · exact (typeErr_ok.1 h).elim
    · rename_i t ht
      simp only [ite_ok, valueErr_ok, and_false, or_false, pure_ok, Prod.mk.injEq, Bool.and_eq_true] at h
      obtain ⟨⟨hc1, hc2⟩, rfl, rfl⟩ := h
      refine ⟨rfl, rfl, ?_⟩
      intro v' hv'
      cases hv'
      exact ⟨t, ht, hc1, hc2⟩

theorem num_le_refl_ofETime (t : ETime) : Num.le (Num.ofETime t) (Num.ofETime t) = true := by
  cases t
  · simp only [Num.ofETime, Num.le, decide_eq_true_eq]; exact Rat.le_refl
  · rfl

theorem addAsymmetricMigration_ok {g g' : Graph} {sourceV destV rateV : Value}
    {startTimeV endTimeV : Option Value}
    (h : addAsymmetricMigration g sourceV destV rateV startTimeV endTimeV = .ok g') :
    ∃ (m : Migration) (s d : Deme), g' = { g with migrations := g.migrations ++ [m] }
      ∧ g.deme? m.source = some s ∧ g.deme? m.dest = some d ∧ m.source ≠ m.dest
      ∧ ETime.fin m.endTime < m.startTime
      ∧ qmax s.endTime d.endTime ≤ m.endTime ∧ m.startTime ≤ ETime.min s.startTime d.startTime
      ∧ 0 ≤ m.rate ∧ m.rate ≤ 1
      ∧ g.migrations.any (fun o => o.source = m.source && o.dest = m.dest
          && decide (ETime.fin m.endTime < o.startTime) && decide (ETime.fin o.endTime < m.startTime))
        = false := by
  unfold addAsymmetricMigration at h
  obtain ⟨source, hsource, h⟩ := bind_ok.1 h
  obtain ⟨dest, hdest, h⟩ := bind_ok.1 h
  obtain ⟨⟨lo, hi⟩, hti, h⟩ := bind_ok.1 h
  dsimp -zeta only at h
  extract_lets startV jp1 at h
  obtain ⟨d1, d2, hd1, hd2, hlo, hhi, hst⟩ := timeIntersection_ok hti
  have hstartV : ∃ t, startV.asNumRaw? = some t ∧ Num.le t (Num.ofETime hi) = true := by
    cases startTimeV with
    | none => exact ⟨Num.ofETime hi, rfl, num_le_refl_ofETime hi⟩
    | some v =>
      obtain ⟨t, h1, _, h3⟩ := hst v rfl
      exact ⟨t, h1, h3⟩
  have h1 : ∃ endV : Value, (∃ t, endV.asNumRaw? = some t ∧ Num.le (Num.fin lo) t = true)
      ∧ jp1 endV = .ok g' := by
    cases endTimeV with
    | none =>
      refine ⟨_, ⟨Num.fin lo, rfl, ?_⟩, pbind h⟩
      simp only [Num.le, decide_eq_true_eq]; exact Rat.le_refl
    | some v =>
      obtain ⟨⟨lo', hi'⟩, hti', h⟩ := bind_ok.1 h
      obtain ⟨d1', d2', hd1', hd2', hlo', _, hst'⟩ := timeIntersection_ok hti'
      rw [hd1] at hd1'; rw [hd2] at hd2'
      cases hd1'; cases hd2'
      obtain ⟨t, h1, h2, _⟩ := hst' v rfl
      rw [hlo', ← hlo] at h2
      exact ⟨v, ⟨t, h1, h2⟩, pbind h⟩
  clear h
  obtain ⟨endV, hendV, h⟩ := h1
  dsimp -zeta only [jp1] at h
  extract_lets jp3 jp2 at h
  obtain ⟨_, h⟩ := ite_verr h
  dsimp -zeta only [jp2] at h
  obtain ⟨_, h⟩ := ite_verr h
  dsimp -zeta only [jp3] at h
  obtain ⟨startTime, hstartTime, h⟩ := bind_ok.1 h
  obtain ⟨endTime, hendTime, h⟩ := bind_ok.1 h
  obtain ⟨rate, hrate, h⟩ := bind_ok.1 h
  extract_lets jp4 jp5 jp6 at h
  obtain ⟨hne, h⟩ := ite_verr h
  dsimp -zeta only [jp6] at h
  obtain ⟨hlt, h⟩ := ite_verr h
  dsimp -zeta only [jp5] at h
  obtain ⟨hany, h⟩ := ite_verr h
  dsimp -zeta only [jp4] at h
  rw [pure_ok] at h
  subst h
  have hs := (existingName_ok hsource).2
  have hd := (existingName_ok hdest).2
  obtain ⟨ts, hts1, hts2⟩ := hstartV
  obtain ⟨te, hte1, hte2⟩ := hendV
  have h1 := nonNegTime_ok hstartTime
  have h2 := nonNegFiniteQ_ok hendTime
  rw [hts1] at h1; rw [hte1] at h2
  have h1' := Option.some.inj h1.1
  have h2' := Option.some.inj h2.1
  subst h1' h2'
  refine ⟨_, d1, d2, rfl, hd1, hd2, hne, by simpa using hlt, ?_, ?_, (unitQ_ok hrate).1,
    (unitQ_ok hrate).2, by simpa using hany⟩
  · show qmax d1.endTime d2.endTime ≤ endTime
    rw [← hlo]
    simpa [Num.le] using hte2
  · show startTime ≤ ETime.min d1.startTime d2.startTime
    rw [← hhi]
    exact num_le_ofETime hts2

/-! ### the migration loop -/

theorem pairwiseB_snoc {α} (r : α → α → Bool) (x : α) : ∀ xs : List α,
    pairwiseB r (xs ++ [x]) = (pairwiseB r xs && xs.all (fun y => r y x))
  | [] => by simp [pairwiseB]
  | y :: ys => by
    simp only [List.cons_append, pairwiseB, pairwiseB_snoc r x ys, List.all_append, List.all_cons,
      List.all_nil, Bool.and_true]
    cases (ys.all (r y)) <;> cases (r y x) <;> cases (pairwiseB r ys) <;> simp

/-- invariant of the migration loop -/
structure Inv3 (g : Graph) : Prop where
  d : DInv g
  ne : g.demes ≠ []
  h13 : v13 g = true
  h8 : v8 g = true
  h9 : v9 g = true
  pulses : g.pulses = []

theorem addAsymmetricMigration_inv {g g' : Graph} {sourceV destV rateV : Value}
    {startTimeV endTimeV : Option Value} (hi : Inv3 g)
    (h : addAsymmetricMigration g sourceV destV rateV startTimeV endTimeV = .ok g') : Inv3 g' := by
  obtain ⟨m, s, d, rfl, hs, hd, hne, hlt, hlo, hhi, hr0, hr1, hany⟩ := addAsymmetricMigration_ok h
  rw [deme?_eq_findDeme hi.d.h0] at hs hd
  refine ⟨DInv.congr (g := g) rfl rfl hi.d, hi.ne, v13_congr rfl rfl rfl hi.h13, ?_, ?_, hi.pulses⟩
  · have h8 := hi.h8
    simp only [v8, findDeme, List.all_append, Bool.and_eq_true, List.all_cons, List.all_nil,
      Bool.and_true] at h8 ⊢
    refine ⟨h8, by simpa using hne, ?_⟩
    simp only [findDeme] at hs hd
    rw [hs, hd]
    simp only [coexist, Bool.and_eq_true]
    exact ⟨⟨⟨⟨decide_eq_true hlt, decide_eq_true hlo⟩, decide_eq_true hhi⟩, decide_eq_true hr0⟩,
      decide_eq_true hr1⟩
  · have h9 := hi.h9
    simp only [v9] at h9 ⊢
    rw [pairwiseB_snoc, h9, Bool.true_and, List.all_eq_true]
    intro o ho
    have := List.any_eq_false.1 hany o ho
    simp only [disjoint, Bool.or_eq_true, Bool.not_eq_true', Bool.and_eq_false_iff, beq_eq_false_iff_ne,
      decide_eq_false_iff_not, Bool.and_eq_true, decide_eq_true_eq, not_and] at this ⊢
    grind

theorem addSymmetricMigration_inv {g g' : Graph} {demesV rateV : Value}
    {startTimeV endTimeV : Option Value} (hi : Inv3 g)
    (h : addSymmetricMigration g demesV rateV startTimeV endTimeV = .ok g') : Inv3 g' := by
  unfold addSymmetricMigration at h
  extract_lets jp at h
  have h1 : ∃ names, jp names = .ok g' := by
    cases demesV with
    | list xs =>
      dsimp only at h
      split at h
      · exact (valueErr_bind_ok.1 h).elim
      · exact ⟨xs, pbind h⟩
    | _ => exact (valueErr_bind_ok.1 h).elim
  clear h
  obtain ⟨names, h⟩ := h1
  dsimp only [jp] at h
  exact foldlM_inv Inv3 _ (fun s a s' hs hst => addAsymmetricMigration_inv hs hst) _ _ _ hi h

theorem resolveMigration_inv {md : Obj} {g g' : Graph} {m : Obj} (hi : Inv3 g)
    (h : resolveMigration md g m = .ok g') : Inv3 g' := by
  unfold resolveMigration at h
  obtain ⟨_, _, h⟩ := bind_ok.1 h
  extract_lets m1 jp1 at h
  have h1 : ∃ rateV, jp1 rateV = .ok g' := by
    cases hl : Obj.lookup "rate" m1 with
    | some v => rw [hl] at h; exact ⟨v, pbind h⟩
    | none => rw [hl] at h; exact (keyErr_bind_ok.1 h).elim
  clear h
  obtain ⟨rateV, h⟩ := h1
  dsimp only [jp1] at h
  split at h
  · exact addSymmetricMigration_inv hi h
  · exact addAsymmetricMigration_inv hi h
  · exact (keyErr_ok.1 h).elim

/-- the migration loop -/
theorem migrationLoop_ok {md : Obj} {g1 g2 : Graph} {xs : List Obj} (h1 : Inv2 g1) (hne : g1.demes ≠ [])
    (h : List.foldlM (resolveMigration md) g1 xs = .ok g2) : Inv3 g2 := by
  refine foldlM_inv Inv3 _ (fun s a s' hs hst => resolveMigration_inv hs hst) _ _ _ ?_ h
  refine ⟨h1.d, hne, h1.h13, ?_, ?_, h1.pulses⟩
  · simp [v8, h1.migs]
  · simp [v9, h1.migs, pairwiseB]

end Demes.Proofs.RV
